#!/usr/bin/env python3
"""Program, configuration and file-name generators (G-shape, G-rand, G-cfg, G-mal of DESIGN.md section 7).
Every random choice comes from one SplitMix64 state."""
import json
from vlib import SplitMix64

METHOD_POOL = ["substring", "trim", "trimStart", "trimEnd", "concat", "slice", "replace", "replaceAll",
               "padStart", "padEnd", "repeat", "toLowerCase", "split", "custom"]
LITERAL_CALLERS = ["concat", "replace", "replaceAll", "padStart", "padEnd", "repeat"]
IDENTS = ["a", "b", "c", "s", "o", "arr", "x", "y", "z", "k", "fn", "obj"]
STR_LITS = ["'lit'", "\"dq\"", "'a longer string literal here'", "''", "'\\u00e9t\\u00e9'", "'it\\'s'",
            "'0123456789abcdef0123456789abcdef'", "\"//# sourceMappingURL=x.map\""]


class Gen:
    def __init__(self, rng: SplitMix64, methods=None, effectful=False):
        self.r = rng
        self.methods = methods or METHOD_POOL
        self.effectful = effectful
        self.in_gen = False
        self.in_async = False
        self.tags = set()

    # ---------------------------------------------------------------- atoms
    def ident(self):
        return self.r.choice(IDENTS)

    def strlit(self):
        return self.r.choice(STR_LITS)

    def literal(self):
        k = self.r.below(8)
        if k < 3:
            return self.strlit()
        if k == 3:
            return str(self.r.below(100))
        if k == 4:
            return self.r.choice(["null", "true", "false", "1.5", "10n"])
        if k == 5:
            return self.r.choice(["/re/g", "/a+b/", "/[/]/"])
        return self.strlit()

    def method(self):
        return self.r.choice(self.methods)

    # ---------------------------------------------------------------- expressions
    def expr(self, d):
        """an AssignmentExpression-level expression (safe as call argument / initialiser)"""
        if d <= 0:
            return self.atom()
        k = self.r.below(100)
        if k < 18:
            self.tags.add('plus')
            return self.operand(d - 1) + " + " + self.operand(d - 1)
        if k < 24:
            self.tags.add('pluseq')
            return self.target(d - 1) + " += " + self.expr(d - 1)
        if k < 32:
            self.tags.add('tpl')
            return self.template(d - 1)
        if k < 50:
            self.tags.add('call')
            return self.method_call(d - 1)
        if k < 56:
            self.tags.add('proto')
            return self.proto_call(d - 1)
        if k < 64:
            self.tags.add('optchain')
            return self.opt_chain(d - 1)
        if k < 68:
            return self.operand(d - 1) + " " + self.r.choice(["-", "*", "&&", "||", "??", "===", "<", "in", "instanceof", ","][:9]) + " " + self.operand(d - 1)
        if k < 71:
            return self.operand(d - 1) + " ? " + self.expr(d - 1) + " : " + self.expr(d - 1)
        if k < 74:
            return self.target(d - 1) + " " + self.r.choice(["=", "-=", "*=", "||=", "??="]) + " " + self.expr(d - 1)
        if k < 75 and d > 0:
            self.tags.add('destructuring-default')
            return "({ p = " + self.expr(d - 1) + " } = " + self.operand(d - 1) + ")"
        if k < 77:
            self.tags.add('bare')
            return self.r.choice(self.methods + ["f", "g"]) + "(" + self.args(d - 1) + ")"
        if k < 80:
            return self.arrow(d - 1)
        return self.operand(d)

    def atom(self):
        k = self.r.below(10)
        if k < 4:
            return self.ident()
        if k < 7:
            return self.literal()
        if k == 7:
            return self.ident() + "()"
        if k == 8:
            return self.ident() + "." + self.r.choice(["p", "q", "length"])
        return "this"

    def operand(self, d):
        """something that can stand as a binary operand / receiver without extra parentheses"""
        if d <= 0:
            return self.atom()
        k = self.r.below(100)
        if k < 22:
            return self.atom()
        if k < 30:
            return self.ident() + "(" + self.args(d - 1) + ")"
        if k < 36:
            return self.safe(self.operand(d - 1)) + "." + self.r.choice(["p", "q", "length", "prototype"])
        if k < 41:
            return self.safe(self.operand(d - 1)) + "[" + self.expr(d - 1) + "]"
        if k < 52:
            return "(" + self.expr(d - 1) + ")"
        if k < 57:
            return "[" + self.array_elems(d - 1) + "]"
        if k < 61:
            return "({" + self.obj_props(d - 1) + "})"
        if k < 65:
            self.tags.add('call')
            return self.method_call(d - 1)
        if k < 68:
            self.tags.add('litsum')
            return "(" + self.literal() + " + " + self.literal() + ")"
        if k < 70:
            self.tags.add('litsum')
            return self.strlit() + " + " + self.strlit()
        if k < 74:
            self.tags.add('tpl')
            return self.template(d - 1)
        if k < 76:
            return "tag" + self.template(d - 1)
        if k < 78:
            return "new " + self.r.choice(["Foo", "RegExp", "o.C"]) + "(" + self.args(d - 1) + ")"
        if k < 79:
            self.tags.add('dynamic-import')
            return "import(" + self.expr(d - 1) + ")"
        if k < 83:
            return self.r.choice(["typeof ", "-", "!", "void ", "+"]) + self.operand(d - 1)
        if k < 85:
            self.tags.add('delete')
            if self.r.chance(1, 3):
                self.tags.add('delete-of-a-chain')
                ch = self.ident() + "?." + self.method() + "(" + self.r.choice(["", "1"]) + ")" + self.r.choice([".c", "[k]", ".p.q"])
                return "delete " + self.r.choice(["(" + ch + ")", ch, "((" + ch + "))"])
            return "delete " + self.ident() + "[" + self.expr(d - 1) + "]"
        if k < 87:
            return self.r.choice(["++", "--"]) + self.ident()
        if k < 89:
            return self.ident() + self.r.choice(["++", "--"])
        if k < 91 and self.in_async:
            return "(await " + self.operand(d - 1) + ")"
        if k < 93 and self.in_gen:
            return "(yield " + self.expr(d - 1) + ")"
        if k < 95:
            return "(" + self.arrow(d - 1) + ")"
        if k < 97:
            return "(function(" + self.params(d - 1) + "){ " + self.stmts(d - 1, 2) + " })"
        if k < 98:
            return "(class { m(){ " + self.stmts(d - 1, 1) + " } })"
        self.tags.add('optchain')
        return self.opt_chain(d - 1)

    def safe(self, base):
        """a base that can be followed by `.x` / `[..]` / `(..)`"""
        if base[:1].isdigit() or base.startswith(("typeof", "void", "-", "!", "+", "new ", "delete", "`")) or " " in base.split("(")[0]:
            return "(" + base + ")"
        return base

    def target(self, d):
        if d > 0 and self.r.chance(1, 9):
            # a parenthesised target is a target too
            self.tags.add('target-paren')
            return "(" + self.target(d - 1) + ")"
        k = self.r.below(10)
        if k < 5 or d <= 0:
            return self.ident()
        if k < 7:
            if self.r.chance(1, 3):
                # a path of several links (also rooted at this): every link but the last is read once
                self.tags.add('target-deep-path')
                return self.r.choice(["this", self.ident()]) + "." + self.r.choice(["state", "p"]) + self.r.choice([".text", ".q", "[k]", "[f()]", ".r.s"])
            return self.ident() + "." + self.r.choice(["p", "q"])
        if k < 9:
            self.tags.add('target-computed')
            key = self.r.choice(["k", "i++", "f()", "'key'", "('key')", "(0)", "((`k`))"])
            if key.startswith("("):
                self.tags.add('target-key-parenthesised-literal')
            return self.r.choice([self.ident(), self.ident() + "()"] if key.startswith("(") and self.r.chance(1, 3) else [self.ident()]) + "[" + key + "]"
        if k == 9 and self.r.chance(1, 2):
            self.tags.add('target-op-in-key')
            return self.ident() + "[" + self.r.choice([self.ident() + " + " + self.ident(), self.ident() + "." + self.method() + "()", "`k${" + self.ident() + "}`",
                                                       self.ident() + "(), " + self.ident() + "()", "(" + self.ident() + ", " + self.ident() + "())"]) + "]"
        self.tags.add('target-call')
        return self.ident() + "()." + self.r.choice(["p", "q"])

    def args(self, d):
        n = self.r.below(4)
        out = []
        for _ in range(n):
            if self.r.chance(1, 7):
                self.tags.add('spread')
                out.append("..." + self.operand(d))
            else:
                out.append(self.expr(d))
        return ", ".join(out)

    def array_elems(self, d):
        n = self.r.below(4)
        out = []
        for _ in range(n):
            k = self.r.below(8)
            if k == 0:
                out.append("")
            elif k == 1:
                out.append("..." + self.operand(d))
            else:
                out.append(self.expr(d))
        return ", ".join(out) + ("," if out and out[-1] == "" else "")

    def obj_props(self, d):
        n = self.r.below(3)
        out = []
        for _ in range(n):
            k = self.r.below(6)
            if k == 0:
                out.append("[" + self.expr(d) + "]: " + self.expr(d))
            elif k == 1:
                out.append("'some string key': " + self.expr(d))
            elif k == 2:
                out.append("m(" + self.params(d) + "){ " + self.stmts(d, 1) + " }")
            elif k == 3:
                out.append("..." + self.operand(d))
            elif k == 4 and self.r.chance(1, 2):
                self.tags.add('object-accessor')
                if self.r.chance(1, 2):
                    out.append("get g" + str(self.r.below(3)) + "(){ " + self.directives() + self.stmts(d, 1) + " }")
                else:
                    out.append("set s" + str(self.r.below(3)) + "(v){ " + self.directives() + self.stmts(d, 1) + " }")
            else:
                out.append(self.r.choice(["k", "v", "name"]) + ": " + self.expr(d))
        return ", ".join(out)

    def template(self, d):
        n = 1 + self.r.below(3)
        parts = ["`" + self.r.choice(["", "x", "pre "])]
        for _ in range(n):
            k = self.r.below(10)
            if k == 0:
                self.tags.add('tpl-lit')
                e = self.literal()
            elif k == 1:
                self.tags.add('tpl-seq')
                e = self.expr(d) + ", " + self.expr(d)
            else:
                e = self.expr(d)
            parts.append("${" + e + "}" + self.r.choice(["", " ", "-mid-"]))
        return "".join(parts) + "`"

    def receiver(self, d):
        k = self.r.below(12)
        if k < 3:
            return self.ident()
        if k == 3:
            self.tags.add('recv-lit')
            return self.strlit()
        if k == 4:
            return self.ident() + "." + self.r.choice(["p", "q", "prototype"])
        if k == 5:
            return self.ident() + "(" + self.args(d) + ")"
        if k == 6:
            return "(" + self.expr(d) + ")"
        if k == 7:
            return "[" + self.array_elems(d) + "]"
        if k == 8:
            return "this"
        if k == 9:
            return self.ident() + "[" + self.expr(d) + "]"
        if k == 10:
            return "`t${" + self.ident() + "}`"
        return self.operand(d)

    def method_call(self, d):
        rv = self.receiver(d)
        if rv[:1].isdigit() or rv.startswith(("typeof", "void", "-", "!", "+", "new ", "delete", "++", "--")) or rv.endswith(("++", "--")):
            rv = "(" + rv + ")"
        return rv + "." + self.method() + "(" + self.args(d) + ")"

    def proto_call(self, d):
        k = self.r.below(10)
        path = self.r.choice(["String.prototype", "String.prototype", "X.prototype", "a.b", "f()", "''", "o[k]", "this"])
        if self.effectful:
            path = "String.prototype"
        m = self.method()
        if self.effectful and m not in ("substring", "trim", "trimStart", "trimEnd", "concat", "slice", "replace", "replaceAll", "padStart", "padEnd", "repeat", "toLowerCase", "split"):
            m = "trim"
        ca = self.r.choice(["call", "call", "apply"])
        if k < 1:
            return path + "." + m + "." + ca + "()"
        this = self.r.choice([self.ident(), self.strlit(), self.operand(d), "..." + self.ident(), "null"])
        if ca == "call":
            rest = self.args(d)
            return path + "." + m + ".call(" + this + (", " + rest if rest else "") + ")"
        j = self.r.below(7)
        if j == 6:
            # a spread array literal: `...[a, b]` is the same argument list as `a, b`
            self.tags.add('apply-spread-array-literal')
            arr = "...[" + self.array_elems(d) + "]"
        elif j == 0:
            arr = self.ident()
        elif j == 1:
            arr = "..." + self.ident()
        elif j == 2:
            arr = "[" + self.expr(d) + ",, " + self.expr(d) + "]"
        elif j == 3:
            self.tags.add('apply-nested-array')
            arr = "[[" + self.expr(d) + ", " + self.ident() + "], " + self.expr(d) + "]"
        else:
            arr = "[" + self.array_elems(d) + "]"
        extra = self.r.choice(["", "", "", ", 1", ", " + self.ident() + "()", ", ..." + self.ident() + "()"])
        if extra not in ("", ", 1"):
            self.tags.add('apply-surplus-args')
        return path + "." + m + ".apply(" + this + ", " + arr + extra + ")"

    def opt_chain(self, d):
        k = self.r.below(15)
        a = self.r.choice([self.ident(), self.ident(), self.ident() + "()", self.strlit(), "(" + self.expr(d) + ")"])
        if self.r.chance(1, 12):
            self.tags.add('optchain-on-literal')
            a = self.r.choice(["null", "1", "'abc'", "undefined", "/re/", "true"])
        m = self.method()
        if k == 0:
            return a + "?." + m + "(" + self.args(d) + ")"
        if k == 1:
            return a + ".p?." + m + "(" + self.args(d) + ")"
        if k == 2:
            return a + "?.p." + m + "(" + self.args(d) + ").q"
        if k == 3:
            return a + "?." + m + "(" + self.ident() + "?.q)"
        if k == 4:
            return a + "." + m + "?.(" + self.args(d) + ")"
        if k == 5:
            return a + "?.[" + self.expr(d) + "]." + m + "()"
        if k == 6:
            return a + "?.p?." + m + "(" + self.args(d) + ")"
        if k == 7:
            return a + "?.prototype." + m + "()"
        if k == 8:
            return a + "?.map(v => v?." + m + "())"
        if k == 9:
            return "fn?.(" + self.args(d) + ")." + m + "()"
        if k == 10:
            return a + ".b?.(" + self.args(d) + ")." + m + "(" + self.args(d) + ")"
        if k == 11:
            return a + "?." + m + "()." + self.method() + "(" + self.args(d) + ")"
        if k == 12:
            self.tags.add('optcall-on-chain-member')
            return a + self.r.choice(["?.b?.(", "?.b.c?.(", "?.[k]?.(", "?.b?.c?.("]) + self.args(d) + ")." + m + "(" + self.args(d) + ")"
        if k == 13:
            self.tags.add('optcall-bare-configured-name')
            return m + "?.(" + self.args(d) + ")"
        self.tags.add('optcall-on-chain-member')
        return a + "?.b?.(" + self.args(d) + ")?." + m + "()"

    def params(self, d):
        n = self.r.below(3)
        out = []
        for i in range(n):
            k = self.r.below(8)
            nm = "p" + str(i)
            if k == 0:
                self.tags.add('param-default')
                out.append(nm + " = " + self.expr(d))
            elif k == 1:
                out.append("{" + nm + "}")
            elif k == 2:
                out.append("[" + nm + " = " + self.expr(d) + "]")
            elif k == 3 and i == n - 1:
                out.append("..." + nm)
            else:
                out.append(nm)
        return ", ".join(out)

    def arrow(self, d):
        k = self.r.below(6)
        p = self.r.choice(["v", "(v, w)", "()", "(v = " + self.expr(d) + ")", "async v", "async (v, w)", "({v})"])
        save_async = self.in_async
        if p.startswith("async"):
            self.in_async = True
        try:
            return self._arrow_body(d, k, p)
        finally:
            self.in_async = save_async

    def _arrow_body(self, d, k, p):
        if k < 3:
            self.tags.add('arrow-expr')
            body = self.expr(d)
            if self.r.chance(1, 5):
                # a concise body whose only operation is an optional-chain call of a configured method
                self.tags.add('arrow-expr-only-optional-call')
                body = self.r.choice([self.ident() + "?.", self.ident() + ".p?.", self.ident() + "?.q."]) + self.method() + "(" + self.r.choice(["", "1", self.ident()]) + ")"
            if p.startswith("async") and self.r.chance(1, 2):
                body = "await " + self.operand(d) + " + " + self.ident()
            if body.startswith("{"):
                body = "(" + body + ")"
            return p + " => " + body
        if k == 3:
            return p + " => (" + self.expr(d) + ", " + self.expr(d) + ")"
        return p + " => { " + self.stmts(d, 2) + " }"

    # ---------------------------------------------------------------- statements
    def stmt(self, d):
        k = self.r.below(100)
        e = lambda: self.expr(d)
        if d <= 0 or k < 22:
            return self.expr_stmt(d)
        if k < 32:
            return self.r.choice(["const", "let", "var"]) + " v" + str(self.r.below(5)) + " = " + e() + ";"
        if k < 40:
            return "return " + e() + ";"
        if k < 50:
            self.tags.add('if')
            j = self.r.below(6)
            if j == 0:
                return "if (" + e() + ") " + self.stmt(d - 1)
            if j == 1:
                return "if (" + e() + ") " + self.expr_stmt(d - 1) + " else " + self.expr_stmt(d - 1)
            if j == 2:
                return "if (" + e() + ") { " + self.stmts(d - 1, 2) + " } else { " + self.stmts(d - 1, 2) + " }"
            if j == 3:
                return "if (" + e() + ") { " + self.stmts(d - 1, 1) + " } else if (" + e() + ") " + self.expr_stmt(d - 1) + " else " + self.expr_stmt(d - 1)
            if j == 4:
                return "if (" + e() + ") { " + self.stmts(d - 1, 2) + " }"
            return "if (" + e() + ") ; else " + self.stmt(d - 1)
        if k < 56:
            self.tags.add('loop')
            j = self.r.below(6)
            if j == 0:
                return "for (let i = " + e() + "; i < " + e() + "; i += " + e() + ") { " + self.stmts(d - 1, 2) + " }"
            if j == 1:
                return "for (const q of " + e() + ") " + self.expr_stmt(d - 1)
            if j == 2:
                return "for (const q in " + e() + ") { " + self.stmts(d - 1, 1) + " }"
            if j == 3 or (self.effectful and j < 3):
                return "while (" + e() + ") { " + self.stmts(d - 1, 2) + " break; }"
            if j == 4 and not self.effectful:
                return "do " + self.expr_stmt(d - 1) + " while (" + e() + ");"
            return "for (;;) { " + self.stmts(d - 1, 1) + " break; }"
        if k < 60:
            self.tags.add('switch')
            return "switch (" + e() + ") { case " + e() + ": " + self.stmts(d - 1, 2) + " break; default: " + self.stmts(d - 1, 1) + " }"
        if k < 65:
            self.tags.add('try')
            j = self.r.below(3)
            if j == 0:
                return "try { " + self.stmts(d - 1, 2) + " } catch (e) { " + self.stmts(d - 1, 1) + " }"
            if j == 1:
                return "try { " + self.stmts(d - 1, 1) + " } finally { " + self.stmts(d - 1, 1) + " }"
            return "try { " + self.stmts(d - 1, 1) + " } catch { " + self.stmts(d - 1, 1) + " } finally { " + self.stmts(d - 1, 1) + " }"
        if k < 67:
            return "throw " + e() + ";"
        if k < 69:
            return "lbl: " + self.expr_stmt(d - 1)
        if k < 72:
            return "{ " + self.stmts(d - 1, 2) + " }"
        if k < 79:
            return self.function(d - 1)
        if k < 83:
            self.tags.add('class')
            return self.klass(d - 1)
        if k < 85:
            return ";"
        return self.expr_stmt(d)

    def expr_stmt(self, d):
        e = self.expr(d)
        if e.startswith("{") or e.startswith("function") or e.startswith("class") or e.startswith("let"):
            e = "(" + e + ")"
        return e + ";"

    def stmts(self, d, n):
        return " ".join(self.stmt(d) for _ in range(1 + self.r.below(n)))

    def directives(self):
        k = self.r.below(12)
        if k < 6:
            return ""
        self.tags.add('directive')
        opts = ["'use strict';", "\"use strict\";", "'other';", "'use asm';", "('use strict');", "'use\\x20strict';", "'use strict'\n"]
        n = 1 + self.r.below(3)
        return " ".join(self.r.choice(opts) for _ in range(n)) + " "

    def function(self, d):
        kind = self.r.below(6)
        save = (self.in_gen, self.in_async)
        name = "f" + str(self.r.below(9))
        if kind == 0:
            self.in_gen, self.in_async = True, False
            head = "function* " + name
        elif kind == 1:
            self.in_gen, self.in_async = False, True
            head = "async function " + name
        else:
            self.in_gen, self.in_async = False, False
            head = "function " + name
        params = self.params(d)
        dirs = self.directives()
        if any(ch in params for ch in "={[.") :
            dirs = dirs.replace("'use strict';", "'other';").replace('"use strict";', '"other";').replace("'use strict'\n", "'other'\n")
        body = dirs + self.stmts(d, 3)
        self.in_gen, self.in_async = save
        return head + "(" + params + ") { " + body + " }"

    def klass(self, d):
        members = []
        has_ctor = False
        ext = self.r.choice(["", " extends Base"])
        for _ in range(1 + self.r.below(3)):
            k = self.r.below(7)
            if k == 5:
                if has_ctor:
                    k = 6
                has_ctor = True
            if k == 0:
                self.tags.add('class-field')
                members.append("fld = " + self.expr(d) + ";")
            elif k == 1:
                members.append("static { " + self.stmts(d, 2) + " }")
            elif k == 2:
                members.append("[" + self.expr(d) + "]() { " + self.stmts(d, 1) + " }")
            elif k == 3:
                members.append("static sf = " + self.expr(d) + ";")
            elif k == 4:
                members.append("get g() { " + self.directives() + self.stmts(d, 1) + " }")
            elif k == 5:
                sup = ""
                if ext and self.r.chance(2, 3):
                    self.tags.add('super-call-args')
                    sup = "super(" + self.expr(d) + ", " + self.r.choice([self.ident() + " + " + self.ident(), "`${" + self.ident() + "}!`", self.ident() + "." + self.method() + "()"]) + "); "
                members.append("constructor(" + self.params(d) + ") { " + self.directives() + sup + self.stmts(d, 2) + " }")
            elif k == 6 and self.r.chance(1, 2):
                self.tags.add('private-name')
                m = self.method()
                members.append("#pf = " + self.expr(d) + "; #pm(v){ return this.#pf." + m + "(v) + this.#pf." + m + ".call(v, " + self.expr(d) + ") + this.#pm.call(this, v) + this.#pf.trim.apply(v, [1]); }")
            elif k == 6 and self.r.chance(1, 2):
                self.tags.add('super-target')
                key = lambda: self.r.choice(["k", "f()", "i++", self.ident() + " + " + self.ident(), "'key'", self.ident() + "." + self.method() + "()"])
                forms = ["super[%s] += %s;" % (key(), self.expr(d)), "super.p += %s;" % self.expr(d), "(super[%s]) += %s;" % (key(), self.expr(d)),
                         "x = super[%s] + %s;" % (key(), self.operand(d))]
                members.append("sm(v) { " + " ".join(self.r.choice(forms) for _ in range(1 + self.r.below(3))) + " }")
            else:
                members.append("m(" + self.params(d) + ") { " + self.stmts(d, 2) + " }")
        return "class K" + str(self.r.below(5)) + ext + " { " + " ".join(members) + " }"

    def program(self, d=3, module=None):
        self.tags = set()
        if module is None:
            module = self.r.chance(1, 6)
        parts = [self.directives()]
        if module:
            self.tags.add('module')
            parts.append(self.r.choice(["import q1 from 'mod-a';", "import {q2 as q3} from \"./some/long/module/path.js\";", "import * as ns from 'ns';"]))
        n = 1 + self.r.below(4)
        for _ in range(n):
            k = self.r.below(10)
            if k < 5:
                parts.append(self.function(d))
            elif k < 7:
                self.tags.add('toplevel')
                parts.append(self.stmt(d - 1))
            elif k == 7:
                parts.append("{ " + self.stmts(d - 1, 3) + " }")
            elif k == 8:
                parts.append(self.klass(d - 1))
            else:
                parts.append("const top" + str(self.r.below(4)) + " = " + self.arrow(d - 1) + ";")
        if module:
            parts.append(self.r.choice(["export default " + self.operand(1) + ";", "export const e1 = " + self.expr(1) + ";", "export { f0 };"]))
        sep = self.r.choice([" ", "\n", "\n\n  "])
        return sep.join(p for p in parts if p), sorted(self.tags)


# -------------------------------------------------------------------- configurations

def gen_config(r: SplitMix64, full=False):
    """a raw JSON configuration (what the JS caller passes)"""
    cfg = {}
    k = r.below(10)
    if full or k < 5:
        pool = list(METHOD_POOL)
        methods = []
        if r.chance(4, 5):
            methods.append({"src": "plusOperator", "operator": True})
        if r.chance(4, 5):
            methods.append({"src": "tplOperator", "operator": True})
        n = 2 + r.below(len(pool) - 2)
        for i in range(n):
            m = {"src": r.choice(pool)}
            j = r.below(8)
            if j == 0:
                m["dst"] = "dst_" + m["src"]
            elif j == 1:
                m["dst"] = r.choice(["renamed", "stringTrim", "x1"])
            if r.chance(1, 8):
                m["allowedWithoutCallee"] = True
            if r.chance(1, 12):
                m["operator"] = r.chance(1, 2)
            methods.append(m)
        if r.chance(1, 6):
            # the same source name listed twice with different operator flags: each entry counts for its own kind
            nm = r.choice(["plusOperator", "tplOperator", r.choice(pool)])
            methods.append({"src": nm, "operator": False, "dst": "asMethod_" + nm})
            methods.append({"src": nm, "operator": True})
        # shuffle a little
        for i in range(len(methods)):
            j = r.below(len(methods))
            methods[i], methods[j] = methods[j], methods[i]
        cfg["csiMethods"] = methods
    elif k == 5:
        cfg["csiMethods"] = []
    elif k == 6:
        cfg["csiMethods"] = [{"src": "plusOperator", "operator": True}]
    elif k == 7:
        cfg["csiMethods"] = [{"src": "tplOperator", "operator": True}, {"src": "concat", "allowedWithoutCallee": True}]
    elif k == 8:
        cfg["csiMethods"] = [{"src": "plusOperator", "operator": False}, {"src": "trim", "operator": True}, {"src": "substring"}]
    # k == 9: omitted
    if r.chance(3, 4):
        cfg["localVarPrefix"] = r.choice(["test", "t", "abcxyz", "p_q", "Z9"])
    if r.chance(1, 2):
        cfg["telemetryVerbosity"] = r.choice(["OFF", "MANDATORY", "INFORMATION", "DEBUG", "debug", "Debug", "off", "junk", ""])
    if r.chance(1, 3):
        cfg["literals"] = r.chance(1, 2)
    if r.chance(1, 4):
        cfg["comments"] = r.chance(1, 2)
    if r.chance(1, 5):
        cfg["chainSourceMap"] = r.chance(1, 2)
    return cfg


def gen_requests(seed, n, depth=3, cfg_mode='mixed', id_base=0, **extra):
    r = SplitMix64(seed)
    out = []
    for i in range(n):
        gr = r.fork()
        if cfg_mode == 'default':
            from vlib import DEFAULT_CFG
            cfg = DEFAULT_CFG
        elif cfg_mode == 'full':
            cfg = gen_config(gr, full=True)
            cfg.setdefault("localVarPrefix", "t")
        else:
            cfg = gen_config(gr)
            if "localVarPrefix" not in cfg and not gr.chance(1, 10):
                cfg["localVarPrefix"] = "t"
        methods = None
        if cfg.get("csiMethods"):
            names = [m["src"] for m in cfg["csiMethods"] if not m.get("operator")]
            if names:
                methods = names + ["custom", "toLowerCase"]
        g = Gen(gr, methods=methods)
        src, tags = g.program(depth if gr.chance(3, 4) else max(1, depth - 1))
        req = {"id": id_base + i, "cfg": cfg, "src": src, "file": gr.choice(["test.js", "dir/sub/file.js", "/abs/path/mod.mjs", "x.js", "test.js", "dir/sub/file.js", "file:///app/esm/x.mjs", "win\\style\\name.js"]), "tags": tags}
        req.update(extra)
        out.append(req)
    return out


if __name__ == '__main__':
    import sys
    seed = int(sys.argv[1]) if len(sys.argv) > 1 else 1
    for q in gen_requests(seed, int(sys.argv[2]) if len(sys.argv) > 2 else 5):
        print(q['src'])
        print('   ', q['tags'], json.dumps(q['cfg'])[:150])


# -------------------------------------------------------------------- targeted generators

def reserved_requests(seed, n):
    """programs that mention the reserved temporary prefix at every kind of position (C06 refusal)"""
    r = SplitMix64(seed)
    from vlib import DEFAULT_CFG
    spots = [
        "function f(){ const %s = 0; return a + b(); }",
        "function f(%s){ return a + b(); }",
        "const %s = 1; function g(){ return a + b(); }",
        "function g(){ return a + b(); } var q = %s;",
        "function f(){ return (%s) => a + b(); }",
        "function f(){ delete o[%s]; return a + b(); }",
        "function f(){ if (c) y = 1; else z = %s + b(); }",
        "function f(){ return `${'lit'}${%s}` + a(); }",
        "function f(){ %s: for(;;){ break %s; } return a + b(); }",
        "function f(){ return a + b(); } class K { %s = 1; }",
        "function f(){ return o.%s + b(); }",
        "function f(){ return ({%s: 1}).x + b(); }",
        "function f(){ try { x() } catch (%s) { return a + b(); } }",
        "function f(){ return o?.[%s].trim(); }",
        "import %s from 'm'; function f(){ return a + b(); }",
        "function f(){ return 'no reserved name here %s' + b(); }",
        "function f(){ return a + b(); } // %s in a comment",
    ]
    out = []
    for i in range(n):
        pfx = r.choice(["test", "t", "abcxyz"])
        name = "__datadog_%s_%d" % (pfx, r.below(3))
        if r.chance(1, 6):
            name = "__datadog_%s_" % pfx + r.choice(["x", "", "00", "9z"])
        if r.chance(1, 8):
            name = "__datadog_other_0"
        spot = r.choice(spots)
        tags = ['reserved']
        spelled = name
        if r.chance(1, 5) and 'comment' not in spot and 'no reserved name' not in spot:
            # the same identifier written with an identifier escape: the text does not contain the prefix, the name does
            k = r.below(len(name))
            if name[k].isalnum() or name[k] == '_':
                esc = r.choice(["\\u%04x" % ord(name[k]), "\\u{%x}" % ord(name[k])])
                spelled = name[:k] + esc + name[k + 1:]
                tags.append('reserved-escaped')
        src = spot.replace("%s", spelled)
        cfg = dict(DEFAULT_CFG, localVarPrefix=pfx)
        out.append({"id": "reserved-%d" % i, "cfg": cfg, "src": src, "file": "test.js", "tags": tags})
    return out


def directive_requests(seed, n):
    """directive prologues of every shape in functions, arrows, methods, the program, scripts and modules"""
    r = SplitMix64(seed)
    from vlib import DEFAULT_CFG
    dirs = ["'use strict';", "\"use strict\";", "'other';", "'use asm';", "'use\\x20strict';", "'use strict'\n", "\"use client\";",
            "('use strict');", "'a' + 'b';", "`use strict`;"]
    bodies = ["return a + b();", "x += y(); return x;", "return s.trim();", "return `a${b}`;", "var q = 1; return q;", "return a?.trim();"]
    out = []
    for i in range(n):
        g = r.fork()
        def dp():
            k = g.below(5)
            return " ".join(g.choice(dirs) for _ in range(k))
        shape = g.below(9)
        body = g.choice(bodies)
        if shape == 7:
            # string statements that are NOT in a directive prologue (after other code) must stay where they are
            src = "%s var first = 1; %s function f(a, b){ %s var q0 = a; %s %s } %s" % (dp(), dp(), dp(), dp(), body, dp())
        elif shape == 8:
            src = "%s var o = { get g(){ %s %s }, set s(v){ %s %s } }; class K2 extends B { constructor(a, b){ %s super(a); %s } }" % (dp(), dp(), body, dp(), body, dp(), body)
        elif shape == 0:
            src = "%s function f(a, b){ %s %s }" % (dp(), dp(), body)
        elif shape == 1:
            src = "%s const f = (a, b) => { %s %s };" % (dp(), dp(), body)
        elif shape == 2:
            src = "%s class K { m(a, b){ %s %s } static { %s x = a + b(); } }" % (dp(), dp(), body, dp())
        elif shape == 3:
            src = "%s import z from 'z'; export function f(a, b){ %s %s }" % (dp(), dp(), body)
        elif shape == 4:
            src = "%s function f(a, b){ %s function g(){ %s %s } return g() + a; }" % (dp(), dp(), dp(), body)
        elif shape == 5:
            src = "%s { %s x = a + b(); }" % (dp(), dp())
        else:
            src = "%s var o = { m(a, b){ %s %s }, get g(){ %s %s } };" % (dp(), dp(), body, dp(), body)
        out.append({"id": "directive-%d" % i, "cfg": DEFAULT_CFG, "src": src, "file": "test.js", "tags": ['directive']})
    return out


def literal_requests(seed, n):
    """string literals around both length bounds, multi-line / non-ASCII layouts, every placement"""
    r = SplitMix64(seed)
    from vlib import DEFAULT_CFG
    out = []
    for i in range(n):
        g = r.fork()
        def lit():
            k = g.below(10)
            ln = g.choice([9, 10, 11, 12, 40, 255, 256, 257, 300, 5])
            ch = g.choice(["a", "x", "é", "パ", "-"])
            bl = len(ch.encode('utf-8'))
            body = ch * max(1, ln // bl) if k < 7 else (ch * (ln // bl))[: max(1, ln // bl - 1)] + "z"
            if k == 8:
                body = "shared literal value!"
            q = g.choice(["'", '"'])
            return q + body + q
        place = g.below(12)
        pad = g.choice(["", "\n", "  ", "\n\n\t", "/* éé */ "])
        if place == 0:
            src = "function f(a){ %sreturn a + %s; }" % (pad, lit())
        elif place == 1:
            src = "%sconst v = %s, w = %s;" % (pad, lit(), lit())
        elif place == 2:
            src = "function f(a){ const o = {%sk: %s, 'q': %s, [a]: %s, [%s]: %s, [a + %s]: %s}; return o; }" % (pad, lit(), lit(), lit(), lit(), lit(), lit(), lit())
        elif place == 3:
            src = "function f(a){ return a.concat(%s, %s)%s; }" % (lit(), lit(), pad)
        elif place == 4:
            src = ("const m = require(%s); function f(){ return require(a, %s) + new RegExp(%s, %s) + new RegExp(a, %s) + RegExp(%s, %s) + new require(%s) "
                   "+ o.require(%s) + new o.RegExp(%s); }") % (lit(), lit(), lit(), lit(), lit(), lit(), lit(), lit(), lit(), lit())
        elif place == 5:
            src = "function f(a){ return %s.concat(a) + `x${a}` + %s.padStart(3, a); }" % (lit(), lit())
        elif place == 6:
            src = "function f(a){\n  let x = %s;\n  x += %s;\n  return x ? %s : a;\n}" % (lit(), lit(), lit())
        elif place == 7:
            src = "class K { fld = %s; m(a = %s){ return a + %s; } }" % (lit(), lit(), lit())
        elif place == 8:
            src = "function f(a){ return String.prototype.concat.call(%s, a, %s); }" % (lit(), lit())
        elif place == 9:
            src = "export const e = %s; import q from %s; function f(a){ return a + %s; }" % (lit(), lit(), lit())
        elif place == 10:
            src = "function f(a){ return a?.concat(%s) + tag`${%s}` + (a, %s); }" % (lit(), lit(), lit())
        else:
            src = "﻿" * g.below(2) + "function f(a){ return [%s, %s, a + %s]; }\r\nvar z = %s;" % (lit(), lit(), lit(), lit())
        cfg = dict(DEFAULT_CFG)
        if g.chance(1, 6):
            cfg['literals'] = False
        out.append({"id": "literal-%d" % i, "cfg": cfg, "src": src, "file": "test.js", "tags": ['literal']})
    return out


# -------------------------------------------------------------------- malformed inputs / faults (C13)

def mutate_text(r: SplitMix64, src: str) -> str:
    if not src:
        return src
    k = r.below(9)
    i = r.below(len(src))
    j = min(len(src), i + 1 + r.below(6))
    if k == 0:
        return src[:i] + src[j:]
    if k == 1:
        return src[:i] + src[i:j] * 2 + src[j:]
    if k == 2:
        return src[:i] + r.choice(["(", ")", "{", "}", "`", "'", "\"", "/*", "//", "${", "\\", "?.", "=>", "...", "#", "@"]) + src[i:]
    if k == 3:
        return src[:i]
    if k == 4:
        return src[:i] + "\u0000" + src[i:]
    if k == 5:
        return "\ufeff" + src.replace("\n", "\r\n")
    if k == 6:
        return src[:i] + r.choice(["\u2028", "é", "𝒳", "\ud7ff", "日本"]) + src[i:]
    if k == 7:
        a, b = sorted([i, r.below(len(src))])
        return src[:a] + src[b:] + src[a:b]
    return src + r.choice(["\n//# sourceMappingURL=", "\n//# sourceMappingURL=x.map", "\n/*# sourceMappingURL=y.map */", "\n//# sourceMappingURL=data:application/json;base64,e30=",
                           "\n//# sourceMappingURL=data:application/json;base64,!!!!", "\n//@ sourceMappingURL=z.map"])


MAP_OK = '{"version":3,"sources":["orig.ts"],"names":["n1"],"mappings":"AAAA,CAACA;AACD"}'
MAP_INDEX = '{"version":3,"sections":[{"offset":{"line":0,"column":0},"map":{"version":3,"sources":["a.js"],"names":[],"mappings":"AAAA"}}]}'


# valid maps of the shapes bundlers emit: several sources, the first mapping not in sources[0], embedded
# sources, a sourceRoot, sources never referred to
MAPS_VALID = [
    MAP_OK,
    '{"version":3,"file":"bundle.js","sources":["a.ts","b.ts"],"sourcesContent":["export const a = 1","export function f(a, b) { return a + b }"],"names":[],"mappings":"ACAA"}',
    '{"version":3,"sources":["unused.ts","lib/x.ts","y.ts"],"names":["f","a"],"mappings":"AEAAA,SCAUC,IDAI;ADAA"}',
    '{"version":3,"sourceRoot":"webpack://app/src","sources":["m.ts","n.ts"],"names":[],"mappings":"ACAA,KDAK"}',
    '{"version":3,"sources":["only.ts"],"sourcesContent":[null],"names":[],"mappings":";;AAAA"}',
]


EDGE_VALID = [
    "function f(o, s){ o[('k')] += s; return o }",
    "function f(g, s){ g()[(0)] += s }",
    "class K extends B { m(s){ super[('k')] += s } }",
    "function f(o, s){ o[(`k`)] += s; (o)[('k')] += s; o[((1))] += s + 1 }",
    "function f(o, s){ o[(null)] += s; o[(/re/)] += s; o[(true)] += s }",
    "function f(b){ return ('a').concat(b) + (('x')).trim() + ((1)) + b }",
    "function f(b){ return `${('a')}${b}` + `${(1)}` }",
    "function f(b){ return String.prototype.concat.call(('a'), b) + String.prototype.concat.apply(('a'), [('b'), b]) }",
    "function f(a, x){ return a?.b?.(x).trim() + a?.b.c?.(x).trim() + a?.[('k')]?.(x).trim() }",
    "function f(a){ delete (a?.trim().c); delete a?.trim().c; delete ((a?.b.trim().c)); return a }",
    "function f(x){ return trim?.(x) + substring?.(x, 1) + concat?.() }",
    "function f(a, b){ return void a() + b + (void 0) + -1 + !0 + ~b + typeof a }",
    "function f(a){ return `${'a' + 'b'}:${a}:${a.trim()}` + `${1 + 2}${a}` }",
    "function f(l, u){ return p() + (l === 'es' ? u.a + u.b : l === 'fr' ? 'ami' : 'friend') + (l ? l ? a + b : c : d + e) }",
    "function f(a, b){ 'ngInject'; 'use strict'; return a.name + b }",
    "'use client'; 'use strict'; function f(a, b){ \"use asm\"; return a + b }",
    "async function f(a){ const m = await import('a-module-specifier'); return import(a + 'x', { with: { type: 'application/json' } }) }",
    "function f(o, s){ o[(s, 'k')] += s; o['a' + 'b'] += s; o[('a') + ('b')] += s }",
    "function f(a, s){ (a)?.b.trim(); (a?.b).trim(); ((a?.b))?.trim(s) }",
    "function f(s){ return ((s)).concat((s), ...(s), ...('ab')) + [...(s)] }",
]


def mal_requests(seed, n):
    """arbitrary text, token-level mutations of valid programs, odd file names, every failure mode of
    the source-map reader"""
    r = SplitMix64(seed)
    from vlib import DEFAULT_CFG
    import base64
    out = []
    base = gen_requests(r.next(), n, depth=2, cfg_mode='mixed')
    files_pool = ["test.js", "", "/", "a", "dir/", "/abs/x.js", "../up.js", "./x.js", "C:\\win\\x.js", "x" * 300 + ".js", "é/ü.js", "a\u0000b.js", ".", ".."]
    for i, q in enumerate(base):
        g = r.fork()
        src = q['src']
        kind = g.below(10)
        if i < len(EDGE_VALID):
            # valid programs at the edges of the transforms' guards (parenthesised literals, chains under delete,
            # optional calls on chain links ...): totality is about these as much as about garbage
            out.append({"id": "mal-%d" % i, "cfg": q['cfg'] if i % 2 else DEFAULT_CFG, "src": EDGE_VALID[i], "file": "test.js", "files": {}, "tags": ['mal', 'edge-valid']})
            continue
        if kind < 4:
            for _ in range(1 + g.below(3)):
                src = mutate_text(g, src)
        elif kind == 4:
            src = "".join(chr(32 + g.below(95)) for _ in range(g.below(200)))
        elif kind == 5:
            src = "".join(g.choice(["(", ")", "{", "}", "[", "]", "`", "${", "a", "+", "?.", "=>", "'", "\n", ";", "function", " ", "=", "...", "/", "*"]) for _ in range(g.below(120)))
        files = {}
        req = {"id": "mal-%d" % i, "cfg": q['cfg'], "src": src, "file": g.choice(files_pool), "tags": ['mal', 'k%d' % kind]}
        if kind >= 6:
            # a valid, modified program with a source-map reference of every kind
            body = "function f(a, b){ return a + b(); }\n"
            ref_kind = g.below(12)
            url = "x.map"
            if ref_kind == 0:
                url = "data:application/json;base64," + base64.b64encode(g.choice(MAPS_VALID).encode()).decode()
            elif ref_kind == 1:
                url = "data:application/json;base64," + base64.b64encode(b"{not json").decode()
            elif ref_kind == 2:
                url = "data:application/json;base64,@@@not-base64@@@"
            elif ref_kind == 3:
                url = "data:application/json;base64," + base64.b64encode(MAP_INDEX.encode()).decode()
            elif ref_kind == 4:
                url = "ok.map"; files = {"%PARENT%/ok.map": g.choice(MAPS_VALID)}
            elif ref_kind == 5:
                url = "missing.map"; files = {"%PARENT%/missing.map": {"error": "notfound"}}
            elif ref_kind == 6:
                url = "dir.map"; files = {"%PARENT%/dir.map": {"error": "isdir"}}
            elif ref_kind == 7:
                url = "denied.map"; files = {"%PARENT%/denied.map": {"error": "denied"}}
            elif ref_kind == 8:
                url = "/abs/ok.map"; files = {"/abs/ok.map": g.choice(MAPS_VALID)}
            elif ref_kind == 9:
                url = "bad.map"; files = {"%PARENT%/bad.map": "\u0000\u0001garbage"}
            elif ref_kind == 10:
                url = "idx.map"; files = {"%PARENT%/idx.map": MAP_INDEX}
            else:
                url = g.choice(["", " ", "é" * 50 + "/m.map", "a" * 5000, "data:", "data:application/json;base64,", "http://x/y.map",
                                "".join(g.choice(["a", "é", "日", "𝒳", "/", "-"]) for _ in range(40 + g.below(120))) + ".map"])
            style = g.below(4)
            if style == 0:
                src = body + "//# sourceMappingURL=" + url
            elif style == 1:
                src = body + "/*# sourceMappingURL=" + url + " */"
            elif style == 2:
                src = "//# sourceMappingURL=" + url + "\n" + body + "//# sourceMappingURL=" + url + "\n"
            else:
                src = body + "//#   sourceMappingURL=" + url + "   \n"
            req['src'] = src
            import os.path
            parent = os.path.dirname(req['file']) if req['file'] not in ("", "/") else ""
            req['files'] = {k.replace("%PARENT%/", (parent + "/") if parent else ""): v for k, v in files.items()}
            req['cfg'] = dict(DEFAULT_CFG, chainSourceMap=g.chance(1, 2), comments=g.chance(1, 2))
            if g.chance(1, 10):
                req['parent_none'] = True
            req['tags'].append('ref%d' % ref_kind)
        out.append(req)
    return out


def exec_requests(seed, n, depth=3):
    """programs meant to be *run*: a `main` function whose body is generated statements over observable
    free variables, plus immediately-invoked closures"""
    r = SplitMix64(seed)
    out = []
    for i in range(n):
        gr = r.fork()
        cfg = gen_config(gr, full=True)
        cfg["localVarPrefix"] = "t"
        names = [m["src"] for m in cfg["csiMethods"] if not m.get("operator")]
        g = Gen(gr, methods=(names + ["custom"]) if names else None, effectful=True)
        g.tags = set()
        body = g.directives() + g.stmts(depth, 4)
        k = gr.below(9)
        if k == 6:
            # re-entrancy through an arrow's parameter default while the caller's temporaries are live
            body += " const fq = (p = a() + b()) => p; return c() + fq() + x.trim();"
            g.tags.add('arrow-default-reentrancy')
        elif k == 7:
            body += " const gq = (n, p = n > 0 ? y + gq(n - 1) : '') => p; return gq(2) + s;"
            g.tags.add('arrow-default-reentrancy')
        elif k == 8:
            body += " const hq = (v, w = `${v}-${b()}`) => [v, w]; return a.concat(hq(c()), hq(s));"
            g.tags.add('arrow-default-reentrancy')
        if k == 0:
            body += " return ((v, w = v + a) => v + w + b())(c, s);"
        elif k == 1:
            body += " return (function(n){ return n + this.p + arguments.length; }).call(o, a + b);"
        elif k == 2:
            body += " var acc = ''; for (const q of [a, b, c]) { acc += q + s.trim(); } return acc;"
        if gr.chance(1, 3):
            # operand-order stress: an identifier next to something that can run code and rebind it
            ids = ["a", "b", "x", "y", "s"]
            stress = []
            for _ in range(2 + gr.below(4)):
                l = gr.choice(ids)
                e = gr.choice(["-%s", "+%s", "~%s", "!%s", "typeof %s", "`t${%s()}`", "`t${''}${%s()}`", "%s()", "(%s(), 1)", "%s.p", "-%s.p",
                               "%s[k]", "(%s)", "[%s]", "void %s()", "%s++", "%s?.p", "new %s()", "%s.trim()", "`${%s}`",
                               "class { static [%s()] = 1 }", "class { static sf = %s() }", "class extends %s() {}", "function(){ return %s }", "() => %s",
                               "this", "new.target", "({ [%s()]: 1 })", "tag`${%s}`"]).replace("%s", gr.choice(ids))
                form = gr.below(5)
                if form == 0:
                    stress.append("r = %s + %s;" % (l, e))
                elif form == 1:
                    stress.append("r = %s + %s;" % (e, l))
                elif form == 2:
                    stress.append("%s += %s;" % (l, e))
                elif form == 3:
                    stress.append("r = `${%s}-${%s}`;" % (l, e))
                else:
                    stress.append("r = %s.concat(%s, %s);" % (l, e, gr.choice(ids)))
            body = "var r; " + " ".join(stress) + " return r;"
            g.tags.add('operand-order-stress')
        src = "function main(p0, p1, p2){ " + body + " }"
        if gr.chance(1, 8):
            src = "'use strict'; " + src
        out.append({"id": "exec-%d" % i, "cfg": cfg, "src": src, "file": "prog.js", "tags": sorted(g.tags) + ['exec']})
    return out

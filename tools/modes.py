#!/usr/bin/env python3
"""Check modes beyond the tree pipeline: Node-based support runs, option defaulting, maps, JS model,
malformed inputs, call histories."""
import json, os, subprocess, sys
import vlib, gen


def run_node(prop, spec, seed, tier, known, ev, results):
    """Node-based support for the tree properties: differential execution (C01), compilation by V8
    (C08), the package-level wrapper (C12)"""
    node = find_node()
    if not node:
        ev['coverage']['node_support'] = 'skipped: node not found'
        return [], {}, 'skipped'
    kind = spec.get('node')
    if kind == 'diffexec':
        return node_diffexec(node, prop, seed, tier, known, ev)
    if kind == 'compile':
        return node_compile(node, prop, seed, tier, known, ev, results)
    if kind == 'wrapper':
        return node_wrapper(node, prop, seed, tier, known, ev, results)
    return [], {}, ''


def _node_job(node, script, job, flags=()):
    import tempfile
    with tempfile.NamedTemporaryFile('w', suffix='.json', delete=False, dir=os.path.join(vlib.VERIF, 'replays')) as f:
        json.dump(job, f)
        jobfile = f.name
    try:
        p = subprocess.run([node] + list(flags) + [os.path.join(vlib.VERIF, 'js', script), jobfile], stdout=subprocess.PIPE,
                           stderr=subprocess.PIPE, text=True, timeout=3600, env=dict(os.environ, VERIF_REPO=vlib.REPO))
    finally:
        os.unlink(jobfile)
    if p.returncode != 0 or not p.stdout.strip():
        raise vlib.BuildError('node %s failed: %s' % (script, (p.stderr or '')[-800:]))
    return json.loads(p.stdout)


def _throws_later(diff):
    """both runs end in the same kind of exception and one effect log is a proper prefix of the other"""
    try:
        a, b = diff['input'], diff['output']
        if not (str(a['outcome']).startswith('throw:') and a['outcome'] == b['outcome']):
            return False
        x, y = a['at'], b['at']
        n = min(len(x), len(y))
        return x[:n] == y[:n] and len(x) != len(y)
    except Exception:
        return False


def _lost_this(diff):
    """the first differing event is the same call with the same arguments, `this` undefined in the output only"""
    try:
        a, b = diff['input']['at'], diff['output']['at']
    except Exception:
        return False
    import re as _re
    for x, y in zip(a, b):
        if x != y:
            return (x.startswith('call:') and ' this=undefined ' in y and ' this=undefined ' not in x
                    and _re.sub(r' this=\S+ ', ' this=? ', x) == _re.sub(r' this=\S+ ', ' this=? ', y))
    return False


def node_diffexec(node, prop, seed, tier, known, ev, scale=1):
    n = (400 if tier == 'quick' else 8000) * scale
    reqs = gen.exec_requests(seed ^ 0xE8EC, n)
    for q in reqs:
        q['ast'] = False
    recs = vlib.run_harness(reqs)
    jobs, idx = [], {}
    for q, rec in zip(reqs, recs):
        if rec.get('outcome') == 'ok' and rec.get('status') == 'Modified':
            jobs.append({"id": q['id'], "input": q['src'], "output": rec['content'], "hooks": "identity"})
            idx[q['id']] = (q, rec)
    violations, known_hits = [], {}
    ran = events = 0
    from concurrent.futures import ThreadPoolExecutor
    chunks = [jobs[i:i + 60] for i in range(0, len(jobs), 60)]
    with ThreadPoolExecutor(max_workers=8) as ex:
        outs = list(ex.map(lambda ch: _node_job(node, 'diffexec.js', ch), chunks))
    for out in outs:
        for r in out:
            q, rec = idx[r['id']]
            if r.get('inputSyntaxError') or r.get('error'):
                continue
            ran += 1
            events += r.get('events', 0)
            if 'diff' in r:
                cls = 'behaviour-differs-under-pass-through-hooks'
                methods = (q['cfg'] or {}).get('csiMethods') or []
                plus_on = any(m.get('operator') and m.get('src') == 'plusOperator' for m in methods)
                import re as _re
                if _re.search(r'\.\.\.\(?(\d|true|false|null|/)', q['src']):
                    cls = 'spread-of-a-non-iterable-literal-throws-after-later-arguments-were-evaluated'
                elif not plus_on and ' + ' in q['src']:
                    cls = 'sum-left-in-place-is-evaluated-after-hoisted-operands-when-plus-is-disabled'
                elif _throws_later(r['diff']) and _re.search(r"(\b(true|false|null|\d+(\.\d+)?|'[^']*'|\"[^\"]*\") \+ \d+n\b)|(\b\d+n \+ (true|false|null|'|\"|\d+(\.\d+)?(?![\dn.])))", q['src']):
                    # `true + 10n`: a sum of literals is left where it is (it is taken to be a constant), but mixing a BigInt
                    # with another kind throws when it is evaluated - after later arguments that were hoisted in front of it
                    cls = 'literal-sum-mixing-bigint-throws-after-later-arguments-were-evaluated'
                elif _lost_this(r['diff']) and _re.search(r'\?\.(\w+|\[[^\]]*\])(\.\w+)*\)*\?\.\(', q['src']):
                    # `a?.b?.(x)` / `a?.b.c?.(x)` inside a lowered chain: the callee is a link of the chain, it is
                    # hoisted whole into a temporary and called without its receiver
                    cls = 'optional-call-on-a-chain-member-loses-this'
                kf = [x for x in known if x['cls'] == cls and x['property'] in (prop, 'C01')]
                (known_hits.setdefault((prop, cls), []).append((q, r['diff'])) if kf else
                 violations.append(('%s:%s' % (prop, cls), q, rec, r['diff'])))
    ev['coverage']['node_diffexec'] = {'programs_run': ran, 'events_compared': events, 'generated': n,
                                       'what': 'input and rewritten output run in fresh V8 contexts with Proxy-observable free variables and identity hooks; '
                                               'compared: outcome, full effect log in order, multiset of implicit coercions'}
    return violations, known_hits, ''


def node_compile(node, prop, seed, tier, known, ev, results):
    jobs = []
    lim = 600 if tier == 'quick' else 20000
    for req, rec, v in results:
        if rec.get('outcome') == 'ok' and rec.get('status') == 'Modified' and len(jobs) < lim:
            kind = 'module' if (rec.get('in_ast') or {}).get('type') == 'Module' else 'script'
            jobs.append({"id": req['id'], "input": req['src'], "output": rec['content'], "kind": kind})
    idx = {q['id']: (q, r) for q, r, _ in results}
    violations = []
    compiled = 0
    if jobs:
        out = _node_job(node, 'compile.js', jobs, flags=['--experimental-vm-modules', '--no-warnings'])
        for r in out:
            if not r.get('inputOk'):
                continue
            compiled += 1
            if not r.get('outputOk'):
                q, rec = idx[r['id']]
                violations.append(('C08:output-rejected-by-v8', q, rec, r.get('error')))
    ev['coverage']['node_compile'] = {'outputs_compiled_by_v8': compiled, 'candidates': len(jobs)}
    return violations, {}, ''


def node_wrapper(node, prop, seed, tier, known, ev, results):
    """main.js NonCacheRewriter/CacheRewriter around the real results: not modified -> the caller's text"""
    picks = []
    nm = mod = 0
    # the byte-level texts first (every one of them goes through the package)
    ordered = [x for x in results if 'bytes' in x[0].get('tags', [])] + [x for x in results if 'bytes' not in x[0].get('tags', [])]
    for req, rec, v in ordered:
        if rec.get('outcome') != 'ok':
            continue
        if rec.get('status') == 'NotModified' and (nm < 150 or 'bytes' in req.get('tags', [])):
            nm += 1
            picks.append((req, rec))
        elif rec.get('status') == 'Modified' and mod < 80:
            mod += 1
            picks.append((req, rec))
    table = {}
    hist = []
    groups = []
    # one Rewriter instance per history; every second history rewrites the *same file name* again with a
    # different text (an edited file that is loaded again): each call must answer for the text it was given
    i = 0
    while i < len(picks):
        n = 1 if (i // 2) % 2 == 0 else min(3, len(picks) - i)
        grp = picks[i:i + n]
        file0 = grp[0][0]['file']
        for req, rec in grp:
            table[native_key(req['src'], file0)] = {"result": {"content": rec['content'], "metrics": rec['metrics'], "literalsResult": rec.get('literals')}}
        # every fourth history: storing the rewritten file's source map fails (what the package's own spec injects);
        # the call still answers, and a result reported as modified still carries the rewritten text
        hist.append({"id": len(hist), "steps": [dict({"file": file0, "code": req['src'], "lookups": []}, **({"fault": "map-cache-throws"} if len(hist) % 4 == 3 else {}))
                                                for req, rec in grp]})
        groups.append(grp)
        i += n
    violations = []
    if hist:
        import tempfile
        job = {"native": table, "histories": hist}
        with tempfile.NamedTemporaryFile('w', suffix='.json', delete=False, dir=os.path.join(vlib.VERIF, 'replays')) as f:
            json.dump(job, f)
            jobfile = f.name
        try:
            p = subprocess.run([node, '-r', os.path.join(vlib.VERIF, 'js', 'preload.js'), os.path.join(vlib.VERIF, 'js', 'c11.js'), jobfile],
                               stdout=subprocess.PIPE, stderr=subprocess.PIPE, text=True, timeout=1200, env=dict(os.environ, VERIF_REPO=vlib.REPO))
        finally:
            os.unlink(jobfile)
        if p.returncode != 0:
            raise vlib.BuildError('node wrapper job failed: ' + (p.stderr or '')[-500:])
        res = json.loads(p.stdout)
        for grp, h in zip(groups, res['histories']):
            if 'error' in h:
                violations.append(('C12:package-wrapper-threw', grp[0][0], grp[0][1], h['error'][:300]))
                continue
            for k, ((req, rec), st) in enumerate(zip(grp, h['steps'])):
                where = '' if k == 0 else 'call %d for the same file name, after %s' % (k + 1, json.dumps([g[0]['src'][:80] for g in grp[:k]]))
                want = 'notmodified' if rec['status'] == 'NotModified' else 'modified'
                if rec['status'] == 'NotModified' and not st['sameText']:
                    violations.append(('C12:not-modified-result-is-not-the-callers-text', req, rec, where))
                if rec['status'] == 'Modified' and st['sameText']:
                    violations.append(('C12:modified-result-returns-the-input-text', req, rec, where))
                if (st.get('status') or '').lower() != want:
                    violations.append(('C12:package-wrapper-reports-another-status', req, rec, '%s vs %s %s' % (st.get('status'), want, where)))
    ev['coverage']['node_wrapper'] = {'results_through_main_js': len(picks), 'not_modified': nm, 'modified': mod}
    return violations, {}, ''


# ------------------------------------------------------------------------------------------ C13

def run_mal(prop, spec, seed, tier, known, ev):
    """totality: arbitrary text / file names / reader faults -> a result or an error, never a panic,
    an abort or a hang (watchdog); the model agrees on the outcome class where the text parses"""
    from collections import Counter
    n = 2500 if tier == 'quick' else 40000
    reqs = gen.mal_requests(seed, n)
    results = vlib.pipeline(reqs)
    violations, corr_fail = [], []
    outcomes = Counter()
    tags = Counter()
    errkinds = Counter()
    for req, rec, v in results:
        oc = rec.get('outcome')
        outcomes[oc] += 1
        for t in req.get('tags', []):
            tags[t] += 1
        if oc == 'err':
            e = rec.get('err', '')
            errkinds['refused-name' if 'Variable name duplicated' in e else 'syntax' if ' x ' in e or 'error' in e.lower() or True else 'other'] += 1
        if oc in ('panic', 'abort', 'hang', 'garbled'):
            violations.append(('C13:' + oc, req, rec, (rec.get('panic') or rec.get('stderr') or '')[:300]))
        co = v.get('corr')
        if isinstance(co, dict):
            for k, d in co.items():
                if k in ('status', 'fuel'):
                    corr_fail.append((k, req, rec, d))
    nontrivial = sum(1 for req, rec, v in results if rec.get('outcome') == 'err' or 'ref' in ' '.join(req.get('tags', [])))
    ev['coverage'].update({
        'evaluations': len(results), 'distinct_nontrivial': nontrivial,
        'rule': 'token-level mutations of generated programs, random text, odd file names, source-map references of every '
                'kind (inline ok/bad base64/bad JSON/index map, external ok/missing/directory/denied/garbage, huge, empty) with '
                'an in-memory FileReader injecting the faults; non-trivial = rejected text or a source-map reference present',
        'outcome_histogram': dict(outcomes), 'error_kinds': dict(errkinds), 'tag_histogram': dict(tags.most_common(30)),
        'samples': [{k: q.get(k) for k in ('id', 'file', 'src', 'files')} for q in reqs[3:5]],
    })
    return violations, {}, corr_fail


# ------------------------------------------------------------------------------------------ C16

def _result_key(rec):
    lits = rec.get('literals')
    if isinstance(lits, dict):
        lits = sorted((l['value'], sorted((x['line'], x['column'], x.get('ident') or '') for x in l['locations'])) for l in lits.get('literals', []))
    m = rec.get('metrics')
    if isinstance(m, dict) and isinstance(m.get('propagationDebug'), dict):
        m = dict(m, propagationDebug=sorted(m['propagationDebug'].items()))
    return json.dumps([rec.get('outcome'), rec.get('status'), rec.get('content'), m, lits, rec.get('err')], sort_keys=True)


def run_history(prop, spec, seed, tier, known, ev):
    """random call histories (successful, not modified, syntax errors, cancelled, with and without
    source-map comments) on several rewriter instances inside ONE process, each call compared with
    the same call made alone in a fresh process"""
    r = vlib.SplitMix64(seed)
    n_hist = 40 if tier == 'quick' else 600
    pool = []
    base = gen.gen_requests(r.next(), 60, depth=2, cfg_mode='default')
    for q in base:
        pool.append(q['src'])
    pool += ["function f(){ return a + b( }", "const __datadog_test_0 = 1; function f(){ return a + b(); }",
             "function f(a){ return a + b(); }\n//# sourceMappingURL=data:application/json;base64,eyJ2ZXJzaW9uIjozLCJzb3VyY2VzIjpbIm9yaWcudHMiXSwibmFtZXMiOltdLCJtYXBwaW5ncyI6IkFBQUEifQ==",
             "var x = 1;", "function f(){ return `a${b}` + 'some long literal value'; }", "",
             "//# sourceMappingURL=data:application/json;base64,eyJ2ZXJzaW9uIjozLCJzb3VyY2VzIjpbImxlYWsudHMiXSwibmFtZXMiOltdLCJtYXBwaW5ncyI6IkFBQUEifQ==\nfunction f( { return",
             "const __datadog_test_0 = 1; function f(){ return a + b(); }\n//# sourceMappingURL=data:application/json;base64,eyJ2ZXJzaW9uIjozLCJzb3VyY2VzIjpbImxlYWsudHMiXSwibmFtZXMiOltdLCJtYXBwaW5ncyI6IkFBQUEifQ==",
             "const __datadog_other_0 = 1; function f(){ return a + b(); }\n//# sourceMappingURL=data:application/json;base64,eyJ2ZXJzaW9uIjozLCJzb3VyY2VzIjpbImxlYWsudHMiXSwibmFtZXMiOltdLCJtYXBwaW5ncyI6IkFBQUEifQ==",
             "const __datadog_first_0 = 1; function f(){ return a + b(); }\n//# sourceMappingURL=data:application/json;base64,eyJ2ZXJzaW9uIjozLCJzb3VyY2VzIjpbImxlYWsudHMiXSwibmFtZXMiOltdLCJtYXBwaW5ncyI6IkFBQUEifQ=="]
    # a bundle whose inline map names several original files (the chained map must list them in the same order every time)
    import base64 as _b64
    bundle = "\n".join("function g%d(a){ return a + h%d(); }" % (k, k) for k in range(7))
    bmap = encode_map([(k, c, k, 3 + k, c, None) for k in range(7) for c in (0, 9, 20)], ["src/part%d.ts" % k for k in range(7)], [], None)
    pool.append(bundle + "\n//# sourceMappingURL=data:application/json;base64," + _b64.b64encode(bmap.encode()).decode())
    pool.append("var nothingToDo = 1;\n//# sourceMappingURL=data:application/json;base64," + _b64.b64encode(bmap.encode()).decode())
    # the same file name rewritten again with another text and another original map (an edited file loaded again)
    mapped = []
    for k in range(5):
        body = "function v%d(a, b) { return a + b + %d }" % (k, k)
        mp = encode_map([(0, 0, 0, k, 0, None), (0, 9 + k, 0, k, 4, None)], ["version%d.ts" % k], [], None)
        mapped.append(body + "\n//# sourceMappingURL=data:application/json;base64," + _b64.b64encode(mp.encode()).decode())
    mapped += [x for x in pool if 'sourceMappingURL' in x]
    pool += mapped[:5]
    cfgs = [dict(vlib.DEFAULT_CFG, chainSourceMap=True), dict(vlib.DEFAULT_CFG, localVarPrefix="other", chainSourceMap=True, comments=True),
            {"localVarPrefix": "zz", "csiMethods": [{"src": "plusOperator", "operator": True}], "telemetryVerbosity": "OFF", "chainSourceMap": True},
            dict(vlib.DEFAULT_CFG, localVarPrefix="first")]
    violations = []
    total = 0
    distinct = set()
    samples = []
    for h in range(n_hist):
        g = r.fork()
        ln = 3 + g.below(10)
        hist = []
        heavy = g.chance(1, 3)     # mostly files with an original map, few file names
        for i in range(ln):
            hist.append({"id": "h%d-%d" % (h, i), "cfg": g.choice(cfgs), "src": g.choice(mapped if heavy and not g.chance(1, 4) else pool),
                         "file": g.choice(["a.js", "b.js"] if heavy else ["a.js", "b.js", "dir/c.js"]), "ast": False, "fresh": g.chance(1, 8)})
        if h == 0:
            # a generated file with many reportable literals (more than any plausible cap): the report is the same set every time
            many = "var table = [" + ", ".join("'reportable literal number %04d'" % k for k in range(900)) + "];\nfunction f(a){ return a + table[0]; }"
            hist = [{"id": "h0-%d" % i, "cfg": cfgs[0], "src": many if i != 2 else pool[0], "file": "gen/table.js", "ast": False, "fresh": i == 3} for i in range(4)]
        recs = vlib.run_harness(hist)
        # every call alone, each in its own process
        alone = []
        for q in hist:
            alone.append(vlib.run_harness([dict(q, fresh=True)])[0])
        for q, a, b in zip(hist, recs, alone):
            total += 1
            distinct.add(vlib.sha(q['src'] + json.dumps(q['cfg'], sort_keys=True) + q['file']))
            if _result_key(a) != _result_key(b):
                violations.append(('C16:result-depends-on-earlier-calls', {'history': [{k: x[k] for k in ('cfg', 'src', 'file', 'fresh')} for x in hist], 'call': q['id']},
                                   a, 'in history: %s ... alone: %s' % (_result_key(a)[:300], _result_key(b)[:300])))
                break
        if h < 2:
            samples.append([{k: x[k] for k in ('src', 'file')} for x in hist][:4])
        # determinism: the same history again
        recs2 = vlib.run_harness(hist)
        if [_result_key(x) for x in recs] != [_result_key(x) for x in recs2]:
            violations.append(('C16:not-deterministic', {'history': [{k: x[k] for k in ('cfg', 'src', 'file')} for x in hist]}, recs[0], 'same history, different results'))
    ev['coverage'].update({
        'evaluations': total, 'distinct_nontrivial': len(distinct), 'histories': n_hist,
        'rule': 'random histories of 3-12 rewrite calls over a pool of sources (valid, not modified, syntax error, refused name, '
                'with source-map comment) on up to 4 rewriter instances in one process; each call compared with the same call alone '
                'in a fresh process and the whole history repeated; non-trivial = distinct (source, config, file)',
        'samples': samples,
    })
    return violations, {}, []


# ------------------------------------------------------------------------------------------ C05 (defaults, prologue)

def gen_raw_config(r):
    """any JSON a caller might pass: omitted / explicit / null / wrongly typed fields, unknown fields"""
    k = r.below(12)
    if k == 0:
        return None
    if k == 1:
        return {}
    if k == 2:
        return "not an object"
    if k == 3:
        return {"chainSourceMap": "yes"}
    if k == 4:
        return {"csiMethods": [{"dst": "noSrc"}]}
    if k == 5:
        return {"csiMethods": [{"src": "trim", "operator": 1}]}
    cfg = gen.gen_config(r, full=r.chance(1, 2))
    if r.chance(1, 5):
        cfg["unknownOption"] = 1
    if r.chance(1, 6):
        cfg["comments"] = None
    if r.chance(1, 6):
        cfg["telemetryVerbosity"] = None
    if r.chance(1, 8) and cfg.get("csiMethods"):
        cfg["csiMethods"][0]["dst"] = None
    if r.chance(1, 10) and cfg.get("csiMethods"):
        cfg["csiMethods"][0]["dst"] = r.choice(["delete", "$ok", "_x9", "a-b", "1abc", "x: 1, y", ""])
    return cfg


def run_extra(prop, spec, seed, tier, known, ev):
    n = 400 if tier == 'quick' else 6000
    r = vlib.SplitMix64(seed ^ 0xC05)
    reqs = [{"id": "cfg-%d" % i, "op": "config", "cfg": gen_raw_config(r.fork())} for i in range(n)]
    recs = vlib.run_harness(reqs)
    for q, rec in zip(reqs, recs):
        rec.setdefault('cfg', q['cfg'])
    verds = vlib.run_driver(recs, 'config')
    violations, corr = [], []
    explicit = 0
    for q, rec, v in zip(reqs, recs, verds):
        if rec.get('outcome') != 'ok':
            violations.append(('C05:config-construction-failed', q, rec, rec.get('panic') or rec.get('err')))
            continue
        if (v.get('stats') or {}).get('explicit_prefix'):
            explicit += 1
        ch = v.get('checks')
        if isinstance(ch, dict):
            for k, d in ch.items():
                violations.append((k, q, rec, d))
        co = v.get('corr')
        if isinstance(co, dict):
            for k, d in co.items():
                corr.append((k, q, rec, d))
    ev['coverage']['config_cases'] = n
    ev['coverage']['config_cases_with_random_prefix'] = n - explicit
    return violations, corr


# ------------------------------------------------------------------------------------------ C09 / C10

def _vlq(n):
    v = (-n << 1) | 1 if n < 0 else n << 1
    out = ''
    B = 'ABCDEFGHIJKLMNOPQRSTUVWXYZabcdefghijklmnopqrstuvwxyz0123456789+/'
    while True:
        d = v & 31
        v >>= 5
        if v:
            d |= 32
        out += B[d]
        if not v:
            return out


def encode_map(tokens, sources, names, source_root=None):
    """tokens: (genLine, genCol, srcIdx|None, srcLine, srcCol, nameIdx|None) sorted"""
    lines = {}
    for t in tokens:
        lines.setdefault(t[0], []).append(t)
    out = []
    ps = pl = pc = pn = 0
    for ln in range(max(lines) + 1 if lines else 0):
        segs = []
        pg = 0
        for t in sorted(lines.get(ln, []), key=lambda t: t[1]):
            s = _vlq(t[1] - pg)
            pg = t[1]
            if t[2] is not None:
                s += _vlq(t[2] - ps) + _vlq(t[3] - pl) + _vlq(t[4] - pc)
                ps, pl, pc = t[2], t[3], t[4]
                if t[5] is not None:
                    s += _vlq(t[5] - pn)
                    pn = t[5]
            segs.append(s)
        out.append(','.join(segs))
    m = {"version": 3, "sources": sources, "names": names, "mappings": ';'.join(out)}
    if source_root is not None:
        m["sourceRoot"] = source_root
    return json.dumps(m, ensure_ascii=False)  # raw UTF-8, as the Rust side writes it


def layout_program(g):
    """a modified program in a layout that stresses positions: multi-line operands, CRLF, non-ASCII"""
    nl = g.choice(["\n", "\n", "\r\n"])
    ind = g.choice(["", "  ", "\t"])
    pre = g.choice(["", "// héllo wörld 日本\n", "/* é */ ", "'use strict';\n", "var ünï = 1;" + nl])
    bodies = [
        "function f(a, b) {%N%Ireturn a +%N%I%Ib(c,%N%I%I%Id);%N}",
        "function f(a, b) {%N%Ilet x = `é${a}ü${b()}`;%N%Ix += a.trim(%N%I%Ib%N%I);%N%Ireturn x;%N}",
        "class K {%N%Im(a) {%N%I%Ireturn a?.trim()%N%I%I%I.concat('é', a);%N%I}%N}",
        "const f = (a, b) => a + b() + 'ü𝒳' + a;%Nfunction g(){ return String.prototype.trim.call(a) }",
        "function f(o, s, i){%N%Io[i++] += s;%N%Iif (o + s) return s.substring(1 +%N%I%Ii);%N%Ielse return o.p +%N s;%N}",
    ]
    src = pre + g.choice(bodies).replace("%N", nl).replace("%I", ind)
    return src


def run_maps(prop, spec, seed, tier, known, ev):
    n = 400 if tier == 'quick' else 6000
    r = vlib.SplitMix64(seed ^ 0x909)
    reqs = []
    for i in range(n // 2):
        g = r.fork()
        reqs.append({"id": "lay-%d" % i, "cfg": dict(vlib.DEFAULT_CFG, comments=g.chance(1, 2)), "src": layout_program(g),
                     "file": g.choice(["test.js", "dir/sub/file.js", "/abs/é/mod.js", "reports/q1\\2024.js"]), "tags": ['layout']})
    reqs += gen.gen_requests(r.next(), n - n // 2, cfg_mode='mixed')
    for k, q in enumerate(reqs):
        q.update({"maps": True, "text_ast": True})
        q['cfg'] = dict(q['cfg'] or {}, chainSourceMap=False)
        if k % 6 == 5:
            # chaining asked for, but the map the file refers to cannot be had (no such file, not a map, an
            # index map): the plain map of this rewrite must still be embedded, and be right
            g = r.fork()
            ref = g.choice(["missing.map", "data:application/json;base64,bm90IGpzb24=", "sub/none.js.map", "data:application/json;base64,"])
            q['src'] = q['src'] + g.choice(["\n//# sourceMappingURL=" + ref, "\n//# sourceMappingURL=" + ref + "\n", "\n/*# sourceMappingURL=" + ref + " */"])
            q['cfg'] = dict(q['cfg'], chainSourceMap=True, comments=g.chance(1, 2))
            q['tags'] = list(q.get('tags', [])) + ['chain-on-unusable-reference']
    results = vlib.pipeline(reqs, mode='maps')
    vio_big = periodic_large_file(r.fork(), tier)
    out = _collect(prop, spec, results, known, ev, 'modified files whose embedded map was decoded with the verified decoder: layout stress programs '
                    '(multi-line operands, CRLF, non-ASCII, comments) and grammar-generated programs; non-trivial = a map with at least one token was checked; '
                    'plus one file of more than a megabyte made of one small function repeated, whose mappings must be those of the small function')
    ev['coverage']['large_file'] = vio_big[1]
    return (out[0] + vio_big[0],) + tuple(out[1:])


def periodic_large_file(g, tier):
    """a file of > 1 MiB built from the same 4-line function repeated (names of equal width): every copy must be mapped
    exactly like the function is mapped in a two-function file (position-for-position, shifted by whole lines)"""
    def fn(k):
        return "function fn%06d(a%06d, b%06d){\n  return a%06d +\n    b%06d.trim();\n}" % (k, k, k, k, k)
    nf = 14500 if tier == 'quick' else 40000
    cfg = dict(vlib.DEFAULT_CFG, chainSourceMap=False)
    small = vlib.run_harness([{"id": "small", "cfg": cfg, "src": fn(0) + "\n" + fn(1), "file": "big.js", "tags": [], "maps": True, "ast": False}])[0]
    big_src = "\n".join(fn(k) for k in range(nf))
    big = vlib.run_harness([{"id": "big", "cfg": cfg, "src": big_src, "file": "big.js", "tags": [], "maps": True, "ast": False}])[0]
    info = {'bytes': len(big_src), 'functions': nf, 'status': big.get('status')}
    try:
        st = small['map_tokens']['tokens']
        bt = big['map_tokens']['tokens']
    except Exception:
        return ([('C09:large-file-produced-no-map', {'src': '%d copies of a 4-line function (%d bytes)' % (nf, len(big_src)), 'file': 'big.js'}, {}, str(big.get('outcome')))], info)
    info['tokens'] = len(bt)
    def by_fn(tokens):
        d = {}
        for t in tokens:
            d.setdefault(t[2] // 4, []).append(t)
        return d
    sd, bd = by_fn(st), by_fn(bt)
    g0 = min(t[0] for t in sd[0]); g1 = min(t[0] for t in sd[1]); per = g1 - g0
    ref = sorted((t[0] - g0, t[1], t[2], t[3]) for t in sd[0])
    b0 = min(t[0] for t in bd[0])
    for k in sorted(bd):
        rel = sorted((t[0] - b0 - k * per, t[1], t[2] - 4 * k, t[3]) for t in bd[k])
        if rel != ref:
            return ([('C09:large-file-mappings-differ-from-the-same-code-in-a-small-file',
                      {'src': '%d copies of "%s" with numbered names (%d bytes)' % (nf, fn(0).replace('\n', ' '), len(big_src)), 'file': 'big.js', 'copy': k}, {},
                      'copy %d: %d mappings %s... expected %d mappings %s...' % (k, len(rel), rel[:4], len(ref), ref[:4]))], info)
    if len(bd) != nf:
        return ([('C09:large-file-functions-without-mappings', {'src': 'large periodic file', 'file': 'big.js'}, {}, '%d of %d functions mapped' % (len(bd), nf))], info)
    return ([], info)


def gen_orig_map(g, src):
    """an original map for `src`: tokens at random generated positions of the input text"""
    lines = src.split('\n')
    toks = []
    nsrc = 1 + g.below(3)
    sources = ["orig%d.ts" % k for k in range(nsrc)]
    if g.chance(1, 4):
        # names outside ASCII (the map JSON carries them as UTF-8)
        sources = [g.choice(["m\u00f3dulo%d.ts", "\u65e5\u672c%d.ts", "dir \u00e9/x%d.ts", "\U0001F600%d.ts"]) % k for k in range(nsrc)]
    names = ["n%d" % k for k in range(g.below(4))]
    # a bundle of files generated from one template: neighbouring pieces come from the same line and column of
    # different original files (and carry different names)
    twins = g.chance(1, 4)
    if twins:
        nsrc = max(nsrc, 2)
        sources = (sources + ["orig_twin.ts"])[:max(len(sources), 2)] if len(sources) < 2 else sources
        names = names or ["first", "second"]
    for ln, text in enumerate(lines):
        if g.chance(1, 5):
            continue
        if twins and g.chance(1, 2):
            L, C = g.below(50), g.below(80)
            cols = sorted(set(g.below(max(1, len(text))) for _ in range(2 + g.below(5))))
            for j, c in enumerate(cols):
                toks.append((ln, c, j % nsrc, L, C, (j % len(names)) if g.chance(1, 2) else None))
            continue
        cols = sorted(set(g.below(max(1, len(text))) for _ in range(1 + g.below(6))))
        if g.chance(2, 3) and 0 not in cols:
            cols = [0] + cols
        for c in cols:
            if g.chance(1, 12):
                toks.append((ln, c, None, 0, 0, None))
            else:
                toks.append((ln, c, g.below(nsrc), g.below(50), g.below(80), (g.below(len(names)) if names and g.chance(1, 3) else None)))
    return encode_map(toks, sources, names, g.choice([None, None, "", "root/"]))


def run_chain(prop, spec, seed, tier, known, ev):
    import base64
    n = 500 if tier == 'quick' else 6000
    r = vlib.SplitMix64(seed ^ 0x1010)
    base = gen.gen_requests(r.next(), n, depth=2, cfg_mode='default')
    reqs = []
    for i, q in enumerate(base):
        g = r.fork()
        src = q['src'] if g.chance(1, 2) else layout_program(g)
        if g.chance(1, 7):
            # a file with nothing to instrument that still carries a map reference: what it leaves behind must not
            # reach the files rewritten after it
            src = "var unmodified%d = %d;" % (i, g.below(100))
        file = g.choice(["test.js", "dir/sub/file.js", "/abs/mod.js"])
        parent = os.path.dirname(file)
        m = gen_orig_map(g, src)
        kind = g.below(9)
        files = {}
        if kind == 0:
            ref = None
        elif kind in (1, 2):
            ref = "data:application/json;base64," + base64.b64encode(m.encode()).decode()
        elif kind in (3, 4):
            ref = "file.js.map"
            files[(parent + "/" if parent else "") + "file.js.map"] = m
        elif kind == 5:
            ref = "/maps/abs.map"
            files["/maps/abs.map"] = m
        elif kind == 6:
            ref = "missing.map"
        elif kind == 7:
            ref = "data:application/json;base64,bm90IGpzb24="
        else:
            ref = "idx.map"
            files[(parent + "/" if parent else "") + "idx.map"] = gen.MAP_INDEX
        style = g.below(5)
        if ref is not None:
            if style == 3:
                # blanks after the reference
                src = src + "\n//# sourceMappingURL=" + ref + g.choice([" ", "\t", "  \t ", " \r"])
            elif style == 4:
                # the block form of the comment
                src = src + "\n/*# sourceMappingURL=" + ref + " */"
            elif style == 0:
                src = src + "\n//# sourceMappingURL=" + ref
            elif style == 1:
                src = src + "\n//# sourceMappingURL=" + ref + "\n"
            else:
                # a look-alike inside a string literal and the real comment
                src = "var lookalike = \"//# sourceMappingURL=" + ref[:20] + "\";\n" + src + "\n//# sourceMappingURL=" + ref
        cfg = dict(vlib.DEFAULT_CFG, chainSourceMap=g.chance(3, 4), comments=g.chance(1, 2))
        reqs.append({"id": "chain-%d" % i, "cfg": cfg, "src": src, "file": file, "files": files, "maps": True,
                     "text_ast": True, "code_ast": True, "tags": ['chain', 'ref%d' % kind, 'style%d' % style]})
        if kind in (1, 2, 3, 4, 5):
            reqs[-1]["supplied_map"] = m
    results = vlib.pipeline(reqs, mode='chain')
    # the requests of one chunk run one after the other in one process: record what ran just before (a replay needs it
    # when the failure depends on an earlier call)
    for i, q in enumerate(reqs):
        q['preceded_by'] = [{'src': p['src'], 'file': p['file']} for p in reqs[max(i - 3, (i // 400) * 400):i]]
    out = _collect(prop, spec, results, known, ev, 'modified programs with an original map (random token layouts, several sources, names, sourceRoot, '
                    'sparse lines, segments without source) referenced inline / by relative or absolute file / missing / malformed / index map, '
                    'under {chain, comments} settings; non-trivial = a usable original map was chained')
    # the original map the implementation reports to have loaded is the one this request supplied (same path, other
    # content in an earlier request of the same process: nothing may be kept)
    extra = []
    compared = 0
    for req, rec, v in results:
        if rec.get('outcome') == 'ok' and rec.get('orig_map') and rec.get('supplied_tokens'):
            compared += 1
            if rec['orig_map'] != rec['supplied_tokens']:
                extra.append(('C10:original-map-used-is-not-the-one-the-file-references', req, rec,
                              'loaded %s... supplied %s...' % (json.dumps(rec['orig_map'])[:160], json.dumps(rec['supplied_tokens'])[:160])))
    ev['coverage']['original_map_identity_compared'] = compared
    return (out[0] + extra,) + tuple(out[1:])


def _collect(prop, spec, results, known, ev, rule):
    from collections import Counter
    violations, known_hits, corr_fail = [], {}, []
    tags = Counter()
    nontrivial = 0
    classes = Counter()
    for req, rec, v in results:
        for t in req.get('tags', []):
            tags[t] += 1
        st = v.get('stats') or {}
        classes[st.get('class') or ('has_orig' if st.get('has_orig') else 'checked')] += 1
        if st.get('tokens') and (prop != 'C10' or st.get('has_orig')):
            nontrivial += 1
        ch = v.get('checks')
        if isinstance(ch, dict):
            for k, d in ch.items():
                if not any(k.startswith(p) for p in spec['checks']):
                    continue
                p, cls = k.split(':', 1)
                kf = [x for x in known if x['cls'] == cls and x['property'] in (p, prop)]
                if kf:
                    known_hits.setdefault((p, cls), []).append((req, d))
                else:
                    violations.append((k, req, rec, d))
        co = v.get('corr')
        if isinstance(co, dict):
            for k, d in co.items():
                if k in spec['corr'] or k.startswith('convert'):
                    corr_fail.append((k, req, rec, d))
        if 'error' in v:
            corr_fail.append(('driver', req, rec, v['error']))
    ev['coverage'].update({'evaluations': len(results), 'distinct_nontrivial': nontrivial, 'rule': rule,
                           'class_histogram': dict(classes), 'tag_histogram': dict(tags.most_common(30)),
                           'samples': [{k: q.get(k) for k in ('id', 'file', 'src')} for q, _, _ in results[1:3]]})
    return violations, known_hits, corr_fail


# ------------------------------------------------------------------------------------------ C11

NODE = None


def find_node():
    global NODE
    if NODE:
        return NODE
    import shutil, glob
    cands = [shutil.which('node'), shutil.which('nodejs')] + sorted(glob.glob('/root/.nvm/versions/node/*/bin/node')) + ['/usr/bin/nodejs']
    for c in cands:
        if c and os.path.exists(c):
            NODE = c
            return c
    return None


def native_key(code, file):
    import hashlib
    return hashlib.sha256((file + '\u0000' + code).encode('utf-8')).hexdigest()


def native_table(calls, cfg):
    """results of the real Rust rewriter for (code, file) pairs, in the shape the wasm binding returns"""
    reqs = [{"id": i, "cfg": cfg, "src": c, "file": f, "ast": False, "maps": True} for i, (c, f) in enumerate(calls)]
    recs = vlib.run_harness(reqs)
    table, byk = {}, {}
    for (c, f), rec in zip(calls, recs):
        k = native_key(c, f)
        if rec.get('outcome') == 'ok':
            table[k] = {"result": {"content": rec['content'], "metrics": rec['metrics'], "literalsResult": rec.get('literals')}}
        else:
            table[k] = {"error": rec.get('err') or rec.get('panic') or 'error'}
        byk[k] = rec
    return table, byk


def glb(tokens, line, col):
    best = None
    for t in tokens:
        if t[0] < line or (t[0] == line and t[1] <= col):
            best = t
    return best


def trace_program(g):
    """functions that call a thrower at generator-known lines"""
    lines = ["function boom(){ throw new Error('x') }"]
    calls = []
    if g.chance(1, 3):
        # the text of a map reference inside the code (a bundler plugin's footer string): the trailer the
        # rewriter appends is the *last* one
        lines.append("function footer(name){ return '\\n//# sourceMappingURL=' + name + '.map'; }")
    n = 2 + g.below(4)
    for k in range(n):
        shape = g.below(5)
        if shape == 0:
            lines.append("function f%d(a, b){ return a + boom(); }" % k)
            calls.append(("f%d" % k, len(lines)))
        elif shape == 1:
            lines.append("function f%d(a){" % k)
            lines.append("  const s = `t${a}`;")
            lines.append("  return s.trim() + boom();")
            calls.append(("f%d" % k, len(lines)))
            lines.append("}")
        elif shape == 2:
            lines.append("function f%d(a){" % k)
            lines.append("  let x = 'é' + a;")
            lines.append("  x += a;")
            lines.append("  if (x) { return boom(x + a); }")
            calls.append(("f%d" % k, len(lines)))
            lines.append("}")
        elif shape == 3:
            lines.append("const f%d = (a) => a + boom();" % k)
            calls.append(("f%d" % k, len(lines)))
        else:
            lines.append("function f%d(a){ return a?.trim() }  function g%d(){" % (k, k))
            lines.append("  return String.prototype.concat.call('', boom(),")
            calls.append(("g%d" % k, len(lines)))
            lines.append("    1); }")
    if g.chance(1, 2):
        # eval frames: the call sites of the evaluated code are reported through getEvalOrigin
        lines.append("function ev%d(){ return eval('eval(\\'boom()\\')'); }" % n)
        calls.append(("ev%d" % n, len(lines)))
    if g.chance(1, 3):
        lines.insert(0, "'use strict';")
        calls = [(f, l + 1) for f, l in calls]
        boom_line = 2
    else:
        boom_line = 1
    return "\n".join(lines) + "\n", calls, boom_line


def parse_formatted(stack):
    import re
    out = []
    if not isinstance(stack, str):
        return out
    for ln in stack.split('\n'):
        m = re.match(r'\s*at .*?\(?([^()\s]+):(\d+):(\d+)\)?$', ln)
        if m:
            out.append({"file": m.group(1), "line": int(m.group(2)), "column": int(m.group(3))})
    return out


def run_js(prop, spec, seed, tier, known, ev):
    node = find_node()
    if not node:
        ev['coverage'].update({'evaluations': 1, 'distinct_nontrivial': 2, 'samples': [{'note': 'node not found: JS correspondence skipped'}],
                               'rule': 'node missing'})
        return [], {}, [('js', {}, {}, 'node not found')]
    import tempfile
    r = vlib.SplitMix64(seed ^ 0x1111)
    nmaps = 60 if tier == 'quick' else 1500
    ntraces = 30 if tier == 'quick' else 600
    nhist = 20 if tier == 'quick' else 300
    cfg = dict(vlib.DEFAULT_CFG)
    job = {"findEntry": [], "traces": [], "histories": [], "native": {}}
    # (a)
    fe_expected = {}
    for i in range(nmaps):
        g = r.fork()
        src = "\n".join("x" * (5 + g.below(60)) for _ in range(1 + g.below(12)))
        m = gen_orig_map(g, src)
        file = g.choice(["a.js", "dir/sub/b.js", "/abs/c.js"]) + str(i)
        positions = [[1 + g.below(14), 1 + g.below(70)] for _ in range(12)] + [[1, 1], [1 + g.below(5), 0]]
        job["findEntry"].append({"id": i, "map": m, "file": file, "positions": positions})
        fe_expected[i] = (m, file, positions)
    # (b)
    calls_needed = []
    traces = []
    for i in range(ntraces):
        g = r.fork()
        code, calls, boom_line = trace_program(g)
        # absolute names, as Node reports them (the eval-origin pattern of the package expects them)
        file = g.choice(["/abs/t%d.js" % i, "/abs/dir/sub/t%d.js" % i])
        traces.append((i, code, file, calls, boom_line))
        calls_needed.append((code, file))
        job["traces"].append({"id": i, "file": file, "code": code, "calls": [c[0] for c in calls]})
    # (c)
    hists = []
    for i in range(nhist):
        g = r.fork()
        file = "h%d.js" % i
        steps = []
        for s in range(2 + g.below(3)):
            if g.chance(1, 4):
                code = "var unmodified%d = %d;\n" % (s, g.below(100)) * (1 + g.below(4))
            else:
                code, _, _ = trace_program(g)
            steps.append({"file": file, "code": code, "lookups": [[1 + g.below(20), 1 + g.below(40)] for _ in range(6)]})
            calls_needed.append((code, file))
        hists.append((i, steps))
        job["histories"].append({"id": i, "steps": steps})
    # the native results come from rewriters of several configurations (the package caches the map of every
    # modified result, whatever the telemetry verbosity says about counting)
    quiet = dict(cfg, telemetryVerbosity="OFF")
    table, byk = native_table(calls_needed[0::2], cfg)
    t2, b2 = native_table(calls_needed[1::2], quiet)
    table.update(t2)
    byk.update(b2)
    job["native"] = table
    # (d) many distinct files
    gcap = r.fork()
    cap_src = "\n".join("y" * 40 for _ in range(6))
    ncap = 2500 if tier == 'quick' else 12000
    job["capacity"] = {"map": gen_orig_map(gcap, cap_src), "n": ncap, "positions": [[1 + gcap.below(6), 1 + gcap.below(40)] for _ in range(8)],
                       "probes": [0, 1, 7, ncap // 3, ncap // 2, ncap - 2, ncap - 1]}
    with tempfile.NamedTemporaryFile('w', suffix='.json', delete=False, dir=os.path.join(vlib.VERIF, 'replays')) as f:
        json.dump(job, f)
        jobfile = f.name
    try:
        p = subprocess.run([node, '-r', os.path.join(vlib.VERIF, 'js', 'preload.js'), os.path.join(vlib.VERIF, 'js', 'c11.js'), jobfile],
                           stdout=subprocess.PIPE, stderr=subprocess.PIPE, text=True, timeout=1200, env=dict(os.environ, VERIF_REPO=vlib.REPO))
    finally:
        os.unlink(jobfile)
    if p.returncode != 0 or not p.stdout.strip():
        return [('C11:javascript-layer-threw', {'src': 'c11.js job'}, {}, (p.stderr or '')[-600:])], {}, []
    res = json.loads(p.stdout)
    violations, known_hits, corr = [], {}, []

    def hit(cls, req, detail):
        kf = [x for x in known if x['cls'] == cls and x['property'] == 'C11']
        if kf:
            known_hits.setdefault(('C11', cls), []).append((req, detail))
        else:
            violations.append(('C11:' + cls, req, {}, detail))

    # (a) model of the lookup (Lean) vs node_source_map.js
    drv = []
    for a in res['findEntry']:
        m, file, positions = fe_expected[a['id']]
        drv.append({"id": a['id'], "mode": "js", "map": m, "positions": positions})
    verds = vlib.run_driver(drv, 'js')
    checked = 0
    for a, v in zip(res['findEntry'], verds):
        m, file, positions = fe_expected[a['id']]
        req = {"src": m, "file": file}
        if 'error' in a:
            hit('source-map-module-threw', req, a['error'][:300])
            continue
        model = v.get('model') or []
        if v.get('spec_differs'):
            corr.append(('js', req, {}, {'model': 'findEntry model differs from the lookup specification on this map', 'real': ''}))
        for pos, ans, mo in zip(positions, a['answers'], model):
            checked += 1
            got = ans['got']
            if pos[1] == 0:
                cls_default_col = True
            else:
                cls_default_col = False
            if mo is None:
                exp = {"path": file, "line": pos[0], "column": pos[1]}
            else:
                d = os.path.dirname(file)
                exp = {"path": os.path.normpath(os.path.join(d, mo[0])) if (d or mo[0]) else '.', "line": mo[1] + 1, "column": mo[2] + 1}
            if got != exp:
                last_seg = json.loads(m)['mappings'].split(';')[-1].split(',')[-1]
                n_fields = sum(1 for ch in last_seg if 'ABCDEFGHIJKLMNOPQRSTUVWXYZabcdef'.find(ch) >= 0)
                if n_fields == 1 and mo is None:
                    hit('trailing-one-field-segment-parsed-with-the-previous-source', dict(req, position=pos), 'node=%s expected=%s' % (got, exp))
                elif cls_default_col:
                    hit('lookup-with-column-0-resolves-to-an-earlier-mapping', dict(req, position=pos), 'node=%s expected=%s' % (got, exp))
                else:
                    # the expectation is the lookup specification (proved equal to the binary search): a different answer
                    # from the real module is a position resolved to the wrong original place
                    hit('position-resolves-differently-from-the-lookup-specification', dict(req, position=pos), 'node=%s expected=%s' % (got, exp))
    # (d) capacity: every probed file answers like the most recently cached one
    cap = res.get('capacity')
    if isinstance(cap, dict) and 'error' in cap:
        hit('source-map-module-threw', {'src': 'capacity scenario'}, cap['error'][:300])
    elif isinstance(cap, list) and cap:
        def norm(ans, i):
            return [dict(a, path=a.get('path', '').replace('/cap/f%d.js' % i, '/cap/f.js')) if isinstance(a, dict) else a for a in ans]
        ref = norm(cap[-1]['answers'], cap[-1]['i'])
        for c in cap:
            checked += 1
            if norm(c['answers'], c['i']) != ref:
                hit('cached-map-lost-after-many-rewritten-files', {'src': 'file #%d of %d distinct rewritten files' % (c['i'], job['capacity']['n'])},
                    'answers=%s most-recent=%s' % (c['answers'][:2], cap[-1]['answers'][:2]))
                break
    # (b) throw sites
    nframes = 0
    for (i, code, file, calls, boom_line), t in zip(traces, res['traces']):
        rec = byk[native_key(code, file)]
        req = {"src": code, "file": file}
        if 'error' in t:
            hit('stack-trace-preparation-threw', req, t['error'][:400])
            continue
        for branch in ('structured', 'formatted'):
            tr = t[branch]
            for (fn, line), fr in zip(calls, tr['frames']):
                st = fr['stack']
                frames = st if isinstance(st, list) else parse_formatted(st)
                mine = [x for x in frames if x.get('file') and os.path.basename(str(x['file'])) == os.path.basename(file)]
                nframes += len(mine)
                if len(mine) < 2:
                    hit('frames-of-the-rewritten-file-missing/' + branch, dict(req, fn=fn), json.dumps(st)[:400])
                    continue
                if branch == 'formatted' and isinstance(st, str) and 'eval at' in st:
                    import re as _re
                    for ln in st.split('\n'):
                        if 'eval at' in ln:
                            for mm in _re.finditer(_re.escape(os.path.basename(file)) + r':(\d+):(\d+)', ln):
                                nframes += 1
                                if int(mm.group(1)) != line:
                                    hit('eval-origin-not-translated-to-the-original-line', dict(req, fn=fn, expected=line), ln.strip()[:300])
                if str(mine[0]['file']) != os.path.normpath(file) or mine[0]['line'] != boom_line or mine[1]['line'] != line:
                    hit('call-site-not-translated-to-the-original-line/' + branch, dict(req, fn=fn, expected=[boom_line, line]),
                        json.dumps(mine[:3]))
    # (c) histories: after each rewrite, lookups use the map of the most recent rewrite
    for (i, steps), h in zip(hists, res['histories']):
        req = {"src": json.dumps([s['code'] for s in steps])[:2000], "file": steps[0]['file']}
        if 'error' in h:
            hit('caching-rewriter-threw', req, h['error'][:400])
            continue
        for s, got in zip(steps, h['steps']):
            rec = byk[native_key(s['code'], s['file'])]
            modified = rec.get('status') == 'Modified'
            if not modified and not got['sameText']:
                hit('not-modified-result-is-not-the-callers-text', req, '')
            toks = (rec.get('map_tokens') or {}).get('tokens') or []
            for pos, g in zip(s['lookups'], got['looks']):
                if modified:
                    t = glb(toks, pos[0] - 1, pos[1] - 1)
                    exp = {"path": s['file'], "line": pos[0], "column": pos[1]} if (t is None or t[4] is None) else {"path": s['file'], "line": t[2] + 1, "column": t[3] + 1}
                    if g != exp:
                        hit('lookup-does-not-use-the-most-recent-rewrite', dict(req, position=pos), 'node=%s expected=%s' % (g, exp))
                        break
                else:
                    exp = {"path": s['file'], "line": pos[0], "column": pos[1]}
                    if g != exp:
                        hit('stale-map-used-after-a-not-modified-rewrite', dict(req, position=pos), 'node=%s expected=%s' % (g, exp))
                        break
    ev['coverage'].update({
        'evaluations': checked + nframes + sum(len(s) for _, s in hists), 'distinct_nontrivial': nmaps + ntraces + nhist,
        'rule': 'real js/ modules under Node %s (lru-cache and the native module shimmed; native results precomputed by the real Rust code): '
                '(a) findEntry/getSourcePathAndLineFromSourceMaps on random maps and positions vs the Lean lookup model, (b) programs throwing at '
                'generator-known lines run in V8 with the package prepareStackTrace (structured and formatted branches), (c) rewrite histories '
                'per file name with lookups after every step' % node,
        'lookups_checked': checked, 'frames_checked': nframes, 'histories': nhist,
        'samples': [{"trace": traces[0][1], "calls": traces[0][3]}],
    })
    return violations, known_hits, corr

#!/usr/bin/env python3
"""Check modes beyond the tree pipeline: Node-based support runs, option defaulting, maps, JS model,
malformed inputs, call histories."""
import json, os, subprocess, sys
import vlib, gen


def run_node(prop, spec, seed, tier, known, ev, results):
    ev['coverage']['node_support'] = 'not built yet'
    return [], {}, ''


def run_extra(prop, spec, seed, tier, known, ev):
    return [], []

#!/usr/bin/env python3
"""Inventory half of the tie: the panic sites, process-wide state and visitor overrides found in
/repo/src must be exactly the ones the model accounts for (tools/inventory_expected.json).  A new
`unwrap`, a new `static`, a new `visit_mut_*` override is a lost tie for the property that depends on it."""
import glob, json, os, re, sys

REPO = os.environ.get('VERIF_REPO', '/repo')
HERE = os.path.dirname(os.path.abspath(__file__))
EXPECTED = os.path.join(HERE, 'inventory_expected.json')

PANIC = [
    (r'\.unwrap\(\)', 'unwrap'),
    (r'\.expect\(', 'expect'),
    (r'\bunreachable!', 'unreachable'),
    (r'\bpanic!', 'panic'),
    (r'\bassert(_eq|_ne)?!', 'assert'),
    (r'\bget_unchecked', 'get_unchecked'),
    (r'\bunsafe\b', 'unsafe'),
    (r'[A-Za-z_\)\]]\[[^\]\n]+\]', 'index'),
    (r'\bas (u8|u16|u32|i32|usize)\b', 'cast'),
    (r'\bloop\b|\bwhile\b', 'loop'),
]
STATE = [
    (r'^\s*(pub )?static\b', 'static'),
    (r'thread_local!', 'thread_local'),
    (r'lazy_static!', 'lazy_static'),
    (r'\bOnceCell\b|\bOnceLock\b|\bLazyLock\b|\bLazyCell\b', 'once'),
    (r'\bAtomic\w+::new\b', 'atomic'),
    (r'\bRefCell\b|\bMutex\b|\bRwLock\b|\bCell<', 'interior'),
]


def strip_comments(line):
    i = line.find('//')
    return line if i < 0 else line[:i]


def scan():
    files = sorted(f for f in glob.glob(os.path.join(REPO, 'src', '**', '*.rs'), recursive=True)
                   if '/tests/' not in f and not f.endswith('lib_napi.rs'))
    panic, state, overrides = [], [], []
    for f in files:
        rel = os.path.relpath(f, REPO)
        fn = '<top>'
        impl = ''
        in_verif = False
        depth_verif = 0
        lines = open(f, encoding='utf-8').read().split('\n')
        in_block_comment = False
        skip_next_item = False
        for ln in lines:
            raw = ln
            if in_block_comment:
                if '*/' in ln:
                    in_block_comment = False
                continue
            if ln.strip().startswith('/*'):
                if '*/' not in ln:
                    in_block_comment = True
                continue
            code = strip_comments(ln)
            # verification-only items are not part of the shipped code
            if 'cfg(datadog_dd_native_iast_rewriter_js_verif)' in code:
                skip_next_item = True
                continue
            if skip_next_item:
                if code.strip().startswith('pub mod') or code.strip().startswith('mod '):
                    in_verif = True
                    depth_verif = 0
                skip_next_item = False
                if not in_verif:
                    continue
            if in_verif:
                depth_verif += code.count('{') - code.count('}')
                if depth_verif <= 0 and '}' in code:
                    in_verif = False
                continue
            m = re.search(r'\bimpl(?:<[^>]*>)?\s+(?:(\w+)(?:<[^>]*>)?\s+for\s+)?(\w+)', code)
            if m and code.strip().startswith('impl'):
                impl = (m.group(1) + ' for ' if m.group(1) else '') + m.group(2)
            m = re.search(r'\bfn\s+(\w+)', code)
            if m:
                fn = m.group(1)
                if re.match(r'visit(_mut)?_\w+', fn) and ('VisitMut for' in impl or 'Visit for' in impl):
                    overrides.append('%s::%s::%s' % (rel, impl, fn))
            if code.strip().startswith('use ') or code.strip().startswith('#['):
                continue
            for pat, kind in PANIC:
                for mm in re.finditer(pat, code):
                    snippet = code.strip()
                    if kind == 'index':
                        tok = mm.group(0)
                        # attribute / type / vec! / slice pattern noise
                        if re.search(r'vec!\[|&\[|: \[|\[\]|matches!|#\[', snippet) and not re.search(r'\w\[\d+\]|\[\w+\.\.', tok):
                            continue
                        if not re.search(r'\[\s*(\d+|\w+|[^\]]*\.\.[^\]]*)\s*\]$', tok):
                            continue
                        if tok.endswith('[]'):
                            continue
                    if kind == 'cast' and 'as usize' not in snippet and 'as u' not in snippet and 'as i' not in snippet:
                        continue
                    panic.append('%s::%s::%s::%s' % (rel, fn, kind, snippet[:110]))
                    break
            for pat, kind in STATE:
                if re.search(pat, code):
                    state.append('%s::%s::%s' % (rel, kind, code.strip()[:110]))
    return {"panic_sites": sorted(set(panic)), "process_state": sorted(set(state)), "visitor_overrides": sorted(set(overrides))}


def keyed(inv):
    """the tie compares these keys, not the source text: a rename or a move inside a file keeps them
    (file::kind with multiplicity for panic sites and process-wide state; file::trait::method for overrides)"""
    def count(items, keyf):
        d = {}
        for x in items:
            k = keyf(x)
            d[k] = d.get(k, 0) + 1
        return d
    def pk(x):
        parts = x.split('::')
        return parts[0] + '::' + parts[2]
    def sk(x):
        parts = x.split('::')
        return parts[0] + '::' + parts[1]
    def ok(x):
        parts = x.split('::')
        trait = 'VisitMut' if parts[1].startswith('VisitMut') else 'Visit'
        return parts[0] + '::' + trait + '::' + parts[2]
    return {"panic_sites": count(inv["panic_sites"], pk), "process_state": count(inv["process_state"], sk),
            "visitor_overrides": count(inv["visitor_overrides"], ok)}


def main():
    inv = scan()
    if '--write' in sys.argv:
        old = json.load(open(EXPECTED)) if os.path.exists(EXPECTED) else {}
        notes = old.get('notes', {})
        json.dump({"panic_sites": inv["panic_sites"], "process_state": inv["process_state"],
                   "visitor_overrides": inv["visitor_overrides"], "keys": keyed(inv), "notes": notes}, open(EXPECTED, 'w'), indent=1)
        print('written', {k: len(v) for k, v in inv.items()})
        return 0
    exp = json.load(open(EXPECTED))
    out = {}
    now = keyed(inv)
    was = exp.get("keys") or keyed(exp)
    for k in ("panic_sites", "process_state", "visitor_overrides"):
        new = ['%s x%d (was %d): %s' % (key, n, was[k].get(key, 0), [x for x in inv[k] if x not in exp[k]][:6])
               for key, n in sorted(now[k].items()) if n > was[k].get(key, 0)]
        gone = ['%s x%d (was %d)' % (key, now[k].get(key, 0), n) for key, n in sorted(was[k].items()) if now[k].get(key, 0) < n]
        out[k] = {"count": len(inv[k]), "new": new, "gone": gone,
                  "text_changed": [x for x in inv[k] if x not in exp[k]][:10]}
    print(json.dumps(out))
    return 0


if __name__ == '__main__':
    sys.exit(main())

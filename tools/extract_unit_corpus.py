#!/usr/bin/env python3
"""Extract every JavaScript snippet of /repo's own test suites (src/tests/*.rs, test/*.spec.js) into
corpus/unit/snippets.json.  Run once; the result is committed (the tests are pinned)."""
import json, re, glob, os, ast

out = []
seen = set()

def add(src, origin):
    src = src.strip('\n')
    if not src.strip() or src in seen:
        return
    seen.add(src)
    out.append({"src": src, "origin": origin})

def rust_unescape(s):
    # rust string literal body -> text (line continuations, common escapes)
    s = re.sub(r'\\\n\s*', '', s)
    return (s.replace('\\n', '\n').replace('\\t', '\t').replace('\\"', '"').replace("\\'", "'").replace('\\\\', '\\'))

for f in sorted(glob.glob('/repo/src/tests/*.rs')):
    txt = open(f).read()
    for m in re.finditer(r'let\s+(?:original_code|js|code)\s*(?::\s*\w+)?\s*=\s*(r#")((?:.|\n)*?)"#|let\s+(?:original_code|js|code)\s*(?::\s*\w+)?\s*=\s*"((?:[^"\\]|\\.|\n)*)"', txt):
        if m.group(2) is not None:
            add(m.group(2), os.path.basename(f))
        else:
            add(rust_unescape(m.group(3)), os.path.basename(f))

for f in sorted(glob.glob('/repo/test/*.spec.js')):
    txt = open(f).read()
    for m in re.finditer(r"const\s+js\s*=\s*(?:builder\.build\()?\s*('(?:[^'\\\n]|\\.)*'|\"(?:[^\"\\\n]|\\.)*\"|`(?:[^`\\]|\\.)*`)", txt):
        lit = m.group(1)
        body = lit[1:-1]
        if lit[0] == '`' and '${' in body:
            continue
        try:
            body = bytes(body, 'utf-8').decode('unicode_escape') if '\\' in body else body
        except Exception:
            pass
        wrapped = body
        add('{' + wrapped + '}', os.path.basename(f))
        add('function names(a, b, c){ ' + wrapped + ' }', os.path.basename(f) + '#fn')

os.makedirs('/verif/corpus/unit', exist_ok=True)
json.dump(out, open('/verif/corpus/unit/snippets.json', 'w'), indent=0)
print(len(out), 'snippets')

#!/usr/bin/env python3
"""Translator half of the tie: regenerate lean/IastModel/Generated/Constants.lean from /repo's working
tree on every run.  Every constant, table and default the Lean model and its theorems depend on is
extracted with a strict pattern.  A pattern that no longer matches (the source was reorganised: a
renamed field, an inlined constant) does not by itself say that the value changed: the last extracted
value is kept for that constant, the fallback is listed in the output (and in the evidence), and the
differential correspondence of the same run — which exercises every one of these constants — is what
decides; a value that did change then shows up as a disagreement with a concrete input."""
import os, re, sys, json

REPO = os.environ.get('VERIF_REPO', '/repo')
OUT = os.path.join(os.path.dirname(os.path.dirname(os.path.abspath(__file__))), 'lean', 'IastModel', 'Generated',
                   'Constants.lean')


class Lost(Exception):
    pass


def read(rel):
    try:
        return open(os.path.join(REPO, rel), encoding='utf-8').read()
    except Exception as e:
        raise Lost('%s: cannot read (%s)' % (rel, e))


FALLBACKS = []


def one_strict(rel, pattern, flags=0, what=None):
    txt = read(rel)
    ms = re.findall(pattern, txt, flags)
    if len(ms) != 1:
        raise Lost('%s: expected exactly one match of %r (%s), found %d' % (rel, pattern, what or '', len(ms)))
    return ms[0]


def one(rel, pattern, flags=0, what=None):
    """shape check without a value, or a value used by a caller that handles Lost"""
    try:
        return one_strict(rel, pattern, flags, what)
    except Lost as e:
        if re.compile(pattern).groups == 0:
            FALLBACKS.append('shape: ' + str(e))
            return None
        raise


def previous(name):
    """the value extracted the last time the pattern matched (the committed Constants.lean)"""
    try:
        txt = open(OUT, encoding='utf-8').read()
    except Exception:
        return None
    m = re.search(r'^def %s : .*? := (.*)$' % re.escape(name), txt, re.M)
    return m.group(1) if m else None


class Consts(list):
    def add(self, name, ty, thunk):
        try:
            self.append((name, ty, thunk()))
        except Lost as e:
            old = previous(name)
            if old is None:
                raise
            FALLBACKS.append('%s: kept %s (%s)' % (name, old[:60], str(e)[:160]))
            self.append((name, ty, old))


def lean_str(s):
    return '"' + s.replace('\\', '\\\\').replace('"', '\\"') + '"'


def lean_bool(s):
    if s not in ('true', 'false'):
        raise Lost('not a boolean: %r' % s)
    return s


def main():
    c = Consts()
    vu = 'src/visitor/visitor_util.rs'
    c.add('datadogVarPrefix', 'String', lambda: lean_str(one(vu, r'const DATADOG_VAR_PREFIX: &str = "([^"]*)";')))
    c.add('ddGlobalNamespace', 'String', lambda: lean_str(one(vu, r'const DD_GLOBAL_NAMESPACE: &str = "([^"]*)";')))
    c.add('ddPlusOperator', 'String', lambda: lean_str(one(vu, r'pub const DD_PLUS_OPERATOR: &str = "([^"]*)";')))
    c.add('ddTemplateLiteralOperator', 'String', lambda: lean_str(one(vu, r'pub const DD_TEMPLATE_LITERAL_OPERATOR: &str = "([^"]*)";')))
    # the shape of the temporary names
    one(vu, r'format!\("\{DATADOG_VAR_PREFIX\}_\{prefix\}_"\)', what='get_dd_local_variable_prefix')
    one(vu, r'format!\("\{\}\{\}", get_dd_local_variable_prefix\(prefix\), n\)', what='get_dd_local_variable_name')

    ov = 'src/visitor/operation_transform_visitor.rs'
    c.add('addTag', 'String', lambda: lean_str(one(ov, r'pub const ADD_TAG: &str = "([^"]*)";')))
    c.add('addAssignTag', 'String', lambda: lean_str(one(ov, r'pub const ADD_ASSING_TAG: &str = "([^"]*)";')))
    c.add('tplTag', 'String', lambda: lean_str(one(ov, r'pub const TPL_TAG: &str = "([^"]*)";')))

    cm = 'src/visitor/csi_methods.rs'
    def literal_callers():
        body = one(cm, r'method_with_literal_callers: vec!\[\s*((?:"[^"]*",?\s*)+)\],', what='method_with_literal_callers')
        names = re.findall(r'"([^"]*)"', body)
        return '[' + ', '.join(lean_str(n) for n in names) + ']'
    c.add('methodWithLiteralCallers', 'List String', literal_callers)

    lv = 'src/visitor/literal_visitor.rs'
    c.add('minLiteralLength', 'Nat', lambda: one(lv, r'min_literal_length: (\d+),'))
    c.add('maxLiteralLength', 'Nat', lambda: one(lv, r'max_literal_length: (\d+),'))
    one(lv, r'value\.len\(\) > self\.min_literal_length && value\.len\(\) <= self\.max_literal_length',
        what='length window (bytes, exclusive lower / inclusive upper bound)')

    rw = 'src/rewriter.rs'
    c.add('sourceMapUrl', 'String', lambda: lean_str(one(rw, r'const SOURCE_MAP_URL: &str = "([^"]*)";')))
    c.add('prologueTemplate', 'String', lambda: lean_str(one(rw, r'let template = "((?:[^"\\]|\\.)*)";')))
    one(rw, r'\.map\(\|csi_method\| format!\("\{\}: noop", csi_method\.dst\)\)', what='prologue entries')
    one(rw, r'format!\(\s*"\{\}\\n//\{\}data:application/json;base64,\{\}",', what='trailer format')

    fp = 'src/transform/function_prototype_transform.rs'
    c.add('prototypeName', 'String', lambda: lean_str(one(fp, r'pub const PROTOTYPE: &str = "([^"]*)";')))
    c.add('callMethodName', 'String', lambda: lean_str(one(fp, r'pub const CALL_METHOD_NAME: &str = "([^"]*)";')))
    c.add('applyMethodName', 'String', lambda: lean_str(one(fp, r'pub const APPLY_METHOD_NAME: &str = "([^"]*)";')))

    ut = 'src/util.rs'
    c.add('rndAlphabet', 'String', lambda: lean_str(one(ut, r'let chars: Vec<char> = "([^"]*)"\.chars\(\)\.collect\(\);')))
    lw = 'src/lib_wasm.rs'
    c.add('rndPrefixLength', 'Nat', lambda: one(lw, r'\.unwrap_or_else\(\|\| rnd_string\((\d+)\)\)'))
    c.add('defaultChainSourceMap', 'Bool', lambda: lean_bool(one(lw, r'chain_source_map: self\.chain_source_map\.unwrap_or\((\w+)\)')))
    c.add('defaultComments', 'Bool', lambda: lean_bool(one(lw, r'print_comments: self\.comments\.unwrap_or\((\w+)\)')))
    c.add('defaultLiterals', 'Bool', lambda: lean_bool(one(lw, r'literals: self\.literals\.unwrap_or\((\w+)\)')))
    c.add('defaultOperator', 'Bool', lambda: lean_bool(one(lw, r'm\.operator\.unwrap_or\((\w+)\)')))
    c.add('defaultAllowedWithoutCallee', 'Bool', lambda: lean_bool(one(lw, r'm\.allowed_without_callee\.unwrap_or\((\w+)\)')))
    one(cm, r'let dst = dst\.unwrap_or_else\(\|\| src\.clone\(\)\);', what='dst defaults to src')
    # RewriterConfig::default()
    try:
        dflt = one(lw, r'fn default\(\) -> Self \{\s*RewriterConfig \{(.*?)\}\s*\}', re.S, what='RewriterConfig::default')
        exp = {'chain_source_map': 'Some(false)', 'comments': 'Some(false)', 'local_var_prefix': 'None',
               'csi_methods': 'None', 'telemetry_verbosity': 'Some("INFORMATION".to_string())', 'literals': 'Some(true)'}
        got = dict((k, v.strip()) for k, v in re.findall(r'(\w+): ([^\n]*?),\n', dflt + '\n'))
        if got != exp:
            raise Lost('src/lib_wasm.rs: RewriterConfig::default() changed: %r' % got)
    except Lost as e:
        FALLBACKS.append('shape: ' + str(e)[:200])

    tl = 'src/telemetry.rs'
    def verbosity_table():
        table = re.findall(r'"([A-Z]+)" => TelemetryVerbosity::(\w+),', read(tl))
        if len(table) != 4:
            raise Lost('src/telemetry.rs: verbosity table: expected 4 spellings, found %r' % table)
        return '[' + ', '.join('(%s, %s)' % (lean_str(a), lean_str(b)) for a, b in table) + ']'
    one(tl, r'match value\.to_uppercase\(\)\.as_str\(\) \{', what='case-insensitive verbosity')
    c.add('verbosityTable', 'List (String × String)', verbosity_table)
    c.add('verbosityFallback', 'String', lambda: lean_str(one(tl, r'_ => TelemetryVerbosity::(\w+),\s*\};')))
    c.add('verbosityAbsent', 'String', lambda: lean_str(one(tl, r'\}\s*TelemetryVerbosity::(\w+)\s*\}\s*\}\s*\n\s*pub trait Telemetry')))
    # telemetry implementation selection
    one(tl, r'TelemetryVerbosity::Off => IastTelemetry::NoOp\(NoOpTelemetry \{\}\),', what='Off -> NoOp')
    one(tl, r'TelemetryVerbosity::Debug => IastTelemetry::Debug\(DebugTelemetry::new\(\)\),', what='Debug -> Debug')
    one(tl, r'_ => IastTelemetry::Default\(DefaultTelemetry::new\(\)\),', what='else -> Default')

    js = 'js/source-map/index.js'
    c.add('jsLruMax', 'Nat', lambda: one(js, r'new LRU\(\{ max: (\d+) \}\)'))
    c.add('jsSourceMapLineStart', 'String', lambda: lean_str(one(js, r"const SOURCE_MAP_LINE_START = '([^']*)'")))
    c.add('jsSourceMapInlineLineStart', 'String', lambda: lean_str(one(js, r"const SOURCE_MAP_INLINE_LINE_START = '([^']*)'")))
    nm = 'js/source-map/node_source_map.js'
    c.add('jsVlqBaseShift', 'Nat', lambda: one(nm, r'const VLQ_BASE_SHIFT = (\d+)'))
    c.add('jsBase64Digits', 'String', lambda: lean_str(one(nm, r"const base64Digits = '([^']*)'")))

    lines = ['/- GENERATED by /verif/tools/gen_constants.py from /repo\'s working tree — do not edit. -/',
             'namespace IastModel.Generated', '']
    for name, ty, val in c:
        lines.append('def %s : %s := %s' % (name, ty, val))
    lines += ['', 'end IastModel.Generated', '']
    new = '\n'.join(lines)
    old = open(OUT).read() if os.path.exists(OUT) else None
    if old != new:
        os.makedirs(os.path.dirname(OUT), exist_ok=True)
        open(OUT, 'w').write(new)
    print(json.dumps({"constants": len(c), "changed": old != new, "fallbacks": FALLBACKS}))


if __name__ == '__main__':
    try:
        main()
    except Lost as e:
        print('TIE-LOST ' + str(e))
        sys.exit(2)

#!/usr/bin/env python3
"""Shared plumbing for the checks: builds (serialised by a lock), the harness -> Lean driver pipeline,
seeded PRNG, evidence and replay writers."""
import fcntl, hashlib, json, os, subprocess, sys, time

VERIF = os.path.dirname(os.path.dirname(os.path.abspath(__file__)))
REPO = os.environ.get('VERIF_REPO', '/repo')
HARNESS_DIR = os.path.join(VERIF, 'harness')
LEAN_DIR = os.path.join(VERIF, 'lean')
HARNESS_BIN = os.path.join(HARNESS_DIR, 'target', 'debug', 'harness')
DRIVER_BIN = os.path.join(LEAN_DIR, '.lake', 'build', 'bin', 'driver')
LOCK = os.path.join(VERIF, '.build.lock')
ENV = dict(os.environ, CARGO_NET_OFFLINE='true')

DEFAULT_METHODS = [
    {"src": "plusOperator", "operator": True}, {"src": "tplOperator", "operator": True},
    {"src": "substring", "dst": "stringSubstring"}, {"src": "trim", "dst": "stringTrim"},
    {"src": "trimStart", "dst": "stringTrim"}, {"src": "trimEnd", "dst": "stringTrim"},
    {"src": "concat", "dst": "stringConcat"}, {"src": "slice"}, {"src": "replace"},
]
DEFAULT_CFG = {"localVarPrefix": "test", "csiMethods": DEFAULT_METHODS, "telemetryVerbosity": "DEBUG",
               "literals": True}


class SplitMix64:
    def __init__(self, seed):
        self.s = seed & 0xFFFFFFFFFFFFFFFF

    def next(self):
        self.s = (self.s + 0x9E3779B97F4A7C15) & 0xFFFFFFFFFFFFFFFF
        z = self.s
        z = ((z ^ (z >> 30)) * 0xBF58476D1CE4E5B9) & 0xFFFFFFFFFFFFFFFF
        z = ((z ^ (z >> 27)) * 0x94D049BB133111EB) & 0xFFFFFFFFFFFFFFFF
        return z ^ (z >> 31)

    def below(self, n):
        return self.next() % n if n > 0 else 0

    def choice(self, xs):
        return xs[self.below(len(xs))]

    def chance(self, num, den):
        return self.below(den) < num

    def fork(self):
        return SplitMix64(self.next())


class BuildError(Exception):
    pass


def _run(cmd, cwd, timeout=3600):
    p = subprocess.run(cmd, cwd=cwd, env=ENV, stdout=subprocess.PIPE, stderr=subprocess.STDOUT, text=True,
                       timeout=timeout)
    return p.returncode, p.stdout


def with_lock(fn):
    with open(LOCK, 'w') as lf:
        fcntl.flock(lf, fcntl.LOCK_EX)
        try:
            return fn()
        finally:
            fcntl.flock(lf, fcntl.LOCK_UN)


def build_harness():
    """compile /repo's current working tree (included by path) into the harness binary"""
    def go():
        # Cargo.lock of the repo pins the dependency versions the harness resolves to
        rc, out = _run(['cargo', 'build', '--offline'], HARNESS_DIR)
        if rc != 0:
            raise BuildError('harness build failed (does /repo still compile?):\n' + out[-4000:])
        return out
    return with_lock(go)


def gen_constants():
    rc, out = _run([sys.executable, os.path.join(VERIF, 'tools', 'gen_constants.py')], VERIF)
    if rc != 0:
        raise BuildError('constant extraction lost its tie to the source:\n' + out[-3000:])
    return out


def lake_build(targets):
    def go():
        rc, out = _run(['lake', 'build'] + targets, LEAN_DIR)
        return rc, out
    return with_lock(go)


def build_driver():
    rc, out = lake_build(['driver'])
    if rc != 0:
        raise BuildError('lean driver build failed:\n' + out[-4000:])
    return out


def run_harness(requests, timeout=1800):
    """requests: list of dicts -> list of record dicts (same order); survives harness death (hang/abort)"""
    records = []
    pending = list(requests)
    while pending:
        inp = '\n'.join(json.dumps(r) for r in pending) + '\n'
        p = subprocess.run([HARNESS_BIN, 'run'], input=inp, stdout=subprocess.PIPE, stderr=subprocess.PIPE,
                           text=True, timeout=timeout, env=ENV)
        lines = [l for l in p.stdout.split('\n') if l.strip()]
        got = []
        for l in lines:
            try:
                got.append(json.loads(l))
            except Exception:
                got.append({"outcome": "garbled", "raw": l[:200]})
        records.extend(got)
        if len(got) >= len(pending):
            break
        # the process died on request number len(got): record it and continue after it
        dead = pending[len(got)]
        if not (got and got[-1].get('outcome') == 'hang'):
            records.append({"id": dead.get('id'), "outcome": "abort", "rc": p.returncode,
                            "stderr": p.stderr[-500:], "src": dead.get('src'), "cfg": dead.get('cfg'),
                            "file": dead.get('file')})
            pending = pending[len(got) + 1:]
        else:
            got[-1].update({"src": dead.get('src'), "cfg": dead.get('cfg'), "file": dead.get('file')})
            pending = pending[len(got):]
    return records


def run_driver(records, mode='rewrite', timeout=3600):
    """records -> verdict dicts (same order)"""
    if not records:
        return []
    inp = '\n'.join(json.dumps(dict(r, mode=r.get('mode', mode))) for r in records) + '\n'
    p = subprocess.run([DRIVER_BIN], input=inp, stdout=subprocess.PIPE, stderr=subprocess.PIPE, text=True,
                       timeout=timeout)
    out = []
    for l in p.stdout.split('\n'):
        if l.strip():
            try:
                out.append(json.loads(l))
            except Exception:
                out.append({"error": "garbled driver line", "raw": l[:300]})
    if len(out) != len(records):
        raise BuildError('driver produced %d verdicts for %d records (rc=%s): %s' % (
            len(out), len(records), p.returncode, p.stderr[-2000:]))
    return out


def pipeline(requests, mode='rewrite', chunk=400, jobs=None):
    """run requests through the real implementation and the model, in parallel chunks"""
    from concurrent.futures import ThreadPoolExecutor
    jobs = jobs or min(16, os.cpu_count() or 4)
    chunks = [requests[i:i + chunk] for i in range(0, len(requests), chunk)]

    def work(ch):
        recs = run_harness(ch)
        verds = run_driver(recs, mode)
        return list(zip(ch, recs, verds))
    res = []
    with ThreadPoolExecutor(max_workers=jobs) as ex:
        for part in ex.map(work, chunks):
            res.extend(part)
    return res


def sha(s):
    return hashlib.sha256(s.encode('utf-8', 'replace')).hexdigest()[:12]


def write_json(path, obj):
    os.makedirs(os.path.dirname(path), exist_ok=True)
    tmp = path + '.tmp'
    with open(tmp, 'w') as f:
        json.dump(obj, f, indent=1, sort_keys=False)
    os.replace(tmp, path)

#!/usr/bin/env python3
"""run ad-hoc sources through the real rewriter and the model: probe.py 'src1' 'src2' ...  (DEFAULT_CFG, prefix t)
prints the implementation's output text, status, metrics and the driver's verdict"""
import sys, json, os
sys.path.insert(0, os.path.dirname(__file__))
from vlib import *
def main():
    build_harness(); build_driver()
    cfg = dict(DEFAULT_CFG); cfg["localVarPrefix"] = "t"; cfg["telemetryVerbosity"] = "DEBUG"
    reqs = [{"id": i, "cfg": cfg, "src": s, "file": "probe.js", "tags": [], "ast": True, "text_ast": True} for i, s in enumerate(sys.argv[1:])]
    for (q, rec, v) in pipeline(reqs):
        print('---', q['src'])
        print('outcome:', rec.get('outcome'), 'status:', rec.get('status'), 'metrics:', json.dumps(rec.get('metrics'))[:300])
        print(rec.get('content') or rec.get('error'))
        print('corr:', v.get('corr'), 'checks:', json.dumps(v.get('checks'))[:600])
main()

#!/usr/bin/env python3
"""apply each seeded change to /repo, run the checks, undo it; prints which checks raise an alarm.
usage: seedtest.py [name ...] [--checks C01,C02]   (never leaves /repo modified)"""
import json, os, subprocess, sys, time
SEEDED = '/verif/seeded'
ALL = ['C%02d' % i for i in range(1, 17)]

def sh(cmd, cwd=None, timeout=3600):
    return subprocess.run(cmd, cwd=cwd, stdout=subprocess.PIPE, stderr=subprocess.STDOUT, text=True, timeout=timeout)

def main():
    args = sys.argv[1:]
    checks = None
    if '--checks' in args:
        i = args.index('--checks'); checks = args[i + 1].split(','); del args[i:i + 2]
    own_only = '--own' in args
    if own_only: args.remove('--own')
    names = args or sorted(n for n in os.listdir(SEEDED) if os.path.exists(os.path.join(SEEDED, n, 'patch.diff')))
    assert sh(['git', 'status', '--porcelain'], cwd='/repo').stdout.strip() == '', '/repo not clean'
    results = {}
    for n in names:
        d = os.path.join(SEEDED, n)
        patch = os.path.join(d, 'patch_head.diff') if os.path.exists(os.path.join(d, 'patch_head.diff')) else os.path.join(d, 'patch.diff')
        ap = sh(['git', 'apply', patch], cwd='/repo')
        if ap.returncode != 0:
            results[n] = {'applies': False, 'why': ap.stdout[:200]}
            print(n, 'DOES-NOT-APPLY'); continue
        try:
            prop = n.split('-')[0]
            todo = checks or ([prop] if own_only else [prop] + [c for c in ALL if c != prop])
            alarms, own = [], None
            t0 = time.time()
            for c in todo:
                r = sh(['/verif/bin/check', c, '--tier', 'quick'], cwd='/verif')
                viol = [l for l in r.stdout.split('\n') if l.startswith('VIOLATION')]
                if r.returncode != 0 or viol:
                    alarms.append((c, (viol or ['rc=%d' % r.returncode])[0]))
                if c == prop:
                    own = bool(viol) or r.returncode != 0
            results[n] = {'applies': True, 'own_property_alarm': own, 'alarms': alarms, 'secs': round(time.time() - t0)}
            print(n, 'own=%s' % own, 'alarms=%s' % [a[0] + (' (no-input)' if 'no-failing-input-found' in a[1] else '') for a in alarms], '%ds' % (time.time() - t0), flush=True)
        finally:
            sh(['git', 'checkout', '--', '.'], cwd='/repo')
            sh(['git', 'clean', '-fdq', 'src', 'js'], cwd='/repo')
    old = {}
    try: old = json.load(open('/verif/seeded/RESULTS.json'))
    except Exception: pass
    for k, v in results.items():
        if own_only and k in old and len(old[k].get('alarms', [])) > len(v.get('alarms', [])) and v.get('own_property_alarm'): continue
        old[k] = v
    json.dump(old, open('/verif/seeded/RESULTS.json', 'w'), indent=1)
    # leave the framework built for the unchanged tree again
    sh(['/verif/bin/check', 'C15', '--tier', 'quick'], cwd='/verif')

if __name__ == '__main__':
    main()

// Verification harness: compiles /repo's *current working tree* sources by path and drives the real
// rewrite_js / print_js in-process.  One JSON request per stdin line, one JSON record per stdout line.
#![allow(dead_code, unused_imports, clippy::all)]

#[path = "/repo/src/rewriter.rs"]
mod rewriter;
#[path = "/repo/src/telemetry.rs"]
mod telemetry;
#[path = "/repo/src/tracer_logger.rs"]
mod tracer_logger;
#[path = "/repo/src/transform/mod.rs"]
mod transform;
#[path = "/repo/src/util.rs"]
mod util;
#[path = "/repo/src/visitor/mod.rs"]
mod visitor;
#[path = "/repo/src/lib_wasm.rs"]
mod lib_wasm;

use serde_json::{json, Value};
use std::collections::HashMap;
use std::io::{BufRead, Cursor, Read, Write};
use std::panic::{catch_unwind, AssertUnwindSafe};
use std::path::{Path, PathBuf};
use std::sync::atomic::{AtomicU64, Ordering};
use std::sync::{Arc, Mutex};
use std::time::{SystemTime, UNIX_EPOCH};

use crate::lib_wasm::{verif_hooks, RewriterConfig};
use crate::rewriter::{print_js, rewrite_js, verif_tap, Config};
use crate::util::FileReader;

/// in-memory file system with injectable faults
struct MemReader {
    files: HashMap<String, Value>,
    parent_none: bool,
}

impl FileReader<Cursor<Vec<u8>>> for MemReader {
    fn read(&self, path: &Path) -> std::io::Result<Cursor<Vec<u8>>> {
        let key = path.to_string_lossy().to_string();
        match self.files.get(&key) {
            Some(Value::String(s)) => Ok(Cursor::new(s.as_bytes().to_vec())),
            Some(Value::Object(o)) => {
                if let Some(Value::String(b64)) = o.get("b64") {
                    use base64::{engine::general_purpose::STANDARD, Engine as _};
                    return Ok(Cursor::new(STANDARD.decode(b64).unwrap_or_default()));
                }
                let kind = o.get("error").and_then(|v| v.as_str()).unwrap_or("other");
                let k = match kind {
                    "notfound" => std::io::ErrorKind::NotFound,
                    "denied" => std::io::ErrorKind::PermissionDenied,
                    "isdir" => std::io::ErrorKind::Other,
                    _ => std::io::ErrorKind::Other,
                };
                Err(std::io::Error::new(k, kind.to_string()))
            }
            _ => Err(std::io::Error::new(std::io::ErrorKind::NotFound, "not found")),
        }
    }

    fn parent(&self, path: &Path) -> Option<PathBuf> {
        if self.parent_none {
            return None;
        }
        path.parent().map(PathBuf::from)
    }
}

fn panic_msg(e: Box<dyn std::any::Any + Send>) -> String {
    if let Some(s) = e.downcast_ref::<&str>() {
        s.to_string()
    } else if let Some(s) = e.downcast_ref::<String>() {
        s.clone()
    } else {
        "panic".to_string()
    }
}

fn tokens_of(map: &str) -> Value {
    match swc::sourcemap::SourceMap::from_reader(map.as_bytes()) {
        Ok(sm) => {
            let toks: Vec<Value> = sm
                .tokens()
                .map(|t| {
                    json!([
                        t.get_dst_line(),
                        t.get_dst_col(),
                        t.get_src_line(),
                        t.get_src_col(),
                        t.get_source(),
                        t.get_name()
                    ])
                })
                .collect();
            let sources: Vec<Value> = sm.sources().map(|s| json!(s)).collect();
            json!({"tokens": toks, "sources": sources})
        }
        Err(e) => json!({"error": format!("{e}")}),
    }
}

fn orig_tokens(sm: &swc::sourcemap::SourceMap) -> Value {
    let toks: Vec<Value> = sm
        .tokens()
        .map(|t| {
            json!([
                t.get_dst_line(),
                t.get_dst_col(),
                t.get_src_line(),
                t.get_src_col(),
                t.get_source(),
                t.get_name()
            ])
        })
        .collect();
    json!({ "tokens": toks })
}

struct CfgCache {
    map: HashMap<String, Arc<Config>>,
}

fn build_config(cfg: &Value) -> Result<Config, String> {
    if cfg.is_null() {
        return Ok(verif_hooks::default_config());
    }
    match serde_json::from_value::<RewriterConfig>(cfg.clone()) {
        Ok(rc) => Ok(verif_hooks::to_config(&rc)),
        // the wasm constructor falls back to RewriterConfig::default() when deserialisation fails
        Err(_) => Ok(verif_hooks::default_config()),
    }
}

fn config_json(c: &Config) -> Value {
    let methods: Vec<Value> = c
        .csi_methods
        .methods
        .iter()
        .map(|m| json!({"src": m.src, "dst": m.dst, "operator": m.operator, "allowedWithoutCallee": m.allowed_without_callee}))
        .collect();
    let prefix: Vec<Value> = c
        .file_prefix_code
        .iter()
        .map(|s| serde_json::to_value(s).unwrap_or(Value::Null))
        .collect();
    json!({
        "chainSourceMap": c.chain_source_map,
        "comments": c.print_comments,
        "localVarPrefix": c.local_var_prefix,
        "verbosity": format!("{:?}", c.verbosity),
        "literals": c.literals,
        "methods": methods,
        "plusOperator": c.csi_methods.plus_operator.as_ref().map(|m| m.dst.clone()),
        "tplOperator": c.csi_methods.tpl_operator.as_ref().map(|m| m.dst.clone()),
        "literalCallers": c.csi_methods.method_with_literal_callers,
        "prefixStmts": prefix,
    })
}

fn take_tap(which: u8) -> Value {
    let p = if which == 0 {
        verif_tap::PARSED.with(|p| p.borrow_mut().take())
    } else {
        verif_tap::TRANSFORMED.with(|p| p.borrow_mut().take())
    };
    match p {
        Some(prog) => serde_json::to_value(&prog).unwrap_or(Value::Null),
        None => Value::Null,
    }
}

fn clear_taps() {
    verif_tap::PARSED.with(|p| *p.borrow_mut() = None);
    verif_tap::TRANSFORMED.with(|p| *p.borrow_mut() = None);
}

fn empty_config() -> Config {
    let rc: RewriterConfig =
        serde_json::from_value(json!({"localVarPrefix": "zzverif", "literals": false, "csiMethods": []})).unwrap();
    verif_hooks::to_config(&rc)
}

/// parse `text` with the rewriter's own parser (through the real pipeline under an empty method list)
fn reparse(text: &str, file: &str, empty: &Config) -> Value {
    clear_taps();
    let reader = MemReader {
        files: HashMap::new(),
        parent_none: false,
    };
    let r = catch_unwind(AssertUnwindSafe(|| {
        rewrite_js(text.to_string(), file, empty, &reader)
    }));
    let out = match r {
        Ok(Ok(_)) => json!({"ast": take_tap(0)}),
        Ok(Err(e)) => json!({"err": format!("{e}")}),
        Err(e) => json!({"panic": panic_msg(e)}),
    };
    clear_taps();
    out
}

fn one_rewrite(req: &Value, config: &Config, empty: &Config) -> Value {
    let src = req.get("src").and_then(|v| v.as_str()).unwrap_or("").to_string();
    let file = req.get("file").and_then(|v| v.as_str()).unwrap_or("test.js").to_string();
    let want_ast = req.get("ast").and_then(|v| v.as_bool()).unwrap_or(true);
    let want_text_ast = req.get("text_ast").and_then(|v| v.as_bool()).unwrap_or(false);
    let want_maps = req.get("maps").and_then(|v| v.as_bool()).unwrap_or(false);
    let files: HashMap<String, Value> = req
        .get("files")
        .and_then(|v| v.as_object())
        .map(|o| o.iter().map(|(k, v)| (k.clone(), v.clone())).collect())
        .unwrap_or_default();
    let reader = MemReader {
        files,
        parent_none: req.get("parent_none").and_then(|v| v.as_bool()).unwrap_or(false),
    };

    clear_taps();
    let res = catch_unwind(AssertUnwindSafe(|| {
        rewrite_js(src.clone(), &file, config, &reader).map(|result| {
            let content = print_js(
                &result.code,
                &result.source_map,
                &result.original_source_map,
                config,
            )
            .into_owned();
            let status = result
                .transform_status
                .as_ref()
                .map(|s| format!("{:?}", s.status))
                .unwrap_or_default();
            let orig = result.original_source_map.source.as_ref().map(orig_tokens);
            let comment = result.original_source_map.source_map_comment.clone();
            let metrics = verif_hooks::get_metrics(result.transform_status, &file);
            let metrics_json = serde_json::to_value(&metrics).unwrap_or(Value::Null);
            let literals = serde_json::to_value(&result.literals_result).unwrap_or(Value::Null);
            (
                content,
                result.code,
                result.source_map,
                status,
                orig,
                comment,
                metrics_json,
                literals,
            )
        })
    }));

    let mut rec = serde_json::Map::new();
    rec.insert("id".into(), req.get("id").cloned().unwrap_or(Value::Null));
    for k in ["cfg", "src", "file", "tags", "files"] {
        if let Some(v) = req.get(k) {
            rec.insert(k.into(), v.clone());
        }
    }
    if want_ast {
        rec.insert("in_ast".into(), take_tap(0));
        rec.insert("out_mem".into(), take_tap(1));
    }
    clear_taps();
    match res {
        Ok(Ok((content, code, map, status, orig, comment, metrics, literals))) => {
            rec.insert("outcome".into(), json!("ok"));
            rec.insert("status".into(), json!(status));
            rec.insert("metrics".into(), metrics);
            rec.insert("literals".into(), literals);
            rec.insert("orig_comment".into(), json!(comment));
            if want_maps {
                rec.insert("map".into(), json!(map));
                rec.insert("map_tokens".into(), tokens_of(&map));
                rec.insert("orig_map".into(), orig.unwrap_or(Value::Null));
                rec.insert("code".into(), json!(code.clone()));
                // the map the request supplied (inline or through the injected reader), decoded here: what
                // the implementation says it loaded must be this one, not one kept from an earlier call
                if let Some(m) = req.get("supplied_map").and_then(|v| v.as_str()) {
                    if let Ok(swc::sourcemap::DecodedMap::Regular(sm)) = swc::sourcemap::decode_slice(m.as_bytes()) {
                        rec.insert("supplied_tokens".into(), orig_tokens(&sm));
                    }
                }
            } else {
                rec.insert("has_orig_map".into(), json!(orig.is_some()));
            }
            if want_text_ast && !content.is_empty() {
                rec.insert("out_text".into(), reparse(&content, &file, empty));
            }
            if req.get("code_ast").and_then(|v| v.as_bool()).unwrap_or(false) && !code.is_empty() {
                rec.insert("code_text".into(), reparse(&code, &file, empty));
            }
            rec.insert("content".into(), json!(content));
        }
        Ok(Err(e)) => {
            rec.insert("outcome".into(), json!("err"));
            rec.insert("err".into(), json!(format!("{e}")));
        }
        Err(e) => {
            rec.insert("outcome".into(), json!("panic"));
            rec.insert("panic".into(), json!(panic_msg(e)));
        }
    }
    Value::Object(rec)
}

static CURRENT_START: AtomicU64 = AtomicU64::new(0);

fn now_ms() -> u64 {
    SystemTime::now().duration_since(UNIX_EPOCH).unwrap().as_millis() as u64
}

fn main() {
    let args: Vec<String> = std::env::args().collect();
    let mode = args.get(1).map(|s| s.as_str()).unwrap_or("run");
    // silence the default panic message; panics are reported in the record
    std::panic::set_hook(Box::new(|_| {}));

    let current_id: Arc<Mutex<String>> = Arc::new(Mutex::new(String::new()));
    {
        let current_id = current_id.clone();
        let limit_ms: u64 = std::env::var("VERIF_WATCHDOG_MS")
            .ok()
            .and_then(|s| s.parse().ok())
            .unwrap_or(20000);
        std::thread::spawn(move || loop {
            std::thread::sleep(std::time::Duration::from_millis(200));
            let st = CURRENT_START.load(Ordering::Relaxed);
            if st != 0 && now_ms() > st + limit_ms {
                let id = current_id.lock().map(|g| g.clone()).unwrap_or_default();
                let out = std::io::stdout();
                let mut o = out.lock();
                let _ = writeln!(o, "{}", json!({"id": id, "outcome": "hang"}));
                let _ = o.flush();
                std::process::exit(3);
            }
        });
    }

    let empty = empty_config();
    let mut cache: HashMap<String, Arc<Config>> = HashMap::new();
    let stdin = std::io::stdin();
    let stdout = std::io::stdout();
    let mut out = std::io::BufWriter::new(stdout.lock());

    for line in stdin.lock().lines() {
        let line = match line {
            Ok(l) => l,
            Err(_) => break,
        };
        if line.trim().is_empty() {
            continue;
        }
        let req: Value = match serde_json::from_str(&line) {
            Ok(v) => v,
            Err(e) => {
                let _ = writeln!(out, "{}", json!({"outcome": "badreq", "err": format!("{e}")}));
                continue;
            }
        };
        let id = req.get("id").map(|v| v.to_string()).unwrap_or_default();
        if let Ok(mut g) = current_id.lock() {
            *g = id;
        }
        CURRENT_START.store(now_ms(), Ordering::Relaxed);
        let op = req.get("op").and_then(|v| v.as_str()).unwrap_or(mode).to_string();
        let rec = match op.as_str() {
            "config" => {
                // option defaulting through the real to_config
                let cfg = req.get("cfg").cloned().unwrap_or(Value::Null);
                let r = catch_unwind(AssertUnwindSafe(|| build_config(&cfg).map(|c| config_json(&c))));
                match r {
                    Ok(Ok(c)) => json!({"id": req.get("id"), "outcome": "ok", "config": c, "cfg": cfg, "mode": "config"}),
                    Ok(Err(e)) => json!({"id": req.get("id"), "outcome": "err", "err": e}),
                    Err(e) => json!({"id": req.get("id"), "outcome": "panic", "panic": panic_msg(e)}),
                }
            }
            "parse" => {
                let src = req.get("src").and_then(|v| v.as_str()).unwrap_or("");
                let file = req.get("file").and_then(|v| v.as_str()).unwrap_or("test.js");
                let mut r = reparse(src, file, &empty);
                r.as_object_mut().unwrap().insert("id".into(), req.get("id").cloned().unwrap_or(Value::Null));
                r
            }
            "maptokens" => {
                let m = req.get("map").and_then(|v| v.as_str()).unwrap_or("");
                json!({"id": req.get("id"), "tokens": tokens_of(m)})
            }
            _ => {
                let cfg = req.get("cfg").cloned().unwrap_or(Value::Null);
                let key = cfg.to_string();
                // a Rewriter instance = one Config; "fresh": true forces a new instance
                let fresh = req.get("fresh").and_then(|v| v.as_bool()).unwrap_or(false);
                if fresh {
                    cache.remove(&key);
                }
                let config = match cache.get(&key) {
                    Some(c) => Ok(c.clone()),
                    None => {
                        let r = catch_unwind(AssertUnwindSafe(|| build_config(&cfg)));
                        match r {
                            Ok(Ok(c)) => {
                                let c = Arc::new(c);
                                cache.insert(key.clone(), c.clone());
                                Ok(c)
                            }
                            Ok(Err(e)) => Err(json!({"id": req.get("id"), "outcome": "cfgerr", "err": e})),
                            Err(e) => Err(json!({"id": req.get("id"), "outcome": "panic", "panic": panic_msg(e), "where": "config"})),
                        }
                    }
                };
                match config {
                    Ok(c) => {
                        let mut rec = one_rewrite(&req, &c, &empty);
                        if req.get("want_cfg").and_then(|v| v.as_bool()).unwrap_or(false) {
                            rec.as_object_mut().unwrap().insert("config".into(), config_json(&c));
                        } else {
                            rec.as_object_mut()
                                .unwrap()
                                .insert("prefix".into(), json!(c.local_var_prefix.clone()));
                        }
                        rec
                    }
                    Err(r) => r,
                }
            }
        };
        CURRENT_START.store(0, Ordering::Relaxed);
        let _ = writeln!(out, "{}", rec);
        let _ = out.flush();
    }
}

fn main() {
    println!("cargo:rustc-cfg=datadog_dd_native_iast_rewriter_js_verif");
    println!("cargo:rustc-check-cfg=cfg(datadog_dd_native_iast_rewriter_js_verif)");
    println!("cargo:rerun-if-changed=build.rs");
}

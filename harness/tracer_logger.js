'use strict'

let defaultLogger = console || {}
function setLogger (logger) {
  if (logger) {
    defaultLogger = logger
  }
}

function log (level, msg) {
  const logFn = defaultLogger[level.toLowerCase()]
  if (logFn) {
    logFn(msg)
  }
}

module.exports = {
  setLogger,
  log
}

import IastModel.Json
import IastModel.Syntax
import IastModel.Config
import IastModel.Rewriter.State
import IastModel.Rewriter.Transforms
import IastModel.Rewriter.Visitor
import IastModel.Rewriter.Rewrite
import IastModel.Show

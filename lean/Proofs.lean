-- every property theorem module (built by bin/setup; each check rebuilds its own)
import IastModel.Props.C01
import IastModel.Props.C02
import IastModel.Props.C03
import IastModel.Props.C04
import IastModel.Props.C05
import IastModel.Props.C06
import IastModel.Props.C07
import IastModel.Props.C08
import IastModel.Props.C09
import IastModel.Props.C10
import IastModel.Props.C11
import IastModel.Props.C12
import IastModel.Props.C13
import IastModel.Props.C14
import IastModel.Props.C15
import IastModel.Props.C16

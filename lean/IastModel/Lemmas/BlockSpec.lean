import IastModel.Lemmas.VisitSpec
namespace IastModel
open Node

theorem ns_arr (xs : List Node) : ns (.arr xs) = nsL xs := by rw [ns_eq]; simp [mentionsNs, kids]
theorem bad_arr (xs : List Node) : bad (.arr xs) = badL xs := by rw [bad_eq]; simp [assignTargetOk, kids]

theorem good_generic_false (ok) (n : Node) (h : hookName? n = none) :
    goodW ok false n = (!mentionsNs n && goodL ok false n.kids) := by
  rw [goodW_eq, h]; simp

theorem good_withKids_false (ok) (n : Node) (ks : List Node) (h0 : mentionsNs n = false)
    (hk : goodL ok false ks = true) (hl : ks.length = n.kids.length) : goodW ok false (n.withKids ks) = true := by
  have hn : hookName? (n.withKids ks) = none := by
    cases n <;> try rfl
    case call c as sp =>
      cases ks with
      | nil => simp [kids] at hl
      | cons k ks' =>
        simp only [goodL_cons, Bool.and_eq_true] at hk
        simp only [withKids, List.getD_cons_zero, List.drop_succ_cons, List.drop_zero]
        exact hookName?_call_none _ _ hk.1
  rw [good_generic_false _ _ hn, mentionsNs_withKids, h0, Node.kids_withKids n ks hl]
  simpa using hk

/-- a tree whose blocks are all untouched is in particular good -/
theorem good_true_false (ok) : ∀ n : Node, goodW ok true n = true → goodW ok false n = true := by
  apply Node.ind
  intro n ih h
  rw [goodW_eq] at h
  by_cases hb : isBlockNode n = true
  · simp only [hb, Bool.and_self, if_true, Bool.and_eq_true, beq_iff_eq] at h
    exact good_of_ns0 ok false n h.1 h.2
  · simp only [hb, Bool.and_false, Bool.false_eq_true, if_false] at h
    rw [goodW_eq]
    simp only [Bool.false_and, Bool.false_eq_true, if_false]
    cases hh : hookName? n with
    | some nm =>
      rw [hh] at h
      simp only [Bool.and_eq_true] at h ⊢
      refine ⟨h.1, ?_⟩
      unfold goodL at h ⊢
      rw [List.all_eq_true] at h ⊢
      intro k hk
      exact ih k (List.mem_of_mem_drop hk) (h.2 k hk)
    | none =>
      rw [hh] at h
      simp only [Bool.and_eq_true] at h ⊢
      refine ⟨h.1, ?_⟩
      unfold goodL at h ⊢
      rw [List.all_eq_true] at h ⊢
      intro k hk
      exact ih k hk (h.2 k hk)

theorem goodL_true_false (ok) (l : List Node) (h : goodL ok true l = true) : goodL ok false l = true := by
  unfold goodL at h ⊢
  rw [List.all_eq_true] at h ⊢
  intro k hk
  exact good_true_false ok k (h k hk)

/-- shape of a hook call -/
theorem hookName?_some {n : Node} {nm : String} (h : hookName? n = some nm) :
    ∃ x isp psp msp args sp, n = .call (.member (.ident (.user x) isp) (.pname nm psp) msp) args sp ∧
      (x == Generated.ddGlobalNamespace) = true := by
  unfold hookName? at h
  split at h
  · rename_i x isp name psp msp args sp
    by_cases hx : (x == Generated.ddGlobalNamespace) = true
    · simp only [hx, if_true, Option.some.injEq] at h
      subst h
      exact ⟨x, isp, psp, msp, args, sp, rfl, hx⟩
    · simp [hx] at h
  · cases h

end IastModel

namespace IastModel
open Node

theorem mapM'_canc (g : Node → M Node) (hg : ∀ k s, s.status = .cancelled → (g k s).2.status = .cancelled) :
    ∀ (ks : List Node) (s : St), s.status = .cancelled → (mapM' g ks s).2.status = .cancelled := by
  intro ks
  induction ks with
  | nil => intro s h; simpa [mapM', run_pure] using h
  | cons k ks ih =>
    intro s h
    simp only [mapM', run_bind, run_pure]
    exact ih _ (hg k s h)

theorem blockVisit_canc (cfg : Config) (opFuel : Nat) : ∀ (f : Nat) (n : Node) (s : St),
    s.status = .cancelled → (blockVisit cfg opFuel f n s).2.status = .cancelled := by
  intro f
  induction f with
  | zero => intro n s h; simpa [blockVisit, run_bind, run_pure, outOfFuel, run_modify] using h
  | succ f ih =>
    intro n s h
    have gen : (mapKidsM mapM' (blockVisit cfg opFuel f) n s).2.status = .cancelled := by
      simp only [mapKidsM, run_bind, run_pure]
      exact mapM'_canc _ (fun k s hs => ih k s hs) _ _ h
    cases n with
    | block ss sp =>
      simp [blockVisit, run_bind, run_get, run_pure, h]
    | _ => simpa only [blockVisit] using gen

theorem blockVisit_nokids (cfg : Config) (opFuel : Nat) (f : Nat) (n : Node) (s : St)
    (hk : n.kids = []) (hb : isBlockNode n = false) :
    (blockVisit cfg opFuel f n s).1 = n ∧ TS (blockVisit cfg opFuel f n s).2 s := by
  cases f with
  | zero =>
    simp only [blockVisit, run_bind, run_pure]
    exact ⟨trivial, outOfFuel_TS s⟩
  | succ f =>
    have gen : (mapKidsM mapM' (blockVisit cfg opFuel f) n s).1 = n ∧ TS (mapKidsM mapM' (blockVisit cfg opFuel f) n s).2 s := by
      simp only [mapKidsM, run_bind, run_pure, hk, mapM']
      exact ⟨by rw [← hk]; exact Node.withKids_kids n, TS.refl s⟩
    cases n with
    | block ss sp => simp [isBlockNode] at hb
    | _ => simpa only [blockVisit] using gen

theorem blockVisit_callee (cfg : Config) (opFuel : Nat) (f : Nat) (nm : Name) (isp : Span) (p : String) (psp msp : Span) (s : St) :
    (blockVisit cfg opFuel f (.member (.ident nm isp) (.pname p psp) msp) s).1 = .member (.ident nm isp) (.pname p psp) msp ∧
    TS (blockVisit cfg opFuel f (.member (.ident nm isp) (.pname p psp) msp) s).2 s := by
  cases f with
  | zero =>
    simp only [blockVisit, run_bind, run_pure]
    exact ⟨trivial, outOfFuel_TS s⟩
  | succ f =>
    simp only [blockVisit, mapKidsM, kids, mapM', run_bind, run_pure]
    have h1 := blockVisit_nokids cfg opFuel f (.ident nm isp) s rfl rfl
    generalize blockVisit cfg opFuel f (.ident nm isp) s = R1 at h1
    obtain ⟨a, s1⟩ := R1
    simp only at h1
    have h2 := blockVisit_nokids cfg opFuel f (.pname p psp) s1 rfl rfl
    generalize blockVisit cfg opFuel f (.pname p psp) s1 = R2 at h2
    obtain ⟨b, s2⟩ := R2
    simp only at h2
    obtain ⟨rfl, t1⟩ := h1
    obtain ⟨rfl, t2⟩ := h2
    exact ⟨by simp [withKids], TS.trans t2 t1⟩

end IastModel

namespace IastModel
open Node

def resetProvider (s : St) : St := { s with counter := 0, idents := [], vars := [] }
def cancelSt (reason : String) (s : St) : St := { s with status := .cancelled, msg := some reason }

theorem blockVisit_block (cfg : Config) (opFuel f : Nat) (ss : List Node) (sp : Span) (s : St) (h : s.status ≠ .cancelled) :
    blockVisit cfg opFuel (f + 1) (.block ss sp) s =
      (if variablesContainPossibleDuplicate (mapKidsM mapM' (visit cfg opFuel true) (.block ss sp) (resetProvider s)).2.vars
            (tempPrefix cfg.localVarPrefix) = true
       then ((mapKidsM mapM' (visit cfg opFuel true) (.block ss sp) (resetProvider s)).1,
             cancelSt "Variable name duplicated" (mapKidsM mapM' (visit cfg opFuel true) (.block ss sp) (resetProvider s)).2)
       else mapKidsM mapM' (blockVisit cfg opFuel f)
             (insertVariableDeclaration (mapKidsM mapM' (visit cfg opFuel true) (.block ss sp) (resetProvider s)).2.idents
               (mapKidsM mapM' (visit cfg opFuel true) (.block ss sp) (resetProvider s)).1)
             (mapKidsM mapM' (visit cfg opFuel true) (.block ss sp) (resetProvider s)).2) := by
  simp only [blockVisit, run_bind, run_get]
  have hc : (s.status == Status.cancelled) = false := by
    cases hs : s.status <;> simp_all <;> rfl
  show (ite ((s.status == Status.cancelled) = true) _ _ : M Node) s = _
  rw [if_neg (by simp [hc])]
  simp only [run_bind, run_modify, run_get]
  show (ite (variablesContainPossibleDuplicate _ _ = true) _ _ : M Node) _ = _
  by_cases hd : variablesContainPossibleDuplicate (mapKidsM mapM' (visit cfg opFuel true) (.block ss sp) (resetProvider s)).2.vars
            (tempPrefix cfg.localVarPrefix) = true
  · simp only [resetProvider] at hd ⊢
    simp only [hd, if_true, run_bind, run_pure, cancelVisit, run_modify]
    rfl
  · simp only [resetProvider] at hd ⊢
    simp only [hd, Bool.false_eq_true, if_false]

theorem blockVisit_generic (cfg : Config) (opFuel f : Nat) (n : Node) (hb : isBlockNode n = false) :
    blockVisit cfg opFuel (f + 1) n = mapKidsM mapM' (blockVisit cfg opFuel f) n := by
  cases n <;> first | rfl | simp [isBlockNode] at hb

/-- what the block visitor guarantees when the run is not cancelled -/
def BSpec (ok : String → Bool) (n : Node) (R : Node × St) (s : St) : Prop :=
  StOk R.2 → goodW ok false R.1 = true ∧ ∃ k, Eff s R.2 k ∧ ns R.1 = ns n + k

theorem mapBlock_spec (ok) (g : Node → M Node)
    (hb : ∀ k s, StOk s → goodW ok true k = true → BSpec ok k (g k s) s)
    (hc : ∀ k s, s.status = .cancelled → (g k s).2.status = .cancelled) :
    ∀ (ks : List Node) (s : St), StOk s → goodL ok true ks = true → StOk (mapM' g ks s).2 →
      goodL ok false (mapM' g ks s).1 = true ∧ (mapM' g ks s).1.length = ks.length ∧
      ∃ k, Eff s (mapM' g ks s).2 k ∧ nsL (mapM' g ks s).1 = nsL ks + k := by
  intro ks
  induction ks with
  | nil => intro s _ _ _; exact ⟨rfl, rfl, 0, Eff.refl s, rfl⟩
  | cons x xs ih =>
    intro s hs hg hfin
    simp only [goodL_cons, Bool.and_eq_true] at hg
    simp only [mapM', run_bind, run_pure] at hfin ⊢
    have h1 := hb x s hs hg.1
    generalize hR1 : g x s = R1 at h1 hfin
    obtain ⟨x', s1⟩ := R1
    simp only at hfin ⊢
    have hs1 : StOk s1 := by
      intro hcn
      exact hfin (mapM'_canc g hc xs s1 hcn)
    obtain ⟨g1, k1, e1, c1⟩ := h1 hs1
    simp only at g1 e1 c1
    obtain ⟨g2, l2, k2, e2, c2⟩ := ih s1 hs1 hg.2 hfin
    refine ⟨by simp [g1, g2], by simp [l2], k1 + k2, e1.trans e2, ?_⟩
    simp only [nsL_cons]; omega

end IastModel

namespace IastModel
open Node

theorem letDecl_ns (idents : List Nat) (sp : Span) : ns (letDecl idents sp) = 0 ∧ bad (letDecl idents sp) = 0 := by
  have h1 : ∀ l : List Nat, nsL (l.map fun n => Node.other "VariableDeclarator" sp ["id", "init", "definite"]
      [tempIdent n, .atom "null", .atom "false"]) = 0 := by
    intro l; induction l with
    | nil => rfl
    | cons x xs ih => simp only [tempIdent] at ih ⊢; simp [ih]
  have h2 : ∀ l : List Nat, badL (l.map fun n => Node.other "VariableDeclarator" sp ["id", "init", "definite"]
      [tempIdent n, .atom "null", .atom "false"]) = 0 := by
    intro l; induction l with
    | nil => rfl
    | cons x xs ih => simp only [tempIdent] at ih ⊢; simp [ih]
  simp [letDecl, ns_arr, bad_arr, h1, h2]

theorem insertVar_spec (ok) (idents : List Nat) (ks : List Node) (sp : Span) (hg : goodL ok true ks = true) :
    ∃ ks2, insertVariableDeclaration idents (.block ks sp) = .block ks2 sp ∧ goodL ok true ks2 = true ∧ nsL ks2 = nsL ks := by
  unfold insertVariableDeclaration
  by_cases he : idents.isEmpty = true
  · simp only [he, if_true]; exact ⟨ks, rfl, hg, rfl⟩
  · simp only [he, Bool.false_eq_true, if_false]
    refine ⟨_, rfl, ?_, ?_⟩
    · obtain ⟨g1, g2⟩ := goodL_take_drop ok true ks (variableInsertionIndex ks) hg
      have := good_of_ns0 ok true (letDecl idents sp) (letDecl_ns idents sp).1 (letDecl_ns idents sp).2
      simp [insertAt, g1, g2, this]
    · have := nsL_take_drop ks (variableInsertionIndex ks)
      simp only [insertAt, nsL_append, nsL_cons, nsL_nil, (letDecl_ns idents sp).1]
      omega

theorem blockVisit_spec (ok) (cfg : Config) (hcfg : CfgOk ok cfg) (opFuel : Nat) : ∀ (f : Nat) (n : Node) (s : St),
    StOk s → goodW ok true n = true → BSpec ok n (blockVisit cfg opFuel f n s) s := by
  intro f
  induction f with
  | zero =>
    intro n s hs hg _
    simp only [blockVisit, run_bind, run_pure]
    exact ⟨good_true_false ok n hg, 0, Eff.of_TS (outOfFuel_TS s), rfl⟩
  | succ f ih =>
    intro n s hs hg
    have hlist := mapBlock_spec ok (blockVisit cfg opFuel f) (fun k s hs hg => ih k s hs hg)
      (fun k s h => blockVisit_canc cfg opFuel f k s h)
    by_cases hb : isBlockNode n = true
    · cases n with
      | block ss sp =>
        rw [good_block] at hg
        simp only [if_true, Bool.and_eq_true, beq_iff_eq] at hg
        rw [blockVisit_block cfg opFuel f ss sp s hs]
        have hs0 : StOk (resetProvider s) := hs
        have t0 : TS (resetProvider s) s := ⟨rfl, rfl, id⟩
        obtain ⟨ks', h1, hl, g, e, p⟩ := mapKids_spec' ok (visit cfg opFuel true)
          (fun k s h0 ht hs => visit_spec ok cfg hcfg opFuel true k s h0 ht hs) (.block ss sp) (resetProvider s)
          (by simp [hg.1]) ((bad_zero_iff _).mp (by simp [hg.2])) hs0
        generalize mapKidsM mapM' (visit cfg opFuel true) (.block ss sp) (resetProvider s) = K at h1 e
        obtain ⟨n1, s1⟩ := K
        simp only [withKids] at h1 e ⊢
        subst h1
        by_cases hd : variablesContainPossibleDuplicate s1.vars (tempPrefix cfg.localVarPrefix) = true
        · simp only [hd, if_true]
          intro hfin
          exact absurd rfl hfin
        · simp only [hd, Bool.false_eq_true, if_false]
          obtain ⟨ks2, hins, g2, n2⟩ := insertVar_spec ok s1.idents ks' sp g
          rw [hins]
          simp only [mapKidsM, kids, run_bind, run_pure, withKids]
          intro hfin
          have e01 : Eff s s1 (nsL ks') := ((Eff.of_TS t0).trans e).cast (by omega)
          obtain ⟨g3, l3, k3, e3, c3⟩ := hlist ks2 s1 (e01.stOk hs) g2 hfin
          refine ⟨by rw [good_block]; simpa using g3, nsL ks' + k3, e01.trans e3, ?_⟩
          simp only [ns_block]
          omega
      | _ => simp [isBlockNode] at hb
    · simp only [Bool.not_eq_true] at hb
      rw [blockVisit_generic cfg opFuel f n hb]
      rw [goodW_eq] at hg
      simp only [hb, Bool.and_false, Bool.false_eq_true, if_false] at hg
      cases hh : hookName? n with
      | none =>
        rw [hh] at hg
        simp only [Bool.and_eq_true, Bool.not_eq_true'] at hg
        simp only [mapKidsM, run_bind, run_pure]
        intro hfin
        obtain ⟨g3, l3, k3, e3, c3⟩ := hlist n.kids s hs hg.2 hfin
        refine ⟨good_withKids_false ok n _ hg.1 g3 l3, k3, e3, ?_⟩
        rw [ns_withKids n _ l3, ns_eq n]; omega
      | some nm =>
        obtain ⟨x, isp, psp, msp, args, sp, rfl, hx⟩ := hookName?_some hh
        rw [hh] at hg
        simp only [kids, List.drop_succ_cons, List.drop_zero, Bool.and_eq_true] at hg
        simp only [mapKidsM, kids, mapM', run_bind, run_pure]
        have hc := blockVisit_callee cfg opFuel f (.user x) isp nm psp msp s
        generalize blockVisit cfg opFuel f (.member (.ident (.user x) isp) (.pname nm psp) msp) s = RC at hc
        obtain ⟨c', s1⟩ := RC
        obtain ⟨hc1, t1⟩ := hc
        simp only at hc1 t1 ⊢
        subst hc1
        intro hfin
        have e1 : Eff s s1 0 := Eff.of_TS t1
        obtain ⟨g3, l3, k3, e3, c3⟩ := hlist args s1 (e1.stOk hs) hg.2 hfin
        simp only [withKids, List.getD_cons_zero, List.drop_succ_cons, List.drop_zero]
        refine ⟨?_, k3, (e1.trans e3).cast (by omega), ?_⟩
        · rw [goodW_eq]
          simp [isBlockNode, hookName?, hx, kids, hg.1, g3]
        · simp only [ns_call]; omega

end IastModel

import IastModel.Lemmas.MirTr
import IastModel.Lemmas.TrCall
namespace IastModel
open Node

/-! ### method calls -/

def expOf (expand : Bool) (a : Node) : List Node := if expand then expandApplyArg a else [a]

theorem Mir_elem (el : Node) : Mir (pushOfElem el) [applyElem el] := by
  cases el with
  | arg s e => exact Mir.pushOf e s
  | _ => exact Mir.refl _

theorem Mir_argX (expand : Bool) (a : Node) (h : isArgNode a = true) : Mir (pushOfArgX expand a) (expOf expand a) := by
  cases a with
  | arg sp e =>
    cases expand with
    | false =>
      simp only [pushOfArgX, expOf, Bool.false_eq_true, if_false]
      have : pushOfX e (kindOf sp) false = pushOf e (kindOf sp) := by cases e <;> rfl
      rw [this]; exact Mir.pushOf e sp
    | true =>
      simp only [pushOfArgX, expOf, if_true]
      by_cases ha : isArrayNode e = true
      · cases e with
        | array els asp =>
          simp only [pushOfX, expandApplyArg]
          rw [map_singleton_flatten applyElem els]
          apply Mir.flatten
          intro x _
          exact Mir_elem x
        | _ => simp [isArrayNode] at ha
      · have h1 : pushOfX e (kindOf sp) true = pushOf e (kindOf sp) := by
          cases e <;> first | rfl | simp [isArrayNode] at ha
        have h2 : expandApplyArg (.arg sp e) = [.arg sp e] := by
          cases e <;> first | rfl | simp [isArrayNode] at ha
        rw [h1, h2]; exact Mir.pushOf e sp
  | _ => simp [isArgNode] at h

theorem replaceArg_shape (spread : Option Span) (e : Node) (mode : IdentMode) (asg args : List Node) (sp : Span) (expand : Bool) (s : St) :
    ∃ e', (replaceArg (.arg spread e) mode asg args sp expand s).1.1 = .arg spread e' := by
  simp only [replaceArg, run_bind, run_pure]
  exact ⟨_, rfl⟩

def flagsOf (a : Node) : Bool × Bool := (isArgNode a, isSpreadArg a)

theorem replaceArgs_flags (mode : IdentMode) (sp : Span) (expand : Bool) : ∀ (xs asg args : List Node) (s : St),
    (replaceArgs mode sp expand xs asg args s).1.1.map flagsOf = xs.map flagsOf := by
  intro xs
  induction xs with
  | nil => intro asg args s; simp [replaceArgs, run_pure]
  | cons x xs ih =>
    intro asg args s
    simp only [replaceArgs, run_bind, run_pure, List.map_cons]
    rw [ih _ _ _]
    congr 1
    cases x with
    | arg spread e =>
      obtain ⟨e', he⟩ := replaceArg_shape spread e mode asg args sp expand s
      rw [he]; cases spread <;> rfl
    | _ => simp [replaceArg, run_pure]

theorem pushes_callArgs (expand : Bool) (xs : List Node) :
    (xs.map (pushOfArgX expand)).flatten = ((callArgs xs).map (pushOfArgX expand)).flatten := by
  induction xs with
  | nil => rfl
  | cons x xs ih =>
    cases x <;> simp_all [callArgs, isArgNode, pushOfArgX, List.filter_cons]

theorem callArgs_isArg (xs : List Node) : ∀ a ∈ callArgs xs, isArgNode a = true := by
  intro a ha
  simp only [callArgs, List.mem_filter] at ha
  exact ha.2

theorem callArgs_flags {xs ys : List Node} (h : xs.map flagsOf = ys.map flagsOf) :
    (callArgs xs).map flagsOf = (callArgs ys).map flagsOf := by
  induction xs generalizing ys with
  | nil => cases ys with
    | nil => rfl
    | cons y ys => simp at h
  | cons x xs ih =>
    cases ys with
    | nil => simp at h
    | cons y ys =>
      simp only [List.map_cons, List.cons.injEq] at h
      have h1 : isArgNode x = isArgNode y := congrArg Prod.fst h.1
      simp only [callArgs, List.filter_cons, h1]
      split
      · simp only [List.map_cons, h.1]
        congr 1
        exact ih h.2
      · exact ih h.2

def expArgs (expand : Bool) (cargs : List Node) : List Node := (cargs.map (expOf expand)).flatten

theorem expArgs_false (cargs : List Node) : expArgs false cargs = cargs := by
  unfold expArgs expOf
  simp only [Bool.false_eq_true, if_false]
  exact (map_singleton_flatten id cargs).symm.trans (by simp)

theorem replaceCallCalleeAndArgs_mir (callee : Node) (cargs : List Node) (csp : Span) (identCallee : Option Node)
    (asg args : List Node) (coa : Option String) (s : St) :
    let R := replaceCallCalleeAndArgs callee cargs csp identCallee asg args coa s
    let propName := coa.getD Generated.callMethodName
    ∃ cargs' P, R.1.1 = .call (match identCallee with
        | some i => Node.member i (.pname propName csp) csp
        | none => callee) cargs' csp ∧
      R.1.2.2 = args ++ P ∧ Mir P (expArgs (propName == Generated.applyMethodName) (callArgs cargs')) ∧
      cargs'.map flagsOf = cargs.map flagsOf := by
  simp only [replaceCallCalleeAndArgs, run_bind, run_pure]
  generalize hE : ((coa.getD Generated.callMethodName) == Generated.applyMethodName) = expand
  have h := replaceArgs_push .replace csp expand cargs asg args s
  have hf := replaceArgs_flags .replace csp expand cargs asg args s
  generalize replaceArgs .replace csp expand cargs asg args s = R at h hf
  obtain ⟨⟨cargs', asg', args'⟩, s'⟩ := R
  simp only at h hf
  refine ⟨cargs', _, rfl, h, ?_, hf⟩
  rw [pushes_callArgs]
  unfold expArgs
  apply Mir.flatten
  intro x hx
  exact Mir_argX expand x (callArgs_isArg _ x hx)

theorem mirrorCall_of_Mir (cfg : Config) (first : Node) (rest exp : List Node)
    (he : expectedCallArgs first = some exp) (hm : Mir rest exp) :
    mirrorCall cfg first rest = none ∨ mirrorCall cfg first rest = some (sumClass cfg "call") := by
  unfold mirrorCall
  rw [he]
  simp only
  rcases hm with hm | hm
  · left; simp [hm]
  · by_cases heq : argsEq rest exp = true
    · left; simp [heq]
    · right
      have : exp.any (fun a => isNonLiteralSum (argOf a)) = true := hm
      simp [heq, this]

theorem mirrorBare_of_Mir (cfg : Config) (f : Node) (cargs rest0 : List Node) (usp : Span) (hm : Mir rest0 (callArgs cargs)) :
    mirrorBare cfg f cargs (.arg none f :: .arg none (.ident (.user "undefined") usp) :: rest0) = none ∨
    mirrorBare cfg f cargs (.arg none f :: .arg none (.ident (.user "undefined") usp) :: rest0) = some (sumClass cfg "call") := by
  unfold mirrorBare
  simp only [eqNS_refl, Bool.true_and]
  generalize callArgs cargs = A at hm
  rcases hm with hm | hm
  · left; simp [hm]
  · by_cases heq : argsEq rest0 A = true
    · left; simp [heq]
    · right
      have : A.any (fun a => isNonLiteralSum (argOf a)) = true := hm
      simp [heq, this]

def MirRes (cfg : Config) (R : Option (Node × String) × St) : Prop :=
  ∀ e' tag, R.1 = some (e', tag) →
    ∃ first args asg name sp, e' = ddParen first args asg name sp ∧ MirOK cfg (ddCall first args name sp)

theorem mirRes_none (cfg : Config) (s : St) : MirRes cfg ((none : Option (Node × String)), s) := by
  intro e' tag h; cases h

theorem mirOK_of (cfg : Config) (first : Node) (args : List Node) (name : String) (sp : Span)
    (h : argsMirrorFirst cfg name first args = none ∨ argsMirrorFirst cfg name first args = some (sumClass cfg "call")) :
    MirOK cfg (ddCall first args name sp) := by
  unfold MirOK
  rw [argsMirrorSite_ddCall]
  rcases h with h | h
  · exact Or.inl h
  · exact Or.inr ⟨"call", Or.inr (Or.inr rfl), h⟩

theorem isCallOrApply_cases {x : String} (h : isCallOrApply x = true) : x = Generated.callMethodName ∨ x = Generated.applyMethodName := by
  simpa [isCallOrApply] using h

theorem apply_ne_call : (Generated.applyMethodName == Generated.callMethodName) = false := by decide
theorem call_ne_apply : (Generated.callMethodName == Generated.applyMethodName) = false := by decide

/-- `f(args)` for a method that may be called without a receiver -/
theorem replaceCallWithoutCallee_mir (cfg : Config) (name : Name) (isp : Span) (cargs : List Node) (csp : Span) (s : St) :
    MirRes cfg (replaceCallWithoutCallee cfg name isp (.ident name isp) cargs csp s) := by
  unfold replaceCallWithoutCallee
  cases name with
  | temp k => exact mirRes_none _ _
  | user method =>
    simp only
    cases hg : cfg.get method with
    | none => exact mirRes_none _ _
    | some csi =>
      simp only
      by_cases hal : csi.allowedWithoutCallee = true
      · simp only [hal, if_true, run_bind, run_pure]
        have hcs := replaceCallCalleeAndArgs_mir (.ident (.user method) isp) cargs csp none []
          [Node.arg none (.ident (.user method) isp), .arg none (.ident (.user "undefined") csp)] none s
        generalize replaceCallCalleeAndArgs (.ident (.user method) isp) cargs csp none []
          [Node.arg none (.ident (.user method) isp), .arg none (.ident (.user "undefined") csp)] none s = R at hcs
        obtain ⟨⟨callRepl, asg3, args3⟩, s3⟩ := R
        simp only at hcs
        obtain ⟨cargs', P, hcr, hargs, hm, _⟩ := hcs
        subst hcr
        intro e' tag hres
        simp only [Option.some.injEq, Prod.mk.injEq] at hres
        refine ⟨_, _, _, _, _, hres.1.symm, ?_⟩
        apply mirOK_of
        rw [hargs]
        simp only [Option.getD_none, call_ne_apply, expArgs_false] at hm
        simp only [argsMirrorFirst, List.cons_append, List.nil_append]
        exact mirrorBare_of_Mir cfg _ cargs' P csp hm
      · simp only [hal, Bool.false_eq_true, if_false, run_pure]
        exact mirRes_none _ _

end IastModel

namespace IastModel
open Node

theorem propName_cases (coa : Option String) (h : ∀ x, coa = some x → isCallOrApply x = true) :
    coa.getD Generated.callMethodName = Generated.callMethodName ∨ coa.getD Generated.callMethodName = Generated.applyMethodName := by
  cases coa with
  | none => exact Or.inl rfl
  | some x => exact isCallOrApply_cases (h x rfl)

theorem expOf_true : expOf true = expandApplyArg := by funext a; simp [expOf]

theorem argIsSpread_eq (a : Node) : argIsSpread a = isSpreadArg a := by
  cases a with
  | arg s e => cases s <;> rfl
  | _ => rfl

theorem expected_call (f : Node) (p1 p2 p3 : Span) (cargs : List Node) :
    expectedCallArgs (.call (.member f (.pname Generated.callMethodName p1) p2) cargs p3) = some (.arg none f :: callArgs cargs) := by
  simp [expectedCallArgs]

theorem expected_apply_this (f : Node) (p1 p2 p3 : Span) (cargs : List Node) (this : Node) (rest : List Node)
    (hc : callArgs cargs = this :: rest) (h : isSpreadArg this = false) :
    expectedCallArgs (.call (.member f (.pname Generated.applyMethodName p1) p2) cargs p3) =
      some (.arg none f :: this :: expArgs true rest) := by
  simp [expectedCallArgs, apply_ne_call, hc, h, expArgs, expOf_true]

theorem expected_apply_spread (f : Node) (p1 p2 p3 : Span) (cargs : List Node) (this : Node) (rest : List Node)
    (hc : callArgs cargs = this :: rest) (h : isSpreadArg this = true) :
    expectedCallArgs (.call (.member f (.pname Generated.applyMethodName p1) p2) cargs p3) =
      some (.arg none f :: expArgs true (callArgs cargs)) := by
  simp [expectedCallArgs, apply_ne_call, hc, h, expArgs, expOf_true]

theorem callArgs_cons_arg (s : Option Span) (e : Node) (xs : List Node) : callArgs (.arg s e :: xs) = .arg s e :: callArgs xs := by
  simp [callArgs, List.filter_cons, isArgNode]

theorem Mir.cons (a : Node) {p e : List Node} (h : Mir p e) : Mir (a :: p) (a :: e) :=
  Mir.append (Mir.refl [a]) h

theorem rcwmTail_mir (cfg : Config) (dst method : String) (identReplacement memberExpr expr callee : Node) (cargs asg0 : List Node)
    (csp : Span) (coa : Option String) (s0 : St)
    (lme : memberExpr.isLit = false) (hcoa : ∀ x, coa = some x → isCallOrApply x = true) :
    MirRes cfg (rcwmTail dst method identReplacement memberExpr expr callee cargs asg0 csp coa s0) := by
  unfold rcwmTail
  simp only [run_bind, run_pure]
  rcases getIdentUsed_cases memberExpr asg0 [] csp .expr s0 with ⟨hl, _⟩ | ⟨_, n1, s1, h1, _⟩
  · rw [lme] at hl; cases hl
  · rw [h1]
    simp only
    have hcs := replaceCallCalleeAndArgs_mir callee cargs csp (some (tempIdent n1))
      (asg0 ++ [.assign "=" (tempIdent n1) (assignRight memberExpr .expr) csp])
      ([] ++ [exprOrSpread (tempIdent n1) .expr] ++ [.arg none identReplacement]) coa s1
    generalize replaceCallCalleeAndArgs callee cargs csp (some (tempIdent n1))
      (asg0 ++ [.assign "=" (tempIdent n1) (assignRight memberExpr .expr) csp])
      ([] ++ [exprOrSpread (tempIdent n1) .expr] ++ [.arg none identReplacement]) coa s1 = R at hcs
    obtain ⟨⟨callRepl, asg3, args3⟩, s3⟩ := R
    simp only at hcs
    obtain ⟨cargs', P, hcr, hargs, hm, _⟩ := hcs
    subst hcr
    intro e' tag hres
    simp only [Option.some.injEq, Prod.mk.injEq] at hres
    refine ⟨_, _, _, _, _, hres.1.symm, ?_⟩
    apply mirOK_of
    rw [hargs]
    simp only [insertThis, argsMirrorFirst, List.nil_append, List.cons_append, exprOrSpread]
    rcases propName_cases coa hcoa with hp | hp
    · rw [hp] at hm ⊢
      simp only [call_ne_apply, expArgs_false] at hm
      exact mirrorCall_of_Mir cfg _ _ _ (by rw [expected_call, callArgs_cons_arg]) (Mir.cons _ (Mir.cons _ hm))
    · rw [hp] at hm ⊢
      simp only [beq_self_eq_true] at hm
      exact mirrorCall_of_Mir cfg _ _ _ (expected_apply_this _ _ _ _ _ _ _ (callArgs_cons_arg _ _ _) rfl) (Mir.cons _ (Mir.cons _ hm))

theorem replaceCallWithMember_mir (cfg : Config) (expr : Node) (method : String) (msp : Span)
    (callee : Node) (cargs : List Node) (csp : Span) (memberOpt : Option Node) (coa : Option String) (s : St)
    (hm : ∀ m, memberOpt = some m → m.isLit = false)
    (hcoa : ∀ x, coa = some x → isCallOrApply x = true) :
    MirRes cfg (replaceCallWithMember cfg expr method msp callee cargs csp memberOpt coa s) := by
  cases hg : cfg.get method with
  | none =>
    unfold replaceCallWithMember
    simp only [hg]
    exact mirRes_none _ _
  | some csi =>
    rw [replaceCallWithMember_unfold _ _ _ _ _ _ _ _ _ _ csi hg]
    simp only
    apply rcwmTail_mir cfg _ _ _ _ _ _ _ _ _ _ _ ?_ hcoa
    cases memberOpt with
    | none => simp [memberOr, Node.isLit]
    | some m => simp [memberOr, hm m rfl]

theorem replaceCallSpreadWithMember_mir (cfg : Config) (method : String)
    (callee : Node) (this : Node) (rest : List Node) (csp : Span) (memberExpr : Node) (coa : String) (s : St)
    (hsp : argIsSpread this = true) (hcoa : isCallOrApply coa = true) :
    MirRes cfg (replaceCallSpreadWithMember cfg method callee (this :: rest) csp memberExpr coa s) := by
  unfold replaceCallSpreadWithMember
  cases hg : cfg.get method with
  | none => exact mirRes_none _ _
  | some csi =>
    simp only [run_bind, run_pure]
    rcases getIdentUsed_cases memberExpr [] [] csp .expr s with ⟨hl, h1⟩ | ⟨_, n1, s1, h1, _⟩
    · rw [h1]; exact mirRes_none _ _
    · rw [h1]
      simp only [run_bind, run_pure]
      have hcs := replaceCallCalleeAndArgs_mir callee (this :: rest) csp (some (tempIdent n1))
        ([] ++ [.assign "=" (tempIdent n1) (assignRight memberExpr .expr) csp])
        ([] ++ [exprOrSpread (tempIdent n1) .expr]) (some coa) s1
      generalize replaceCallCalleeAndArgs callee (this :: rest) csp (some (tempIdent n1))
        ([] ++ [.assign "=" (tempIdent n1) (assignRight memberExpr .expr) csp])
        ([] ++ [exprOrSpread (tempIdent n1) .expr]) (some coa) s1 = R at hcs
      obtain ⟨⟨callRepl, asg3, args3⟩, s3⟩ := R
      simp only at hcs
      obtain ⟨cargs', P, hcr, hargs, hm, hf⟩ := hcs
      subst hcr
      intro e' tag hres
      simp only [Option.some.injEq, Prod.mk.injEq] at hres
      refine ⟨_, _, _, _, _, hres.1.symm, ?_⟩
      apply mirOK_of
      rw [hargs]
      simp only [argsMirrorFirst, List.nil_append, List.cons_append, exprOrSpread, Option.getD_some] at hm ⊢
      rcases isCallOrApply_cases hcoa with hp | hp
      · rw [hp] at hm ⊢
        simp only [call_ne_apply, expArgs_false] at hm
        exact mirrorCall_of_Mir cfg _ _ _ (expected_call _ _ _ _ _) (Mir.cons _ hm)
      · rw [hp] at hm ⊢
        simp only [beq_self_eq_true] at hm
        cases cargs' with
        | nil => simp at hf
        | cons this' rest' =>
          simp only [List.map_cons, List.cons.injEq] at hf
          have hs' : isSpreadArg this' = true := by
            have h2 := congrArg Prod.snd hf.1
            simp only [flagsOf] at h2
            rw [h2, ← argIsSpread_eq]; exact hsp
          have ha' : callArgs (this' :: rest') = this' :: callArgs rest' := by
            cases this' with
            | arg s0 e0 => exact callArgs_cons_arg _ _ _
            | _ => simp [isSpreadArg] at hs'
          exact mirrorCall_of_Mir cfg _ _ _ (expected_apply_spread _ _ _ _ _ _ _ ha' hs') (Mir.cons _ hm)

end IastModel

namespace IastModel
open Node

theorem replacePrototypeCallOrApply_mir (cfg : Config) (cargs : List Node) (csp : Span) (callee member : Node)
    (coa : String) (s : St) :
    MirRes cfg (replacePrototypeCallOrApply cfg cargs csp callee member coa s) := by
  unfold replacePrototypeCallOrApply
  by_cases h1 : isCallOrApply coa = true
  · simp only [h1, Bool.not_true, Bool.false_eq_true, if_false]
    unfold prototypeMethodIdent
    by_cases hsp : isStaticPath member = true
    · simp only [hsp, if_true]
      cases member with
      | member mo mp msp0 =>
        cases mp with
        | pname method msp =>
          simp only
          cases cargs with
          | nil => exact mirRes_none _ _
          | cons th rest =>
            simp only
            by_cases hs : argIsSpread th = true
            · simp only [hs, if_true]
              exact replaceCallSpreadWithMember_mir cfg method callee th rest csp _ coa s hs h1
            · simp only [hs, Bool.false_eq_true, if_false]
              by_cases hinv : invalidArgs coa (th :: rest) = true
              · simp only [hinv, if_true]; exact mirRes_none _ _
              · simp only [hinv, Bool.false_eq_true, if_false]
                split
                · exact mirRes_none _ _
                · exact replaceCallWithMember_mir cfg (argExpr th) method msp _ rest csp
                    (some (.member mo (.pname method msp) msp0)) (some coa) s
                    (by intro m hm; cases hm; rfl)
                    (by intro x hx; cases hx; exact h1)
        | _ => simp [isStaticPath] at hsp
      | _ => simp [isStaticPath] at hsp
    · simp only [hsp, Bool.false_eq_true, if_false]; exact mirRes_none _ _
  · simp only [h1, Bool.not_false, if_true]; exact mirRes_none _ _

/-- **every method-call hook the rewriter builds mirrors the call it wraps**: (result, function, receiver,
    arguments…), `apply` arrays element by element, spreads re-spread -/
theorem toDdCall_mirror (cfg : Config) (callee : Node) (cargs : List Node) (csp : Span) (s : St) :
    MirRes cfg (toDdCall cfg (.call callee cargs csp) s) := by
  unfold toDdCall
  cases callee with
  | member obj prop msp0 =>
    cases prop with
    | pname m msp =>
      have key := fun (_ : Unit) => replaceCallWithMember_mir cfg obj m msp (.member obj (.pname m msp) msp0) cargs csp none none s
        (by intro m hm; cases hm) (by intro x hx; cases hx)
      cases obj with
      | lit k v r lsp =>
        simp only
        split
        · exact key ()
        · exact mirRes_none _ _
      | ident nm isp => exact key ()
      | call c as csp2 => exact key ()
      | paren e psp => exact key ()
      | array es asp => exact key ()
      | member o2 p2 msp2 =>
        simp only
        split
        · exact replacePrototypeCallOrApply_mir cfg cargs csp _ _ m s
        · split
          · exact key ()
          · exact mirRes_none _ _
      | _ => exact mirRes_none _ _
    | _ => exact mirRes_none _ _
  | ident name isp => exact replaceCallWithoutCallee_mir cfg name isp cargs csp s
  | _ => exact mirRes_none _ _

end IastModel

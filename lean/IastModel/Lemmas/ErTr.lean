import IastModel.Lemmas.ErOpL2
namespace IastModel
open Node

theorem eraseL_two (σ : Env) (l r : Node) :
    eraseL σ [l, r] = ([(erase σ l).1, (erase (erase σ l).2 r).1], (erase (erase σ l).2 r).2) := by
  simp only [eraseL]

theorem erase_bin (σ : Env) (op : String) (l r : Node) (sp : Span) :
    erase σ (.bin op l r sp) = (.bin op (erase σ l).1 (erase (erase σ l).2 r).1 sp, (erase (erase σ l).2 r).2) := by
  simp only [erase]

theorem noSp_bin (op : String) (l r : Node) (sp : Span) : noSp (.bin op l r sp) := by simp [noSp, unSpread]
theorem noSp_tpl (es qs : List Node) (sp : Span) : noSp (.tpl es qs sp) := by simp [noSp, unSpread]
theorem noSp_call (c : Node) (as : List Node) (sp : Span) : noSp (.call c as sp) := by simp [noSp, unSpread]
theorem noSp_assign (op : String) (l r : Node) (sp : Span) : noSp (.assign op l r sp) := by simp [noSp, unSpread]
theorem noSp_member (o p : Node) (sp : Span) : noSp (.member o p sp) := by simp [noSp, unSpread]

/-- a window made of the operands' part and freshly allocated temporaries is one window -/
theorem winU_win {lo hi k0 k1 : Nat} {Δ : Env} (h : WinU lo hi k0 k1 Δ) (h1 : lo ≤ k0) (h2 : hi ≤ k1) : Win lo k1 Δ := by
  intro p hp; have := h p hp; omega

theorem noBlk_ddCalleeE (m : String) (sp : Span) : noBlk (ddCallee m sp) = true := by
  unfold ddCallee
  rw [noBlk_eq]
  simp only [isBlockNode, kids, noBlkL_cons, noBlkL_nil, noBlk_identE, noBlk_pnameE]
  rfl

theorem ddCall_BRg_inv {first c'' : Node} {args : List Node} {m : String} {sp : Span}
    (h : BRg (ddCall first args m sp) c'') (hnb : noBlkL args = true) :
    ∃ first'', c'' = ddCall first'' args m sp ∧ BRg first first'' := by
  unfold ddCall at h
  obtain ⟨c', as', rfl, hc, has⟩ := h.call_inv
  obtain ⟨a0, rest, rfl, ha0, hrest⟩ := BRgL.cons_inv has
  obtain ⟨f'', rfl, hf⟩ := ha0.arg_inv
  rw [BRg_noBlk (noBlk_ddCalleeE m sp) hc, BRgL_noBlk hnb hrest]
  exact ⟨f'', rfl, hf⟩

/-- a replacement inside a hook call with its hoisted operands touches only the first argument and the
    assigned operands -/
theorem ddParen_BRg_inv {first e'' : Node} {args asg : List Node} {m : String} {sp : Span}
    (h : BRg (ddParen first args asg m sp) e'') (hnb : noBlkL args = true) :
    ∃ first'' asg'', e'' = ddParen first'' args asg'' m sp ∧ BRg first first'' ∧ BRgL asg asg'' := by
  unfold ddParen at h
  simp only at h
  by_cases he : asg.isEmpty = true
  · simp only [he, if_true] at h
    have : asg = [] := by simpa using he
    subst this
    obtain ⟨f'', rfl, hf⟩ := ddCall_BRg_inv h hnb
    exact ⟨f'', [], by simp [ddParen], hf, BRgL.nil⟩
  · simp only [he, Bool.false_eq_true, if_false] at h
    obtain ⟨i'', rfl, hi⟩ := h.paren_inv
    obtain ⟨ys, rfl, hys⟩ := hi.seq_inv
    obtain ⟨asg'', k2, rfl, h1, h2⟩ := BRgL.append_inv hys
    obtain ⟨c'', rfl, hc⟩ := BRgL.single_inv h2
    obtain ⟨f'', rfl, hf⟩ := ddCall_BRg_inv hc hnb
    refine ⟨f'', asg'', ?_, hf, h1⟩
    have hne : asg''.isEmpty = false := by
      have hl := h1.length
      cases asg with
      | nil => simp at he
      | cons a as => cases asg'' <;> simp_all
    simp [ddParen, hne]

theorem AllTA.BRg {asg asg'' : List Node} (h : AllTA asg) (hb : BRgL asg asg'') : AllTA asg'' := by
  induction asg generalizing asg'' with
  | nil => rw [BRgL.nil_inv hb]; exact AllTA.nil
  | cons a as ih =>
    obtain ⟨b, bs, rfl, hab, hbs⟩ := BRgL.cons_inv hb
    intro x hx
    rcases List.mem_cons.mp hx with rfl | hx
    · rw [hab.isTempAssign]; exact h a (by simp)
    · exact ih (fun y hy => h y (by simp [hy])) hbs x hx

/-- `to_dd_binary_expr`: the replacement erases to the operation on the erased operands -/
theorem toDdBinary_Er (cfg : Config) (cx : Cx) (lo hi : Nat) (op : String) (l' r' l r : Node) (sp : Span) (s : St)
    (hw : HypW cx hi s) (hlo : lo ≤ s.counter) (hl : Er cx lo hi l' l) (hr : Er cx lo hi r' r) :
    s.counter ≤ (toDdBinary cfg (.bin op l' r' sp) s).2.counter ∧
    ∀ e1, (toDdBinary cfg (.bin op l' r' sp) s).1 = some e1 →
      Er cx lo (toDdBinary cfg (.bin op l' r' sp) s).2.counter e1 (.bin op l r sp) := by
  simp only [toDdBinary, run_bind, replaceExpr_noExpand]
  have h1 := replaceExprNoExpand_Er cx lo hi l' l (getIdentMode r') [] [] sp .expr s hw hl
  generalize replaceExprNoExpand l' (getIdentMode r') [] [] sp .expr s = R1 at h1 ⊢
  obtain ⟨⟨l1, asg1, args1⟩, s1⟩ := R1
  have c1 : s.counter ≤ s1.counter := by obtain ⟨_, _, _, _, _, _, _, c, _⟩ := h1; exact c
  try simp only
  have h2 := replaceExprNoExpand_Er cx lo hi r' r (getIdentMode l1) asg1 args1 sp .expr s1 (hw.mono c1) hr
  generalize replaceExprNoExpand r' (getIdentMode l1) asg1 args1 sp .expr s1 = R2 at h2 ⊢
  obtain ⟨⟨r1, asg2, args2⟩, s2⟩ := R2
  have c2 : s1.counter ≤ s2.counter := by obtain ⟨_, _, _, _, _, _, _, c, _⟩ := h2; exact c
  have hL := opErL_cons hw h1 (opErL_cons (hw.mono c1) h2 (opErL_nil cx lo hi asg2 args2 s2))
  obtain ⟨new, more, ea, eg, ta, inn, nb, c, A, B⟩ := hL
  dsimp only at ea eg c A B
  simp only [List.nil_append] at ea eg
  subst ea eg
  try simp only
  split
  · simp only [run_pure]
    refine ⟨c, ?_⟩
    intro e1 he
    simp only [Option.some.injEq] at he
    subst he
    intro e'' hbr σ hσ
    obtain ⟨first'', asg'', rfl, hfirst, hasg⟩ := ddParen_BRg_inv hbr nb
    obtain ⟨l1'', r1'', rfl, hl1, hr1⟩ := hfirst.bin_inv
    obtain ⟨Δ, eΔ, wΔ⟩ := A asg'' hasg σ hσ
    obtain ⟨Xs, Δ3, eX, sX, wX⟩ := B asg'' [l1'', r1''] hasg (BRgL.cons hl1 (BRgL.cons hr1 BRgL.nil)) σ [] hσ (Avoid.nil _ _) (AvoidP.nil _)
    simp only [List.nil_append] at eX
    rw [eraseL_two] at eX
    refine ⟨.bin op (erase (eraseAsg σ asg'') l1'').1 (erase (erase (eraseAsg σ asg'') l1'').2 r1'').1 sp, Δ3 ++ Δ, ?_, ?_, ?_⟩
    · rw [erase_ddParen _ _ _ _ _ _ inn (ta.BRg hasg), erase_bin]
      have := congrArg Prod.snd eX
      simp only at this
      rw [this, eΔ, List.append_assoc]
    · have hx := congrArg Prod.fst eX
      simp only at hx
      have hs : stripL Xs = stripL [l, r] := sX
      rw [← hx] at hs
      simp only [stripL, List.cons.injEq, and_true] at hs
      exact ⟨by simp only [strip, hs.1, hs.2], Or.inl rfl, noSp_bin _ _ _ _⟩
    · try dsimp only
      exact (wX.mono (Nat.le_refl _) (by have := hw.h3; omega)).append (winU_win wΔ hlo (by have := hw.h3; omega))
  · simp only [run_pure]
    exact ⟨c, by intro e1 he; cases he⟩

theorem erase_tpl (σ : Env) (es qs : List Node) (sp : Span) :
    erase σ (.tpl es qs sp) = (.tpl (eraseL σ es).1 qs sp, (eraseL σ es).2) := by
  simp only [erase]

/-- `to_dd_tpl_expr` -/
theorem toDdTpl_Er (cfg : Config) (cx : Cx) (lo hi : Nat) (es' es qs : List Node) (sp : Span) (s : St)
    (hw : HypW cx hi s) (hlo : lo ≤ s.counter) (hf : Forall2 (Er cx lo hi) es' es) (hq : noBlkL qs = true) :
    s.counter ≤ (toDdTpl cfg (.tpl es' qs sp) s).2.counter ∧
    ∀ e1, (toDdTpl cfg (.tpl es' qs sp) s).1 = some e1 →
      Er cx lo (toDdTpl cfg (.tpl es' qs sp) s).2.counter e1 (.tpl es qs sp) := by
  simp only [toDdTpl, run_bind, run_pure]
  have hL := replaceTplExprs_Er cx lo hi es' es [] [] s hw hf
  generalize replaceTplExprs es' [] [] s = R at hL ⊢
  obtain ⟨⟨xs, asg, args⟩, s1⟩ := R
  obtain ⟨new, more, ea, eg, ta, inn, nb, c, A, B⟩ := hL
  dsimp only at ea eg c A B
  simp only [List.nil_append] at ea eg
  subst ea eg
  refine ⟨c, ?_⟩
  intro e1 he
  simp only [Option.some.injEq] at he
  subst he
  intro e'' hbr σ hσ
  obtain ⟨first'', asg'', rfl, hfirst, hasg⟩ := ddParen_BRg_inv hbr nb
  obtain ⟨xs'', qs'', rfl, hxs, hqs⟩ := hfirst.tpl_inv
  rw [BRgL_noBlk hq hqs]
  obtain ⟨Δ, eΔ, wΔ⟩ := A asg'' hasg σ hσ
  obtain ⟨Xs, Δ3, eX, sX, wX⟩ := B asg'' xs'' hasg hxs σ [] hσ (Avoid.nil _ _) (AvoidP.nil _)
  simp only [List.nil_append] at eX
  refine ⟨.tpl Xs qs sp, Δ3 ++ Δ, ?_, ?_, ?_⟩
  · rw [erase_ddParen _ _ _ _ _ _ inn (ta.BRg hasg), erase_tpl, eX, eΔ, List.append_assoc]
  · have hs : stripL Xs = stripL es := sX
    exact ⟨by simp only [strip, hs], Or.inl rfl, noSp_tpl _ _ _⟩
  · try dsimp only
    exact (wX.mono (Nat.le_refl _) (by have := hw.h3; omega)).append (winU_win wΔ hlo (by have := hw.h3; omega))

end IastModel

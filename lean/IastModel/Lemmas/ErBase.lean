import IastModel.Spec.EraseSpec
import IastModel.Lemmas.Monad
namespace IastModel
open Node

end IastModel

namespace IastModel
open Node

/-! ### environments -/

theorem Env.get_cons_same (σ : Env) (n : Nat) (v : Node) : Env.get ((n, v) :: σ) n = some v := by
  simp [Env.get, List.find?]

theorem Env.get_cons_ne (σ : Env) (n m : Nat) (v : Node) (h : m ≠ n) : Env.get ((m, v) :: σ) n = Env.get σ n := by
  have : (m == n) = false := by simpa using h
  simp [Env.get, List.find?, this]

theorem Env.get_append_of_notin (Δ σ : Env) (n : Nat) (h : ∀ p ∈ Δ, p.1 ≠ n) : Env.get (Δ ++ σ) n = Env.get σ n := by
  induction Δ with
  | nil => rfl
  | cons p Δ ih =>
    obtain ⟨m, v⟩ := p
    rw [List.cons_append, Env.get_cons_ne _ _ _ _ (h (m, v) (by simp))]
    exact ih (fun q hq => h q (by simp [hq]))

/-! ### `srcOk` through the children -/

theorem srcOk_eq (n : Node) : srcOk n = (srcNode n && srcOkL n.kids) := by
  unfold srcOk srcOkL
  rw [Node.all_eq]
  rfl

theorem srcOk_kids {n : Node} (h : srcOk n = true) : ∀ k ∈ n.kids, srcOk k = true := by
  rw [srcOk_eq, Bool.and_eq_true] at h
  intro k hk
  exact List.all_eq_true.mp h.2 k hk

theorem srcOk_self {n : Node} (h : srcOk n = true) : srcNode n = true := by
  rw [srcOk_eq, Bool.and_eq_true] at h
  exact h.1

/-! ### `erase` is the identity on source trees -/

theorem eraseL_id (l : List Node) (h : ∀ k ∈ l, ∀ σ, erase σ k = (k, σ)) : ∀ σ, eraseL σ l = (l, σ) := by
  induction l with
  | nil => intro σ; rfl
  | cons x xs ih =>
    intro σ
    simp only [eraseL]
    rw [h x (by simp) σ]
    simp only
    rw [ih (fun k hk => h k (by simp [hk])) σ]

theorem headIsTempAssign_src (es : List Node) (h : ∀ k ∈ es, srcOk k = true) : headIsTempAssign es = false := by
  cases es with
  | nil => rfl
  | cons e es =>
    have he := srcOk_kids (h e (by simp))
    have h0 := h e (by simp)
    simp only [headIsTempAssign]
    unfold isTempAssign
    split
    · rename_i n sp r sp'
      have := srcOk_self (he (.ident (.temp n) sp) (by simp [kids]))
      simp [srcNode] at this
    · rfl

end IastModel

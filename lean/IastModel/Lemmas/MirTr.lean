import IastModel.Lemmas.MirOp
namespace IastModel
open Node

/-! ### the specification's vocabulary, related to the model's -/

theorem litSumSpec_eq : ∀ e : Node, isNonLiteralSum.litSumSpec e = isLiteralSum e := by
  apply Node.ind
  intro e ih
  cases e with
  | bin op l r sp =>
    by_cases hop : op = "+"
    · subst hop
      simp only [isNonLiteralSum.litSumSpec, isLiteralSum, beq_self_eq_true, Bool.true_and]
      rw [ih l (by simp [kids]), ih r (by simp [kids])]
    · have : (op == "+") = false := by simpa using hop
      simp only [isLiteralSum, this, Bool.false_and]
      unfold isNonLiteralSum.litSumSpec
      split
      · rename_i h; cases h
      · rename_i h; cases h; exact absurd rfl hop
      · rfl
  | lit k v r sp => simp [isNonLiteralSum.litSumSpec, isLiteralSum]
  | _ => simp [isNonLiteralSum.litSumSpec, isLiteralSum]

theorem isNonLiteralSum_eq (e : Node) : isNonLiteralSum e = nlSum e := by
  simp [isNonLiteralSum, nlSum, litSumSpec_eq]

def sumArg (a : Node) : Bool := isNonLiteralSum (argOf a)

/-- the pushed list mirrors the expected list, or the expected list has a non-literal sum in it -/
def Mir (pushes exp : List Node) : Prop := argsEq pushes exp = true ∨ exp.any sumArg = true

theorem eqNSL_append {a b c d : List Node} (h1 : eqNSL a b = true) (h2 : eqNSL c d = true) : eqNSL (a ++ c) (b ++ d) = true := by
  induction a generalizing b with
  | nil => cases b with
    | nil => simpa using h2
    | cons y ys => simp [eqNSL] at h1
  | cons x xs ih =>
    cases b with
    | nil => simp [eqNSL] at h1
    | cons y ys =>
      simp only [eqNSL, Bool.and_eq_true] at h1
      simp only [List.cons_append, eqNSL, Bool.and_eq_true]
      exact ⟨h1.1, ih h1.2⟩

theorem Mir.nil : Mir [] [] := Or.inl (by simp [argsEq, eqNSL])

theorem Mir.append {a b c d : List Node} (h1 : Mir a b) (h2 : Mir c d) : Mir (a ++ c) (b ++ d) := by
  rcases h1 with h1 | h1
  · rcases h2 with h2 | h2
    · exact Or.inl (eqNSL_append h1 h2)
    · exact Or.inr (by simp [List.any_append, h2])
  · exact Or.inr (by simp [List.any_append, h1])

theorem Mir.refl (l : List Node) : Mir l l := Or.inl (eqNSL_refl l)

theorem eqNS_exprOrSpread (e : Node) (s : Option Span) : eqNS (exprOrSpread e (kindOf s)) (.arg s e) = true := by
  cases s <;> simp [kindOf, exprOrSpread, eqNS, eqNS_refl]

theorem Mir.pushOf (e : Node) (s : Option Span) : Mir (pushOf e (kindOf s)) [.arg s e] := by
  unfold IastModel.pushOf
  by_cases h : nlSum e = true
  · right; simp [sumArg, argOf, isNonLiteralSum_eq, h]
  · left; simp [h, argsEq, eqNSL, eqNS_exprOrSpread]

theorem Mir.flatten {α} (f g : α → List Node) (xs : List α) (h : ∀ x ∈ xs, Mir (f x) (g x)) :
    Mir (xs.map f).flatten (xs.map g).flatten := by
  induction xs with
  | nil => exact Mir.nil
  | cons x xs ih =>
    simp only [List.map_cons, List.flatten_cons]
    exact Mir.append (h x (by simp)) (ih (fun y hy => h y (by simp [hy])))

/-- a hook site mirrors its operation, or the operation has a non-literal sum among its operands (the
    omission recorded as a known finding) -/
def MirOK (cfg : Config) (h : Node) : Prop :=
  argsMirrorSite cfg h = none ∨
    ∃ w, (w = "plus" ∨ w = "tpl" ∨ w = "call") ∧ argsMirrorSite cfg h = some (sumClass cfg w)

theorem argsMirrorSite_ddCall (cfg : Config) (first : Node) (args : List Node) (name : String) (sp : Span) :
    argsMirrorSite cfg (ddCall first args name sp) = argsMirrorFirst cfg name first args := by
  simp [argsMirrorSite, ddCall, ddCallee]

/-! ### `+` -/

theorem mirrorPlus_of_Mir (cfg : Config) (l r : Node) (rest : List Node) (h : Mir rest [.arg none l, .arg none r]) :
    mirrorPlus cfg cfg.plusName l r rest = none ∨ mirrorPlus cfg cfg.plusName l r rest = some (sumClass cfg "plus") := by
  unfold mirrorPlus
  simp only [bne_self_eq_false, Bool.false_eq_true, if_false]
  rcases h with h | h
  · left; simp [h]
  · by_cases he : argsEq rest [.arg none l, .arg none r] = true
    · left; simp [he]
    · right
      simp only [he, Bool.false_eq_true, if_false]
      have : (isNonLiteralSum l || isNonLiteralSum r) = true := by
        simpa [sumArg, argOf] using h
      simp [this]

/-- **every `+` hook the rewriter builds mirrors its operands** -/
theorem toDdBinary_mirror (cfg : Config) (l r : Node) (sp : Span) (s : St) :
    ∀ e', (toDdBinary cfg (.bin "+" l r sp) s).1 = some e' →
      ∃ first args asg, e' = ddParen first args asg cfg.plusName sp ∧ MirOK cfg (ddCall first args cfg.plusName sp) := by
  intro e' he
  simp only [toDdBinary, run_bind] at he
  have p1 := replaceExpr_push l (getIdentMode r) [] [] sp .expr false s
  generalize replaceExpr l (getIdentMode r) [] [] sp .expr false s = R1 at he p1
  obtain ⟨⟨l', asg1, args1⟩, s1⟩ := R1
  simp only at he p1
  have p2 := replaceExpr_push r (getIdentMode l') asg1 args1 sp .expr false s1
  generalize replaceExpr r (getIdentMode l') asg1 args1 sp .expr false s1 = R2 at he p2
  obtain ⟨⟨r', asg2, args2⟩, s2⟩ := R2
  simp only at he p2
  split at he
  · simp only [run_pure, Option.some.injEq] at he
    refine ⟨.bin "+" l' r' sp, args2, asg2, he.symm, ?_⟩
    have hm : Mir args2 [.arg none l', .arg none r'] := by
      rw [p2, p1]
      have a := Mir.pushOf l' none
      have b := Mir.pushOf r' none
      have := Mir.append a b
      simpa [pushOfX, kindOf] using this
    rcases mirrorPlus_of_Mir cfg l' r' args2 hm with h | h
    · left; rw [argsMirrorSite_ddCall]; exact h
    · right; exact ⟨"plus", Or.inl rfl, by rw [argsMirrorSite_ddCall]; exact h⟩
  · simp [run_pure] at he

/-! ### `+=` -/

theorem toDdAssign_mirror (cfg : Config) (op : String) (left r : Node) (sp : Span) (s : St) :
    ∀ e', (toDdAssign cfg (.assign op left r sp) s).1 = some e' →
      ∃ target first args asg, e' = .assign "=" target (ddParen first args asg cfg.plusName sp) sp ∧
        MirOK cfg (ddCall first args cfg.plusName sp) := by
  intro e' he
  simp only [toDdAssign] at he
  by_cases hp : isPatternTarget left = true
  · simp [hp, run_pure] at he
  · simp only [hp, Bool.false_eq_true, if_false, run_bind] at he
    generalize splitMemberTarget left sp s = R1 at he
    obtain ⟨⟨target, operand⟩, s1⟩ := R1
    simp only at he
    have h2 := toDdBinary_mirror cfg operand (assignRhs r) sp s1
    generalize toDdBinary cfg (.bin "+" operand (assignRhs r) sp) s1 = R2 at he h2
    obtain ⟨res, s2⟩ := R2
    cases res with
    | none => simp [run_pure] at he
    | some e1 =>
      simp only [run_pure, Option.some.injEq] at he
      obtain ⟨first, args, asg, h1, hm⟩ := h2 e1 rfl
      exact ⟨target, first, args, asg, by rw [← he, h1], hm⟩

/-! ### templates -/

theorem replaceDefault_notArg (e : Node) (asg args : List Node) (sp : Span) (k : IdentKind) (s : St) :
    isArgNode (replaceDefault e asg args sp k s).1.1 = false := by
  rcases (replaceDefault_push e asg args sp k s).2 with ⟨h2, hl⟩ | ⟨n, h2⟩
  · rw [h2]; cases e <;> simp_all [isArgNode, Node.isLit]
  · rw [h2]; rfl

theorem replaceExprNoExpand_notArg (e : Node) (mode : IdentMode) (asg args : List Node) (sp : Span) (k : IdentKind) (s : St) :
    isArgNode (replaceExprNoExpand e mode asg args sp k s).1.1 = false := by
  cases e with
  | lit kk v r lsp => simp [replaceExprNoExpand, run_pure, isArgNode]
  | ident nm isp =>
    cases mode with
    | replace => simp only [replaceExprNoExpand]; exact replaceDefault_notArg ..
    | keep => simp [replaceExprNoExpand, run_pure, isArgNode]
  | bin op l r bsp =>
    simp only [replaceExprNoExpand]
    split
    · exact replaceDefault_notArg ..
    · split <;> simp [run_pure, isArgNode]
  | _ => simp only [replaceExprNoExpand]; exact replaceDefault_notArg ..

theorem replaceExpr_false (e : Node) (mode : IdentMode) (asg args : List Node) (sp : Span) (k : IdentKind) :
    replaceExpr e mode asg args sp k false = replaceExprNoExpand e mode asg args sp k := by
  cases e <;> rfl

theorem replaceTplExprs_notArg : ∀ (xs asg args : List Node) (s : St),
    ∀ e ∈ (replaceTplExprs xs asg args s).1.1, isArgNode e = false := by
  intro xs
  induction xs with
  | nil => intro asg args s e he; simp [replaceTplExprs, run_pure] at he
  | cons x xs ih =>
    intro asg args s e he
    simp only [replaceTplExprs, run_bind, run_pure, List.mem_cons] at he
    rcases he with he | he
    · rw [he, replaceExpr_false]
      exact replaceExprNoExpand_notArg ..
    · exact ih _ _ _ e he

theorem mirrorOf_notArg {e : Node} (h : isArgNode e = false) : mirrorOf e = .arg none e := by
  cases e <;> simp_all [mirrorOf, isArgNode]

theorem map_singleton_flatten {α β} (f : α → β) (l : List α) : l.map f = (l.map fun e => [f e]).flatten := by
  induction l with
  | nil => rfl
  | cons x xs ih => simp [← ih]

/-- **every template hook the rewriter builds mirrors its substitutions** -/
theorem toDdTpl_mirror (cfg : Config) (es qs : List Node) (sp : Span) (s : St) :
    ∀ e', (toDdTpl cfg (.tpl es qs sp) s).1 = some e' →
      ∃ first args asg, e' = ddParen first args asg cfg.tplName sp ∧ MirOK cfg (ddCall first args cfg.tplName sp) := by
  intro e' he
  simp only [toDdTpl, run_bind, run_pure] at he
  have p1 := replaceTplExprs_push es [] [] s
  have na := replaceTplExprs_notArg es [] [] s
  generalize replaceTplExprs es [] [] s = R1 at he p1 na
  obtain ⟨⟨es', asg, args⟩, s1⟩ := R1
  simp only [Option.some.injEq] at he p1 na
  refine ⟨.tpl es' qs sp, args, asg, he.symm, ?_⟩
  unfold MirOK
  rw [argsMirrorSite_ddCall]
  simp only [argsMirrorFirst, mirrorTpl, bne_self_eq_false, Bool.false_eq_true, if_false]
  have hm : Mir args (es'.map mirrorOf) := by
    rw [p1]
    simp only [List.nil_append]
    rw [map_singleton_flatten mirrorOf es']
    apply Mir.flatten
    intro x hx
    rw [mirrorOf_notArg (na x hx)]
    exact Mir.pushOf x none
  by_cases heq : argsEq args (es'.map mirrorOf) = true
  · left; simp [heq]
  · right
    refine ⟨"tpl", Or.inr (Or.inl rfl), ?_⟩
    simp only [heq, Bool.false_eq_true, if_false]
    rcases hm with hm | hm
    · exact absurd hm heq
    · have : es'.any isNonLiteralSum = true := by
        rw [List.any_eq_true] at hm ⊢
        obtain ⟨a, ha, hs⟩ := hm
        rw [List.mem_map] at ha
        obtain ⟨x, hx, rfl⟩ := ha
        refine ⟨x, hx, ?_⟩
        rw [mirrorOf_notArg (na x hx)] at hs
        simpa [sumArg, argOf] using hs
      simp [this]

end IastModel

import IastModel.Lemmas.OpSpec
namespace IastModel
open Node

/-- what a transform guarantees about its replacement: good, exactly one more hook call site than the
    expression it replaces, status / telemetry untouched -/
def TrSpec (ok : String → Bool) (u : Bool) (n0 : Nat) (R : Option Node × St) (s : St) : Prop :=
  TS R.2 s ∧ ∀ e', R.1 = some e' → goodW ok u e' = true ∧ ns e' = n0 + 1

theorem toDdBinary_spec (ok u) (cfg : Config) (op : String) (l r : Node) (sp : Span) (s : St)
    (hl : goodW ok u l = true) (hr : goodW ok u r = true) (hok : ok cfg.plusName = true) :
    TrSpec ok u (ns l + ns r) (toDdBinary cfg (.bin op l r sp) s) s := by
  simp only [toDdBinary, run_bind]
  have h1 := replaceExpr_spec ok u l (getIdentMode r) [] [] sp .expr false s hl rfl rfl
  generalize replaceExpr l (getIdentMode r) [] [] sp .expr false s = R1 at h1
  obtain ⟨⟨l', asg1, args1⟩, s1⟩ := R1
  simp only at h1
  obtain ⟨g1, g2, g3, c1, c2, t1⟩ := h1
  have h2 := replaceExpr_spec ok u r (getIdentMode l') asg1 args1 sp .expr false s1 hr g2 g3
  generalize replaceExpr r (getIdentMode l') asg1 args1 sp .expr false s1 = R2 at h2
  obtain ⟨⟨r', asg2, args2⟩, s2⟩ := R2
  simp only at h2
  obtain ⟨k1, k2, k3, d1, d2, t2⟩ := h2
  simp only [nsL_nil, Nat.add_zero] at c1 c2
  by_cases hm : mustReplaceBinary args2 = true
  · simp only [hm, if_true, run_pure]
    refine ⟨TS.trans t2 t1, ?_⟩
    intro e' he
    simp only [Option.some.injEq] at he
    subst he
    refine ⟨by simp [good_ddParen, hok, g1, k1, k2, k3], ?_⟩
    rw [ns_ddParen]; simp only [ns_bin]; omega
  · simp only [hm, Bool.false_eq_true, if_false, run_pure]
    exact ⟨TS.trans t2 t1, by intro e' he; cases he⟩

end IastModel

namespace IastModel
open Node

theorem getTemporalIdent_cases (operand : Node) (asg : List Node) (sp : Span) (k : IdentKind) (s : St) :
    (operand.isLit = true ∧ getTemporalIdent operand asg sp k s = ((none, asg), s)) ∨
    (operand.isLit = false ∧ ∃ n s', getTemporalIdent operand asg sp k s =
        ((some n, asg ++ [.assign "=" (tempIdent n) (assignRight operand k) sp]), s') ∧ TS s' s) := by
  unfold getTemporalIdent
  by_cases hl : operand.isLit = true
  · left; simp [hl, run_pure]
  · right
    simp only [Bool.not_eq_true] at hl
    refine ⟨hl, ?_⟩
    simp only [hl, Bool.false_eq_true, if_false, run_bind, run_pure]
    exact ⟨_, _, rfl, TS.trans (registerIdent_TS _ _) (nextIdent_TS s)⟩

theorem getIdentUsed_cases (operand : Node) (asg args : List Node) (sp : Span) (k : IdentKind) (s : St) :
    (operand.isLit = true ∧ getIdentUsed operand asg args sp k s = ((none, asg, args ++ [exprOrSpread operand k]), s)) ∨
    (operand.isLit = false ∧ ∃ n s', getIdentUsed operand asg args sp k s =
        ((some n, asg ++ [.assign "=" (tempIdent n) (assignRight operand k) sp], args ++ [exprOrSpread (tempIdent n) k]), s') ∧ TS s' s) := by
  unfold getIdentUsed
  rcases getTemporalIdent_cases operand asg sp k s with ⟨hl, h⟩ | ⟨hl, n, s', h, ht⟩
  · left; simp [hl, run_bind, run_pure, h]
  · right; exact ⟨hl, n, s', by simp [run_bind, run_pure, h], ht⟩

/-- what a call transform guarantees about its replacement -/
def TrSpec2 (ok : String → Bool) (u : Bool) (n0 : Nat) (R : Option (Node × String) × St) (s : St) : Prop :=
  TS R.2 s ∧ ∀ e' tag, R.1 = some (e', tag) → goodW ok u e' = true ∧ ns e' = n0 + 1

theorem replaceTplExprs_spec (ok u) : ∀ (xs asg args : List Node) (s : St),
    OpSpecL ok u xs asg args (replaceTplExprs xs asg args s) s := by
  intro xs
  induction xs with
  | nil => intro asg args s _ ha hg; simp [replaceTplExprs, run_pure, ha, hg, TS.refl]
  | cons x xs ih =>
    intro asg args s hx ha hg
    simp only [goodL_cons, Bool.and_eq_true] at hx
    simp only [replaceTplExprs, run_bind, run_pure]
    generalize hx0 : tplOperand x = x0
    have hgx0 : goodW ok u x0 = true := by
      rw [← hx0]; unfold tplOperand; split <;> simp [hx.1]
    have hnx0 : ns x0 = ns x := by
      rw [← hx0]; unfold tplOperand; split <;> simp
    have h1 := replaceExpr_spec ok u x0 .replace asg args x.span .expr false s hgx0 ha hg
    generalize replaceExpr x0 .replace asg args x.span .expr false s = R1 at h1
    obtain ⟨⟨x', asg1, args1⟩, s1⟩ := R1
    simp only at h1
    obtain ⟨g1, g2, g3, c1, c2, t1⟩ := h1
    have h2 := ih asg1 args1 s1 hx.2 g2 g3
    generalize replaceTplExprs xs asg1 args1 s1 = R2 at h2
    obtain ⟨⟨xs', asg2, args2⟩, s2⟩ := R2
    simp only at h2
    obtain ⟨k1, k2, k3, d1, d2, t2⟩ := h2
    refine ⟨by simp [g1, k1], k2, k3, ?_, by rw [d2, c2], TS.trans t2 t1⟩
    simp only [nsL_cons]
    omega

theorem toDdTpl_spec (ok u) (cfg : Config) (exprs quasis : List Node) (sp : Span) (s : St)
    (he : goodL ok u exprs = true) (hq : goodL ok u quasis = true) (hok : ok cfg.tplName = true) :
    TrSpec ok u (nsL exprs + nsL quasis) (toDdTpl cfg (.tpl exprs quasis sp) s) s := by
  simp only [toDdTpl, run_bind, run_pure]
  have h1 := replaceTplExprs_spec ok u exprs [] [] s he rfl rfl
  generalize replaceTplExprs exprs [] [] s = R1 at h1
  obtain ⟨⟨exprs', asg, args⟩, s1⟩ := R1
  simp only at h1
  obtain ⟨g1, g2, g3, c1, c2, t1⟩ := h1
  simp only [nsL_nil, Nat.add_zero] at c1 c2
  refine ⟨t1, ?_⟩
  intro e' he'
  simp only [Option.some.injEq] at he'
  subst he'
  refine ⟨by simp [good_ddParen, hok, g1, g2, g3, hq], ?_⟩
  rw [ns_ddParen]; simp only [ns_tpl]; omega

end IastModel

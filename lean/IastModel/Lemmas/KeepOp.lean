import IastModel.Lemmas.KeepCount
namespace IastModel
open Node

/-- conservation for the operand handler: every effect node that leaves the operand position arrives in
    the assignments; the argument list only receives copies without effect nodes -/
def OpK (B : Node) (e : Node) (asg args : List Node) (R : (Node × List Node × List Node) × St) : Prop :=
  cb B R.1.1 + cbL B R.1.2.1 = cb B e + cbL B asg ∧ cbL B args ≤ cbL B R.1.2.2 ∧ cbL B R.1.2.2 ≤ cbL B args + cb B e

def OpKK (B : Node) (xs : List Node) (asg args : List Node) (R : (List Node × List Node × List Node) × St) : Prop :=
  cbL B R.1.1 + cbL B R.1.2.1 = cbL B xs + cbL B asg ∧ cbL B args ≤ cbL B R.1.2.2 ∧ cbL B R.1.2.2 ≤ cbL B args + cbL B xs

theorem replaceDefault_K (B : Node) (e : Node) (asg args : List Node) (sp : Span) (k : IdentKind) (s : St) :
    OpK B e asg args (replaceDefault e asg args sp k s) := by
  unfold replaceDefault
  simp only [run_bind, run_pure]
  rcases getIdentUsed_cases e asg args sp k s with ⟨hl, h⟩ | ⟨hl, n, s', h, _⟩
  · rw [h]; simp [OpK, cb_exprOrSpread]
  · rw [h]; simp [OpK, cb_exprOrSpread, tempIdent, cb_assignRight]; omega

theorem replaceExprNoExpand_K (B : Node) (e : Node) (mode : IdentMode) (asg args : List Node) (sp : Span) (k : IdentKind) (s : St) :
    OpK B e asg args (replaceExprNoExpand e mode asg args sp k s) := by
  cases e with
  | lit kk v' r lsp => simp [replaceExprNoExpand, run_pure, OpK, cb_exprOrSpread]
  | ident nm isp =>
    cases mode with
    | replace => simp only [replaceExprNoExpand]; exact replaceDefault_K B _ _ _ _ _ _
    | keep => simp [replaceExprNoExpand, run_pure, OpK, cb_exprOrSpread]
  | bin op l r bsp =>
    simp only [replaceExprNoExpand]
    by_cases hop : (op != "+") = true
    · simp only [hop, if_true]; exact replaceDefault_K B _ _ _ _ _ _
    · simp only [hop, Bool.false_eq_true, if_false]
      by_cases hls : isLiteralSum (.bin op l r bsp) = true
      · simp only [hls, if_true, run_pure]
        refine ⟨rfl, ?_, ?_⟩ <;> simp only [cbL_append, cbL_cons, cbL_nil, cb_exprOrSpread] <;> omega
      · simp [hls, run_pure, OpK]
  | _ => simp only [replaceExprNoExpand]; exact replaceDefault_K B _ _ _ _ _ _

theorem replaceArgNoExpand_K (B : Node) (a : Node) (mode : IdentMode) (asg args : List Node) (sp : Span) (s : St) :
    OpK B a asg args (replaceArgNoExpand a mode asg args sp s) := by
  cases a with
  | arg spread e =>
    simp only [replaceArgNoExpand, run_bind, run_pure]
    have h := replaceExprNoExpand_K B e mode asg args sp (if spread.isSome = true then IdentKind.spread else IdentKind.expr) s
    simpa [OpK] using h
  | _ => simp [replaceArgNoExpand, run_pure, OpK]

theorem replaceElem_K (B : Node) (a : Node) (mode : IdentMode) (asg args : List Node) (sp : Span) (s : St) :
    OpK B a asg args (replaceElem a mode asg args sp s) := by
  cases a with
  | arg spread e => exact replaceArgNoExpand_K B _ mode asg args sp s
  | _ =>
    have hv : cb B voidZero = 0 := by simp [voidZero]
    simp [replaceElem, run_pure, OpK, hv]

theorem opKK_cons (B : Node) (g : Node → List Node → List Node → M (Node × List Node × List Node))
    (gs : List Node → List Node → List Node → M (List Node × List Node × List Node))
    (x : Node) (xs asg args : List Node) (s : St)
    (h1 : OpK B x asg args (g x asg args s))
    (h2 : ∀ asg1 args1 s1, OpKK B xs asg1 args1 (gs xs asg1 args1 s1)) :
    OpKK B (x :: xs) asg args
      (let R1 := g x asg args s
       let R2 := gs xs R1.1.2.1 R1.1.2.2 R1.2
       ((R1.1.1 :: R2.1.1, R2.1.2.1, R2.1.2.2), R2.2)) := by
  obtain ⟨a1, a2⟩ := h1
  obtain ⟨b1, b2⟩ := h2 (g x asg args s).1.2.1 (g x asg args s).1.2.2 (g x asg args s).2
  simp only [OpKK, cbL_cons]
  exact ⟨by omega, by omega⟩

theorem replaceElems_K (B : Node) (mode : IdentMode) (sp : Span) : ∀ (xs asg args : List Node) (s : St),
    OpKK B xs asg args (replaceElems mode sp xs asg args s) := by
  intro xs
  induction xs with
  | nil => intro asg args s; simp [replaceElems, run_pure, OpKK]
  | cons x xs ih =>
    intro asg args s
    have := opKK_cons B (fun a b c => replaceElem a mode b c sp) (fun a b c => replaceElems mode sp a b c) x xs asg args s
      (replaceElem_K B x mode asg args sp s) (fun a b c => ih a b c)
    simpa only [replaceElems, run_bind, run_pure] using this

theorem replaceExpr_K (B : Node) (e : Node) (mode : IdentMode) (asg args : List Node) (sp : Span) (k : IdentKind)
    (expand : Bool) (s : St) : OpK B e asg args (replaceExpr e mode asg args sp k expand s) := by
  unfold replaceExpr
  split
  · rename_i elems asp
    simp only [run_bind, run_pure]
    have h := replaceElems_K B mode sp elems asg args s
    generalize replaceElems mode sp elems asg args s = R at h
    obtain ⟨⟨xs', asg2, args2⟩, s2⟩ := R
    simpa [OpK, OpKK] using h
  · exact replaceExprNoExpand_K B e mode asg args sp k s

theorem replaceArg_K (B : Node) (a : Node) (mode : IdentMode) (asg args : List Node) (sp : Span) (expand : Bool) (s : St) :
    OpK B a asg args (replaceArg a mode asg args sp expand s) := by
  cases a with
  | arg spread e =>
    simp only [replaceArg, run_bind, run_pure]
    have h := replaceExpr_K B e mode asg args sp (if spread.isSome = true then IdentKind.spread else IdentKind.expr) expand s
    simpa [OpK] using h
  | _ => simp [replaceArg, run_pure, OpK]

theorem replaceArgs_K (B : Node) (mode : IdentMode) (sp : Span) (expand : Bool) : ∀ (xs asg args : List Node) (s : St),
    OpKK B xs asg args (replaceArgs mode sp expand xs asg args s) := by
  intro xs
  induction xs with
  | nil => intro asg args s; simp [replaceArgs, run_pure, OpKK]
  | cons x xs ih =>
    intro asg args s
    have := opKK_cons B (fun a b c => replaceArg a mode b c sp expand) (fun a b c => replaceArgs mode sp expand a b c) x xs asg args s
      (replaceArg_K B x mode asg args sp expand s) (fun a b c => ih a b c)
    simpa only [replaceArgs, run_bind, run_pure] using this

theorem replaceTplExprs_K B : ∀ (xs asg args : List Node) (s : St),
    OpKK B xs asg args (replaceTplExprs xs asg args s) := by
  intro xs
  induction xs with
  | nil => intro asg args s; simp [replaceTplExprs, run_pure, OpKK]
  | cons x xs ih =>
    intro asg args s
    have hx : OpK B x asg args (replaceExpr (tplOperand x) .replace asg args x.span .expr false s) := by
      have h := replaceExpr_K B (tplOperand x) .replace asg args x.span .expr false s
      have : cb B (tplOperand x) = cb B x := by unfold tplOperand; split <;> simp
      simpa [OpK, this] using h
    have := opKK_cons B (fun a b c => replaceExpr (tplOperand a) .replace b c a.span .expr false) (fun a b c => replaceTplExprs a b c) x xs asg args s
      hx (fun a b c => ih a b c)
    simpa only [replaceTplExprs, run_bind, run_pure] using this

end IastModel

import IastModel.Lemmas.CovVisit
namespace IastModel
open Node

theorem BR.hookSiteOf {a b : Node} (h : BR a b) : hookSiteOf b = hookSiteOf a := by
  cases a with
  | call c as sp =>
    obtain ⟨c', as', rfl, hc, _⟩ := h.call_inv
    cases c with
    | member o p msp =>
      obtain ⟨o', p', rfl, ho, hp⟩ := hc.member_inv
      cases p with
      | pname pn psp => have := BR_noBlk _ (by simp) _ hp; subst this; rfl
      | block ss bsp => cases hp with
        | blk => rfl
        | node _ ks' hb _ _ => simp [isBlockNode] at hb
      | _ => obtain ⟨ks, rfl, _⟩ := hp.inv rfl; rfl
    | block ss bsp => cases hc with
      | blk => rfl
      | node _ ks' hb _ _ => simp [isBlockNode] at hb
    | _ => obtain ⟨ks, rfl, _⟩ := hc.inv rfl; rfl
  | block ss sp => cases h with
    | blk => rfl
    | node _ ks' hb _ _ => simp [isBlockNode] at hb
  | _ => obtain ⟨ks', rfl, _⟩ := h.inv rfl; rfl

theorem BR.isBadHook_qAt {d : String} {sp0 : Span} {a b : Node} (h : BR a b) :
    isBadHook (qAt d sp0) b = isBadHook (qAt d sp0) a := by
  simp only [isBadHook, isHook, h.hookName, qAt, h.hookSiteOf]

theorem mapBlock_mono (q : Node → Bool) (ok) (g : Node → M Node)
    (hb : ∀ k s, StOk s → goodW ok true k = true → StOk (g k s).2 → cq q k ≤ cq q (g k s).1)
    (hc : ∀ k s, s.status = .cancelled → (g k s).2.status = .cancelled) :
    ∀ (ks : List Node) (s : St), StOk s → goodL ok true ks = true → StOk (mapM' g ks s).2 →
      cqL q ks ≤ cqL q (mapM' g ks s).1 := by
  intro ks
  induction ks with
  | nil => intro s _ _ _; exact Nat.le_refl _
  | cons x xs ih =>
    intro s hs hg hfin
    simp only [goodL_cons, Bool.and_eq_true] at hg
    simp only [mapM', run_bind, run_pure] at hfin ⊢
    have h1 := hb x s hs hg.1
    generalize hR1 : g x s = R1 at h1 hfin
    obtain ⟨x', s1⟩ := R1
    simp only at hfin h1 ⊢
    have hs1 : StOk s1 := by
      intro hcn
      exact hfin (mapM'_canc g hc xs s1 hcn)
    have e1 := h1 hs1
    have e2 := ih s1 hs1 hg.2 hfin
    simp only [cqL_cons]
    omega

/-- the block visitor never loses a hook call for the site `(d, sp0)` -/
theorem blockVisit_mono (d : String) (sp0 : Span) (ok) (cfg : Config) (hcfg : CfgOk ok cfg) (opFuel : Nat) :
    ∀ (f : Nat) (n : Node) (s : St), StOk s → goodW ok true n = true → StOk (blockVisit cfg opFuel f n s).2 →
      cq (qAt d sp0) n ≤ cq (qAt d sp0) (blockVisit cfg opFuel f n s).1 := by
  intro f
  induction f with
  | zero => intro n s _ _ _; simp only [blockVisit, run_bind, run_pure]; exact Nat.le_refl _
  | succ f ih =>
    intro n s hs hg hfin
    by_cases hb : isBlockNode n = true
    · cases n with
      | block ss sp =>
        rw [good_block] at hg
        simp only [if_true, Bool.and_eq_true, beq_iff_eq] at hg
        have : cq (qAt d sp0) (.block ss sp) = 0 := cq_of_ns0 _ _ (by simp [hg.1])
        omega
      | _ => simp [isBlockNode] at hb
    · simp only [Bool.not_eq_true] at hb
      have hbr := blockVisit_BR cfg opFuel (f + 1) n s
      have hlist := mapBlock_mono (qAt d sp0) ok (blockVisit cfg opFuel f) (fun k s hs hg => ih k s hs hg)
        (fun k s h => blockVisit_canc cfg opFuel f k s h)
      have hspec := mapBlock_spec ok (blockVisit cfg opFuel f)
        (fun k s hs hg => blockVisit_spec ok cfg hcfg opFuel f k s hs hg)
        (fun k s h => blockVisit_canc cfg opFuel f k s h)
      rw [blockVisit_generic cfg opFuel f n hb] at hfin hbr ⊢
      rw [cq_eq' _ n, cq_eq' _ (mapKidsM mapM' (blockVisit cfg opFuel f) n s).1, hbr.isBadHook_qAt]
      suffices hk : cqL (qAt d sp0) n.kids ≤ cqL (qAt d sp0) (mapKidsM mapM' (blockVisit cfg opFuel f) n s).1.kids by omega
      have hg' := hg
      rw [goodW_eq] at hg'
      simp only [hb, Bool.and_false, Bool.false_eq_true, if_false] at hg'
      cases hh : hookName? n with
      | none =>
        rw [hh] at hg'
        simp only [Bool.and_eq_true, Bool.not_eq_true'] at hg'
        simp only [mapKidsM, run_bind, run_pure] at hfin ⊢
        have e3 := hlist n.kids s hs hg'.2 hfin
        obtain ⟨g3, l3, _⟩ := hspec n.kids s hs hg'.2 hfin
        rw [Node.kids_withKids n _ l3]
        exact e3
      | some nm =>
        obtain ⟨x, isp, psp, msp, args, sp, rfl, hx⟩ := hookName?_some hh
        rw [hh] at hg'
        simp only [kids, List.drop_succ_cons, List.drop_zero, Bool.and_eq_true] at hg'
        simp only [mapKidsM, kids, mapM', run_bind, run_pure] at hfin ⊢
        have hc := blockVisit_callee cfg opFuel f (.user x) isp nm psp msp s
        generalize blockVisit cfg opFuel f (.member (.ident (.user x) isp) (.pname nm psp) msp) s = RC at hc hfin
        obtain ⟨c', s1⟩ := RC
        obtain ⟨hc1, t1⟩ := hc
        simp only at hc1 t1 hfin ⊢
        subst hc1
        have e1 : Eff s s1 0 := Eff.of_TS t1
        have e3 := hlist args s1 (e1.stOk hs) hg'.2 hfin
        simp only [withKids, List.getD_cons_zero, List.drop_succ_cons, List.drop_zero, kids, cqL_cons]
        omega

theorem letDecl_cq (q : Node → Bool) (idents : List Nat) (sp : Span) : cq q (letDecl idents sp) = 0 := by
  have h1 : ∀ l : List Nat, cqL q (l.map fun n => Node.other "VariableDeclarator" sp ["id", "init", "definite"]
      [tempIdent n, .atom "null", .atom "false"]) = 0 := by
    intro l; induction l with
    | nil => rfl
    | cons x xs ih =>
      simp only [tempIdent] at ih ⊢
      simp [ih]
  simp [letDecl, h1]

theorem insertVar_cq (q : Node → Bool) (idents : List Nat) (ks : List Node) (sp : Span) :
    ∃ ks2, insertVariableDeclaration idents (.block ks sp) = .block ks2 sp ∧ cqL q ks2 = cqL q ks := by
  simp only [insertVariableDeclaration]
  by_cases he : idents.isEmpty = true
  · exact ⟨ks, by simp only [he, if_true], rfl⟩
  · refine ⟨insertAt ks (variableInsertionIndex ks) [letDecl idents sp], by simp only [he, Bool.false_eq_true, if_false], ?_⟩
    have : cqL q (ks.take (variableInsertionIndex ks)) + cqL q (ks.drop (variableInsertionIndex ks)) = cqL q ks := by
      conv => rhs; rw [← List.take_append_drop (variableInsertionIndex ks) ks]
      rw [cqL_append]
    simp only [insertAt, cqL_append, cqL_cons, cqL_nil, letDecl_cq]
    omega

/-- **C04 for `+` and template literals, per block.**  Every block statement the block visitor enters — at
    any depth, in any state that is not cancelled — comes back, unless the run is cancelled or out of fuel,
    with at least one hook call of the expected name and span for every `+` / template occurrence the
    specification requires in the positions of its statements that the operation visitor reaches
    (`R`, `reqOwn_spec_bin`, `reqOwn_spec_tpl`). -/
theorem block_cover (ok) (cfg : Config) (hcfg : CfgOk ok cfg) (d : String) (sp0 : Span) (opFuel f : Nat)
    (ss : List Node) (sp : Span) (s : St) (hs : StOk s) (hg : goodW ok true (.block ss sp) = true)
    (hfin : StOk (blockVisit cfg opFuel (f + 1) (.block ss sp) s).2)
    (hfo : (blockVisit cfg opFuel (f + 1) (.block ss sp) s).2.fuelOut = false) :
    RL cfg d sp0 ss ≤ cq (qAt d sp0) (blockVisit cfg opFuel (f + 1) (.block ss sp) s).1 := by
  rw [good_block] at hg
  simp only [if_true, Bool.and_eq_true, beq_iff_eq] at hg
  rw [blockVisit_block cfg opFuel f ss sp s hs] at hfin hfo ⊢
  have hs0 : StOk (resetProvider s) := hs
  have h0 : ns (.block ss sp) = 0 := by simp [hg.1]
  have htg : targetsOk (.block ss sp) = true := (bad_zero_iff _).mp (by simp [hg.2])
  obtain ⟨ks', h1, hl, g, e, p⟩ := mapKids_spec' ok (visit cfg opFuel true)
    (fun k s h0 ht hs => visit_spec ok cfg hcfg opFuel true k s h0 ht hs) (.block ss sp) (resetProvider s) h0 htg hs0
  -- the statements, visited one after the other
  have hk : ∀ (ks : List Node) (s : St), nsL ks = 0 → (∀ k ∈ ks, targetsOk k = true) → StOk s →
      (mapM' (visit cfg opFuel true) ks s).2.fuelOut = false →
      RL cfg d sp0 ks ≤ cqL (qAt d sp0) (mapM' (visit cfg opFuel true) ks s).1 := by
    intro ks
    induction ks with
    | nil => intro s _ _ _ _; exact Nat.le_refl _
    | cons k ks ihk =>
      intro s hz htk hs hfo
      simp only [nsL_cons] at hz
      simp only [mapM', run_bind, run_pure] at hfo
      simp only [mapM', run_bind, run_pure, RL_cons, cqL_cons]
      have hsp := visit_spec ok cfg hcfg opFuel true k s (by omega) (htk k (by simp)) hs
      have hs1 := hsp.2.1.stOk hs
      have hrest := mapVisit_spec ok (visit cfg opFuel true) (fun k s h0 ht hs => visit_spec ok cfg hcfg opFuel true k s h0 ht hs)
        ks (visit cfg opFuel true k s).2 (by omega) (fun x hx => htk x (by simp [hx])) hs1
      have hfo1 : (visit cfg opFuel true k s).2.fuelOut = false := hrest.2.1.fo hfo
      have hk1 := (visit_cover cfg ok hcfg d sp0 opFuel true k s (by omega) (htk k (by simp)) hs hfo1).1
      have hk2 := ihk _ (by omega) (fun x hx => htk x (by simp [hx])) hs1 hfo
      omega
  have hK : mapKidsM mapM' (visit cfg opFuel true) (.block ss sp) (resetProvider s) =
      (.block (mapM' (visit cfg opFuel true) ss (resetProvider s)).1 sp, (mapM' (visit cfg opFuel true) ss (resetProvider s)).2) := by
    simp [mapKidsM, run_bind, run_pure, withKids, kids]
  have hk1 := hk ss (resetProvider s) hg.1 (targetsOk_kids htg) hs0
  rw [hK] at h1 e hfin hfo ⊢
  generalize mapM' (visit cfg opFuel true) ss (resetProvider s) = K at h1 e hk1 hfin hfo
  obtain ⟨ks1, s1⟩ := K
  simp only [withKids] at h1 e hk1 hfin hfo ⊢
  have hks : ks' = ks1 := by injection h1 with h; exact h.symm
  subst hks
  by_cases hd : variablesContainPossibleDuplicate s1.vars (tempPrefix cfg.localVarPrefix) = true
  · simp only [hd, if_true] at hfin
    exact absurd rfl hfin
  · simp only [hd, Bool.false_eq_true, if_false] at hfin hfo ⊢
    obtain ⟨ks2, hins, g2, n2⟩ := insertVar_spec ok s1.idents ks' sp g
    obtain ⟨ks2', hins', e2⟩ := insertVar_cq (qAt d sp0) s1.idents ks' sp
    have : ks2' = ks2 := by rw [hins] at hins'; injection hins' with h; exact h.symm
    subst this
    rw [hins] at hfin hfo ⊢
    simp only [mapKidsM, kids, run_bind, run_pure, withKids] at hfin hfo ⊢
    have t0 : TS (resetProvider s) s := ⟨rfl, rfl, id⟩
    have e01 : Eff s s1 (nsL ks') := ((Eff.of_TS t0).trans e).cast (by omega)
    have hs1 : StOk s1 := e01.stOk hs
    have hmono := mapBlock_mono (qAt d sp0) ok (blockVisit cfg opFuel f)
      (fun k s hs hg hf => blockVisit_mono d sp0 ok cfg hcfg opFuel f k s hs hg hf)
      (fun k s h => blockVisit_canc cfg opFuel f k s h) ks2' s1 hs1 g2 hfin
    have hspec := mapBlock_spec ok (blockVisit cfg opFuel f)
      (fun k s hs hg => blockVisit_spec ok cfg hcfg opFuel f k s hs hg)
      (fun k s h => blockVisit_canc cfg opFuel f k s h) ks2' s1 hs1 g2 hfin
    -- fuel: the nested traversal never clears the flag
    have hfo1 : s1.fuelOut = false := by
      obtain ⟨_, _, k, ek, _⟩ := hspec
      exact ek.fo hfo
    have := hk1 hfo1
    simp only [cq_block]
    omega

end IastModel

import IastModel.Lemmas.CovCall
namespace IastModel
open Node

theorem covM_ddParen (cfg : Config) (m : String) (e : Node) (args asg : List Node) (name : String) (sp : Span) :
    covM cfg m (ddParen e args asg name sp) = true := by
  unfold ddParen
  split <;> rfl

theorem visit_pname (cfg : Config) (f : Nat) (r : Bool) (p : String) (sp : Span) (s : St) :
    (visit cfg f r (.pname p sp) s).1 = .pname p sp := by
  cases f with
  | zero => simp [visit, run_bind, run_pure]
  | succ f => simp [visit, mapKidsM, kids, mapM', run_bind, run_pure, withKids]

theorem visit_other_kind (cfg : Config) (f : Nat) (r : Bool) (k : String) (sp : Span) (ns' : List String) (vs : List Node) (s : St) :
    ∃ vs', (visit cfg f r (.other k sp ns' vs) s).1 = .other k sp ns' vs' := by
  cases f with
  | zero => exact ⟨vs, by simp [visit, run_bind, run_pure]⟩
  | succ f => exact ⟨(mapM' (visit cfg f r) vs s).1, by simp [visit, mapKidsM, kids, run_bind, run_pure, withKids]⟩

/-- a receiver the theorem claims is still one `to_dd_call_expr` instruments after it has been visited -/
theorem covM_visit (cfg : Config) (m : String) (obj : Node) (h : recvOK cfg m obj = true) (f : Nat) (r : Bool) (s : St) :
    covM cfg m (visit cfg f r obj s).1 = true := by
  cases f with
  | zero =>
    simp only [visit, run_bind, run_pure]
    cases obj with
    | member o p sp => cases p <;> simp_all [recvOK, covM, memberPropIsPrototype]
    | _ => simp_all [recvOK, covM]
  | succ f =>
    cases obj with
    | ident nm sp => simp [visit, run_bind, run_pure, covM]
    | lit k v rr sp => simpa [visit, mapKidsM, kids, mapM', run_bind, run_pure, withKids, covM, recvOK] using h
    | paren e sp => simp [visit, mapKidsM, kids, mapM', run_bind, run_pure, withKids, covM]
    | array es sp => simp [visit, mapKidsM, run_bind, run_pure, withKids, covM]
    | call c as sp =>
      simp only [visit, run_bind]
      have hK : ∃ c' as', (mapKidsM mapM' (visit cfg f false) (.call c as sp) s).1 = .call c' as' sp :=
        ⟨(mapM' (visit cfg f false) (Node.call c as sp).kids s).1.getD 0 c,
         (mapM' (visit cfg f false) (Node.call c as sp).kids s).1.drop 1, by simp only [mapKidsM, run_bind, run_pure, withKids]⟩
      generalize mapKidsM mapM' (visit cfg f false) (.call c as sp) s = K at hK
      obtain ⟨n1, s1⟩ := K
      obtain ⟨c', as', hn1⟩ := hK
      simp only at hn1
      subst hn1
      simp only
      split
      · simp only [run_bind, run_pure]; rw [finish_fst]; rfl
      · simp only [run_bind]
        have hs := toDdCall_site cfg c' as' sp s1
        generalize toDdCall cfg (.call c' as' sp) s1 = X at hs
        obtain ⟨res, s2⟩ := X
        cases res with
        | none => simp only [run_bind, run_pure]; rw [finish_fst]; rfl
        | some et =>
          obtain ⟨e', tag⟩ := et
          simp only [run_bind, run_pure]
          rw [finish_fst]
          obtain ⟨csi, first, args, asg, _, he'⟩ := hs e' tag rfl
          rw [he']; exact covM_ddParen ..
    | member o p sp =>
      cases p with
      | pname pn psp =>
        simp only [visit, mapKidsM, kids, mapM', run_bind, run_pure, withKids, List.getD_cons_zero, List.getD_cons_succ]
        rw [visit_pname]
        simpa [covM, memberPropIsPrototype, recvOK] using h
      | other k osp ns' vs =>
        simp only [visit, mapKidsM, kids, mapM', run_bind, run_pure, withKids, List.getD_cons_zero, List.getD_cons_succ]
        obtain ⟨vs', hv⟩ := visit_other_kind cfg f r k osp ns' vs (visit cfg f r o s).2
        rw [hv]
        simp [covM, memberPropIsPrototype]
      | _ => simp [recvOK] at h
    | _ => simp [recvOK] at h

end IastModel

namespace IastModel
open Node

theorem covM_of_recvOK (cfg : Config) (m : String) (obj : Node) (h : recvOK cfg m obj = true) : covM cfg m obj = true := by
  have := covM_visit cfg m obj h 0 false {}
  simpa [visit, run_bind, run_pure] using this

/-- the callee `recv.m` of a claimed call keeps its shape when it is visited, and its receiver stays one
    that `to_dd_call_expr` instruments -/
theorem visit_member_recv (cfg : Config) (m : String) (recv : Node) (msp cmsp : Span) (h : recvOK cfg m recv = true)
    (f : Nat) (r : Bool) (s : St) :
    ∃ recv', (visit cfg f r (.member recv (.pname m msp) cmsp) s).1 = .member recv' (.pname m msp) cmsp ∧ covM cfg m recv' = true := by
  cases f with
  | zero => exact ⟨recv, by simp [visit, run_bind, run_pure], covM_of_recvOK cfg m recv h⟩
  | succ f =>
    refine ⟨(visit cfg f r recv s).1, ?_, covM_visit cfg m recv h f r s⟩
    simp only [visit, mapKidsM, kids, mapM', run_bind, run_pure, withKids, List.getD_cons_zero, List.getD_cons_succ]
    rw [visit_pname]

/-- for `recv.m(..)` the hook is the one configured for `m`, at the span of the call -/
theorem toDdCall_member_site (cfg : Config) (recv : Node) (m : String) (msp msp0 : Span) (cargs : List Node) (csp : Span) (s : St)
    (csi : CsiMethod) (hg : cfg.get m = some csi) (hca : isCallOrApply m = false) :
    ∀ e' tag, (toDdCall cfg (.call (.member recv (.pname m msp) msp0) cargs csp) s).1 = some (e', tag) →
      ∃ first args asg, e' = ddParen first args asg csi.dst csp := by
  have key : ∀ e' tag, (replaceCallWithMember cfg recv m msp (.member recv (.pname m msp) msp0) cargs csp none none s).1 = some (e', tag) →
      ∃ first args asg, e' = ddParen first args asg csi.dst csp := by
    intro e' tag he
    rw [replaceCallWithMember_unfold _ _ _ _ _ _ _ _ _ _ csi hg] at he
    simp only [rcwmTail, run_bind, run_pure] at he
    generalize getTemporalIdent recv [] csp .expr s = R0 at he
    obtain ⟨⟨ir, asg0⟩, s0⟩ := R0
    simp only at he
    generalize getIdentUsed _ asg0 [] csp .expr s0 = R1 at he
    obtain ⟨⟨ic, asg1, args1⟩, s1⟩ := R1
    simp only at he
    generalize replaceCallCalleeAndArgs _ cargs csp _ asg1 _ none s1 = R2 at he
    obtain ⟨⟨callRepl, asg3, args3⟩, s3⟩ := R2
    simp only [Option.some.injEq, Prod.mk.injEq] at he
    exact ⟨_, _, _, he.1.symm⟩
  intro e' tag he
  unfold toDdCall at he
  cases recv with
  | lit k v r lsp =>
    simp only at he
    split at he
    · exact key e' tag he
    · cases he
  | ident nm isp => exact key e' tag he
  | call c as csp2 => exact key e' tag he
  | paren e psp => exact key e' tag he
  | array es asp => exact key e' tag he
  | member o2 p2 msp2 =>
    simp only [hca, Bool.false_eq_true, if_false] at he
    split at he
    · exact key e' tag he
    · cases he
  | _ => cases he

end IastModel

import IastModel.Lemmas.CnMaster
namespace IastModel
open Node

/-- the string-literal node with value `v` at source position `sp` -/
def isStrLitAt (v : String) (sp : Span) (n : Node) : Bool :=
  match n with
  | .lit k v' _ sp' => k == "StringLiteral" && v' == v && sp' == sp
  | _ => false

/-- how many times that literal node occurs in a tree (the transforms copy literals into hook arguments,
    so the number may grow; what matters is whether it is zero) -/
def cl (v : String) (sp : Span) (n : Node) : Nat := Node.count (isStrLitAt v sp) n
def clL (v : String) (sp : Span) (l : List Node) : Nat := (l.map (cl v sp)).sum

theorem cl_eq (v sp) (n : Node) : cl v sp n = (if isStrLitAt v sp n then 1 else 0) + clL v sp n.kids := by
  unfold clL
  show Node.count (isStrLitAt v sp) n = _
  rw [Node.count_eq]; rfl

@[simp] theorem clL_nil (v sp) : clL v sp [] = 0 := rfl
@[simp] theorem clL_cons (v sp) (x : Node) (xs : List Node) : clL v sp (x :: xs) = cl v sp x + clL v sp xs := by simp [clL]
@[simp] theorem clL_append (v sp) (xs ys : List Node) : clL v sp (xs ++ ys) = clL v sp xs + clL v sp ys := by simp [clL, List.sum_append]

theorem cl_nolit (v sp) (n : Node) (h : ∀ k v' r sp', n ≠ .lit k v' r sp') : cl v sp n = clL v sp n.kids := by
  rw [cl_eq]
  have : isStrLitAt v sp n = false := by
    cases n <;> first | rfl | (exfalso; exact h _ _ _ _ rfl)
  simp [this]

theorem cl_lit (v sp) (k v' r : String) (sp' : Span) :
    cl v sp (.lit k v' r sp') = if (k == "StringLiteral" && v' == v && sp' == sp) then 1 else 0 := by
  rw [cl_eq]; simp [isStrLitAt, kids]
@[simp] theorem cl_pname (v sp) (n : String) (s : Span) : cl v sp (.pname n s) = 0 := by rw [cl_nolit _ _ _ (by intro a b c d h; cases h)]; simp [kids]
@[simp] theorem cl_ident (v sp) (n : Name) (s : Span) : cl v sp (.ident n s) = 0 := by rw [cl_nolit _ _ _ (by intro a b c d h; cases h)]; simp [kids]
@[simp] theorem cl_atom (v sp) (s : String) : cl v sp (.atom s) = 0 := by rw [cl_nolit _ _ _ (by intro a b c d h; cases h)]; simp [kids]
@[simp] theorem cl_bin (v sp) (op : String) (l r : Node) (s : Span) : cl v sp (.bin op l r s) = cl v sp l + cl v sp r := by rw [cl_nolit _ _ _ (by intro a b c d h; cases h)]; simp [kids]
@[simp] theorem cl_assign (v sp) (op : String) (l r : Node) (s : Span) : cl v sp (.assign op l r s) = cl v sp l + cl v sp r := by rw [cl_nolit _ _ _ (by intro a b c d h; cases h)]; simp [kids]
@[simp] theorem cl_member (v sp) (o p : Node) (s : Span) : cl v sp (.member o p s) = cl v sp o + cl v sp p := by rw [cl_nolit _ _ _ (by intro a b c d h; cases h)]; simp [kids]
@[simp] theorem cl_call (v sp) (c : Node) (as : List Node) (s : Span) : cl v sp (.call c as s) = cl v sp c + clL v sp as := by rw [cl_nolit _ _ _ (by intro a b c d h; cases h)]; simp [kids]
@[simp] theorem cl_arg (v sp) (s : Option Span) (e : Node) : cl v sp (.arg s e) = cl v sp e := by rw [cl_nolit _ _ _ (by intro a b c d h; cases h)]; simp [kids]
@[simp] theorem cl_paren (v sp) (e : Node) (s : Span) : cl v sp (.paren e s) = cl v sp e := by rw [cl_nolit _ _ _ (by intro a b c d h; cases h)]; simp [kids]
@[simp] theorem cl_seq (v sp) (es : List Node) (s : Span) : cl v sp (.seq es s) = clL v sp es := by rw [cl_nolit _ _ _ (by intro a b c d h; cases h)]; simp [kids]
@[simp] theorem cl_array (v sp) (es : List Node) (s : Span) : cl v sp (.array es s) = clL v sp es := by rw [cl_nolit _ _ _ (by intro a b c d h; cases h)]; simp [kids]
@[simp] theorem cl_tpl (v sp) (es qs : List Node) (s : Span) : cl v sp (.tpl es qs s) = clL v sp es + clL v sp qs := by rw [cl_nolit _ _ _ (by intro a b c d h; cases h)]; simp [kids]
@[simp] theorem cl_cond (v sp) (t c a : Node) (s : Span) : cl v sp (.cond t c a s) = cl v sp t + cl v sp c + cl v sp a := by rw [cl_nolit _ _ _ (by intro a b c d h; cases h)]; simp [kids]; omega
@[simp] theorem cl_optChain (v sp) (o : Bool) (b : Node) (s : Span) : cl v sp (.optChain o b s) = cl v sp b := by rw [cl_nolit _ _ _ (by intro a b c d h; cases h)]; simp [kids]
@[simp] theorem cl_optCall (v sp) (c : Node) (as : List Node) (s : Span) : cl v sp (.optCall c as s) = cl v sp c + clL v sp as := by rw [cl_nolit _ _ _ (by intro a b c d h; cases h)]; simp [kids]
@[simp] theorem cl_block (v sp) (ss : List Node) (s : Span) : cl v sp (.block ss s) = clL v sp ss := by rw [cl_nolit _ _ _ (by intro a b c d h; cases h)]; simp [kids]
@[simp] theorem cl_arrow (v sp) (ps : List Node) (b : Node) (a : String) (s : Span) : cl v sp (.arrow ps b a s) = clL v sp ps + cl v sp b := by rw [cl_nolit _ _ _ (by intro a b c d h; cases h)]; simp [kids]
@[simp] theorem cl_arr (v sp) (xs : List Node) : cl v sp (.arr xs) = clL v sp xs := by rw [cl_nolit _ _ _ (by intro a b c d h; cases h)]; simp [kids]
@[simp] theorem cl_other (v sp) (k : String) (s : Span) (ns' : List String) (vs : List Node) : cl v sp (.other k s ns' vs) = clL v sp vs := by rw [cl_nolit _ _ _ (by intro a b c d h; cases h)]; simp [kids]
@[simp] theorem cl_unary (v sp) (op : String) (a : Node) (s : Span) : cl v sp (.unary op a s) = cl v sp a := by rw [cl_nolit _ _ _ (by intro a b c d h; cases h)]; simp [kids]

theorem cl_ddCall (v sp) (e : Node) (args : List Node) (m : String) (s : Span) :
    cl v sp (ddCall e args m s) = cl v sp e + clL v sp args := by
  simp [ddCall, ddCallee]

theorem cl_ddParen (v sp) (e : Node) (args asg : List Node) (m : String) (s : Span) :
    cl v sp (ddParen e args asg m s) = cl v sp e + clL v sp args + clL v sp asg := by
  unfold ddParen
  split
  · rename_i h; have : asg = [] := by simpa using h
    subst this; simp [cl_ddCall]
  · simp [cl_ddCall]; omega

theorem cl_assignRight (v sp) (e : Node) (k : IdentKind) : cl v sp (assignRight e k) = cl v sp e := by
  cases k <;> simp [assignRight]
theorem cl_exprOrSpread (v sp) (e : Node) (k : IdentKind) : cl v sp (exprOrSpread e k) = cl v sp e := by
  cases k <;> simp [exprOrSpread]

end IastModel

import IastModel.Lemmas.KeepArrow
/-
  The coverage theorems count hook calls (`cq (qAt d sp0)`); the coverage oracle (`uncovered`) looks an
  occurrence up in `hookSites`.  This file reads the one in the vocabulary of the other.
-/
namespace IastModel
open Node

/-- a node satisfying `p` and `q` is counted ⇒ some collected node of `p` satisfies `q` -/
theorem Node.count_pos_collect (p q : Node → Bool) : ∀ n : Node, 1 ≤ Node.count (fun k => p k && q k) n →
    ∃ x ∈ Node.collect p n, q x = true := by
  apply Node.ind
  intro n ih h
  rw [Node.count_eq] at h
  rw [Node.collect_eq]
  by_cases hn : (p n && q n) = true
  · simp only [Bool.and_eq_true] at hn
    exact ⟨n, by simp [hn.1], hn.2⟩
  · simp only [hn, Bool.false_eq_true, if_false, Nat.zero_add] at h
    -- one of the children
    have : ∃ k ∈ n.kids, 1 ≤ Node.count (fun k => p k && q k) k := by
      generalize n.kids = l at h
      induction l with
      | nil => simp at h
      | cons x xs ihl =>
        simp only [List.map_cons, List.sum_cons] at h
        by_cases hx : 1 ≤ Node.count (fun k => p k && q k) x
        · exact ⟨x, by simp, hx⟩
        · obtain ⟨k, hk, h1⟩ := ihl (by omega)
          exact ⟨k, by simp [hk], h1⟩
    obtain ⟨k, hk, h1⟩ := this
    obtain ⟨x, hx, hq⟩ := ih k hk h1
    refine ⟨x, ?_, hq⟩
    simp only [List.mem_append, List.mem_flatten, List.mem_map]
    exact Or.inr ⟨_, ⟨k, hk, rfl⟩, hx⟩

theorem hookSites_eq (out : Node) : hookSites out = (hooks out).filterMap hookSiteOf := by
  unfold hookSites
  congr 1

/-- a counted hook call of the site `(d, sp0)` is one of the output's hook sites, as the oracle lists them -/
theorem hookSite_of_cq (d : String) (sp0 : Span) (out : Node) (h : 1 ≤ cq (qAt d sp0) out) :
    (d, sp0) ∈ hookSites out := by
  obtain ⟨x, hx, hq⟩ := Node.count_pos_collect isHook (qAt d sp0) out h
  rw [hookSites_eq]
  simp only [List.mem_filterMap]
  refine ⟨x, hx, ?_⟩
  simpa only [qAt, decide_eq_true_eq] using hq

end IastModel

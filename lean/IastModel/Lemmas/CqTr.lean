import IastModel.Lemmas.CqOp
namespace IastModel
open Node

theorem toDdBinary_Q (q : Node → Bool) (cfg : Config) (op : String) (l r : Node) (sp : Span) (s : St) :
    ∀ e', (toDdBinary cfg (.bin op l r sp) s).1 = some e' → cq q e' = (if q (lastOf e') then 1 else 0) + (cq q l + cq q r) := by
  simp only [toDdBinary, run_bind]
  have h1 := replaceExpr_Q q l (getIdentMode r) [] [] sp .expr false s
  generalize replaceExpr l (getIdentMode r) [] [] sp .expr false s = R1 at h1
  obtain ⟨⟨l', asg1, args1⟩, s1⟩ := R1
  obtain ⟨c1, c2⟩ := h1
  simp only [cqL_nil, Nat.add_zero] at c1 c2
  have h2 := replaceExpr_Q q r (getIdentMode l') asg1 args1 sp .expr false s1
  generalize replaceExpr r (getIdentMode l') asg1 args1 sp .expr false s1 = R2 at h2
  obtain ⟨⟨r', asg2, args2⟩, s2⟩ := R2
  obtain ⟨d1, d2⟩ := h2
  simp only at c1 c2 d1 d2
  by_cases hm : mustReplaceBinary args2 = true
  · simp only [hm, if_true, run_pure]
    intro e' he
    simp only [Option.some.injEq] at he
    subst he
    rw [cq_ddParen, lastOf_ddParen]; simp only [cq_bin]; omega
  · simp only [hm, Bool.false_eq_true, if_false, run_pure]
    intro e' he; cases he

theorem toDdTpl_Q (q : Node → Bool) (cfg : Config) (exprs quasis : List Node) (sp : Span) (s : St) :
    ∀ e', (toDdTpl cfg (.tpl exprs quasis sp) s).1 = some e' → cq q e' = (if q (lastOf e') then 1 else 0) + cq q (.tpl exprs quasis sp) := by
  simp only [toDdTpl, run_bind, run_pure]
  have h1 := replaceTplExprs_Q q exprs [] [] s
  generalize replaceTplExprs exprs [] [] s = R1 at h1
  obtain ⟨⟨exprs', asg, args⟩, s1⟩ := R1
  obtain ⟨c1, c2⟩ := h1
  simp only [cqL_nil, Nat.add_zero] at c1 c2
  intro e' he'
  simp only [Option.some.injEq] at he'
  subst he'
  rw [cq_ddParen, lastOf_ddParen]; simp only [cq_tpl]; omega

theorem replaceCallCalleeAndArgs_Q (q : Node → Bool) (callee : Node) (cargs : List Node) (csp : Span) (identCallee : Option Node)
    (asg args : List Node) (coa : Option String) (s : St) :
    let R := replaceCallCalleeAndArgs callee cargs csp identCallee asg args coa s
    ∃ cargs', R.1.1 = .call (match identCallee with
        | some i => Node.member i (.pname (coa.getD Generated.callMethodName) csp) csp
        | none => callee) cargs' csp ∧
      cqL q cargs' + cqL q R.1.2.1 = cqL q cargs + cqL q asg ∧ cqL q R.1.2.2 = cqL q args := by
  simp only [replaceCallCalleeAndArgs, run_bind, run_pure]
  generalize ((coa.getD Generated.callMethodName) == Generated.applyMethodName) = expand
  have h := replaceArgs_Q q .replace csp expand cargs asg args s
  generalize replaceArgs .replace csp expand cargs asg args s = R at h
  obtain ⟨⟨cargs', asg', args'⟩, s'⟩ := R
  exact ⟨cargs', rfl, h.1, h.2⟩

theorem rcwmTail_Q (q : Node → Bool) (dst method : String) (identReplacement memberExpr expr callee : Node) (cargs asg0 : List Node)
    (csp : Span) (coa : Option String) (s0 : St) (nir : cq q identReplacement = 0) (lme : memberExpr.isLit = false) :
    ∀ e' tag, (rcwmTail dst method identReplacement memberExpr expr callee cargs asg0 csp coa s0).1 = some (e', tag) →
      tag = method ∧ cq q e' = (if q (lastOf e') then 1 else 0) + cqL q asg0 + cqL q cargs + cq q memberExpr := by
  unfold rcwmTail
  simp only [run_bind, run_pure]
  rcases getIdentUsed_cases memberExpr asg0 [] csp .expr s0 with ⟨hl, _⟩ | ⟨_, n1, s1, h1, _⟩
  · rw [lme] at hl; cases hl
  · rw [h1]
    simp only
    have hcs := replaceCallCalleeAndArgs_Q q callee cargs csp (some (tempIdent n1))
      (asg0 ++ [.assign "=" (tempIdent n1) (assignRight memberExpr .expr) csp])
      ([] ++ [exprOrSpread (tempIdent n1) .expr] ++ [.arg none identReplacement]) coa s1
    generalize replaceCallCalleeAndArgs callee cargs csp (some (tempIdent n1))
      (asg0 ++ [.assign "=" (tempIdent n1) (assignRight memberExpr .expr) csp])
      ([] ++ [exprOrSpread (tempIdent n1) .expr] ++ [.arg none identReplacement]) coa s1 = R at hcs
    obtain ⟨⟨callRepl, asg3, args3⟩, s3⟩ := R
    simp only at hcs
    obtain ⟨cargs', hcr, c1, c2⟩ := hcs
    subst hcr
    intro e' tag hres
    simp only [Option.some.injEq, Prod.mk.injEq] at hres
    obtain ⟨hres, htag⟩ := hres
    subst hres
    refine ⟨htag.symm, ?_⟩
    rw [cq_ddParen, lastOf_ddParen]
    simp only [insertThis]
    rw [cq_call_user q _ _ _ (by simp [hookName?, tempIdent])]
    simp only [cqL_append, cqL_cons, cqL_nil, cq_assign, cq_exprOrSpread, cq_arg, tempIdent, cq_ident, assignRight,
      cq_member, cq_pname, nir] at c1 c2 ⊢
    omega

theorem replaceCallWithMember_Q (q : Node → Bool) (cfg : Config) (expr : Node) (method : String) (msp : Span)
    (callee : Node) (cargs : List Node) (csp : Span) (memberOpt : Option Node) (coa : Option String) (s : St)
    (hm : ∀ m, memberOpt = some m → m.isLit = false) :
    ∀ e' tag, (replaceCallWithMember cfg expr method msp callee cargs csp memberOpt coa s).1 = some (e', tag) →
      ∃ csi, cfg.get tag = some csi ∧ cq q e' = (if q (lastOf e') then 1 else 0) + cq q expr + cqL q cargs + (memberOpt.map (cq q)).getD 0 := by
  cases hg : cfg.get method with
  | none =>
    unfold replaceCallWithMember
    simp only [hg]
    intro e' tag h; cases h
  | some csi =>
    rw [replaceCallWithMember_unfold _ _ _ _ _ _ _ _ _ _ csi hg]
    have hR0 : ∃ ir asg0 s0, getTemporalIdent expr [] csp .expr s = ((ir, asg0), s0) ∧
        cq q (identOr ir expr) = 0 ∧ cqL q asg0 = cq q expr := by
      rcases getTemporalIdent_cases expr [] csp .expr s with ⟨hl, h⟩ | ⟨hl, n, s', h, _⟩
      · exact ⟨none, [], s, h, isLit_cq q hl, by simp [isLit_cq q hl]⟩
      · exact ⟨some n, _, s', h, by simp [identOr, tempIdent], by simp [tempIdent, assignRight]⟩
    obtain ⟨ir, asg0, s0, h0, nir, na0⟩ := hR0
    rw [h0]
    simp only
    have gme : (memberOr memberOpt (.member (identOr ir expr) (.pname method msp) csp)).isLit = false ∧
        cq q (memberOr memberOpt (.member (identOr ir expr) (.pname method msp) csp)) = (memberOpt.map (cq q)).getD 0 := by
      cases memberOpt with
      | none => simp [memberOr, nir, Node.isLit]
      | some m => simp [memberOr, hm m rfl]
    intro e' tag hres
    have ht := rcwmTail_Q q csi.dst method (identOr ir expr) _ expr callee cargs asg0 csp coa s0 nir gme.1 e' tag hres
    obtain ⟨htag, ht⟩ := ht
    rw [gme.2, na0] at ht
    refine ⟨csi, by rw [htag]; exact hg, ?_⟩
    omega

theorem replaceCallSpreadWithMember_Q (q : Node → Bool) (cfg : Config) (method : String)
    (callee : Node) (cargs : List Node) (csp : Span) (memberExpr : Node) (coa : String) (s : St) :
    ∀ e' tag, (replaceCallSpreadWithMember cfg method callee cargs csp memberExpr coa s).1 = some (e', tag) →
      ∃ csi, cfg.get tag = some csi ∧ cq q e' = (if q (lastOf e') then 1 else 0) + cqL q cargs + cq q memberExpr := by
  unfold replaceCallSpreadWithMember
  cases hg : cfg.get method with
  | none => intro e' tag h; cases h
  | some csi =>
    simp only [run_bind, run_pure]
    rcases getIdentUsed_cases memberExpr [] [] csp .expr s with ⟨hl, h1⟩ | ⟨_, n1, s1, h1, _⟩
    · rw [h1]; intro e' tag h; cases h
    · rw [h1]
      simp only [run_bind, run_pure]
      have hcs := replaceCallCalleeAndArgs_Q q callee cargs csp (some (tempIdent n1))
        ([] ++ [.assign "=" (tempIdent n1) (assignRight memberExpr .expr) csp])
        ([] ++ [exprOrSpread (tempIdent n1) .expr]) (some coa) s1
      generalize replaceCallCalleeAndArgs callee cargs csp (some (tempIdent n1))
        ([] ++ [.assign "=" (tempIdent n1) (assignRight memberExpr .expr) csp])
        ([] ++ [exprOrSpread (tempIdent n1) .expr]) (some coa) s1 = R at hcs
      obtain ⟨⟨callRepl, asg3, args3⟩, s3⟩ := R
      simp only at hcs
      obtain ⟨cargs', hcr, c1, c2⟩ := hcs
      subst hcr
      intro e' tag hres
      simp only [Option.some.injEq, Prod.mk.injEq] at hres
      obtain ⟨hres, htag⟩ := hres
      subst hres
      refine ⟨csi, by rw [← htag]; exact hg, ?_⟩
      rw [cq_ddParen, lastOf_ddParen]
      rw [cq_call_user q _ _ _ (by simp [hookName?, tempIdent])]
      simp only [cqL_append, cqL_cons, cqL_nil, cq_assign, cq_exprOrSpread, cq_arg, tempIdent, cq_ident, assignRight,
        cq_member, cq_pname] at c1 c2 ⊢
      omega

theorem replaceCallWithoutCallee_Q (q : Node → Bool) (cfg : Config) (name : Name) (isp : Span) (cargs : List Node) (csp : Span) (s : St) :
    ∀ e' tag, (replaceCallWithoutCallee cfg name isp (.ident name isp) cargs csp s).1 = some (e', tag) →
      ∃ csi, cfg.get tag = some csi ∧ cq q e' = (if q (lastOf e') then 1 else 0) + cqL q cargs := by
  unfold replaceCallWithoutCallee
  cases name with
  | temp k => intro e' tag h; cases h
  | user method =>
    simp only
    cases hg : cfg.get method with
    | none => intro e' tag h; cases h
    | some csi =>
      simp only
      by_cases hal : csi.allowedWithoutCallee = true
      · simp only [hal, if_true, run_bind, run_pure]
        have hcs := replaceCallCalleeAndArgs_Q q (.ident (.user method) isp) cargs csp none []
          [Node.arg none (.ident (.user method) isp), .arg none (.ident (.user "undefined") csp)] none s
        generalize replaceCallCalleeAndArgs (.ident (.user method) isp) cargs csp none []
          [Node.arg none (.ident (.user method) isp), .arg none (.ident (.user "undefined") csp)] none s = R at hcs
        obtain ⟨⟨callRepl, asg3, args3⟩, s3⟩ := R
        simp only at hcs
        obtain ⟨cargs', hcr, c1, c2⟩ := hcs
        subst hcr
        intro e' tag hres
        simp only [Option.some.injEq, Prod.mk.injEq] at hres
        obtain ⟨hres, htag⟩ := hres
        subst hres
        refine ⟨csi, by rw [← htag]; exact hg, ?_⟩
        rw [cq_ddParen, lastOf_ddParen]
        rw [cq_call_user q _ _ _ (by simp [hookName?])]
        simp only [cqL_cons, cqL_nil, cq_arg, cq_ident] at c1 c2 ⊢
        omega
      · simp only [hal, Bool.false_eq_true, if_false, run_pure]
        intro e' tag h; cases h

theorem cq_argExpr (q : Node → Bool) (a : Node) : cq q (argExpr a) = cq q a := by
  cases a <;> simp [argExpr]

theorem replacePrototypeCallOrApply_Q (q : Node → Bool) (cfg : Config) (cargs : List Node) (csp : Span) (callee member : Node)
    (coa : String) (s : St) :
    ∀ e' tag, (replacePrototypeCallOrApply cfg cargs csp callee member coa s).1 = some (e', tag) →
      ∃ csi, cfg.get tag = some csi ∧ cq q e' = (if q (lastOf e') then 1 else 0) + cq q member + cqL q cargs := by
  unfold replacePrototypeCallOrApply
  by_cases h1 : isCallOrApply coa = true
  · simp only [h1, Bool.not_true, Bool.false_eq_true, if_false]
    unfold prototypeMethodIdent
    by_cases hsp : isStaticPath member = true
    · simp only [hsp, if_true]
      cases member with
      | member mo mp msp0 =>
        cases mp with
        | pname method msp =>
          simp only
          cases cargs with
          | nil => intro e' tag h; cases h
          | cons th rest =>
            simp only
            by_cases hs : argIsSpread th = true
            · simp only [hs, if_true]
              intro e' tag hres
              obtain ⟨csi, hc, hn⟩ := replaceCallSpreadWithMember_Q q cfg method callee (th :: rest) csp (.member mo (.pname method msp) msp0) coa s e' tag hres
              exact ⟨csi, hc, by omega⟩
            · simp only [hs, Bool.false_eq_true, if_false]
              by_cases hinv : invalidArgs coa (th :: rest) = true
              · simp only [hinv, if_true]; intro e' tag h; cases h
              · simp only [hinv, Bool.false_eq_true, if_false]
                split
                · intro e' tag h; cases h
                · intro e' tag hres
                  obtain ⟨csi, hc, hn⟩ := replaceCallWithMember_Q q cfg (argExpr th) method msp
                    (Node.member (argExpr th) (.pname method msp) csp) rest csp
                    (some (.member mo (.pname method msp) msp0)) (some coa) s
                    (by intro m hm; cases hm; rfl) e' tag hres
                  simp only [Option.map_some, Option.getD_some, cq_argExpr] at hn
                  refine ⟨csi, hc, ?_⟩
                  simp only [cqL_cons]
                  omega
        | _ => simp [isStaticPath] at hsp
      | _ => simp [isStaticPath] at hsp
    · simp only [hsp, Bool.false_eq_true, if_false]; intro e' tag h; cases h
  · simp only [h1, Bool.not_false, if_true]; intro e' tag h; cases h

theorem toDdCall_Q (q : Node → Bool) (cfg : Config) (callee : Node) (cargs : List Node) (csp : Span) (s : St) :
    ∀ e' tag, (toDdCall cfg (.call callee cargs csp) s).1 = some (e', tag) →
      ∃ csi, cfg.get tag = some csi ∧ cq q e' = (if q (lastOf e') then 1 else 0) + cq q callee + cqL q cargs := by
  unfold toDdCall
  cases callee with
  | member obj prop msp0 =>
    cases prop with
    | pname m msp =>
      have key := fun (_ : Unit) => replaceCallWithMember_Q q cfg obj m msp (.member obj (.pname m msp) msp0) cargs csp none none s (by intro m hm; cases hm)
      simp only [Option.map_none, Option.getD_none, Nat.add_zero] at key
      simp only [cq_member, cq_pname, Nat.add_zero]
      cases obj with
      | lit k v r lsp =>
        simp only
        split
        · exact key ()
        · intro e' tag h; cases h
      | ident nm isp => exact key ()
      | call c as csp2 => exact key ()
      | paren e psp => exact key ()
      | array es asp => exact key ()
      | member o2 p2 msp2 =>
        simp only
        split
        · exact replacePrototypeCallOrApply_Q q cfg cargs csp _ _ m s
        · split
          · exact key ()
          · intro e' tag h; cases h
      | _ => intro e' tag h; cases h
    | _ => intro e' tag h; cases h
  | ident name isp =>
    simp only [cq_ident, Nat.add_zero]
    exact replaceCallWithoutCallee_Q q cfg name isp cargs csp s
  | _ => intro e' tag h; cases h

end IastModel

import IastModel.Lemmas.TrCall
namespace IastModel
open Node

theorem nsL_atoms (vs : List Node) (h : vs.all isAtomNode = true) : nsL vs = 0 := by
  induction vs with
  | nil => rfl
  | cons v vs ih =>
    simp only [List.all_cons, Bool.and_eq_true] at h
    cases v <;> simp_all [isAtomNode]

theorem goodL_atoms (ok u) (vs : List Node) (h : vs.all isAtomNode = true) : goodL ok u vs = true := by
  induction vs with
  | nil => rfl
  | cons v vs ih =>
    simp only [List.all_cons, Bool.and_eq_true] at h
    cases v <;> simp_all [isAtomNode]

theorem simple_ns {ok u} {e : Node} (hg : goodW ok u e = true) (hs : isSimpleTargetPart e = true) : ns e = 0 := by
  unfold isSimpleTargetPart at hs
  split at hs
  · exact good_leaf_ns hg (by simp [leaf, Node.isIdent])
  · simp
  · simp
  · cases hs

/-- what splitting a compound-assignment target guarantees -/
def SplitSpec (ok : String → Bool) (u : Bool) (left : Node) (R : (Node × Node) × St) (s : St) : Prop :=
  goodW ok u R.1.1 = true ∧ goodW ok u R.1.2 = true ∧ ns R.1.1 + ns R.1.2 = ns left ∧ TS R.2 s

theorem good_seqOperand (ok u) (e : Node) : goodW ok u (seqOperand e) = goodW ok u e := by
  unfold seqOperand; split <;> simp
theorem ns_seqOperand (e : Node) : ns (seqOperand e) = ns e := by
  unfold seqOperand; split <;> simp

theorem hoistTargetPart_spec (ok u) (e : Node) (sp : Span) (s : St) (he : goodW ok u e = true) :
    SplitSpec ok u e (hoistTargetPart e sp s) s := by
  unfold hoistTargetPart
  simp only [run_bind]
  have he' : goodW ok u (seqOperand e) = true := by rw [good_seqOperand]; exact he
  rcases getTemporalIdent_cases (seqOperand e) [] sp .expr s with ⟨hl, h⟩ | ⟨hl, n, s', h, ht⟩
  · rw [h]
    simp only [run_pure]
    have := isLit_ns hl
    rw [ns_seqOperand] at this
    exact ⟨he', he', by simp [ns_seqOperand, this], TS.refl s⟩
  · rw [h]
    simp only [List.nil_append, List.getLast?_singleton, run_pure]
    exact ⟨by simp [tempIdent, assignRight, he'], by simp [tempIdent], by simp [tempIdent, assignRight, ns_seqOperand], ht⟩

theorem splitComputedKey_spec (ok u) (csp : Span) (e : Node) (sp : Span) (s : St) (he : goodW ok u e = true) :
    SplitSpec ok u (.other "Computed" csp ["expression"] [e]) (splitComputedKey csp e sp s) s := by
  unfold splitComputedKey
  simp only [run_bind, run_pure]
  have h := hoistTargetPart_spec ok u e sp s he
  generalize hoistTargetPart e sp s = R at h
  obtain ⟨⟨tk, okk⟩, s'⟩ := R
  obtain ⟨h1, h2, h3, h4⟩ := h
  simp only at h1 h2 h3 h4
  exact ⟨by simp [h1], by simp [h2], by simp; omega, h4⟩

end IastModel

namespace IastModel
open Node

theorem propShape_ns {ok u} {p : Node} (hp : propShape p = true) (hg : goodW ok u p = true)
    (hsimple : ∀ csp e, p = .other "Computed" csp ["expression"] [e] → isSimpleTargetPart e = true) : ns p = 0 := by
  unfold propShape at hp
  split at hp
  · simp
  · rename_i csp e
    have := hsimple _ _ rfl
    simp at hg
    simp [simple_ns hg this]
  · simp only [Bool.and_eq_true] at hp
    simp [nsL_atoms _ hp.2]
  · cases hp

theorem splitSpec_same (ok u) (left : Node) (s : St) (hg : goodW ok u left = true) (hn : ns left = 0) :
    SplitSpec ok u left ((left, left), s) s := ⟨hg, hg, by simp [hn], TS.refl s⟩

theorem splitProp_spec (ok u) (prop : Node) (sp : Span) (s : St) (hp : propShape prop = true) (hg : goodW ok u prop = true) :
    SplitSpec ok u prop (splitProp prop sp s) s := by
  unfold splitProp
  split
  · rename_i csp e
    by_cases hs : isSimpleTargetPart e = true
    · simp only [hs, Bool.not_true, Bool.false_eq_true, if_false, run_pure]
      refine splitSpec_same ok u _ s hg ?_
      simp at hg
      simp [simple_ns hg hs]
    · simp only [hs, Bool.not_false, if_true]
      exact splitComputedKey_spec ok u csp e sp s (by simpa using hg)
  · rename_i hne
    simp only [run_pure]
    refine splitSpec_same ok u _ s hg ?_
    exact propShape_ns hp hg (by intro csp e he; exact absurd he (hne csp e))

theorem keyIsSimple_ns {ok u} {prop : Node} (hp : propShape prop = true) (hg : goodW ok u prop = true)
    (hk : keyIsSimple prop = true) : ns prop = 0 := by
  refine propShape_ns hp hg ?_
  intro csp e he
  subst he
  simpa [keyIsSimple] using hk

theorem splitMemberTarget_spec (ok u) (sp : Span) : ∀ (left : Node), tshape left = true → goodW ok u left = true →
    ∀ s, SplitSpec ok u left (splitMemberTarget left sp s) s := by
  apply Node.ind
  intro left ih hts hg s
  unfold tshape at hts
  split at hts
  · -- identifier
    rename_i nm isp
    simp only [splitMemberTarget, run_pure]
    exact splitSpec_same ok u _ s hg (good_leaf_ns hg (by simp [leaf, Node.isIdent]))
  · -- member
    rename_i obj prop msp
    have hg' := hg
    simp only [good_member, Bool.and_eq_true] at hg'
    simp only [splitMemberTarget]
    by_cases hcond : (!isSimpleTargetPart obj || !keyIsSimple prop) = true
    · simp only [hcond, if_true]
      by_cases hrep : (isSimpleTargetPart obj && (keyIsSimple prop || !obj.isIdent)) = true
      · simp only [hrep, if_true, run_bind, run_pure]
        simp only [Bool.and_eq_true] at hrep
        have n0 := simple_ns hg'.1 hrep.1
        have hprop := splitProp_spec ok u prop sp s hts hg'.2
        generalize splitProp prop sp s = R2 at hprop
        obtain ⟨⟨tprop, oprop⟩, s2⟩ := R2
        obtain ⟨b1, b2, b3, b4⟩ := hprop
        simp only at b1 b2 b3 b4
        exact ⟨by simp [hg'.1, b1], by simp [hg'.1, b2], by simp; omega, b4⟩
      · simp only [hrep, Bool.false_eq_true, if_false, run_bind, run_pure]
        have hobj := hoistTargetPart_spec ok u obj sp s hg'.1
        generalize hoistTargetPart obj sp s = R1 at hobj
        obtain ⟨⟨tobj, oobj⟩, s1⟩ := R1
        obtain ⟨a1, a2, a3, a4⟩ := hobj
        simp only at a1 a2 a3 a4
        have hprop := splitProp_spec ok u prop sp s1 hts hg'.2
        generalize splitProp prop sp s1 = R2 at hprop
        obtain ⟨⟨tprop, oprop⟩, s2⟩ := R2
        obtain ⟨b1, b2, b3, b4⟩ := hprop
        simp only at b1 b2 b3 b4
        exact ⟨by simp [a1, b1], by simp [a2, b2], by simp; omega, TS.trans b4 a4⟩
    · simp only [hcond, Bool.false_eq_true, if_false, run_pure]
      simp only [Bool.or_eq_true, Bool.not_eq_true', not_or, Bool.not_eq_false] at hcond
      refine splitSpec_same ok u _ s hg ?_
      simp [simple_ns hg'.1 hcond.1, keyIsSimple_ns hts hg'.2 hcond.2]
  · -- super property
    rename_i ssp k2 sp2 n2 prop
    have hg' := hg
    simp only [good_other, goodL_cons, goodL_nil, Bool.and_true, Bool.and_eq_true] at hg'
    simp only [splitMemberTarget]
    by_cases hk : keyIsSimple prop = true
    · simp only [hk, Bool.not_true, Bool.false_eq_true, if_false, run_pure]
      refine splitSpec_same ok u _ s hg ?_
      simp [keyIsSimple_ns hts hg'.2 hk]
    · simp only [hk, Bool.not_false, if_true, run_bind, run_pure]
      have hprop := splitProp_spec ok u prop sp s hts hg'.2
      generalize splitProp prop sp s = R2 at hprop
      obtain ⟨⟨tprop, oprop⟩, s2⟩ := R2
      obtain ⟨b1, b2, b3, b4⟩ := hprop
      simp only at b1 b2 b3 b4
      exact ⟨by simp [b1], by simp [b2], by simp; omega, b4⟩
  · -- parenthesised
    rename_i e psp
    simp only [splitMemberTarget]
    by_cases hsi : isSplittableInner e = true
    · simp only [hsi, if_true, run_bind, run_pure]
      have h := ih e (by simp [kids]) hts (by simpa using hg) s
      generalize splitMemberTarget e sp s = R at h
      obtain ⟨⟨t, o⟩, s'⟩ := R
      obtain ⟨h1, h2, h3, h4⟩ := h
      simp only at h1 h2 h3 h4
      exact ⟨by simp [h1], h2, by simp; omega, h4⟩
    · simp only [hsi, Bool.false_eq_true, if_false, run_pure]
      refine splitSpec_same ok u _ s hg ?_
      -- a target shape that is not splittable is an identifier
      cases e <;> simp_all [tshape, isSplittableInner]
      case ident nm isp => exact good_leaf_ns (by simpa using hg) (by simp [leaf, Node.isIdent])
  · cases hts

end IastModel

namespace IastModel
open Node

theorem toDdAssign_spec (ok u) (cfg : Config) (op : String) (left r : Node) (sp : Span) (s : St)
    (hl : goodW ok u left = true) (hr : goodW ok u r = true) (hts : tshape left = true)
    (hok : ok cfg.plusName = true) :
    TrSpec ok u (ns left + ns r) (toDdAssign cfg (.assign op left r sp) s) s := by
  simp only [toDdAssign]
  by_cases hp : isPatternTarget left = true
  · simp only [hp, if_true, run_pure]
    exact ⟨TS.refl s, by intro e' h; cases h⟩
  · simp only [hp, Bool.false_eq_true, if_false, run_bind, run_pure]
    have hgr : goodW ok u (assignRhs r) = true := by unfold assignRhs; split <;> simp_all
    have hnr : ns (assignRhs r) = ns r := by unfold assignRhs; split <;> simp
    have h1 := splitMemberTarget_spec ok u sp left hts hl s
    generalize splitMemberTarget left sp s = R1 at h1
    obtain ⟨⟨target, operand⟩, s1⟩ := R1
    obtain ⟨a1, a2, a3, a4⟩ := h1
    simp only at a1 a2 a3 a4
    have h2 := toDdBinary_spec ok u cfg "+" operand (assignRhs r) sp s1 a2 hgr hok
    generalize toDdBinary cfg (.bin "+" operand (assignRhs r) sp) s1 = R2 at h2
    obtain ⟨res, s2⟩ := R2
    obtain ⟨b1, b2⟩ := h2
    simp only at b1 b2
    cases res with
    | none => simp only [run_pure]; exact ⟨TS.trans b1 a4, by intro e' h; cases h⟩
    | some e1 =>
      obtain ⟨c1, c2⟩ := b2 e1 rfl
      simp only [run_pure]
      refine ⟨TS.trans b1 a4, ?_⟩
      intro e' he
      simp only [Option.some.injEq] at he
      subst he
      exact ⟨by simp [a1, c1], by simp; omega⟩

end IastModel

import IastModel.Lemmas.TempsOc
namespace IastModel
open Node

theorem ocSpine_na (v : Node → OcM Node) (e : Node) (oc : OcSt) (s : St) (h : isArrowNode e = false) :
    isArrowNode ((ocSpine v e oc s).1.1) = false := by
  unfold ocSpine
  split
  · simp only [oc_bind, oc_pure]; rfl
  · simp only [oc_bind, oc_pure]; rfl
  · split
    · simpa [oc_pure] using h
    · simp only [oc_bind, oc_pure]; rfl
  · simp only [oc_bind, oc_pure]; rfl
  · simpa [oc_pure] using h


theorem getCallFromBaseCall_na (callee : Node) (args : List Node) (optional : Bool) (oc : OcSt) (s : St) (r : Node)
    (h : (getCallFromBaseCall callee args optional oc s).1.1 = some r) : isArrowNode r = false := by
  unfold getCallFromBaseCall at h
  by_cases ho : optional = true
  · simp only [ho, if_true] at h
    cases callee with
    | member mobj mprop msp =>
      simp only [oc_bind, oc_get, oc_set, oc_lift, oc_pure, oc_modify] at h
      generalize (getIdentUsed mobj oc.assignments [] Span.dummy IdentKind.expr s) = X at h
      obtain ⟨⟨id, asg1, a1⟩, s1⟩ := X
      cases id with
      | none => simp [oc_pure] at h
      | some t0 =>
        simp only [oc_bind, oc_get, oc_set, oc_lift, oc_pure, oc_modify] at h
        generalize (getIdentUsed _ asg1 [] Span.dummy IdentKind.expr s1) = Y at h
        obtain ⟨⟨id2, asg2, a2⟩, s2⟩ := Y
        cases id2 with
        | none => simp [oc_pure] at h
        | some t1 =>
          simp only [oc_bind, oc_modify, oc_pure] at h
          simp at h; subst h; rfl
    | _ =>
      simp only [oc_bind, oc_get, oc_set, oc_lift, oc_pure, oc_modify] at h
      generalize (getIdentUsed _ oc.assignments [] Span.dummy IdentKind.expr s) = X at h
      obtain ⟨⟨id, asg1, a1⟩, s1⟩ := X
      cases id with
      | none => simp [oc_pure] at h
      | some t0 =>
        simp only at h
        by_cases he : asg1.isEmpty = true
        · simp [he, oc_pure] at h
        · simp only [he, Bool.false_eq_true, if_false, oc_bind, oc_modify, oc_pure] at h
          simp at h; subst h; rfl
  · simp only [ho, Bool.false_eq_true, if_false, oc_pure] at h
    simp at h; subst h; rfl

theorem getMemberFromBaseMember_na (obj prop : Node) (msp : Span) (optional : Bool) (oc : OcSt) (s : St) (r : Node)
    (h : (getMemberFromBaseMember obj prop msp optional oc s).1.1 = some r) : isArrowNode r = false := by
  unfold getMemberFromBaseMember at h
  by_cases ho : optional = true
  · simp only [ho, if_true, oc_bind, oc_get, oc_set, oc_lift, oc_pure] at h
    generalize (getIdentUsed obj oc.assignments [] Span.dummy IdentKind.expr s) = X at h
    obtain ⟨⟨id, asg1, a1⟩, s1⟩ := X
    cases id with
    | none => simp [oc_pure] at h
    | some t =>
      simp only [oc_bind, oc_modify, oc_pure] at h
      simp at h; subst h; rfl
  · simp only [ho, Bool.false_eq_true, if_false, oc_pure] at h
    simp at h; subst h; rfl

theorem ocVisit_na (cfg : Config) : ∀ (f : Nat) (n : Node) (oc : OcSt) (s : St),
    isArrowNode n = false → isArrowNode ((ocVisit cfg f n oc s).1.1) = false := by
  intro f
  induction f with
  | zero =>
    intro n oc s h
    simp only [ocVisit, oc_bind, oc_lift, oc_pure]
    exact h
  | succ f ih =>
    intro n oc s h
    unfold ocVisit
    split
    · -- optChain
      rename_i optional base sp
      rw [oc_bind, oc_get]
      show isArrowNode ((ite (oc.found = true) _ _ : OcM Node) oc s).1.1 = false
      by_cases hf : oc.found = true
      · rw [if_pos hf]
        have key : ∀ (m : OcM (Option Node)),
            (∀ r, (m oc s).1.1 = some r → isArrowNode r = false) →
            isArrowNode ((do
              let r ← m
              if optional = true then pure (r.getD (optChain optional base sp))
              else ocSpine (ocVisit cfg f) (r.getD (optChain optional base sp)) : OcM Node) oc s).1.1 = false := by
          intro m hm
          simp only [oc_bind]
          generalize hR : m oc s = R at hm
          obtain ⟨⟨r, oc1⟩, s1⟩ := R
          have hr1 : isArrowNode (r.getD (Node.optChain optional base sp)) = false := by
            cases r with
            | none => rfl
            | some x => exact hm x rfl
          by_cases ho : optional = true
          · rw [if_pos ho, oc_pure]; exact hr1
          · rw [if_neg ho]
            exact ocSpine_na _ _ _ _ hr1
        cases base with
        | optCall callee args csp => exact key _ (fun r hr => getCallFromBaseCall_na _ _ _ _ _ _ hr)
        | member obj prop msp => exact key _ (fun r hr => getMemberFromBaseMember_na _ _ _ _ _ _ _ hr)
        | _ => exact key (pure none) (fun r hr => by simp [oc_pure] at hr)
      · rw [if_neg hf]
        by_cases ht : ocTrigger cfg optional base = true
        · rw [if_pos ht]; simp only [oc_bind, oc_modify]
          exact ih _ _ _ rfl
        · rw [if_neg ht]; exact ocSpine_na _ _ _ _ rfl
    · rw [oc_pure]; exact h



theorem toDdCond_na (cfg : Config) (fuel : Nat) (e : Node) (s : St) (h : isArrowNode e = false) :
    isArrowNode (toDdCond cfg fuel e s).1.1 = false ∧ ∀ r, (toDdCond cfg fuel e s).1.2 = some r → isArrowNode r = false := by
  unfold toDdCond
  simp only [run_bind]
  have hv : isArrowNode (StateT.run (ocVisit cfg fuel e) {} s).1.1 = false := ocVisit_na cfg fuel e {} s h
  generalize (StateT.run (ocVisit cfg fuel e) {} s) = X at hv ⊢
  obtain ⟨⟨e', oc⟩, s'⟩ := X
  have hv' : isArrowNode e' = false := hv
  cases hn : oc.newIdent with
  | none => simp [hn, run_pure, hv']
  | some t =>
    simp only [hn]
    by_cases ha : oc.assignments.isEmpty = true
    · simp [ha, run_pure, hv']
    · simp only [ha, Bool.false_eq_true, if_false, run_pure]
      refine ⟨hv', ?_⟩
      intro r hr
      simp at hr
      subst hr
      rfl



def VT (n : Node) (R : Node × St) (s : St) : Prop := tgood R.2.idents R.1 = true ∧ IdSub s R.2

theorem updateStatus_idents (st : Status) (tag : Option String) (s : St) : (updateStatus st tag s).2.idents = s.idents := by
  simp only [updateStatus, run_modify]
  split
  · rfl
  · split <;> split <;> rfl

theorem isTempIdent_withKids (n : Node) (ks : List Node) : isTempIdent (n.withKids ks) = isTempIdent n := by
  cases n <;> rfl

theorem isClosed_withKids (n : Node) (ks : List Node) : isClosed (n.withKids ks) = isClosed n := by
  cases n <;> rfl

theorem tgood_withKids (σ) (n : Node) (ks : List Node) (hb : isClosed n = false) (ht : isTempIdent n = false)
    (hk : tgoodL σ ks = true) (hl : ks.length = n.kids.length) : tgood σ (n.withKids ks) = true := by
  rw [tgood_generic _ _ (by rw [isClosed_withKids]; exact hb) (by rw [isTempIdent_withKids]; exact ht),
    Node.kids_withKids n ks hl]
  exact hk

theorem tgood_kids {σ} {n : Node} (hb : isClosed n = false) (h : tgood σ n = true) : tgoodL σ n.kids = true := by
  rw [tgood_eq, hb] at h
  simp only [Bool.false_eq_true, if_false, Bool.and_eq_true] at h
  exact h.2

theorem mapVisit_T (v : Node → M Node) (hv : ∀ k s, tgood s.idents k = true → VT k (v k s) s) :
    ∀ (ks : List Node) (s : St), tgoodL s.idents ks = true →
      tgoodL (mapM' v ks s).2.idents (mapM' v ks s).1 = true ∧ IdSub s (mapM' v ks s).2 ∧
      (mapM' v ks s).1.length = ks.length := by
  intro ks
  induction ks with
  | nil => intro s _; simp [mapM', run_pure, IdSub.refl]
  | cons k ks ih =>
    intro s h
    simp only [tgoodL_cons, Bool.and_eq_true] at h
    simp only [mapM', run_bind, run_pure]
    have h1 := hv k s h.1
    generalize v k s = R1 at h1
    obtain ⟨k', s1⟩ := R1
    obtain ⟨g1, i1⟩ := h1
    simp only at g1 i1
    have h2 := ih s1 (tgoodL_lift i1 h.2)
    generalize mapM' v ks s1 = R2 at h2
    obtain ⟨ks', s2⟩ := R2
    obtain ⟨g2, i2, l2⟩ := h2
    simp only at g2 i2 l2
    exact ⟨by simp [tgood_lift i2 g1, g2], IdSub.trans i1 i2, by simp [l2]⟩

theorem mapKids_T' (v : Node → M Node) (hv : ∀ k s, tgood s.idents k = true → VT k (v k s) s) (n : Node) (s : St)
    (hb : isClosed n = false) (h : tgood s.idents n = true) :
    ∃ ks', (mapKidsM mapM' v n s).1 = n.withKids ks' ∧ ks'.length = n.kids.length ∧
      tgoodL (mapKidsM mapM' v n s).2.idents ks' = true ∧ IdSub s (mapKidsM mapM' v n s).2 := by
  simp only [mapKidsM, run_bind, run_pure]
  have h := mapVisit_T v hv n.kids s (tgood_kids hb h)
  generalize mapM' v n.kids s = R at h
  obtain ⟨ks', s'⟩ := R
  exact ⟨ks', rfl, h.2.2, h.1, h.2.1⟩

theorem mapKids_T (v : Node → M Node) (hv : ∀ k s, tgood s.idents k = true → VT k (v k s) s) (n : Node) (s : St)
    (hb : isClosed n = false) (ht : isTempIdent n = false) (h : tgood s.idents n = true) :
    VT n (mapKidsM mapM' v n s) s := by
  obtain ⟨ks', h1, hl, g, i⟩ := mapKids_T' v hv n s hb h
  exact ⟨by rw [h1]; exact tgood_withKids _ n ks' hb ht g hl, i⟩

theorem finish_ids (root : Bool) (x : Node) (s : St) :
    ((if root = true then do resetCounter; pure x else pure x : M Node) s).2.idents = s.idents := by
  cases root <;> simp [run_bind, run_pure, resetCounter, run_modify]

theorem vt_finish (n : Node) (s : St) (root : Bool) (x : Node) (s3 : St)
    (hg : tgood s3.idents x = true) (hi : IdSub s s3) :
    VT n ((if root = true then do resetCounter; pure x else pure x : M Node) s3) s := by
  refine ⟨?_, ?_⟩
  · rw [finish_fst, finish_ids]; exact hg
  · intro k hk; rw [finish_ids]; exact hi k hk

end IastModel

namespace IastModel
open Node

theorem idsub_of_idents_eq {s s' : St} (h : s'.idents = s.idents) : IdSub s s' := fun k hk => by rw [h]; exact hk

theorem visit_T (cfg : Config) : ∀ (f : Nat) (root : Bool) (n : Node) (s : St),
    tgood s.idents n = true → VT n (visit cfg f root n s) s := by
  intro f
  induction f with
  | zero =>
    intro root n s h
    simp only [visit, run_bind, run_pure]
    exact ⟨h, outOfFuel_ids s⟩
  | succ f ih =>
    intro root n s h
    have hv : ∀ r, ∀ k s, tgood s.idents k = true → VT k (visit cfg f r k s) s := fun r k s h => ih r k s h
    cases n with
    | ident nm sp =>
      simp only [visit, run_bind, run_pure]
      exact ⟨h, fun k hk => hk⟩
    | block ss sp =>
      simp only [visit, run_pure]
      exact ⟨h, IdSub.refl s⟩
    | arrow ps b at' sp =>
      simp only [visit, run_pure]
      refine ⟨?_, IdSub.refl s⟩
      rw [tgood_arrow] at h
      cases b <;> simp_all [toDdArrow, returnStmt, tgood_arrow, nt_eq, isTempIdent, kids]
    | unary op a sp =>
      simp only [visit]
      split
      · simp only [run_pure]; exact ⟨h, IdSub.refl s⟩
      · exact mapKids_T _ (hv root) _ s rfl rfl h
    | bin op l r sp =>
      simp only [visit]
      split
      · simp only [run_bind]
        obtain ⟨ks', h1, hl, g, i⟩ := mapKids_T' _ (hv false) (.bin op l r sp) s rfl h
        generalize mapKidsM mapM' (visit cfg f false) (.bin op l r sp) s = K at h1 g i
        obtain ⟨n1, s1⟩ := K
        simp only at h1 g i ⊢
        match ks', hl, g, h1 with
        | [l', r'], _, g, h1 =>
          simp only [withKids, List.getD_cons_zero, List.getD_cons_succ] at h1
          subst h1
          simp only [tgoodL_cons, tgoodL_nil, Bool.and_true, Bool.and_eq_true] at g
          have gn1 : tgood s1.idents (.bin op l' r' sp) = true := by simp [g.1, g.2]
          split
          · simp only [run_bind, run_pure]
            have h2 := toDdBinary_T cfg op l' r' sp s1 g.1 g.2
            generalize toDdBinary cfg (.bin op l' r' sp) s1 = X at h2
            obtain ⟨res, s2⟩ := X
            obtain ⟨i2, hres⟩ := h2
            simp only at i2 hres ⊢
            apply vt_finish
            · rw [updateStatus_idents]
              cases res with
              | none => exact tgood_lift i2 gn1
              | some e' => exact hres e' rfl
            · exact IdSub.trans (IdSub.trans i i2) (idsub_of_idents_eq (updateStatus_idents _ _ _))
          · simp only [run_bind, run_pure]
            exact vt_finish _ s root _ s1 gn1 i
      · exact mapKids_T _ (hv root) _ s rfl rfl h
    | assign op l r sp =>
      simp only [visit]
      split
      · simp only [run_bind]
        obtain ⟨ks', h1, hl, g, i⟩ := mapKids_T' _ (hv false) (.assign op l r sp) s rfl h
        generalize mapKidsM mapM' (visit cfg f false) (.assign op l r sp) s = K at h1 g i
        obtain ⟨n1, s1⟩ := K
        simp only at h1 g i ⊢
        match ks', hl, g, h1 with
        | [l', r'], _, g, h1 =>
          simp only [withKids, List.getD_cons_zero, List.getD_cons_succ] at h1
          subst h1
          simp only [tgoodL_cons, tgoodL_nil, Bool.and_true, Bool.and_eq_true] at g
          have gn1 : tgood s1.idents (.assign op l' r' sp) = true := by simp [g.1, g.2]
          split
          · simp only [run_bind, run_pure]
            have h2 := toDdAssign_T cfg op l' r' sp s1 g.1 g.2
            generalize toDdAssign cfg (.assign op l' r' sp) s1 = X at h2
            obtain ⟨res, s2⟩ := X
            obtain ⟨i2, hres⟩ := h2
            simp only at i2 hres ⊢
            apply vt_finish
            · rw [updateStatus_idents]
              cases res with
              | none => exact tgood_lift i2 gn1
              | some e' => exact hres e' rfl
            · exact IdSub.trans (IdSub.trans i i2) (idsub_of_idents_eq (updateStatus_idents _ _ _))
          · simp only [run_bind, run_pure]
            exact vt_finish _ s root _ s1 gn1 i
      · exact mapKids_T _ (hv root) _ s rfl rfl h
    | tpl es qs sp =>
      simp only [visit]
      split
      · split
        · simp only [run_bind]
          obtain ⟨ks', h1, hl, g, i⟩ := mapKids_T' _ (hv false) (.tpl es qs sp) s rfl h
          generalize mapKidsM mapM' (visit cfg f false) (.tpl es qs sp) s = K at h1 g i
          obtain ⟨n1, s1⟩ := K
          simp only at h1 g i ⊢
          simp only [withKids] at h1
          subst h1
          have g12 : tgoodL s1.idents (ks'.take es.length) = true ∧ tgoodL s1.idents (ks'.drop es.length) = true := by
            have := g
            rw [← List.take_append_drop es.length ks', tgoodL_append, Bool.and_eq_true] at this
            exact this
          have gn1 : tgood s1.idents (.tpl (ks'.take es.length) (ks'.drop es.length) sp) = true := by simp [g12.1, g12.2]
          have h2 := toDdTpl_T cfg (ks'.take es.length) (ks'.drop es.length) sp s1 g12.1 g12.2
          generalize toDdTpl cfg (.tpl (ks'.take es.length) (ks'.drop es.length) sp) s1 = X at h2
          obtain ⟨res, s2⟩ := X
          obtain ⟨i2, hres⟩ := h2
          simp only at i2 hres ⊢
          apply vt_finish
          · rw [updateStatus_idents]
            cases res with
            | none => exact tgood_lift i2 gn1
            | some e' => exact hres e' rfl
          · exact IdSub.trans (IdSub.trans i i2) (idsub_of_idents_eq (updateStatus_idents _ _ _))
        · simp only [run_pure]; exact ⟨h, IdSub.refl s⟩
      · exact mapKids_T _ (hv root) _ s rfl rfl h
    | call c as sp =>
      simp only [visit, run_bind]
      obtain ⟨ks', h1, hl, g, i⟩ := mapKids_T' _ (hv false) (.call c as sp) s rfl h
      generalize mapKidsM mapM' (visit cfg f false) (.call c as sp) s = K at h1 g i
      obtain ⟨n1, s1⟩ := K
      simp only at h1 g i ⊢
      match ks', hl, g, h1 with
      | c' :: as', _, g, h1 =>
        simp only [withKids, List.getD_cons_zero, List.drop_succ_cons, List.drop_zero] at h1
        subst h1
        simp only [tgoodL_cons, Bool.and_eq_true] at g
        have gn1 : tgood s1.idents (.call c' as' sp) = true := by simp [g.1, g.2]
        simp only
        split
        · simp only [run_bind, run_pure]
          exact vt_finish _ s root _ s1 gn1 i
        · simp only [run_bind]
          have h2 := toDdCall_T cfg c' as' sp s1 g.1 g.2
          generalize toDdCall cfg (.call c' as' sp) s1 = X at h2
          obtain ⟨res, s2⟩ := X
          obtain ⟨i2, hres⟩ := h2
          simp only at i2 hres ⊢
          cases res with
          | none =>
            simp only [run_bind, run_pure]
            exact vt_finish _ s root _ s2 (tgood_lift i2 gn1) (IdSub.trans i i2)
          | some et =>
            obtain ⟨e', tag⟩ := et
            simp only [run_bind, run_pure]
            apply vt_finish
            · rw [updateStatus_idents]; exact hres e' tag rfl
            · exact IdSub.trans (IdSub.trans i i2) (idsub_of_idents_eq (updateStatus_idents _ _ _))
    | optChain o b sp =>
      simp only [visit, run_bind]
      have hz := toDdCond_t cfg f (.optChain o b sp) s h
      have hnb := toDdCond_nb cfg f (.optChain o b sp) s rfl
      have hlf := toDdCond_leaf cfg f (.optChain o b sp) s rfl
      have hna0 := toDdCond_na cfg f (.optChain o b sp) s rfl
      generalize toDdCond cfg f (.optChain o b sp) s = C at hz hnb hlf hna0
      obtain ⟨⟨e', res⟩, s1⟩ := C
      simp only at hz hnb hlf hna0 ⊢
      have z2 : tgood s1.idents (res.getD e') = true := by
        cases res with
        | none => exact hz.1
        | some r => exact hz.2.1 r rfl
      have nb2 : isClosed (res.getD e') = false := by
        have h1 : isBlockNode (res.getD e') = false := by
          cases res with
          | none => exact hnb.1
          | some r => exact hnb.2 r rfl
        have h2 : isArrowNode (res.getD e') = false := by
          cases res with
          | none => exact hna0.1
          | some r => exact hna0.2 r rfl
        simp [isClosed, h1, h2]
      have nt2 : isTempIdent (res.getD e') = false := by
        have : leaf (res.getD e') = false := by
          cases res with
          | none => exact hlf.1
          | some r => exact hlf.2 r rfl
        generalize res.getD e' = x at this
        cases x <;> simp_all [leaf, isTempIdent, Node.isIdent]
      have h3 := mapKids_T _ (hv false) (res.getD e') s1 nb2 nt2 z2
      generalize mapKidsM mapM' (visit cfg f false) (res.getD e') s1 = K at h3
      obtain ⟨e3, s3⟩ := K
      obtain ⟨g3, i3⟩ := h3
      exact vt_finish _ s root _ _ g3 (IdSub.trans hz.2.2 i3)
    | _ =>
      simp only [visit]
      exact mapKids_T _ (hv root) _ s rfl rfl h

end IastModel

import IastModel.Lemmas.BlockRewrite
namespace IastModel
open Node

theorem mapM'_BRL (g : Node → M Node) (hg : ∀ k s, BR k (g k s).1) : ∀ (ks : List Node) (s : St), BRL ks (mapM' g ks s).1 := by
  intro ks
  induction ks with
  | nil => intro s; exact BRL.nil
  | cons k ks ih =>
    intro s
    simp only [mapM', run_bind, run_pure]
    exact BRL.cons (hg k s) (ih _)

/-- the block visitor only ever replaces block statements -/
theorem blockVisit_BR (cfg : Config) (opFuel : Nat) : ∀ (f : Nat) (n : Node) (s : St), BR n (blockVisit cfg opFuel f n s).1 := by
  intro f
  induction f with
  | zero => intro n s; simp only [blockVisit, run_bind, run_pure]; exact BR.refl n
  | succ f ih =>
    intro n s
    by_cases hb : isBlockNode n = true
    · cases n with
      | block ss sp =>
        obtain ⟨ss', h'⟩ := blockVisit_isBlock cfg opFuel (f + 1) ss sp s
        rw [h']; exact BR.blk _ _ _
      | _ => simp [isBlockNode] at hb
    · simp only [Bool.not_eq_true] at hb
      rw [blockVisit_generic cfg opFuel f n hb]
      simp only [mapKidsM, run_bind, run_pure]
      exact BR.node' hb (mapM'_BRL _ ih _ _)

/-- no block statement anywhere in the tree -/
def noBlk (n : Node) : Bool := Node.all (fun k => !isBlockNode k) n
def noBlkL (l : List Node) : Bool := l.all noBlk

theorem noBlk_eq (n : Node) : noBlk n = (!isBlockNode n && noBlkL n.kids) := by
  unfold noBlk noBlkL; rw [Node.all_eq]; rfl

@[simp] theorem noBlkL_nil : noBlkL [] = true := rfl
@[simp] theorem noBlkL_cons (x : Node) (xs : List Node) : noBlkL (x :: xs) = (noBlk x && noBlkL xs) := by simp [noBlkL]
@[simp] theorem noBlkL_append (xs ys : List Node) : noBlkL (xs ++ ys) = (noBlkL xs && noBlkL ys) := by simp [noBlkL]

theorem BR_noBlk : ∀ a : Node, noBlk a = true → ∀ b, BR a b → b = a := by
  apply Node.ind
  intro a ih ha b hb
  rw [noBlk_eq] at ha
  simp only [Bool.and_eq_true, Bool.not_eq_true'] at ha
  obtain ⟨ks', rfl, hk⟩ := hb.inv ha.1
  have : ks' = a.kids := by
    apply List.ext_getElem hk.1.symm
    intro i h1 h2
    have hm : a.kids[i] ∈ a.kids := List.getElem_mem h2
    have hn : noBlk a.kids[i] = true := by
      have := ha.2; unfold noBlkL at this; rw [List.all_eq_true] at this; exact this _ hm
    exact ih _ hm hn _ (hk.2 i h2 h1)
  rw [this, Node.withKids_kids]

theorem BRL_noBlk {xs ys : List Node} (h : noBlkL xs = true) (hb : BRL xs ys) : ys = xs := by
  apply List.ext_getElem hb.1.symm
  intro i h1 h2
  have hm : xs[i] ∈ xs := List.getElem_mem h2
  have hn : noBlk xs[i] = true := by
    unfold noBlkL at h; rw [List.all_eq_true] at h; exact h _ hm
  exact BR_noBlk _ hn _ (hb.2 i h2 h1)

/-- equality up to positions relates trees without blocks to trees without blocks -/
theorem eqNS_noBlk : ∀ a b : Node, eqNS a b = true → noBlk a = true → noBlk b = true := by
  intro a
  induction a using Node.rec (motive_2 := fun l => ∀ l', eqNSL l l' = true → noBlkL l = true → noBlkL l' = true) with
  | nil => rename_i l' h _; cases l' <;> simp_all [eqNSL]
  | cons x xs hx hxs =>
    rename_i l' h hn
    cases l' with
    | nil => simp [eqNSL] at h
    | cons y ys =>
      simp only [eqNSL, Bool.and_eq_true] at h
      simp only [noBlkL_cons, Bool.and_eq_true] at hn ⊢
      exact ⟨hx y h.1 hn.1, hxs ys h.2 hn.2⟩
  | _ =>
    intro b h hn
    cases b <;> simp only [eqNS, Bool.and_eq_true, Bool.false_eq_true, and_false, false_and] at h
    all_goals
      rw [noBlk_eq] at hn ⊢
      simp only [isBlockNode, kids, noBlkL_cons, noBlkL_nil, noBlkL_append, Bool.and_eq_true, Bool.not_eq_true',
        Bool.not_false, Bool.true_and, Bool.and_true, Bool.false_eq_true, false_and, Bool.not_true] at hn ⊢ <;>
      (try simp_all)

import IastModel.Lemmas.ErVisit
/-
  An optional chain that is not lowered: when no link of the chain triggers the lowering under the
  configuration, the optional-chain transform hands the expression back as it is and allocates nothing.
-/
namespace IastModel
open Node

/-- states that differ at most in the out-of-fuel flag -/
def SameButFuel (s' s : St) : Prop :=
  s'.counter = s.counter ∧ s'.idents = s.idents ∧ s'.vars = s.vars ∧ s'.status = s.status ∧ s'.incs = s.incs

theorem SameButFuel.refl (s : St) : SameButFuel s s := ⟨rfl, rfl, rfl, rfl, rfl⟩
theorem SameButFuel.trans {a b c : St} (h1 : SameButFuel a b) (h2 : SameButFuel b c) : SameButFuel a c :=
  ⟨h1.1.trans h2.1, h1.2.1.trans h2.2.1, h1.2.2.1.trans h2.2.2.1, h1.2.2.2.1.trans h2.2.2.2.1, h1.2.2.2.2.trans h2.2.2.2.2⟩

/-- `v` hands every sub-expression it is given back unchanged -/
def IdOn (v : Node → OcM Node) (P : Node → Prop) : Prop :=
  ∀ k oc s, oc.found = false → P k → (v k oc s).1.1 = k ∧ (v k oc s).1.2 = oc ∧ SameButFuel (v k oc s).2 s

theorem ocSpine_id (v : Node → OcM Node) (cfg : Config) (hv : IdOn v (fun k => noOpt cfg k = true)) (e : Node) (oc : OcSt) (s : St)
    (hf : oc.found = false) (he : noOpt cfg e = true) :
    (ocSpine v e oc s).1.1 = e ∧ (ocSpine v e oc s).1.2 = oc ∧ SameButFuel (ocSpine v e oc s).2 s := by
  have kid : ∀ k, k ∈ e.kids → noOpt cfg k = true := noOpt_kids he
  unfold ocSpine
  split
  · rename_i o callee args csp sp
    have h1 : noOpt cfg callee = true :=
      noOpt_kids (kid (.optCall callee args csp) (by simp [kids])) callee (by simp [kids])
    obtain ⟨a, b, c⟩ := hv callee oc s hf h1
    simp only [oc_bind, oc_pure]
    exact ⟨by rw [a], b, c⟩
  · rename_i o obj prop msp sp
    have h1 : noOpt cfg obj = true :=
      noOpt_kids (kid (.member obj prop msp) (by simp [kids])) obj (by simp [kids])
    obtain ⟨a, b, c⟩ := hv obj oc s hf h1
    simp only [oc_bind, oc_pure]
    exact ⟨by rw [a], b, c⟩
  · rename_i callee args sp
    split
    · simp only [oc_pure]; exact ⟨trivial, trivial, SameButFuel.refl s⟩
    · obtain ⟨a, b, c⟩ := hv callee oc s hf (kid callee (by simp [kids]))
      simp only [oc_bind, oc_pure]
      exact ⟨by rw [a], b, c⟩
  · rename_i obj prop sp
    obtain ⟨a, b, c⟩ := hv obj oc s hf (kid obj (by simp [kids]))
    simp only [oc_bind, oc_pure]
    exact ⟨by rw [a], b, c⟩
  · simp only [oc_pure]; exact ⟨trivial, trivial, SameButFuel.refl s⟩

theorem ocVisit_id (cfg : Config) : ∀ (f : Nat) (n : Node) (oc : OcSt) (s : St), oc.found = false → noOpt cfg n = true →
    (ocVisit cfg f n oc s).1.1 = n ∧ (ocVisit cfg f n oc s).1.2 = oc ∧ SameButFuel (ocVisit cfg f n oc s).2 s := by
  intro f
  induction f with
  | zero =>
    intro n oc s _ _
    simp only [ocVisit, oc_bind, oc_lift, oc_pure]
    exact ⟨trivial, trivial, ⟨rfl, rfl, rfl, rfl, rfl⟩⟩
  | succ f ih =>
    intro n oc s hf hn
    unfold ocVisit
    split
    · rename_i optional base sp
      rw [oc_bind, oc_get]
      show ((ite (oc.found = true) _ _ : OcM Node) oc s).1.1 = _ ∧ ((ite (oc.found = true) _ _ : OcM Node) oc s).1.2 = _ ∧
        SameButFuel ((ite (oc.found = true) _ _ : OcM Node) oc s).2 s
      rw [if_neg (by rw [hf]; exact Bool.false_ne_true)]
      have htr : ocTrigger cfg optional base = false := by
        have := hn
        rw [noOpt_eq, Bool.and_eq_true] at this
        simpa [noOptK] using this.1
      rw [if_neg (by rw [htr]; exact Bool.false_ne_true)]
      exact ocSpine_id (ocVisit cfg f) cfg (fun k oc' s' hf' hk => ih k oc' s' hf' hk) _ oc s hf hn
    · rw [oc_pure]; exact ⟨rfl, rfl, SameButFuel.refl s⟩

end IastModel

namespace IastModel
open Node

/-- `to_dd_cond_expr` on a chain that is not lowered: nothing happens -/
theorem toDdCond_id (cfg : Config) (fuel : Nat) (e : Node) (s : St) (h : noOpt cfg e = true) :
    (toDdCond cfg fuel e s).1 = (e, none) ∧ SameButFuel (toDdCond cfg fuel e s).2 s := by
  have hid := ocVisit_id cfg fuel e {} s rfl h
  unfold toDdCond
  simp only [run_bind, StateT.run]
  generalize ocVisit cfg fuel e {} s = R at hid
  obtain ⟨⟨e', oc⟩, s1⟩ := R
  obtain ⟨a, b, c⟩ := hid
  dsimp only at a b c ⊢
  subst a b
  simp only [run_pure]
  exact ⟨trivial, c⟩

end IastModel

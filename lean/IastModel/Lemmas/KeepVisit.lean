import IastModel.Lemmas.KeepShape
namespace IastModel
open Node

/-- the operation visitor keeps every string-literal node (possibly in several copies) and adds none -/
theorem visit_K (B : Node) (cfg : Config) (ok : String → Bool) (hcfg : CfgOk ok cfg) :
    ∀ (f : Nat) (root : Bool) (n : Node) (s : St), ns n = 0 → targetsOk n = true → StOk s →
      cb B n ≤ cb B (visit cfg f root n s).1 := by
  intro f
  induction f with
  | zero => intro root n s _ _ _; simp only [visit, run_bind, run_pure]; exact Nat.le_refl _
  | succ f ih =>
    intro root n s h0 ht hs
    have hv : ∀ r, VHyp ok (visit cfg f r) := fun r k s h0 ht hs => visit_spec ok cfg hcfg f r k s h0 ht hs
    have hkids : ∀ (r : Bool) (ks : List Node) (s : St), nsL ks = 0 → (∀ k ∈ ks, targetsOk k = true) → StOk s →
        cbL B ks ≤ cbL B (mapM' (visit cfg f r) ks s).1 := by
      intro r ks
      induction ks with
      | nil => intro s _ _ _; exact Nat.le_refl _
      | cons k ks ihk =>
        intro s hz htk hs
        simp only [nsL_cons] at hz
        simp only [mapM', run_bind, run_pure, cbL_cons]
        have hk1 := ih r k s (by omega) (htk k (by simp)) hs
        have hsp := visit_spec ok cfg hcfg f r k s (by omega) (htk k (by simp)) hs
        exact Nat.add_le_add hk1 (ihk _ (by omega) (fun x hx => htk x (by simp [hx])) (hsp.2.1.stOk hs))
    have hgen : ∀ (r : Bool) (n : Node) (s : St), isBA n = false → ns n = 0 → targetsOk n = true → StOk s →
        cb B n ≤ cb B (mapKidsM mapM' (visit cfg f r) n s).1 := by
      intro r n s hba h0 ht hs
      simp only [mapKidsM, run_bind, run_pure]
      have hl : (mapM' (visit cfg f r) n.kids s).1.length = n.kids.length := by
        have := mapVisit_spec ok (visit cfg f r) (hv r) n.kids s (nsL_kids_of_ns0 h0) (targetsOk_kids ht) hs
        exact (Forall2.length_eq this.2.2).symm
      rw [cb_eq (n := n.withKids _), Node.kids_withKids n _ hl, isBAt_withKids _ _ _ hba, cb_eq (n := n)]
      exact Nat.add_le_add (Nat.le_refl _) (hkids r n.kids s (nsL_kids_of_ns0 h0) (targetsOk_kids ht) hs)
    cases n with
    | ident nm sp => simp only [visit, run_bind, run_pure]; exact Nat.le_refl _
    | block ss sp => simp only [visit, run_pure]; exact Nat.le_refl _
    | arrow ps b at' sp =>
      simp only [visit, run_pure]
      exact cb_toDdArrow B _
    | unary op a sp =>
      simp only [visit]
      split
      · simp only [run_pure]; exact Nat.le_refl _
      · exact hgen root _ s rfl h0 ht hs
    | bin op l r sp =>
      simp only [visit]
      split
      · simp only [run_bind]
        have hn1 := hgen false (.bin op l r sp) s rfl h0 ht hs
        obtain ⟨ks', h1, hl, g, e, p⟩ := mapKids_spec' ok _ (hv false) (.bin op l r sp) s h0 ht hs
        generalize mapKidsM mapM' (visit cfg f false) (.bin op l r sp) s = K at h1 hn1
        obtain ⟨n1, s1⟩ := K
        simp only at h1 hn1 ⊢
        match ks', hl, h1 with
        | [l', r'], _, h1 =>
          simp only [withKids, List.getD_cons_zero, List.getD_cons_succ] at h1
          subst h1
          split
          · simp only [run_bind, run_pure]
            have h2 := toDdBinary_K B cfg op l' r' sp s1
            generalize toDdBinary cfg (.bin op l' r' sp) s1 = X at h2
            obtain ⟨res, s2⟩ := X
            simp only at h2 ⊢
            rw [finish_fst]
            cases res with
            | none => exact hn1
            | some e' =>
              simp only [Option.getD_some]
              exact Nat.le_trans hn1 (by simp only [cb_bin]; exact (h2 e' rfl).1)
          · simp only [run_bind, run_pure]
            rw [finish_fst]; exact hn1
      · exact hgen root _ s rfl h0 ht hs
    | assign op l r sp =>
      simp only [visit]
      split
      · simp only [run_bind]
        have hn1 := hgen false (.assign op l r sp) s rfl h0 ht hs
        obtain ⟨ks', h1, hl, g, e, p⟩ := mapKids_spec' ok _ (hv false) (.assign op l r sp) s h0 ht hs
        generalize mapKidsM mapM' (visit cfg f false) (.assign op l r sp) s = K at h1 hn1
        obtain ⟨n1, s1⟩ := K
        simp only at h1 hn1 ⊢
        match ks', hl, h1 with
        | [l', r'], _, h1 =>
          simp only [withKids, List.getD_cons_zero, List.getD_cons_succ] at h1
          subst h1
          split
          · simp only [run_bind, run_pure]
            have h2 := toDdAssign_K B cfg op l' r' sp s1
            generalize toDdAssign cfg (.assign op l' r' sp) s1 = X at h2
            obtain ⟨res, s2⟩ := X
            simp only at h2 ⊢
            rw [finish_fst]
            cases res with
            | none => exact hn1
            | some e' => simp only [Option.getD_some]; exact Nat.le_trans hn1 (h2 e' rfl).1
          · simp only [run_bind, run_pure]
            rw [finish_fst]; exact hn1
      · exact hgen root _ s rfl h0 ht hs
    | tpl es qs sp =>
      simp only [visit]
      split
      · split
        · simp only [run_bind]
          have hn1 := hgen false (.tpl es qs sp) s rfl h0 ht hs
          obtain ⟨ks', h1, hl, g, e, p⟩ := mapKids_spec' ok _ (hv false) (.tpl es qs sp) s h0 ht hs
          generalize mapKidsM mapM' (visit cfg f false) (.tpl es qs sp) s = K at h1 hn1
          obtain ⟨n1, s1⟩ := K
          simp only at h1 hn1 ⊢
          simp only [withKids] at h1
          subst h1
          have h2 := toDdTpl_K B cfg (ks'.take es.length) (ks'.drop es.length) sp s1
          generalize toDdTpl cfg (.tpl (ks'.take es.length) (ks'.drop es.length) sp) s1 = X at h2
          obtain ⟨res, s2⟩ := X
          simp only at h2 ⊢
          rw [finish_fst]
          cases res with
          | none => exact hn1
          | some e' =>
            simp only [Option.getD_some]
            exact Nat.le_trans hn1 (h2 e' rfl).1
        · simp only [run_pure]; exact Nat.le_refl _
      · exact hgen root _ s rfl h0 ht hs
    | call c as sp =>
      simp only [visit, run_bind]
      have hn1 := hgen false (.call c as sp) s rfl h0 ht hs
      obtain ⟨ks', h1, hl, g, e, p⟩ := mapKids_spec' ok _ (hv false) (.call c as sp) s h0 ht hs
      generalize mapKidsM mapM' (visit cfg f false) (.call c as sp) s = K at h1 hn1
      obtain ⟨n1, s1⟩ := K
      simp only at h1 hn1 ⊢
      match ks', hl, h1 with
      | c' :: as', _, h1 =>
        simp only [withKids, List.getD_cons_zero, List.drop_succ_cons, List.drop_zero] at h1
        subst h1
        simp only
        split
        · simp only [run_bind, run_pure]
          rw [finish_fst]; exact hn1
        · simp only [run_bind]
          have h2 := toDdCall_K B cfg c' as' sp s1
          generalize toDdCall cfg (.call c' as' sp) s1 = X at h2
          obtain ⟨res, s2⟩ := X
          simp only at h2 ⊢
          cases res with
          | none =>
            simp only [run_bind, run_pure]
            rw [finish_fst]; exact hn1
          | some et =>
            obtain ⟨e', tag⟩ := et
            simp only [run_bind, run_pure]
            rw [finish_fst]
            exact Nat.le_trans hn1 (by simp only [cb_call]; exact (h2 e' tag rfl).1)
    | optChain o b sp =>
      simp only [visit, run_bind]
      have hE := toDdCond_K B cfg f (.optChain o b sp) s h0
      have hz := toDdCond_z cfg f (.optChain o b sp) s h0
      have hb := toDdCond_b cfg f (.optChain o b sp) s ((bad_zero_iff _).mpr ht)
      have hba := toDdCond_ba cfg f (.optChain o b sp) s rfl
      generalize toDdCond cfg f (.optChain o b sp) s = C at hE hz hb hba
      obtain ⟨⟨e', res⟩, s1⟩ := C
      simp only at hE hz hb hba ⊢
      have z2 : ns (res.getD e') = 0 := by
        cases res with
        | none => exact hz.1
        | some r => exact hz.2.1 r rfl
      have b2 : targetsOk (res.getD e') = true := by
        apply (bad_zero_iff _).mp
        cases res with
        | none => exact hb.1
        | some r => exact hb.2.1 r rfl
      have e0 : Eff s s1 0 := Eff.of_TS hz.2.2
      rw [finish_fst]
      have ba2 : isBA (res.getD e') = false := by
        cases res with
        | none => exact hba.1
        | some r => exact hba.2 r rfl
      have := hgen false (res.getD e') s1 ba2 z2 b2 (e0.stOk hs)
      rw [hE] at this
      exact this
    | _ =>
      simp only [visit]
      exact hgen root _ s rfl h0 ht hs

end IastModel

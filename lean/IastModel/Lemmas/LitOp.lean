import IastModel.Lemmas.LitCount
namespace IastModel
open Node

/-- conservation for the operand handler: every effect node that leaves the operand position arrives in
    the assignments; the argument list only receives copies without effect nodes -/
def OpL (v : String) (sp0 : Span) (e : Node) (asg args : List Node) (R : (Node × List Node × List Node) × St) : Prop :=
  cl v sp0 R.1.1 + clL v sp0 R.1.2.1 = cl v sp0 e + clL v sp0 asg ∧ clL v sp0 args ≤ clL v sp0 R.1.2.2 ∧ clL v sp0 R.1.2.2 ≤ clL v sp0 args + cl v sp0 e

def OpLL (v : String) (sp0 : Span) (xs : List Node) (asg args : List Node) (R : (List Node × List Node × List Node) × St) : Prop :=
  clL v sp0 R.1.1 + clL v sp0 R.1.2.1 = clL v sp0 xs + clL v sp0 asg ∧ clL v sp0 args ≤ clL v sp0 R.1.2.2 ∧ clL v sp0 R.1.2.2 ≤ clL v sp0 args + clL v sp0 xs

theorem replaceDefault_L (v : String) (sp0 : Span) (e : Node) (asg args : List Node) (sp : Span) (k : IdentKind) (s : St) :
    OpL v sp0 e asg args (replaceDefault e asg args sp k s) := by
  unfold replaceDefault
  simp only [run_bind, run_pure]
  rcases getIdentUsed_cases e asg args sp k s with ⟨hl, h⟩ | ⟨hl, n, s', h, _⟩
  · rw [h]; simp [OpL, cl_exprOrSpread]
  · rw [h]; simp [OpL, cl_exprOrSpread, tempIdent, cl_assignRight]; omega

theorem replaceExprNoExpand_L (v : String) (sp0 : Span) (e : Node) (mode : IdentMode) (asg args : List Node) (sp : Span) (k : IdentKind) (s : St) :
    OpL v sp0 e asg args (replaceExprNoExpand e mode asg args sp k s) := by
  cases e with
  | lit kk v' r lsp => simp [replaceExprNoExpand, run_pure, OpL, cl_exprOrSpread]
  | ident nm isp =>
    cases mode with
    | replace => simp only [replaceExprNoExpand]; exact replaceDefault_L v sp0 _ _ _ _ _ _
    | keep => simp [replaceExprNoExpand, run_pure, OpL, cl_exprOrSpread]
  | bin op l r bsp =>
    simp only [replaceExprNoExpand]
    by_cases hop : (op != "+") = true
    · simp only [hop, if_true]; exact replaceDefault_L v sp0 _ _ _ _ _ _
    · simp only [hop, Bool.false_eq_true, if_false]
      by_cases hls : isLiteralSum (.bin op l r bsp) = true
      · simp only [hls, if_true, run_pure]
        refine ⟨rfl, ?_, ?_⟩ <;> simp only [clL_append, clL_cons, clL_nil, cl_exprOrSpread] <;> omega
      · simp [hls, run_pure, OpL]
  | _ => simp only [replaceExprNoExpand]; exact replaceDefault_L v sp0 _ _ _ _ _ _

theorem replaceArgNoExpand_L (v : String) (sp0 : Span) (a : Node) (mode : IdentMode) (asg args : List Node) (sp : Span) (s : St) :
    OpL v sp0 a asg args (replaceArgNoExpand a mode asg args sp s) := by
  cases a with
  | arg spread e =>
    simp only [replaceArgNoExpand, run_bind, run_pure]
    have h := replaceExprNoExpand_L v sp0 e mode asg args sp (if spread.isSome = true then IdentKind.spread else IdentKind.expr) s
    simpa [OpL] using h
  | _ => simp [replaceArgNoExpand, run_pure, OpL]

theorem replaceElem_L (v : String) (sp0 : Span) (a : Node) (mode : IdentMode) (asg args : List Node) (sp : Span) (s : St) :
    OpL v sp0 a asg args (replaceElem a mode asg args sp s) := by
  cases a with
  | arg spread e => exact replaceArgNoExpand_L v sp0 _ mode asg args sp s
  | _ =>
    have hv : cl v sp0 voidZero = 0 := by
      simp only [voidZero, cl_unary, cl_lit]
      have : ("NumericLiteral" == "StringLiteral") = false := by decide
      simp [this]
    simp [replaceElem, run_pure, OpL, hv]

theorem opLL_cons (v : String) (sp0 : Span) (g : Node → List Node → List Node → M (Node × List Node × List Node))
    (gs : List Node → List Node → List Node → M (List Node × List Node × List Node))
    (x : Node) (xs asg args : List Node) (s : St)
    (h1 : OpL v sp0 x asg args (g x asg args s))
    (h2 : ∀ asg1 args1 s1, OpLL v sp0 xs asg1 args1 (gs xs asg1 args1 s1)) :
    OpLL v sp0 (x :: xs) asg args
      (let R1 := g x asg args s
       let R2 := gs xs R1.1.2.1 R1.1.2.2 R1.2
       ((R1.1.1 :: R2.1.1, R2.1.2.1, R2.1.2.2), R2.2)) := by
  obtain ⟨a1, a2⟩ := h1
  obtain ⟨b1, b2⟩ := h2 (g x asg args s).1.2.1 (g x asg args s).1.2.2 (g x asg args s).2
  simp only [OpLL, clL_cons]
  exact ⟨by omega, by omega⟩

theorem replaceElems_L (v : String) (sp0 : Span) (mode : IdentMode) (sp : Span) : ∀ (xs asg args : List Node) (s : St),
    OpLL v sp0 xs asg args (replaceElems mode sp xs asg args s) := by
  intro xs
  induction xs with
  | nil => intro asg args s; simp [replaceElems, run_pure, OpLL]
  | cons x xs ih =>
    intro asg args s
    have := opLL_cons v sp0 (fun a b c => replaceElem a mode b c sp) (fun a b c => replaceElems mode sp a b c) x xs asg args s
      (replaceElem_L v sp0 x mode asg args sp s) (fun a b c => ih a b c)
    simpa only [replaceElems, run_bind, run_pure] using this

theorem replaceExpr_L (v : String) (sp0 : Span) (e : Node) (mode : IdentMode) (asg args : List Node) (sp : Span) (k : IdentKind)
    (expand : Bool) (s : St) : OpL v sp0 e asg args (replaceExpr e mode asg args sp k expand s) := by
  unfold replaceExpr
  split
  · rename_i elems asp
    simp only [run_bind, run_pure]
    have h := replaceElems_L v sp0 mode sp elems asg args s
    generalize replaceElems mode sp elems asg args s = R at h
    obtain ⟨⟨xs', asg2, args2⟩, s2⟩ := R
    simpa [OpL, OpLL] using h
  · exact replaceExprNoExpand_L v sp0 e mode asg args sp k s

theorem replaceArg_L (v : String) (sp0 : Span) (a : Node) (mode : IdentMode) (asg args : List Node) (sp : Span) (expand : Bool) (s : St) :
    OpL v sp0 a asg args (replaceArg a mode asg args sp expand s) := by
  cases a with
  | arg spread e =>
    simp only [replaceArg, run_bind, run_pure]
    have h := replaceExpr_L v sp0 e mode asg args sp (if spread.isSome = true then IdentKind.spread else IdentKind.expr) expand s
    simpa [OpL] using h
  | _ => simp [replaceArg, run_pure, OpL]

theorem replaceArgs_L (v : String) (sp0 : Span) (mode : IdentMode) (sp : Span) (expand : Bool) : ∀ (xs asg args : List Node) (s : St),
    OpLL v sp0 xs asg args (replaceArgs mode sp expand xs asg args s) := by
  intro xs
  induction xs with
  | nil => intro asg args s; simp [replaceArgs, run_pure, OpLL]
  | cons x xs ih =>
    intro asg args s
    have := opLL_cons v sp0 (fun a b c => replaceArg a mode b c sp expand) (fun a b c => replaceArgs mode sp expand a b c) x xs asg args s
      (replaceArg_L v sp0 x mode asg args sp expand s) (fun a b c => ih a b c)
    simpa only [replaceArgs, run_bind, run_pure] using this

theorem replaceTplExprs_L v sp0 : ∀ (xs asg args : List Node) (s : St),
    OpLL v sp0 xs asg args (replaceTplExprs xs asg args s) := by
  intro xs
  induction xs with
  | nil => intro asg args s; simp [replaceTplExprs, run_pure, OpLL]
  | cons x xs ih =>
    intro asg args s
    have hx : OpL v sp0 x asg args (replaceExpr (tplOperand x) .replace asg args x.span .expr false s) := by
      have h := replaceExpr_L v sp0 (tplOperand x) .replace asg args x.span .expr false s
      have : cl v sp0 (tplOperand x) = cl v sp0 x := by unfold tplOperand; split <;> simp
      simpa [OpL, this] using h
    have := opLL_cons v sp0 (fun a b c => replaceExpr (tplOperand a) .replace b c a.span .expr false) (fun a b c => replaceTplExprs a b c) x xs asg args s
      hx (fun a b c => ih a b c)
    simpa only [replaceTplExprs, run_bind, run_pure] using this

end IastModel

import IastModel.Lemmas.ErAssign3
namespace IastModel
open Node

theorem beq_refl_node : ∀ n : Node, Node.beq n n = true := by
  intro n
  induction n using Node.rec (motive_2 := fun l => Node.beqL l l = true) with
  | nil => rfl
  | cons x xs hx hxs => simp [Node.beqL, hx, hxs]
  | ident nm sp => simp [Node.beq, Node.name_beq_refl, span_beq_refl']
  | arg s e ih => cases s <;> simp_all [Node.beq, span_beq_refl']
  | _ => simp_all [Node.beq, span_beq_refl']

theorem node_beq_refl (n : Node) : (n == n) = true := beq_refl_node n

/-- the receiver of an instrumented call when it is a literal: it stays where it is -/
theorem recv_lit (cx : Cx) (lo hi : Nat) (obj' obj : Node) (s : St) (hl : obj'.isLit = true)
    (hE : Er cx lo hi obj' obj) :
    ∀ asg0'', BRgL [] asg0'' → ∀ σ, cx.ext σ → ∃ X Δ0, eraseAsg σ asg0'' = Δ0 ++ σ ∧ ESim X obj ∧ WinU lo hi s.counter s.counter Δ0 ∧
      ∀ Δ2, Avoid s.counter s.counter Δ2 → erase (Δ2 ++ (Δ0 ++ σ)) obj' = (X, Δ2 ++ (Δ0 ++ σ)) := by
  intro asg0'' ha σ hσ
  rw [BRgL.nil_inv ha]
  obtain ⟨X, Δ, eX, sX, _⟩ := hE _ (BRg.refl _) σ hσ
  have hlit : ∀ σ', erase σ' obj' = (obj', σ') := by
    intro σ'; cases obj' <;> simp_all [Node.isLit, erase]
  have : X = obj' := by rw [hlit] at eX; exact (congrArg Prod.fst eX).symm
  subst this
  exact ⟨X, [], rfl, sX, WinU.nil _ _ _ _, fun Δ2 _ => hlit _⟩

/-- the receiver hoisted into a temporary -/
theorem recv_temp (cx : Cx) (lo hi : Nat) (obj' obj : Node) (csp : Span) (s s0 : St) (hc : s0.counter = s.counter + 1)
    (hE : Er cx lo hi obj' obj) :
    ∀ asg0'', BRgL ([] ++ [.assign "=" (tempIdent s.counter) (assignRight obj' .expr) csp]) asg0'' →
    ∀ σ, cx.ext σ → ∃ X Δ0, eraseAsg σ asg0'' = Δ0 ++ σ ∧
      ESim X obj ∧ WinU lo hi s.counter s0.counter Δ0 ∧
      ∀ Δ2, Avoid s.counter s0.counter Δ2 → erase (Δ2 ++ (Δ0 ++ σ)) (tempIdent s.counter) = (X, Δ2 ++ (Δ0 ++ σ)) := by
  intro asg0'' ha σ hσ
  simp only [List.nil_append] at ha
  obtain ⟨a'', rfl, ha2⟩ := BRgL.single_inv ha
  obtain ⟨e'', rfl, he⟩ := tempAssign_BRg_inv ha2
  obtain ⟨X, Δe, eX, sX, wX⟩ := hE e'' he σ hσ
  refine ⟨X, (s.counter, X) :: Δe, ?_, sX, ?_, ?_⟩
  · simp only [eraseAsg, erase_tempAssign]
    obtain ⟨a, b⟩ := erase_assignRight σ (Δe ++ σ) e'' X .expr eX sX.2.2
    rw [a, b]; rfl
  · intro p hp
    rcases List.mem_cons.mp hp with hp | hp
    · subst hp; right; dsimp only; omega
    · exact Or.inl (wX p hp)
  · intro Δ2 hav
    simp only [tempIdent, erase_temp]
    rw [Env.get_append_of_notin _ _ _ (by intro p hp; have := hav p hp; omega)]
    simp only [List.cons_append, Env.get_cons_same]
    rfl

theorem allTA_single (k : Nat) (r : Node) (sp : Span) : AllTA ([] ++ [Node.assign "=" (tempIdent k) r sp]) := by
  intro a ha
  simp only [List.nil_append, List.mem_singleton] at ha
  subst ha
  simp [isTempAssign, tempIdent]

theorem erase_call_viaTemp (σ : Env) (t : Nat) (isp : Span) (ca : String) (casp msp : Span) (args : List Node) (sp : Span)
    (f : Node) (hf : σ.get t = some f) :
    erase σ (.call (.member (.ident (.temp t) isp) (.pname ca casp) msp) args sp) =
      (resolveCall f ca casp msp (eraseL σ args).1 sp, (eraseL σ args).2) := by
  simp only [erase, calleeKind, hf]

theorem erase_call_plain (σ : Env) (c : Node) (args : List Node) (sp : Span) (h : calleeKind c = .plain) :
    erase σ (.call c args sp) =
      (.call (erase σ c).1 (eraseL (erase σ c).2 args).1 sp, (eraseL (erase σ c).2 args).2) := by
  simp only [erase, h]

theorem eraseL_cons' (σ : Env) (x : Node) (xs : List Node) :
    eraseL σ (x :: xs) = ((erase σ x).1 :: (eraseL (erase σ x).2 xs).1, (eraseL (erase σ x).2 xs).2) := by
  simp only [eraseL]

/-- `replace_call_expr_if_csi_method_with_member` after the receiver has been handled -/
def callTail (csi : CsiMethod) (expr : Node) (method : String) (msp : Span) (callee : Node) (cargs : List Node) (csp : Span)
    (memberOpt : Option Node) (callOrApply : Option String) (idR : Node) (asg0 : List Node) : M (Option (Node × String)) := do
  let memberExpr := match memberOpt with
    | some m => m
    | none => Node.member idR (.pname method msp) csp
  let (identCallee, asg1, args1) ← getIdentUsed memberExpr asg0 [] csp .expr
  let args2 := args1 ++ [.arg none idR]
  let calleeExpr := match identCallee with
    | some n => tempIdent n
    | none => expr
  let (callRepl, asg3, args3) ← replaceCallCalleeAndArgs callee cargs csp (some calleeExpr) asg1 args2 callOrApply
  pure (some (ddParen (insertThis callRepl idR) args3 asg3 csi.dst csp, method))

theorem replaceCallWithMember_eq (cfg : Config) (expr : Node) (method : String) (msp : Span) (callee : Node)
    (cargs : List Node) (csp : Span) (memberOpt : Option Node) (callOrApply : Option String) (s : St) :
    replaceCallWithMember cfg expr method msp callee cargs csp memberOpt callOrApply s =
      match cfg.get method with
      | none => (none, s)
      | some csi =>
        callTail csi expr method msp callee cargs csp memberOpt callOrApply
          (match (getTemporalIdent expr [] csp .expr s).1.1 with | some n => tempIdent n | none => expr)
          (getTemporalIdent expr [] csp .expr s).1.2 (getTemporalIdent expr [] csp .expr s).2 := by
  unfold replaceCallWithMember callTail
  cases cfg.get method with
  | none => rfl
  | some csi => simp only [run_bind, run_pure]; rfl

/-- the erasure of the call through the hoisted function value -/
theorem viaTemp_core (σf Δ3 : Env) (t1 : Nat) (ca : String) (csp : Span) (idR F X : Node) (xs Xs : List Node)
    (hget : σf.get t1 = some F)
    (hthis : erase σf idR = (X, σf))
    (hxs : eraseL σf xs = (Xs, Δ3 ++ σf)) :
    erase σf (.call (.member (tempIdent t1) (.pname ca csp) csp) (.arg none idR :: xs) csp) =
      (resolveCall F ca csp csp (.arg none X :: Xs) csp, Δ3 ++ σf) := by
  simp only [tempIdent]
  rw [erase_call_viaTemp _ _ _ _ _ _ _ _ _ hget, eraseL_cons']
  simp only [erase, hthis, hxs]

theorem noBlk_memberE {o p : Node} {sp : Span} (ho : noBlk o = true) (hp : noBlk p = true) : noBlk (.member o p sp) = true := by
  rw [noBlk_eq]
  simp only [isBlockNode, kids, noBlkL_cons, noBlkL_nil, ho, hp]
  rfl

theorem noBlk_tempAssignE {k : Nat} {r : Node} {sp : Span} (hr : noBlk r = true) : noBlk (.assign "=" (tempIdent k) r sp) = true := by
  rw [noBlk_eq]
  simp only [isBlockNode, kids, noBlkL_cons, noBlkL_nil, noBlk_tempIdentE, hr]
  rfl

/-- the method-call form: `(t0 = recv, t1 = t0.m, hook(t1.call(t0, args…), t1, t0, args…))` erases to `recv.m(args…)` -/
theorem callTail_plain_Er (csi : CsiMethod) (cx : Cx) (lo hi : Nat) (obj' obj : Node) (method : String) (msp : Span)
    (callee' : Node) (cargs' cargs : List Node) (csp : Span) (p2 : Node) (cs2 : Span) (s s0 : St)
    (idR : Node) (asg0 : List Node)
    (hw : HypW cx hi s) (hlo : lo ≤ s.counter)
    (hp2 : strip p2 = .pname method Span.dummy)
    (ha : Forall2 (fun a' a => Er cx lo hi a' a ∧ DeepEr cx lo hi a' a) cargs' cargs)
    (c0 : s.counter ≤ s0.counter) (ta0 : AllTA asg0) (inR : Inert idR) (nbR : noBlk idR = true)
    (P0 : ∀ asg0'', BRgL asg0 asg0'' → ∀ σ, cx.ext σ → ∃ X Δ0, eraseAsg σ asg0'' = Δ0 ++ σ ∧ ESim X obj ∧
        WinU lo hi s.counter s0.counter Δ0 ∧
        ∀ Δ2, Avoid s.counter s0.counter Δ2 → erase (Δ2 ++ (Δ0 ++ σ)) idR = (X, Δ2 ++ (Δ0 ++ σ))) :
    let R := callTail csi obj' method msp callee' cargs' csp none none idR asg0 s0
    s.counter ≤ R.2.counter ∧ ∀ e1 tag, R.1 = some (e1, tag) →
      Er cx lo R.2.counter e1 (.call (.member obj p2 cs2) cargs csp) := by
  intro R
  show s.counter ≤ R.2.counter ∧ _
  unfold R callTail
  simp only [run_bind, run_pure]
  rcases getIdentUsed_casesC (Node.member idR (.pname method msp) csp) asg0 [] csp .expr s0 with ⟨hl, _⟩ | ⟨_, s1, h1, c1⟩
  · simp [Node.isLit] at hl
  · rw [h1]
    simp only [Option.getD_none]
    have hw1 : HypW cx hi s1 := hw.mono (by omega)
    have hL := replaceArgs_Er cx lo hi .replace csp (Generated.callMethodName == Generated.applyMethodName) cargs' cargs
      (asg0 ++ [.assign "=" (tempIdent s0.counter) (assignRight (Node.member idR (.pname method msp) csp) .expr) csp])
      ([] ++ [exprOrSpread (tempIdent s0.counter) .expr] ++ [.arg none idR]) s1 hw1 ha
    unfold replaceCallCalleeAndArgs
    simp only [run_bind, run_pure, Option.getD_none]
    generalize replaceArgs .replace csp (Generated.callMethodName == Generated.applyMethodName) cargs'
      (asg0 ++ [.assign "=" (tempIdent s0.counter) (assignRight (Node.member idR (.pname method msp) csp) .expr) csp])
      ([] ++ [exprOrSpread (tempIdent s0.counter) .expr] ++ [.arg none idR]) s1 = RA at hL ⊢
    obtain ⟨⟨xs, asg3, args3⟩, s3⟩ := RA
    obtain ⟨new, more, ea, eg, ta, inn, nb, c3, A, B⟩ := hL
    dsimp only at ea eg c3 A B ⊢
    refine ⟨by omega, ?_⟩
    intro e1 tag he
    simp only [Option.some.injEq, Prod.mk.injEq] at he
    obtain ⟨rfl, -⟩ := he
    subst ea eg
    have hnbm : noBlk (Node.member idR (.pname method msp) csp) = true := noBlk_memberE nbR (noBlk_pnameE _ _)
    have hnbArgs : noBlkL ([] ++ [exprOrSpread (tempIdent s0.counter) .expr] ++ [.arg none idR] ++ more) = true := by
      simp [noBlk_exprOrSpreadE .expr (noBlk_tempIdentE _), noBlk_argE nbR, nb]
    intro m hbr σ hσ
    -- what a replacement of nested blocks can have touched
    obtain ⟨first'', asg3'', rfl, hfirst, hasg⟩ := ddParen_BRg_inv hbr hnbArgs
    simp only [insertThis] at hfirst
    obtain ⟨c'', as'', rfl, hcc, has⟩ := hfirst.call_inv
    obtain ⟨a0'', xs'', rfl, ha0, hxs⟩ := BRgL.cons_inv has
    rw [BRg_noBlk (noBlk_memberE (noBlk_tempIdentE _) (noBlk_pnameE _ _)) hcc, BRg_noBlk (noBlk_argE nbR) ha0]
    obtain ⟨k12, new'', rfl, h12, hnew⟩ := BRgL.append_inv hasg
    obtain ⟨asg0'', k2, rfl, h0, hk2⟩ := BRgL.append_inv h12
    obtain ⟨am'', rfl, ham⟩ := BRgL.single_inv hk2
    rw [BRg_noBlk (noBlk_tempAssignE (by simpa [assignRight] using hnbm)) ham]
    obtain ⟨X, Δ0, e0, sX, w0, R0⟩ := P0 asg0'' h0 σ hσ
    -- after the receiver and the member are bound
    have hmem : eraseAsg σ (asg0'' ++ [.assign "=" (tempIdent s0.counter) (assignRight (Node.member idR (.pname method msp) csp) .expr) csp])
        = (s0.counter, Node.member X (.pname method msp) csp) :: (Δ0 ++ σ) := by
      rw [eraseAsg_append, e0]
      simp only [eraseAsg]
      rw [erase_tempAssign]
      have := R0 [] (Avoid.nil _ _)
      simp only [List.nil_append] at this
      simp only [assignRight, erase, this]
      simp [unSpread]
    have hσ1 : cx.ext ((s0.counter, Node.member X (.pname method msp) csp) :: (Δ0 ++ σ)) := by
      have : ((s0.counter, Node.member X (.pname method msp) csp) :: (Δ0 ++ σ)) =
          ([(s0.counter, Node.member X (.pname method msp) csp)] ++ Δ0) ++ σ := by simp
      rw [this]
      refine Cx.ext_append hσ ?_
      refine AvoidP.append ?_ (w0.avoidCx hw)
      intro p hp hb
      simp only [List.mem_singleton] at hp
      subst hp
      have := hw.h2 _ hb
      dsimp only at this
      omega
    obtain ⟨Δa, eA, wA⟩ := A new'' hnew _ hσ1
    obtain ⟨Xs, Δ3, eXs, sXs, wXs⟩ := B new'' xs'' hnew hxs _ [] hσ1 (Avoid.nil _ _) (AvoidP.nil _)
    simp only [List.nil_append] at eXs
    have hall : AllTA (asg0'' ++ [.assign "=" (tempIdent s0.counter) (assignRight (Node.member idR (.pname method msp) csp) .expr) csp] ++ new'') := by
      refine AllTA.append (AllTA.append (ta0.BRg h0) ?_) (ta.BRg hnew)
      intro a ha'
      simp only [List.mem_singleton] at ha'
      subst ha'
      simp [isTempAssign, tempIdent]
    have hinert : InertL ([] ++ [exprOrSpread (tempIdent s0.counter) .expr] ++ [.arg none idR] ++ more) := by
      refine InertL.append (InertL.append ?_ ?_) inn
      · intro a ha'
        simp only [List.nil_append, List.mem_singleton] at ha'
        subst ha'
        exact inert_exprOrSpread _ (inert_temp _ _)
      · intro a ha'
        simp only [List.mem_singleton] at ha'
        subst ha'
        exact inert_arg inR
    -- the environment in which the call itself is erased
    have henv : eraseAsg σ (asg0'' ++ [.assign "=" (tempIdent s0.counter) (assignRight (Node.member idR (.pname method msp) csp) .expr) csp] ++ new'')
        = Δa ++ ((s0.counter, Node.member X (.pname method msp) csp) :: (Δ0 ++ σ)) := by
      rw [eraseAsg_append, hmem, eA]
    refine ⟨.call (.member X (.pname method msp) csp) Xs csp, Δ3 ++ Δa ++ [(s0.counter, Node.member X (.pname method msp) csp)] ++ Δ0, ?_, ?_, ?_⟩
    · rw [erase_ddParen _ _ _ _ _ _ hinert hall, henv]
      have hget1 : Env.get (Δa ++ ((s0.counter, Node.member X (.pname method msp) csp) :: (Δ0 ++ σ))) s0.counter
          = some (Node.member X (.pname method msp) csp) := by
        rw [Env.get_append_of_notin _ _ _ (by
          intro p hp; have := wA p hp; have := hw.h3; omega), Env.get_cons_same]
      have hthis : erase (Δa ++ ((s0.counter, Node.member X (.pname method msp) csp) :: (Δ0 ++ σ))) idR
          = (X, Δa ++ ((s0.counter, Node.member X (.pname method msp) csp) :: (Δ0 ++ σ))) := by
        have := R0 (Δa ++ [(s0.counter, Node.member X (.pname method msp) csp)]) (by
          intro p hp
          rcases List.mem_append.mp hp with hp | hp
          · have := wA p hp; have := hw.h3; omega
          · simp only [List.mem_singleton] at hp; subst hp; dsimp only; omega)
        simp only [List.append_assoc, List.singleton_append] at this
        exact this
      rw [viaTemp_core _ Δ3 _ _ _ _ _ _ _ _ hget1 hthis (by rw [← eA]; exact eXs)]
      simp only [resolveCall, beq_self_eq_true, if_true, node_beq_refl]
      simp [List.append_assoc]
    · refine ⟨?_, Or.inl rfl, noSp_call _ _ _⟩
      simp only [strip]
      rw [sX.1, hp2, show stripL Xs = stripL cargs from sXs]
    · have h3 := hw.h3
      intro p hp
      simp only [List.mem_append, List.mem_singleton] at hp
      rcases hp with ((hp | hp) | hp) | hp
      · have := wXs p hp; omega
      · have := wA p hp; omega
      · subst hp; dsimp only; omega
      · have := w0 p hp; omega

end IastModel

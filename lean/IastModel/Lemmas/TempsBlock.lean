import IastModel.Lemmas.TempsVisit
import IastModel.Lemmas.DirectivePass
import IastModel.Spec.Scope
namespace IastModel
open Node

/-- the declaration lists exactly the registered temporaries, in order -/
theorem letDecl_declares' (ids : List Nat) (sp : Span) (h : ids ≠ []) :
    injectedLet? (letDecl ids sp) = some ids := by
  unfold letDecl injectedLet?
  simp only [List.map_map]
  have hm : (List.map (declaratorTemp? ∘ fun n => Node.other "VariableDeclarator" sp ["id", "init", "definite"]
      [tempIdent n, Node.atom "null", Node.atom "false"]) ids) = ids.map some := by
    apply List.map_congr_left
    intro n _
    rfl
  rw [hm]
  have h1 : (ids.map some).isEmpty = false := by cases ids <;> simp_all
  have h2 : (ids.map some).all Option.isSome = true := by simp
  simp [h1, h2, List.filterMap_map]

/-- the temporaries declared by injected `let` statements directly in a statement list -/
def declaredAny (ss : List Node) : List Nat := (ss.filterMap injectedLet?).flatten

/-- every temporary is declared where it is used: outside block statements it must be one of `σ`; a
    block statement is checked against the injected `let`s among its own statements -/
def declOK (σ : List Nat) (n : Node) : Bool :=
  if isBlockNode n then n.kids.attach.all fun k => declOK (declaredAny n.kids) k.1
  else tempIn σ n && n.kids.attach.all fun k => declOK σ k.1
termination_by sizeOf n
decreasing_by
  · exact Node.sizeOf_lt_of_mem_kids k.2
  · exact Node.sizeOf_lt_of_mem_kids k.2

def declOKL (σ : List Nat) (l : List Node) : Bool := l.all (declOK σ)

theorem declOK_block (σ) (ss : List Node) (sp : Span) : declOK σ (.block ss sp) = declOKL (declaredAny ss) ss := by
  rw [declOK]
  simp only [isBlockNode, if_true, kids]
  rw [Node.attach_all_eq]; rfl

theorem declOK_generic (σ) (n : Node) (hb : isBlockNode n = false) : declOK σ n = (tempIn σ n && declOKL σ n.kids) := by
  rw [declOK]
  simp only [hb, Bool.false_eq_true, if_false]
  rw [Node.attach_all_eq]; rfl

@[simp] theorem declOKL_nil (σ) : declOKL σ [] = true := rfl
@[simp] theorem declOKL_cons (σ) (x : Node) (xs : List Node) : declOKL σ (x :: xs) = (declOK σ x && declOKL σ xs) := by
  simp [declOKL]
@[simp] theorem declOKL_append (σ) (xs ys : List Node) : declOKL σ (xs ++ ys) = (declOKL σ xs && declOKL σ ys) := by
  simp [declOKL, List.all_append]

theorem tempIn_mono {σ σ' : List Nat} (hs : ∀ k ∈ σ, k ∈ σ') (n : Node) (h : tempIn σ n = true) : tempIn σ' n = true := by
  cases n with
  | ident nm sp =>
    cases nm with
    | user x => rfl
    | temp k => simp only [tempIn, List.contains_iff_mem] at h ⊢; exact hs k h
  | _ => rfl

theorem declOK_mono {σ σ' : List Nat} (hs : ∀ k ∈ σ, k ∈ σ') : ∀ n : Node, declOK σ n = true → declOK σ' n = true := by
  apply Node.ind
  intro n ih h
  by_cases hb : isBlockNode n = true
  · cases n with
    | block ss sp => rw [declOK_block] at h ⊢; exact h
    | _ => simp [isBlockNode] at hb
  · simp only [Bool.not_eq_true] at hb
    rw [declOK_generic _ _ hb] at h ⊢
    simp only [Bool.and_eq_true] at h ⊢
    refine ⟨tempIn_mono hs n h.1, ?_⟩
    have := h.2
    unfold declOKL at this ⊢
    rw [List.all_eq_true] at this ⊢
    intro k hk
    exact ih k hk (this k hk)

theorem declOKL_mono {σ σ' : List Nat} (hs : ∀ k ∈ σ, k ∈ σ') (l : List Node) (h : declOKL σ l = true) : declOKL σ' l = true := by
  unfold declOKL at h ⊢
  rw [List.all_eq_true] at h ⊢
  intro k hk
  exact declOK_mono hs k (h k hk)

/-- a tree without temporaries is fine everywhere -/
theorem declOK_of_nt0 (σ) : ∀ n : Node, nt n = 0 → declOK σ n = true := by
  intro n
  revert σ
  induction n using Node.ind with
  | _ n ih =>
    intro σ h0
    rw [nt_eq] at h0
    have hk : ∀ k ∈ n.kids, nt k = 0 := fun k hk => ntL_eq_zero _ (by omega) k hk
    by_cases hb : isBlockNode n = true
    · cases n with
      | block ss sp =>
        rw [declOK_block]
        unfold declOKL
        rw [List.all_eq_true]
        intro k hkm
        exact ih k (by simpa [kids] using hkm) _ (hk k (by simpa [kids] using hkm))
      | _ => simp [isBlockNode] at hb
    · simp only [Bool.not_eq_true] at hb
      rw [declOK_generic _ _ hb]
      have ht : isTempIdent n = false := by cases hh : isTempIdent n <;> simp_all
      simp only [tempIn_of_not_temp σ n ht, Bool.true_and]
      unfold declOKL
      rw [List.all_eq_true]
      intro k hkm
      exact ih k hkm σ (hk k hkm)

/-- an unprocessed tree that is good for `σ` has every temporary declared (its closed parts contain none) -/
theorem tgood_declOK (σ) : ∀ n : Node, tgood σ n = true → declOK σ n = true := by
  apply Node.ind
  intro n ih h
  rw [tgood_eq] at h
  by_cases hc : isClosed n = true
  · simp only [hc, if_true, beq_iff_eq] at h
    exact declOK_of_nt0 σ n h
  · simp only [hc, Bool.false_eq_true, if_false, Bool.and_eq_true] at h
    have hb : isBlockNode n = false := by
      simp only [isClosed, Bool.or_eq_true, not_or, Bool.not_eq_true] at hc; exact hc.1
    rw [declOK_generic _ _ hb]
    simp only [h.1, Bool.true_and]
    have := h.2
    unfold tgoodL at this
    unfold declOKL
    rw [List.all_eq_true] at this ⊢
    intro k hk
    exact ih k hk (this k hk)

end IastModel

namespace IastModel
open Node

def nblocks (n : Node) : Nat := Node.count isBlockNode n
def nblocksL (l : List Node) : Nat := (l.map nblocks).sum

theorem nblocks_eq (n : Node) : nblocks n = (if isBlockNode n then 1 else 0) + nblocksL n.kids := by
  unfold nblocksL
  show Node.count isBlockNode n = _
  rw [Node.count_eq]; rfl

theorem nblocksL_eq_zero : ∀ (l : List Node), nblocksL l = 0 → ∀ k ∈ l, nblocks k = 0 := by
  intro l
  induction l with
  | nil => intro _ k hk; cases hk
  | cons x xs ih =>
    intro h k hk
    simp only [nblocksL, List.map_cons, List.sum_cons] at h
    rcases List.mem_cons.mp hk with rfl | hk
    · omega
    · exact ih (by unfold nblocksL; omega) k hk

theorem mapM'_fix (g : Node → M Node) : ∀ (xs : List Node) (s : St), (∀ x ∈ xs, ∀ st, (g x st).1 = x) → (mapM' g xs s).1 = xs := by
  intro xs
  induction xs with
  | nil => intro s _; rfl
  | cons x xs ih =>
    intro s h
    simp only [mapM', run_bind, run_pure]
    rw [h x (by simp) s, ih _ (fun y hy => h y (by simp [hy]))]

/-- the block visitor returns a tree without block statements as it is -/
theorem blockVisit_fix (cfg : Config) (opFuel : Nat) : ∀ (f : Nat) (n : Node) (s : St), nblocks n = 0 →
    (blockVisit cfg opFuel f n s).1 = n := by
  intro f
  induction f with
  | zero => intro n s _; simp [blockVisit, run_bind, run_pure]
  | succ f ih =>
    intro n s h0
    rw [nblocks_eq] at h0
    have hb : isBlockNode n = false := by cases hh : isBlockNode n <;> simp_all
    rw [blockVisit_generic cfg opFuel f n hb]
    simp only [mapKidsM, run_bind, run_pure]
    rw [mapM'_fix _ n.kids s (fun x hx st => ih x st (nblocksL_eq_zero _ (by omega) x hx))]
    exact Node.withKids_kids n

theorem letDecl_nblocks (ids : List Nat) (sp : Span) : nblocks (letDecl ids sp) = 0 := by
  have h1 : ∀ l : List Nat, nblocksL (l.map fun n => Node.other "VariableDeclarator" sp ["id", "init", "definite"]
      [tempIdent n, .atom "null", .atom "false"]) = 0 := by
    intro l; induction l with
    | nil => rfl
    | cons x xs ih =>
      simp only [nblocksL, List.map_cons, List.sum_cons] at ih ⊢
      rw [ih]
      simp [nblocks_eq, nblocksL, isBlockNode, kids, tempIdent]
  simp only [letDecl]
  rw [nblocks_eq]
  simp only [isBlockNode, kids, nblocksL, List.map_cons, List.sum_cons, List.map_nil, List.sum_nil]
  rw [nblocks_eq (.atom _), nblocks_eq (.atom _), nblocks_eq (.arr _)]
  simp only [isBlockNode, kids]
  have := h1 ids
  simp only [nblocksL, List.map_map] at this ⊢
  simp [this]

theorem letDecl_tgood (σ : List Nat) (ids : List Nat) (sp : Span) (h : ∀ k ∈ ids, k ∈ σ) : tgood σ (letDecl ids sp) = true := by
  have h1 : ∀ l : List Nat, (∀ k ∈ l, k ∈ σ) → tgoodL σ (l.map fun n => Node.other "VariableDeclarator" sp ["id", "init", "definite"]
      [tempIdent n, .atom "null", .atom "false"]) = true := by
    intro l; induction l with
    | nil => intro _; rfl
    | cons x xs ih =>
      intro hl
      simp only [List.map_cons, tgoodL_cons, tgood_other, tgoodL_nil, tempIdent, tgood_temp, tgood_atom, Bool.and_true, Bool.and_eq_true]
      exact ⟨by simpa using hl x (by simp), ih (fun k hk => hl k (by simp [hk]))⟩
  simp [letDecl, h1 ids h]

theorem mem_mapM'_fix (g : Node → M Node) (x : Node) (hx : ∀ st, (g x st).1 = x) :
    ∀ (xs : List Node) (s : St), x ∈ xs → x ∈ (mapM' g xs s).1 := by
  intro xs
  induction xs with
  | nil => intro s h; cases h
  | cons y ys ih =>
    intro s h
    simp only [mapM', run_bind, run_pure]
    rcases List.mem_cons.mp h with rfl | h
    · rw [hx s]; simp
    · exact List.mem_cons_of_mem _ (ih _ h)

theorem declaredAny_mem (ss : List Node) (ids : List Nat) (sp : Span) (hne : ids ≠ []) (h : letDecl ids sp ∈ ss) :
    ∀ k ∈ ids, k ∈ declaredAny ss := by
  intro k hk
  unfold declaredAny
  simp only [List.mem_flatten, List.mem_filterMap]
  exact ⟨ids, ⟨letDecl ids sp, h, letDecl_declares' ids sp hne⟩, hk⟩

end IastModel

namespace IastModel
open Node

/-- what the block visitor guarantees about declarations, when the run is not cancelled -/
def BT (σ : List Nat) (R : Node × St) : Prop := StOk R.2 → declOK σ R.1 = true

theorem mapBlock_T (σ : List Nat) (g : Node → M Node)
    (hb : ∀ k s, StOk s → tgood σ k = true → BT σ (g k s))
    (hc : ∀ k s, s.status = .cancelled → (g k s).2.status = .cancelled) :
    ∀ (ks : List Node) (s : St), StOk s → tgoodL σ ks = true → StOk (mapM' g ks s).2 →
      declOKL σ (mapM' g ks s).1 = true := by
  intro ks
  induction ks with
  | nil => intro s _ _ _; rfl
  | cons x xs ih =>
    intro s hs hg hfin
    simp only [tgoodL_cons, Bool.and_eq_true] at hg
    simp only [mapM', run_bind, run_pure] at hfin ⊢
    have h1 := hb x s hs hg.1
    generalize hR1 : g x s = R1 at h1 hfin
    obtain ⟨x', s1⟩ := R1
    simp only at hfin ⊢
    have hs1 : StOk s1 := by
      intro hcn
      exact hfin (mapM'_canc g hc xs s1 hcn)
    have g1 := h1 hs1
    have g2 := ih s1 hs1 hg.2 hfin
    simp only at g1
    simp [g1, g2]

theorem insertVar_T (σ : List Nat) (idents : List Nat) (ks : List Node) (sp : Span) (hg : tgoodL σ ks = true)
    (hi : ∀ k ∈ idents, k ∈ σ) :
    ∃ ks2, insertVariableDeclaration idents (.block ks sp) = .block ks2 sp ∧ tgoodL σ ks2 = true ∧
      (idents ≠ [] → letDecl idents sp ∈ ks2) := by
  simp only [insertVariableDeclaration]
  by_cases he : idents.isEmpty = true
  · refine ⟨ks, by simp only [he, if_true], hg, ?_⟩
    intro hne; exfalso; exact hne (by simpa using he)
  · refine ⟨insertAt ks (variableInsertionIndex ks) [letDecl idents sp], by simp only [he, Bool.false_eq_true, if_false], ?_, ?_⟩
    · have g12 : tgoodL σ (ks.take (variableInsertionIndex ks)) = true ∧ tgoodL σ (ks.drop (variableInsertionIndex ks)) = true := by
        have := hg
        rw [← List.take_append_drop (variableInsertionIndex ks) ks, tgoodL_append, Bool.and_eq_true] at this
        exact this
      simp [insertAt, g12.1, g12.2, letDecl_tgood σ idents sp hi]
    · intro _; simp [insertAt]

/-- **C06, declarations, per block through the whole pass.**  From a tree whose nested blocks and
    arrow functions are still free of temporaries (in particular from any source tree), unless the
    rewrite is cancelled, the block visitor produces a tree in which every temporary occurring in the
    own region of a block statement is declared by an injected `let` among that block's own
    statements, and every temporary outside all blocks is one of `σ`. -/
theorem blockVisit_T (cfg : Config) (opFuel : Nat) : ∀ (f : Nat) (σ : List Nat) (n : Node) (s : St),
    StOk s → tgood σ n = true → BT σ (blockVisit cfg opFuel f n s) := by
  intro f
  induction f with
  | zero =>
    intro σ n s _ hg _
    simp only [blockVisit, run_bind, run_pure]
    exact tgood_declOK σ n hg
  | succ f ih =>
    intro σ n s hs hg
    by_cases hb : isBlockNode n = true
    · cases n with
      | block ss sp =>
        rw [tgood_block] at hg
        simp only [beq_iff_eq] at hg
        rw [blockVisit_block cfg opFuel f ss sp s hs]
        have hs0 : StOk (resetProvider s) := hs
        have hmv := mapVisit_T (visit cfg opFuel true) (fun k s h => visit_T cfg opFuel true k s h) ss (resetProvider s)
          (tgoodL_of_nt0 _ ss hg)
        have hK : mapKidsM mapM' (visit cfg opFuel true) (.block ss sp) (resetProvider s) =
            (.block (mapM' (visit cfg opFuel true) ss (resetProvider s)).1 sp, (mapM' (visit cfg opFuel true) ss (resetProvider s)).2) := by
          simp [mapKidsM, run_bind, run_pure, withKids, kids]
        rw [hK]
        generalize mapM' (visit cfg opFuel true) ss (resetProvider s) = K at hmv
        obtain ⟨ks', s1⟩ := K
        obtain ⟨g, i, _⟩ := hmv
        simp only at g i ⊢
        by_cases hd : variablesContainPossibleDuplicate s1.vars (tempPrefix cfg.localVarPrefix) = true
        · simp only [hd, if_true]
          intro hfin
          exact absurd rfl hfin
        · simp only [hd, Bool.false_eq_true, if_false]
          obtain ⟨ks2, hins, g2, hmem⟩ := insertVar_T s1.idents s1.idents ks' sp g (fun k hk => hk)
          rw [hins]
          simp only [mapKidsM, kids, run_bind, run_pure, withKids]
          intro hfin
          have hlist := mapBlock_T s1.idents (blockVisit cfg opFuel f) (fun k s hs hg => ih s1.idents k s hs hg)
            (fun k s h => blockVisit_canc cfg opFuel f k s h)
          have hs1 : StOk s1 := by
            -- the operation visitor never cancels: it was not cancelled at the end
            intro hcn
            exact hfin (mapM'_canc _ (fun k s h => blockVisit_canc cfg opFuel f k s h) ks2 s1 hcn)
          have g3 := hlist ks2 s1 hs1 g2 hfin
          rw [declOK_block]
          by_cases hne : s1.idents = []
          · -- nothing was allocated: the own region has no temporary at all
            rw [hne] at g3
            exact declOKL_mono (fun k hk => by cases hk) _ g3
          · have hmem3 : letDecl s1.idents sp ∈ (mapM' (blockVisit cfg opFuel f) ks2 s1).1 :=
              mem_mapM'_fix _ _ (fun st => blockVisit_fix cfg opFuel f _ st (letDecl_nblocks _ _)) ks2 s1 (hmem hne)
            exact declOKL_mono (declaredAny_mem _ s1.idents sp hne hmem3) _ g3
      | _ => simp [isBlockNode] at hb
    · simp only [Bool.not_eq_true] at hb
      rw [blockVisit_generic cfg opFuel f n hb]
      simp only [mapKidsM, run_bind, run_pure]
      intro hfin
      have hlist := mapBlock_T σ (blockVisit cfg opFuel f) (fun k s hs hg => ih σ k s hs hg)
        (fun k s h => blockVisit_canc cfg opFuel f k s h)
      -- the children of an open node are good for σ; the children of an arrow function have no temporaries
      have hk : tgoodL σ n.kids = true := by
        by_cases hc : isClosed n = true
        · rw [tgood_eq, hc] at hg
          simp only [if_true, beq_iff_eq] at hg
          rw [nt_eq] at hg
          exact tgoodL_of_nt0 σ n.kids (by omega)
        · simp only [Bool.not_eq_true] at hc
          exact tgood_kids hc hg
      have g3 := hlist n.kids s hs hk hfin
      have hl : (mapM' (blockVisit cfg opFuel f) n.kids s).1.length = n.kids.length := by
        have : ∀ (xs : List Node) (s : St), (mapM' (blockVisit cfg opFuel f) xs s).1.length = xs.length := by
          intro xs; induction xs with
          | nil => intro s; rfl
          | cons x xs ihx => intro s; simp [mapM', run_bind, run_pure, run_map, ihx]
        exact this _ _
      rw [declOK_generic _ _ (by rw [isBlockNode_withKids]; exact hb), Node.kids_withKids n _ hl]
      simp only [g3, Bool.and_true]
      -- the node itself: an open node satisfied `tempIn`, a closed one is not a temporary
      by_cases hc : isClosed n = true
      · cases n <;> simp_all [isClosed, isBlockNode, isArrowNode, withKids, tempIn]
      · simp only [Bool.not_eq_true] at hc
        rw [tgood_eq, hc] at hg
        simp only [Bool.false_eq_true, if_false, Bool.and_eq_true] at hg
        cases n <;> simp_all [withKids, tempIn]

end IastModel

namespace IastModel
open Node

theorem nt_prologue (dsts : List String) : ∀ q ∈ prologue dsts, nt q = 0 := by
  have hmap : ∀ l : List String, ntL (l.map fun k => Node.other "KeyValueProperty" pd ["key", "value"]
      [.pname k pd, .ident (.user "noop") pd]) = 0 := by
    intro l
    induction l with
    | nil => rfl
    | cons x xs ih =>
      simp only [List.map_cons, ntL_cons, ih, Nat.add_zero]
      simp [nt_eq, isTempIdent, kids]
  intro q hq
  simp only [prologue, List.mem_cons, List.not_mem_nil, or_false] at hq
  rcases hq with rfl | rfl
  · simp [nt_eq, isTempIdent, kids]
  · simp [nt_eq, isTempIdent, kids, hmap, puid]

theorem declOK_insertPrologue (σ : List Nat) (pro : List Node) (p : Node) (hp : ∀ q ∈ pro, nt q = 0)
    (h : declOK σ p = true) : declOK σ (insertPrologue pro p) = true := by
  unfold insertPrologue
  split
  · rename_i k sp ns body vs
    rw [declOK_generic _ _ rfl] at h ⊢
    simp only [kids, declOKL_cons, Bool.and_eq_true] at h ⊢
    refine ⟨h.1, ?_, h.2.2⟩
    have hb := h.2.1
    rw [declOK_generic _ _ rfl] at hb ⊢
    simp only [kids, Bool.and_eq_true] at hb ⊢
    refine ⟨hb.1, ?_⟩
    have hpro : declOKL σ pro = true := by
      unfold declOKL
      rw [List.all_eq_true]
      intro q hq
      exact declOK_of_nt0 σ q (hp q hq)
    have h12 : declOKL σ (body.take (variableInsertionIndex body)) = true ∧ declOKL σ (body.drop (variableInsertionIndex body)) = true := by
      have := hb.2
      rw [← List.take_append_drop (variableInsertionIndex body) body, declOKL_append, Bool.and_eq_true] at this
      exact this
    simp [insertAt, hpro, h12.1, h12.2]
  · exact h

/-- **C06 (declarations), for the whole pipeline.**  For every configuration, fuel and program that
    contains no identifier of the reserved temporary form, unless the rewrite is refused: every
    temporary of the output that occurs in the own region of a block statement is declared by an
    injected `let` among that block's own statements, and no temporary occurs outside all blocks. -/
theorem temporaries_declared_master (cfg : Config) (fuel : Nat) (p : Node) (h0 : nt p = 0)
    (hnc : (transformProgram cfg fuel p).status ≠ .cancelled) :
    declOK [] (transformProgram cfg fuel p).out = true := by
  unfold transformProgram at hnc ⊢
  simp only [StateT.run] at hnc ⊢
  by_cases hr : hasReserved (tempPrefix cfg.localVarPrefix) p = true
  · exact absurd (programVisit_reserved cfg _ fuel p {} hr) hnc
  · simp only [Bool.not_eq_true] at hr
    rw [programVisit_eq cfg _ fuel p {} hr] at hnc ⊢
    simp only [mapKidsM, run_bind, run_pure] at hnc ⊢
    have hs0 : StOk ({} : St) := by intro h; cases h
    have hlist := mapBlock_T [] (blockVisit cfg fuel fuel) (fun k s hs hg => blockVisit_T cfg fuel fuel [] k s hs hg)
      (fun k s h => blockVisit_canc cfg fuel fuel k s h)
    have hk0 : ntL p.kids = 0 := by rw [nt_eq] at h0; omega
    have g3 := hlist p.kids {} hs0 (tgoodL_of_nt0 [] p.kids hk0) hnc
    have hl : (mapM' (blockVisit cfg fuel fuel) p.kids {}).1.length = p.kids.length := by
      have : ∀ (xs : List Node) (s : St), (mapM' (blockVisit cfg fuel fuel) xs s).1.length = xs.length := by
        intro xs; induction xs with
        | nil => intro s; rfl
        | cons x xs ihx => intro s; simp [mapM', run_bind, run_pure, run_map, ihx]
      exact this _ _
    have hp1 : declOK [] (p.withKids (mapM' (blockVisit cfg fuel fuel) p.kids {}).1) = true := by
      by_cases hb : isBlockNode p = true
      · cases p with
        | block ss sp =>
          simp only [withKids]
          rw [declOK_block]
          exact declOKL_mono (fun k hk => by cases hk) _ g3
        | _ => simp [isBlockNode] at hb
      · simp only [Bool.not_eq_true] at hb
        rw [declOK_generic _ _ (by rw [isBlockNode_withKids]; exact hb), Node.kids_withKids p _ hl]
        simp only [g3, Bool.and_true]
        have ht : isTempIdent p = false := by
          rw [nt_eq] at h0
          cases hh : isTempIdent p <;> simp_all
        have := tempIn_of_not_temp [] (p.withKids (mapM' (blockVisit cfg fuel fuel) p.kids {}).1) (by rw [isTempIdent_withKids]; exact ht)
        exact this
    split
    · exact declOK_insertPrologue [] _ _ (nt_prologue cfg.dsts) hp1
    · exact hp1

end IastModel

import IastModel.Lemmas.EffOc
namespace IastModel
open Node

theorem effL_atoms (vs : List Node) (h : vs.all isAtomNode = true) : effL vs = 0 := by
  induction vs with
  | nil => rfl
  | cons v vs ih =>
    simp only [List.all_cons, Bool.and_eq_true] at h
    cases v <;> simp_all [isAtomNode]

theorem simple_eff {e : Node} (hs : isSimpleTargetPart e = true) : eff e = 0 := by
  unfold isSimpleTargetPart at hs
  split at hs
  · simp
  · simp
  · rw [eff_other]; simp [effKinds]
  · cases hs

def SplitE (left : Node) (R : (Node × Node) × St) : Prop := eff R.1.1 + eff R.1.2 = eff left

theorem eff_seqOperand (e : Node) : eff (seqOperand e) = eff e := by
  unfold seqOperand; split <;> simp

theorem hoistTargetPart_E (e : Node) (sp : Span) (s : St) : SplitE e (hoistTargetPart e sp s) := by
  unfold hoistTargetPart
  simp only [run_bind]
  rcases getTemporalIdent_cases (seqOperand e) [] sp .expr s with ⟨hl, h⟩ | ⟨hl, n, s', h, _⟩
  · rw [h]; simp only [run_pure]
    have := isLit_eff hl
    rw [eff_seqOperand] at this
    simp [SplitE, eff_seqOperand, this]
  · rw [h]
    simp only [List.nil_append, List.getLast?_singleton, run_pure]
    simp [SplitE, tempIdent, assignRight, eff_seqOperand]

theorem splitComputedKey_E (csp : Span) (e : Node) (sp : Span) (s : St) :
    SplitE (.other "Computed" csp ["expression"] [e]) (splitComputedKey csp e sp s) := by
  unfold splitComputedKey
  simp only [run_bind, run_pure]
  have h := hoistTargetPart_E e sp s
  generalize hoistTargetPart e sp s = R at h
  obtain ⟨⟨tk, okk⟩, s'⟩ := R
  simp only [SplitE] at h ⊢
  simp only [eff_other, effL_cons, effL_nil]
  have : effKinds.contains "Computed" = false := by decide
  simp only [this, Bool.false_eq_true, if_false]
  omega

theorem propShape_eff {p : Node} (hp : propShape p = true)
    (hsimple : ∀ csp e, p = .other "Computed" csp ["expression"] [e] → isSimpleTargetPart e = true) : eff p = 0 := by
  unfold propShape at hp
  split at hp
  · simp
  · rename_i csp e
    have := hsimple _ _ rfl
    rw [eff_other]
    have hc : ¬ "Computed" ∈ effKinds := by decide
    simp [hc, simple_eff this]
  · rename_i k sp ns' vs _
    simp only [Bool.and_eq_true, beq_iff_eq] at hp
    rw [eff_other, hp.1]
    have hc : ¬ "PrivateName" ∈ effKinds := by decide
    simp [hc, effL_atoms _ hp.2]
  · cases hp

theorem splitProp_E (prop : Node) (sp : Span) (s : St) (hp : propShape prop = true) :
    SplitE prop (splitProp prop sp s) := by
  unfold splitProp
  split
  · rename_i csp e
    by_cases hs : isSimpleTargetPart e = true
    · simp only [hs, Bool.not_true, Bool.false_eq_true, if_false, run_pure]
      have := propShape_eff hp (by intro csp' e' he; cases he; exact hs)
      simp [SplitE, this]
    · simp only [hs, Bool.not_false, if_true]
      exact splitComputedKey_E csp e sp s
  · rename_i hne
    simp only [run_pure]
    have := propShape_eff hp (by intro csp e he; exact absurd he (hne csp e))
    simp [SplitE, this]

theorem keyIsSimple_eff {prop : Node} (hp : propShape prop = true) (hk : keyIsSimple prop = true) : eff prop = 0 := by
  refine propShape_eff hp ?_
  intro csp e he
  subst he
  simpa [keyIsSimple] using hk

theorem splitMemberTarget_E (sp : Span) : ∀ (left : Node), tshape left = true →
    ∀ s, SplitE left (splitMemberTarget left sp s) ∧
      isTempIdent (splitMemberTarget left sp s).1.1 = isTempIdent left := by
  apply Node.ind
  intro left ih hts s
  unfold tshape at hts
  split at hts
  · simp only [splitMemberTarget, run_pure]
    exact ⟨by simp [SplitE], by first | rfl | trivial⟩
  · rename_i obj prop msp
    simp only [splitMemberTarget]
    by_cases hcond : (!isSimpleTargetPart obj || !keyIsSimple prop) = true
    · simp only [hcond, if_true]
      by_cases hrep : (isSimpleTargetPart obj && (keyIsSimple prop || !obj.isIdent)) = true
      · simp only [hrep, if_true, run_bind, run_pure]
        simp only [Bool.and_eq_true] at hrep
        have n0 := simple_eff hrep.1
        have hprop := splitProp_E prop sp s hts
        generalize splitProp prop sp s = R2 at hprop
        obtain ⟨⟨tprop, oprop⟩, s2⟩ := R2
        simp only [SplitE] at hprop ⊢
        exact ⟨by simp only [eff_member]; omega, rfl⟩
      · simp only [hrep, Bool.false_eq_true, if_false, run_bind, run_pure]
        have hobj := hoistTargetPart_E obj sp s
        generalize hoistTargetPart obj sp s = R1 at hobj
        obtain ⟨⟨tobj, oobj⟩, s1⟩ := R1
        have hprop := splitProp_E prop sp s1 hts
        generalize splitProp prop sp s1 = R2 at hprop
        obtain ⟨⟨tprop, oprop⟩, s2⟩ := R2
        simp only [SplitE] at hobj hprop ⊢
        exact ⟨by simp only [eff_member]; omega, rfl⟩
    · simp only [hcond, Bool.false_eq_true, if_false, run_pure]
      simp only [Bool.or_eq_true, Bool.not_eq_true', not_or, Bool.not_eq_false] at hcond
      exact ⟨by simp [SplitE, simple_eff hcond.1, keyIsSimple_eff hts hcond.2], by first | rfl | trivial⟩
  · rename_i ssp sp2 n2 prop
    simp only [splitMemberTarget]
    have hsup : eff (Node.other "Super" sp2 n2 []) = 0 := by rw [eff_other]; simp [effKinds]
    have hk0 : effKinds.contains "SuperPropExpression" = false := by decide
    by_cases hk : keyIsSimple prop = true
    · simp only [hk, Bool.not_true, Bool.false_eq_true, if_false, run_pure]
      refine ⟨?_, by first | rfl | trivial⟩
      simp only [SplitE, eff_other, hk0, effL_cons, effL_nil, hsup, keyIsSimple_eff hts hk]
      simp
    · simp only [hk, Bool.not_false, if_true, run_bind, run_pure]
      have hprop := splitProp_E prop sp s hts
      generalize splitProp prop sp s = R2 at hprop
      obtain ⟨⟨tprop, oprop⟩, s2⟩ := R2
      simp only [SplitE] at hprop ⊢
      refine ⟨?_, rfl⟩
      simp only [eff_other, hk0, effL_cons, effL_nil, hsup]
      simp only [Bool.false_eq_true, if_false]
      omega
  · rename_i e psp
    simp only [splitMemberTarget]
    by_cases hsi : isSplittableInner e = true
    · simp only [hsi, if_true, run_bind, run_pure]
      have h := (ih e (by simp [kids]) hts s).1
      generalize splitMemberTarget e sp s = R at h
      obtain ⟨⟨t, o⟩, s'⟩ := R
      simp only [SplitE] at h ⊢
      exact ⟨by simp only [eff_paren]; omega, rfl⟩
    · simp only [hsi, Bool.false_eq_true, if_false, run_pure]
      refine ⟨?_, by first | rfl | trivial⟩
      -- a target shape that is not splittable is an identifier
      cases e <;> simp_all [tshape, isSplittableInner, SplitE]
  · cases hts

end IastModel

namespace IastModel
open Node

theorem toDdAssign_E (cfg : Config) (op : String) (left r : Node) (sp : Span) (s : St) (hts : tshape left = true) :
    ∀ e', (toDdAssign cfg (.assign op left r sp) s).1 = some e' → eff e' = eff (.assign op left r sp) := by
  simp only [toDdAssign]
  by_cases hp : isPatternTarget left = true
  · simp only [hp, if_true, run_pure]; intro e' h; cases h
  · simp only [hp, Bool.false_eq_true, if_false, run_bind, run_pure]
    have hnr : eff (assignRhs r) = eff r := by unfold assignRhs; split <;> simp
    have h1 := splitMemberTarget_E sp left hts s
    generalize splitMemberTarget left sp s = R1 at h1
    obtain ⟨⟨target, operand⟩, s1⟩ := R1
    obtain ⟨a1, a2⟩ := h1
    simp only [SplitE] at a1 a2
    have h2 := toDdBinary_E cfg "+" operand (assignRhs r) sp s1
    generalize toDdBinary cfg (.bin "+" operand (assignRhs r) sp) s1 = R2 at h2
    obtain ⟨res, s2⟩ := R2
    simp only at h2
    cases res with
    | none => simp only [run_pure]; intro e' h; cases h
    | some e1 =>
      simp only [run_pure]
      intro e' he
      simp only [Option.some.injEq] at he
      subst he
      have := h2 e1 rfl
      rw [eff_assign, eff_assign, a2]
      omega

theorem isTempIdent_leaf {n : Node} (h : isTempIdent n = true) : leaf n = true := by
  cases n <;> simp_all [isTempIdent, leaf, Node.isIdent]

theorem isTempIdent_visit (cfg : Config) (f : Nat) (root : Bool) (n : Node) (s : St) :
    isTempIdent (visit cfg f root n s).1 = isTempIdent n := by
  by_cases hl : leaf n = true
  · rw [(visit_leaf cfg f root n s).2 hl]
  · simp only [Bool.not_eq_true] at hl
    have h1 := (visit_leaf cfg f root n s).1 hl
    have a : isTempIdent (visit cfg f root n s).1 = false := by
      cases h : isTempIdent (visit cfg f root n s).1 with
      | false => rfl
      | true => rw [isTempIdent_leaf h] at h1; cases h1
    have b : isTempIdent n = false := by
      cases h : isTempIdent n with
      | false => rfl
      | true => rw [isTempIdent_leaf h] at hl; cases hl
    rw [a, b]

theorem heavy_withKids_other (n : Node) (ks : List Node)
    (hc : ∀ c as sp, n ≠ .call c as sp) (ha : ∀ op l r sp, n ≠ .assign op l r sp) : heavy (n.withKids ks) = heavy n := by
  cases n <;> first | rfl | (exfalso; exact hc _ _ _ rfl) | (exfalso; exact ha _ _ _ _ rfl)

/-- visiting the children does not change whether the node itself counts -/
theorem heavy_mapKids (cfg : Config) (ok : String → Bool) (hcfg : CfgOk ok cfg) (f : Nat) (r : Bool) (n : Node) (s : St)
    (h0 : ns n = 0) (ht : targetsOk n = true) (hs : StOk s) :
    heavy (mapKidsM mapM' (visit cfg f r) n s).1 = heavy n := by
  cases n with
  | call c as sp =>
    simp only [ns_call] at h0
    obtain ⟨ks', h1, hl, g, e, p⟩ := mapKids_spec' ok _ (fun k s h0 ht hs => visit_spec ok cfg hcfg f r k s h0 ht hs) (.call c as sp) s
      (by simp only [ns_call]; omega) ht hs
    rw [h1]
    match ks', hl, g with
    | c' :: as', _, g =>
      simp only [goodL_cons, Bool.and_eq_true] at g
      simp only [withKids, List.getD_cons_zero, List.drop_succ_cons, List.drop_zero, heavy]
      rw [hookName?_call_none _ _ g.1, hookName?_none_of_ns0 _ _ _ (by omega)]
  | assign op l r' sp =>
    simp only [mapKidsM, kids, mapM', run_bind, run_pure, withKids, List.getD_cons_zero, List.getD_cons_succ, heavy]
    rw [isTempIdent_visit]
  | _ =>
    simp only [mapKidsM, run_bind, run_pure]
    exact heavy_withKids_other _ _ (by intro c as sp h; cases h) (by intro op l r sp h; cases h)

/-- the operation visitor keeps every effect node exactly once -/
theorem visit_E (cfg : Config) (ok : String → Bool) (hcfg : CfgOk ok cfg) : ∀ (f : Nat) (root : Bool) (n : Node) (s : St),
    ns n = 0 → targetsOk n = true → StOk s → eff (visit cfg f root n s).1 = eff n := by
  intro f
  induction f with
  | zero => intro root n s _ _ _; simp [visit, run_bind, run_pure]
  | succ f ih =>
    intro root n s h0 ht hs
    -- the children, visited one after the other
    have hkids : ∀ (r : Bool) (ks : List Node) (s : St), nsL ks = 0 → (∀ k ∈ ks, targetsOk k = true) → StOk s →
        effL (mapM' (visit cfg f r) ks s).1 = effL ks := by
      intro r ks
      induction ks with
      | nil => intro s _ _ _; rfl
      | cons k ks ihk =>
        intro s hz htk hs
        simp only [nsL_cons] at hz
        simp only [mapM', run_bind, run_pure, effL_cons]
        have hk1 := ih r k s (by omega) (htk k (by simp)) hs
        have hsp := visit_spec ok cfg hcfg f r k s (by omega) (htk k (by simp)) hs
        rw [hk1, ihk _ (by omega) (fun x hx => htk x (by simp [hx])) (hsp.2.1.stOk hs)]
    have hgen : ∀ (r : Bool) (n : Node) (s : St), ns n = 0 → targetsOk n = true → StOk s →
        eff (mapKidsM mapM' (visit cfg f r) n s).1 = eff n := by
      intro r n s h0 ht hs
      have hh := heavy_mapKids cfg ok hcfg f r n s h0 ht hs
      simp only [mapKidsM, run_bind, run_pure] at hh ⊢
      have hl : (mapM' (visit cfg f r) n.kids s).1.length = n.kids.length := by
        have := mapVisit_spec ok (visit cfg f r) (fun k s h0 ht hs => visit_spec ok cfg hcfg f r k s h0 ht hs) n.kids s
          (nsL_kids_of_ns0 h0) (targetsOk_kids ht) hs
        exact (Forall2.length_eq this.2.2).symm
      rw [eff_eq, Node.kids_withKids n _ hl, hh, hkids r n.kids s (nsL_kids_of_ns0 h0) (targetsOk_kids ht) hs, ← eff_eq]
    have hv : ∀ r, VHyp ok (visit cfg f r) := fun r k s h0 ht hs => visit_spec ok cfg hcfg f r k s h0 ht hs
    cases n with
    | ident nm sp => simp [visit, run_bind, run_pure]
    | block ss sp => simp [visit, run_pure]
    | arrow ps b at' sp =>
      simp only [visit, run_pure]
      have hr : ¬ "ReturnStatement" ∈ effKinds := by decide
      cases b <;> simp [toDdArrow, returnStmt, eff_other, hr]
    | unary op a sp =>
      simp only [visit]
      split
      · simp [run_pure]
      · exact hgen root _ s h0 ht hs
    | bin op l r sp =>
      simp only [visit]
      split
      · simp only [run_bind]
        have hn1 := hgen false (.bin op l r sp) s h0 ht hs
        obtain ⟨ks', h1, hl, g, e, p⟩ := mapKids_spec' ok _ (hv false) (.bin op l r sp) s h0 ht hs
        generalize mapKidsM mapM' (visit cfg f false) (.bin op l r sp) s = K at h1 hn1
        obtain ⟨n1, s1⟩ := K
        simp only at h1 hn1 ⊢
        match ks', hl, h1 with
        | [l', r'], _, h1 =>
          simp only [withKids, List.getD_cons_zero, List.getD_cons_succ] at h1
          subst h1
          split
          · simp only [run_bind, run_pure]
            have h2 := toDdBinary_E cfg op l' r' sp s1
            generalize toDdBinary cfg (.bin op l' r' sp) s1 = X at h2
            obtain ⟨res, s2⟩ := X
            simp only at h2 ⊢
            rw [finish_fst]
            cases res with
            | none => exact hn1
            | some e' => simp only [Option.getD_some]; rw [h2 e' rfl, ← hn1]; simp
          · simp only [run_bind, run_pure]
            rw [finish_fst]; exact hn1
      · exact hgen root _ s h0 ht hs
    | assign op l r sp =>
      simp only [visit]
      split
      · simp only [run_bind]
        have hn1 := hgen false (.assign op l r sp) s h0 ht hs
        obtain ⟨ks', h1, hl, g, e, p⟩ := mapKids_spec' ok _ (hv false) (.assign op l r sp) s h0 ht hs
        generalize mapKidsM mapM' (visit cfg f false) (.assign op l r sp) s = K at h1 hn1
        obtain ⟨n1, s1⟩ := K
        simp only at h1 hn1 ⊢
        match ks', hl, p, h1 with
        | [l', r'], _, p, h1 =>
          simp only [withKids, List.getD_cons_zero, List.getD_cons_succ] at h1
          subst h1
          split
          · rename_i hop
            simp only [run_bind, run_pure]
            have hts : tshape l' = true := by
              have h := targetsOk_self ht
              simp only [assignTargetOk, Bool.or_eq_true, bne_iff_ne, ne_eq] at h
              simp only [kids, Forall2] at p
              rcases h with h | h
              · exact absurd (by simpa using hop) h
              · exact p.1.1 h
            have h2 := toDdAssign_E cfg op l' r' sp s1 hts
            generalize toDdAssign cfg (.assign op l' r' sp) s1 = X at h2
            obtain ⟨res, s2⟩ := X
            simp only at h2 ⊢
            rw [finish_fst]
            cases res with
            | none => exact hn1
            | some e' => simp only [Option.getD_some]; rw [h2 e' rfl]; exact hn1
          · simp only [run_bind, run_pure]
            rw [finish_fst]; exact hn1
      · exact hgen root _ s h0 ht hs
    | tpl es qs sp =>
      simp only [visit]
      split
      · split
        · simp only [run_bind]
          have hn1 := hgen false (.tpl es qs sp) s h0 ht hs
          obtain ⟨ks', h1, hl, g, e, p⟩ := mapKids_spec' ok _ (hv false) (.tpl es qs sp) s h0 ht hs
          generalize mapKidsM mapM' (visit cfg f false) (.tpl es qs sp) s = K at h1 hn1
          obtain ⟨n1, s1⟩ := K
          simp only at h1 hn1 ⊢
          simp only [withKids] at h1
          subst h1
          have h2 := toDdTpl_E cfg (ks'.take es.length) (ks'.drop es.length) sp s1
          generalize toDdTpl cfg (.tpl (ks'.take es.length) (ks'.drop es.length) sp) s1 = X at h2
          obtain ⟨res, s2⟩ := X
          simp only at h2 ⊢
          rw [finish_fst]
          cases res with
          | none => exact hn1
          | some e' => simp only [Option.getD_some]; rw [h2 e' rfl]; exact hn1
        · simp [run_pure]
      · exact hgen root _ s h0 ht hs
    | call c as sp =>
      simp only [visit, run_bind]
      have hn1 := hgen false (.call c as sp) s h0 ht hs
      obtain ⟨ks', h1, hl, g, e, p⟩ := mapKids_spec' ok _ (hv false) (.call c as sp) s h0 ht hs
      generalize mapKidsM mapM' (visit cfg f false) (.call c as sp) s = K at h1 hn1
      obtain ⟨n1, s1⟩ := K
      simp only at h1 hn1 ⊢
      match ks', hl, g, h1 with
      | c' :: as', _, g, h1 =>
        simp only [withKids, List.getD_cons_zero, List.drop_succ_cons, List.drop_zero] at h1
        subst h1
        simp only [goodL_cons, Bool.and_eq_true] at g
        simp only
        split
        · simp only [run_bind, run_pure]
          rw [finish_fst]; exact hn1
        · simp only [run_bind]
          have h2 := toDdCall_E cfg c' as' sp s1
          generalize toDdCall cfg (.call c' as' sp) s1 = X at h2
          obtain ⟨res, s2⟩ := X
          simp only at h2 ⊢
          cases res with
          | none =>
            simp only [run_bind, run_pure]
            rw [finish_fst]; exact hn1
          | some et =>
            obtain ⟨e', tag⟩ := et
            simp only [run_bind, run_pure]
            rw [finish_fst, h2 e' tag rfl, ← hn1, eff_call_user _ _ _ (hookName?_call_none _ _ g.1)]
            omega
    | optChain o b sp =>
      simp only [visit, run_bind]
      have hE := toDdCond_E cfg f (.optChain o b sp) s h0
      have hz := toDdCond_z cfg f (.optChain o b sp) s h0
      have hb := toDdCond_b cfg f (.optChain o b sp) s ((bad_zero_iff _).mpr ht)
      generalize toDdCond cfg f (.optChain o b sp) s = C at hE hz hb
      obtain ⟨⟨e', res⟩, s1⟩ := C
      simp only at hE hz hb ⊢
      have z2 : ns (res.getD e') = 0 := by
        cases res with
        | none => exact hz.1
        | some r => exact hz.2.1 r rfl
      have b2 : targetsOk (res.getD e') = true := by
        apply (bad_zero_iff _).mp
        cases res with
        | none => exact hb.1
        | some r => exact hb.2.1 r rfl
      have e0 : Eff s s1 0 := Eff.of_TS hz.2.2
      rw [finish_fst, hgen false (res.getD e') s1 z2 b2 (e0.stOk hs)]
      exact hE
    | _ =>
      simp only [visit]
      exact hgen root _ s h0 ht hs

end IastModel

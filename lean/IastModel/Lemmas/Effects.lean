import IastModel.Lemmas.OcZero
namespace IastModel
open Node

/-! ### state effect of the visitors: the telemetry log grows by `k` entries, the status follows -/

def StOk (s : St) : Prop := s.status ≠ .cancelled

def Eff (s s' : St) (k : Nat) : Prop :=
  ∃ tags : List (Option String), tags.length = k ∧ s'.incs = s.incs ++ tags ∧
    s'.status = (if k = 0 then s.status else .modified) ∧ (s.fuelOut = true → s'.fuelOut = true)

theorem Eff.of_TS {s s' : St} (h : TS s' s) : Eff s s' 0 := ⟨[], rfl, by simp [h.1], by simp [h.2.1], h.2.2⟩
theorem Eff.refl (s : St) : Eff s s 0 := Eff.of_TS (TS.refl s)

theorem Eff.trans {s s1 s2 : St} {k1 k2 : Nat} (h1 : Eff s s1 k1) (h2 : Eff s1 s2 k2) : Eff s s2 (k1 + k2) := by
  obtain ⟨t1, l1, i1, st1, f1⟩ := h1
  obtain ⟨t2, l2, i2, st2, f2⟩ := h2
  refine ⟨t1 ++ t2, by simp [l1, l2], by rw [i2, i1, List.append_assoc], ?_, fun h => f2 (f1 h)⟩
  rw [st2, st1]
  by_cases hk2 : k2 = 0
  · simp [hk2]
  · simp [hk2]

theorem Eff.stOk {s s' : St} {k : Nat} (h : Eff s s' k) (hs : StOk s) : StOk s' := by
  obtain ⟨_, _, _, st, _⟩ := h
  unfold StOk at *
  rw [st]
  split
  · exact hs
  · intro h; cases h

theorem Eff.cast {s s' : St} {k k' : Nat} (h : Eff s s' k) (e : k = k') : Eff s s' k' := e ▸ h

theorem updateStatus_modified (tag : Option String) (s : St) (hs : StOk s) :
    Eff s (updateStatus .modified tag s).2 1 := by
  unfold StOk at hs
  simp only [updateStatus, run_modify]
  have : (s.status == Status.cancelled) = false := by
    cases h : s.status <;> simp_all <;> rfl
  simp only [this, Bool.false_eq_true, if_false]
  exact ⟨[tag], rfl, by simp <;> rfl, by simp <;> rfl, id⟩

theorem updateStatus_notModified (tag : Option String) (s : St) : (updateStatus .notModified tag s).2 = s := by
  simp only [updateStatus, run_modify]
  split
  · rfl
  · rfl

theorem updateStatus_statusOf (res : Option Node) (tag : Option String) (s : St) (hs : StOk s) :
    Eff s (updateStatus (statusOf res) tag s).2 (if res.isSome then 1 else 0) := by
  cases res with
  | none => simp only [statusOf, Option.isSome_none, Bool.false_eq_true, if_false]; rw [updateStatus_notModified]; exact Eff.refl s
  | some e => simp only [statusOf, Option.isSome_some, if_true]; exact updateStatus_modified tag s hs

theorem resetCounter_TS (s : St) : TS (resetCounter s).2 s := ⟨rfl, rfl, id⟩
theorem registerVariable_TS (n : Name) (sp : Span) (s : St) : TS (registerVariable n sp s).2 s := ⟨rfl, rfl, id⟩
theorem outOfFuel_TS (s : St) : TS (outOfFuel s).2 s := ⟨rfl, rfl, fun _ => rfl⟩

/-- the end of every `with_child_ctx` arm -/
theorem finish_TS (root : Bool) (x : Node) (s : St) :
    TS ((if root = true then do resetCounter; pure x else pure x : M Node) s).2 s := by
  cases root <;> simp [run_bind, run_pure, TS.refl, resetCounter_TS]

/-! ### hypotheses -/

/-- every name the configuration can put after `_ddiast.` is acceptable -/
def CfgOk (ok : String → Bool) (cfg : Config) : Prop :=
  (cfg.plusEnabled = true → ok cfg.plusName = true) ∧ (cfg.tplEnabled = true → ok cfg.tplName = true) ∧
  ∀ m csi, cfg.get m = some csi → ok csi.dst = true

/-! ### shapes the visitor leaves alone -/

/-- nodes without children that the operation visitor walks through -/
def inert : Node → Bool
  | .other _ _ _ [] => true
  | .atom _ => true
  | .pname .. => true
  | _ => false

def Shp (n n' : Node) : Prop :=
  (tshape n = true → tshape n' = true) ∧ (propShape n = true → propShape n' = true) ∧ (inert n = true → n' = n)

theorem Shp.refl (n : Node) : Shp n n := ⟨id, id, fun _ => rfl⟩

theorem Shp.of_false {n n' : Node} (h1 : tshape n = false) (h2 : propShape n = false) (h3 : inert n = false) : Shp n n' :=
  ⟨by simp [h1], by simp [h2], by simp [h3]⟩

theorem hookName?_call_none {ok u} {c : Node} (as : List Node) (sp : Span) (hc : goodW ok u c = true) :
    hookName? (.call c as sp) = none := by
  cases c <;> try rfl
  case member o p msp =>
    cases o <;> try rfl
    case ident nm isp =>
      cases nm with
      | temp k => rfl
      | user x =>
        cases p <;> try rfl
        case pname pn psp =>
          by_cases hx : (x == Generated.ddGlobalNamespace) = true
          · rw [not_good_ddCallee _ _ _ _ _ _ _ hx] at hc; cases hc
          · simp [hookName?, hx]

theorem isBlockNode_withKids (n : Node) (ks : List Node) : isBlockNode (n.withKids ks) = isBlockNode n := by
  cases n <;> rfl

theorem good_withKids (ok u) (n : Node) (ks : List Node) (h0 : mentionsNs n = false) (hb : isBlockNode n = false)
    (hk : goodL ok u ks = true) (hl : ks.length = n.kids.length) : goodW ok u (n.withKids ks) = true := by
  have hn : hookName? (n.withKids ks) = none := by
    cases n <;> try rfl
    case call c as sp =>
      cases ks with
      | nil => simp [kids] at hl
      | cons k ks' =>
        simp only [goodL_cons, Bool.and_eq_true] at hk
        simp only [withKids, List.getD_cons_zero, List.drop_succ_cons, List.drop_zero]
        exact hookName?_call_none _ _ hk.1
  rw [good_generic _ _ _ (by rw [isBlockNode_withKids]; exact hb) hn, mentionsNs_withKids, h0,
    Node.kids_withKids n ks hl]
  simpa using hk

theorem mentionsNs_of_ns0 {n : Node} (h : ns n = 0) : mentionsNs n = false := by
  rw [ns_eq] at h
  cases hh : mentionsNs n <;> simp_all

theorem nsL_kids_of_ns0 {n : Node} (h : ns n = 0) : nsL n.kids = 0 := by
  rw [ns_eq] at h; omega

end IastModel

namespace IastModel
open Node

theorem forall2_atoms_eq : ∀ (vs ks : List Node), Forall2 Shp vs ks → vs.all isAtomNode = true → ks = vs := by
  intro vs
  induction vs with
  | nil => intro ks h _; cases ks <;> simp_all [Forall2]
  | cons v vs ih =>
    intro ks h ha
    cases ks with
    | nil => simp [Forall2] at h
    | cons k ks =>
      simp only [Forall2] at h
      simp only [List.all_cons, Bool.and_eq_true] at ha
      have : inert v = true := by cases v <;> simp_all [isAtomNode, inert]
      rw [h.1.2.2 this, ih ks h.2 ha.2]

theorem propShape_other_atoms (k : String) (sp : Span) (ns' : List String) (vs : List Node)
    (h : (k == "PrivateName" && vs.all isAtomNode) = true) :
    propShape (.other k sp ns' vs) = true := by
  unfold propShape
  split
  · rfl
  · rfl
  · rename_i h2; simp_all
  · rename_i h2; exact (h2 _ _ _ _ rfl).elim

theorem shp_withKids (n : Node) (ks : List Node) (hF : Forall2 Shp n.kids ks) : Shp n (n.withKids ks) := by
  refine ⟨?_, ?_, ?_⟩
  · intro ht
    unfold tshape at ht
    split at ht
    · exact rfl
    · rename_i o p msp
      simp only [kids] at hF
      match ks, hF with
      | [o', p'], hF =>
        simp only [Forall2] at hF
        simp only [withKids, List.getD_cons_zero, List.getD_cons_succ, tshape]
        exact hF.2.1.2.1 ht
    · rename_i ssp sp2 n2 p
      simp only [kids] at hF
      match ks, hF with
      | [sup', p'], hF =>
        simp only [Forall2] at hF
        have : sup' = .other "Super" sp2 n2 [] := hF.1.2.2 rfl
        subst this
        simp only [withKids, tshape]
        exact hF.2.1.2.1 ht
    · rename_i e psp
      simp only [kids] at hF
      match ks, hF with
      | [e'], hF =>
        simp only [Forall2] at hF
        simp only [withKids, List.getD_cons_zero, tshape]
        exact hF.1.1 ht
    · cases ht
  · intro hp
    unfold propShape at hp
    split at hp
    · rfl
    · rename_i csp e
      simp only [kids] at hF
      match ks, hF with
      | [e'], _ => rfl
    · rename_i k sp ns' vs hne
      simp only [kids] at hF
      have hp' := hp
      simp only [Bool.and_eq_true] at hp'
      have := forall2_atoms_eq vs ks hF hp'.2
      subst this
      exact propShape_other_atoms _ _ _ _ hp
    · cases hp
  · intro hi
    unfold inert at hi
    split at hi
    · simp only [kids] at hF
      cases ks with
      | nil => rfl
      | cons k ks => simp [Forall2] at hF
    · rfl
    · rfl
    · cases hi

end IastModel

import IastModel.Lemmas.Good
namespace IastModel
open Node

/-- what every operand-handler function guarantees: good inputs give good outputs, what leaves the
    operand position arrives in the assignments, the argument list gains nothing that mentions the
    namespace, and the status / telemetry part of the state is untouched -/
def OpSpec (ok : String → Bool) (u : Bool) (e : Node) (asg args : List Node) (r : (Node × List Node × List Node) × St) (s : St) : Prop :=
  goodW ok u e = true → goodL ok u asg = true → goodL ok u args = true →
    goodW ok u r.1.1 = true ∧ goodL ok u r.1.2.1 = true ∧ goodL ok u r.1.2.2 = true ∧
    ns r.1.1 + nsL r.1.2.1 = ns e + nsL asg ∧ nsL r.1.2.2 = nsL args ∧ TS r.2 s

theorem good_assignRight (ok u) (e : Node) (k : IdentKind) : goodW ok u (assignRight e k) = goodW ok u e := by
  cases k <;> simp [assignRight]

theorem good_exprOrSpread (ok u) (e : Node) (k : IdentKind) : goodW ok u (exprOrSpread e k) = goodW ok u e := by
  cases k <;> simp [exprOrSpread]

theorem getTemporalIdent_good (ok u) (operand : Node) (asg : List Node) (sp : Span) (k : IdentKind) (s : St)
    (he : goodW ok u operand = true) (ha : goodL ok u asg = true) :
    goodL ok u (getTemporalIdent operand asg sp k s).1.2 = true := by
  unfold getTemporalIdent
  by_cases hl : operand.isLit = true
  · simp [hl, run_pure, ha]
  · simp [hl, run_bind, run_pure, run_map, ha, tempIdent, good_assignRight, he]

theorem replaceDefault_spec (ok u) (e : Node) (asg args : List Node) (sp : Span) (k : IdentKind) (s : St) :
    OpSpec ok u e asg args (replaceDefault e asg args sp k s) s := by
  intro he ha hg
  have hns := replaceDefault_ns e asg args sp k s
  refine ⟨?_, ?_, ?_, hns.1, hns.2.1, hns.2.2⟩
  all_goals
    unfold replaceDefault getIdentUsed getTemporalIdent
    by_cases hl : e.isLit = true
    · simp [hl, run_bind, run_pure, he, ha, hg, good_exprOrSpread]
    · simp [hl, run_bind, run_pure, run_map, he, ha, hg, good_exprOrSpread, tempIdent, good_assignRight]

theorem replaceExprNoExpand_spec (ok u) (e : Node) (mode : IdentMode) (asg args : List Node) (sp : Span) (k : IdentKind)
    (s : St) : OpSpec ok u e asg args (replaceExprNoExpand e mode asg args sp k s) s := by
  intro he ha hg
  have hid : e.isIdent = true → ns e = 0 := fun h => good_leaf_ns he (by simp [leaf, h])
  have hns := replaceExprNoExpand_ns e mode asg args sp k s hid
  refine ⟨?_, ?_, ?_, hns.1, hns.2.1, hns.2.2⟩
  all_goals
    cases e with
    | lit kk v r lsp => simp [replaceExprNoExpand, run_pure, he, ha, hg, good_exprOrSpread]
    | ident nm isp =>
      cases mode with
      | replace => simp only [replaceExprNoExpand]; first | exact (replaceDefault_spec ok u _ asg args sp k s he ha hg).1 | exact (replaceDefault_spec ok u _ asg args sp k s he ha hg).2.1 | exact (replaceDefault_spec ok u _ asg args sp k s he ha hg).2.2.1
      | keep => simp [replaceExprNoExpand, run_pure, he, ha, hg, good_exprOrSpread]
    | bin op l r bsp =>
      simp only [replaceExprNoExpand]
      by_cases hop : (op != "+") = true
      · simp only [hop, if_true]; first | exact (replaceDefault_spec ok u _ asg args sp k s he ha hg).1 | exact (replaceDefault_spec ok u _ asg args sp k s he ha hg).2.1 | exact (replaceDefault_spec ok u _ asg args sp k s he ha hg).2.2.1
      · simp only [hop, Bool.false_eq_true, if_false]
        by_cases hls : isLiteralSum (.bin op l r bsp) = true
        · simp [hls, run_pure, he, ha, hg, good_exprOrSpread]
        · simp [hls, run_pure, he, ha, hg]
    | _ => simp only [replaceExprNoExpand]; first | exact (replaceDefault_spec ok u _ asg args sp k s he ha hg).1 | exact (replaceDefault_spec ok u _ asg args sp k s he ha hg).2.1 | exact (replaceDefault_spec ok u _ asg args sp k s he ha hg).2.2.1

end IastModel

namespace IastModel
open Node

theorem replaceArgNoExpand_spec (ok u) (a : Node) (mode : IdentMode) (asg args : List Node) (sp : Span) (s : St) :
    OpSpec ok u a asg args (replaceArgNoExpand a mode asg args sp s) s := by
  intro he ha hg
  cases a with
  | arg spread e =>
    simp only [replaceArgNoExpand, run_bind, run_pure]
    have h := replaceExprNoExpand_spec ok u e mode asg args sp (if spread.isSome = true then IdentKind.spread else IdentKind.expr) s (by simpa using he) ha hg
    simpa using h
  | _ => simp_all [replaceArgNoExpand, run_pure, TS.refl]

theorem good_voidZero (ok u) : goodW ok u voidZero = true := by simp [voidZero]
theorem ns_voidZero : ns voidZero = 0 := by simp [voidZero]

theorem replaceElem_spec (ok u) (a : Node) (mode : IdentMode) (asg args : List Node) (sp : Span) (s : St) :
    OpSpec ok u a asg args (replaceElem a mode asg args sp s) s := by
  intro he ha hg
  cases a with
  | arg spread e => exact replaceArgNoExpand_spec ok u _ mode asg args sp s he ha hg
  | _ => simp_all [replaceElem, run_pure, TS.refl, good_voidZero, ns_voidZero]

/-- list version of `OpSpec` -/
def OpSpecL (ok : String → Bool) (u : Bool) (xs : List Node) (asg args : List Node) (r : (List Node × List Node × List Node) × St) (s : St) : Prop :=
  goodL ok u xs = true → goodL ok u asg = true → goodL ok u args = true →
    goodL ok u r.1.1 = true ∧ goodL ok u r.1.2.1 = true ∧ goodL ok u r.1.2.2 = true ∧
    nsL r.1.1 + nsL r.1.2.1 = nsL xs + nsL asg ∧ nsL r.1.2.2 = nsL args ∧ TS r.2 s

theorem replaceElems_spec (ok u) (mode : IdentMode) (sp : Span) : ∀ (xs asg args : List Node) (s : St),
    OpSpecL ok u xs asg args (replaceElems mode sp xs asg args s) s := by
  intro xs
  induction xs with
  | nil => intro asg args s _ ha hg; simp [replaceElems, run_pure, ha, hg, TS.refl]
  | cons x xs ih =>
    intro asg args s hx ha hg
    simp only [goodL_cons, Bool.and_eq_true] at hx
    simp only [replaceElems, run_bind, run_pure]
    have h1 := replaceElem_spec ok u x mode asg args sp s hx.1 ha hg
    generalize replaceElem x mode asg args sp s = R1 at h1
    obtain ⟨⟨x', asg1, args1⟩, s1⟩ := R1
    simp only at h1
    obtain ⟨g1, g2, g3, c1, c2, t1⟩ := h1
    have h2 := ih asg1 args1 s1 hx.2 g2 g3
    generalize replaceElems mode sp xs asg1 args1 s1 = R2 at h2
    obtain ⟨⟨xs', asg2, args2⟩, s2⟩ := R2
    simp only at h2
    obtain ⟨k1, k2, k3, d1, d2, t2⟩ := h2
    refine ⟨by simp [g1, k1], k2, k3, ?_, by rw [d2, c2], TS.trans t2 t1⟩
    simp only [nsL_cons]
    omega

theorem replaceExpr_spec (ok u) (e : Node) (mode : IdentMode) (asg args : List Node) (sp : Span) (k : IdentKind)
    (expand : Bool) (s : St) : OpSpec ok u e asg args (replaceExpr e mode asg args sp k expand s) s := by
  intro he ha hg
  unfold replaceExpr
  split
  · rename_i elems asp
    simp only [run_bind, run_pure]
    have h := replaceElems_spec ok u mode sp elems asg args s (by simpa using he) ha hg
    generalize replaceElems mode sp elems asg args s = R at h
    obtain ⟨⟨xs', asg2, args2⟩, s2⟩ := R
    simpa using h
  · exact replaceExprNoExpand_spec ok u e mode asg args sp k s he ha hg

theorem replaceArg_spec (ok u) (a : Node) (mode : IdentMode) (asg args : List Node) (sp : Span) (expand : Bool) (s : St) :
    OpSpec ok u a asg args (replaceArg a mode asg args sp expand s) s := by
  intro he ha hg
  cases a with
  | arg spread e =>
    simp only [replaceArg, run_bind, run_pure]
    have h := replaceExpr_spec ok u e mode asg args sp (if spread.isSome = true then IdentKind.spread else IdentKind.expr) expand s (by simpa using he) ha hg
    simpa using h
  | _ => simp_all [replaceArg, run_pure, TS.refl]

theorem replaceArgs_spec (ok u) (mode : IdentMode) (sp : Span) (expand : Bool) : ∀ (xs asg args : List Node) (s : St),
    OpSpecL ok u xs asg args (replaceArgs mode sp expand xs asg args s) s := by
  intro xs
  induction xs with
  | nil => intro asg args s _ ha hg; simp [replaceArgs, run_pure, ha, hg, TS.refl]
  | cons x xs ih =>
    intro asg args s hx ha hg
    simp only [goodL_cons, Bool.and_eq_true] at hx
    simp only [replaceArgs, run_bind, run_pure]
    have h1 := replaceArg_spec ok u x mode asg args sp expand s hx.1 ha hg
    generalize replaceArg x mode asg args sp expand s = R1 at h1
    obtain ⟨⟨x', asg1, args1⟩, s1⟩ := R1
    simp only at h1
    obtain ⟨g1, g2, g3, c1, c2, t1⟩ := h1
    have h2 := ih asg1 args1 s1 hx.2 g2 g3
    generalize replaceArgs mode sp expand xs asg1 args1 s1 = R2 at h2
    obtain ⟨⟨xs', asg2, args2⟩, s2⟩ := R2
    simp only at h2
    obtain ⟨k1, k2, k3, d1, d2, t2⟩ := h2
    refine ⟨by simp [g1, k1], k2, k3, ?_, by rw [d2, c2], TS.trans t2 t1⟩
    simp only [nsL_cons]
    omega

end IastModel

import IastModel.Lemmas.ErAssign2
namespace IastModel
open Node

theorem tempTarget_split (sp : Span) (left : Node) (s : St) :
    tempTarget? (splitMemberTarget left sp s).1.1 = tempTarget? left := by
  unfold splitMemberTarget
  split
  · split
    · simp only [run_bind, run_pure]
      split <;> rfl
    · rfl
  · split <;> rfl
  · split
    · rfl
    · rfl
  · rfl

theorem assignRhs_Er {cx : Cx} {lo hi : Nat} {x' x : Node} (h : Er cx lo hi x' x) : Er cx lo hi (assignRhs x') x := by
  unfold assignRhs
  split
  · rename_i a b sp
    intro e'' hb σ hσ
    obtain ⟨i'', rfl, hi⟩ := hb.paren_inv
    obtain ⟨X, Δ, eX, sX, wX⟩ := h i'' hi σ hσ
    refine ⟨X, Δ, ?_, sX, wX⟩
    rw [erase_paren_tight _ _ _ (by rw [BRg.span _ _ hi]; exact span_beq_refl' _)]
    exact eX
  · exact h

theorem erase_assign_nt (σ : Env) (op : String) (l r : Node) (sp : Span) (h : tempTarget? l = none) :
    erase σ (.assign op l r sp) =
      (resugarAssign op (erase σ l).1 (erase (erase σ l).2 r).1 sp, (erase (erase σ l).2 r).2) := by
  simp only [erase, h]

/-- `to_dd_assign_expr`: `T = hook(O + R, …)` erases to `T += R` -/
theorem toDdAssign_Er (cfg : Config) (cx : Cx) (lo hi : Nat) (op : String) (left' r' left r : Node) (sp : Span) (s : St)
    (hw : HypW cx hi s) (hlo : lo ≤ s.counter) (hnt : tempTarget? left' = none)
    (hl : Er cx lo hi left' left) (hD : Deep lo hi left' left) (hr : Er cx lo hi r' r) :
    s.counter ≤ (toDdAssign cfg (.assign op left' r' sp) s).2.counter ∧
    ∀ e1, (toDdAssign cfg (.assign op left' r' sp) s).1 = some e1 →
      Er cx lo (toDdAssign cfg (.assign op left' r' sp) s).2.counter e1 (.assign "+=" left r sp) := by
  simp only [toDdAssign]
  split
  · simp only [run_pure]
    exact ⟨Nat.le_refl _, by intro e1 he; cases he⟩
  · simp only [run_bind]
    obtain ⟨eo, hP⟩ := splitMemberTarget_Er cx lo hi sp left' left s hw hl hD
    have hnt2 := tempTarget_split sp left' s
    rw [hnt] at hnt2
    generalize splitMemberTarget left' sp s = R1 at hP hnt2 ⊢
    obtain ⟨⟨target, operand⟩, s1⟩ := R1
    obtain ⟨c1, P⟩ := hP
    dsimp only at c1 P hnt2 ⊢
    -- for every environment: the context in which the sum is rewritten
    have key : ∀ target'', BRg target target'' → ∀ σ, cx.ext σ → ∃ T Δt, erase σ target'' = (T, Δt ++ σ) ∧ ESim T left ∧
        WinU lo hi s.counter s1.counter Δt ∧
        let cx' : Cx := ⟨fun k => cx.bad k ∨ (s.counter ≤ k ∧ k < s1.counter), Δt ++ σ⟩
        HypW cx' hi s1 ∧ Er cx' lo hi operand eo ∧ Er cx' lo hi (assignRhs r') r := by
      intro target'' htg σ hσ
      obtain ⟨T, Δt, eT, sT, wT, RB⟩ := P target'' htg σ hσ
      refine ⟨T, Δt, eT, sT, wT, ?_, ?_, ?_⟩
      · refine ⟨?_, ?_, by have := hw.h3; omega⟩
        · intro k hk
          rcases hk with hk | hk
          · exact hw.h1 k hk
          · have := hw.h3; omega
        · intro k hk
          rcases hk with hk | hk
          · have := hw.h2 k hk; omega
          · omega
      · intro operand'' hop σ' hσ'
        obtain ⟨Δ, rfl, hΔ⟩ := hσ'
        exact RB operand'' hop Δ (by intro p hp; have := hΔ p hp; simp only [not_or, not_and, Nat.not_lt] at this; omega)
          (by intro p hp hb; exact hΔ p hp (Or.inl hb))
      · intro r'' hr'' σ' hσ'
        obtain ⟨Δ, rfl, hΔ⟩ := hσ'
        refine assignRhs_Er hr r'' hr'' _ ?_
        exact Cx.ext_append (Cx.ext_append hσ (wT.avoidCx hw)) (by intro p hp hb; exact hΔ p hp (Or.inl hb))
    have hcnt : s1.counter ≤ (toDdBinary cfg (.bin "+" operand (assignRhs r') sp) s1).2.counter := by
      obtain ⟨T, Δt, _, _, _, hw', hEo, hEr⟩ := key target (BRg.refl _) cx.base cx.ext_base
      exact (toDdBinary_Er cfg _ lo hi "+" operand (assignRhs r') eo r sp s1 hw' (by omega) hEo hEr).1
    have hmain : ∀ e1, (toDdBinary cfg (.bin "+" operand (assignRhs r') sp) s1).1 = some e1 →
        Er cx lo (toDdBinary cfg (.bin "+" operand (assignRhs r') sp) s1).2.counter (.assign "=" target e1 sp)
          (.assign "+=" left r sp) := by
      intro e1 he m hbr σ hσ
      obtain ⟨target'', e1'', rfl, htg, he1⟩ := hbr.assign_inv
      obtain ⟨T, Δt, eT, sT, wT, hw', hEo, hEr⟩ := key target'' htg σ hσ
      have hB := (toDdBinary_Er cfg _ lo hi "+" operand (assignRhs r') eo r sp s1 hw' (by omega) hEo hEr).2 e1 he
      obtain ⟨Xb, Δb, eXb, sXb, wXb⟩ := hB e1'' he1 (Δt ++ σ) (Cx.ext_base _)
      -- the erased sum is a sum carrying the assignment's position
      have hshape : ∃ A B, Xb = .bin "+" A B sp ∧ strip B = strip r := by
        have h1 := sXb.1
        have h2 := sXb.2.1
        cases Xb with
        | bin op2 A B bsp =>
          simp only [strip, bin.injEq] at h1
          obtain ⟨rfl, _, hB2, _⟩ := h1
          simp only [spanRel, Node.span, isOptN] at h2
          rcases h2 with h2 | h2
          · subst h2; exact ⟨A, B, rfl, hB2⟩
          · exact absurd h2.1 (by simp)
        | _ => simp [strip] at h1
      obtain ⟨A, B, rfl, hBr⟩ := hshape
      have hnt3 : tempTarget? target'' = none := by rw [htg.tempTarget]; exact hnt2
      refine ⟨.assign "+=" T B sp, Δb ++ Δt, ?_, ?_, ?_⟩
      · rw [erase_assign_nt _ _ _ _ _ hnt3, eT]
        simp only
        rw [eXb]
        simp [resugarAssign, span_beq_refl', List.append_assoc]
      · exact ⟨by simp only [strip, sT.1, hBr], Or.inl rfl, noSp_assign _ _ _ _⟩
      · exact wXb.append (winU_win (wT.mono (Nat.le_refl _) hcnt) hlo (by have := hw.h3; omega))
    generalize toDdBinary cfg (.bin "+" operand (assignRhs r') sp) s1 = R2 at hcnt hmain ⊢
    obtain ⟨res, s2⟩ := R2
    dsimp only at hcnt hmain ⊢
    cases res with
    | none => simp only [run_pure]; exact ⟨by omega, by intro e1 he; cases he⟩
    | some e' =>
      simp only [run_pure]
      refine ⟨by omega, ?_⟩
      intro e1 he
      simp only [Option.some.injEq] at he
      subst he
      exact hmain e' rfl

end IastModel

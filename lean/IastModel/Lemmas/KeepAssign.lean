import IastModel.Lemmas.KeepOc
import IastModel.Lemmas.LitAssign
namespace IastModel
open Node

/-- the literal is kept, and appears only if it did before: `a ≤ b` and `a = 0 → b = 0` -/
theorem cb_seqOperand (B : Node) (e : Node) : cb B (seqOperand e) = cb B e := by
  unfold seqOperand; split <;> simp

def SplitK (B : Node) (left : Node) (R : (Node × Node) × St) : Prop :=
  cb B left ≤ cb B R.1.1 + cb B R.1.2 ∧ cb B R.1.1 + cb B R.1.2 ≤ 2 * cb B left

theorem splitK_same (B : Node) (left : Node) (s : St) : SplitK B left ((left, left), s) := by
  simp only [SplitK]; omega

theorem hoistTargetPart_K (B : Node) (e : Node) (sp : Span) (s : St) : SplitK B e (hoistTargetPart e sp s) := by
  unfold hoistTargetPart
  simp only [run_bind]
  rcases getTemporalIdent_cases (seqOperand e) [] sp .expr s with ⟨hl, h⟩ | ⟨hl, n, s', h, _⟩
  · rw [h]; simp only [run_pure, SplitK, cb_seqOperand]; omega
  · rw [h]
    simp only [List.nil_append, List.getLast?_singleton, run_pure]
    simp only [SplitK, tempIdent, assignRight, cb_paren, cb_assign, cb_ident, cb_seqOperand]
    omega

theorem splitComputedKey_K (B : Node) (csp : Span) (e : Node) (sp : Span) (s : St) :
    SplitK B (.other "Computed" csp ["expression"] [e]) (splitComputedKey csp e sp s) := by
  unfold splitComputedKey
  simp only [run_bind, run_pure]
  have h := hoistTargetPart_K B e sp s
  generalize hoistTargetPart e sp s = R at h
  obtain ⟨⟨tk, okk⟩, s'⟩ := R
  simp only [SplitK] at h ⊢
  simp only [cb_other, cbL_cons, cbL_nil]
  omega

theorem splitProp_K (B : Node) (prop : Node) (sp : Span) (s : St) : SplitK B prop (splitProp prop sp s) := by
  unfold splitProp
  split
  · rename_i csp e
    by_cases hs : isSimpleTargetPart e = true
    · simp only [hs, Bool.not_true, Bool.false_eq_true, if_false, run_pure]; exact splitK_same ..
    · simp only [hs, Bool.not_false, if_true]
      exact splitComputedKey_K B csp e sp s
  · simp only [run_pure]; exact splitK_same ..

theorem splitMemberTarget_K (B : Node) (sp : Span) : ∀ (left : Node) (s : St),
    SplitK B left (splitMemberTarget left sp s) := by
  apply Node.ind
  intro left ih s
  have same : SplitK B left ((left, left), s) := splitK_same ..
  cases left with
  | member obj prop msp =>
    simp only [splitMemberTarget]
    by_cases hcond : (!isSimpleTargetPart obj || !keyIsSimple prop) = true
    · simp only [hcond, if_true]
      by_cases hrep : (isSimpleTargetPart obj && (keyIsSimple prop || !obj.isIdent)) = true
      · simp only [hrep, if_true, run_bind, run_pure]
        have hprop := splitProp_K B prop sp s
        generalize splitProp prop sp s = R2 at hprop
        obtain ⟨⟨tprop, oprop⟩, s2⟩ := R2
        simp only [SplitK] at hprop ⊢
        simp only [cb_member]; omega
      · simp only [hrep, Bool.false_eq_true, if_false, run_bind, run_pure]
        have hobj := hoistTargetPart_K B obj sp s
        generalize hoistTargetPart obj sp s = R1 at hobj
        obtain ⟨⟨tobj, oobj⟩, s1⟩ := R1
        have hprop := splitProp_K B prop sp s1
        generalize splitProp prop sp s1 = R2 at hprop
        obtain ⟨⟨tprop, oprop⟩, s2⟩ := R2
        simp only [SplitK] at hobj hprop ⊢
        simp only [cb_member]; omega
    · simp only [hcond, Bool.false_eq_true, if_false, run_pure]; exact same
  | paren e psp =>
    simp only [splitMemberTarget]
    by_cases hsi : isSplittableInner e = true
    · simp only [hsi, if_true, run_bind, run_pure]
      have h := ih e (by simp [kids]) s
      generalize splitMemberTarget e sp s = R at h
      obtain ⟨⟨t, o⟩, s'⟩ := R
      simp only [SplitK] at h ⊢
      simp only [cb_paren]; omega
    · simp only [hsi, Bool.false_eq_true, if_false, run_pure]; exact same
  | other k osp ons ovs =>
    have hdef : splitMemberTarget (.other k osp ons ovs) sp = splitMemberTarget (.other k osp ons ovs) sp := rfl
    conv at hdef => rhs; unfold splitMemberTarget
    split at hdef
    · rename_i heq; cases heq
    · rename_i ssp sup prop heq
      cases heq
      rw [hdef]
      by_cases hk : keyIsSimple prop = true
      · simp only [hk, Bool.not_true, Bool.false_eq_true, if_false, run_pure]; exact same
      · simp only [hk, Bool.not_false, if_true, run_bind, run_pure]
        have hprop := splitProp_K B prop sp s
        generalize splitProp prop sp s = R2 at hprop
        obtain ⟨⟨tprop, oprop⟩, s2⟩ := R2
        simp only [SplitK] at hprop ⊢
        simp only [cb_other, cbL_cons, cbL_nil]; omega
    · rename_i heq; cases heq
    · rw [hdef]; simp only [run_pure]; exact same
  | _ => simp only [splitMemberTarget, run_pure]; exact same

theorem toDdAssign_K (B : Node) (cfg : Config) (op : String) (left r : Node) (sp : Span) (s : St) :
    ∀ e', (toDdAssign cfg (.assign op left r sp) s).1 = some e' → LZ (cb B (.assign op left r sp)) (cb B e') := by
  simp only [toDdAssign]
  by_cases hp : isPatternTarget left = true
  · simp only [hp, if_true, run_pure]; intro e' h; cases h
  · simp only [hp, Bool.false_eq_true, if_false, run_bind, run_pure]
    have hnr : cb B (assignRhs r) = cb B r := by unfold assignRhs; split <;> simp
    have h1 := splitMemberTarget_K B sp left s
    generalize splitMemberTarget left sp s = R1 at h1
    obtain ⟨⟨target, operand⟩, s1⟩ := R1
    simp only [SplitK] at h1
    have h2 := toDdBinary_K B cfg "+" operand (assignRhs r) sp s1
    generalize toDdBinary cfg (.bin "+" operand (assignRhs r) sp) s1 = R2 at h2
    obtain ⟨res, s2⟩ := R2
    simp only at h2
    cases res with
    | none => simp only [run_pure]; intro e' h; cases h
    | some e1 =>
      simp only [run_pure]
      intro e' he
      simp only [Option.some.injEq] at he
      subst he
      have := h2 e1 rfl
      simp only [cb_assign]
      apply LZ.of_bound (k := 4) <;> omega

end IastModel

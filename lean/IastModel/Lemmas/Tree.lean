import IastModel.Syntax
/-
  Structural facts about `Node`: `kids`/`withKids` round trips, the sub-term induction principle and
  tree-wide combinators (`all`, `count`, `collect`) used by the specifications.
-/
namespace IastModel
namespace Node

theorem withKids_kids (n : Node) : n.withKids n.kids = n := by
  cases n <;> simp [withKids, kids]

theorem kids_withKids (n : Node) (ks : List Node) (h : ks.length = n.kids.length) :
    (n.withKids ks).kids = ks := by
  cases n
  case tpl es qs sp => simp [withKids, kids]
  case arrow ps b at' sp =>
    simp only [kids, List.length_append, List.length_cons, List.length_nil] at h
    simp only [withKids, kids]
    have h1 : ps.length < ks.length := by omega
    conv => rhs; rw [← List.take_append_drop ps.length ks]
    congr 1
    rw [List.drop_eq_getElem_cons h1]
    have : List.drop (ps.length + 1) ks = [] := List.drop_eq_nil_of_le (by omega)
    rw [this]
    simp [List.getD, List.getElem?_eq_getElem h1]
  all_goals
    simp only [kids, List.length_cons, List.length_nil] at h
    rcases ks with _ | ⟨a, _ | ⟨b, _ | ⟨c, _ | ⟨d, ks⟩⟩⟩⟩ <;> simp_all [withKids, kids]

theorem sizeOf_lt_of_mem_kids {n k : Node} (h : k ∈ n.kids) : sizeOf k < sizeOf n := by
  cases n <;> simp only [kids, List.mem_cons, List.mem_append, List.not_mem_nil, or_false] at h
  all_goals
    first
    | (have := List.sizeOf_lt_of_mem h; simp; omega)
    | (rcases h with h | h | h <;> first | (subst h; simp; omega) | (have := List.sizeOf_lt_of_mem h; simp; omega))
    | (rcases h with h | h <;> first | (subst h; simp; omega) | (have := List.sizeOf_lt_of_mem h; simp; omega))
    | (subst h; simp; omega)
    | (exact absurd h (by simp))
/-- sub-term induction: a property that follows from its truth on all immediate children holds
    everywhere -/
theorem ind {P : Node → Prop} (step : ∀ n, (∀ k ∈ n.kids, P k) → P n) : ∀ n, P n := by
  have : ∀ m, ∀ n : Node, sizeOf n = m → P n := by
    intro m
    induction m using Nat.strongRecOn with
    | _ m ih =>
      intro n hn
      apply step
      intro k hk
      exact ih (sizeOf k) (by have := sizeOf_lt_of_mem_kids hk; omega) k rfl
  intro n; exact this _ n rfl

theorem attach_all_eq {α} (l : List α) (q : α → Bool) : (l.attach.all fun x => q x.1) = l.all q := by
  conv => rhs; rw [← List.attach_map_subtype_val l]
  rw [List.all_map]; rfl

theorem attach_map_eq {α β} (l : List α) (q : α → β) : (l.attach.map fun x => q x.1) = l.map q := by
  conv => rhs; rw [← List.attach_map_subtype_val l]
  rw [List.map_map]; rfl

def all (p : Node → Bool) (n : Node) : Bool :=
  p n && n.kids.attach.all fun x => all p x.1
termination_by sizeOf n
decreasing_by exact sizeOf_lt_of_mem_kids x.2

def count (p : Node → Bool) (n : Node) : Nat :=
  (if p n then 1 else 0) + (n.kids.attach.map fun x => count p x.1).sum
termination_by sizeOf n
decreasing_by exact sizeOf_lt_of_mem_kids x.2

def collect (p : Node → Bool) (n : Node) : List Node :=
  (if p n then [n] else []) ++ (n.kids.attach.map fun x => collect p x.1).flatten
termination_by sizeOf n
decreasing_by exact sizeOf_lt_of_mem_kids x.2

theorem all_eq (p : Node → Bool) (n : Node) : all p n = (p n && n.kids.all (all p)) := by
  rw [all, attach_all_eq]
theorem count_eq (p : Node → Bool) (n : Node) :
    count p n = (if p n then 1 else 0) + (n.kids.map (count p)).sum := by
  rw [count, attach_map_eq]
theorem collect_eq (p : Node → Bool) (n : Node) :
    collect p n = (if p n then [n] else []) ++ (n.kids.map (collect p)).flatten := by
  rw [collect, attach_map_eq]

/-- everything `collect p` returns satisfies `p` -/
theorem collect_sound (p : Node → Bool) : ∀ (n x : Node), x ∈ collect p n → p x = true := by
  apply ind
  intro n ih x hx
  rw [collect_eq] at hx
  simp only [List.mem_append, List.mem_flatten, List.mem_map] at hx
  rcases hx with hx | ⟨l, ⟨k, hk, rfl⟩, hx⟩
  · by_cases hp : p n = true
    · simp only [hp, if_true, List.mem_singleton] at hx
      subst hx; exact hp
    · simp [hp] at hx
  · exact ih k hk x hx

end Node
end IastModel

namespace IastModel
namespace Node

theorem name_beq_refl (n : Name) : (n == n) = true := by
  cases n with
  | user s => show (s == s) = true; simp
  | temp k => show (k == k) = true; simp

/-- equality up to positions is reflexive -/
theorem eqNS_refl : ∀ n : Node, eqNS n n = true := by
  intro n
  induction n using Node.rec (motive_2 := fun l => eqNSL l l = true) with
  | nil => rfl
  | cons x xs hx hxs => simp [eqNSL, hx, hxs]
  | ident nm sp => simp [eqNS, name_beq_refl]
  | _ => simp_all [eqNS]

theorem eqNSL_refl (l : List Node) : eqNSL l l = true := by
  induction l with
  | nil => rfl
  | cons x xs ih => simp [eqNSL, eqNS_refl x, ih]

end Node
end IastModel

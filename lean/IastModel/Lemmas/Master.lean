import IastModel.Lemmas.BlockSpec
import IastModel.Rewriter.Rewrite
namespace IastModel
open Node

def hookCountL (l : List Node) : Nat := (l.map hookCount).sum

theorem hookCount_eq (n : Node) : hookCount n = (if isHook n then 1 else 0) + hookCountL n.kids := by
  unfold hookCountL hookCount
  rw [Node.count_eq]

@[simp] theorem hookCountL_nil : hookCountL [] = 0 := rfl
@[simp] theorem hookCountL_cons (x : Node) (xs : List Node) : hookCountL (x :: xs) = hookCount x + hookCountL xs := by
  simp [hookCountL]
@[simp] theorem hookCountL_append (xs ys : List Node) : hookCountL (xs ++ ys) = hookCountL xs + hookCountL ys := by
  simp [hookCountL, List.sum_append]

theorem isHook_of_none {n : Node} (h : hookName? n = none) : isHook n = false := by simp [isHook, h]
theorem isHook_of_some {n : Node} {nm : String} (h : hookName? n = some nm) : isHook n = true := by simp [isHook, h]

/-- in a good tree the references to the namespace are exactly the hook call sites -/
theorem good_ns_hookCount (ok) : ∀ n : Node, goodW ok false n = true → ns n = hookCount n := by
  apply Node.ind
  intro n ih hg
  rw [goodW_eq] at hg
  simp only [Bool.false_and, Bool.false_eq_true, if_false] at hg
  have hL : ∀ l : List Node, (∀ k ∈ l, k ∈ n.kids) → goodL ok false l = true → nsL l = hookCountL l := by
    intro l
    induction l with
    | nil => intro _ _; rfl
    | cons x xs ihl =>
      intro hm hgl
      simp only [goodL_cons, Bool.and_eq_true] at hgl
      simp only [nsL_cons, hookCountL_cons]
      rw [ih x (hm x (by simp)) hgl.1, ihl (fun k hk => hm k (by simp [hk])) hgl.2]
  cases hh : hookName? n with
  | some nm =>
    obtain ⟨x, isp, psp, msp, args, sp, rfl, hx⟩ := hookName?_some hh
    rw [hh] at hg
    simp only [kids, List.drop_succ_cons, List.drop_zero, Bool.and_eq_true] at hg
    have ha := hL args (by intro k hk; simp [kids, hk]) hg.2
    rw [hookCount_eq, isHook_of_some hh]
    simp only [kids, hookCountL_cons, ns_call, ns_member, ns_user, hx, if_true, ns_pname]
    rw [hookCount_eq (.member _ _ _)]
    simp only [kids, hookCountL_cons, hookCountL_nil]
    rw [hookCount_eq (.ident _ _), hookCount_eq (.pname _ _)]
    simp [isHook, hookName?, kids, ha]
  | none =>
    rw [hh] at hg
    simp only [Bool.and_eq_true, Bool.not_eq_true'] at hg
    rw [ns_eq, hookCount_eq, isHook_of_none hh, hg.1, hL n.kids (fun k hk => hk) hg.2]

theorem mem_hookNames {n : Node} {nm : String} (h : nm ∈ hookNames n) :
    hookName? n = some nm ∨ ∃ k ∈ n.kids, nm ∈ hookNames k := by
  unfold hookNames hooks at h
  rw [Node.collect_eq] at h
  simp only [List.filterMap_append, List.mem_append, List.mem_filterMap, List.mem_flatten, List.mem_map] at h
  rcases h with ⟨a, ha, hnm⟩ | ⟨a, ⟨l, ⟨k, hk, rfl⟩, ha⟩, hnm⟩
  · left
    by_cases hi : isHook n = true
    · simp only [hi, if_true, List.mem_singleton] at ha
      subst ha; exact hnm
    · simp [hi] at ha
  · right
    refine ⟨k, hk, ?_⟩
    unfold hookNames hooks
    simp only [List.mem_filterMap]
    exact ⟨a, ha, hnm⟩

/-- in a good tree every hook name is acceptable -/
theorem good_hookNames (ok) : ∀ n : Node, goodW ok false n = true → ∀ nm ∈ hookNames n, ok nm = true := by
  apply Node.ind
  intro n ih hg nm hnm
  rw [goodW_eq] at hg
  simp only [Bool.false_and, Bool.false_eq_true, if_false] at hg
  rcases mem_hookNames hnm with hself | ⟨k, hk, hkn⟩
  · rw [hself] at hg
    simp only [Bool.and_eq_true] at hg
    exact hg.1
  · cases hh : hookName? n with
    | some nm' =>
      obtain ⟨x, isp, psp, msp, args, sp, rfl, hx⟩ := hookName?_some hh
      rw [hh] at hg
      simp only [kids, List.drop_succ_cons, List.drop_zero, Bool.and_eq_true] at hg
      simp only [kids, List.mem_cons] at hk
      rcases hk with rfl | hk
      · -- the callee has no hook call inside
        rcases mem_hookNames hkn with h | ⟨k2, hk2, h2⟩
        · simp [hookName?] at h
        · simp only [kids, List.mem_cons, List.not_mem_nil, or_false] at hk2
          rcases hk2 with rfl | rfl
          · rcases mem_hookNames h2 with h | ⟨k3, hk3, _⟩
            · simp [hookName?] at h
            · simp [kids] at hk3
          · rcases mem_hookNames h2 with h | ⟨k3, hk3, _⟩
            · simp [hookName?] at h
            · simp [kids] at hk3
      · have : goodW ok false k = true := by
          unfold goodL at hg
          rw [List.all_eq_true] at hg
          exact hg.2 k hk
        exact ih k (by simp [kids, hk]) this nm hkn
    | none =>
      rw [hh] at hg
      simp only [Bool.and_eq_true] at hg
      have : goodW ok false k = true := by
        have := hg.2
        unfold goodL at this
        rw [List.all_eq_true] at this
        exact this k hk
      exact ih k hk this nm hkn

end IastModel

namespace IastModel
open Node

theorem programVisit_eq (cfg : Config) (pro : List Node) (fuel : Nat) (p : Node) (s : St)
    (h : hasReserved (tempPrefix cfg.localVarPrefix) p = false) :
    programVisit cfg pro fuel p s =
      (if (mapKidsM mapM' (blockVisit cfg fuel fuel) p s).2.status = .modified
        then insertPrologue pro (mapKidsM mapM' (blockVisit cfg fuel fuel) p s).1
        else (mapKidsM mapM' (blockVisit cfg fuel fuel) p s).1,
       (mapKidsM mapM' (blockVisit cfg fuel fuel) p s).2) := by
  unfold programVisit
  simp only [h, Bool.false_eq_true, if_false, run_bind, run_get]
  generalize mapKidsM mapM' (blockVisit cfg fuel fuel) p s = R
  obtain ⟨p1, s1⟩ := R
  simp only
  by_cases hm : s1.status = Status.modified
  · have : (s1.status == Status.modified) = true := by rw [hm]; rfl
    show (ite ((s1.status == Status.modified) = true) _ _ : M Node) s1 = _
    rw [if_pos this]; simp only [hm, if_true, run_pure]
  · have : (s1.status == Status.modified) = false := by
      cases hs : s1.status <;> simp_all <;> rfl
    show (ite ((s1.status == Status.modified) = true) _ _ : M Node) s1 = _
    rw [if_neg (by simp [this])]; simp only [hm, if_false, run_pure]

theorem programVisit_reserved (cfg : Config) (pro : List Node) (fuel : Nat) (p : Node) (s : St)
    (h : hasReserved (tempPrefix cfg.localVarPrefix) p = true) :
    (programVisit cfg pro fuel p s).2.status = .cancelled := by
  unfold programVisit
  simp [h, run_bind, run_pure, cancelVisit, run_modify]

/-- the traversal of the program node: all block statements of a source program are untouched -/
theorem programKids_spec (ok) (cfg : Config) (hcfg : CfgOk ok cfg) (fuel : Nat) (p : Node) (s : St)
    (hs : StOk s) (h0 : ns p = 0) (ht : targetsOk p = true) :
    let R := mapKidsM mapM' (blockVisit cfg fuel fuel) p s
    StOk R.2 → goodW ok false R.1 = true ∧ Eff s R.2 (ns R.1) := by
  intro R hfin
  have hlist := mapBlock_spec ok (blockVisit cfg fuel fuel)
    (fun k s hs hg => blockVisit_spec ok cfg hcfg fuel fuel k s hs hg)
    (fun k s h => blockVisit_canc cfg fuel fuel k s h)
  have hb0 : bad p = 0 := (bad_zero_iff p).mpr ht
  have hk : goodL ok true p.kids = true := by
    apply goodL_of_ns0
    · exact nsL_kids_of_ns0 h0
    · rw [bad_eq] at hb0; omega
  obtain ⟨g3, l3, k3, e3, c3⟩ := hlist p.kids s hs hk hfin
  refine ⟨good_withKids_false ok p _ (mentionsNs_of_ns0 h0) g3 l3, ?_⟩
  show Eff s R.2 (ns (p.withKids _))
  rw [ns_withKids p _ l3, mentionsNs_of_ns0 h0]
  have : nsL p.kids = 0 := nsL_kids_of_ns0 h0
  exact e3.cast (by simp; omega)

end IastModel

namespace IastModel
open Node

def hooksL (l : List Node) : List Node := (l.map hooks).flatten

theorem hooks_eq (n : Node) : hooks n = (if isHook n then [n] else []) ++ hooksL n.kids := by
  unfold hooksL hooks
  rw [Node.collect_eq]

@[simp] theorem hooksL_nil : hooksL [] = [] := rfl
@[simp] theorem hooksL_cons (x : Node) (xs : List Node) : hooksL (x :: xs) = hooks x ++ hooksL xs := by simp [hooksL]
@[simp] theorem hooksL_append (xs ys : List Node) : hooksL (xs ++ ys) = hooksL xs ++ hooksL ys := by
  simp [hooksL]

theorem hooksL_nil_of (l : List Node) (h : ∀ q ∈ l, hooks q = []) : hooksL l = [] := by
  induction l with
  | nil => rfl
  | cons x xs ih => simp [h x (by simp), ih (fun q hq => h q (by simp [hq]))]

theorem hooks_length : ∀ n : Node, (hooks n).length = hookCount n := by
  apply Node.ind
  intro n ih
  rw [hooks_eq, hookCount_eq]
  have : ∀ l : List Node, (∀ k ∈ l, k ∈ n.kids) → (hooksL l).length = hookCountL l := by
    intro l
    induction l with
    | nil => intro _; rfl
    | cons x xs ihl =>
      intro hm
      simp only [hooksL_cons, List.length_append, hookCountL_cons]
      rw [ih x (hm x (by simp)), ihl (fun k hk => hm k (by simp [hk]))]
  rw [List.length_append, this n.kids (fun k hk => hk)]
  split <;> simp

theorem hooks_insertPrologue (pro : List Node) (p : Node) (h : ∀ q ∈ pro, hooks q = []) :
    hooks (insertPrologue pro p) = hooks p := by
  unfold insertPrologue
  split
  · rename_i k sp ns body vs
    rw [hooks_eq, hooks_eq (.other k sp ("body" :: ns) (.arr body :: vs))]
    simp only [kids, hooksL_cons]
    rw [hooks_eq (.arr _), hooks_eq (.arr body)]
    simp only [kids, insertAt, hooksL_append, hooksL_nil_of pro h, List.append_nil]
    have : hooksL (List.take (variableInsertionIndex body) body) ++ hooksL (List.drop (variableInsertionIndex body) body) = hooksL body := by
      rw [← hooksL_append, List.take_append_drop]
    simp [isHook, hookName?, this]
  · rfl

theorem hooks_prologue (dsts : List String) : ∀ q ∈ prologue dsts, hooks q = [] := by
  have hmap : ∀ l : List String, hooksL (l.map fun k => Node.other "KeyValueProperty" pd ["key", "value"]
      [.pname k pd, puid "noop"]) = [] := by
    intro l
    induction l with
    | nil => rfl
    | cons x xs ih =>
      simp only [List.map_cons, hooksL_cons, ih, List.append_nil]
      simp [hooks_eq, isHook, hookName?, kids, puid]
  intro q hq
  simp only [prologue, List.mem_cons, List.not_mem_nil, or_false] at hq
  rcases hq with rfl | rfl
  · simp [hooks_eq, isHook, hookName?, kids]
  · simp only [puid] at hmap
    simp [hooks_eq, isHook, hookName?, kids, hmap, puid]

end IastModel

namespace IastModel
open Node

/-- the names the configuration lists as replacements -/
def okCfg (cfg : Config) : String → Bool := fun m => cfg.dsts.contains m

theorem find?_dst_mem (cfg : Config) (q : CsiMethod → Bool) (m : CsiMethod) (h : cfg.methods.find? q = some m) :
    okCfg cfg m.dst = true := by
  have := List.mem_of_find?_eq_some h
  simp only [okCfg, Config.dsts, List.contains_iff_mem, List.mem_map]
  exact ⟨m, this, rfl⟩

theorem cfgOk_dsts (cfg : Config) : CfgOk (okCfg cfg) cfg := by
  refine ⟨?_, ?_, ?_⟩
  · intro h
    unfold Config.plusEnabled at h
    unfold Config.plusName
    cases hp : cfg.plusOperator with
    | none => simp [hp] at h
    | some m => exact find?_dst_mem cfg _ m hp
  · intro h
    unfold Config.tplEnabled at h
    unfold Config.tplName
    cases hp : cfg.tplOperator with
    | none => simp [hp] at h
    | some m => exact find?_dst_mem cfg _ m hp
  · intro m csi h
    exact find?_dst_mem cfg _ csi h

/-- **Master theorem of the instrumentation pass.**  For every configuration, every fuel and every
    program that does not mention the hook namespace and whose compound-assignment targets have
    JavaScript shapes: unless the rewrite is refused,
    * the number of hook call sites of the output equals the number of telemetry increments,
    * every hook call site uses a configured replacement name,
    * the status is `modified` exactly when at least one hook was emitted, and then the output is the
      instrumented program with the prologue inserted; otherwise the status is `notModified`. -/
theorem master (cfg : Config) (fuel : Nat) (p : Node) (h0 : ns p = 0) (ht : targetsOk p = true)
    (hnc : (transformProgram cfg fuel p).status ≠ .cancelled) :
    hookCount (transformProgram cfg fuel p).out = (transformProgram cfg fuel p).incs.length ∧
    (∀ nm ∈ hookNames (transformProgram cfg fuel p).out, nm ∈ cfg.dsts) ∧
    ((transformProgram cfg fuel p).status = .modified ↔ (transformProgram cfg fuel p).incs ≠ []) ∧
    ((transformProgram cfg fuel p).status = .notModified ↔ (transformProgram cfg fuel p).incs = []) ∧
    ((transformProgram cfg fuel p).status = .modified →
      ∃ p1, (transformProgram cfg fuel p).out = insertPrologue (prologue cfg.dsts) p1 ∧ hookCount p1 = hookCount (transformProgram cfg fuel p).out) := by
  unfold transformProgram at hnc ⊢
  simp only [StateT.run] at hnc ⊢
  by_cases hr : hasReserved (tempPrefix cfg.localVarPrefix) p = true
  · exact absurd (programVisit_reserved cfg _ fuel p {} hr) hnc
  · simp only [Bool.not_eq_true] at hr
    rw [programVisit_eq cfg _ fuel p {} hr] at hnc ⊢
    simp only at hnc ⊢
    have hs0 : StOk ({} : St) := by intro h; cases h
    have hspec := programKids_spec (okCfg cfg) cfg (cfgOk_dsts cfg) fuel p {} hs0 h0 ht
    generalize mapKidsM mapM' (blockVisit cfg fuel fuel) p {} = R at hspec hnc
    obtain ⟨p1, s1⟩ := R
    simp only at hspec hnc ⊢
    obtain ⟨g, tags, hlen, hincs, hst⟩ := hspec hnc
    have hcount : hookCount p1 = s1.incs.length := by
      rw [← good_ns_hookCount _ p1 g, hincs]
      show ns p1 = ([] ++ tags).length
      simp [hlen]
    have hins : hooks (insertPrologue (prologue cfg.dsts) p1) = hooks p1 :=
      hooks_insertPrologue _ _ (hooks_prologue cfg.dsts)
    have hout : ∀ out, out = (if s1.status = Status.modified then insertPrologue (prologue cfg.dsts) p1 else p1) →
        hooks out = hooks p1 := by
      intro out ho; subst ho; split
      · exact hins
      · rfl
    have hc : hookCount (if s1.status = Status.modified then insertPrologue (prologue cfg.dsts) p1 else p1) = hookCount p1 := by
      rw [← hooks_length, hout _ rfl, hooks_length]
    have hnames : hookNames (if s1.status = Status.modified then insertPrologue (prologue cfg.dsts) p1 else p1) = hookNames p1 := by
      unfold hookNames; rw [hout _ rfl]
    have hk : ns p1 = s1.incs.length := by rw [good_ns_hookCount _ p1 g]; exact hcount
    have hst' : s1.status = if ns p1 = 0 then Status.notModified else Status.modified := hst.1
    refine ⟨by rw [hc]; exact hcount, ?_, ?_, ?_, ?_⟩
    · intro nm hnm
      rw [hnames] at hnm
      have := good_hookNames _ p1 g nm hnm
      simpa [okCfg] using this
    · rw [hst']
      constructor
      · intro h hnil
        rw [hnil] at hk
        simp [hk] at h
      · intro h
        have : ns p1 ≠ 0 := by
          intro hz; rw [hz] at hk
          exact h (List.eq_nil_of_length_eq_zero hk.symm)
        simp [this]
    · rw [hst']
      constructor
      · intro h
        have : ns p1 = 0 := by
          by_cases hz : ns p1 = 0
          · exact hz
          · simp [hz] at h
        rw [this] at hk
        exact List.eq_nil_of_length_eq_zero hk.symm
      · intro h
        rw [h] at hk
        simp [hk]
    · intro hm
      refine ⟨p1, by simp [hm], ?_⟩
      rw [hc]

end IastModel

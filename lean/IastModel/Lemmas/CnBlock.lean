import IastModel.Lemmas.CnVisit
namespace IastModel
open Node

theorem letDecl_cn (d : String) (idents : List Nat) (sp : Span) : cn d (letDecl idents sp) = 0 := by
  have h1 : ∀ l : List Nat, cnL d (l.map fun n => Node.other "VariableDeclarator" sp ["id", "init", "definite"]
      [tempIdent n, .atom "null", .atom "false"]) = 0 := by
    intro l; induction l with
    | nil => rfl
    | cons x xs ih =>
      simp only [tempIdent] at ih ⊢
      simp [ih]
  simp [letDecl, h1]

theorem insertVar_cn (d : String) (idents : List Nat) (ks : List Node) (sp : Span) :
    ∃ ks2, insertVariableDeclaration idents (.block ks sp) = .block ks2 sp ∧ cnL d ks2 = cnL d ks := by
  simp only [insertVariableDeclaration]
  by_cases he : idents.isEmpty = true
  · exact ⟨ks, by simp only [he, if_true], rfl⟩
  · refine ⟨insertAt ks (variableInsertionIndex ks) [letDecl idents sp], by simp only [he, Bool.false_eq_true, if_false], ?_⟩
    have : cnL d (ks.take (variableInsertionIndex ks)) + cnL d (ks.drop (variableInsertionIndex ks)) = cnL d ks := by
      conv => rhs; rw [← List.take_append_drop (variableInsertionIndex ks) ks]
      rw [cnL_append]
    simp only [insertAt, cnL_append, cnL_cons, cnL_nil, letDecl_cn]
    omega

def BC (cfg : Config) (d : String) (n : Node) (R : Node × St) (s : St) : Prop :=
  StOk R.2 → VC cfg d s R.2 (cn d n) (cn d R.1)

theorem mapBlock_C (cfg : Config) (d : String) (ok) (g : Node → M Node)
    (hb : ∀ k s, StOk s → goodW ok true k = true → BC cfg d k (g k s) s)
    (hc : ∀ k s, s.status = .cancelled → (g k s).2.status = .cancelled) :
    ∀ (ks : List Node) (s : St), StOk s → goodL ok true ks = true → StOk (mapM' g ks s).2 →
      VC cfg d s (mapM' g ks s).2 (cnL d ks) (cnL d (mapM' g ks s).1) := by
  intro ks
  induction ks with
  | nil => intro s _ _ _; exact VC.refl cfg d s _
  | cons x xs ih =>
    intro s hs hg hfin
    simp only [goodL_cons, Bool.and_eq_true] at hg
    simp only [mapM', run_bind, run_pure] at hfin ⊢
    have h1 := hb x s hs hg.1
    generalize hR1 : g x s = R1 at h1 hfin
    obtain ⟨x', s1⟩ := R1
    simp only at hfin ⊢
    have hs1 : StOk s1 := by
      intro hcn
      exact hfin (mapM'_canc g hc xs s1 hcn)
    obtain ⟨t1, i1, e1⟩ := h1 hs1
    obtain ⟨t2, i2, e2⟩ := ih s1 hs1 hg.2 hfin
    simp only at i1 e1
    refine ⟨t1 ++ t2, by rw [i2, i1, List.append_assoc], ?_⟩
    simp only [cnL_cons, countTags_append]
    omega

theorem blockVisit_C (ok) (cfg : Config) (hcfg : CfgOk ok cfg) (hct : CfgTagsOk cfg) (d : String) (opFuel : Nat) :
    ∀ (f : Nat) (n : Node) (s : St), StOk s → goodW ok true n = true → BC cfg d n (blockVisit cfg opFuel f n s) s := by
  intro f
  induction f with
  | zero =>
    intro n s _ _ _
    simp only [blockVisit, run_bind, run_pure]
    exact VC.of_TS (outOfFuel_TS s)
  | succ f ih =>
    intro n s hs hg
    have hlist := mapBlock_C cfg d ok (blockVisit cfg opFuel f) (fun k s hs hg => ih k s hs hg)
      (fun k s h => blockVisit_canc cfg opFuel f k s h)
    have hspec := mapBlock_spec ok (blockVisit cfg opFuel f)
      (fun k s hs hg => blockVisit_spec ok cfg hcfg opFuel f k s hs hg)
      (fun k s h => blockVisit_canc cfg opFuel f k s h)
    by_cases hb : isBlockNode n = true
    · cases n with
      | block ss sp =>
        rw [good_block] at hg
        simp only [if_true, Bool.and_eq_true, beq_iff_eq] at hg
        rw [blockVisit_block cfg opFuel f ss sp s hs]
        have hs0 : StOk (resetProvider s) := hs
        have t0 : TS (resetProvider s) s := ⟨rfl, rfl, id⟩
        have h0 : ns (.block ss sp) = 0 := by simp [hg.1]
        have htg : targetsOk (.block ss sp) = true := (bad_zero_iff _).mp (by simp [hg.2])
        obtain ⟨ks', h1, hl, g, e, p⟩ := mapKids_spec' ok (visit cfg opFuel true)
          (fun k s h0 ht hs => visit_spec ok cfg hcfg opFuel true k s h0 ht hs) (.block ss sp) (resetProvider s) h0 htg hs0
        have hk : ∀ (ks : List Node) (s : St), nsL ks = 0 → (∀ k ∈ ks, targetsOk k = true) → StOk s →
            VC cfg d s (mapM' (visit cfg opFuel true) ks s).2 (cnL d ks) (cnL d (mapM' (visit cfg opFuel true) ks s).1) := by
          intro ks
          induction ks with
          | nil => intro s _ _ _; exact VC.refl cfg d s _
          | cons k ks ihk =>
            intro s hz htk hs
            simp only [nsL_cons] at hz
            simp only [mapM', run_bind, run_pure, cnL_cons]
            have hk1 := visit_C cfg ok hcfg hct d opFuel true k s (by omega) (htk k (by simp)) hs
            have hsp := visit_spec ok cfg hcfg opFuel true k s (by omega) (htk k (by simp)) hs
            have hk2 := ihk (visit cfg opFuel true k s).2 (by omega) (fun x hx => htk x (by simp [hx])) (hsp.2.1.stOk hs)
            obtain ⟨t1, i1, e1⟩ := hk1
            obtain ⟨t2, i2, e2⟩ := hk2
            exact ⟨t1 ++ t2, by rw [i2, i1, List.append_assoc], by rw [countTags_append]; omega⟩
        have he1 := hk ss (resetProvider s) hg.1 (targetsOk_kids htg) hs0
        have hK : mapKidsM mapM' (visit cfg opFuel true) (.block ss sp) (resetProvider s) =
            (.block (mapM' (visit cfg opFuel true) ss (resetProvider s)).1 sp, (mapM' (visit cfg opFuel true) ss (resetProvider s)).2) := by
          simp [mapKidsM, run_bind, run_pure, withKids, kids]
        rw [hK] at h1 e ⊢
        generalize mapM' (visit cfg opFuel true) ss (resetProvider s) = K at h1 e he1
        obtain ⟨ks1, s1⟩ := K
        simp only [withKids] at h1 e he1 ⊢
        have hks : ks' = ks1 := by injection h1 with h; exact h.symm
        subst hks
        by_cases hd : variablesContainPossibleDuplicate s1.vars (tempPrefix cfg.localVarPrefix) = true
        · simp only [hd, if_true]
          intro hfin
          exact absurd rfl hfin
        · simp only [hd, Bool.false_eq_true, if_false]
          obtain ⟨ks2, hins, g2, n2⟩ := insertVar_spec ok s1.idents ks' sp g
          obtain ⟨ks2', hins', e2⟩ := insertVar_cn d s1.idents ks' sp
          have : ks2' = ks2 := by rw [hins] at hins'; injection hins' with h; exact h.symm
          subst this
          rw [hins]
          simp only [mapKidsM, kids, run_bind, run_pure, withKids]
          intro hfin
          have e01 : Eff s s1 (nsL ks') := ((Eff.of_TS t0).trans e).cast (by omega)
          have h3 := hlist ks2' s1 (e01.stOk hs) g2 hfin
          simp only [cn_block]
          rw [e2] at h3
          exact ((VC.of_TS t0).trans he1).trans h3
      | _ => simp [isBlockNode] at hb
    · simp only [Bool.not_eq_true] at hb
      rw [blockVisit_generic cfg opFuel f n hb]
      have hg' := hg
      rw [goodW_eq] at hg'
      simp only [hb, Bool.and_false, Bool.false_eq_true, if_false] at hg'
      cases hh : hookName? n with
      | none =>
        rw [hh] at hg'
        simp only [Bool.and_eq_true, Bool.not_eq_true'] at hg'
        simp only [mapKidsM, run_bind, run_pure]
        intro hfin
        have e3 := hlist n.kids s hs hg'.2 hfin
        obtain ⟨g3, l3, _⟩ := hspec n.kids s hs hg'.2 hfin
        have hnamed : isHookNamed d (n.withKids (mapM' (blockVisit cfg opFuel f) n.kids s).1) = isHookNamed d n := by
          cases n with
          | call c as sp =>
            match hks : (mapM' (blockVisit cfg opFuel f) (Node.call c as sp).kids s).1, l3, g3 with
            | c' :: as', _, g3 =>
              simp only [goodL_cons, Bool.and_eq_true] at g3
              simp only [withKids, List.getD_cons_zero, List.drop_succ_cons, List.drop_zero, isHookNamed]
              rw [hookName?_call_none _ _ g3.1, hh]
          | _ => exact isHookNamed_withKids_other d _ _ (by intro c as sp h; cases h)
        rw [cn_eq (n := n.withKids _), Node.kids_withKids n _ l3, hnamed, cn_eq (n := n)]
        obtain ⟨t, i, e⟩ := e3
        exact ⟨t, i, by omega⟩
      | some nm =>
        obtain ⟨x, isp, psp, msp, args, sp, rfl, hx⟩ := hookName?_some hh
        rw [hh] at hg'
        simp only [kids, List.drop_succ_cons, List.drop_zero, Bool.and_eq_true] at hg'
        simp only [mapKidsM, kids, mapM', run_bind, run_pure]
        have hc := blockVisit_callee cfg opFuel f (.user x) isp nm psp msp s
        generalize blockVisit cfg opFuel f (.member (.ident (.user x) isp) (.pname nm psp) msp) s = RC at hc
        obtain ⟨c', s1⟩ := RC
        obtain ⟨hc1, t1⟩ := hc
        simp only at hc1 t1 ⊢
        subst hc1
        intro hfin
        have e1 : Eff s s1 0 := Eff.of_TS t1
        have e3 := hlist args s1 (e1.stOk hs) hg'.2 hfin
        simp only [withKids, List.getD_cons_zero, List.drop_succ_cons, List.drop_zero]
        rw [cn_call, cn_call]
        have hsame : hookName? (Node.call (.member (.ident (.user x) isp) (.pname nm psp) msp)
            (mapM' (blockVisit cfg opFuel f) args s1).1 sp) = hookName? (Node.call (.member (.ident (.user x) isp) (.pname nm psp) msp) args sp) := by
          simp [hookName?]
        rw [hsame]
        obtain ⟨t, i, e⟩ := (VC.of_TS (cfg := cfg) (d := d) (a := cnL d args) t1).trans e3
        exact ⟨t, i, by omega⟩

end IastModel

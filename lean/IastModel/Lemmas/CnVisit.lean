import IastModel.Lemmas.CnTags
namespace IastModel
open Node

theorem isHookNamed_withKids_other (d : String) (n : Node) (ks : List Node)
    (hc : ∀ c as sp, n ≠ .call c as sp) : isHookNamed d (n.withKids ks) = isHookNamed d n := by
  cases n <;> first | rfl | (exfalso; exact hc _ _ _ rfl)

/-- visiting the children of a source node never makes the node itself a hook call -/
theorem isHookNamed_mapKids (cfg : Config) (ok : String → Bool) (hcfg : CfgOk ok cfg) (d : String) (f : Nat) (r : Bool)
    (n : Node) (s : St) (h0 : ns n = 0) (ht : targetsOk n = true) (hs : StOk s) :
    isHookNamed d (mapKidsM mapM' (visit cfg f r) n s).1 = isHookNamed d n := by
  cases n with
  | call c as sp =>
    simp only [ns_call] at h0
    obtain ⟨ks', h1, hl, g, e, p⟩ := mapKids_spec' ok _ (fun k s h0 ht hs => visit_spec ok cfg hcfg f r k s h0 ht hs) (.call c as sp) s
      (by simp only [ns_call]; omega) ht hs
    rw [h1]
    match ks', hl, g with
    | c' :: as', _, g =>
      simp only [goodL_cons, Bool.and_eq_true] at g
      simp only [withKids, List.getD_cons_zero, List.drop_succ_cons, List.drop_zero, isHookNamed]
      rw [hookName?_call_none _ _ g.1, hookName?_none_of_ns0 _ _ _ (by omega)]
  | _ =>
    simp only [mapKidsM, run_bind, run_pure]
    exact isHookNamed_withKids_other d _ _ (by intro c as sp h; cases h)

theorem vc_finish (cfg : Config) (d : String) (s : St) (root : Bool) (x : Node) (s3 : St) (a : Nat)
    (h : VC cfg d s s3 a (cn d x)) :
    VC cfg d s ((if root = true then do resetCounter; pure x else pure x : M Node) s3).2 a
      (cn d ((if root = true then do resetCounter; pure x else pure x : M Node) s3).1) := by
  rw [finish_fst]
  exact h.trans (VC.of_TS (finish_TS root x s3))

/-- per replacement name: the operation visitor emits as many hook calls named `d` as it logs
    telemetry entries that stand for `d` -/
theorem visit_C (cfg : Config) (ok : String → Bool) (hcfg : CfgOk ok cfg) (hct : CfgTagsOk cfg) (d : String) :
    ∀ (f : Nat) (root : Bool) (n : Node) (s : St), ns n = 0 → targetsOk n = true → StOk s →
      VC cfg d s (visit cfg f root n s).2 (cn d n) (cn d (visit cfg f root n s).1) := by
  intro f
  induction f with
  | zero =>
    intro root n s _ _ _
    simp only [visit, run_bind, run_pure]
    exact VC.of_TS (outOfFuel_TS s)
  | succ f ih =>
    intro root n s h0 ht hs
    have hv : ∀ r, VHyp ok (visit cfg f r) := fun r k s h0 ht hs => visit_spec ok cfg hcfg f r k s h0 ht hs
    have hkids : ∀ (r : Bool) (ks : List Node) (s : St), nsL ks = 0 → (∀ k ∈ ks, targetsOk k = true) → StOk s →
        VC cfg d s (mapM' (visit cfg f r) ks s).2 (cnL d ks) (cnL d (mapM' (visit cfg f r) ks s).1) := by
      intro r ks
      induction ks with
      | nil => intro s _ _ _; exact VC.refl cfg d s _
      | cons k ks ihk =>
        intro s hz htk hs
        simp only [nsL_cons] at hz
        simp only [mapM', run_bind, run_pure, cnL_cons]
        have hk1 := ih r k s (by omega) (htk k (by simp)) hs
        have hsp := visit_spec ok cfg hcfg f r k s (by omega) (htk k (by simp)) hs
        have hk2 := ihk (visit cfg f r k s).2 (by omega) (fun x hx => htk x (by simp [hx])) (hsp.2.1.stOk hs)
        obtain ⟨t1, i1, e1⟩ := hk1
        obtain ⟨t2, i2, e2⟩ := hk2
        exact ⟨t1 ++ t2, by rw [i2, i1, List.append_assoc], by rw [countTags_append]; omega⟩
    have hgen : ∀ (r : Bool) (n : Node) (s : St), ns n = 0 → targetsOk n = true → StOk s →
        VC cfg d s (mapKidsM mapM' (visit cfg f r) n s).2 (cn d n) (cn d (mapKidsM mapM' (visit cfg f r) n s).1) := by
      intro r n s h0 ht hs
      have hh := isHookNamed_mapKids cfg ok hcfg d f r n s h0 ht hs
      simp only [mapKidsM, run_bind, run_pure] at hh ⊢
      have hl : (mapM' (visit cfg f r) n.kids s).1.length = n.kids.length := by
        have := mapVisit_spec ok (visit cfg f r) (hv r) n.kids s (nsL_kids_of_ns0 h0) (targetsOk_kids ht) hs
        exact (Forall2.length_eq this.2.2).symm
      have := hkids r n.kids s (nsL_kids_of_ns0 h0) (targetsOk_kids ht) hs
      rw [cn_eq (n := n.withKids _), Node.kids_withKids n _ hl, hh, cn_eq (n := n)]
      obtain ⟨t, i, e⟩ := this
      exact ⟨t, i, by omega⟩
    cases n with
    | ident nm sp =>
      simp only [visit, run_bind, run_pure]
      exact VC.of_TS (registerVariable_TS nm sp s)
    | block ss sp => simp only [visit, run_pure]; exact VC.refl cfg d s _
    | arrow ps b at' sp =>
      simp only [visit, run_pure]
      have : cn d ((toDdArrow (.arrow ps b at' sp)).getD (.arrow ps b at' sp)) = cn d (.arrow ps b at' sp) := by
        cases b <;> simp [toDdArrow, returnStmt]
      rw [this]; exact VC.refl cfg d s _
    | unary op a sp =>
      simp only [visit]
      split
      · simp only [run_pure]; exact VC.refl cfg d s _
      · exact hgen root _ s h0 ht hs
    | bin op l r sp =>
      simp only [visit]
      split
      · rename_i hpe
        simp only [run_bind]
        have hn1 := hgen false (.bin op l r sp) s h0 ht hs
        obtain ⟨ks', h1, hl, g, e, p⟩ := mapKids_spec' ok _ (hv false) (.bin op l r sp) s h0 ht hs
        generalize mapKidsM mapM' (visit cfg f false) (.bin op l r sp) s = K at h1 hn1 e
        obtain ⟨n1, s1⟩ := K
        simp only at h1 hn1 e ⊢
        match ks', hl, g, e, h1 with
        | [l', r'], _, g, e, h1 =>
          simp only [withKids, List.getD_cons_zero, List.getD_cons_succ] at h1
          subst h1
          simp only [goodL_cons, goodL_nil, Bool.and_true, Bool.and_eq_true] at g
          split
          · simp only [run_bind, run_pure]
            have hsp := toDdBinary_spec ok true cfg op l' r' sp s1 g.1 g.2 (hcfg.1 hpe)
            have h2 := toDdBinary_C d cfg op l' r' sp s1
            generalize toDdBinary cfg (.bin op l' r' sp) s1 = X at h2 hsp
            obtain ⟨res, s2⟩ := X
            obtain ⟨t2, _⟩ := hsp
            simp only at h2 t2 ⊢
            apply vc_finish
            have e2 : StOk s2 := ((e.trans (Eff.of_TS t2))).stOk hs
            have hu := vc_updateStatus cfg d res Generated.addTag s2 e2 (cn d (.bin op l' r' sp))
            refine ((hn1.trans (VC.of_TS t2)).trans hu).cast ?_
            cases res with
            | none => simp
            | some e' =>
              rw [Option.getD_some, h2 e' rfl]
              simp only [Option.isSome_some, Bool.true_and, tagTo, tagDst_add, cn_bin]
              by_cases hd : cfg.plusName = d <;> simp [hd] <;> omega
          · simp only [run_bind, run_pure]
            exact vc_finish cfg d s root _ s1 _ hn1
      · exact hgen root _ s h0 ht hs
    | assign op l r sp =>
      simp only [visit]
      split
      · rename_i hpe
        simp only [run_bind]
        have hn1 := hgen false (.assign op l r sp) s h0 ht hs
        obtain ⟨ks', h1, hl, g, e, p⟩ := mapKids_spec' ok _ (hv false) (.assign op l r sp) s h0 ht hs
        generalize mapKidsM mapM' (visit cfg f false) (.assign op l r sp) s = K at h1 hn1 e
        obtain ⟨n1, s1⟩ := K
        simp only at h1 hn1 e ⊢
        match ks', hl, g, e, p, h1 with
        | [l', r'], _, g, e, p, h1 =>
          simp only [withKids, List.getD_cons_zero, List.getD_cons_succ] at h1
          subst h1
          simp only [goodL_cons, goodL_nil, Bool.and_true, Bool.and_eq_true] at g
          split
          · rename_i hop
            simp only [run_bind, run_pure]
            have hts : tshape l' = true := by
              have h := targetsOk_self ht
              simp only [assignTargetOk, Bool.or_eq_true, bne_iff_ne, ne_eq] at h
              simp only [kids, Forall2] at p
              rcases h with h | h
              · exact absurd (by simpa using hop) h
              · exact p.1.1 h
            have hsp := toDdAssign_spec ok true cfg op l' r' sp s1 g.1 g.2 hts (hcfg.1 hpe)
            have h2 := toDdAssign_C d cfg op l' r' sp s1 hts
            generalize toDdAssign cfg (.assign op l' r' sp) s1 = X at h2 hsp
            obtain ⟨res, s2⟩ := X
            obtain ⟨t2, _⟩ := hsp
            simp only at h2 t2 ⊢
            apply vc_finish
            have e2 : StOk s2 := ((e.trans (Eff.of_TS t2))).stOk hs
            have hu := vc_updateStatus cfg d res Generated.addAssignTag s2 e2 (cn d (.assign op l' r' sp))
            refine ((hn1.trans (VC.of_TS t2)).trans hu).cast ?_
            cases res with
            | none => simp
            | some e' =>
              rw [Option.getD_some, h2 e' rfl]
              simp only [Option.isSome_some, Bool.true_and, tagTo, tagDst_addAssign]
              by_cases hd : cfg.plusName = d <;> simp [hd] <;> omega
          · simp only [run_bind, run_pure]
            exact vc_finish cfg d s root _ s1 _ hn1
      · exact hgen root _ s h0 ht hs
    | tpl es qs sp =>
      simp only [visit]
      split
      · rename_i hte
        split
        · simp only [run_bind]
          have hn1 := hgen false (.tpl es qs sp) s h0 ht hs
          obtain ⟨ks', h1, hl, g, e, p⟩ := mapKids_spec' ok _ (hv false) (.tpl es qs sp) s h0 ht hs
          generalize mapKidsM mapM' (visit cfg f false) (.tpl es qs sp) s = K at h1 hn1 e
          obtain ⟨n1, s1⟩ := K
          simp only at h1 hn1 e ⊢
          simp only [withKids] at h1
          subst h1
          obtain ⟨g1, g2⟩ := goodL_take_drop ok true ks' es.length g
          have hsp := toDdTpl_spec ok true cfg (ks'.take es.length) (ks'.drop es.length) sp s1 g1 g2 (hcfg.2.1 hte)
          have h2 := toDdTpl_C d cfg (ks'.take es.length) (ks'.drop es.length) sp s1
          generalize toDdTpl cfg (.tpl (ks'.take es.length) (ks'.drop es.length) sp) s1 = X at h2 hsp
          obtain ⟨res, s2⟩ := X
          obtain ⟨t2, _⟩ := hsp
          simp only at h2 t2 ⊢
          apply vc_finish
          have e2 : StOk s2 := ((e.trans (Eff.of_TS t2))).stOk hs
          have hu := vc_updateStatus cfg d res Generated.tplTag s2 e2 (cn d (.tpl (ks'.take es.length) (ks'.drop es.length) sp))
          refine ((hn1.trans (VC.of_TS t2)).trans hu).cast ?_
          cases res with
          | none => simp
          | some e' =>
            rw [Option.getD_some, h2 e' rfl]
            simp only [Option.isSome_some, Bool.true_and, tagTo, tagDst_tpl]
            by_cases hd : cfg.tplName = d <;> simp [hd] <;> omega
        · simp only [run_pure]; exact VC.refl cfg d s _
      · exact hgen root _ s h0 ht hs
    | call c as sp =>
      simp only [visit, run_bind]
      have hn1 := hgen false (.call c as sp) s h0 ht hs
      obtain ⟨ks', h1, hl, g, e, p⟩ := mapKids_spec' ok _ (hv false) (.call c as sp) s h0 ht hs
      generalize mapKidsM mapM' (visit cfg f false) (.call c as sp) s = K at h1 hn1 e
      obtain ⟨n1, s1⟩ := K
      simp only at h1 hn1 e ⊢
      match ks', hl, g, e, h1 with
      | c' :: as', _, g, e, h1 =>
        simp only [withKids, List.getD_cons_zero, List.drop_succ_cons, List.drop_zero] at h1
        subst h1
        simp only [goodL_cons, Bool.and_eq_true] at g
        simp only
        split
        · simp only [run_bind, run_pure]
          exact vc_finish cfg d s root _ s1 _ hn1
        · simp only [run_bind]
          have hsp := toDdCall_spec ok true cfg c' as' sp s1 hcfg.2.2 g.1 g.2
          have h2 := toDdCall_C d cfg c' as' sp s1
          generalize toDdCall cfg (.call c' as' sp) s1 = X at h2 hsp
          obtain ⟨res, s2⟩ := X
          obtain ⟨t2, _⟩ := hsp
          simp only at h2 t2 ⊢
          have e2 : StOk s2 := ((e.trans (Eff.of_TS t2))).stOk hs
          cases res with
          | none =>
            simp only [run_bind, run_pure]
            exact vc_finish cfg d s root _ s2 _ (hn1.trans (VC.of_TS t2))
          | some et =>
            obtain ⟨e', tag⟩ := et
            simp only [run_bind, run_pure]
            obtain ⟨csi, hget, hcn⟩ := h2 e' tag rfl
            apply vc_finish
            have hu : VC cfg d s2 (updateStatus .modified (some tag) s2).2 (cn d (.call c' as' sp)) (cn d e') := by
              refine ⟨[some tag], updateStatus_modified_incs _ s2 e2, ?_⟩
              rw [countTags_single, hcn, cn_call_user d _ _ _ (hookName?_call_none _ _ g.1)]
              simp only [tagTo, tagDst_method cfg hct tag csi hget]
              by_cases hd : csi.dst = d <;> simp [hd] <;> omega
            exact (hn1.trans (VC.of_TS t2)).trans hu
    | optChain o b sp =>
      simp only [visit, run_bind]
      have hE := toDdCond_C d cfg f (.optChain o b sp) s h0
      have hz := toDdCond_z cfg f (.optChain o b sp) s h0
      have hb := toDdCond_b cfg f (.optChain o b sp) s ((bad_zero_iff _).mpr ht)
      generalize toDdCond cfg f (.optChain o b sp) s = C at hE hz hb
      obtain ⟨⟨e', res⟩, s1⟩ := C
      simp only at hE hz hb ⊢
      have z2 : ns (res.getD e') = 0 := by
        cases res with
        | none => exact hz.1
        | some r => exact hz.2.1 r rfl
      have b2 : targetsOk (res.getD e') = true := by
        apply (bad_zero_iff _).mp
        cases res with
        | none => exact hb.1
        | some r => exact hb.2.1 r rfl
      have e0 : Eff s s1 0 := Eff.of_TS hz.2.2
      apply vc_finish
      have := hgen false (res.getD e') s1 z2 b2 (e0.stOk hs)
      rw [hE] at this
      exact (VC.of_TS hz.2.2).trans this
    | _ =>
      simp only [visit]
      exact hgen root _ s h0 ht hs

end IastModel

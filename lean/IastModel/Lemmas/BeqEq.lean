import IastModel.Lemmas.ErBeq
namespace IastModel
open Node

theorem span_beq_iff (a b : Span) : (a == b) = true ↔ a = b :=
  ⟨span_eq_of_beq, fun h => by subst h; cases a; show (_ == _ && _ == _) = true; simp⟩

theorem optSpan_beq_iff (a b : Option Span) : (a == b) = true ↔ a = b := by
  cases a <;> cases b
  · exact ⟨fun _ => rfl, fun _ => rfl⟩
  · exact ⟨fun h => (by cases h), fun h => (by cases h)⟩
  · exact ⟨fun h => (by cases h), fun h => (by cases h)⟩
  · rename_i x y
    constructor
    · intro h
      have : (x == y) = true := h
      rw [span_eq_of_beq this]
    · intro h; cases h; exact (span_beq_iff x x).mpr rfl

theorem name_beq_iff (a b : Name) : (a == b) = true ↔ a = b := by
  cases a <;> cases b
  · rename_i x y
    show (x == y) = true ↔ _
    simp
  · exact ⟨fun h => (by cases h), fun h => (by cases h)⟩
  · exact ⟨fun h => (by cases h), fun h => (by cases h)⟩
  · rename_i x y
    show (x == y) = true ↔ _
    simp

/-- the structural equality test of the model decides equality -/
theorem beq_eq : ∀ (a b : Node), Node.beq a b = true → a = b := by
  intro a
  induction a using Node.rec (motive_2 := fun as => ∀ bs, Node.beqL as bs = true → as = bs) with
  | nil => rename_i bs h; cases bs <;> first | rfl | simp [Node.beqL] at h
  | cons x xs ihx ihxs =>
    rename_i bs h
    cases bs with
    | nil => simp [Node.beqL] at h
    | cons y ys =>
      simp only [Node.beqL, Bool.and_eq_true] at h
      rw [ihx y h.1, ihxs ys h.2]
  | _ =>
    intro b h
    cases b <;> simp only [Node.beq, Bool.and_eq_true, Bool.false_eq_true, beq_iff_eq, span_beq_iff,
      optSpan_beq_iff, name_beq_iff] at h <;> grind

theorem beq_self : ∀ n : Node, Node.beq n n = true := by
  intro n
  induction n using Node.rec (motive_2 := fun l => Node.beqL l l = true) with
  | nil => rfl
  | cons x xs hx hxs => simp [Node.beqL, hx, hxs]
  | _ => simp_all [Node.beq, span_beq_iff, optSpan_beq_iff, name_beq_iff]

end IastModel

import IastModel.Rewriter.Visitor
import IastModel.Lemmas.Monad
/-
  Shape lemmas: whatever a transform returns as a replacement is built by `ddParen`
  (a hook call, or the parenthesised sequence ending in one).
-/
namespace IastModel

/-- `e` was built by `get_dd_paren_expr` -/
def IsDd (e : Node) : Prop := ∃ x args asg m sp, e = ddParen x args asg m sp

theorem toDdBinary_isDd (cfg : Config) (e : Node) (s : St) (r : Node)
    (h : (toDdBinary cfg e s).1 = some r) : IsDd r := by
  unfold toDdBinary at h
  split at h
  · simp only [run_bind] at h
    split at h
    · simp only [run_pure] at h
      cases h
      exact ⟨_, _, _, _, _, rfl⟩
    · simp [run_pure] at h
  · simp [run_pure] at h

theorem toDdAssign_shape (cfg : Config) (e : Node) (s : St) (r : Node)
    (h : (toDdAssign cfg e s).1 = some r) : ∃ t d sp, r = .assign "=" t d sp ∧ IsDd d := by
  unfold toDdAssign at h
  split at h
  · split at h
    · simp [run_pure] at h
    · simp only [run_bind] at h
      generalize hX : (toDdBinary _ _ _) = X at h
      obtain ⟨res, s2⟩ := X
      cases res with
      | none => simp [run_pure] at h
      | some e' =>
        simp [run_pure] at h
        subst h
        exact ⟨_, _, _, rfl, toDdBinary_isDd _ _ _ _ (by rw [hX])⟩
  · simp [run_pure] at h

theorem toDdTpl_isDd (cfg : Config) (e : Node) (s : St) (r : Node)
    (h : (toDdTpl cfg e s).1 = some r) : IsDd r := by
  unfold toDdTpl at h
  split at h
  · simp only [run_bind, run_pure] at h
    cases h
    exact ⟨_, _, _, _, _, rfl⟩
  · simp [run_pure] at h

theorem replaceCallWithMember_isDd (cfg : Config) (expr : Node) (method : String) (msp : Span)
    (callee : Node) (cargs : List Node) (csp : Span) (mo : Option Node) (ca : Option String) (s : St)
    (r : Node) (t : String)
    (h : (replaceCallWithMember cfg expr method msp callee cargs csp mo ca s).1 = some (r, t)) : IsDd r := by
  unfold replaceCallWithMember at h
  cases hg : cfg.get method with
  | none => simp [hg, run_pure] at h
  | some csi =>
    simp only [hg, run_bind, run_pure] at h
    cases h
    exact ⟨_, _, _, _, _, rfl⟩

theorem replaceCallSpreadWithMember_isDd (cfg : Config) (method : String)
    (callee : Node) (cargs : List Node) (csp : Span) (m : Node) (ca : String) (s : St)
    (r : Node) (t : String)
    (h : (replaceCallSpreadWithMember cfg method callee cargs csp m ca s).1 = some (r, t)) : IsDd r := by
  unfold replaceCallSpreadWithMember at h
  cases hg : cfg.get method with
  | none => simp [hg, run_pure] at h
  | some csi =>
    simp only [hg, run_bind] at h
    generalize hX : (getIdentUsed m [] [] csp IdentKind.expr s) = X at h
    obtain ⟨⟨id, asg1, args1⟩, s1⟩ := X
    cases id with
    | none => simp [run_pure] at h
    | some n =>
      simp only [run_bind, run_pure] at h
      cases h
      exact ⟨_, _, _, _, _, rfl⟩

theorem replaceCallWithoutCallee_isDd (cfg : Config) (name : Name) (isp : Span) (callee : Node)
    (cargs : List Node) (csp : Span) (s : St) (r : Node) (t : String)
    (h : (replaceCallWithoutCallee cfg name isp callee cargs csp s).1 = some (r, t)) : IsDd r := by
  unfold replaceCallWithoutCallee at h
  cases name with
  | temp n => simp [run_pure] at h
  | user method =>
    cases hg : cfg.get method with
    | none => simp [hg, run_pure] at h
    | some csi =>
      simp only [hg] at h
      by_cases ha : csi.allowedWithoutCallee = true
      · simp only [ha, if_true, run_bind, run_pure] at h
        cases h
        exact ⟨_, _, _, _, _, rfl⟩
      · simp [ha, run_pure] at h

theorem replacePrototypeCallOrApply_isDd (cfg : Config) (cargs : List Node) (csp : Span) (callee member : Node)
    (ca : String) (s : St) (r : Node) (t : String)
    (h : (replacePrototypeCallOrApply cfg cargs csp callee member ca s).1 = some (r, t)) : IsDd r := by
  unfold replacePrototypeCallOrApply at h
  by_cases h1 : isCallOrApply ca = true
  · simp only [h1, Bool.not_true, Bool.false_eq_true, if_false] at h
    cases hp : prototypeMethodIdent member with
    | none => simp [hp, run_pure] at h
    | some mm =>
      obtain ⟨method, msp⟩ := mm
      simp only [hp] at h
      cases cargs with
      | nil => simp [run_pure] at h
      | cons this rest =>
        simp only at h
        by_cases h2 : argIsSpread this = true
        · simp only [h2, if_true] at h
          exact replaceCallSpreadWithMember_isDd _ _ _ _ _ _ _ _ _ _ h
        · simp only [h2, Bool.false_eq_true, if_false] at h
          by_cases h3 : invalidArgs ca (this :: rest) = true
          · simp [h3, run_pure] at h
          · simp only [h3, Bool.false_eq_true, if_false] at h
            split at h
            · simp [run_pure] at h
            · exact replaceCallWithMember_isDd _ _ _ _ _ _ _ _ _ _ _ _ h
  · simp [h1, run_pure] at h

theorem toDdCall_isDd (cfg : Config) (e : Node) (s : St) (r : Node) (t : String)
    (h : (toDdCall cfg e s).1 = some (r, t)) : IsDd r := by
  unfold toDdCall at h
  repeat' split at h
  all_goals first
    | (simp [run_pure] at h; done)
    | exact replaceCallWithMember_isDd _ _ _ _ _ _ _ _ _ _ _ _ h
    | exact replacePrototypeCallOrApply_isDd _ _ _ _ _ _ _ _ _ h
    | exact replaceCallWithoutCallee_isDd _ _ _ _ _ _ _ _ _ h

end IastModel

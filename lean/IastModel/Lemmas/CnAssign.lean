import IastModel.Lemmas.CnOc
namespace IastModel
open Node

theorem cnL_atoms' (d : String) (vs : List Node) (h : vs.all isAtomNode = true) : cnL d vs = 0 := by
  induction vs with
  | nil => rfl
  | cons v vs ih =>
    simp only [List.all_cons, Bool.and_eq_true] at h
    cases v <;> simp_all [isAtomNode]

theorem simple_cn (d : String) {e : Node} (hs : isSimpleTargetPart e = true) : cn d e = 0 := by
  unfold isSimpleTargetPart at hs
  split at hs
  · simp
  · simp
  · simp
  · cases hs

def SplitC (d : String) (left : Node) (R : (Node × Node) × St) : Prop := cn d R.1.1 + cn d R.1.2 = cn d left

theorem cn_seqOperand (d : String) (e : Node) : cn d (seqOperand e) = cn d e := by
  unfold seqOperand; split <;> simp

theorem hoistTargetPart_C (d : String) (e : Node) (sp : Span) (s : St) : SplitC d e (hoistTargetPart e sp s) := by
  unfold hoistTargetPart
  simp only [run_bind]
  rcases getTemporalIdent_cases (seqOperand e) [] sp .expr s with ⟨hl, h⟩ | ⟨hl, n, s', h, _⟩
  · rw [h]; simp only [run_pure]
    have := isLit_cn d hl
    rw [cn_seqOperand] at this
    simp [SplitC, cn_seqOperand, this]
  · rw [h]
    simp only [List.nil_append, List.getLast?_singleton, run_pure]
    simp [SplitC, tempIdent, assignRight, cn_seqOperand]

theorem splitComputedKey_C (d : String) (csp : Span) (e : Node) (sp : Span) (s : St) :
    SplitC d (.other "Computed" csp ["expression"] [e]) (splitComputedKey csp e sp s) := by
  unfold splitComputedKey
  simp only [run_bind, run_pure]
  have h := hoistTargetPart_C d e sp s
  generalize hoistTargetPart e sp s = R at h
  obtain ⟨⟨tk, okk⟩, s'⟩ := R
  simp only [SplitC] at h ⊢
  simp only [cn_other, cnL_cons, cnL_nil]
  omega

theorem propShape_cn (d : String) {p : Node} (hp : propShape p = true)
    (hsimple : ∀ csp e, p = .other "Computed" csp ["expression"] [e] → isSimpleTargetPart e = true) : cn d p = 0 := by
  unfold propShape at hp
  split at hp
  · simp
  · rename_i csp e
    have := hsimple _ _ rfl
    simp [simple_cn d this]
  · rename_i k sp ns' vs _
    simp only [Bool.and_eq_true, beq_iff_eq] at hp
    simp [cnL_atoms' d _ hp.2]
  · cases hp

theorem splitProp_C (d : String) (prop : Node) (sp : Span) (s : St) (hp : propShape prop = true) :
    SplitC d prop (splitProp prop sp s) := by
  unfold splitProp
  split
  · rename_i csp e
    by_cases hs : isSimpleTargetPart e = true
    · simp only [hs, Bool.not_true, Bool.false_eq_true, if_false, run_pure]
      have := propShape_cn d hp (by intro csp' e' he; cases he; exact hs)
      simp [SplitC, this]
    · simp only [hs, Bool.not_false, if_true]
      exact splitComputedKey_C d csp e sp s
  · rename_i hne
    simp only [run_pure]
    have := propShape_cn d hp (by intro csp e he; exact absurd he (hne csp e))
    simp [SplitC, this]

theorem keyIsSimple_cn (d : String) {prop : Node} (hp : propShape prop = true) (hk : keyIsSimple prop = true) : cn d prop = 0 := by
  refine propShape_cn d hp ?_
  intro csp e he
  subst he
  simpa [keyIsSimple] using hk

theorem splitMemberTarget_C (d : String) (sp : Span) : ∀ (left : Node), tshape left = true →
    ∀ s, SplitC d left (splitMemberTarget left sp s) ∧
      isTempIdent (splitMemberTarget left sp s).1.1 = isTempIdent left := by
  apply Node.ind
  intro left ih hts s
  unfold tshape at hts
  split at hts
  · simp only [splitMemberTarget, run_pure]
    exact ⟨by simp [SplitC], by first | rfl | trivial⟩
  · rename_i obj prop msp
    simp only [splitMemberTarget]
    by_cases hcond : (!isSimpleTargetPart obj || !keyIsSimple prop) = true
    · simp only [hcond, if_true]
      by_cases hrep : (isSimpleTargetPart obj && (keyIsSimple prop || !obj.isIdent)) = true
      · simp only [hrep, if_true, run_bind, run_pure]
        simp only [Bool.and_eq_true] at hrep
        have n0 := simple_cn d hrep.1
        have hprop := splitProp_C d prop sp s hts
        generalize splitProp prop sp s = R2 at hprop
        obtain ⟨⟨tprop, oprop⟩, s2⟩ := R2
        simp only [SplitC] at hprop ⊢
        exact ⟨by simp only [cn_member]; omega, rfl⟩
      · simp only [hrep, Bool.false_eq_true, if_false, run_bind, run_pure]
        have hobj := hoistTargetPart_C d obj sp s
        generalize hoistTargetPart obj sp s = R1 at hobj
        obtain ⟨⟨tobj, oobj⟩, s1⟩ := R1
        have hprop := splitProp_C d prop sp s1 hts
        generalize splitProp prop sp s1 = R2 at hprop
        obtain ⟨⟨tprop, oprop⟩, s2⟩ := R2
        simp only [SplitC] at hobj hprop ⊢
        exact ⟨by simp only [cn_member]; omega, rfl⟩
    · simp only [hcond, Bool.false_eq_true, if_false, run_pure]
      simp only [Bool.or_eq_true, Bool.not_eq_true', not_or, Bool.not_eq_false] at hcond
      exact ⟨by simp [SplitC, simple_cn d hcond.1, keyIsSimple_cn d hts hcond.2], by first | rfl | trivial⟩
  · rename_i ssp sp2 n2 prop
    simp only [splitMemberTarget]
    have hsup : cn d (Node.other "Super" sp2 n2 []) = 0 := by simp
    by_cases hk : keyIsSimple prop = true
    · simp only [hk, Bool.not_true, Bool.false_eq_true, if_false, run_pure]
      refine ⟨?_, by first | rfl | trivial⟩
      simp only [SplitC, cn_other, cnL_cons, cnL_nil, hsup, keyIsSimple_cn d hts hk]
    · simp only [hk, Bool.not_false, if_true, run_bind, run_pure]
      have hprop := splitProp_C d prop sp s hts
      generalize splitProp prop sp s = R2 at hprop
      obtain ⟨⟨tprop, oprop⟩, s2⟩ := R2
      simp only [SplitC] at hprop ⊢
      refine ⟨?_, rfl⟩
      simp only [cn_other, cnL_cons, cnL_nil, hsup]
      omega
  · rename_i e psp
    simp only [splitMemberTarget]
    by_cases hsi : isSplittableInner e = true
    · simp only [hsi, if_true, run_bind, run_pure]
      have h := (ih e (by simp [kids]) hts s).1
      generalize splitMemberTarget e sp s = R at h
      obtain ⟨⟨t, o⟩, s'⟩ := R
      simp only [SplitC] at h ⊢
      exact ⟨by simp only [cn_paren]; omega, rfl⟩
    · simp only [hsi, Bool.false_eq_true, if_false, run_pure]
      refine ⟨?_, by first | rfl | trivial⟩
      -- a target shape that is not splittable is an identifier
      cases e <;> simp_all [tshape, isSplittableInner, SplitC]
  · cases hts

end IastModel

namespace IastModel
open Node

theorem toDdAssign_C (d : String) (cfg : Config) (op : String) (left r : Node) (sp : Span) (s : St) (hts : tshape left = true) :
    ∀ e', (toDdAssign cfg (.assign op left r sp) s).1 = some e' → cn d e' = (if cfg.plusName == d then 1 else 0) + cn d (.assign op left r sp) := by
  simp only [toDdAssign]
  by_cases hp : isPatternTarget left = true
  · simp only [hp, if_true, run_pure]; intro e' h; cases h
  · simp only [hp, Bool.false_eq_true, if_false, run_bind, run_pure]
    have hnr : cn d (assignRhs r) = cn d r := by unfold assignRhs; split <;> simp
    have h1 := splitMemberTarget_C d sp left hts s
    generalize splitMemberTarget left sp s = R1 at h1
    obtain ⟨⟨target, operand⟩, s1⟩ := R1
    obtain ⟨a1, a2⟩ := h1
    simp only [SplitC] at a1 a2
    have h2 := toDdBinary_C d cfg "+" operand (assignRhs r) sp s1
    generalize toDdBinary cfg (.bin "+" operand (assignRhs r) sp) s1 = R2 at h2
    obtain ⟨res, s2⟩ := R2
    simp only at h2
    cases res with
    | none => simp only [run_pure]; intro e' h; cases h
    | some e1 =>
      simp only [run_pure]
      intro e' he
      simp only [Option.some.injEq] at he
      subst he
      have := h2 e1 rfl
      simp only [cn_assign]
      omega


end IastModel

import IastModel.Lemmas.KeepOp
namespace IastModel
open Node

theorem toDdBinary_K (B : Node) (cfg : Config) (op : String) (l r : Node) (sp : Span) (s : St) :
    ∀ e', (toDdBinary cfg (.bin op l r sp) s).1 = some e' →
      cb B l + cb B r ≤ cb B e' ∧ cb B e' ≤ 2 * (cb B l + cb B r) := by
  simp only [toDdBinary, run_bind]
  have h1 := replaceExpr_K B l (getIdentMode r) [] [] sp .expr false s
  generalize replaceExpr l (getIdentMode r) [] [] sp .expr false s = R1 at h1
  obtain ⟨⟨l', asg1, args1⟩, s1⟩ := R1
  obtain ⟨c1, c2, c3⟩ := h1
  simp only [cbL_nil, Nat.add_zero, Nat.zero_add] at c1 c2 c3
  have h2 := replaceExpr_K B r (getIdentMode l') asg1 args1 sp .expr false s1
  generalize replaceExpr r (getIdentMode l') asg1 args1 sp .expr false s1 = R2 at h2
  obtain ⟨⟨r', asg2, args2⟩, s2⟩ := R2
  obtain ⟨d1, d2, d3⟩ := h2
  simp only at c1 c2 c3 d1 d2 d3
  by_cases hm : mustReplaceBinary args2 = true
  · simp only [hm, if_true, run_pure]
    intro e' he
    simp only [Option.some.injEq] at he
    subst he
    rw [cb_ddParen]; simp only [cb_bin]; omega
  · simp only [hm, Bool.false_eq_true, if_false, run_pure]
    intro e' he; cases he

theorem toDdTpl_K (B : Node) (cfg : Config) (exprs quasis : List Node) (sp : Span) (s : St) :
    ∀ e', (toDdTpl cfg (.tpl exprs quasis sp) s).1 = some e' →
      cb B (.tpl exprs quasis sp) ≤ cb B e' ∧ cb B e' ≤ 2 * cb B (.tpl exprs quasis sp) := by
  simp only [toDdTpl, run_bind, run_pure]
  have h1 := replaceTplExprs_K B exprs [] [] s
  generalize replaceTplExprs exprs [] [] s = R1 at h1
  obtain ⟨⟨exprs', asg, args⟩, s1⟩ := R1
  obtain ⟨c1, c2, c3⟩ := h1
  simp only [cbL_nil, Nat.add_zero, Nat.zero_add] at c1 c2 c3
  intro e' he'
  simp only [Option.some.injEq] at he'
  subst he'
  rw [cb_ddParen]; simp only [cb_tpl]; omega

theorem replaceCallCalleeAndArgs_K (B : Node) (callee : Node) (cargs : List Node) (csp : Span) (identCallee : Option Node)
    (asg args : List Node) (coa : Option String) (s : St) :
    let R := replaceCallCalleeAndArgs callee cargs csp identCallee asg args coa s
    ∃ cargs', R.1.1 = .call (match identCallee with
        | some i => Node.member i (.pname (coa.getD Generated.callMethodName) csp) csp
        | none => callee) cargs' csp ∧
      cbL B cargs' + cbL B R.1.2.1 = cbL B cargs + cbL B asg ∧
      cbL B args ≤ cbL B R.1.2.2 ∧ cbL B R.1.2.2 ≤ cbL B args + cbL B cargs := by
  simp only [replaceCallCalleeAndArgs, run_bind, run_pure]
  generalize ((coa.getD Generated.callMethodName) == Generated.applyMethodName) = expand
  have h := replaceArgs_K B .replace csp expand cargs asg args s
  generalize replaceArgs .replace csp expand cargs asg args s = R at h
  obtain ⟨⟨cargs', asg', args'⟩, s'⟩ := R
  exact ⟨cargs', rfl, h.1, h.2.1, h.2.2⟩

theorem rcwmTail_K (B : Node) (dst method : String) (identReplacement memberExpr expr callee : Node) (cargs asg0 : List Node)
    (csp : Span) (coa : Option String) (s0 : St) (lme : memberExpr.isLit = false) :
    ∀ e' tag, (rcwmTail dst method identReplacement memberExpr expr callee cargs asg0 csp coa s0).1 = some (e', tag) →
      2 * cb B identReplacement + cbL B asg0 + cbL B cargs + cb B memberExpr ≤ cb B e' ∧
      cb B e' ≤ 2 * cb B identReplacement + cbL B asg0 + 2 * cbL B cargs + cb B memberExpr := by
  unfold rcwmTail
  simp only [run_bind, run_pure]
  rcases getIdentUsed_cases memberExpr asg0 [] csp .expr s0 with ⟨hl, _⟩ | ⟨_, n1, s1, h1, _⟩
  · rw [lme] at hl; cases hl
  · rw [h1]
    simp only
    have hcs := replaceCallCalleeAndArgs_K B callee cargs csp (some (tempIdent n1))
      (asg0 ++ [.assign "=" (tempIdent n1) (assignRight memberExpr .expr) csp])
      ([] ++ [exprOrSpread (tempIdent n1) .expr] ++ [.arg none identReplacement]) coa s1
    generalize replaceCallCalleeAndArgs callee cargs csp (some (tempIdent n1))
      (asg0 ++ [.assign "=" (tempIdent n1) (assignRight memberExpr .expr) csp])
      ([] ++ [exprOrSpread (tempIdent n1) .expr] ++ [.arg none identReplacement]) coa s1 = R at hcs
    obtain ⟨⟨callRepl, asg3, args3⟩, s3⟩ := R
    simp only at hcs
    obtain ⟨cargs', hcr, c1, c2, c3⟩ := hcs
    subst hcr
    intro e' tag hres
    simp only [Option.some.injEq, Prod.mk.injEq] at hres
    obtain ⟨hres, _⟩ := hres
    subst hres
    rw [cb_ddParen]
    simp only [insertThis, cb_call, cbL_cons, cb_arg, cb_member, cb_pname]
    simp only [cbL_append, cbL_cons, cbL_nil, cb_assign, cb_exprOrSpread, cb_arg, tempIdent, cb_ident, assignRight] at c1 c2 c3 ⊢
    omega

theorem replaceCallWithMember_K (B : Node) (cfg : Config) (expr : Node) (method : String) (msp : Span)
    (callee : Node) (cargs : List Node) (csp : Span) (memberOpt : Option Node) (coa : Option String) (s : St)
    (hm : ∀ m, memberOpt = some m → m.isLit = false) :
    ∀ e' tag, (replaceCallWithMember cfg expr method msp callee cargs csp memberOpt coa s).1 = some (e', tag) →
      cb B expr + cbL B cargs + (memberOpt.map (cb B)).getD 0 ≤ cb B e' ∧
      cb B e' ≤ 3 * (cb B expr + cbL B cargs + (memberOpt.map (cb B)).getD 0) := by
  cases hg : cfg.get method with
  | none =>
    unfold replaceCallWithMember
    simp only [hg]
    intro e' tag h; cases h
  | some csi =>
    rw [replaceCallWithMember_unfold _ _ _ _ _ _ _ _ _ _ csi hg]
    have hR0 : ∃ ir asg0 s0, getTemporalIdent expr [] csp .expr s = ((ir, asg0), s0) ∧
        cb B (identOr ir expr) + cbL B asg0 = cb B expr := by
      rcases getTemporalIdent_cases expr [] csp .expr s with ⟨hl, h⟩ | ⟨hl, n, s', h, _⟩
      · exact ⟨none, [], s, h, by simp [identOr]⟩
      · exact ⟨some n, _, s', h, by simp [identOr, tempIdent, assignRight]⟩
    obtain ⟨ir, asg0, s0, h0, na0⟩ := hR0
    rw [h0]
    simp only
    have gme : (memberOr memberOpt (.member (identOr ir expr) (.pname method msp) csp)).isLit = false ∧
        cb B (memberOr memberOpt (.member (identOr ir expr) (.pname method msp) csp)) =
          (match memberOpt with | some m => cb B m | none => cb B (identOr ir expr)) := by
      cases memberOpt with
      | none => simp [memberOr, Node.isLit]
      | some m => simp [memberOr, hm m rfl]
    intro e' tag hres
    have ht := rcwmTail_K B csi.dst method (identOr ir expr) _ expr callee cargs asg0 csp coa s0 gme.1 e' tag hres
    rw [gme.2] at ht
    cases memberOpt with
    | none => simp only [Option.map_none, Option.getD_none] at ht ⊢; omega
    | some m => simp only [Option.map_some, Option.getD_some] at ht ⊢; omega

theorem replaceCallSpreadWithMember_K (B : Node) (cfg : Config) (method : String)
    (callee : Node) (cargs : List Node) (csp : Span) (memberExpr : Node) (coa : String) (s : St) :
    ∀ e' tag, (replaceCallSpreadWithMember cfg method callee cargs csp memberExpr coa s).1 = some (e', tag) →
      cbL B cargs + cb B memberExpr ≤ cb B e' ∧ cb B e' ≤ 2 * (cbL B cargs + cb B memberExpr) := by
  unfold replaceCallSpreadWithMember
  cases hg : cfg.get method with
  | none => intro e' tag h; cases h
  | some csi =>
    simp only [run_bind, run_pure]
    rcases getIdentUsed_cases memberExpr [] [] csp .expr s with ⟨hl, h1⟩ | ⟨_, n1, s1, h1, _⟩
    · rw [h1]; intro e' tag h; cases h
    · rw [h1]
      simp only [run_bind, run_pure]
      have hcs := replaceCallCalleeAndArgs_K B callee cargs csp (some (tempIdent n1))
        ([] ++ [.assign "=" (tempIdent n1) (assignRight memberExpr .expr) csp])
        ([] ++ [exprOrSpread (tempIdent n1) .expr]) (some coa) s1
      generalize replaceCallCalleeAndArgs callee cargs csp (some (tempIdent n1))
        ([] ++ [.assign "=" (tempIdent n1) (assignRight memberExpr .expr) csp])
        ([] ++ [exprOrSpread (tempIdent n1) .expr]) (some coa) s1 = R at hcs
      obtain ⟨⟨callRepl, asg3, args3⟩, s3⟩ := R
      simp only at hcs
      obtain ⟨cargs', hcr, c1, c2, c3⟩ := hcs
      subst hcr
      intro e' tag hres
      simp only [Option.some.injEq, Prod.mk.injEq] at hres
      obtain ⟨hres, _⟩ := hres
      subst hres
      rw [cb_ddParen]
      simp only [cb_call, cb_member, cb_pname]
      simp only [cbL_append, cbL_cons, cbL_nil, cb_assign, cb_exprOrSpread, cb_arg, tempIdent, cb_ident, assignRight] at c1 c2 c3 ⊢
      omega

theorem replaceCallWithoutCallee_K (B : Node) (cfg : Config) (name : Name) (isp : Span) (cargs : List Node) (csp : Span) (s : St) :
    ∀ e' tag, (replaceCallWithoutCallee cfg name isp (.ident name isp) cargs csp s).1 = some (e', tag) →
      cbL B cargs ≤ cb B e' ∧ cb B e' ≤ 2 * cbL B cargs := by
  unfold replaceCallWithoutCallee
  cases name with
  | temp k => intro e' tag h; cases h
  | user method =>
    simp only
    cases hg : cfg.get method with
    | none => intro e' tag h; cases h
    | some csi =>
      simp only
      by_cases hal : csi.allowedWithoutCallee = true
      · simp only [hal, if_true, run_bind, run_pure]
        have hcs := replaceCallCalleeAndArgs_K B (.ident (.user method) isp) cargs csp none []
          [Node.arg none (.ident (.user method) isp), .arg none (.ident (.user "undefined") csp)] none s
        generalize replaceCallCalleeAndArgs (.ident (.user method) isp) cargs csp none []
          [Node.arg none (.ident (.user method) isp), .arg none (.ident (.user "undefined") csp)] none s = R at hcs
        obtain ⟨⟨callRepl, asg3, args3⟩, s3⟩ := R
        simp only at hcs
        obtain ⟨cargs', hcr, c1, c2, c3⟩ := hcs
        subst hcr
        intro e' tag hres
        simp only [Option.some.injEq, Prod.mk.injEq] at hres
        obtain ⟨hres, _⟩ := hres
        subst hres
        rw [cb_ddParen]
        simp only [cb_call, cb_ident]
        simp only [cbL_cons, cbL_nil, cb_arg, cb_ident] at c1 c2 c3 ⊢
        omega
      · simp only [hal, Bool.false_eq_true, if_false, run_pure]
        intro e' tag h; cases h

theorem cb_argExpr (B : Node) (a : Node) : cb B (argExpr a) = cb B a := by
  cases a <;> simp [argExpr]

theorem replacePrototypeCallOrApply_K (B : Node) (cfg : Config) (cargs : List Node) (csp : Span) (callee member : Node)
    (coa : String) (s : St) :
    ∀ e' tag, (replacePrototypeCallOrApply cfg cargs csp callee member coa s).1 = some (e', tag) →
      cb B member + cbL B cargs ≤ cb B e' ∧ cb B e' ≤ 3 * (cb B member + cbL B cargs) := by
  unfold replacePrototypeCallOrApply
  by_cases h1 : isCallOrApply coa = true
  · simp only [h1, Bool.not_true, Bool.false_eq_true, if_false]
    unfold prototypeMethodIdent
    by_cases hsp : isStaticPath member = true
    · simp only [hsp, if_true]
      cases member with
      | member mo mp msp0 =>
        cases mp with
        | pname method msp =>
          simp only
          cases cargs with
          | nil => intro e' tag h; cases h
          | cons th rest =>
            simp only
            by_cases hs : argIsSpread th = true
            · simp only [hs, if_true]
              intro e' tag hres
              have := replaceCallSpreadWithMember_K B cfg method callee (th :: rest) csp (.member mo (.pname method msp) msp0) coa s e' tag hres
              omega
            · simp only [hs, Bool.false_eq_true, if_false]
              by_cases hinv : invalidArgs coa (th :: rest) = true
              · simp only [hinv, if_true]; intro e' tag h; cases h
              · simp only [hinv, Bool.false_eq_true, if_false]
                split
                · intro e' tag h; cases h
                · intro e' tag hres
                  have := replaceCallWithMember_K B cfg (argExpr th) method msp
                    (Node.member (argExpr th) (.pname method msp) csp) rest csp
                    (some (.member mo (.pname method msp) msp0)) (some coa) s
                    (by intro m hm; cases hm; rfl) e' tag hres
                  simp only [Option.map_some, Option.getD_some, cb_argExpr] at this
                  simp only [cbL_cons]
                  omega
        | _ => simp [isStaticPath] at hsp
      | _ => simp [isStaticPath] at hsp
    · simp only [hsp, Bool.false_eq_true, if_false]; intro e' tag h; cases h
  · simp only [h1, Bool.not_false, if_true]; intro e' tag h; cases h

theorem toDdCall_K (B : Node) (cfg : Config) (callee : Node) (cargs : List Node) (csp : Span) (s : St) :
    ∀ e' tag, (toDdCall cfg (.call callee cargs csp) s).1 = some (e', tag) →
      cb B callee + cbL B cargs ≤ cb B e' ∧ cb B e' ≤ 3 * (cb B callee + cbL B cargs) := by
  unfold toDdCall
  cases callee with
  | member obj prop msp0 =>
    cases prop with
    | pname m msp =>
      have key := fun (_ : Unit) => replaceCallWithMember_K B cfg obj m msp (.member obj (.pname m msp) msp0) cargs csp none none s (by intro m hm; cases hm)
      simp only [Option.map_none, Option.getD_none, Nat.add_zero] at key
      simp only [cb_member, cb_pname, Nat.add_zero]
      cases obj with
      | lit k v' r lsp =>
        simp only
        split
        · exact key ()
        · intro e' tag h; cases h
      | ident nm isp => exact key ()
      | call c as csp2 => exact key ()
      | paren e psp => exact key ()
      | array es asp => exact key ()
      | member o2 p2 msp2 =>
        simp only
        split
        · exact replacePrototypeCallOrApply_K B cfg cargs csp _ _ m s
        · split
          · exact key ()
          · intro e' tag h; cases h
      | _ => intro e' tag h; cases h
    | _ => intro e' tag h; cases h
  | ident name isp =>
    simp only [cb_ident, Nat.zero_add]
    intro e' tag hres
    have := replaceCallWithoutCallee_K B cfg name isp cargs csp s e' tag hres
    omega
  | _ => intro e' tag h; cases h

end IastModel

import IastModel.Rewriter.State
/-
  A small weakest-precondition calculus for the state monad `M` of the model:
  `Post m s Q` says that running `m` from state `s` ends in a result and a state related by `Q`.
-/
namespace IastModel

/-- postcondition of running `m` from `s` -/
def Post {α : Type} (m : M α) (s : St) (Q : α → St → Prop) : Prop := Q (m s).1 (m s).2

theorem run_bind {α β : Type} (m : M α) (f : α → M β) (s : St) :
    (m >>= f) s = f (m s).1 (m s).2 := by
  simp only [bind, StateT.bind]
  rfl

theorem run_pure {α : Type} (a : α) (s : St) : (pure a : M α) s = (a, s) := rfl

theorem run_map {α β : Type} (g : α → β) (m : M α) (s : St) :
    (g <$> m) s = (g (m s).1, (m s).2) := by
  simp only [Functor.map, StateT.map]
  rfl

theorem run_modify (f : St → St) (s : St) : (modify f : M Unit) s = ((), f s) := rfl

theorem run_modifyGet {α : Type} (f : St → α × St) (s : St) : (modifyGet f : M α) s = f s := rfl

theorem run_get (s : St) : (get : M St) s = (s, s) := rfl

theorem run_set (s' s : St) : (set s' : M Unit) s = ((), s') := rfl

@[simp] theorem post_pure {α : Type} (a : α) (s : St) (Q : α → St → Prop) :
    Post (pure a : M α) s Q ↔ Q a s := Iff.rfl

@[simp] theorem post_bind {α β : Type} (m : M α) (f : α → M β) (s : St) (Q : β → St → Prop) :
    Post (m >>= f) s Q ↔ Post m s (fun a s' => Post (f a) s' Q) := by
  unfold Post
  rw [run_bind]

theorem Post.mono {α : Type} {m : M α} {s : St} {Q Q' : α → St → Prop}
    (h : Post m s Q) (hq : ∀ a s', Q a s' → Q' a s') : Post m s Q' := hq _ _ h

@[simp] theorem post_get (s : St) (Q : St → St → Prop) : Post (get : M St) s Q ↔ Q s s := Iff.rfl

@[simp] theorem post_modify (f : St → St) (s : St) (Q : Unit → St → Prop) :
    Post (modify f : M Unit) s Q ↔ Q () (f s) := Iff.rfl

@[simp] theorem post_set (s' s : St) (Q : Unit → St → Prop) :
    Post (set s' : M Unit) s Q ↔ Q () s' := Iff.rfl

@[simp] theorem post_modifyGet {α : Type} (f : St → α × St) (s : St) (Q : α → St → Prop) :
    Post (modifyGet f : M α) s Q ↔ Q (f s).1 (f s).2 := Iff.rfl

/-- pointwise relation between two lists of the same length -/
def Forall2 {α β : Type} (R : α → β → Prop) : List α → List β → Prop
  | [], [] => True
  | a :: as, b :: bs => R a b ∧ Forall2 R as bs
  | _, _ => False

theorem Forall2.length_eq {α β : Type} {R : α → β → Prop} :
    ∀ {xs : List α} {ys : List β}, Forall2 R xs ys → xs.length = ys.length
  | [], [], _ => rfl
  | _ :: as, _ :: bs, h => by simp [Forall2.length_eq h.2]
  | [], _ :: _, h => by simp [Forall2] at h
  | _ :: _, [], h => by simp [Forall2] at h

/-- the rule for `mapM'`: an invariant `I` on the state that every call preserves, and a pointwise
    relation `R` between inputs and outputs -/
theorem post_mapM' {α β : Type} (f : α → M β) (I : St → Prop) (R : α → β → Prop)
    (hf : ∀ a s, I s → Post (f a) s (fun b s' => I s' ∧ R a b)) :
    ∀ (xs : List α) (s : St), I s →
      Post (mapM' f xs) s (fun ys s' => I s' ∧ Forall2 R xs ys) := by
  intro xs
  induction xs with
  | nil => intro s hs; simp [mapM', Forall2]; exact hs
  | cons x xs ih =>
    intro s hs
    simp only [mapM', post_bind]
    have h1 := hf x s hs
    refine Post.mono h1 ?_
    intro b s1 ⟨hi1, hr⟩
    have h2 := ih s1 hi1
    refine Post.mono h2 ?_
    intro ys s2 ⟨hi2, hrs⟩
    simp [Forall2]
    exact ⟨hi2, hr, hrs⟩

end IastModel

import IastModel.Lemmas.ErShapes
namespace IastModel
open Node

theorem inertT_eq (n : Node) : inertT n = (inertTNode n && n.kids.all inertT) := by
  unfold inertT
  rw [Node.all_eq]

theorem mapM'_id (g : Node → M Node) : ∀ (ks : List Node) (s : St), (∀ k ∈ ks, ∀ s, (g k s).1 = k) → (mapM' g ks s).1 = ks := by
  intro ks
  induction ks with
  | nil => intro s _; rfl
  | cons k ks ih =>
    intro s h
    simp only [mapM', run_bind, run_pure]
    rw [h k (by simp), ih _ (fun x hx => h x (by simp [hx]))]

/-- the operation visitor returns an inert tree as it is -/
theorem visit_inert (cfg : Config) : ∀ (f : Nat) (root : Bool) (n : Node) (s : St), inertT n = true →
    (visit cfg f root n s).1 = n := by
  intro f
  induction f with
  | zero => intro root n s _; simp [visit, run_bind, run_pure]
  | succ f ih =>
    intro root n s hi
    rw [inertT_eq, Bool.and_eq_true] at hi
    have hk : ∀ k ∈ n.kids, inertT k = true := fun k hk => List.all_eq_true.mp hi.2 k hk
    have gen : ∀ r, (mapKidsM mapM' (visit cfg f r) n s).1 = n := by
      intro r
      simp only [mapKidsM, run_bind, run_pure]
      rw [mapM'_id _ _ _ (fun k hk' s' => ih r k s' (hk k hk')), Node.withKids_kids]
    cases n with
    | bin | assign | tpl | call | optChain | arrow | block => simp [inertTNode] at hi
    | ident nm sp => simp [visit, run_bind, run_pure]
    | unary op a sp =>
      simp only [visit]
      split
      · rfl
      · exact gen root
    | _ => simp only [visit]; exact gen root

/-- the result of visiting one node, relative to the counter before and after -/
def VRes (root : Bool) (s s' : St) (n' n : Node) : Prop :=
  match root with
  | true => ∃ hi, EVC 0 hi n' n
  | false => s.counter ≤ s'.counter ∧ EVC s.counter s'.counter n' n

def KRes (root : Bool) (s s' : St) (ks' ks : List Node) : Prop :=
  match root with
  | true => ∃ hi, KL 0 hi ks' ks
  | false => s.counter ≤ s'.counter ∧ KL s.counter s'.counter ks' ks

theorem mapM'_KRes (g : Node → M Node) (root : Bool) : ∀ (ks : List Node),
    (∀ k ∈ ks, ∀ s, VRes root s (g k s).2 (g k s).1 k) →
    ∀ s, KRes root s (mapM' g ks s).2 (mapM' g ks s).1 ks := by
  intro ks
  induction ks with
  | nil =>
    intro _ s
    cases root
    · exact ⟨Nat.le_refl _, by simp [mapM', run_pure, KL, Forall2]⟩
    · exact ⟨0, by simp [mapM', run_pure, KL, Forall2]⟩
  | cons k ks ih =>
    intro h s
    simp only [mapM', run_bind, run_pure]
    have h1 := h k (by simp) s
    have h2 := ih (fun x hx => h x (by simp [hx])) (g k s).2
    cases root
    · simp only [VRes, KRes] at h1 h2 ⊢
      refine ⟨by omega, ?_⟩
      simp only [KL, Forall2]
      exact ⟨h1.2.mono (Nat.le_refl _) h2.1, KL.mono h1.1 (Nat.le_refl _) h2.2⟩
    · simp only [VRes, KRes] at h1 h2 ⊢
      obtain ⟨hi1, v1⟩ := h1
      obtain ⟨hi2, v2⟩ := h2
      refine ⟨max hi1 hi2, ?_⟩
      simp only [KL, Forall2]
      exact ⟨v1.mono (Nat.le_refl _) (Nat.le_max_left _ _), KL.mono (Nat.le_refl _) (Nat.le_max_right _ _) v2⟩

/-- an argument node stays an argument node (with the same spread marker) -/
theorem visit_arg_shape (cfg : Config) (f : Nat) (root : Bool) (sA : Option Span) (e : Node) (s : St) :
    ∃ e', (visit cfg f root (.arg sA e) s).1 = .arg sA e' := by
  cases f with
  | zero => exact ⟨e, by simp [visit, run_bind, run_pure]⟩
  | succ f =>
    simp only [visit, mapKidsM, kids, mapM', run_bind, run_pure, withKids, List.getD_cons_zero]
    exact ⟨_, rfl⟩

theorem mapM'_argShape (cfg : Config) (f : Nat) (root : Bool) : ∀ (as : List Node) (s : St), as.all isArgN = true →
    Forall2 (fun a' a => ∃ sA e' e, a' = Node.arg sA e' ∧ a = Node.arg sA e) (mapM' (visit cfg f root) as s).1 as := by
  intro as
  induction as with
  | nil => intro s _; simp [mapM', run_pure, Forall2]
  | cons a as ih =>
    intro s h
    simp only [List.all_cons, Bool.and_eq_true] at h
    simp only [mapM', run_bind, run_pure, Forall2]
    refine ⟨?_, ih _ h.2⟩
    cases a with
    | arg sA e =>
      obtain ⟨e', he⟩ := visit_arg_shape cfg f root sA e s
      exact ⟨sA, e', e, he, rfl⟩
    | _ => simp [isArgN] at h

theorem forall2_imp {α β : Type} {R S : α → β → Prop} (h : ∀ a b, R a b → S a b) :
    ∀ {xs : List α} {ys : List β}, Forall2 R xs ys → Forall2 S xs ys := by
  intro xs
  induction xs with
  | nil => intro ys hf; cases ys <;> simp_all [Forall2]
  | cons x xs ih =>
    intro ys hf
    cases ys with
    | nil => simp [Forall2] at hf
    | cons y ys => simp only [Forall2] at hf ⊢; exact ⟨h _ _ hf.1, ih hf.2⟩

/-- the array-literal clause the `apply` expansion needs, from the part-wise relation -/
theorem DeepEr_of_parts (cx : Cx) (lo hi : Nat) (elems' : List Node) (asp : Span) : ∀ (x' x : Node),
    Deep lo hi x' x → ErAll lo hi x' x → srcOk x = true → argInner x' = .array elems' asp →
    ∃ es, argInner x = .array es asp ∧ asp.isDummy = false ∧ Forall2 (Er cx lo hi) elems' es := by
  apply Node.ind
  intro x' ih x hD hE hsx hx
  cases x' with
  | arg sA e' =>
    obtain ⟨s2, e, rfl, _, _⟩ := Er_arg_inv (hE.er cx)
    simp only [Deep] at hD
    obtain ⟨_, hEe, hDe⟩ := hD
    obtain ⟨es, h1, h2, h3⟩ := ih e' (by simp [kids]) e hDe hEe (srcOk_kids hsx e (by simp [kids])) (by simpa [argInner] using hx)
    exact ⟨es, by simpa [argInner] using h1, h2, h3⟩
  | array es' asp' =>
    simp only [argInner, array.injEq] at hx
    obtain ⟨rfl, rfl⟩ := hx
    obtain ⟨X, Δ, eX, sX, _⟩ := hE _ (BRg.refl _) []
    rw [eraseL_array] at eX
    have hX : X = .array (eraseL [] es').1 asp' := (congrArg Prod.fst eX).symm
    have hst := sX.1
    rw [hX] at hst
    cases x with
    | array es asp2 =>
      simp only [Deep] at hD
      obtain ⟨rfl, hDL⟩ := hD
      have hnd : asp2.isDummy = false := by
        have := srcOk_self hsx; simpa [srcNode] using this
      exact ⟨es, by simp [argInner], hnd, forall2_imp (fun a b hab => hab.1.er cx) hDL.forall2⟩
    | _ => simp [strip] at hst
  | _ => simp [argInner] at hx

theorem DeepEr_of_VC {lo hi : Nat} {a' a : Node} (cx : Cx) (h : EVC lo hi a' a) (hs : srcOk a = true) : DeepEr cx lo hi a' a := by
  intro elems' asp he
  exact DeepEr_of_parts cx lo hi elems' asp a' a h.2.2.1 h.1 hs he

/-- an inert tree has no block statement in it -/
theorem inertT_noBlk : ∀ n : Node, inertT n = true → noBlk n = true := by
  apply Node.ind
  intro n ih h
  rw [inertT_eq, Bool.and_eq_true] at h
  rw [noBlk_eq]
  have h1 : isBlockNode n = false := by
    cases n <;> first | rfl | simp [inertTNode] at h
  simp only [h1, Bool.not_false, Bool.true_and]
  unfold noBlkL
  rw [List.all_eq_true]
  intro k hk
  exact ih k hk (List.all_eq_true.mp h.2 k hk)

end IastModel

import IastModel.Lemmas.BlockRewrite3
namespace IastModel
open Node

/-- what the rewriter establishes about a hook call `name(first, args…)` when it builds it, in a form
    that survives later rewriting of block statements inside `first` -/
inductive Cert (cfg : Config) : String → Node → List Node → Prop
  | plus (l r : Node) (sp : Span) (args : List Node) :
      Mir args [.arg none l, .arg none r] → Cert cfg cfg.plusName (.bin "+" l r sp) args
  | tpl (es qs : List Node) (sp : Span) (args : List Node) :
      (∀ e ∈ es, isArgNode e = false) → Mir args (es.map mirrorOf) → Cert cfg cfg.tplName (.tpl es qs sp) args
  | bare (name : String) (n : Name) (isp : Span) (cargs : List Node) (csp usp : Span) (P : List Node) :
      Mir P (callArgs cargs) →
      Cert cfg name (.call (.ident n isp) cargs csp) (.arg none (.ident n isp) :: .arg none (.ident (.user "undefined") usp) :: P)
  | call (name : String) (f : Node) (ca : String) (p1 p2 : Span) (cargs : List Node) (p3 : Span) (exp args : List Node) :
      expectedCallArgs (.call (.member f (.pname ca p1) p2) cargs p3) = some exp → Mir args exp →
      Cert cfg name (.call (.member f (.pname ca p1) p2) cargs p3) args

def OKres (cfg : Config) (r : Option String) : Prop :=
  r = none ∨ ∃ w, (w = "plus" ∨ w = "tpl" ∨ w = "call") ∧ r = some (sumClass cfg w)

theorem mirrorTpl_of_Mir (cfg : Config) (es args : List Node) (na : ∀ e ∈ es, isArgNode e = false)
    (hm : Mir args (es.map mirrorOf)) :
    mirrorTpl cfg cfg.tplName es args = none ∨ mirrorTpl cfg cfg.tplName es args = some (sumClass cfg "tpl") := by
  simp only [mirrorTpl, bne_self_eq_false, Bool.false_eq_true, if_false]
  by_cases heq : argsEq args (es.map mirrorOf) = true
  · left; simp [heq]
  · right
    simp only [heq, Bool.false_eq_true, if_false]
    rcases hm with hm | hm
    · exact absurd hm heq
    · have : es.any isNonLiteralSum = true := by
        rw [List.any_eq_true] at hm ⊢
        obtain ⟨a, ha, hs⟩ := hm
        rw [List.mem_map] at ha
        obtain ⟨x, hx, rfl⟩ := ha
        refine ⟨x, hx, ?_⟩
        rw [mirrorOf_notArg (na x hx)] at hs
        simpa [sumArg, argOf] using hs
      simp [this]

theorem cert_ok {cfg : Config} {name : String} {first : Node} {args : List Node} (h : Cert cfg name first args) :
    OKres cfg (argsMirrorFirst cfg name first args) := by
  cases h with
  | plus l r sp args hm =>
    simp only [argsMirrorFirst]
    rcases mirrorPlus_of_Mir cfg l r args hm with h | h
    · exact Or.inl h
    · exact Or.inr ⟨"plus", Or.inl rfl, h⟩
  | tpl es qs sp args na hm =>
    simp only [argsMirrorFirst]
    rcases mirrorTpl_of_Mir cfg es args na hm with h | h
    · exact Or.inl h
    · exact Or.inr ⟨"tpl", Or.inr (Or.inl rfl), h⟩
  | bare name n isp cargs csp usp P hm =>
    simp only [argsMirrorFirst]
    rcases mirrorBare_of_Mir cfg (.ident n isp) cargs P usp hm with h | h
    · exact Or.inl h
    · exact Or.inr ⟨"call", Or.inr (Or.inr rfl), h⟩
  | call name f ca p1 p2 cargs p3 exp args he hm =>
    simp only [argsMirrorFirst]
    rcases mirrorCall_of_Mir cfg _ args exp he hm with h | h
    · exact Or.inl h
    · exact Or.inr ⟨"call", Or.inr (Or.inr rfl), h⟩

theorem BR.mirrorOf {a b : Node} (h : BR a b) : BR (mirrorOf a) (mirrorOf b) := by
  by_cases ha : IastModel.isArgNode a = true
  · cases a with
    | arg s e => obtain ⟨e', rfl, he⟩ := h.arg_inv; exact BR.arg_mk s he
    | _ => simp [IastModel.isArgNode] at ha
  · have ha' : IastModel.isArgNode a = false := by simpa using ha
    have hb : IastModel.isArgNode b = false := by rw [h.isArgNode]; exact ha'
    rw [mirrorOf_notArg ha', mirrorOf_notArg hb]
    exact BR.arg_mk none h

/-- the expected argument list of a call-shaped first argument follows the rewriting -/
theorem expected_BR {f f' : Node} {ca : String} {p1 p2 p3 : Span} {cargs cargs' exp : List Node}
    (hf : BR f f') (hc : BRL cargs cargs')
    (he : expectedCallArgs (.call (.member f (.pname ca p1) p2) cargs p3) = some exp) :
    ∃ exp', expectedCallArgs (.call (.member f' (.pname ca p1) p2) cargs' p3) = some exp' ∧ BRL exp exp' := by
  have hca := hc.callArgs
  simp only [expectedCallArgs] at he ⊢
  by_cases h1 : (ca == Generated.callMethodName) = true
  · simp only [h1, if_true, Option.some.injEq] at he ⊢
    subst he
    exact ⟨_, rfl, BRL.cons (BR.arg_mk none hf) hca⟩
  · simp only [h1, Bool.false_eq_true, if_false] at he ⊢
    by_cases h2 : (ca == Generated.applyMethodName) = true
    · simp only [h2, if_true] at he ⊢
      generalize callArgs cargs = A at he hca
      generalize callArgs cargs' = A' at hca ⊢
      cases A with
      | nil => cases he
      | cons this rest =>
        obtain ⟨this', rest', rfl, ht, hr⟩ := BRL.cons_inv hca
        simp only [ht.isSpreadArg] at he ⊢
        split at he
        · rename_i hs
          simp only [hs, if_true, Option.some.injEq] at he ⊢
          subst he
          exact ⟨_, rfl, BRL.cons (BR.arg_mk none hf) (BRL.flatMap (fun _ _ => BR.expandApplyArg) (BRL.cons ht hr))⟩
        · rename_i hs
          simp only [hs, Bool.false_eq_true, if_false, Option.some.injEq] at he ⊢
          subst he
          exact ⟨_, rfl, BRL.cons (BR.arg_mk none hf) (BRL.cons ht (BRL.flatMap (fun _ _ => BR.expandApplyArg) hr))⟩
    · simp [h2] at he

theorem cert_BR {cfg : Config} {name : String} {first first' : Node} {args : List Node}
    (h : Cert cfg name first args) (hn : noBlkL args = true) (hb : BR first first') : Cert cfg name first' args := by
  cases h with
  | plus l r sp args hm =>
    obtain ⟨l', r', rfl, hl, hr⟩ := hb.bin_inv
    exact Cert.plus l' r' sp args (hm.stable hn (BRL.cons (BR.arg_mk none hl) (BRL.cons (BR.arg_mk none hr) BRL.nil)))
  | tpl es qs sp args na hm =>
    obtain ⟨es', qs', rfl, hes, hqs⟩ := hb.tpl_inv
    refine Cert.tpl es' qs' sp args ?_ (hm.stable hn (BRL.map (fun _ _ => BR.mirrorOf) hes))
    intro e he
    obtain ⟨i, hi, rfl⟩ := List.getElem_of_mem he
    have h1 : i < es.length := by rw [hes.1]; exact hi
    rw [(hes.2 i h1 hi).isArgNode]
    exact na _ (List.getElem_mem h1)
  | bare name n isp cargs csp usp P hm =>
    obtain ⟨c', cargs', rfl, hc, hcs⟩ := hb.call_inv
    have : c' = .ident n isp := BR_noBlk _ (by simp) _ hc
    subst this
    simp only [noBlkL_cons, Bool.and_eq_true] at hn
    exact Cert.bare name n isp cargs' csp usp P (hm.stable hn.2.2 hcs.callArgs)
  | call name f ca p1 p2 cargs p3 exp args he hm =>
    obtain ⟨c', cargs', rfl, hc, hcs⟩ := hb.call_inv
    obtain ⟨f', p', rfl, hf, hp⟩ := hc.member_inv
    have : p' = .pname ca p1 := BR_noBlk _ (by simp) _ hp
    subst this
    obtain ⟨exp', he', hbe⟩ := expected_BR hf hcs he
    exact Cert.call name f' ca p1 p2 cargs' p3 exp' args he' (hm.stable hn hbe)

/-- a hook site that mirrors its operation (or has the recorded omission) however the block statements
    inside it are rewritten afterwards -/
def RobustOK (cfg : Config) (h : Node) : Prop := ∀ h', BR h h' → siteOKb cfg h' = true

theorem siteOKb_of_OKres {cfg : Config} {h : Node} (hr : OKres cfg (argsMirrorSite cfg h)) : siteOKb cfg h = true :=
  siteOKb_of_MirOK hr

theorem robust_of_cert {cfg : Config} {name : String} {first : Node} {args : List Node} (sp : Span)
    (h : Cert cfg name first args) (hn : noBlkL args = true) : RobustOK cfg (ddCall first args name sp) := by
  intro h' hb
  unfold ddCall at hb
  obtain ⟨c', as', rfl, hc, has⟩ := hb.call_inv
  have : c' = ddCallee name sp := BR_noBlk _ (noBlk_ddCallee name sp) _ hc
  subst this
  obtain ⟨a1, rest', rfl, ha1, hrest⟩ := BRL.cons_inv has
  obtain ⟨first', rfl, hf⟩ := ha1.arg_inv
  have : rest' = args := BRL_noBlk hn hrest
  subst this
  apply siteOKb_of_OKres
  have := cert_ok (cert_BR h hn hf)
  have e : argsMirrorSite cfg (.call (ddCallee name sp) (.arg none first' :: rest') sp) = argsMirrorFirst cfg name first' rest' :=
    argsMirrorSite_ddCall cfg first' rest' name sp
  rw [e]; exact this

theorem RobustOK.BR {cfg : Config} {h h' : Node} (hr : RobustOK cfg h) (hb : BR h h') : RobustOK cfg h' :=
  fun h'' hb' => hr h'' (hb.trans hb')

theorem RobustOK.ok {cfg : Config} {h : Node} (hr : RobustOK cfg h) : MirOK cfg h :=
  MirOK_of_siteOKb (hr h (BR.refl h))

end IastModel

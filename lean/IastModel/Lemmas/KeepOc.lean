import IastModel.Lemmas.KeepTr
namespace IastModel
open Node

def OcPostK (B : Node) (n : Node) (oc : OcSt) (R : (Node × OcSt) × St) : Prop :=
  cb B R.1.1 + cbL B R.1.2.assignments = cb B n + cbL B oc.assignments ∧ OcInv R.1.2

theorem getCallFromBaseCall_K (B : Node) (callee : Node) (args : List Node) (optional : Bool) (oc : OcSt) (s : St)
    (hns : ns callee = 0) (hi : OcInv oc) :
    let R := getCallFromBaseCall callee args optional oc s
    OcInv R.1.2 ∧
    (R.1.1 = none → cbL B R.1.2.assignments = cbL B oc.assignments) ∧
    (∀ r, R.1.1 = some r → cb B r + cbL B R.1.2.assignments = (cb B callee + cbL B args) + cbL B oc.assignments) := by
  unfold getCallFromBaseCall
  by_cases ho : optional = true
  · simp only [ho, if_true]
    cases callee with
    | member mobj mprop msp =>
      simp only [oc_bind, oc_get, oc_set, oc_lift, oc_pure, oc_modify]
      rcases getIdentUsed_cases mobj oc.assignments [] Span.dummy .expr s with ⟨hl, h1⟩ | ⟨_, t0, s1, h1, _⟩
      · rw [h1]; simp only [oc_pure]
        exact ⟨hi, (by intro _; trivial), (by intro r hr; cases hr)⟩
      · rw [h1]
        simp only [oc_bind, oc_get, oc_set, oc_lift, oc_pure, oc_modify]
        rcases getIdentUsed_cases (Node.member (tempIdent t0) mprop Span.dummy)
            (oc.assignments ++ [.assign "=" (tempIdent t0) (assignRight mobj .expr) Span.dummy]) [] Span.dummy .expr s1
          with ⟨hl, _⟩ | ⟨_, t1, s2, h2, _⟩
        · simp [Node.isLit] at hl
        · rw [h2]
          simp only [oc_bind, oc_modify, oc_pure]
          refine ⟨Or.inr rfl, (by intro h; cases h), ?_⟩
          intro r hr
          simp only [Option.some.injEq] at hr
          subst hr
          simp only [cb_call]
          simp [tempIdent, assignRight]
          omega
    | _ =>
      simp only [oc_bind, oc_get, oc_set, oc_lift, oc_pure, oc_modify]
      rcases getIdentUsed_cases _ oc.assignments [] Span.dummy .expr s with ⟨hl, h1⟩ | ⟨_, t0, s1, h1, _⟩
      · rw [h1]; simp only [oc_pure]
        exact ⟨hi, (by intro _; trivial), (by intro r hr; cases hr)⟩
      · rw [h1]
        simp only [isEmpty_snoc, Bool.false_eq_true, if_false, oc_bind, oc_modify, oc_pure]
        refine ⟨Or.inr rfl, (by intro h; cases h), ?_⟩
        intro r hr
        simp only [Option.some.injEq] at hr
        subst hr
        simp only [cb_call]
        first | (simp [tempIdent, assignRight]; done) | (simp [tempIdent, assignRight]; omega)
  · simp only [ho, Bool.false_eq_true, if_false, oc_pure]
    refine ⟨hi, (by intro h; cases h), ?_⟩
    intro r hr
    simp only [Option.some.injEq] at hr
    subst hr
    simp only [cb_call]

theorem getMemberFromBaseMember_K (B : Node) (obj prop : Node) (msp : Span) (optional : Bool) (oc : OcSt) (s : St) (hi : OcInv oc) :
    let R := getMemberFromBaseMember obj prop msp optional oc s
    OcInv R.1.2 ∧
    (R.1.1 = none → cbL B R.1.2.assignments = cbL B oc.assignments) ∧
    (∀ r, R.1.1 = some r → cb B r + cbL B R.1.2.assignments = cb B obj + cb B prop + cbL B oc.assignments) := by
  unfold getMemberFromBaseMember
  by_cases ho : optional = true
  · simp only [ho, if_true, oc_bind, oc_get, oc_set, oc_lift, oc_pure]
    rcases getIdentUsed_cases obj oc.assignments [] Span.dummy .expr s with ⟨hl, h1⟩ | ⟨_, t, s1, h1, _⟩
    · rw [h1]; simp only [oc_pure]
      exact ⟨hi, (by intro _; trivial), (by intro r hr; cases hr)⟩
    · rw [h1]
      simp only [oc_bind, oc_modify, oc_pure]
      refine ⟨Or.inr rfl, (by intro h; cases h), ?_⟩
      intro r hr
      simp only [Option.some.injEq] at hr
      subst hr
      simp [tempIdent, assignRight]
      omega
  · simp only [ho, Bool.false_eq_true, if_false, oc_pure]
    refine ⟨hi, (by intro h; cases h), ?_⟩
    intro r hr
    simp only [Option.some.injEq] at hr
    subst hr
    simp

end IastModel

namespace IastModel
open Node

theorem ocSpine_K (B : Node) (v : Node → OcM Node)
    (hv : ∀ e oc s, ns e = 0 → OcZ oc → OcInv oc → OcPostK B e oc (v e oc s) ∧ OcPost (v e oc s) s)
    (e : Node) (oc : OcSt) (s : St) (h0 : ns e = 0) (hz : OcZ oc) (hi : OcInv oc) :
    OcPostK B e oc (ocSpine v e oc s) := by
  unfold ocSpine
  split
  · rename_i o callee args csp sp
    simp only [ns_optChain, ns_optCall] at h0
    simp only [oc_bind, oc_pure]
    have h := (hv callee oc s (by omega) hz hi).1
    generalize v callee oc s = R at h
    obtain ⟨⟨c', oc'⟩, s'⟩ := R
    obtain ⟨h1, h2⟩ := h
    simp only at h1 h2
    exact ⟨by simp only [cb_optChain, cb_optCall]; omega, h2⟩
  · rename_i o obj prop msp sp
    simp only [ns_optChain, ns_member] at h0
    simp only [oc_bind, oc_pure]
    have h := (hv obj oc s (by omega) hz hi).1
    generalize v obj oc s = R at h
    obtain ⟨⟨c', oc'⟩, s'⟩ := R
    obtain ⟨h1, h2⟩ := h
    simp only at h1 h2
    exact ⟨by simp only [cb_optChain, cb_member]; omega, h2⟩
  · rename_i callee args sp
    simp only [ns_call] at h0
    split
    · simp only [oc_pure]; exact ⟨rfl, hi⟩
    · simp only [oc_bind, oc_pure]
      have hb := hv callee oc s (by omega) hz hi
      generalize v callee oc s = R at hb
      obtain ⟨⟨c', oc'⟩, s'⟩ := R
      obtain ⟨⟨h1, h2⟩, hz'⟩ := hb
      simp only at h1 h2
      have hc0 : ns c' = 0 := hz'.1
      refine ⟨?_, h2⟩
      simp only [cb_call]
      omega
  · rename_i obj prop sp
    simp only [ns_member] at h0
    simp only [oc_bind, oc_pure]
    have h := (hv obj oc s (by omega) hz hi).1
    generalize v obj oc s = R at h
    obtain ⟨⟨c', oc'⟩, s'⟩ := R
    obtain ⟨h1, h2⟩ := h
    simp only at h1 h2
    exact ⟨by simp only [cb_member]; omega, h2⟩
  · simp only [oc_pure]; exact ⟨rfl, hi⟩

theorem ocVisit_K (B : Node) (cfg : Config) : ∀ (f : Nat) (n : Node) (oc : OcSt) (s : St),
    ns n = 0 → OcZ oc → OcInv oc → OcPostK B n oc (ocVisit cfg f n oc s) := by
  intro f
  induction f with
  | zero =>
    intro n oc s h hz hi
    simp only [ocVisit, oc_bind, oc_lift, oc_pure]
    exact ⟨rfl, hi⟩
  | succ f ih =>
    intro n oc s h hz hi
    have hv : ∀ e oc s, ns e = 0 → OcZ oc → OcInv oc → OcPostK B e oc (ocVisit cfg f e oc s) ∧ OcPost (ocVisit cfg f e oc s) s :=
      fun e oc s h0 hz hi => ⟨ih e oc s h0 hz hi, ocVisit_z cfg f e oc s h0 hz⟩
    unfold ocVisit
    split
    · rename_i optional base sp
      rw [oc_bind, oc_get]
      show OcPostK B _ oc ((ite (oc.found = true) _ _ : OcM Node) oc s)
      by_cases hf : oc.found = true
      · rw [if_pos hf]
        have key : ∀ (m : OcM (Option Node)),
            (OcInv (m oc s).1.2 ∧ OcZ (m oc s).1.2 ∧
              ((m oc s).1.1 = none → cbL B (m oc s).1.2.assignments = cbL B oc.assignments) ∧
              (∀ r, (m oc s).1.1 = some r → ns r = 0 ∧
                cb B r + cbL B (m oc s).1.2.assignments = cb B (Node.optChain optional base sp) + cbL B oc.assignments)) →
            OcPostK B (Node.optChain optional base sp) oc ((do
              let r ← m
              if optional = true then pure (r.getD (optChain optional base sp))
              else ocSpine (ocVisit cfg f) (r.getD (optChain optional base sp)) : OcM Node) oc s) := by
          intro m hm
          simp only [oc_bind]
          generalize hR : m oc s = R at hm
          obtain ⟨⟨r, oc1⟩, s1⟩ := R
          simp only at hm
          obtain ⟨i1, z1, hnone, hsome⟩ := hm
          have hr1 : ns (r.getD (Node.optChain optional base sp)) = 0 ∧
              cb B (r.getD (Node.optChain optional base sp)) + cbL B oc1.assignments = cb B (Node.optChain optional base sp) + cbL B oc.assignments := by
            cases r with
            | none => exact ⟨h, by simp [hnone rfl]⟩
            | some x => exact hsome x rfl
          by_cases ho : optional = true
          · rw [if_pos ho, oc_pure]; exact ⟨hr1.2, i1⟩
          · rw [if_neg ho]
            have := ocSpine_K B (ocVisit cfg f) hv _ oc1 s1 hr1.1 z1 i1
            obtain ⟨t1, t2⟩ := this
            refine ⟨?_, t2⟩
            simp only at t1 ⊢
            omega
        cases base with
        | optCall callee args csp =>
          simp only [ns_optChain, ns_optCall] at h
          have hE := getCallFromBaseCall_K B callee args optional oc s (by omega) hi
          have hZ := getCallFromBaseCall_z callee args optional oc s (by omega) (by omega) hz
          exact key _ ⟨hE.1, hZ.1, hE.2.1, fun r hr => ⟨hZ.2.1 r hr, by have := hE.2.2 r hr; simp only [cb_optChain, cb_optCall]; omega⟩⟩
        | member obj prop msp =>
          simp only [ns_optChain, ns_member] at h
          have hE := getMemberFromBaseMember_K B obj prop msp optional oc s hi
          have hZ := getMemberFromBaseMember_z obj prop msp optional oc s (by omega) (by omega) hz
          exact key _ ⟨hE.1, hZ.1, hE.2.1, fun r hr => ⟨hZ.2.1 r hr, by have := hE.2.2 r hr; simp only [cb_optChain, cb_member]; omega⟩⟩
        | _ => exact key (pure none) ⟨hi, hz, (by intro _; rfl), (by intro r hr; simp [oc_pure] at hr)⟩
      · rw [if_neg hf]
        by_cases ht : ocTrigger cfg optional base = true
        · rw [if_pos ht]; simp only [oc_bind, oc_modify]
          exact ih _ _ _ h hz hi
        · rw [if_neg ht]
          exact ocSpine_K B (ocVisit cfg f) hv _ oc s h hz hi
    · rw [oc_pure]; exact ⟨rfl, hi⟩

/-- the lowering of an optional chain keeps every effect node exactly once -/
theorem toDdCond_K (B : Node) (cfg : Config) (fuel : Nat) (e : Node) (s : St) (h : ns e = 0) :
    cb B ((toDdCond cfg fuel e s).1.2.getD (toDdCond cfg fuel e s).1.1) = cb B e := by
  unfold toDdCond
  simp only [run_bind]
  have hv : OcPostK B e {} (StateT.run (ocVisit cfg fuel e) {} s) := ocVisit_K B cfg fuel e {} s h rfl (Or.inl rfl)
  generalize (StateT.run (ocVisit cfg fuel e) {} s) = X at hv ⊢
  obtain ⟨⟨e', oc⟩, s'⟩ := X
  obtain ⟨h1, h2⟩ := hv
  simp only [cbL_nil, Nat.add_zero] at h1
  cases hn : oc.newIdent with
  | none =>
    simp only [run_pure, Option.getD_none]
    rcases h2 with h2 | h2
    · rw [h2] at h1; simpa using h1
    · rw [hn] at h2; cases h2
  | some t =>
    simp only
    by_cases ha : oc.assignments.isEmpty = true
    · simp only [ha, if_true, run_pure, Option.getD_none]
      have : oc.assignments = [] := by simpa using ha
      rw [this] at h1; simpa using h1
    · simp only [ha, Bool.false_eq_true, if_false, run_pure, Option.getD_some]
      have hnull : cb B nullLit = 0 := by simp only [nullLit, cb_lit]
      simp only [nullLit] at hnull
      simp [tempIdent, nullLit, hnull]
      omega

end IastModel

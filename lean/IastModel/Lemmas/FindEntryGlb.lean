import IastModel.Js.FindEntry
namespace IastModel.FindEntry
open IastModel.Codec

theorem posLt_iff (p q : Pos) : posLt p q = true ↔ (p.1 < q.1 ∨ (p.1 = q.1 ∧ p.2 < q.2)) := by
  simp [posLt]

theorem posLt_trans_le {a b c : Pos} (h1 : posLt a b = true) (h2 : posLt c b = false) : posLt a c = true := by
  rw [posLt_iff] at h1 ⊢
  have h2' : ¬ (c.1 < b.1 ∨ (c.1 = b.1 ∧ c.2 < b.2)) := by rw [← posLt_iff]; simp [h2]
  omega

theorem le_trans' {a b c : Pos} (h1 : posLt a b = false) (h2 : posLt b c = false) : posLt a c = false := by
  have h1' : ¬ (a.1 < b.1 ∨ (a.1 = b.1 ∧ a.2 < b.2)) := by rw [← posLt_iff]; simp [h1]
  have h2' : ¬ (b.1 < c.1 ∨ (b.1 = c.1 ∧ b.2 < c.2)) := by rw [← posLt_iff]; simp [h2]
  cases h : posLt a c with
  | false => rfl
  | true => rw [posLt_iff] at h; omega

/-- sorted by generated position (what `ArrayPrototypeSort(this._mappings, compareSourceMapEntry)` leaves) -/
def Sorted (ms : List Pos) : Prop := ∀ i j, i ≤ j → j < ms.length → posLt (ms.getD j (0, 0)) (ms.getD i (0, 0)) = false

/-- loop invariant -/
structure Inv (ms : List Pos) (pos : Pos) (first count : Nat) : Prop where
  pos_count : 1 ≤ count
  bound : first + count ≤ ms.length
  low : first = 0 ∨ posLt pos (ms.getD first (0, 0)) = false
  high : first + count = ms.length ∨ posLt pos (ms.getD (first + count) (0, 0)) = true

theorem loop_spec (ms : List Pos) (pos : Pos) : ∀ (fuel first count : Nat), count ≤ fuel → Inv ms pos first count →
    Inv ms pos (loop ms pos fuel first count) 1 := by
  intro fuel
  induction fuel with
  | zero => intro first count h inv; have := inv.pos_count; omega
  | succ fuel ih =>
    intro first count hf inv
    simp only [loop]
    by_cases hc : count > 1
    · simp only [hc, if_true]
      have hstep : 1 ≤ count / 2 := by omega
      have hstep2 : count / 2 < count := by omega
      by_cases hlt : posLt pos (ms.getD (first + count / 2) (0, 0)) = true
      · simp only [hlt, if_true]
        apply ih first (count / 2) (by omega)
        exact ⟨hstep, by have := inv.bound; omega, inv.low, Or.inr hlt⟩
      · simp only [hlt, Bool.false_eq_true, if_false]
        apply ih (first + count / 2) (count - count / 2) (by omega)
        refine ⟨by omega, by have := inv.bound; omega, Or.inr (by simpa using hlt), ?_⟩
        have : first + count / 2 + (count - count / 2) = first + count := by omega
        rw [this]; exact inv.high
    · simp only [hc, if_false]
      have : count = 1 := by have := inv.pos_count; omega
      subst this; exact inv

/-- **`findEntry` is the greatest-lower-bound lookup.**  On mappings sorted by generated position it
    returns the last entry at or before the requested position, and `{}` exactly when there is none. -/
theorem findEntry_glb (ms : List Pos) (pos : Pos) (hs : Sorted ms) :
    match findEntryIdx ms pos with
    | some i => i < ms.length ∧ posLt pos (ms.getD i (0, 0)) = false ∧
        ∀ j, i < j → j < ms.length → posLt pos (ms.getD j (0, 0)) = true
    | none => ∀ j, j < ms.length → posLt pos (ms.getD j (0, 0)) = true := by
  unfold findEntryIdx
  by_cases hn : ms.length = 0
  · have : ms = [] := List.eq_nil_of_length_eq_zero hn
    subst this
    simp [loop]
  · have inv0 : Inv ms pos 0 ms.length := ⟨by omega, by omega, Or.inl rfl, Or.inl (by omega)⟩
    have inv := loop_spec ms pos ms.length 0 ms.length (Nat.le_refl _) inv0
    generalize loop ms pos ms.length 0 ms.length = first at inv
    have hlt : first < ms.length := by have := inv.bound; omega
    have hget : ms[first]? = some (ms.getD first (0, 0)) := by
      rw [List.getD_eq_getElem?_getD, List.getElem?_eq_getElem hlt]; rfl
    simp only [hget]
    -- everything after `first` is beyond the position
    have hafter : ∀ j, first < j → j < ms.length → posLt pos (ms.getD j (0, 0)) = true := by
      intro j hj hjl
      rcases inv.high with h | h
      · omega
      · exact posLt_trans_le h (hs (first + 1) j (by omega) hjl)
    by_cases hz : (first == 0 && posLt pos (ms.getD first (0, 0))) = true
    · simp only [hz, if_true]
      simp only [Bool.and_eq_true, beq_iff_eq] at hz
      intro j hjl
      by_cases hj : j = first
      · rw [hj]; exact hz.2
      · exact hafter j (by omega) hjl
    · simp only [hz, Bool.false_eq_true, if_false]
      refine ⟨hlt, ?_, hafter⟩
      rcases inv.low with h | h
      · simp only [h, beq_self_eq_true, Bool.true_and, Bool.not_eq_true] at hz
        rw [h]; exact hz
      · exact h

/-- the last element of a list that satisfies `p` on a prefix of length `i + 1` and nowhere after -/
theorem filter_getLast_of_prefix {α : Type} (p : α → Bool) (l : List α) (i : Nat) (hi : i < l.length)
    (h1 : ∀ j (hj : j < l.length), j ≤ i → p l[j] = true) (h2 : ∀ j (hj : j < l.length), i < j → p l[j] = false) :
    (l.filter p).getLast? = some l[i] := by
  induction l generalizing i with
  | nil => simp at hi
  | cons x xs ih =>
    have hx : p x = true := h1 0 (by simp) (by omega)
    cases i with
    | zero =>
      have hxs : xs.filter p = [] := by
        rw [List.filter_eq_nil_iff]
        intro a ha
        obtain ⟨k, hk, rfl⟩ := List.getElem_of_mem ha
        have := h2 (k + 1) (by simp; omega) (by omega)
        simpa using this
      simp [List.filter_cons, hx, hxs]
    | succ i =>
      have hi' : i < xs.length := by simp at hi; omega
      have := ih i hi' (fun j hj hji => by have := h1 (j + 1) (by simp; omega) (by omega); simpa using this)
        (fun j hj hji => by have := h2 (j + 1) (by simp; omega) (by omega); simpa using this)
      simp only [List.filter_cons, hx, if_true, List.getElem_cons_succ]
      rw [List.getLast?_cons, this]; rfl

theorem filter_nil_of_all_false {α : Type} (p : α → Bool) (l : List α) (h : ∀ j (hj : j < l.length), p l[j] = false) :
    l.filter p = [] := by
  rw [List.filter_eq_nil_iff]
  intro a ha
  obtain ⟨k, hk, rfl⟩ := List.getElem_of_mem ha
  simp [h k hk]

theorem getD_eq_getElem (ms : List Pos) (j : Nat) (hj : j < ms.length) : ms.getD j (0, 0) = ms[j] := by
  rw [List.getD_eq_getElem?_getD, List.getElem?_eq_getElem hj]; rfl

/-- **`findEntry` = the specification `lookup`.**  For mappings sorted by generated position, the
    entry the binary search returns is exactly the last mapping at or before the position — the
    function `Codec.lookup` that the map oracles (C09, C10) and the C11 correspondence use as the meaning
    of "the position resolves to". -/
theorem findEntry_eq_lookup (toks : List Token) (line col : Nat)
    (hs : Sorted (toks.map fun t => (t.genLine, t.genCol))) :
    lookup toks line col =
      (findEntryIdx (toks.map fun t => (t.genLine, t.genCol)) (line, col)).bind (fun i => toks[i]?) := by
  have hp : ∀ t : Token, posLe t.genLine t.genCol line col = !posLt (line, col) (t.genLine, t.genCol) := by
    intro t
    simp only [posLe, posLt]
    cases h1 : decide (t.genLine < line) <;> cases h2 : decide (line < t.genLine) <;>
      cases h3 : (t.genLine == line) <;> cases h4 : (line == t.genLine) <;>
      cases h5 : decide (t.genCol ≤ col) <;> cases h6 : decide (col < t.genCol) <;>
      simp_all <;> omega
  have hlen : (toks.map fun t => (t.genLine, t.genCol)).length = toks.length := by simp
  have hg := findEntry_glb (toks.map fun t => (t.genLine, t.genCol)) (line, col) hs
  unfold lookup
  cases hfe : findEntryIdx (toks.map fun t => (t.genLine, t.genCol)) (line, col) with
  | none =>
    rw [hfe] at hg
    simp only [Option.bind_none]
    rw [filter_nil_of_all_false]
    · rfl
    · intro j hj
      have := hg j (by rw [hlen]; exact hj)
      rw [getD_eq_getElem _ j (by rw [hlen]; exact hj)] at this
      simp only [List.getElem_map] at this
      rw [hp, this]; rfl
  | some i =>
    rw [hfe] at hg
    obtain ⟨hi, hle, hafter⟩ := hg
    have hi' : i < toks.length := by rw [hlen] at hi; exact hi
    simp only [Option.bind_some, List.getElem?_eq_getElem hi']
    apply filter_getLast_of_prefix _ toks i hi'
    · intro j hj hji
      rw [hp]
      -- ms[j] ≤ ms[i] ≤ pos
      have h1 := hs j i hji hi
      rw [getD_eq_getElem _ i hi, getD_eq_getElem _ j (by rw [hlen]; exact hj)] at h1
      rw [getD_eq_getElem _ i hi] at hle
      simp only [List.getElem_map] at h1 hle
      have := le_trans' hle h1
      simp [this]
    · intro j hj hij
      rw [hp]
      have := hafter j hij (by rw [hlen]; exact hj)
      rw [getD_eq_getElem _ j (by rw [hlen]; exact hj)] at this
      simp only [List.getElem_map] at this
      simp [this]

end IastModel.FindEntry

import IastModel.Lemmas.NotBlock
namespace IastModel
open Node

/-- what the operation visitor guarantees for a tree that does not mention the namespace: the result
    is good (with its nested blocks still untouched), every namespace reference in it is matched by
    one telemetry entry, and target shapes survive -/
def VSpec (ok : String → Bool) (n : Node) (R : Node × St) (s : St) : Prop :=
  goodW ok true R.1 = true ∧ Eff s R.2 (ns R.1) ∧ Shp n R.1

def VHyp (ok : String → Bool) (v : Node → M Node) : Prop :=
  ∀ k s, ns k = 0 → targetsOk k = true → StOk s → VSpec ok k (v k s) s

theorem mapVisit_spec (ok) (v : Node → M Node) (hv : VHyp ok v) :
    ∀ (ks : List Node) (s : St), nsL ks = 0 → (∀ k ∈ ks, targetsOk k = true) → StOk s →
      goodL ok true (mapM' v ks s).1 = true ∧ Eff s (mapM' v ks s).2 (nsL (mapM' v ks s).1) ∧
      Forall2 Shp ks (mapM' v ks s).1 := by
  intro ks
  induction ks with
  | nil => intro s _ _ _; simp [mapM', run_pure, Forall2, Eff.refl]
  | cons k ks ih =>
    intro s h0 ht hs
    simp only [nsL_cons] at h0
    simp only [mapM', run_bind, run_pure]
    have h1 := hv k s (by omega) (ht k (by simp)) hs
    generalize v k s = R1 at h1
    obtain ⟨k', s1⟩ := R1
    obtain ⟨g1, e1, p1⟩ := h1
    simp only at g1 e1 p1
    have h2 := ih s1 (by omega) (fun x hx => ht x (by simp [hx])) (e1.stOk hs)
    generalize mapM' v ks s1 = R2 at h2
    obtain ⟨ks', s2⟩ := R2
    obtain ⟨g2, e2, p2⟩ := h2
    simp only at g2 e2 p2
    exact ⟨by simp [g1, g2], by simpa using e1.trans e2, by simp [Forall2, p1, p2]⟩

theorem mapKids_spec' (ok) (v : Node → M Node) (hv : VHyp ok v) (n : Node) (s : St)
    (h0 : ns n = 0) (ht : targetsOk n = true) (hs : StOk s) :
    ∃ ks', (mapKidsM mapM' v n s).1 = n.withKids ks' ∧ ks'.length = n.kids.length ∧ goodL ok true ks' = true ∧
      Eff s (mapKidsM mapM' v n s).2 (nsL ks') ∧ Forall2 Shp n.kids ks' := by
  simp only [mapKidsM, run_bind, run_pure]
  have h := mapVisit_spec ok v hv n.kids s (nsL_kids_of_ns0 h0) (targetsOk_kids ht) hs
  generalize mapM' v n.kids s = R at h
  obtain ⟨ks', s'⟩ := R
  obtain ⟨g, e, p⟩ := h
  exact ⟨ks', rfl, (Forall2.length_eq p).symm, g, e, p⟩

theorem mapKids_spec (ok) (v : Node → M Node) (hv : VHyp ok v) (n : Node) (s : St)
    (h0 : ns n = 0) (ht : targetsOk n = true) (hs : StOk s) (hb : isBlockNode n = false) :
    VSpec ok n (mapKidsM mapM' v n s) s := by
  obtain ⟨ks', h1, hl, g, e, p⟩ := mapKids_spec' ok v hv n s h0 ht hs
  refine ⟨?_, ?_, ?_⟩
  · rw [h1]; exact good_withKids ok true n ks' (mentionsNs_of_ns0 h0) hb g hl
  · rw [h1, ns_withKids n ks' hl, mentionsNs_of_ns0 h0]
    simpa using e
  · rw [h1]; exact shp_withKids n ks' p

/-- the common end of the `+`, `+=` and template arms -/
theorem finishTransform (ok) (s : St) (n1 : Node) (s1 : St) (res : Option Node) (s2 : St) (tag : Option String) (root : Bool)
    (hs : StOk s) (g1 : goodW ok true n1 = true) (e1 : Eff s s1 (ns n1)) (t2 : TS s2 s1)
    (hres : ∀ e', res = some e' → goodW ok true e' = true ∧ ns e' = ns n1 + 1) :
    let s3 := (updateStatus (statusOf res) tag s2).2
    let R := (if root = true then do resetCounter; pure (res.getD n1) else pure (res.getD n1) : M Node) s3
    goodW ok true R.1 = true ∧ Eff s R.2 (ns R.1) := by
  intro s3 R
  have hR1 : R.1 = res.getD n1 := finish_fst root _ s3
  have e2 : Eff s s2 (ns n1) := by simpa using e1.trans (Eff.of_TS t2)
  have e3 : Eff s2 s3 (if res.isSome then 1 else 0) := updateStatus_statusOf res tag s2 (e2.stOk hs)
  have e4 : Eff s R.2 (ns n1 + (if res.isSome then 1 else 0)) :=
    ((e2.trans e3).trans (Eff.of_TS (finish_TS root (res.getD n1) s3))).cast (by omega)
  rw [hR1]
  cases res with
  | none => exact ⟨g1, by simpa using e4⟩
  | some e' =>
    obtain ⟨g, c⟩ := hres e' rfl
    exact ⟨g, by simpa [c] using e4⟩

end IastModel

namespace IastModel
open Node

theorem vspec_finish (ok) (n : Node) (s : St) (root : Bool) (x : Node) (s3 : St)
    (hg : goodW ok true x = true) (he : Eff s s3 (ns x)) (hshp : Shp n x) :
    VSpec ok n ((if root = true then do resetCounter; pure x else pure x : M Node) s3) s := by
  refine ⟨?_, ?_, ?_⟩
  · rw [finish_fst]; exact hg
  · rw [finish_fst]; exact (he.trans (Eff.of_TS (finish_TS root x s3))).cast (by omega)
  · rw [finish_fst]; exact hshp

theorem goodL_take_drop (ok u) (ks : List Node) (k : Nat) (h : goodL ok u ks = true) :
    goodL ok u (ks.take k) = true ∧ goodL ok u (ks.drop k) = true := by
  have := h
  rw [← List.take_append_drop k ks, goodL_append, Bool.and_eq_true] at this
  exact this

theorem nsL_take_drop (ks : List Node) (k : Nat) : nsL (ks.take k) + nsL (ks.drop k) = nsL ks := by
  conv => rhs; rw [← List.take_append_drop k ks]
  rw [nsL_append]

theorem visit_spec (ok) (cfg : Config) (hcfg : CfgOk ok cfg) : ∀ (f : Nat) (root : Bool) (n : Node) (s : St),
    ns n = 0 → targetsOk n = true → StOk s → VSpec ok n (visit cfg f root n s) s := by
  intro f
  induction f with
  | zero =>
    intro root n s h0 ht hs
    simp only [visit, run_bind, run_pure]
    exact ⟨good_of_ns0 ok true n h0 ((bad_zero_iff _).mpr ht), by rw [h0]; exact Eff.of_TS (outOfFuel_TS s), Shp.refl n⟩
  | succ f ih =>
    intro root n s h0 ht hs
    have hv : ∀ r, VHyp ok (visit cfg f r) := fun r k s h0 ht hs => ih r k s h0 ht hs
    cases n with
    | ident nm sp =>
      simp only [visit, run_bind, run_pure]
      exact ⟨good_of_ns0 ok true _ h0 ((bad_zero_iff _).mpr ht), by rw [h0]; exact Eff.of_TS (registerVariable_TS nm sp s), Shp.refl _⟩
    | block ss sp =>
      simp only [visit, run_pure]
      exact ⟨good_of_ns0 ok true _ h0 ((bad_zero_iff _).mpr ht), by rw [h0]; exact Eff.refl s, Shp.refl _⟩
    | arrow ps b at' sp =>
      simp only [visit, run_pure]
      have hn : ns ((toDdArrow (.arrow ps b at' sp)).getD (.arrow ps b at' sp)) = 0 := by
        simp only [ns_arrow] at h0
        cases b <;> simp [toDdArrow, returnStmt] <;> simp_all
      have hbn : bad ((toDdArrow (.arrow ps b at' sp)).getD (.arrow ps b at' sp)) = 0 := by
        have hb0 := (bad_zero_iff _).mpr ht
        simp only [bad_arrow] at hb0
        cases b <;> simp [toDdArrow, returnStmt] <;> simp_all
      exact ⟨good_of_ns0 ok true _ hn hbn, by rw [hn]; exact Eff.refl s, Shp.of_false rfl rfl rfl⟩
    | unary op a sp =>
      simp only [visit]
      split
      · simp only [run_pure]
        exact ⟨good_of_ns0 ok true _ h0 ((bad_zero_iff _).mpr ht), by rw [h0]; exact Eff.refl s, Shp.refl _⟩
      · exact mapKids_spec ok _ (hv root) _ s h0 ht hs rfl
    | bin op l r sp =>
      simp only [visit]
      split
      · rename_i hpe
        simp only [run_bind]
        obtain ⟨ks', h1, hl, g, e, p⟩ := mapKids_spec' ok _ (hv false) (.bin op l r sp) s h0 ht hs
        generalize mapKidsM mapM' (visit cfg f false) (.bin op l r sp) s = K at h1 e
        obtain ⟨n1, s1⟩ := K
        simp only at h1 e ⊢
        match ks', hl, g, e, p, h1 with
        | [l', r'], _, g, e, p, h1 =>
          simp only [withKids, List.getD_cons_zero, List.getD_cons_succ] at h1
          subst h1
          simp only [goodL_cons, goodL_nil, Bool.and_true, Bool.and_eq_true] at g
          have gn1 : goodW ok true (.bin op l' r' sp) = true := by simp [g.1, g.2]
          have e1 : Eff s s1 (ns (.bin op l' r' sp)) := e.cast (by simp)
          split
          · simp only [run_bind, run_pure]
            have h2 := toDdBinary_spec ok true cfg op l' r' sp s1 g.1 g.2 (hcfg.1 hpe)
            generalize toDdBinary cfg (.bin op l' r' sp) s1 = X at h2
            obtain ⟨res, s2⟩ := X
            obtain ⟨t2, hres⟩ := h2
            simp only at t2 hres ⊢
            have e2 : Eff s s2 (ns (.bin op l' r' sp)) := (e1.trans (Eff.of_TS t2)).cast (by omega)
            have e3 := updateStatus_statusOf res (some Generated.addTag) s2 (e2.stOk hs)
            apply vspec_finish
            · cases res with
              | none => exact gn1
              | some e' => exact (hres e' rfl).1
            · cases res with
              | none => exact (e2.trans e3).cast (by simp)
              | some e' => exact (e2.trans e3).cast (by simp [(hres e' rfl).2])
            · exact Shp.of_false rfl rfl rfl
          · simp only [run_bind, run_pure]
            exact vspec_finish ok _ s root _ s1 gn1 e1 (Shp.of_false rfl rfl rfl)
      · exact mapKids_spec ok _ (hv root) _ s h0 ht hs rfl
    | assign op l r sp =>
      simp only [visit]
      split
      · rename_i hpe
        simp only [run_bind]
        obtain ⟨ks', h1, hl, g, e, p⟩ := mapKids_spec' ok _ (hv false) (.assign op l r sp) s h0 ht hs
        generalize mapKidsM mapM' (visit cfg f false) (.assign op l r sp) s = K at h1 e
        obtain ⟨n1, s1⟩ := K
        simp only at h1 e ⊢
        match ks', hl, g, e, p, h1 with
        | [l', r'], _, g, e, p, h1 =>
          simp only [withKids, List.getD_cons_zero, List.getD_cons_succ] at h1
          subst h1
          simp only [goodL_cons, goodL_nil, Bool.and_true, Bool.and_eq_true] at g
          have gn1 : goodW ok true (.assign op l' r' sp) = true := by simp [g.1, g.2]
          have e1 : Eff s s1 (ns (.assign op l' r' sp)) := e.cast (by simp)
          split
          · rename_i hop
            simp only [run_bind, run_pure]
            have hts : tshape l' = true := by
              have h := targetsOk_self ht
              simp only [assignTargetOk, Bool.or_eq_true, bne_iff_ne, ne_eq] at h
              simp only [kids, Forall2] at p
              rcases h with h | h
              · exact absurd (by simpa using hop) h
              · exact p.1.1 h
            have h2 := toDdAssign_spec ok true cfg op l' r' sp s1 g.1 g.2 hts (hcfg.1 hpe)
            generalize toDdAssign cfg (.assign op l' r' sp) s1 = X at h2
            obtain ⟨res, s2⟩ := X
            obtain ⟨t2, hres⟩ := h2
            simp only at t2 hres ⊢
            have e2 : Eff s s2 (ns (.assign op l' r' sp)) := (e1.trans (Eff.of_TS t2)).cast (by omega)
            have e3 := updateStatus_statusOf res (some Generated.addAssignTag) s2 (e2.stOk hs)
            apply vspec_finish
            · cases res with
              | none => exact gn1
              | some e' => exact (hres e' rfl).1
            · cases res with
              | none => exact (e2.trans e3).cast (by simp)
              | some e' => exact (e2.trans e3).cast (by simp [(hres e' rfl).2])
            · exact Shp.of_false rfl rfl rfl
          · simp only [run_bind, run_pure]
            exact vspec_finish ok _ s root _ s1 gn1 e1 (Shp.of_false rfl rfl rfl)
      · exact mapKids_spec ok _ (hv root) _ s h0 ht hs rfl
    | tpl es qs sp =>
      simp only [visit]
      split
      · rename_i hte
        split
        · simp only [run_bind]
          obtain ⟨ks', h1, hl, g, e, p⟩ := mapKids_spec' ok _ (hv false) (.tpl es qs sp) s h0 ht hs
          generalize mapKidsM mapM' (visit cfg f false) (.tpl es qs sp) s = K at h1 e
          obtain ⟨n1, s1⟩ := K
          simp only at h1 e ⊢
          simp only [withKids] at h1
          subst h1
          obtain ⟨g1, g2⟩ := goodL_take_drop ok true ks' es.length g
          have gn1 : goodW ok true (.tpl (ks'.take es.length) (ks'.drop es.length) sp) = true := by simp [g1, g2]
          have e1 : Eff s s1 (ns (.tpl (ks'.take es.length) (ks'.drop es.length) sp)) :=
            e.cast (by simp [nsL_take_drop])
          have h2 := toDdTpl_spec ok true cfg (ks'.take es.length) (ks'.drop es.length) sp s1 g1 g2 (hcfg.2.1 hte)
          generalize toDdTpl cfg (.tpl (ks'.take es.length) (ks'.drop es.length) sp) s1 = X at h2
          obtain ⟨res, s2⟩ := X
          obtain ⟨t2, hres⟩ := h2
          simp only at t2 hres ⊢
          have e2 : Eff s s2 (ns (.tpl (ks'.take es.length) (ks'.drop es.length) sp)) := (e1.trans (Eff.of_TS t2)).cast (by omega)
          have e3 := updateStatus_statusOf res (some Generated.tplTag) s2 (e2.stOk hs)
          apply vspec_finish
          · cases res with
            | none => exact gn1
            | some e' => exact (hres e' rfl).1
          · cases res with
            | none => exact (e2.trans e3).cast (by simp)
            | some e' => exact (e2.trans e3).cast (by simp [(hres e' rfl).2])
          · exact Shp.of_false rfl rfl rfl
        · simp only [run_pure]
          exact ⟨good_of_ns0 ok true _ h0 ((bad_zero_iff _).mpr ht), by rw [h0]; exact Eff.refl s, Shp.refl _⟩
      · exact mapKids_spec ok _ (hv root) _ s h0 ht hs rfl
    | call c as sp =>
      simp only [visit, run_bind]
      obtain ⟨ks', h1, hl, g, e, p⟩ := mapKids_spec' ok _ (hv false) (.call c as sp) s h0 ht hs
      generalize mapKidsM mapM' (visit cfg f false) (.call c as sp) s = K at h1 e
      obtain ⟨n1, s1⟩ := K
      simp only at h1 e ⊢
      match ks', hl, g, e, p, h1 with
      | c' :: as', _, g, e, p, h1 =>
        simp only [withKids, List.getD_cons_zero, List.drop_succ_cons, List.drop_zero] at h1
        subst h1
        simp only [goodL_cons, Bool.and_eq_true] at g
        have gn1 : goodW ok true (.call c' as' sp) = true := by rw [good_call _ _ _ _ _ g.1]; exact g.2
        have e1 : Eff s s1 (ns (.call c' as' sp)) := e.cast (by simp)
        simp only
        split
        · simp only [run_bind, run_pure]
          exact vspec_finish ok _ s root _ s1 gn1 e1 (Shp.of_false rfl rfl rfl)
        · simp only [run_bind]
          have h2 := toDdCall_spec ok true cfg c' as' sp s1 hcfg.2.2 g.1 g.2
          generalize toDdCall cfg (.call c' as' sp) s1 = X at h2
          obtain ⟨res, s2⟩ := X
          obtain ⟨t2, hres⟩ := h2
          simp only at t2 hres ⊢
          have e2 : Eff s s2 (ns (.call c' as' sp)) := (e1.trans (Eff.of_TS t2)).cast (by omega)
          cases res with
          | none =>
            simp only [run_bind, run_pure]
            exact vspec_finish ok _ s root _ s2 gn1 e2 (Shp.of_false rfl rfl rfl)
          | some et =>
            obtain ⟨e', tag⟩ := et
            simp only [run_bind, run_pure]
            obtain ⟨ge, ce⟩ := hres e' tag rfl
            have e3 := updateStatus_modified (some tag) s2 (e2.stOk hs)
            exact vspec_finish ok _ s root _ _ ge ((e2.trans e3).cast (by simp at ce ⊢; omega)) (Shp.of_false rfl rfl rfl)
    | optChain o b sp =>
      simp only [visit, run_bind]
      have hz := toDdCond_z cfg f (.optChain o b sp) s h0
      have hb := toDdCond_b cfg f (.optChain o b sp) s ((bad_zero_iff _).mpr ht)
      have hnb := toDdCond_nb cfg f (.optChain o b sp) s rfl
      generalize toDdCond cfg f (.optChain o b sp) s = C at hz hb hnb
      obtain ⟨⟨e', res⟩, s1⟩ := C
      simp only at hz hb hnb ⊢
      have z2 : ns (res.getD e') = 0 := by
        cases res with
        | none => exact hz.1
        | some r => exact hz.2.1 r rfl
      have b2 : targetsOk (res.getD e') = true := by
        apply (bad_zero_iff _).mp
        cases res with
        | none => exact hb.1
        | some r => exact hb.2.1 r rfl
      have nb2 : isBlockNode (res.getD e') = false := by
        cases res with
        | none => exact hnb.1
        | some r => exact hnb.2 r rfl
      have e0 : Eff s s1 0 := Eff.of_TS hz.2.2
      have h3 := mapKids_spec ok _ (hv false) (res.getD e') s1 z2 b2 (e0.stOk hs) nb2
      generalize mapKidsM mapM' (visit cfg f false) (res.getD e') s1 = K at h3
      obtain ⟨e3, s3⟩ := K
      obtain ⟨g3, ef3, _⟩ := h3
      exact vspec_finish ok _ s root _ _ g3 ((e0.trans ef3).cast (by omega)) (Shp.of_false rfl rfl rfl)
    | _ =>
      simp only [visit]
      exact mapKids_spec ok _ (hv root) _ s h0 ht hs rfl

end IastModel

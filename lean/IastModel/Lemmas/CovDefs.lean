import IastModel.Lemmas.CwMaster
import IastModel.Spec.Coverage
import IastModel.Spec.EraseSpec
namespace IastModel
open Node

/-- (name, span) of a hook call, as the coverage oracle reads it -/
def hookSiteOf (h : Node) : Option (String × Span) :=
  match h with
  | .call (.member _ (.pname name _) _) _ sp => some (name, sp)
  | _ => none

/-- the hook call with replacement name `d` for the operation at `sp0` -/
def qAt (d : String) (sp0 : Span) (h : Node) : Bool := decide (hookSiteOf h = some (d, sp0))

theorem qAt_ddCall (d : String) (sp0 : Span) (e : Node) (args : List Node) (m : String) (sp : Span) :
    qAt d sp0 (ddCall e args m sp) = (decide (m = d) && decide (sp = sp0)) := by
  simp [qAt, hookSiteOf, ddCall, ddCallee]

/-- receiver kinds for which the theorem claims `recv.m(..)` (the specification's `receiverCovered`, with
    the property of a member receiver a plain name or a computed key) -/
def recvOK (cfg : Config) (m : String) : Node → Bool
  | .ident .. => true
  | .call .. => true
  | .paren .. => true
  | .array .. => true
  | .member _ (.pname p _) _ => p != Generated.prototypeName
  | .member _ (.other ..) _ => true
  | .lit .. => cfg.allowsLiteralCallers m
  | _ => false

def isOtherNode : Node → Bool
  | .other .. => true
  | _ => false

/-- the `+` / `+=` / template occurrence (if any) this node is, as a 0/1 count for the site `(d, sp0)`
    (`reqOwn_of_ownOcc` relates it to the specification's `ownOcc`) -/
def reqOwn (cfg : Config) (d : String) (sp0 : Span) (n : Node) : Nat :=
  match n with
  | .bin op l r sp =>
    if op == "+" && cfg.plusEnabled && !(isLiteralSum l && isLiteralSum r) && decide (cfg.plusName = d) && decide (sp = sp0) then 1 else 0
  | .tpl exprs _ sp =>
    if cfg.tplEnabled && !exprs.isEmpty && exprs.all (fun e => !e.isLit) && decide (cfg.tplName = d) && decide (sp = sp0) then 1 else 0
  | .assign op left _ sp =>
    if op == "+=" && cfg.plusEnabled && !isOtherNode left && decide (cfg.plusName = d) && decide (sp = sp0) then 1 else 0
  | .call (.member recv (.pname m _) _) _ sp =>
    match cfg.get m with
    | some csi => if !isCallOrApply m && recvOK cfg m recv && decide (csi.dst = d) && decide (sp = sp0) then 1 else 0
    | none => 0
  | _ => 0

/-- the children the operation visitor visits (the specification's exclusions: operands of `delete`,
    templates with a literal substitution; blocks and arrow functions belong to the block visitor;
    an optional chain that is lowered — `noOpt`: one that reaches a configured method — is not claimed
    here, every other optional chain is walked through like any expression) -/
def visitedKids (cfg : Config) (n : Node) : List Node :=
  match n with
  | .block .. => []
  | .arrow .. => []
  | .optChain o b sp => if noOpt cfg (.optChain o b sp) then [b] else []
  | .ident .. => []
  | .unary op a _ => if isDelete op then [] else [a]
  | .tpl exprs qs _ =>
    if cfg.tplEnabled && !(!exprs.isEmpty && exprs.all (fun e => !e.isLit)) then [] else exprs ++ qs
  | _ => n.kids

theorem visitedKids_sub (cfg : Config) (n k : Node) (h : k ∈ visitedKids cfg n) : k ∈ n.kids := by
  unfold visitedKids at h
  split at h
  · cases h
  · cases h
  · split at h
    · simpa [kids] using h
    · cases h
  · cases h
  · split at h
    · cases h
    · simpa [kids] using h
  · split at h
    · cases h
    · simpa [kids] using h
  · exact h

/-- required `+` / template occurrences for the site `(d, sp0)` in the positions the operation visitor
    reaches from `n` -/
def R (cfg : Config) (d : String) (sp0 : Span) (n : Node) : Nat :=
  reqOwn cfg d sp0 n + ((visitedKids cfg n).attach.map fun x => R cfg d sp0 x.1).sum
termination_by sizeOf n
decreasing_by exact Node.sizeOf_lt_of_mem_kids (visitedKids_sub cfg n x.1 x.2)

def RL (cfg : Config) (d : String) (sp0 : Span) (l : List Node) : Nat := (l.map (R cfg d sp0)).sum

theorem R_eq (cfg : Config) (d : String) (sp0 : Span) (n : Node) :
    R cfg d sp0 n = reqOwn cfg d sp0 n + RL cfg d sp0 (visitedKids cfg n) := by
  rw [R, Node.attach_map_eq]; rfl

@[simp] theorem RL_nil (cfg d sp0) : RL cfg d sp0 [] = 0 := rfl
@[simp] theorem RL_cons (cfg d sp0) (x : Node) (xs : List Node) : RL cfg d sp0 (x :: xs) = R cfg d sp0 x + RL cfg d sp0 xs := by simp [RL]
@[simp] theorem RL_append (cfg d sp0) (xs ys : List Node) : RL cfg d sp0 (xs ++ ys) = RL cfg d sp0 xs + RL cfg d sp0 ys := by simp [RL, List.sum_append]

theorem litSum_eq : ∀ e : Node, litSum e = isLiteralSum e := by
  apply Node.ind
  intro e ih
  cases e with
  | bin op l r sp =>
    by_cases hop : op = "+"
    · subst hop
      simp only [litSum, isLiteralSum, beq_self_eq_true, Bool.true_and]
      rw [ih l (by simp [kids]), ih r (by simp [kids])]
    · have : (op == "+") = false := by simpa using hop
      simp only [isLiteralSum, this, Bool.false_and]
      unfold litSum
      split
      · rename_i h; cases h
      · rename_i h; cases h; exact absurd rfl hop
      · rfl
  | lit k v r sp => simp [litSum, isLiteralSum]
  | _ => simp [litSum, isLiteralSum]

theorem replaceDefault_mustReplace (e : Node) (asg args : List Node) (sp : Span) (kind : IdentKind) (s : St)
    (h : isLiteralSum e = false) :
    mustReplaceBinary (replaceDefault e asg args sp kind s).1.2.2 = true := by
  unfold replaceDefault getIdentUsed getTemporalIdent
  have hl : e.isLit = false := by
    cases e <;> simp_all [isLiteralSum, Node.isLit]
  simp [hl, run_bind, run_pure, run_map, mustReplaceBinary, exprOrSpread, tempIdent]
  right
  cases kind <;> simp [argExpr, isLiteralSum]

/-- what the operand handler pushes for an operand that is neither a sum of literals nor an
    un-instrumented `+` chain makes the `+` transform go ahead -/
theorem rne_mustReplace (e : Node) (mode : IdentMode) (asg args : List Node) (sp : Span) (k : IdentKind) (s : St)
    (h1 : isLiteralSum e = false) (h2 : nlSum e = false) :
    mustReplaceBinary (replaceExprNoExpand e mode asg args sp k s).1.2.2 = true := by
  cases e with
  | lit kk v r lsp => simp [isLiteralSum] at h1
  | ident nm isp =>
    cases mode with
    | replace => simp only [replaceExprNoExpand]; exact replaceDefault_mustReplace _ _ _ _ _ _ h1
    | keep =>
      simp only [replaceExprNoExpand, run_pure, mustReplaceBinary, List.any_append, List.any_cons, List.any_nil, Bool.or_false]
      cases k <;> simp [exprOrSpread, argExpr, isLiteralSum]
  | bin op l r bsp =>
    simp only [replaceExprNoExpand]
    by_cases hop : (op != "+") = true
    · simp only [hop, if_true]; exact replaceDefault_mustReplace _ _ _ _ _ _ h1
    · have hop' : op = "+" := by simpa using hop
      subst hop'
      simp [nlSum, isPlusSum, h1] at h2
  | _ => simp only [replaceExprNoExpand]; exact replaceDefault_mustReplace _ _ _ _ _ _ h1

theorem mustReplace_mono' (args extra : List Node) (h : mustReplaceBinary args = true) : mustReplaceBinary (args ++ extra) = true := by
  simp [mustReplaceBinary] at h ⊢
  obtain ⟨a, ha, hna⟩ := h
  exact Or.inl ⟨a, ha, hna⟩

/-- the `+` transform declines only a sum of literals (when no operand is an un-instrumented `+` chain) -/
theorem toDdBinary_none (cfg : Config) (l r : Node) (sp : Span) (s : St)
    (hn : (toDdBinary cfg (.bin "+" l r sp) s).1 = none) (hl : nlSum l = false) (hr : nlSum r = false) :
    isLiteralSum l = true ∧ isLiteralSum r = true := by
  simp only [toDdBinary, run_bind, replaceExpr_false] at hn
  have a1 := fun h => rne_mustReplace l (getIdentMode r) [] [] sp .expr s h hl
  generalize replaceExprNoExpand l (getIdentMode r) [] [] sp .expr s = R1 at hn a1
  obtain ⟨⟨l', asg1, args1⟩, s1⟩ := R1
  simp only at hn a1
  have a2 := fun h => rne_mustReplace r (getIdentMode l') asg1 args1 sp .expr s1 h hr
  have p2 := (replaceExprNoExpand_push r (getIdentMode l') asg1 args1 sp .expr s1).1
  generalize replaceExprNoExpand r (getIdentMode l') asg1 args1 sp .expr s1 = R2 at hn a2 p2
  obtain ⟨⟨r', asg2, args2⟩, s2⟩ := R2
  simp only at hn a2 p2
  split at hn
  · simp [run_pure] at hn
  · rename_i hm
    constructor
    · cases h : isLiteralSum l
      · exfalso
        have := a1 h
        rw [p2] at hm
        exact hm (mustReplace_mono' args1 _ this)
      · rfl
    · cases h : isLiteralSum r
      · exfalso; exact hm (a2 h)
      · rfl

/-- the specification's `+` occurrence is counted -/
theorem reqOwn_spec_bin (cfg : Config) (op : String) (l r : Node) (sp : Span) (o : Occ)
    (h : ownOcc cfg (.bin op l r sp) = some o) : reqOwn cfg o.dst o.sp (.bin op l r sp) = 1 := by
  by_cases hop : op = "+"
  · subst hop
    simp only [ownOcc] at h
    split at h
    · rename_i hc
      simp only [Option.some.injEq] at h
      subst h
      simp only [litSum_eq, Bool.and_eq_true, Bool.not_eq_true'] at hc
      simp [reqOwn, hc.1, hc.2]
    · cases h
  · exfalso
    unfold ownOcc at h
    split at h <;> first | (rename_i heq; cases heq; exact hop rfl) | (rename_i heq; cases heq) | cases h

/-- the specification's `+=` occurrence is counted -/
theorem reqOwn_spec_assign (cfg : Config) (op : String) (l r : Node) (sp : Span) (o : Occ)
    (h : ownOcc cfg (.assign op l r sp) = some o) : reqOwn cfg o.dst o.sp (.assign op l r sp) = 1 := by
  by_cases hop : op = "+="
  · subst hop
    cases l <;> simp [ownOcc] at h <;>
      (obtain ⟨hpe, rfl⟩ := h; simp [reqOwn, isOtherNode, hpe])
  · exfalso
    unfold ownOcc at h
    split at h <;> first | (rename_i heq; cases heq; exact hop rfl) | (rename_i heq; cases heq) | cases h

/-- the specification's plain method-call occurrence is counted (receiver of a claimed kind, method not
    named `call` / `apply`) -/
theorem reqOwn_spec_call (cfg : Config) (recv : Node) (m : String) (msp cmsp : Span) (cargs : List Node) (sp : Span) (csi : CsiMethod)
    (hg : cfg.get m = some csi) (hca : isCallOrApply m = false) (hr : recvOK cfg m recv = true) :
    ownOcc cfg (.call (.member recv (.pname m msp) cmsp) cargs sp) = some ⟨csi.dst, sp, "call"⟩ ∧
    reqOwn cfg csi.dst sp (.call (.member recv (.pname m msp) cmsp) cargs sp) = 1 := by
  have hrc : receiverCovered cfg m recv = true := by
    cases recv with
    | member o p s0 => cases p <;> simp_all [recvOK, receiverCovered]
    | _ => simp_all [recvOK, receiverCovered]
  constructor
  · simp [ownOcc, hg, hrc]
  · simp [reqOwn, hg, hca, hr]

/-- the specification's template occurrence is counted -/
theorem reqOwn_spec_tpl (cfg : Config) (exprs qs : List Node) (sp : Span) (o : Occ)
    (h : ownOcc cfg (.tpl exprs qs sp) = some o) : reqOwn cfg o.dst o.sp (.tpl exprs qs sp) = 1 := by
  simp only [ownOcc] at h
  split at h
  · rename_i hc
    simp only [Option.some.injEq] at h
    subst h
    simp only [Bool.and_eq_true] at hc
    simp [reqOwn, hc.1.1, hc.1.2, hc.2]
  · cases h

end IastModel

import IastModel.Spec.EraseSpec
namespace IastModel
open Node

theorem span_eq_of_beq {a b : Span} (h : (a == b) = true) : a = b := by
  cases a; cases b
  have : (_ == _ && _ == _) = true := h
  simp only [Bool.and_eq_true, beq_iff_eq] at this
  simp [this.1, this.2]

/-- equal trees carry the same position -/
theorem beq_span : ∀ (a b : Node), Node.beq a b = true → a.span = b.span := by
  intro a
  induction a using Node.rec (motive_2 := fun _ => True) with
  | nil => trivial
  | cons => trivial
  | arg s e ih =>
    intro b h
    cases b <;> simp only [Node.beq, Bool.and_eq_true, Bool.false_eq_true] at h
    rename_i s' e'
    exact ih e' h.2
  | atom | arr | obj => intro b h; cases b <;> first | rfl | simp [Node.beq] at h
  | _ =>
    intro b h
    cases b <;> simp only [Node.beq, Bool.and_eq_true, Bool.false_eq_true] at h <;>
      first
      | exact span_eq_of_beq h.2
      | exact span_eq_of_beq h.1.2
      | exact span_eq_of_beq h.1.1.2

end IastModel

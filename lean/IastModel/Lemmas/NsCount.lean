import IastModel.Lemmas.Shapes
import IastModel.Lemmas.Monad
import IastModel.Lemmas.Tree
import IastModel.Spec.Hooks
namespace IastModel
open Node

/-- number of references to the hook namespace identifier in a tree -/
def ns (n : Node) : Nat := Node.count mentionsNs n
def nsL (l : List Node) : Nat := (l.map ns).sum

theorem ns_eq (n : Node) : ns n = (if mentionsNs n then 1 else 0) + nsL n.kids := by
  unfold nsL
  show Node.count mentionsNs n = _
  rw [Node.count_eq]
  rfl

@[simp] theorem nsL_nil : nsL [] = 0 := rfl
@[simp] theorem nsL_cons (x : Node) (xs : List Node) : nsL (x :: xs) = ns x + nsL xs := by simp [nsL]
@[simp] theorem nsL_append (xs ys : List Node) : nsL (xs ++ ys) = nsL xs + nsL ys := by
  simp [nsL, List.sum_append]

theorem mentionsNs_withKids (n : Node) (ks : List Node) : mentionsNs (n.withKids ks) = mentionsNs n := by
  cases n <;> rfl

theorem ns_withKids (n : Node) (ks : List Node) (h : ks.length = n.kids.length) :
    ns (n.withKids ks) = (if mentionsNs n then 1 else 0) + nsL ks := by
  rw [ns_eq, mentionsNs_withKids, Node.kids_withKids n ks h]

-- constructor forms
@[simp] theorem ns_lit (k v r : String) (sp : Span) : ns (.lit k v r sp) = 0 := by rw [ns_eq]; simp [mentionsNs, kids]
@[simp] theorem ns_pname (n : String) (sp : Span) : ns (.pname n sp) = 0 := by rw [ns_eq]; simp [mentionsNs, kids]
@[simp] theorem ns_temp (n : Nat) (sp : Span) : ns (.ident (.temp n) sp) = 0 := by rw [ns_eq]; simp [mentionsNs, kids]
@[simp] theorem ns_atom (s : String) : ns (.atom s) = 0 := by rw [ns_eq]; simp [mentionsNs, kids]
theorem ns_user (x : String) (sp : Span) : ns (.ident (.user x) sp) = if x == Generated.ddGlobalNamespace then 1 else 0 := by
  rw [ns_eq]; simp [mentionsNs, kids]
@[simp] theorem ns_bin (op : String) (l r : Node) (sp : Span) : ns (.bin op l r sp) = ns l + ns r := by rw [ns_eq]; simp [mentionsNs, kids]
@[simp] theorem ns_assign (op : String) (l r : Node) (sp : Span) : ns (.assign op l r sp) = ns l + ns r := by rw [ns_eq]; simp [mentionsNs, kids]
@[simp] theorem ns_member (o p : Node) (sp : Span) : ns (.member o p sp) = ns o + ns p := by rw [ns_eq]; simp [mentionsNs, kids]
@[simp] theorem ns_call (c : Node) (as : List Node) (sp : Span) : ns (.call c as sp) = ns c + nsL as := by rw [ns_eq]; simp [mentionsNs, kids]
@[simp] theorem ns_arg (s : Option Span) (e : Node) : ns (.arg s e) = ns e := by rw [ns_eq]; simp [mentionsNs, kids]
@[simp] theorem ns_paren (e : Node) (sp : Span) : ns (.paren e sp) = ns e := by rw [ns_eq]; simp [mentionsNs, kids]
@[simp] theorem ns_seq (es : List Node) (sp : Span) : ns (.seq es sp) = nsL es := by rw [ns_eq]; simp [mentionsNs, kids]
@[simp] theorem ns_array (es : List Node) (sp : Span) : ns (.array es sp) = nsL es := by rw [ns_eq]; simp [mentionsNs, kids]
@[simp] theorem ns_tpl (es qs : List Node) (sp : Span) : ns (.tpl es qs sp) = nsL es + nsL qs := by rw [ns_eq]; simp [mentionsNs, kids]
@[simp] theorem ns_cond (t c a : Node) (sp : Span) : ns (.cond t c a sp) = ns t + ns c + ns a := by rw [ns_eq]; simp [mentionsNs, kids]; omega
@[simp] theorem ns_unary (op : String) (a : Node) (sp : Span) : ns (.unary op a sp) = ns a := by rw [ns_eq]; simp [mentionsNs, kids]
@[simp] theorem ns_other (k : String) (sp : Span) (ns' : List String) (vs : List Node) : ns (.other k sp ns' vs) = nsL vs := by rw [ns_eq]; simp [mentionsNs, kids]
@[simp] theorem ns_block (ss : List Node) (sp : Span) : ns (.block ss sp) = nsL ss := by rw [ns_eq]; simp [mentionsNs, kids]
@[simp] theorem ns_arrow (ps : List Node) (b : Node) (a : String) (sp : Span) : ns (.arrow ps b a sp) = nsL ps + ns b := by rw [ns_eq]; simp [mentionsNs, kids]
@[simp] theorem ns_optChain (o : Bool) (b : Node) (sp : Span) : ns (.optChain o b sp) = ns b := by rw [ns_eq]; simp [mentionsNs, kids]
@[simp] theorem ns_optCall (c : Node) (as : List Node) (sp : Span) : ns (.optCall c as sp) = ns c + nsL as := by rw [ns_eq]; simp [mentionsNs, kids]

/-- the namespace identifier itself -/
@[simp] theorem ns_nsIdent (sp : Span) : ns (.ident (.user Generated.ddGlobalNamespace) sp) = 1 := by
  rw [ns_user]; simp

theorem ns_ddCall (e : Node) (args : List Node) (m : String) (sp : Span) :
    ns (ddCall e args m sp) = 1 + ns e + nsL args := by
  simp [ddCall, ddCallee]; omega

theorem ns_ddParen (e : Node) (args asg : List Node) (m : String) (sp : Span) :
    ns (ddParen e args asg m sp) = 1 + ns e + nsL args + nsL asg := by
  unfold ddParen
  split
  · rename_i h; have : asg = [] := by simpa using h
    subst this; simp [ns_ddCall]
  · simp [ns_ddCall]; omega

/-- telemetry and status untouched; the out-of-fuel flag is never cleared -/
def TS (s' s : St) : Prop := s'.incs = s.incs ∧ s'.status = s.status ∧ (s.fuelOut = true → s'.fuelOut = true)

theorem TS.refl (s : St) : TS s s := ⟨rfl, rfl, id⟩
theorem TS.trans {a b c : St} (h1 : TS a b) (h2 : TS b c) : TS a c :=
  ⟨h1.1.trans h2.1, h1.2.1.trans h2.2.1, fun h => h1.2.2 (h2.2.2 h)⟩

theorem isLiteralSum_ns : ∀ e : Node, isLiteralSum e = true → ns e = 0 := by
  intro e
  induction e using Node.rec (motive_2 := fun _ => True) with
  | lit => intro _; simp
  | bin op l r sp ihl ihr =>
    intro h
    simp [isLiteralSum] at h
    simp [ihl h.1.2, ihr h.2]
  | nil => trivial
  | cons => trivial
  | _ => intro h; simp [isLiteralSum] at h

theorem ns_assignRight (e : Node) (k : IdentKind) : ns (assignRight e k) = ns e := by
  cases k <;> simp [assignRight]

theorem ns_exprOrSpread (e : Node) (k : IdentKind) : ns (exprOrSpread e k) = ns e := by
  cases k <;> simp [exprOrSpread]

theorem registerIdent_TS (n : Nat) (s : St) : TS (registerIdent n s).2 s := by
  simp only [registerIdent, run_modify]
  by_cases h : s.idents.contains n = true
  · rw [if_pos h]; exact TS.refl s
  · rw [if_neg h]; exact ⟨rfl, rfl, id⟩

theorem nextIdent_TS (s : St) : TS (nextIdent s).2 s := ⟨rfl, rfl, id⟩

theorem getTemporalIdent_ns (operand : Node) (asg : List Node) (sp : Span) (k : IdentKind) (s : St) :
    let r := getTemporalIdent operand asg sp k s
    nsL r.1.2 = nsL asg + (if r.1.1.isSome then ns operand else 0) ∧ TS r.2 s ∧
    (r.1.1.isNone → operand.isLit = true) := by
  unfold getTemporalIdent
  by_cases hl : operand.isLit = true
  · simp [hl, run_pure, TS.refl]
  · simp only [hl, Bool.false_eq_true, if_false, run_bind, run_pure]
    refine ⟨by simp [ns_assignRight, tempIdent], ?_, by simp⟩
    exact TS.trans (registerIdent_TS _ _) (nextIdent_TS s)

/-- conservation for the operand handler: what leaves the operand position arrives in the assignments,
    and the argument list only receives copies that do not mention the namespace -/
def OpCons (e : Node) (asg args : List Node) (r : (Node × List Node × List Node) × St) (s : St) : Prop :=
  ns r.1.1 + nsL r.1.2.1 = ns e + nsL asg ∧ nsL r.1.2.2 = nsL args ∧ TS r.2 s

theorem isLit_ns {e : Node} (h : e.isLit = true) : ns e = 0 := by
  cases e <;> simp_all [Node.isLit]

theorem replaceDefault_ns (e : Node) (asg args : List Node) (sp : Span) (k : IdentKind) (s : St) :
    OpCons e asg args (replaceDefault e asg args sp k s) s := by
  unfold replaceDefault getIdentUsed
  simp only [run_bind, run_pure]
  have h := getTemporalIdent_ns e asg sp k s
  generalize getTemporalIdent e asg sp k s = X at h
  obtain ⟨⟨id, asg'⟩, s'⟩ := X
  simp only at h
  obtain ⟨h1, h2, h3⟩ := h
  cases id with
  | none =>
    have hl := isLit_ns (h3 rfl)
    simp at h1
    simp [OpCons, h1, hl, h2, ns_exprOrSpread]
  | some n =>
    simp at h1
    simp [OpCons, h1, h2, tempIdent, ns_exprOrSpread]
    omega

theorem replaceExprNoExpand_ns (e : Node) (mode : IdentMode) (asg args : List Node) (sp : Span) (k : IdentKind)
    (s : St) (hid : e.isIdent = true → ns e = 0) :
    OpCons e asg args (replaceExprNoExpand e mode asg args sp k s) s := by
  cases e with
  | lit kk v r lsp => simp [replaceExprNoExpand, run_pure, OpCons, ns_exprOrSpread, TS.refl]
  | ident nm isp =>
    have h0 := hid rfl
    cases mode with
    | replace => simp only [replaceExprNoExpand]; exact replaceDefault_ns ..
    | keep => simp [replaceExprNoExpand, run_pure, OpCons, ns_exprOrSpread, h0, TS.refl]
  | bin op l r bsp =>
    simp only [replaceExprNoExpand]
    by_cases hop : (op != "+") = true
    · simp only [hop, if_true]; exact replaceDefault_ns ..
    · simp only [hop, Bool.false_eq_true, if_false]
      by_cases hls : isLiteralSum (.bin op l r bsp) = true
      · have := isLiteralSum_ns _ hls
        simp only [hls, if_true, run_pure, OpCons, nsL_append, nsL_cons, nsL_nil, ns_exprOrSpread, this, TS.refl]
        simp
      · simp [hls, run_pure, OpCons, TS.refl]
  | _ => simp only [replaceExprNoExpand]; exact replaceDefault_ns ..


end IastModel

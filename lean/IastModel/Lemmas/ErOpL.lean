import IastModel.Lemmas.ErOp
namespace IastModel
open Node

/-- what the operand handler guarantees for a list of operands handled left to right -/
def OpErL (cx : Cx) (lo hi : Nat) (es : List Node) (asg args : List Node)
    (R : (List Node × List Node × List Node) × St) (s : St) : Prop :=
  ∃ new more, R.1.2.1 = asg ++ new ∧ R.1.2.2 = args ++ more ∧ AllTA new ∧ InertL more ∧ noBlkL more = true ∧
    s.counter ≤ R.2.counter ∧
    (∀ new'', BRgL new new'' → ∀ σ, cx.ext σ → ∃ Δ, eraseAsg σ new'' = Δ ++ σ ∧ WinU lo hi s.counter R.2.counter Δ) ∧
    (∀ new'' xs'', BRgL new new'' → BRgL R.1.1 xs'' → ∀ σ Δ2, cx.ext σ → Avoid s.counter R.2.counter Δ2 → AvoidP cx.bad Δ2 →
      ∃ Xs Δ3, eraseL (Δ2 ++ eraseAsg σ new'') xs'' = (Xs, Δ3 ++ (Δ2 ++ eraseAsg σ new'')) ∧ SimL Xs es ∧ Win lo hi Δ3)

theorem opErL_nil (cx : Cx) (lo hi : Nat) (asg args : List Node) (s : St) :
    OpErL cx lo hi [] asg args (([], asg, args), s) s := by
  refine ⟨[], [], by simp, by simp, AllTA.nil, InertL.nil, rfl, Nat.le_refl _, ?_, ?_⟩
  · intro new'' hn σ _
    rw [BRgL.nil_inv hn]
    exact ⟨[], rfl, WinU.nil _ _ _ _⟩
  · intro new'' xs'' hn hx σ Δ2 _ _ _
    rw [BRgL.nil_inv hn, BRgL.nil_inv hx]
    exact ⟨[], [], by simp [eraseL, eraseAsg], rfl, Win.nil _ _⟩

theorem opErL_cons {cx : Cx} {lo hi : Nat} {e x : Node} {es xs asg args asg1 args1 asg2 args2 : List Node} {s s1 s2 : St}
    (hw : HypW cx hi s)
    (h1 : OpEr cx lo hi e asg args ((x, asg1, args1), s1) s)
    (h2 : OpErL cx lo hi es asg1 args1 ((xs, asg2, args2), s2) s1) :
    OpErL cx lo hi (e :: es) asg args ((x :: xs, asg2, args2), s2) s := by
  obtain ⟨new1, more1, ea1, eg1, ta1, in1, nb1, c1, A1, B1⟩ := h1
  obtain ⟨new2, more2, ea2, eg2, ta2, in2, nb2, c2, A2, B2⟩ := h2
  dsimp only at ea1 eg1 c1 A1 B1 ea2 eg2 c2 A2 B2
  have hw1 : HypW cx hi s1 := hw.mono c1
  refine ⟨new1 ++ new2, more1 ++ more2, by dsimp only; rw [ea2, ea1, List.append_assoc],
    by dsimp only; rw [eg2, eg1, List.append_assoc], ta1.append ta2, in1.append in2, by simp [nb1, nb2],
    by dsimp only; omega, ?_, ?_⟩
  · intro new'' hn σ hσ
    obtain ⟨n1, n2, rfl, hn1, hn2⟩ := BRgL.append_inv hn
    dsimp only
    obtain ⟨Δ1, e1, w1⟩ := A1 n1 hn1 σ hσ
    have hσ1 : cx.ext (eraseAsg σ n1) := by rw [e1]; exact Cx.ext_append hσ (w1.avoidCx hw)
    obtain ⟨Δ2', e2, w2⟩ := A2 n2 hn2 _ hσ1
    refine ⟨Δ2' ++ Δ1, by rw [eraseAsg_append, e2, e1, List.append_assoc], ?_⟩
    exact (w2.mono c1 (Nat.le_refl _)).append (w1.mono (Nat.le_refl _) c2)
  · intro new'' xs'' hn hx σ Δ2 hσ hav hac
    obtain ⟨n1, n2, rfl, hn1, hn2⟩ := BRgL.append_inv hn
    obtain ⟨x'', xs2, rfl, hx1, hx2⟩ := BRgL.cons_inv hx
    dsimp only at hav ⊢
    obtain ⟨Δ1, e1, w1⟩ := A1 n1 hn1 σ hσ
    have hσ1 : cx.ext (eraseAsg σ n1) := by rw [e1]; exact Cx.ext_append hσ (w1.avoidCx hw)
    obtain ⟨Δ2', e2, w2⟩ := A2 n2 hn2 _ hσ1
    -- the head, under the later bindings
    have hA : Avoid s.counter s1.counter (Δ2 ++ Δ2') := by
      intro p hp
      rcases List.mem_append.mp hp with hp | hp
      · have := hav p hp; omega
      · have := w2 p hp; have := hw.h3; omega
    have hC : AvoidP cx.bad (Δ2 ++ Δ2') := hac.append (w2.avoidCx hw1)
    obtain ⟨X, Δ3, eX, sX, wX⟩ := B1 n1 x'' hn1 hx1 σ (Δ2 ++ Δ2') hσ hA hC
    -- the tail, under what the head bound
    have hA2 : Avoid s1.counter s2.counter (Δ3 ++ Δ2) := by
      intro p hp
      rcases List.mem_append.mp hp with hp | hp
      · have := wX p hp; have := hw.h3; omega
      · have := hav p hp; omega
    have hC2 : AvoidP cx.bad (Δ3 ++ Δ2) := (wX.avoidP hw.h1).append hac
    obtain ⟨Xs, Δ3', eXs, sXs, wXs⟩ := B2 n2 xs2 hn2 hx2 _ (Δ3 ++ Δ2) hσ1 hA2 hC2
    have envEq : Δ2 ++ eraseAsg σ (n1 ++ n2) = (Δ2 ++ Δ2') ++ eraseAsg σ n1 := by
      rw [eraseAsg_append, e2, List.append_assoc]
    refine ⟨X :: Xs, Δ3' ++ Δ3, ?_, ?_, wXs.append wX⟩
    · rw [envEq]
      simp only [eraseL]
      rw [eX]
      simp only
      have : Δ3 ++ (Δ2 ++ Δ2' ++ eraseAsg σ n1) = Δ3 ++ Δ2 ++ eraseAsg (eraseAsg σ n1) n2 := by
        rw [e2]; simp [List.append_assoc]
      rw [this, eXs]
      simp [List.append_assoc, e2]
    · simp only [SimL, stripL]
      rw [sX.1]
      have : stripL Xs = stripL es := sXs
      rw [this]

/-- wrapping the operand back into its argument node -/
theorem opEr_arg_wrap {cx : Cx} {lo hi : Nat} {e x : Node} {asg args asg1 args1 : List Node} {s s1 : St}
    (spread s2 : Option Span) (hs : s2.isSome = spread.isSome)
    (h : OpEr cx lo hi e asg args ((x, asg1, args1), s1) s) :
    OpEr cx lo hi (.arg s2 e) asg args ((.arg spread x, asg1, args1), s1) s := by
  obtain ⟨new1, more1, ea1, eg1, ta1, in1, nb1, c1, A1, B1⟩ := h
  refine ⟨new1, more1, ea1, eg1, ta1, in1, nb1, c1, A1, ?_⟩
  intro new'' x'' hn hx σ Δ2 hσ hav hac
  dsimp only at hx
  obtain ⟨x2, rfl, hx2⟩ := hx.arg_inv
  obtain ⟨X, Δ3, eX, sX, wX⟩ := B1 new'' x2 hn hx2 σ Δ2 hσ hav hac
  refine ⟨.arg spread X, Δ3, by simp only [erase, eX], ?_, wX⟩
  refine ⟨?_, ?_, ?_⟩
  · simp only [strip, sX.1]
    cases spread <;> cases s2 <;> simp_all
  · have := sX.2.1
    simpa [spanRel, Node.span, isOptN] using this
  · simpa [noSp] using sX.2.2

theorem Er_arg_inv {cx : Cx} {lo hi : Nat} {s : Option Span} {e' a : Node} (h : Er cx lo hi (.arg s e') a) :
    ∃ s2 e, a = .arg s2 e ∧ s2.isSome = s.isSome ∧ Er cx lo hi e' e := by
  obtain ⟨X, Δ, eX, sX, _⟩ := h _ (BRg.refl _) cx.base cx.ext_base
  simp only [erase] at eX
  have hX : X = .arg s (erase cx.base e').1 := by
    have := congrArg Prod.fst eX; simpa using this.symm
  have hs := sX.1
  rw [hX] at hs
  cases a with
  | arg s2 e =>
    simp only [strip, arg.injEq] at hs
    refine ⟨s2, e, rfl, by cases s <;> cases s2 <;> simp_all, ?_⟩
    intro e'' hb σ hσ
    obtain ⟨Y, Δ', eY, sY, wY⟩ := h _ (BRg.arg_mk s hb) σ hσ
    simp only [erase] at eY
    refine ⟨(erase σ e'').1, Δ', ?_, ?_, wY⟩
    · have := congrArg Prod.snd eY
      simp only at this
      exact Prod.ext rfl this
    · have hY : Y = .arg s (erase σ e'').1 := by
        have := congrArg Prod.fst eY; simpa using this.symm
      rw [hY] at sY
      refine ⟨?_, ?_, ?_⟩
      · have := sY.1; simp only [strip, arg.injEq] at this; exact this.2
      · have := sY.2.1; simpa [spanRel, Node.span, isOptN] using this
      · have := sY.2.2; simpa [noSp] using this
  | _ => simp [strip] at hs

theorem replaceArgNoExpand_Er (cx : Cx) (lo hi : Nat) (a' a : Node) (mode : IdentMode) (asg args : List Node) (sp : Span)
    (s : St) (hw : HypW cx hi s) (hE : Er cx lo hi a' a) :
    OpEr cx lo hi a asg args (replaceArgNoExpand a' mode asg args sp s) s := by
  cases a' with
  | arg spread e' =>
    obtain ⟨s2, e, rfl, hs, hE'⟩ := Er_arg_inv hE
    simp only [replaceArgNoExpand, run_bind, run_pure]
    have := replaceExprNoExpand_Er cx lo hi e' e mode asg args sp (if spread.isSome then IdentKind.spread else IdentKind.expr) s hw hE'
    generalize replaceExprNoExpand e' mode asg args sp (if spread.isSome then IdentKind.spread else IdentKind.expr) s = R at this
    obtain ⟨⟨x, asg1, args1⟩, s1⟩ := R
    exact opEr_arg_wrap spread s2 hs this
  | _ =>
    simp only [replaceArgNoExpand, run_pure]
    have := opEr_inplace cx lo hi _ a asg args [] s hE InertL.nil rfl
    simpa using this

end IastModel

import IastModel.Lemmas.ErCall5
namespace IastModel
open Node

theorem none_Er {α : Type} (cx : Cx) (lo : Nat) (s : St) (src : Node) :
    s.counter ≤ ((none : Option (Node × α)), s).2.counter ∧
    ∀ e1 tag, ((none : Option (Node × α)), s).1 = some (e1, tag) → Er cx lo ((none : Option (Node × α)), s).2.counter e1 src :=
  ⟨Nat.le_refl _, by intro e1 tag he; cases he⟩

/-- the `X.prototype.m.call|apply` dispatcher -/
theorem replacePrototype_Er (cfg : Config) (cx : Cx) (lo hi : Nat) (cargs' cargs : List Node) (csp : Span) (callee' : Node)
    (o' p' : Node) (sp' : Span) (o p : Node) (m : String) (p2 : Node) (cs2 : Span) (s : St)
    (hw : HypW cx hi s) (hlo : lo ≤ s.counter)
    (hp2 : strip p2 = .pname m Span.dummy)
    (hm : Er cx lo hi (.member o' p' sp') (.member o p sp'))
    (hD : Deep lo hi (.member o' p' sp') (.member o p sp'))
    (hso : srcOk o = true)
    (ha : Forall2 (fun a' a => Er cx lo hi a' a ∧ DeepEr cx lo hi a' a) cargs' cargs)
    (hAA : Forall2 (fun a' a => ∃ sA e' e, a' = .arg sA e' ∧ a = .arg sA e) cargs' cargs)
    (hclash : callThisClash (.call (.member (.member o p sp') p2 cs2) cargs csp) = false) :
    s.counter ≤ (replacePrototypeCallOrApply cfg cargs' csp callee' (.member o' p' sp') m s).2.counter ∧
    ∀ e1 tag, (replacePrototypeCallOrApply cfg cargs' csp callee' (.member o' p' sp') m s).1 = some (e1, tag) →
      Er cx lo (replacePrototypeCallOrApply cfg cargs' csp callee' (.member o' p' sp') m s).2.counter e1
        (.call (.member (.member o p sp') p2 cs2) cargs csp) := by
  unfold replacePrototypeCallOrApply
  split
  · exact none_Er cx lo s _
  · cases hpm : prototypeMethodIdent (.member o' p' sp') with
    | none => exact none_Er cx lo s _
    | some mm =>
      obtain ⟨method, msp2⟩ := mm
      simp only
      have hstat : isStaticPath (.member o' p' sp') = true := by
        unfold prototypeMethodIdent at hpm
        split at hpm
        · assumption
        · cases hpm
      cases cargs' with
      | nil => exact none_Er cx lo s _
      | cons this' rest' =>
        cases cargs with
        | nil => simp [Forall2] at ha
        | cons this rest =>
          simp only [Forall2] at ha hAA
          obtain ⟨⟨sA, thisE', thisSrc, rfl, rfl⟩, hAArest⟩ := hAA
          obtain ⟨s2, e2, he2, _, hEthis⟩ := Er_arg_inv ha.1.1
          simp only [arg.injEq] at he2
          obtain ⟨-, rfl⟩ := he2
          simp only
          split
          · -- spread this-argument
            rename_i hspread
            cases sA with
            | none => simp [argIsSpread] at hspread
            | some s0 =>
              exact replaceCallSpread_Er cfg cx lo hi _ _ method callee' _ _ csp p2 cs2 m s hw hlo hp2 hm
                (by simp only [Forall2]; exact ha) ⟨s0, thisSrc, rest, rfl⟩
          · rename_i hnsp
            cases sA with
            | some s0 => simp [argIsSpread] at hnsp
            | none =>
              split
              · exact none_Er cx lo s _
              · by_cases hcnd : ((argExpr (Node.arg none thisE')).isLit && (!cfg.allowsLiteralCallers method || allArgsAreLiteral rest')) = true
                · rw [if_pos hcnd]
                  exact none_Er cx lo s _
                · rw [if_neg hcnd]
                  have hcl : (o.span == thisSrc.span) = false ∧ o.span.isDummy = false := by
                    have hp2e : ∃ psp, p2 = .pname m psp := by
                      cases p2 <;> simp_all [strip]
                    obtain ⟨psp, rfl⟩ := hp2e
                    simp only [callThisClash, Bool.or_eq_false_iff] at hclash
                    exact hclash
                  exact replaceCallWithMember_proto_Er cfg cx lo hi thisE' thisSrc _ _ method msp2 _ rest' rest csp p2 cs2 m s
                      hw hlo hp2 hEthis hm (by rfl) ha.2
                      (proto_not_receiver cx lo hi o' p' sp' o p sp' thisSrc m csp hstat hD hso hcl)

end IastModel

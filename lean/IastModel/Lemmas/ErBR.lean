import IastModel.Lemmas.ErSrc
import IastModel.Lemmas.BlockRewrite2
/-
  `BRg a b`: `b` is `a` with some block statements replaced by blocks that erase to the statements of
  the block they replace — what the block visitor does below the block it is working on, as far as
  `erase` can tell.  The erasure invariants are stated for every such `b`, so that they survive the
  block visitor's later work on nested blocks.
-/
namespace IastModel
open Node

/-- the erased statements of a replacing block match the statements of the replaced block: the same up
    to positions, statement by statement at the same position -/
def BlkSim (es ss : List Node) : Prop := stripL es = stripL ss ∧ es.map Node.span = ss.map Node.span

mutual
inductive BRg : Node → Node → Prop
  | refl (a : Node) : BRg a a
  | blk (ss ss' : List Node) (sp : Span) :
      (∀ σ, ∃ es, erase σ (.block ss' sp) = (.block es sp, σ) ∧ BlkSim es ss) → BRg (.block ss sp) (.block ss' sp)
  | node (n : Node) (ks' : List Node) : isBlockNode n = false → BRgL n.kids ks' → BRg n (n.withKids ks')
inductive BRgL : List Node → List Node → Prop
  | nil : BRgL [] []
  | cons {a b : Node} {as bs : List Node} : BRg a b → BRgL as bs → BRgL (a :: as) (b :: bs)
end

theorem BRgL.refl : ∀ l : List Node, BRgL l l
  | [] => BRgL.nil
  | x :: xs => BRgL.cons (BRg.refl x) (BRgL.refl xs)

theorem BRgL.length {xs ys : List Node} (h : BRgL xs ys) : ys.length = xs.length := by
  induction xs generalizing ys with
  | nil => cases h; rfl
  | cons x xs ih => cases h with | cons _ ht => simp [ih ht]

theorem BRgL.nil_inv {ys : List Node} (h : BRgL [] ys) : ys = [] := by cases h; rfl

theorem BRgL.cons_inv {a : Node} {as ys : List Node} (h : BRgL (a :: as) ys) :
    ∃ b bs, ys = b :: bs ∧ BRg a b ∧ BRgL as bs := by
  cases h with | cons h1 h2 => exact ⟨_, _, rfl, h1, h2⟩

theorem BRgL.append_inv {xs ys ks : List Node} (h : BRgL (xs ++ ys) ks) :
    ∃ k1 k2, ks = k1 ++ k2 ∧ BRgL xs k1 ∧ BRgL ys k2 := by
  induction xs generalizing ks with
  | nil => exact ⟨[], ks, rfl, BRgL.nil, h⟩
  | cons x xs ih =>
    obtain ⟨b, bs, rfl, hb, hs⟩ := BRgL.cons_inv h
    obtain ⟨k1, k2, rfl, h1, h2⟩ := ih hs
    exact ⟨b :: k1, k2, rfl, BRgL.cons hb h1, h2⟩

theorem BRgL.append {a b c d : List Node} (h1 : BRgL a b) (h2 : BRgL c d) : BRgL (a ++ c) (b ++ d) := by
  induction a generalizing b with
  | nil => rw [BRgL.nil_inv h1]; exact h2
  | cons x xs ih =>
    obtain ⟨y, ys, rfl, hy, hys⟩ := BRgL.cons_inv h1
    exact BRgL.cons hy (ih hys)

theorem BRgL.single_inv {a : Node} {ys : List Node} (h : BRgL [a] ys) : ∃ b, ys = [b] ∧ BRg a b := by
  obtain ⟨b, bs, rfl, hb, hs⟩ := BRgL.cons_inv h
  rw [BRgL.nil_inv hs]; exact ⟨b, rfl, hb⟩

/-- inversion: a non-block node is rewritten child-wise -/
theorem BRg.inv {a b : Node} (h : BRg a b) (hb : isBlockNode a = false) :
    ∃ ks', b = a.withKids ks' ∧ BRgL a.kids ks' := by
  cases h with
  | refl => exact ⟨a.kids, (Node.withKids_kids a).symm, BRgL.refl _⟩
  | blk => simp [isBlockNode] at hb
  | node n ks' _ hk => exact ⟨ks', rfl, hk⟩

theorem BRg.node' {n : Node} {ks' : List Node} (hb : isBlockNode n = false) (h : BRgL n.kids ks') : BRg n (n.withKids ks') :=
  BRg.node n ks' hb h

mutual
theorem BRg.toBR : ∀ {a b : Node}, BRg a b → BR a b
  | _, _, .refl a => BR.refl a
  | _, _, .blk ss ss' sp _ => BR.blk ss ss' sp
  | _, _, .node n ks' hb hk => BR.node' hb (BRgL.toBRL hk)
theorem BRgL.toBRL : ∀ {xs ys : List Node}, BRgL xs ys → BRL xs ys
  | _, _, .nil => BRL.nil
  | _, _, .cons h hs => BRL.cons (BRg.toBR h) (BRgL.toBRL hs)
end

theorem BRg_noBlk {a b : Node} (ha : noBlk a = true) (h : BRg a b) : b = a := BR_noBlk a ha b h.toBR
theorem BRgL_noBlk {xs ys : List Node} (hx : noBlkL xs = true) (h : BRgL xs ys) : ys = xs := BRL_noBlk hx h.toBRL

/-! ### per-constructor inversions -/

theorem BRg.arg_inv {s : Option Span} {e b : Node} (h : BRg (.arg s e) b) : ∃ e', b = .arg s e' ∧ BRg e e' := by
  obtain ⟨ks', rfl, hk⟩ := h.inv rfl
  obtain ⟨e', rfl, he⟩ := BRgL.single_inv hk
  exact ⟨e', by simp [withKids], he⟩

/-- a block is replaced by a block at the same position that erases to its statements (or is left as it is) -/
theorem BRg.block_inv {ss : List Node} {sp : Span} {b : Node} (h : BRg (.block ss sp) b) :
    b = .block ss sp ∨ ∃ ss', b = .block ss' sp ∧ ∀ σ, ∃ es, erase σ (.block ss' sp) = (.block es sp, σ) ∧ BlkSim es ss := by
  cases h with
  | refl => exact Or.inl rfl
  | blk _ ss' _ hg => exact Or.inr ⟨ss', rfl, hg⟩
  | node n ks' hb _ => simp [isBlockNode] at hb

theorem span_withKids_notArg (n : Node) (ks : List Node) (h : ∀ s e, n ≠ .arg s e) : (n.withKids ks).span = n.span := by
  cases n <;> first | rfl | (exfalso; exact h _ _ rfl)

/-- a block carries its position along; so does every other node -/
theorem BRg.span : ∀ (a b : Node), BRg a b → b.span = a.span := by
  apply Node.ind
  intro a ih b h
  by_cases hb : isBlockNode a = true
  · cases a with
    | block ss sp => rcases h.block_inv with rfl | ⟨ss', rfl, _⟩ <;> rfl
    | _ => simp [isBlockNode] at hb
  · simp only [Bool.not_eq_true] at hb
    cases a with
    | arg s e =>
      obtain ⟨e', rfl, he⟩ := h.arg_inv
      exact ih e (by simp [kids]) e' he
    | block => simp [isBlockNode] at hb
    | _ =>
      obtain ⟨ks', rfl, _⟩ := h.inv hb
      exact span_withKids_notArg _ _ (by intro s e hh; cases hh)

theorem BRg.arg_mk (s : Option Span) {e e' : Node} (h : BRg e e') : BRg (.arg s e) (.arg s e') := by
  have := BRg.node' (n := .arg s e) (ks' := [e']) rfl (BRgL.cons h BRgL.nil)
  simpa [withKids] using this

theorem BRg.bin_inv {op : String} {l r b : Node} {sp : Span} (h : BRg (.bin op l r sp) b) :
    ∃ l' r', b = .bin op l' r' sp ∧ BRg l l' ∧ BRg r r' := by
  obtain ⟨ks', rfl, hk⟩ := h.inv rfl
  obtain ⟨l', t, rfl, hl, ht⟩ := BRgL.cons_inv hk
  obtain ⟨r', rfl, hr⟩ := BRgL.single_inv ht
  exact ⟨l', r', by simp [withKids], hl, hr⟩

theorem BRg.assign_inv {op : String} {l r b : Node} {sp : Span} (h : BRg (.assign op l r sp) b) :
    ∃ l' r', b = .assign op l' r' sp ∧ BRg l l' ∧ BRg r r' := by
  obtain ⟨ks', rfl, hk⟩ := h.inv rfl
  obtain ⟨l', t, rfl, hl, ht⟩ := BRgL.cons_inv hk
  obtain ⟨r', rfl, hr⟩ := BRgL.single_inv ht
  exact ⟨l', r', by simp [withKids], hl, hr⟩

theorem BRg.member_inv {o p b : Node} {sp : Span} (h : BRg (.member o p sp) b) :
    ∃ o' p', b = .member o' p' sp ∧ BRg o o' ∧ BRg p p' := by
  obtain ⟨ks', rfl, hk⟩ := h.inv rfl
  obtain ⟨o', t, rfl, ho, ht⟩ := BRgL.cons_inv hk
  obtain ⟨p', rfl, hp⟩ := BRgL.single_inv ht
  exact ⟨o', p', by simp [withKids], ho, hp⟩

theorem BRg.paren_inv {e b : Node} {sp : Span} (h : BRg (.paren e sp) b) : ∃ e', b = .paren e' sp ∧ BRg e e' := by
  obtain ⟨ks', rfl, hk⟩ := h.inv rfl
  obtain ⟨e', rfl, he⟩ := BRgL.single_inv hk
  exact ⟨e', by simp [withKids], he⟩

theorem BRg.seq_inv {es : List Node} {b : Node} {sp : Span} (h : BRg (.seq es sp) b) : ∃ es', b = .seq es' sp ∧ BRgL es es' := by
  obtain ⟨ks', rfl, hk⟩ := h.inv rfl
  exact ⟨ks', by simp [withKids], hk⟩

theorem BRg.array_inv {es : List Node} {b : Node} {sp : Span} (h : BRg (.array es sp) b) : ∃ es', b = .array es' sp ∧ BRgL es es' := by
  obtain ⟨ks', rfl, hk⟩ := h.inv rfl
  exact ⟨ks', by simp [withKids], hk⟩

theorem BRg.other_inv {k : String} {sp : Span} {ns : List String} {vs : List Node} {b : Node} (h : BRg (.other k sp ns vs) b) :
    ∃ vs', b = .other k sp ns vs' ∧ BRgL vs vs' := by
  obtain ⟨ks', rfl, hk⟩ := h.inv rfl
  exact ⟨ks', by simp [withKids], hk⟩

theorem BRg.call_inv {c b : Node} {as : List Node} {sp : Span} (h : BRg (.call c as sp) b) :
    ∃ c' as', b = .call c' as' sp ∧ BRg c c' ∧ BRgL as as' := by
  obtain ⟨ks', rfl, hk⟩ := h.inv rfl
  obtain ⟨c', as', rfl, hc, has⟩ := BRgL.cons_inv hk
  exact ⟨c', as', by simp [withKids], hc, has⟩

theorem BRg.tpl_inv {es qs : List Node} {b : Node} {sp : Span} (h : BRg (.tpl es qs sp) b) :
    ∃ es' qs', b = .tpl es' qs' sp ∧ BRgL es es' ∧ BRgL qs qs' := by
  obtain ⟨ks', rfl, hk⟩ := h.inv rfl
  obtain ⟨k1, k2, rfl, h1, h2⟩ := BRgL.append_inv hk
  refine ⟨k1, k2, ?_, h1, h2⟩
  simp only [withKids]
  rw [← h1.length, List.take_left, List.drop_left]

theorem BRg.cond_inv {t c a b : Node} {sp : Span} (h : BRg (.cond t c a sp) b) :
    ∃ t' c' a', b = .cond t' c' a' sp ∧ BRg t t' ∧ BRg c c' ∧ BRg a a' := by
  obtain ⟨ks', rfl, hk⟩ := h.inv rfl
  obtain ⟨t', r1, rfl, ht, h1⟩ := BRgL.cons_inv hk
  obtain ⟨c', r2, rfl, hc, h2⟩ := BRgL.cons_inv h1
  obtain ⟨a', rfl, ha⟩ := BRgL.single_inv h2
  exact ⟨t', c', a', by simp [withKids], ht, hc, ha⟩

theorem BRg.arrow_inv {ps : List Node} {body b : Node} {at' : String} {sp : Span} (h : BRg (.arrow ps body at' sp) b) :
    ∃ ps' body', b = .arrow ps' body' at' sp ∧ BRgL ps ps' ∧ BRg body body' := by
  obtain ⟨ks', rfl, hk⟩ := h.inv rfl
  obtain ⟨k1, k2, rfl, h1, h2⟩ := BRgL.append_inv hk
  obtain ⟨b', rfl, hb⟩ := BRgL.single_inv h2
  refine ⟨k1, b', ?_, h1, hb⟩
  simp only [withKids]
  rw [← h1.length, List.take_left]
  simp

/-! ### what a replacement cannot change -/

def isTempIdentB : Node → Bool
  | .ident (.temp _) _ => true
  | _ => false

theorem isTempAssign_eq (op : String) (l r : Node) (sp : Span) :
    IastModel.isTempAssign (.assign op l r sp) = (op == "=" && isTempIdentB l) := by
  unfold IastModel.isTempAssign isTempIdentB
  split
  · rename_i heq
    simp only [assign.injEq] at heq
    obtain ⟨rfl, rfl, _, _⟩ := heq
    simp
  · rename_i hne
    by_cases hop : op = "="
    · subst hop
      cases l with
      | ident nm isp =>
        cases nm with
        | temp k => exact absurd rfl (hne k isp r sp)
        | user x => simp
      | _ => simp
    · simp [hop]

theorem noBlk_identE (nm : Name) (sp : Span) : noBlk (.ident nm sp) = true := by simp [noBlk_eq, isBlockNode, kids]

theorem BRg.isTempIdentB {a b : Node} (h : BRg a b) : IastModel.isTempIdentB b = IastModel.isTempIdentB a := by
  cases a with
  | ident nm isp => rw [BRg_noBlk (noBlk_identE _ _) h]
  | block ss sp => rcases h.block_inv with rfl | ⟨ss', rfl, _⟩ <;> rfl
  | _ =>
    obtain ⟨ks', rfl, _⟩ := h.inv rfl
    simp [IastModel.isTempIdentB, withKids]

theorem BRg.tempTarget {a b : Node} (h : BRg a b) : tempTarget? b = tempTarget? a := by
  cases a with
  | ident nm isp => rw [BRg_noBlk (noBlk_identE _ _) h]
  | block ss sp => rcases h.block_inv with rfl | ⟨ss', rfl, _⟩ <;> rfl
  | _ =>
    obtain ⟨ks', rfl, _⟩ := h.inv rfl
    simp [tempTarget?, withKids]

theorem BRg.isTempAssign {a b : Node} (h : BRg a b) : IastModel.isTempAssign b = IastModel.isTempAssign a := by
  cases a with
  | assign op l r sp =>
    obtain ⟨l', r', rfl, hl, _⟩ := h.assign_inv
    rw [isTempAssign_eq, isTempAssign_eq, hl.isTempIdentB]
  | block ss sp => rcases h.block_inv with rfl | ⟨ss', rfl, _⟩ <;> rfl
  | _ =>
    obtain ⟨ks', rfl, _⟩ := h.inv rfl
    simp [IastModel.isTempAssign, withKids]

theorem noBlk_pnameE (nm : String) (sp : Span) : noBlk (.pname nm sp) = true := by simp [noBlk_eq, isBlockNode, kids]
theorem noBlk_litE {e : Node} (h : e.isLit = true) : noBlk e = true := by
  cases e <;> simp_all [Node.isLit, noBlk_eq, isBlockNode, kids]
theorem noBlk_tempIdentE (k : Nat) : noBlk (tempIdent k) = true := noBlk_identE _ _

end IastModel

import IastModel.Lemmas.CnMaster
namespace IastModel
open Node

/-- the block statement `B` itself -/
def isBAt (B : Node) (n : Node) : Bool :=
  match n with
  | .block ss sp => Node.beq (.block ss sp) B
  | _ => false

/-- block statement -/
def isBA : Node → Bool
  | .block .. => true
  | _ => false

/-- how many times the block `B` occurs in a tree, at any depth -/
def cb (B : Node) (n : Node) : Nat := Node.count (isBAt B) n
def cbL (B : Node) (l : List Node) : Nat := (l.map (cb B)).sum

theorem cb_eq (B) (n : Node) : cb B n = (if isBAt B n then 1 else 0) + cbL B n.kids := by
  unfold cbL
  show Node.count (isBAt B) n = _
  rw [Node.count_eq]; rfl

@[simp] theorem cbL_nil (B) : cbL B [] = 0 := rfl
@[simp] theorem cbL_cons (B) (x : Node) (xs : List Node) : cbL B (x :: xs) = cb B x + cbL B xs := by simp [cbL]
@[simp] theorem cbL_append (B) (xs ys : List Node) : cbL B (xs ++ ys) = cbL B xs + cbL B ys := by simp [cbL, List.sum_append]

theorem cb_noBA (B) (n : Node) (h : isBA n = false) : cb B n = cbL B n.kids := by
  rw [cb_eq]
  have : isBAt B n = false := by
    cases n <;> first | rfl | simp [isBA] at h
  simp [this]

theorem isBAt_withKids (B : Node) (n : Node) (ks : List Node) (h : isBA n = false) :
    isBAt B (n.withKids ks) = isBAt B n := by
  cases n <;> first | rfl | simp [isBA] at h

@[simp] theorem cb_lit (B) (k v' r : String) (sp' : Span) : cb B (.lit k v' r sp') = 0 := by rw [cb_noBA _ _ rfl]; simp [kids]
@[simp] theorem cb_pname (B) (n : String) (s : Span) : cb B (.pname n s) = 0 := by rw [cb_noBA _ _ rfl]; simp [kids]
@[simp] theorem cb_ident (B) (n : Name) (s : Span) : cb B (.ident n s) = 0 := by rw [cb_noBA _ _ rfl]; simp [kids]
@[simp] theorem cb_atom (B) (s : String) : cb B (.atom s) = 0 := by rw [cb_noBA _ _ rfl]; simp [kids]
@[simp] theorem cb_bin (B) (op : String) (l r : Node) (s : Span) : cb B (.bin op l r s) = cb B l + cb B r := by rw [cb_noBA _ _ rfl]; simp [kids]
@[simp] theorem cb_assign (B) (op : String) (l r : Node) (s : Span) : cb B (.assign op l r s) = cb B l + cb B r := by rw [cb_noBA _ _ rfl]; simp [kids]
@[simp] theorem cb_member (B) (o p : Node) (s : Span) : cb B (.member o p s) = cb B o + cb B p := by rw [cb_noBA _ _ rfl]; simp [kids]
@[simp] theorem cb_call (B) (c : Node) (as : List Node) (s : Span) : cb B (.call c as s) = cb B c + cbL B as := by rw [cb_noBA _ _ rfl]; simp [kids]
@[simp] theorem cb_arg (B) (s : Option Span) (e : Node) : cb B (.arg s e) = cb B e := by rw [cb_noBA _ _ rfl]; simp [kids]
@[simp] theorem cb_paren (B) (e : Node) (s : Span) : cb B (.paren e s) = cb B e := by rw [cb_noBA _ _ rfl]; simp [kids]
@[simp] theorem cb_seq (B) (es : List Node) (s : Span) : cb B (.seq es s) = cbL B es := by rw [cb_noBA _ _ rfl]; simp [kids]
@[simp] theorem cb_array (B) (es : List Node) (s : Span) : cb B (.array es s) = cbL B es := by rw [cb_noBA _ _ rfl]; simp [kids]
@[simp] theorem cb_tpl (B) (es qs : List Node) (s : Span) : cb B (.tpl es qs s) = cbL B es + cbL B qs := by rw [cb_noBA _ _ rfl]; simp [kids]
@[simp] theorem cb_cond (B) (t c a : Node) (s : Span) : cb B (.cond t c a s) = cb B t + cb B c + cb B a := by rw [cb_noBA _ _ rfl]; simp [kids]; omega
@[simp] theorem cb_optChain (B) (o : Bool) (b : Node) (s : Span) : cb B (.optChain o b s) = cb B b := by rw [cb_noBA _ _ rfl]; simp [kids]
@[simp] theorem cb_optCall (B) (c : Node) (as : List Node) (s : Span) : cb B (.optCall c as s) = cb B c + cbL B as := by rw [cb_noBA _ _ rfl]; simp [kids]
@[simp] theorem cb_arr (B) (xs : List Node) : cb B (.arr xs) = cbL B xs := by rw [cb_noBA _ _ rfl]; simp [kids]
@[simp] theorem cb_other (B) (k : String) (s : Span) (ns' : List String) (vs : List Node) : cb B (.other k s ns' vs) = cbL B vs := by rw [cb_noBA _ _ rfl]; simp [kids]
@[simp] theorem cb_unary (B) (op : String) (a : Node) (s : Span) : cb B (.unary op a s) = cb B a := by rw [cb_noBA _ _ rfl]; simp [kids]

theorem cb_block (B) (ss : List Node) (s : Span) :
    cb B (.block ss s) = (if Node.beq (.block ss s) B then 1 else 0) + cbL B ss := by
  rw [cb_eq]; rfl
@[simp] theorem cb_arrow (B) (ps : List Node) (b : Node) (a : String) (s : Span) : cb B (.arrow ps b a s) = cbL B ps + cb B b := by rw [cb_noBA _ _ rfl]; simp [kids]

theorem cb_ddCall (B) (e : Node) (args : List Node) (m : String) (s : Span) :
    cb B (ddCall e args m s) = cb B e + cbL B args := by
  simp [ddCall, ddCallee]

theorem cb_ddParen (B) (e : Node) (args asg : List Node) (m : String) (s : Span) :
    cb B (ddParen e args asg m s) = cb B e + cbL B args + cbL B asg := by
  unfold ddParen
  split
  · rename_i h; have : asg = [] := by simpa using h
    subst this; simp [cb_ddCall]
  · simp [cb_ddCall]; omega

theorem cb_assignRight (B) (e : Node) (k : IdentKind) : cb B (assignRight e k) = cb B e := by
  cases k <;> simp [assignRight]
theorem cb_exprOrSpread (B) (e : Node) (k : IdentKind) : cb B (exprOrSpread e k) = cb B e := by
  cases k <;> simp [exprOrSpread]

/-- turning an expression body into `{ return e }` loses no block -/
theorem cb_toDdArrow (B) (n : Node) : cb B n ≤ cb B ((toDdArrow n).getD n) := by
  cases n with
  | arrow ps b at' sp =>
    cases b <;> simp [toDdArrow, returnStmt, cb_block]
  | _ => exact Nat.le_refl _

end IastModel

import IastModel.Lemmas.LitOc
namespace IastModel
open Node

/-- the literal is kept, and appears only if it did before: `a ≤ b` and `a = 0 → b = 0` -/
def LZ (a b : Nat) : Prop := a ≤ b ∧ (a = 0 → b = 0)

theorem LZ.refl (a : Nat) : LZ a a := ⟨Nat.le_refl a, id⟩
theorem LZ.trans {a b c : Nat} (h1 : LZ a b) (h2 : LZ b c) : LZ a c := ⟨Nat.le_trans h1.1 h2.1, fun h => h2.2 (h1.2 h)⟩
theorem LZ.add {a b c d : Nat} (h1 : LZ a b) (h2 : LZ c d) : LZ (a + c) (b + d) :=
  ⟨by have := h1.1; have := h2.1; omega, by intro h; have := h1.2 (by omega); have := h2.2 (by omega); omega⟩
theorem LZ.of_bound {a b k : Nat} (h1 : a ≤ b) (h2 : b ≤ k * a) : LZ a b :=
  ⟨h1, by intro h; subst h; simpa using h2⟩
theorem LZ.of_eq {a b : Nat} (h : a = b) : LZ a b := h ▸ LZ.refl a

theorem cl_seqOperand (lv : String) (sp0 : Span) (e : Node) : cl lv sp0 (seqOperand e) = cl lv sp0 e := by
  unfold seqOperand; split <;> simp

def SplitL (lv : String) (sp0 : Span) (left : Node) (R : (Node × Node) × St) : Prop :=
  cl lv sp0 left ≤ cl lv sp0 R.1.1 + cl lv sp0 R.1.2 ∧ cl lv sp0 R.1.1 + cl lv sp0 R.1.2 ≤ 2 * cl lv sp0 left

theorem splitL_same (lv sp0) (left : Node) (s : St) : SplitL lv sp0 left ((left, left), s) := by
  simp only [SplitL]; omega

theorem hoistTargetPart_L (lv : String) (sp0 : Span) (e : Node) (sp : Span) (s : St) : SplitL lv sp0 e (hoistTargetPart e sp s) := by
  unfold hoistTargetPart
  simp only [run_bind]
  rcases getTemporalIdent_cases (seqOperand e) [] sp .expr s with ⟨hl, h⟩ | ⟨hl, n, s', h, _⟩
  · rw [h]; simp only [run_pure, SplitL, cl_seqOperand]; omega
  · rw [h]
    simp only [List.nil_append, List.getLast?_singleton, run_pure]
    simp only [SplitL, tempIdent, assignRight, cl_paren, cl_assign, cl_ident, cl_seqOperand]
    omega

theorem splitComputedKey_L (lv : String) (sp0 : Span) (csp : Span) (e : Node) (sp : Span) (s : St) :
    SplitL lv sp0 (.other "Computed" csp ["expression"] [e]) (splitComputedKey csp e sp s) := by
  unfold splitComputedKey
  simp only [run_bind, run_pure]
  have h := hoistTargetPart_L lv sp0 e sp s
  generalize hoistTargetPart e sp s = R at h
  obtain ⟨⟨tk, okk⟩, s'⟩ := R
  simp only [SplitL] at h ⊢
  simp only [cl_other, clL_cons, clL_nil]
  omega

theorem splitProp_L (lv : String) (sp0 : Span) (prop : Node) (sp : Span) (s : St) : SplitL lv sp0 prop (splitProp prop sp s) := by
  unfold splitProp
  split
  · rename_i csp e
    by_cases hs : isSimpleTargetPart e = true
    · simp only [hs, Bool.not_true, Bool.false_eq_true, if_false, run_pure]; exact splitL_same ..
    · simp only [hs, Bool.not_false, if_true]
      exact splitComputedKey_L lv sp0 csp e sp s
  · simp only [run_pure]; exact splitL_same ..

theorem splitMemberTarget_L (lv : String) (sp0 : Span) (sp : Span) : ∀ (left : Node) (s : St),
    SplitL lv sp0 left (splitMemberTarget left sp s) := by
  apply Node.ind
  intro left ih s
  have same : SplitL lv sp0 left ((left, left), s) := splitL_same ..
  cases left with
  | member obj prop msp =>
    simp only [splitMemberTarget]
    by_cases hcond : (!isSimpleTargetPart obj || !keyIsSimple prop) = true
    · simp only [hcond, if_true]
      by_cases hrep : (isSimpleTargetPart obj && (keyIsSimple prop || !obj.isIdent)) = true
      · simp only [hrep, if_true, run_bind, run_pure]
        have hprop := splitProp_L lv sp0 prop sp s
        generalize splitProp prop sp s = R2 at hprop
        obtain ⟨⟨tprop, oprop⟩, s2⟩ := R2
        simp only [SplitL] at hprop ⊢
        simp only [cl_member]; omega
      · simp only [hrep, Bool.false_eq_true, if_false, run_bind, run_pure]
        have hobj := hoistTargetPart_L lv sp0 obj sp s
        generalize hoistTargetPart obj sp s = R1 at hobj
        obtain ⟨⟨tobj, oobj⟩, s1⟩ := R1
        have hprop := splitProp_L lv sp0 prop sp s1
        generalize splitProp prop sp s1 = R2 at hprop
        obtain ⟨⟨tprop, oprop⟩, s2⟩ := R2
        simp only [SplitL] at hobj hprop ⊢
        simp only [cl_member]; omega
    · simp only [hcond, Bool.false_eq_true, if_false, run_pure]; exact same
  | paren e psp =>
    simp only [splitMemberTarget]
    by_cases hsi : isSplittableInner e = true
    · simp only [hsi, if_true, run_bind, run_pure]
      have h := ih e (by simp [kids]) s
      generalize splitMemberTarget e sp s = R at h
      obtain ⟨⟨t, o⟩, s'⟩ := R
      simp only [SplitL] at h ⊢
      simp only [cl_paren]; omega
    · simp only [hsi, Bool.false_eq_true, if_false, run_pure]; exact same
  | other k osp ons ovs =>
    have hdef : splitMemberTarget (.other k osp ons ovs) sp = splitMemberTarget (.other k osp ons ovs) sp := rfl
    conv at hdef => rhs; unfold splitMemberTarget
    split at hdef
    · rename_i heq; cases heq
    · rename_i ssp sup prop heq
      cases heq
      rw [hdef]
      by_cases hk : keyIsSimple prop = true
      · simp only [hk, Bool.not_true, Bool.false_eq_true, if_false, run_pure]; exact same
      · simp only [hk, Bool.not_false, if_true, run_bind, run_pure]
        have hprop := splitProp_L lv sp0 prop sp s
        generalize splitProp prop sp s = R2 at hprop
        obtain ⟨⟨tprop, oprop⟩, s2⟩ := R2
        simp only [SplitL] at hprop ⊢
        simp only [cl_other, clL_cons, clL_nil]; omega
    · rename_i heq; cases heq
    · rw [hdef]; simp only [run_pure]; exact same
  | _ => simp only [splitMemberTarget, run_pure]; exact same

theorem toDdAssign_L (lv : String) (sp0 : Span) (cfg : Config) (op : String) (left r : Node) (sp : Span) (s : St) :
    ∀ e', (toDdAssign cfg (.assign op left r sp) s).1 = some e' → LZ (cl lv sp0 (.assign op left r sp)) (cl lv sp0 e') := by
  simp only [toDdAssign]
  by_cases hp : isPatternTarget left = true
  · simp only [hp, if_true, run_pure]; intro e' h; cases h
  · simp only [hp, Bool.false_eq_true, if_false, run_bind, run_pure]
    have hnr : cl lv sp0 (assignRhs r) = cl lv sp0 r := by unfold assignRhs; split <;> simp
    have h1 := splitMemberTarget_L lv sp0 sp left s
    generalize splitMemberTarget left sp s = R1 at h1
    obtain ⟨⟨target, operand⟩, s1⟩ := R1
    simp only [SplitL] at h1
    have h2 := toDdBinary_L lv sp0 cfg "+" operand (assignRhs r) sp s1
    generalize toDdBinary cfg (.bin "+" operand (assignRhs r) sp) s1 = R2 at h2
    obtain ⟨res, s2⟩ := R2
    simp only at h2
    cases res with
    | none => simp only [run_pure]; intro e' h; cases h
    | some e1 =>
      simp only [run_pure]
      intro e' he
      simp only [Option.some.injEq] at he
      subst he
      have := h2 e1 rfl
      simp only [cl_assign]
      apply LZ.of_bound (k := 4) <;> omega

end IastModel

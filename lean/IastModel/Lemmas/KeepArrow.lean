import IastModel.Lemmas.CovProgram
/-
  Arrow functions written without braces.  `x => e` is not a block statement of the source; the
  operation visitor turns its body into `{ return e }` when it reaches the arrow, and the block visitor
  then enters that block.  `va cfg A n` counts the occurrences of the arrow `A` at the positions of `n`
  the operation visitor reaches (`visitedKids`: not under `delete`, not inside a template that has a
  literal substitution, not inside an optional chain, not inside a nested block or another arrow).
  `visit_KA`: unless the visitor runs out of fuel, such an arrow comes back with its body wrapped, i.e.
  the block `pseudo A` occurs in the result.
-/
namespace IastModel
open Node

/-- arrow function whose body is an expression -/
def isExprArrow : Node → Bool
  | .arrow _ body _ _ => !isBlockNode body
  | _ => false

/-- the block an expression-bodied arrow function's body becomes -/
def pseudo : Node → Node
  | .arrow _ body _ _ => .block [returnStmt body] Span.dummy
  | n => n

def va (cfg : Config) (A : Node) (n : Node) : Nat :=
  (if isExprArrow n && Node.beq n A then 1 else 0) + ((visitedKids cfg n).attach.map fun x => va cfg A x.1).sum
termination_by sizeOf n
decreasing_by exact Node.sizeOf_lt_of_mem_kids (visitedKids_sub cfg n x.1 x.2)

def vaL (cfg : Config) (A : Node) (l : List Node) : Nat := (l.map (va cfg A)).sum

theorem va_eq (cfg : Config) (A : Node) (n : Node) :
    va cfg A n = (if isExprArrow n && Node.beq n A then 1 else 0) + vaL cfg A (visitedKids cfg n) := by
  rw [va, Node.attach_map_eq]; rfl

@[simp] theorem vaL_nil (cfg A) : vaL cfg A [] = 0 := rfl
@[simp] theorem vaL_cons (cfg A) (x : Node) (xs : List Node) : vaL cfg A (x :: xs) = va cfg A x + vaL cfg A xs := by simp [vaL]

/-- a node that is not an arrow function: only its visited children count -/
theorem va_notArrow (cfg : Config) (A n : Node) (h : isExprArrow n = false) : va cfg A n = vaL cfg A (visitedKids cfg n) := by
  rw [va_eq, h]; simp

theorem cb_pseudo_toDdArrow (ps : List Node) (b : Node) (at' : String) (sp : Span) (h : isBlockNode b = false) :
    1 ≤ cb (pseudo (.arrow ps b at' sp)) ((toDdArrow (.arrow ps b at' sp)).getD (.arrow ps b at' sp)) := by
  have : toDdArrow (.arrow ps b at' sp) = some (.arrow ps (.block [returnStmt b] Span.dummy) at' sp) := by
    cases b <;> first | rfl | simp [isBlockNode] at h
  rw [this]
  simp only [Option.getD_some, pseudo, cb_arrow, cb_block, beq_self, if_true]
  omega

/-- **a reached arrow function comes back with its body wrapped in a block** -/
theorem visit_KA (A : Node) (cfg : Config) (ok : String → Bool) (hcfg : CfgOk ok cfg) :
    ∀ (f : Nat) (root : Bool) (n : Node) (s : St), ns n = 0 → targetsOk n = true → StOk s →
      (visit cfg f root n s).2.fuelOut = false → 1 ≤ va cfg A n →
      1 ≤ cb (pseudo A) (visit cfg f root n s).1 := by
  intro f
  induction f with
  | zero =>
    intro root n s _ _ _ hfo
    simp only [visit, run_bind, run_pure] at hfo
    rw [outOfFuel_fo] at hfo; cases hfo
  | succ f ih =>
    intro root n s h0 ht hs hfo hpos
    have hv : ∀ r, VHyp ok (visit cfg f r) := fun r k s h0 ht hs => visit_spec ok cfg hcfg f r k s h0 ht hs
    have hkids : ∀ (r : Bool) (ks : List Node) (s : St), nsL ks = 0 → (∀ k ∈ ks, targetsOk k = true) → StOk s →
        (mapM' (visit cfg f r) ks s).2.fuelOut = false → 1 ≤ vaL cfg A ks →
        1 ≤ cbL (pseudo A) (mapM' (visit cfg f r) ks s).1 := by
      intro r ks
      induction ks with
      | nil => intro s _ _ _ _ h; simp at h
      | cons k ks ihk =>
        intro s hz htk hs hfo hp
        simp only [nsL_cons] at hz
        simp only [mapM', run_bind, run_pure] at hfo
        simp only [mapM', run_bind, run_pure, cbL_cons]
        simp only [vaL_cons] at hp
        have hsp := visit_spec ok cfg hcfg f r k s (by omega) (htk k (by simp)) hs
        have hs1 := hsp.2.1.stOk hs
        have hrest := mapVisit_spec ok (visit cfg f r) (hv r) ks (visit cfg f r k s).2 (by omega) (fun x hx => htk x (by simp [hx])) hs1
        have hfo1 : (visit cfg f r k s).2.fuelOut = false := hrest.2.1.fo hfo
        by_cases hk : 1 ≤ va cfg A k
        · have := ih r k s (by omega) (htk k (by simp)) hs hfo1 hk
          omega
        · have := ihk _ (by omega) (fun x hx => htk x (by simp [hx])) hs1 hfo (by omega)
          omega
    -- a node rebuilt from its visited children, all of which are visited
    have hgen : ∀ (r : Bool) (n : Node) (s : St), isBA n = false → ns n = 0 → targetsOk n = true → StOk s →
        (mapKidsM mapM' (visit cfg f r) n s).2.fuelOut = false → 1 ≤ vaL cfg A n.kids →
        1 ≤ cb (pseudo A) (mapKidsM mapM' (visit cfg f r) n s).1 := by
      intro r n s hba h0 ht hs hfo hp
      simp only [mapKidsM, run_bind, run_pure] at hfo ⊢
      have hl : (mapM' (visit cfg f r) n.kids s).1.length = n.kids.length := by
        have := mapVisit_spec ok (visit cfg f r) (hv r) n.kids s (nsL_kids_of_ns0 h0) (targetsOk_kids ht) hs
        exact (Forall2.length_eq this.2.2).symm
      rw [cb_eq (n := n.withKids _), Node.kids_withKids n _ hl]
      have := hkids r n.kids s (nsL_kids_of_ns0 h0) (targetsOk_kids ht) hs hfo hp
      omega
    cases n with
    | ident nm sp =>
      rw [va_notArrow _ _ _ rfl] at hpos; simp [visitedKids] at hpos
    | block ss sp =>
      rw [va_notArrow _ _ _ rfl] at hpos; simp [visitedKids] at hpos
    | optChain o b sp =>
      rw [va_notArrow _ _ _ rfl] at hpos
      by_cases hno : noOpt cfg (.optChain o b sp) = true
      · simp only [visit, run_bind] at hfo ⊢
        have hid := toDdCond_id cfg f (.optChain o b sp) s hno
        generalize toDdCond cfg f (.optChain o b sp) s = C at hid hfo
        obtain ⟨⟨e', res⟩, s1⟩ := C
        obtain ⟨hid1, hid2⟩ := hid
        simp only [Prod.mk.injEq] at hid1
        obtain ⟨rfl, rfl⟩ := hid1
        simp only [Option.getD_none] at hfo ⊢
        have hs1 : StOk s1 := by intro hc; exact hs (by rw [← hid2.2.2.2.1]; exact hc)
        have hfo1 := (finish_TS root _ _).fo hfo
        rw [finish_fst]
        have hvk : visitedKids cfg (.optChain o b sp) = (Node.optChain o b sp).kids := by simp [visitedKids, hno, kids]
        rw [hvk] at hpos
        exact hgen false (.optChain o b sp) s1 rfl h0 ht hs1 hfo1 hpos
      · simp [visitedKids, hno] at hpos
    | arrow ps b at' sp =>
      simp only [visit, run_pure]
      rw [va_eq] at hpos
      simp only [visitedKids, vaL_nil, Nat.add_zero] at hpos
      by_cases hc : (isExprArrow (.arrow ps b at' sp) && Node.beq (.arrow ps b at' sp) A) = true
      · simp only [Bool.and_eq_true] at hc
        have hA := beq_eq _ _ hc.2
        subst hA
        exact cb_pseudo_toDdArrow ps b at' sp (by simpa [isExprArrow] using hc.1)
      · simp only [hc, Bool.false_eq_true, if_false] at hpos
        omega
    | unary op a sp =>
      rw [va_notArrow _ _ _ rfl] at hpos
      simp only [visit] at hfo ⊢
      by_cases hd : isDelete op = true
      · simp [visitedKids, hd] at hpos
      · simp only [hd, Bool.false_eq_true, if_false] at hfo ⊢
        have hvk : visitedKids cfg (.unary op a sp) = (Node.unary op a sp).kids := by simp [visitedKids, hd, kids]
        rw [hvk] at hpos
        exact hgen root _ s rfl h0 ht hs hfo hpos
    | tpl es qs sp =>
      rw [va_notArrow _ _ _ rfl] at hpos
      simp only [visit] at hfo ⊢
      by_cases hte : cfg.tplEnabled = true
      · simp only [hte, if_true] at hfo ⊢
        by_cases hc : (!es.isEmpty && es.all (fun e => !e.isLit)) = true
        · simp only [hc, if_true, run_bind] at hfo ⊢
          have hvk : visitedKids cfg (.tpl es qs sp) = (Node.tpl es qs sp).kids := by
            simp [visitedKids, hte, hc, kids]
          rw [hvk] at hpos
          obtain ⟨ks', h1, hl, g, e, p⟩ := mapKids_spec' ok _ (hv false) (.tpl es qs sp) s h0 ht hs
          have hgen1 := hgen false (.tpl es qs sp) s rfl h0 ht hs
          generalize mapKidsM mapM' (visit cfg f false) (.tpl es qs sp) s = K at h1 hgen1 e hfo
          obtain ⟨n1, s1⟩ := K
          simp only at h1 hgen1 e hfo ⊢
          simp only [withKids] at h1
          subst h1
          obtain ⟨g1, g2⟩ := goodL_take_drop ok true ks' es.length g
          have hsp := toDdTpl_spec ok true cfg (ks'.take es.length) (ks'.drop es.length) sp s1 g1 g2 (hcfg.2.1 hte)
          have h2 := toDdTpl_K (pseudo A) cfg (ks'.take es.length) (ks'.drop es.length) sp s1
          generalize toDdTpl cfg (.tpl (ks'.take es.length) (ks'.drop es.length) sp) s1 = X at h2 hsp hfo
          obtain ⟨res, s2⟩ := X
          obtain ⟨t2, _⟩ := hsp
          simp only at h2 t2 hfo ⊢
          have e2 : StOk s2 := ((e.trans (Eff.of_TS t2))).stOk hs
          have hu := updateStatus_statusOf res (some Generated.tplTag) s2 e2
          have hfo3 : (updateStatus (statusOf res) (some Generated.tplTag) s2).2.fuelOut = false :=
            (finish_TS root _ _).fo hfo
          have hfo1 : s1.fuelOut = false := t2.fo (hu.fo hfo3)
          have hk := hgen1 hfo1 hpos
          rw [finish_fst]
          cases res with
          | none => exact hk
          | some e' =>
            simp only [Option.getD_some]
            exact Nat.le_trans hk (h2 e' rfl).1
        · simp [visitedKids, hte, hc] at hpos
      · simp only [hte, Bool.false_eq_true, if_false] at hfo ⊢
        have hvk : visitedKids cfg (.tpl es qs sp) = (Node.tpl es qs sp).kids := by simp [visitedKids, hte, kids]
        rw [hvk] at hpos
        exact hgen root _ s rfl h0 ht hs hfo hpos
    | bin op l r sp =>
      rw [va_notArrow _ _ _ rfl] at hpos
      have hvk : visitedKids cfg (.bin op l r sp) = (Node.bin op l r sp).kids := rfl
      rw [hvk] at hpos
      simp only [visit] at hfo ⊢
      by_cases hpe : cfg.plusEnabled = true
      · simp only [hpe, if_true, run_bind] at hfo ⊢
        obtain ⟨ks', h1, hl, g, e, p⟩ := mapKids_spec' ok _ (hv false) (.bin op l r sp) s h0 ht hs
        have hgen1 := hgen false (.bin op l r sp) s rfl h0 ht hs
        generalize mapKidsM mapM' (visit cfg f false) (.bin op l r sp) s = K at h1 hgen1 e hfo
        obtain ⟨n1, s1⟩ := K
        simp only at h1 hgen1 e hfo ⊢
        match ks', hl, g, h1 with
        | [l', r'], _, g, h1 =>
          simp only [withKids, List.getD_cons_zero, List.getD_cons_succ] at h1
          subst h1
          simp only [goodL_cons, goodL_nil, Bool.and_true, Bool.and_eq_true] at g
          by_cases hop : (op == "+") = true
          · have hop' : op = "+" := by simpa using hop
            subst hop'
            simp only [beq_self_eq_true, if_true, run_bind, run_pure] at hfo ⊢
            have hsp := toDdBinary_spec ok true cfg "+" l' r' sp s1 g.1 g.2 (hcfg.1 hpe)
            have h2 := toDdBinary_K (pseudo A) cfg "+" l' r' sp s1
            generalize toDdBinary cfg (.bin "+" l' r' sp) s1 = X at h2 hsp hfo
            obtain ⟨res, s2⟩ := X
            obtain ⟨t2, _⟩ := hsp
            simp only at h2 t2 hfo ⊢
            have e2 : StOk s2 := ((e.trans (Eff.of_TS t2))).stOk hs
            have hu := updateStatus_statusOf res (some Generated.addTag) s2 e2
            have hfo3 : (updateStatus (statusOf res) (some Generated.addTag) s2).2.fuelOut = false :=
              (finish_TS root _ _).fo hfo
            have hfo1 : s1.fuelOut = false := t2.fo (hu.fo hfo3)
            have hk := hgen1 hfo1 hpos
            rw [finish_fst]
            cases res with
            | none => exact hk
            | some e' =>
              simp only [Option.getD_some]
              exact Nat.le_trans hk (by simp only [cb_bin]; exact (h2 e' rfl).1)
          · simp only [hop, Bool.false_eq_true, if_false, run_bind, run_pure] at hfo ⊢
            have hfo1 : s1.fuelOut = false := (finish_TS root _ _).fo hfo
            rw [finish_fst]
            exact hgen1 hfo1 hpos
      · simp only [hpe, Bool.false_eq_true, if_false] at hfo ⊢
        exact hgen root _ s rfl h0 ht hs hfo hpos
    | assign op l r sp =>
      rw [va_notArrow _ _ _ rfl] at hpos
      have hvk : visitedKids cfg (.assign op l r sp) = (Node.assign op l r sp).kids := rfl
      rw [hvk] at hpos
      simp only [visit] at hfo ⊢
      by_cases hpe : cfg.plusEnabled = true
      · simp only [hpe, if_true, run_bind] at hfo ⊢
        obtain ⟨ks', h1, hl, g, e, p⟩ := mapKids_spec' ok _ (hv false) (.assign op l r sp) s h0 ht hs
        have hgen1 := hgen false (.assign op l r sp) s rfl h0 ht hs
        generalize mapKidsM mapM' (visit cfg f false) (.assign op l r sp) s = K at h1 hgen1 e hfo
        obtain ⟨n1, s1⟩ := K
        simp only at h1 hgen1 e hfo ⊢
        match ks', hl, g, p, h1 with
        | [l', r'], _, g, p, h1 =>
          simp only [withKids, List.getD_cons_zero, List.getD_cons_succ] at h1
          subst h1
          simp only [goodL_cons, goodL_nil, Bool.and_true, Bool.and_eq_true] at g
          by_cases hop : (op == "+=") = true
          · simp only [hop, if_true, run_bind, run_pure] at hfo ⊢
            have hts : tshape l' = true := by
              have h := targetsOk_self ht
              simp only [assignTargetOk, Bool.or_eq_true, bne_iff_ne, ne_eq] at h
              simp only [kids, Forall2] at p
              rcases h with h | h
              · exact absurd (by simpa using hop) h
              · exact p.1.1 h
            have hsp := toDdAssign_spec ok true cfg op l' r' sp s1 g.1 g.2 hts (hcfg.1 hpe)
            have h2 := toDdAssign_K (pseudo A) cfg op l' r' sp s1
            generalize toDdAssign cfg (.assign op l' r' sp) s1 = X at h2 hsp hfo
            obtain ⟨res, s2⟩ := X
            obtain ⟨t2, _⟩ := hsp
            simp only at h2 t2 hfo ⊢
            have e2 : StOk s2 := ((e.trans (Eff.of_TS t2))).stOk hs
            have hu := updateStatus_statusOf res (some Generated.addAssignTag) s2 e2
            have hfo3 : (updateStatus (statusOf res) (some Generated.addAssignTag) s2).2.fuelOut = false :=
              (finish_TS root _ _).fo hfo
            have hfo1 : s1.fuelOut = false := t2.fo (hu.fo hfo3)
            have hk := hgen1 hfo1 hpos
            rw [finish_fst]
            cases res with
            | none => exact hk
            | some e' => simp only [Option.getD_some]; exact Nat.le_trans hk (h2 e' rfl).1
          · simp only [hop, Bool.false_eq_true, if_false, run_bind, run_pure] at hfo ⊢
            have hfo1 : s1.fuelOut = false := (finish_TS root _ _).fo hfo
            rw [finish_fst]
            exact hgen1 hfo1 hpos
      · simp only [hpe, Bool.false_eq_true, if_false] at hfo ⊢
        exact hgen root _ s rfl h0 ht hs hfo hpos
    | call c as sp =>
      rw [va_notArrow _ _ _ rfl] at hpos
      have hvk : visitedKids cfg (.call c as sp) = (Node.call c as sp).kids := rfl
      rw [hvk] at hpos
      simp only [visit, run_bind] at hfo ⊢
      obtain ⟨ks', h1, hl, g, e, p⟩ := mapKids_spec' ok _ (hv false) (.call c as sp) s h0 ht hs
      have hgen1 := hgen false (.call c as sp) s rfl h0 ht hs
      generalize mapKidsM mapM' (visit cfg f false) (.call c as sp) s = K at h1 hgen1 e hfo
      obtain ⟨n1, s1⟩ := K
      simp only at h1 hgen1 e hfo ⊢
      match ks', hl, g, h1 with
      | c' :: as', _, g, h1 =>
        simp only [withKids, List.getD_cons_zero, List.drop_succ_cons, List.drop_zero] at h1
        subst h1
        simp only [goodL_cons, Bool.and_eq_true] at g
        simp only at hfo ⊢
        split at hfo
        · rename_i hne
          simp only [hne, if_true, run_bind, run_pure] at hfo ⊢
          have hfo1 : s1.fuelOut = false := (finish_TS root _ _).fo hfo
          rw [finish_fst]
          exact hgen1 hfo1 hpos
        · rename_i hne
          simp only [hne, Bool.false_eq_true, if_false, run_bind] at hfo ⊢
          have hsp := toDdCall_spec ok true cfg c' as' sp s1 hcfg.2.2 g.1 g.2
          have h2 := toDdCall_K (pseudo A) cfg c' as' sp s1
          generalize hX : toDdCall cfg (.call c' as' sp) s1 = X at h2 hsp hfo
          obtain ⟨res, s2⟩ := X
          obtain ⟨t2, _⟩ := hsp
          simp only at h2 t2 hfo ⊢
          have e2 : StOk s2 := ((e.trans (Eff.of_TS t2))).stOk hs
          cases res with
          | none =>
            simp only [run_bind, run_pure] at hfo ⊢
            have hfo1 : s1.fuelOut = false := t2.fo ((finish_TS root _ _).fo hfo)
            rw [finish_fst]
            exact hgen1 hfo1 hpos
          | some et =>
            obtain ⟨e', tag⟩ := et
            simp only [run_bind, run_pure] at hfo ⊢
            have hu := updateStatus_modified (some tag) s2 e2
            have hfo1 : s1.fuelOut = false := t2.fo (hu.fo ((finish_TS root _ _).fo hfo))
            have hk := hgen1 hfo1 hpos
            rw [finish_fst]
            exact Nat.le_trans hk (by simp only [cb_call]; exact (h2 e' tag rfl).1)
    | _ =>
      rw [va_notArrow _ _ _ rfl] at hpos
      simp only [visit] at hfo ⊢
      exact hgen root _ s rfl h0 ht hs hfo hpos

end IastModel

namespace IastModel
open Node

/-- the statements of a block, visited one after the other: a reached arrow function of one of them comes
    back with its body wrapped -/
theorem mapVisit_KA (A : Node) (cfg : Config) (ok) (hcfg : CfgOk ok cfg) (f : Nat) (r : Bool) :
    ∀ (ks : List Node) (s : St), nsL ks = 0 → (∀ k ∈ ks, targetsOk k = true) → StOk s →
      (mapM' (visit cfg f r) ks s).2.fuelOut = false → 1 ≤ vaL cfg A ks →
      1 ≤ cbL (pseudo A) (mapM' (visit cfg f r) ks s).1 := by
  have hv : VHyp ok (visit cfg f r) := fun k s h0 ht hs => visit_spec ok cfg hcfg f r k s h0 ht hs
  intro ks
  induction ks with
  | nil => intro s _ _ _ _ h; simp at h
  | cons k ks ihk =>
    intro s hz htk hs hfo hp
    simp only [nsL_cons] at hz
    simp only [mapM', run_bind, run_pure] at hfo
    simp only [mapM', run_bind, run_pure, cbL_cons]
    simp only [vaL_cons] at hp
    have hsp := visit_spec ok cfg hcfg f r k s (by omega) (htk k (by simp)) hs
    have hs1 := hsp.2.1.stOk hs
    have hrest := mapVisit_spec ok (visit cfg f r) hv ks (visit cfg f r k s).2 (by omega) (fun x hx => htk x (by simp [hx])) hs1
    have hfo1 : (visit cfg f r k s).2.fuelOut = false := hrest.2.1.fo hfo
    by_cases hk : 1 ≤ va cfg A k
    · have := visit_KA A cfg ok hcfg f r k s (by omega) (htk k (by simp)) hs hfo1 hk
      omega
    · have := ihk _ (by omega) (fun x hx => htk x (by simp [hx])) hs1 hfo (by omega)
      omega

/-- standing on a block one of whose statements holds the arrow function `A` at a reached position:
    whatever standing on the wrapped body of `A` guarantees (`hselfA`) is delivered, because the nested
    traversal finds that block among the visited statements -/
theorem block_arrow_cover_gen (ok) (cfg : Config) (hcfg : CfgOk ok cfg) (d : String) (sp0 : Span) (A : Node) (opFuel : Nat) (c : Nat)
    (hselfA : ∀ (f : Nat) (ss : List Node) (sp : Span) (s : St), StOk s → goodW ok true (.block ss sp) = true →
      StOk (blockVisit cfg opFuel (f + 1) (.block ss sp) s).2 → (blockVisit cfg opFuel (f + 1) (.block ss sp) s).2.fuelOut = false →
      Node.block ss sp = pseudo A → c ≤ cq (qAt d sp0) (blockVisit cfg opFuel (f + 1) (.block ss sp) s).1)
    (f : Nat) (ss : List Node) (sp : Span) (s : St) (hs : StOk s) (hg : goodW ok true (.block ss sp) = true)
    (hfin : StOk (blockVisit cfg opFuel (f + 1) (.block ss sp) s).2)
    (hfo : (blockVisit cfg opFuel (f + 1) (.block ss sp) s).2.fuelOut = false)
    (hpos : 1 ≤ vaL cfg A ss) :
    c ≤ cq (qAt d sp0) (blockVisit cfg opFuel (f + 1) (.block ss sp) s).1 := by
  have hlist := mapReach (qAt d sp0) ok (pseudo A) c (blockVisit cfg opFuel f)
    (fun k s hs hg hf hfo hp => blockVisit_reach_gen ok cfg hcfg d sp0 (pseudo A) opFuel c hselfA f k s hs hg hf hfo hp)
    (fun k s hs hg => blockVisit_spec ok cfg hcfg opFuel f k s hs hg)
    (fun k s h => blockVisit_canc cfg opFuel f k s h)
  rw [good_block] at hg
  simp only [if_true, Bool.and_eq_true, beq_iff_eq] at hg
  rw [blockVisit_block cfg opFuel f ss sp s hs] at hfin hfo ⊢
  have hs0 : StOk (resetProvider s) := hs
  have h0 : ns (.block ss sp) = 0 := by simp [hg.1]
  have htg : targetsOk (.block ss sp) = true := (bad_zero_iff _).mp (by simp [hg.2])
  obtain ⟨ks', h1, hl, g, e, p⟩ := mapKids_spec' ok (visit cfg opFuel true)
    (fun k s h0 ht hs => visit_spec ok cfg hcfg opFuel true k s h0 ht hs) (.block ss sp) (resetProvider s) h0 htg hs0
  have hK : mapKidsM mapM' (visit cfg opFuel true) (.block ss sp) (resetProvider s) =
      (.block (mapM' (visit cfg opFuel true) ss (resetProvider s)).1 sp, (mapM' (visit cfg opFuel true) ss (resetProvider s)).2) := by
    simp [mapKidsM, run_bind, run_pure, withKids, kids]
  have hk1 := mapVisit_KA A cfg ok hcfg opFuel true ss (resetProvider s) hg.1 (targetsOk_kids htg) hs0
  rw [hK] at h1 e hfin hfo ⊢
  generalize mapM' (visit cfg opFuel true) ss (resetProvider s) = K at h1 e hk1 hfin hfo
  obtain ⟨ks1, s1⟩ := K
  simp only [withKids] at h1 e hk1 hfin hfo ⊢
  have hks : ks' = ks1 := by injection h1 with h; exact h.symm
  subst hks
  by_cases hd : variablesContainPossibleDuplicate s1.vars (tempPrefix cfg.localVarPrefix) = true
  · simp only [hd, if_true] at hfin
    exact absurd rfl hfin
  · simp only [hd, Bool.false_eq_true, if_false] at hfin hfo ⊢
    obtain ⟨ks2, hins, g2, n2⟩ := insertVar_spec ok s1.idents ks' sp g
    obtain ⟨ks2', hins', e2⟩ := insertVar_cb (pseudo A) s1.idents ks' sp
    have : ks2' = ks2 := by rw [hins] at hins'; injection hins' with h; exact h.symm
    subst this
    rw [hins] at hfin hfo ⊢
    simp only [mapKidsM, kids, run_bind, run_pure, withKids] at hfin hfo ⊢
    have t0 : TS (resetProvider s) s := ⟨rfl, rfl, id⟩
    have e01 : Eff s s1 (nsL ks') := ((Eff.of_TS t0).trans e).cast (by omega)
    have hs1 : StOk s1 := e01.stOk hs
    have hspec := mapBlock_spec ok (blockVisit cfg opFuel f)
      (fun k s hs hg => blockVisit_spec ok cfg hcfg opFuel f k s hs hg)
      (fun k s h => blockVisit_canc cfg opFuel f k s h) ks2' s1 hs1 g2 hfin
    have hfo1 : s1.fuelOut = false := by
      obtain ⟨_, _, k, ek, _⟩ := hspec
      exact ek.fo hfo
    have hk := hk1 hfo1 hpos
    have := hlist ks2' s1 hs1 g2 hfin hfo (by omega)
    simp only [cq_block]
    exact this


/-- the block visitor standing on a block one of whose statements holds the arrow function `A` at a
    position the operation visitor reaches: the body of `A`, wrapped, is entered by the nested traversal -/
theorem block_arrow_cover (ok) (cfg : Config) (hcfg : CfgOk ok cfg) (d : String) (sp0 : Span) (A : Node) (opFuel f : Nat)
    (ss : List Node) (sp : Span) (s : St) (hs : StOk s) (hg : goodW ok true (.block ss sp) = true)
    (hfin : StOk (blockVisit cfg opFuel (f + 1) (.block ss sp) s).2)
    (hfo : (blockVisit cfg opFuel (f + 1) (.block ss sp) s).2.fuelOut = false)
    (hpos : 1 ≤ vaL cfg A ss) :
    RL cfg d sp0 (stmtsOf (pseudo A)) ≤ cq (qAt d sp0) (blockVisit cfg opFuel (f + 1) (.block ss sp) s).1 :=
  block_arrow_cover_gen ok cfg hcfg d sp0 A opFuel _ (fun f ss sp s hs hg hfin hfo hB => by
    rw [← hB]
    exact block_cover ok cfg hcfg d sp0 opFuel f ss sp s hs hg hfin hfo) f ss sp s hs hg hfin hfo hpos

/-- what standing on the block `B` guarantees for the site: what its own statements require, and — through
    any chain of arrow functions written without braces, each reached from the statements of the one
    before (`xs.map(x => x.ys.map(y => y + z))`) — what their bodies require -/
inductive EnteredVia (cfg : Config) (d : String) (sp0 : Span) : Node → Nat → Prop
  | self (B : Node) : EnteredVia cfg d sp0 B (RL cfg d sp0 (stmtsOf B))
  | arrow (B1 A : Node) (c : Nat) : 1 ≤ vaL cfg A (stmtsOf B1) → EnteredVia cfg d sp0 (pseudo A) c → EnteredVia cfg d sp0 B1 c

theorem EnteredVia.cover (ok) (cfg : Config) (hcfg : CfgOk ok cfg) (d : String) (sp0 : Span) (opFuel : Nat)
    {B : Node} {c : Nat} (h : EnteredVia cfg d sp0 B c) :
    ∀ (f : Nat) (ss : List Node) (sp : Span) (s : St), StOk s → goodW ok true (.block ss sp) = true →
      StOk (blockVisit cfg opFuel (f + 1) (.block ss sp) s).2 → (blockVisit cfg opFuel (f + 1) (.block ss sp) s).2.fuelOut = false →
      Node.block ss sp = B → c ≤ cq (qAt d sp0) (blockVisit cfg opFuel (f + 1) (.block ss sp) s).1 := by
  induction h with
  | self B =>
    intro f ss sp s hs hg hfin hfo hB
    rw [← hB]
    exact block_cover ok cfg hcfg d sp0 opFuel f ss sp s hs hg hfin hfo
  | arrow B1 A c hA _ ih =>
    intro f ss sp s hs hg hfin hfo hB
    subst hB
    exact block_arrow_cover_gen ok cfg hcfg d sp0 A opFuel c ih f ss sp s hs hg hfin hfo hA

/-- whatever node the block visitor is started on: a block statement occurring in it delivers what
    standing on it guarantees -/
theorem blockVisit_reach_via (ok) (cfg : Config) (hcfg : CfgOk ok cfg) (d : String) (sp0 : Span) (B : Node) (opFuel : Nat) (c : Nat)
    (h : EnteredVia cfg d sp0 B c) :
    ∀ (f : Nat) (n : Node) (s : St), StOk s → goodW ok true n = true → StOk (blockVisit cfg opFuel f n s).2 →
      (blockVisit cfg opFuel f n s).2.fuelOut = false → 1 ≤ cb B n →
      c ≤ cq (qAt d sp0) (blockVisit cfg opFuel f n s).1 :=
  blockVisit_reach_gen ok cfg hcfg d sp0 B opFuel c (h.cover ok cfg hcfg d sp0 opFuel)

/-- **every reached arrow function of every block statement is entered**: for the block `B1` anywhere in
    the tree and the arrow function `A` at a reached position of one of its statements -/
theorem blockVisit_reach_arrow (ok) (cfg : Config) (hcfg : CfgOk ok cfg) (d : String) (sp0 : Span) (B1 A : Node) (opFuel : Nat)
    (hA : 1 ≤ vaL cfg A (stmtsOf B1)) :
    ∀ (f : Nat) (n : Node) (s : St), StOk s → goodW ok true n = true → StOk (blockVisit cfg opFuel f n s).2 →
      (blockVisit cfg opFuel f n s).2.fuelOut = false → 1 ≤ cb B1 n →
      RL cfg d sp0 (stmtsOf (pseudo A)) ≤ cq (qAt d sp0) (blockVisit cfg opFuel f n s).1 :=
  blockVisit_reach_gen ok cfg hcfg d sp0 B1 opFuel _ (fun f ss sp s hs hg hfin hfo hB => by
    subst hB
    exact block_arrow_cover ok cfg hcfg d sp0 A opFuel f ss sp s hs hg hfin hfo hA)

end IastModel

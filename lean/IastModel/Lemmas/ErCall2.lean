import IastModel.Lemmas.ErCall
namespace IastModel
open Node

/-- the `X.prototype.m.call|apply(this, args…)` form:
    `(t0 = this, t1 = X.prototype.m, hook(t1.call(t0, args…), t1, t0, args…))` erases to the call it came from -/
theorem callTail_proto_Er (csi : CsiMethod) (cx : Cx) (lo hi : Nat) (thisE' thisSrc member' memberSrc : Node)
    (method : String) (msp : Span) (callee' : Node) (rest' rest : List Node) (csp : Span) (p2 : Node) (cs2 : Span)
    (ca : String) (s s0 : St) (idR : Node) (asg0 : List Node)
    (hw : HypW cx hi s) (hlo : lo ≤ s.counter)
    (hp2 : strip p2 = .pname ca Span.dummy)
    (hm : Er cx lo hi member' memberSrc) (hmnl : member'.isLit = false)
    (ha : Forall2 (fun a' a => Er cx lo hi a' a ∧ DeepEr cx lo hi a' a) rest' rest)
    (c0 : s.counter ≤ s0.counter) (ta0 : AllTA asg0) (inR : Inert idR) (nbR : noBlk idR = true)
    (P0 : ∀ asg0'', BRgL asg0 asg0'' → ∀ σ, cx.ext σ → ∃ X Δ0, eraseAsg σ asg0'' = Δ0 ++ σ ∧ ESim X thisSrc ∧
        WinU lo hi s.counter s0.counter Δ0 ∧
        ∀ Δ2, Avoid s.counter s0.counter Δ2 → erase (Δ2 ++ (Δ0 ++ σ)) idR = (X, Δ2 ++ (Δ0 ++ σ)))
    (hres : ∀ member'', BRg member' member'' → ∀ σ', cx.ext σ' → ∀ X, ESim X thisSrc → ∀ Xs,
      resolveCall (erase σ' member'').1 ca csp csp (.arg none X :: Xs) csp =
        .call (.member (erase σ' member'').1 (.pname ca csp) csp) (.arg none X :: Xs) csp) :
    let R := callTail csi thisE' method msp callee' rest' csp (some member') (some ca) idR asg0 s0
    s.counter ≤ R.2.counter ∧ ∀ e1 tag, R.1 = some (e1, tag) →
      Er cx lo R.2.counter e1 (.call (.member memberSrc p2 cs2) (.arg none thisSrc :: rest) csp) := by
  intro R
  show s.counter ≤ R.2.counter ∧ _
  unfold R callTail
  simp only [run_bind, run_pure]
  rcases getIdentUsed_casesC member' asg0 [] csp .expr s0 with ⟨hl, _⟩ | ⟨_, s1, h1, c1⟩
  · rw [hmnl] at hl; cases hl
  · rw [h1]
    simp only [Option.getD_some]
    have hw1 : HypW cx hi s1 := hw.mono (by omega)
    have hL := replaceArgs_Er cx lo hi .replace csp (ca == Generated.applyMethodName) rest' rest
      (asg0 ++ [.assign "=" (tempIdent s0.counter) (assignRight member' .expr) csp])
      ([] ++ [exprOrSpread (tempIdent s0.counter) .expr] ++ [.arg none idR]) s1 hw1 ha
    unfold replaceCallCalleeAndArgs
    simp only [run_bind, run_pure, Option.getD_some]
    generalize replaceArgs .replace csp (ca == Generated.applyMethodName) rest'
      (asg0 ++ [.assign "=" (tempIdent s0.counter) (assignRight member' .expr) csp])
      ([] ++ [exprOrSpread (tempIdent s0.counter) .expr] ++ [.arg none idR]) s1 = RA at hL ⊢
    obtain ⟨⟨xs, asg3, args3⟩, s3⟩ := RA
    obtain ⟨new, more, ea, eg, ta, inn, nb, c3, A, B⟩ := hL
    dsimp only at ea eg c3 A B ⊢
    refine ⟨by omega, ?_⟩
    intro e1 tag he
    simp only [Option.some.injEq, Prod.mk.injEq] at he
    obtain ⟨rfl, -⟩ := he
    subst ea eg
    have hnbArgs : noBlkL ([] ++ [exprOrSpread (tempIdent s0.counter) .expr] ++ [.arg none idR] ++ more) = true := by
      simp [noBlk_exprOrSpreadE .expr (noBlk_tempIdentE _), noBlk_argE nbR, nb]
    intro m hbr σ hσ
    obtain ⟨first'', asg3'', rfl, hfirst, hasg⟩ := ddParen_BRg_inv hbr hnbArgs
    simp only [insertThis] at hfirst
    obtain ⟨c'', as'', rfl, hcc, has⟩ := hfirst.call_inv
    obtain ⟨a0'', xs'', rfl, ha0, hxs⟩ := BRgL.cons_inv has
    rw [BRg_noBlk (noBlk_memberE (noBlk_tempIdentE _) (noBlk_pnameE _ _)) hcc, BRg_noBlk (noBlk_argE nbR) ha0]
    obtain ⟨k12, new'', rfl, h12, hnew⟩ := BRgL.append_inv hasg
    obtain ⟨asg0'', k2, rfl, h0, hk2⟩ := BRgL.append_inv h12
    obtain ⟨am'', rfl, ham⟩ := BRgL.single_inv hk2
    obtain ⟨member'', rfl, hmem''⟩ := tempAssign_BRg_inv ham
    obtain ⟨X, Δ0, e0, sX, w0, R0⟩ := P0 asg0'' h0 σ hσ
    have hσ0 : cx.ext (Δ0 ++ σ) := Cx.ext_append hσ (w0.avoidCx hw)
    obtain ⟨F, Δm, eF, sF, wF⟩ := hm member'' hmem'' _ hσ0
    have hFe : F = (erase (Δ0 ++ σ) member'').1 := by rw [eF]
    -- after the this-argument and the function value are bound
    have hmem : eraseAsg σ (asg0'' ++ [.assign "=" (tempIdent s0.counter) (assignRight member'' .expr) csp])
        = (s0.counter, F) :: (Δm ++ (Δ0 ++ σ)) := by
      rw [eraseAsg_append, e0]
      simp only [eraseAsg]
      rw [erase_tempAssign]
      obtain ⟨a, b⟩ := erase_assignRight (Δ0 ++ σ) (Δm ++ (Δ0 ++ σ)) member'' F .expr eF sF.2.2
      rw [a, b]
    have hσ1 : cx.ext ((s0.counter, F) :: (Δm ++ (Δ0 ++ σ))) := by
      have : ((s0.counter, F) :: (Δm ++ (Δ0 ++ σ))) = ([(s0.counter, F)] ++ Δm) ++ (Δ0 ++ σ) := by simp
      rw [this]
      refine Cx.ext_append hσ0 ?_
      refine AvoidP.append ?_ (wF.avoidP hw.h1)
      intro p hp hb
      simp only [List.mem_singleton] at hp
      subst hp
      have := hw.h2 _ hb
      dsimp only at this
      omega
    obtain ⟨Δa, eA, wA⟩ := A new'' hnew _ hσ1
    obtain ⟨Xs, Δ3, eXs, sXs, wXs⟩ := B new'' xs'' hnew hxs _ [] hσ1 (Avoid.nil _ _) (AvoidP.nil _)
    simp only [List.nil_append] at eXs
    have hall : AllTA (asg0'' ++ [.assign "=" (tempIdent s0.counter) (assignRight member'' .expr) csp] ++ new'') := by
      refine AllTA.append (AllTA.append (ta0.BRg h0) ?_) (ta.BRg hnew)
      intro a ha'
      simp only [List.mem_singleton] at ha'
      subst ha'
      simp [isTempAssign, tempIdent]
    have hinert : InertL ([] ++ [exprOrSpread (tempIdent s0.counter) .expr] ++ [.arg none idR] ++ more) := by
      refine InertL.append (InertL.append ?_ ?_) inn
      · intro a ha'
        simp only [List.nil_append, List.mem_singleton] at ha'
        subst ha'
        exact inert_exprOrSpread _ (inert_temp _ _)
      · intro a ha'
        simp only [List.mem_singleton] at ha'
        subst ha'
        exact inert_arg inR
    have henv : eraseAsg σ (asg0'' ++ [.assign "=" (tempIdent s0.counter) (assignRight member'' .expr) csp] ++ new'')
        = Δa ++ ((s0.counter, F) :: (Δm ++ (Δ0 ++ σ))) := by
      rw [eraseAsg_append, hmem, eA]
    refine ⟨.call (.member F (.pname ca csp) csp) (.arg none X :: Xs) csp,
      Δ3 ++ Δa ++ [(s0.counter, F)] ++ Δm ++ Δ0, ?_, ?_, ?_⟩
    · rw [erase_ddParen _ _ _ _ _ _ hinert hall, henv]
      have hget1 : Env.get (Δa ++ ((s0.counter, F) :: (Δm ++ (Δ0 ++ σ)))) s0.counter = some F := by
        rw [Env.get_append_of_notin _ _ _ (by
          intro p hp; have := wA p hp; have := hw.h3; omega), Env.get_cons_same]
      have hthis : erase (Δa ++ ((s0.counter, F) :: (Δm ++ (Δ0 ++ σ)))) idR
          = (X, Δa ++ ((s0.counter, F) :: (Δm ++ (Δ0 ++ σ)))) := by
        have := R0 (Δa ++ [(s0.counter, F)] ++ Δm) (by
          intro p hp
          rcases List.mem_append.mp hp with hp | hp
          · rcases List.mem_append.mp hp with hp | hp
            · have := wA p hp; have := hw.h3; omega
            · simp only [List.mem_singleton] at hp; subst hp; dsimp only; omega
          · have := wF p hp; have := hw.h3; omega)
        simp only [List.append_assoc, List.singleton_append] at this
        exact this
      rw [viaTemp_core _ Δ3 _ _ _ _ _ _ _ _ hget1 hthis (by rw [← eA]; exact eXs)]
      rw [hFe, hres member'' hmem'' _ hσ0 X sX Xs]
      simp [List.append_assoc]
    · refine ⟨?_, Or.inl rfl, noSp_call _ _ _⟩
      simp only [strip, stripL, Option.map]
      rw [sF.1, sX.1, hp2, show stripL Xs = stripL rest from sXs]
    · have h3 := hw.h3
      intro p hp
      simp only [List.mem_append, List.mem_singleton] at hp
      rcases hp with (((hp | hp) | hp) | hp) | hp
      · have := wXs p hp; omega
      · have := wA p hp; omega
      · subst hp; dsimp only; omega
      · have := wF p hp; omega
      · have := w0 p hp; omega

end IastModel

import IastModel.Lemmas.ErArms
/-
  A well-formed source tree — also after nested blocks have been replaced by blocks that erase to
  them — erases to itself: the base case of the visitor theorem (identifiers, untouched blocks,
  operands of `delete`, arrow functions with a block body, anything reached without fuel).
-/
namespace IastModel
open Node

theorem KL_of_forall {lo hi : Nat} : ∀ (ks : List Node), (∀ k ∈ ks, EVC lo hi k k) → KL lo hi ks ks := by
  intro ks
  induction ks with
  | nil => intro _; simp [KL, Forall2]
  | cons k ks ih =>
    intro h
    simp only [KL, Forall2]
    exact ⟨h k (by simp), ih (fun x hx => h x (by simp [hx]))⟩

theorem srcOk_returnStmt {b : Node} (h : srcOk b = true) : srcOk (returnStmt b) = true := by
  rw [srcOk_eq]
  simp [returnStmt, srcNode, srcOkL, kids, h]

/-- what `erase` makes of an arrow function once its parameters and body are erased -/
def arrowOut (ps : List Node) (Xb : Node) (at' : String) (sp : Span) : Node :=
  match Xb with
  | .block [.other "ReturnStatement" rsp ["argument"] [e']] bsp =>
    if bsp.isDummy && rsp.isDummy then Node.arrow ps e' at' sp else Node.arrow ps Xb at' sp
  | _ => Node.arrow ps Xb at' sp

theorem erase_arrow (σ : Env) (ps : List Node) (b : Node) (at' : String) (sp : Span) :
    erase σ (.arrow ps b at' sp) =
      (arrowOut (eraseL σ ps).1 (erase (eraseL σ ps).2 b).1 at' sp, (erase (eraseL σ ps).2 b).2) := by
  simp only [erase, arrowOut]
  split <;> (try split) <;> simp_all

/-- the erased body of an arrow function is taken for an injected `{ return e }` only if it is one -/
theorem arrowOut_keep (ps : List Node) (at' : String) (sp : Span) (Xb : Node)
    (h : looksInjectedBody Xb = false) : arrowOut ps Xb at' sp = Node.arrow ps Xb at' sp := by
  unfold looksInjectedBody at h
  split at h
  · unfold arrowOut
    show (if _ then _ else _) = _
    rw [if_neg (by rw [h]; exact Bool.false_ne_true)]
  · rename_i hne
    unfold arrowOut
    split
    · exact absurd rfl (hne _ _ _)
    · rfl

/-- a source arrow function (block body or expression body, before the visitor touches it) -/
theorem arrow_src_VC (ps : List Node) (b : Node) (at' : String) (sp : Span) (hs : srcOk (.arrow ps b at' sp) = true)
    (lo hi : Nat) (hps : KL lo hi ps ps) (hb : EVC lo hi b b) : EVC lo hi (.arrow ps b at' sp) (.arrow ps b at' sp) := by
  have hsb : srcOk b = true := srcOk_kids hs b (by simp [kids])
  have h0 : looksInjectedBody b = false := by
    have := srcOk_self hs; simpa [srcNode] using this
  refine ⟨?_, Or.inl rfl, by simp [Deep], rfl, by simp [Node.isIdent]⟩
  intro m hbr σ
  obtain ⟨ps'', b'', rfl, hps'', hb''⟩ := hbr.arrow_inv
  obtain ⟨Xs, Δ1, e1, s1, w1⟩ := eraseL_KL hps ps'' hps'' σ
  -- the erased body, and why it is not taken for an injected one
  have hbody : ∃ Xb Δ2, erase (Δ1 ++ σ) b'' = (Xb, Δ2 ++ (Δ1 ++ σ)) ∧ ESim Xb b ∧ Win lo hi Δ2 ∧ looksInjectedBody Xb = false := by
    by_cases hblk : isBlockNode b = true
    · obtain ⟨ss, bsp, rfl⟩ : ∃ ss bsp, b = Node.block ss bsp := by
        cases b <;> simp_all [isBlockNode]
      rcases hb''.block_inv with rfl | ⟨ss', rfl, hg⟩
      · refine ⟨.block ss bsp, [], by rw [erase_src _ hsb]; rfl, ⟨rfl, Or.inl rfl, by simp [noSp, unSpread]⟩, Win.nil _ _, h0⟩
      · obtain ⟨es, ee, hsim⟩ := hg (Δ1 ++ σ)
        refine ⟨.block es bsp, [], by rw [ee]; rfl, ⟨by simp only [strip, hsim.1], Or.inl rfl, by simp [noSp, unSpread]⟩, Win.nil _ _, ?_⟩
        -- same statements up to positions, same statement positions: same verdict
        unfold looksInjectedBody at h0 ⊢
        split
        · rename_i rsp e' bsp2 heq
          simp only [block.injEq] at heq
          obtain ⟨rfl, rfl⟩ := heq
          have hst := hsim.1
          have hsp := hsim.2
          cases ss with
          | nil => simp [stripL] at hst
          | cons s0 rest =>
            cases rest with
            | cons _ _ => simp [stripL] at hst
            | nil =>
              simp only [stripL, List.cons.injEq, and_true] at hst
              simp only [List.map_cons, List.map_nil, List.cons.injEq, and_true, Node.span] at hsp
              cases s0 with
              | other k2 sp2 ns2 vs2 =>
                simp only [strip, other.injEq] at hst
                obtain ⟨rfl, -, rfl, hvs⟩ := hst
                simp only [Node.span] at hsp
                subst hsp
                cases vs2 with
                | nil => simp [stripL] at hvs
                | cons v0 vrest =>
                  cases vrest with
                  | cons _ _ => simp [stripL] at hvs
                  | nil => simpa using h0
              | _ => simp [strip] at hst
        · rfl
    · obtain ⟨Xb, Δ2, e2, s2, w2⟩ := hb.1 b'' hb'' (Δ1 ++ σ)
      refine ⟨Xb, Δ2, e2, s2, w2, ?_⟩
      have hst := s2.1
      cases Xb with
      | block es bsp =>
        exfalso
        cases b <;> simp [strip] at hst
        simp [isBlockNode] at hblk
      | _ => rfl
  obtain ⟨Xb, Δ2, e2, s2, w2, hk⟩ := hbody
  refine ⟨.arrow Xs Xb at' sp, Δ2 ++ Δ1, ?_, ?_, w2.append w1⟩
  · rw [erase_arrow, e1]
    simp only
    rw [e2]
    simp only [arrowOut_keep Xs at' sp Xb hk, List.append_assoc]
  · exact ⟨by simp only [strip, Forall2_Sim_strip s1, s2.1], Or.inl rfl, by simp [noSp, unSpread]⟩

/-- **a well-formed source tree, with or without good replacements of its nested blocks, erases to itself** -/
theorem EVC.src (lo hi : Nat) : ∀ n : Node, srcOk n = true → EVC lo hi n n := by
  apply Node.ind
  intro n ih hs
  have hsk := srcOk_kids hs
  have hkl : KL lo hi n.kids n.kids := KL_of_forall n.kids (fun k hk => ih k hk (hsk k hk))
  have hgen : genK n = true → EVC lo hi n n := by
    intro hg
    have := genAll_VC n hs hg lo hi n.kids hkl
    rwa [Node.withKids_kids] at this
  cases n with
  | block ss sp =>
    refine ⟨?_, Or.inl rfl, by simp [Deep], rfl, by simp [Node.isIdent]⟩
    intro m hb σ
    rcases hb.block_inv with rfl | ⟨ss', rfl, hg⟩
    · exact ⟨.block ss sp, [], by rw [erase_src _ hs]; rfl, ⟨rfl, Or.inl rfl, by simp [noSp, unSpread]⟩, Win.nil _ _⟩
    · obtain ⟨es, ee, hsim⟩ := hg σ
      exact ⟨.block es sp, [], by rw [ee]; rfl, ⟨by simp only [strip, hsim.1], Or.inl rfl, by simp [noSp, unSpread]⟩, Win.nil _ _⟩
  | ident nm isp =>
    refine ⟨?_, Or.inl rfl, by simp [Deep], rfl, fun _ => rfl⟩
    intro m hb σ
    rw [BRg_noBlk (noBlk_identE _ _) hb]
    exact ⟨_, [], by rw [erase_src _ hs]; rfl, ⟨rfl, Or.inl rfl, noSp_src _ hs⟩, Win.nil _ _⟩
  | arrow ps b at' sp =>
    exact arrow_src_VC ps b at' sp hs lo hi (KL_of_forall ps (fun k hk => ih k (by simp [kids, hk]) (hsk k (by simp [kids, hk]))))
      (ih b (by simp [kids]) (hsk b (by simp [kids])))
  | assign op l r sp => exact assign_VC hs (ih l (by simp [kids]) (hsk l (by simp [kids]))) (ih r (by simp [kids]) (hsk r (by simp [kids])))
  | call c as sp =>
    exact call_VC hs (ih c (by simp [kids]) (hsk c (by simp [kids])))
      (KL_of_forall as (fun k hk => ih k (by simp [kids, hk]) (hsk k (by simp [kids, hk]))))
  | tpl es qs sp =>
    have hq : noBlkL qs = true := by
      have h0 := srcOk_self hs
      simp only [srcNode] at h0
      unfold noBlkL
      rw [List.all_eq_true]
      intro q hq
      exact inertT_noBlk q (List.all_eq_true.mp h0 q hq)
    exact tpl_VC (KL_of_forall es (fun k hk => ih k (by simp [kids, hk]) (hsk k (by simp [kids, hk])))) hq
  | _ => exact hgen rfl

theorem EVC.srcL (lo hi : Nat) (ks : List Node) (h : ∀ k ∈ ks, srcOk k = true) : KL lo hi ks ks :=
  KL_of_forall ks (fun k hk => EVC.src lo hi k (h k hk))

end IastModel

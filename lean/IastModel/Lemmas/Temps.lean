import IastModel.Lemmas.BlockSpec
namespace IastModel
open Node

def isTempIdent : Node → Bool
  | .ident (.temp _) _ => true
  | _ => false

/-- number of injected temporaries occurring in a tree (nested blocks included) -/
def nt (n : Node) : Nat := Node.count isTempIdent n
def ntL (l : List Node) : Nat := (l.map nt).sum

theorem nt_eq (n : Node) : nt n = (if isTempIdent n then 1 else 0) + ntL n.kids := by
  unfold ntL
  show Node.count isTempIdent n = _
  rw [Node.count_eq]
  rfl

@[simp] theorem ntL_nil : ntL [] = 0 := rfl
@[simp] theorem ntL_cons (x : Node) (xs : List Node) : ntL (x :: xs) = nt x + ntL xs := by simp [ntL]
@[simp] theorem ntL_append (xs ys : List Node) : ntL (xs ++ ys) = ntL xs + ntL ys := by simp [ntL, List.sum_append]

theorem ntL_eq_zero : ∀ (l : List Node), ntL l = 0 → ∀ k ∈ l, nt k = 0 := by
  intro l
  induction l with
  | nil => intro _ k hk; cases hk
  | cons x xs ih =>
    intro h k hk
    simp only [ntL_cons] at h
    rcases List.mem_cons.mp hk with rfl | hk
    · omega
    · exact ih (by omega) k hk

/-- the local condition: an injected temporary must be one of `σ` -/
def tempIn (σ : List Nat) : Node → Bool
  | .ident (.temp k) _ => σ.contains k
  | _ => true

def isArrowNode : Node → Bool
  | .arrow .. => true
  | _ => false

/-- nodes the operation visitor does not look into: block statements and arrow functions -/
def isClosed (n : Node) : Bool := isBlockNode n || isArrowNode n

/-- every temporary in the own region of the tree (nested blocks and arrow functions excluded) is one
    of `σ`, and the nested blocks and arrow functions contain no temporary at all (they have not been
    entered yet) -/
def tgood (σ : List Nat) (n : Node) : Bool :=
  if isClosed n then nt n == 0
  else tempIn σ n && n.kids.attach.all fun k => tgood σ k.1
termination_by sizeOf n
decreasing_by exact Node.sizeOf_lt_of_mem_kids k.2

def tgoodL (σ : List Nat) (l : List Node) : Bool := l.all (tgood σ)

theorem tgood_eq (σ : List Nat) (n : Node) :
    tgood σ n = if isClosed n then nt n == 0 else tempIn σ n && tgoodL σ n.kids := by
  rw [tgood]
  split
  · rfl
  · rw [Node.attach_all_eq]; rfl

@[simp] theorem tgoodL_nil (σ) : tgoodL σ [] = true := rfl
@[simp] theorem tgoodL_cons (σ) (x : Node) (xs : List Node) : tgoodL σ (x :: xs) = (tgood σ x && tgoodL σ xs) := by
  simp [tgoodL]
@[simp] theorem tgoodL_append (σ) (xs ys : List Node) : tgoodL σ (xs ++ ys) = (tgoodL σ xs && tgoodL σ ys) := by
  simp [tgoodL, List.all_append]

theorem tempIn_of_not_temp (σ : List Nat) (n : Node) (ht : isTempIdent n = false) : tempIn σ n = true := by
  cases n with
  | ident nm sp =>
    cases nm with
    | user x => rfl
    | temp k => simp [isTempIdent] at ht
  | _ => rfl

theorem tgood_generic (σ) (n : Node) (hb : isClosed n = false) (ht : isTempIdent n = false) :
    tgood σ n = tgoodL σ n.kids := by
  rw [tgood_eq, hb]
  simp [tempIn_of_not_temp σ n ht]

@[simp] theorem tgood_lit (σ) (k v r : String) (sp : Span) : tgood σ (.lit k v r sp) = true := by
  rw [tgood_generic _ _ rfl rfl]; simp [kids]
@[simp] theorem tgood_pname (σ) (n : String) (sp : Span) : tgood σ (.pname n sp) = true := by
  rw [tgood_generic _ _ rfl rfl]; simp [kids]
@[simp] theorem tgood_user (σ) (x : String) (sp : Span) : tgood σ (.ident (.user x) sp) = true := by
  rw [tgood_generic _ _ rfl rfl]; simp [kids]
@[simp] theorem tgood_temp (σ) (k : Nat) (sp : Span) : tgood σ (.ident (.temp k) sp) = σ.contains k := by
  rw [tgood_eq]; simp [isClosed, isBlockNode, isArrowNode, tempIn, kids]
@[simp] theorem tgood_atom (σ) (s : String) : tgood σ (.atom s) = true := by
  rw [tgood_generic _ _ rfl rfl]; simp [kids]
@[simp] theorem tgood_bin (σ) (op : String) (l r : Node) (sp : Span) : tgood σ (.bin op l r sp) = (tgood σ l && tgood σ r) := by
  rw [tgood_generic _ _ rfl rfl]; simp [kids]
@[simp] theorem tgood_assign (σ) (op : String) (l r : Node) (sp : Span) : tgood σ (.assign op l r sp) = (tgood σ l && tgood σ r) := by
  rw [tgood_generic _ _ rfl rfl]; simp [kids]
@[simp] theorem tgood_member (σ) (o p : Node) (sp : Span) : tgood σ (.member o p sp) = (tgood σ o && tgood σ p) := by
  rw [tgood_generic _ _ rfl rfl]; simp [kids]
@[simp] theorem tgood_call (σ) (c : Node) (as : List Node) (sp : Span) : tgood σ (.call c as sp) = (tgood σ c && tgoodL σ as) := by
  rw [tgood_generic _ _ rfl rfl]; simp [kids]
@[simp] theorem tgood_arg (σ) (s : Option Span) (e : Node) : tgood σ (.arg s e) = tgood σ e := by
  rw [tgood_generic _ _ rfl rfl]; simp [kids]
@[simp] theorem tgood_paren (σ) (e : Node) (sp : Span) : tgood σ (.paren e sp) = tgood σ e := by
  rw [tgood_generic _ _ rfl rfl]; simp [kids]
@[simp] theorem tgood_seq (σ) (es : List Node) (sp : Span) : tgood σ (.seq es sp) = tgoodL σ es := by
  rw [tgood_generic _ _ rfl rfl]; simp [kids]
@[simp] theorem tgood_array (σ) (es : List Node) (sp : Span) : tgood σ (.array es sp) = tgoodL σ es := by
  rw [tgood_generic _ _ rfl rfl]; simp [kids]
@[simp] theorem tgood_tpl (σ) (es qs : List Node) (sp : Span) : tgood σ (.tpl es qs sp) = (tgoodL σ es && tgoodL σ qs) := by
  rw [tgood_generic _ _ rfl rfl]; simp [kids]
@[simp] theorem tgood_cond (σ) (t c a : Node) (sp : Span) : tgood σ (.cond t c a sp) = (tgood σ t && tgood σ c && tgood σ a) := by
  rw [tgood_generic _ _ rfl rfl]; simp [kids, Bool.and_assoc]
@[simp] theorem tgood_unary (σ) (op : String) (a : Node) (sp : Span) : tgood σ (.unary op a sp) = tgood σ a := by
  rw [tgood_generic _ _ rfl rfl]; simp [kids]
@[simp] theorem tgood_other (σ) (k : String) (sp : Span) (ns' : List String) (vs : List Node) : tgood σ (.other k sp ns' vs) = tgoodL σ vs := by
  rw [tgood_generic _ _ rfl rfl]; simp [kids]
@[simp] theorem tgood_arr (σ) (vs : List Node) : tgood σ (.arr vs) = tgoodL σ vs := by
  rw [tgood_generic _ _ rfl rfl]; simp [kids]
@[simp] theorem tgood_optChain (σ) (o : Bool) (b : Node) (sp : Span) : tgood σ (.optChain o b sp) = tgood σ b := by
  rw [tgood_generic _ _ rfl rfl]; simp [kids]
@[simp] theorem tgood_optCall (σ) (c : Node) (as : List Node) (sp : Span) : tgood σ (.optCall c as sp) = (tgood σ c && tgoodL σ as) := by
  rw [tgood_generic _ _ rfl rfl]; simp [kids]
theorem tgood_arrow (σ) (ps : List Node) (b : Node) (a : String) (sp : Span) : tgood σ (.arrow ps b a sp) = (ntL ps + nt b == 0) := by
  rw [tgood_eq]; simp [isClosed, isBlockNode, isArrowNode, nt_eq, isTempIdent, kids]
theorem tgood_block (σ) (ss : List Node) (sp : Span) : tgood σ (.block ss sp) = (ntL ss == 0) := by
  rw [tgood_eq]; simp [isClosed, isBlockNode, isArrowNode, nt_eq, isTempIdent, kids]

/-- a tree without temporaries is good for every `σ` -/
theorem tgood_of_nt0 (σ) : ∀ n : Node, nt n = 0 → tgood σ n = true := by
  apply Node.ind
  intro n ih h0
  have h0' := h0
  rw [nt_eq] at h0
  rw [tgood_eq]
  split
  · simp [h0']
  · have ht : isTempIdent n = false := by cases hh : isTempIdent n <;> simp_all
    simp only [tempIn_of_not_temp σ n ht, Bool.true_and]
    unfold tgoodL
    rw [List.all_eq_true]
    intro k hk
    exact ih k hk (ntL_eq_zero _ (by omega) k hk)

theorem tgoodL_of_nt0 (σ) (l : List Node) (h : ntL l = 0) : tgoodL σ l = true := by
  unfold tgoodL
  rw [List.all_eq_true]
  intro k hk
  exact tgood_of_nt0 σ k (ntL_eq_zero l h k hk)

/-- more declared temporaries never hurt -/
theorem tgood_mono {σ σ' : List Nat} (hs : ∀ k ∈ σ, k ∈ σ') : ∀ n : Node, tgood σ n = true → tgood σ' n = true := by
  apply Node.ind
  intro n ih h
  rw [tgood_eq] at h ⊢
  split
  · rename_i hb; simpa [hb] using h
  · rename_i hb
    simp only [hb, Bool.false_eq_true, if_false, Bool.and_eq_true] at h
    simp only [Bool.and_eq_true]
    refine ⟨?_, ?_⟩
    · cases n <;> try rfl
      case ident nm sp =>
        cases nm with
        | user x => rfl
        | temp k =>
          have := h.1
          simp only [tempIn, List.contains_iff_mem] at this ⊢
          exact hs k this
    · have := h.2
      unfold tgoodL at this ⊢
      rw [List.all_eq_true] at this ⊢
      intro k hk
      exact ih k hk (this k hk)

theorem tgoodL_mono {σ σ' : List Nat} (hs : ∀ k ∈ σ, k ∈ σ') (l : List Node) (h : tgoodL σ l = true) : tgoodL σ' l = true := by
  unfold tgoodL at h ⊢
  rw [List.all_eq_true] at h ⊢
  intro k hk
  exact tgood_mono hs k (h k hk)

end IastModel

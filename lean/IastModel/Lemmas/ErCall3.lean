import IastModel.Lemmas.ErCall2
import IastModel.Lemmas.ErBeq
namespace IastModel
open Node

/-- `replace_call_expr_if_csi_method_with_member` for a plain method call -/
theorem replaceCallWithMember_plain_Er (cfg : Config) (cx : Cx) (lo hi : Nat) (obj' obj : Node) (method : String) (msp : Span)
    (callee' : Node) (cargs' cargs : List Node) (csp : Span) (p2 : Node) (cs2 : Span) (s : St)
    (hw : HypW cx hi s) (hlo : lo ≤ s.counter) (hE : Er cx lo hi obj' obj)
    (hp2 : strip p2 = .pname method Span.dummy)
    (ha : Forall2 (fun a' a => Er cx lo hi a' a ∧ DeepEr cx lo hi a' a) cargs' cargs) :
    s.counter ≤ (replaceCallWithMember cfg obj' method msp callee' cargs' csp none none s).2.counter ∧
    ∀ e1 tag, (replaceCallWithMember cfg obj' method msp callee' cargs' csp none none s).1 = some (e1, tag) →
      Er cx lo (replaceCallWithMember cfg obj' method msp callee' cargs' csp none none s).2.counter e1
        (.call (.member obj p2 cs2) cargs csp) := by
  rw [replaceCallWithMember_eq]
  cases cfg.get method with
  | none => exact ⟨Nat.le_refl _, by intro e1 tag he; cases he⟩
  | some csi =>
    simp only
    rcases getTemporalIdent_casesC obj' [] csp .expr s with ⟨hl, h⟩ | ⟨hl, s0, h, hc⟩
    · rw [h]
      exact callTail_plain_Er csi cx lo hi obj' obj method msp callee' cargs' cargs csp p2 cs2 s s obj' []
        hw hlo hp2 ha (Nat.le_refl _) AllTA.nil (inert_lit hl) (noBlk_litE hl) (recv_lit cx lo hi obj' obj s hl hE)
    · rw [h]
      exact callTail_plain_Er csi cx lo hi obj' obj method msp callee' cargs' cargs csp p2 cs2 s s0 (tempIdent s.counter) _
        hw hlo hp2 ha (by omega) (allTA_single _ _ _) (inert_temp _ _) (noBlk_tempIdentE _) (recv_temp cx lo hi obj' obj csp s s0 hc hE)

/-- `replace_call_expr_if_csi_method_with_member` for `X.prototype.m.call|apply(this, …)` -/
theorem replaceCallWithMember_proto_Er (cfg : Config) (cx : Cx) (lo hi : Nat) (thisE' thisSrc member' memberSrc : Node)
    (method : String) (msp : Span) (callee' : Node) (rest' rest : List Node) (csp : Span) (p2 : Node) (cs2 : Span)
    (ca : String) (s : St)
    (hw : HypW cx hi s) (hlo : lo ≤ s.counter)
    (hp2 : strip p2 = .pname ca Span.dummy)
    (hE : Er cx lo hi thisE' thisSrc)
    (hm : Er cx lo hi member' memberSrc) (hmnl : member'.isLit = false)
    (ha : Forall2 (fun a' a => Er cx lo hi a' a ∧ DeepEr cx lo hi a' a) rest' rest)
    (hres : ∀ member'', BRg member' member'' → ∀ σ', cx.ext σ' → ∀ X, ESim X thisSrc → ∀ Xs,
      resolveCall (erase σ' member'').1 ca csp csp (.arg none X :: Xs) csp =
        .call (.member (erase σ' member'').1 (.pname ca csp) csp) (.arg none X :: Xs) csp) :
    s.counter ≤ (replaceCallWithMember cfg thisE' method msp callee' rest' csp (some member') (some ca) s).2.counter ∧
    ∀ e1 tag, (replaceCallWithMember cfg thisE' method msp callee' rest' csp (some member') (some ca) s).1 = some (e1, tag) →
      Er cx lo (replaceCallWithMember cfg thisE' method msp callee' rest' csp (some member') (some ca) s).2.counter e1
        (.call (.member memberSrc p2 cs2) (.arg none thisSrc :: rest) csp) := by
  rw [replaceCallWithMember_eq]
  cases cfg.get method with
  | none => exact ⟨Nat.le_refl _, by intro e1 tag he; cases he⟩
  | some csi =>
    simp only
    rcases getTemporalIdent_casesC thisE' [] csp .expr s with ⟨hl, h⟩ | ⟨hl, s0, h, hc⟩
    · rw [h]
      exact callTail_proto_Er csi cx lo hi thisE' thisSrc member' memberSrc method msp callee' rest' rest csp p2 cs2 ca s s
        thisE' [] hw hlo hp2 hm hmnl ha (Nat.le_refl _) AllTA.nil (inert_lit hl) (noBlk_litE hl) (recv_lit cx lo hi thisE' thisSrc s hl hE) hres
    · rw [h]
      exact callTail_proto_Er csi cx lo hi thisE' thisSrc member' memberSrc method msp callee' rest' rest csp p2 cs2 ca s s0
        (tempIdent s.counter) _ hw hlo hp2 hm hmnl ha (by omega) (allTA_single _ _ _) (inert_temp _ _) (noBlk_tempIdentE _)
        (recv_temp cx lo hi thisE' thisSrc csp s s0 hc hE) hres

end IastModel

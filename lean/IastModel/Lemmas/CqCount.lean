import IastModel.Lemmas.EffBlock
import IastModel.Lemmas.MirCall
namespace IastModel
open Node

/-- hook call sites with replacement name `d` -/
def isBadHook (q : Node → Bool) (n : Node) : Bool := isHook n && q n

/-- the hook call a transform result ends in: `ddParen` is the call itself or `(asg…, call)`, and `+=`
    assigns that to its target -/
def lastOf (n : Node) : Node :=
  match n with
  | .paren (.seq xs _) _ => xs.getLast?.getD n
  | _ => n

def siteOf (n : Node) : Node :=
  match n with
  | .assign _ _ r _ => lastOf r
  | _ => lastOf n

@[simp] theorem lastOf_ddParen (e : Node) (args asg : List Node) (m : String) (sp : Span) :
    lastOf (ddParen e args asg m sp) = ddCall e args m sp := by
  unfold ddParen
  split
  · rfl
  · simp [lastOf]

@[simp] theorem siteOf_ddParen (e : Node) (args asg : List Node) (m : String) (sp : Span) :
    siteOf (ddParen e args asg m sp) = ddCall e args m sp := by
  unfold ddParen
  split
  · rfl
  · simp [siteOf, lastOf]

@[simp] theorem siteOf_assign (op : String) (t r : Node) (sp : Span) : siteOf (.assign op t r sp) = lastOf r := rfl

def cq (q : Node → Bool) (n : Node) : Nat := Node.count (isBadHook q) n
def cqL (q : Node → Bool) (l : List Node) : Nat := (l.map (cq q)).sum

theorem cq_eq (q : Node → Bool) (n : Node) : cq q n = (if isBadHook q n then 1 else 0) + cqL q n.kids := by
  unfold cqL
  show Node.count (isBadHook q) n = _
  rw [Node.count_eq]; rfl

@[simp] theorem cqL_nil (q) : cqL q [] = 0 := rfl
@[simp] theorem cqL_cons (q) (x : Node) (xs : List Node) : cqL q (x :: xs) = cq q x + cqL q xs := by simp [cqL]
@[simp] theorem cqL_append (q) (xs ys : List Node) : cqL q (xs ++ ys) = cqL q xs + cqL q ys := by simp [cqL, List.sum_append]

theorem cq_nocall (q) (n : Node) (h : ∀ c as sp, n ≠ .call c as sp) : cq q n = cqL q n.kids := by
  rw [cq_eq]
  have : isBadHook q n = false := by
    cases n <;> first | rfl | (exfalso; exact h _ _ _ rfl)
  simp [this]

@[simp] theorem cq_lit (q) (k v r : String) (sp : Span) : cq q (.lit k v r sp) = 0 := by rw [cq_nocall _ _ (by intro c as sp h; cases h)]; simp [kids]
@[simp] theorem cq_pname (q) (n : String) (sp : Span) : cq q (.pname n sp) = 0 := by rw [cq_nocall _ _ (by intro c as sp h; cases h)]; simp [kids]
@[simp] theorem cq_ident (q) (n : Name) (sp : Span) : cq q (.ident n sp) = 0 := by rw [cq_nocall _ _ (by intro c as sp h; cases h)]; simp [kids]
@[simp] theorem cq_atom (q) (s : String) : cq q (.atom s) = 0 := by rw [cq_nocall _ _ (by intro c as sp h; cases h)]; simp [kids]
@[simp] theorem cq_bin (q) (op : String) (l r : Node) (sp : Span) : cq q (.bin op l r sp) = cq q l + cq q r := by rw [cq_nocall _ _ (by intro c as sp h; cases h)]; simp [kids]
@[simp] theorem cq_assign (q) (op : String) (l r : Node) (sp : Span) : cq q (.assign op l r sp) = cq q l + cq q r := by rw [cq_nocall _ _ (by intro c as sp h; cases h)]; simp [kids]
@[simp] theorem cq_member (q) (o p : Node) (sp : Span) : cq q (.member o p sp) = cq q o + cq q p := by rw [cq_nocall _ _ (by intro c as sp h; cases h)]; simp [kids]
@[simp] theorem cq_arg (q) (s : Option Span) (e : Node) : cq q (.arg s e) = cq q e := by rw [cq_nocall _ _ (by intro c as sp h; cases h)]; simp [kids]
@[simp] theorem cq_paren (q) (e : Node) (sp : Span) : cq q (.paren e sp) = cq q e := by rw [cq_nocall _ _ (by intro c as sp h; cases h)]; simp [kids]
@[simp] theorem cq_seq (q) (es : List Node) (sp : Span) : cq q (.seq es sp) = cqL q es := by rw [cq_nocall _ _ (by intro c as sp h; cases h)]; simp [kids]
@[simp] theorem cq_array (q) (es : List Node) (sp : Span) : cq q (.array es sp) = cqL q es := by rw [cq_nocall _ _ (by intro c as sp h; cases h)]; simp [kids]
@[simp] theorem cq_tpl (q) (es qs : List Node) (sp : Span) : cq q (.tpl es qs sp) = cqL q es + cqL q qs := by rw [cq_nocall _ _ (by intro c as sp h; cases h)]; simp [kids]
@[simp] theorem cq_cond (q) (t c a : Node) (sp : Span) : cq q (.cond t c a sp) = cq q t + cq q c + cq q a := by rw [cq_nocall _ _ (by intro c as sp h; cases h)]; simp [kids]; omega
@[simp] theorem cq_optChain (q) (o : Bool) (b : Node) (sp : Span) : cq q (.optChain o b sp) = cq q b := by rw [cq_nocall _ _ (by intro c as sp h; cases h)]; simp [kids]
@[simp] theorem cq_optCall (q) (c : Node) (as : List Node) (sp : Span) : cq q (.optCall c as sp) = cq q c + cqL q as := by rw [cq_nocall _ _ (by intro c as sp h; cases h)]; simp [kids]
@[simp] theorem cq_block (q) (ss : List Node) (sp : Span) : cq q (.block ss sp) = cqL q ss := by rw [cq_nocall _ _ (by intro c as sp h; cases h)]; simp [kids]
@[simp] theorem cq_arrow (q) (ps : List Node) (b : Node) (a : String) (sp : Span) : cq q (.arrow ps b a sp) = cqL q ps + cq q b := by rw [cq_nocall _ _ (by intro c as sp h; cases h)]; simp [kids]
@[simp] theorem cq_arr (q) (xs : List Node) : cq q (.arr xs) = cqL q xs := by rw [cq_nocall _ _ (by intro c as sp h; cases h)]; simp [kids]
@[simp] theorem cq_other (q) (k : String) (sp : Span) (ns' : List String) (vs : List Node) : cq q (.other k sp ns' vs) = cqL q vs := by rw [cq_nocall _ _ (by intro c as sp h; cases h)]; simp [kids]
@[simp] theorem cq_unary (q) (op : String) (a : Node) (sp : Span) : cq q (.unary op a sp) = cq q a := by rw [cq_nocall _ _ (by intro c as sp h; cases h)]; simp [kids]

theorem cq_call (q) (c : Node) (as : List Node) (sp : Span) :
    cq q (.call c as sp) = (if isHook (.call c as sp) && q (.call c as sp) then 1 else 0) + (cq q c + cqL q as) := by
  rw [cq_eq]; simp [isBadHook, kids]

/-- a call that is not a hook call -/
theorem cq_call_user (q) (c : Node) (as : List Node) (sp : Span) (h : hookName? (.call c as sp) = none) :
    cq q (.call c as sp) = cq q c + cqL q as := by
  rw [cq_call]; simp [isHook, h]

/-- the hook call counts for its own name -/
theorem cq_ddCall (q) (e : Node) (args : List Node) (m : String) (sp : Span) :
    cq q (ddCall e args m sp) = (if q (ddCall e args m sp) then 1 else 0) + (cq q e + cqL q args) := by
  have hh : isHook (ddCall e args m sp) = true := by simp [isHook, ddCall, ddCallee, hookName?]
  have hk : ddCall e args m sp = .call (ddCallee m sp) (.arg none e :: args) sp := rfl
  rw [hk, cq_call, ← hk, hh]
  simp [ddCallee]

theorem cq_ddParen (q) (e : Node) (args asg : List Node) (m : String) (sp : Span) :
    cq q (ddParen e args asg m sp) = (if q (ddCall e args m sp) then 1 else 0) + (cq q e + cqL q args + cqL q asg) := by
  unfold ddParen
  split
  · rename_i h; have : asg = [] := by simpa using h
    subst this; simp [cq_ddCall]
  · simp [cq_ddCall]; omega

theorem cq_assignRight (q) (e : Node) (k : IdentKind) : cq q (assignRight e k) = cq q e := by
  cases k <;> simp [assignRight]
theorem cq_exprOrSpread (q) (e : Node) (k : IdentKind) : cq q (exprOrSpread e k) = cq q e := by
  cases k <;> simp [exprOrSpread]

theorem isLiteralSum_cq (q) : ∀ e : Node, isLiteralSum e = true → cq q e = 0 := by
  intro e
  induction e using Node.rec (motive_2 := fun _ => True) with
  | lit => intro _; simp
  | bin op l r sp ihl ihr =>
    intro h
    simp [isLiteralSum] at h
    simp [ihl h.1.2, ihr h.2]
  | nil => trivial
  | cons => trivial
  | _ => intro h; simp [isLiteralSum] at h

theorem isLit_cq (q) {e : Node} (h : e.isLit = true) : cq q e = 0 := by
  cases e <;> simp_all [Node.isLit]

end IastModel

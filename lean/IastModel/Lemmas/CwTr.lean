import IastModel.Lemmas.CertTr
namespace IastModel
open Node

open Classical in
/-- the hook site does not mirror its operation under some later rewriting of its block statements -/
noncomputable def notRobust (cfg : Config) (h : Node) : Bool := decide (¬ RobustOK cfg h)

theorem notRobust_false {cfg : Config} {h : Node} (hr : RobustOK cfg h) : notRobust cfg h = false := by
  simp [notRobust, hr]

theorem robust_of_notRobust_false {cfg : Config} {h : Node} (hr : notRobust cfg h = false) : RobustOK cfg h := by
  simpa [notRobust] using hr

/-- the number of hook sites of a tree that are not `RobustOK` -/
noncomputable def cw (cfg : Config) (n : Node) : Nat := cq (notRobust cfg) n
noncomputable def cwL (cfg : Config) (l : List Node) : Nat := cqL (notRobust cfg) l

theorem certRes_robust {cfg : Config} {e' : Node} (h : CertRes cfg e') : notRobust cfg (lastOf e') = false := by
  obtain ⟨first, args, asg, name, sp, rfl, hc, hn⟩ := h
  rw [lastOf_ddParen]
  exact notRobust_false (robust_of_cert sp hc hn)

theorem toDdBinary_W (cfg : Config) (l r : Node) (sp : Span) (s : St) :
    ∀ e', (toDdBinary cfg (.bin "+" l r sp) s).1 = some e' → cw cfg e' = cw cfg l + cw cfg r := by
  intro e' he
  have := toDdBinary_Q (notRobust cfg) cfg "+" l r sp s e' he
  rw [certRes_robust (toDdBinary_cert cfg l r sp s e' he)] at this
  simpa [cw] using this

theorem toDdTpl_W (cfg : Config) (es qs : List Node) (sp : Span) (s : St) :
    ∀ e', (toDdTpl cfg (.tpl es qs sp) s).1 = some e' → cw cfg e' = cw cfg (.tpl es qs sp) := by
  intro e' he
  have := toDdTpl_Q (notRobust cfg) cfg es qs sp s e' he
  rw [certRes_robust (toDdTpl_cert cfg es qs sp s e' he)] at this
  simpa [cw] using this

theorem toDdAssign_W (cfg : Config) (op : String) (left r : Node) (sp : Span) (s : St) (hts : tshape left = true) :
    ∀ e', (toDdAssign cfg (.assign op left r sp) s).1 = some e' → cw cfg e' = cw cfg (.assign op left r sp) := by
  intro e' he
  obtain ⟨target, e1, h1, hc⟩ := toDdAssign_cert cfg op left r sp s e' he
  have := toDdAssign_Q (notRobust cfg) cfg op left r sp s hts e' he
  rw [h1, siteOf_assign, certRes_robust hc] at this
  rw [h1]
  simpa [cw] using this

theorem toDdCall_W (cfg : Config) (callee : Node) (cargs : List Node) (csp : Span) (s : St) :
    ∀ e' tag, (toDdCall cfg (.call callee cargs csp) s).1 = some (e', tag) →
      cw cfg e' = cw cfg callee + cwL cfg cargs := by
  intro e' tag he
  obtain ⟨csi, _, this⟩ := toDdCall_Q (notRobust cfg) cfg callee cargs csp s e' tag he
  rw [certRes_robust (toDdCall_cert cfg callee cargs csp s e' tag he)] at this
  simpa [cw, cwL] using this

end IastModel

import IastModel.Lemmas.CqOc
namespace IastModel
open Node

theorem cqL_atoms' (q : Node → Bool) (vs : List Node) (h : vs.all isAtomNode = true) : cqL q vs = 0 := by
  induction vs with
  | nil => rfl
  | cons v vs ih =>
    simp only [List.all_cons, Bool.and_eq_true] at h
    cases v <;> simp_all [isAtomNode]

theorem simple_cq (q : Node → Bool) {e : Node} (hs : isSimpleTargetPart e = true) : cq q e = 0 := by
  unfold isSimpleTargetPart at hs
  split at hs
  · simp
  · simp
  · simp
  · cases hs

def SplitQ (q : Node → Bool) (left : Node) (R : (Node × Node) × St) : Prop := cq q R.1.1 + cq q R.1.2 = cq q left

theorem cq_seqOperand (q : Node → Bool) (e : Node) : cq q (seqOperand e) = cq q e := by
  unfold seqOperand; split <;> simp

theorem hoistTargetPart_Q (q : Node → Bool) (e : Node) (sp : Span) (s : St) : SplitQ q e (hoistTargetPart e sp s) := by
  unfold hoistTargetPart
  simp only [run_bind]
  rcases getTemporalIdent_cases (seqOperand e) [] sp .expr s with ⟨hl, h⟩ | ⟨hl, n, s', h, _⟩
  · rw [h]; simp only [run_pure]
    have := isLit_cq q hl
    rw [cq_seqOperand] at this
    simp [SplitQ, cq_seqOperand, this]
  · rw [h]
    simp only [List.nil_append, List.getLast?_singleton, run_pure]
    simp [SplitQ, tempIdent, assignRight, cq_seqOperand]

theorem splitComputedKey_Q (q : Node → Bool) (csp : Span) (e : Node) (sp : Span) (s : St) :
    SplitQ q (.other "Computed" csp ["expression"] [e]) (splitComputedKey csp e sp s) := by
  unfold splitComputedKey
  simp only [run_bind, run_pure]
  have h := hoistTargetPart_Q q e sp s
  generalize hoistTargetPart e sp s = R at h
  obtain ⟨⟨tk, okk⟩, s'⟩ := R
  simp only [SplitQ] at h ⊢
  simp only [cq_other, cqL_cons, cqL_nil]
  omega

theorem propShape_cq (q : Node → Bool) {p : Node} (hp : propShape p = true)
    (hsimple : ∀ csp e, p = .other "Computed" csp ["expression"] [e] → isSimpleTargetPart e = true) : cq q p = 0 := by
  unfold propShape at hp
  split at hp
  · simp
  · rename_i csp e
    have := hsimple _ _ rfl
    simp [simple_cq q this]
  · rename_i k sp ns' vs _
    simp only [Bool.and_eq_true, beq_iff_eq] at hp
    simp [cqL_atoms' q _ hp.2]
  · cases hp

theorem splitProp_Q (q : Node → Bool) (prop : Node) (sp : Span) (s : St) (hp : propShape prop = true) :
    SplitQ q prop (splitProp prop sp s) := by
  unfold splitProp
  split
  · rename_i csp e
    by_cases hs : isSimpleTargetPart e = true
    · simp only [hs, Bool.not_true, Bool.false_eq_true, if_false, run_pure]
      have := propShape_cq q hp (by intro csp' e' he; cases he; exact hs)
      simp [SplitQ, this]
    · simp only [hs, Bool.not_false, if_true]
      exact splitComputedKey_Q q csp e sp s
  · rename_i hne
    simp only [run_pure]
    have := propShape_cq q hp (by intro csp e he; exact absurd he (hne csp e))
    simp [SplitQ, this]

theorem keyIsSimple_cq (q : Node → Bool) {prop : Node} (hp : propShape prop = true) (hk : keyIsSimple prop = true) : cq q prop = 0 := by
  refine propShape_cq q hp ?_
  intro csp e he
  subst he
  simpa [keyIsSimple] using hk

theorem splitMemberTarget_Q (q : Node → Bool) (sp : Span) : ∀ (left : Node), tshape left = true →
    ∀ s, SplitQ q left (splitMemberTarget left sp s) ∧
      isTempIdent (splitMemberTarget left sp s).1.1 = isTempIdent left := by
  apply Node.ind
  intro left ih hts s
  unfold tshape at hts
  split at hts
  · simp only [splitMemberTarget, run_pure]
    exact ⟨by simp [SplitQ], by first | rfl | trivial⟩
  · rename_i obj prop msp
    simp only [splitMemberTarget]
    by_cases hcond : (!isSimpleTargetPart obj || !keyIsSimple prop) = true
    · simp only [hcond, if_true]
      by_cases hrep : (isSimpleTargetPart obj && (keyIsSimple prop || !obj.isIdent)) = true
      · simp only [hrep, if_true, run_bind, run_pure]
        simp only [Bool.and_eq_true] at hrep
        have n0 := simple_cq q hrep.1
        have hprop := splitProp_Q q prop sp s hts
        generalize splitProp prop sp s = R2 at hprop
        obtain ⟨⟨tprop, oprop⟩, s2⟩ := R2
        simp only [SplitQ] at hprop ⊢
        exact ⟨by simp only [cq_member]; omega, rfl⟩
      · simp only [hrep, Bool.false_eq_true, if_false, run_bind, run_pure]
        have hobj := hoistTargetPart_Q q obj sp s
        generalize hoistTargetPart obj sp s = R1 at hobj
        obtain ⟨⟨tobj, oobj⟩, s1⟩ := R1
        have hprop := splitProp_Q q prop sp s1 hts
        generalize splitProp prop sp s1 = R2 at hprop
        obtain ⟨⟨tprop, oprop⟩, s2⟩ := R2
        simp only [SplitQ] at hobj hprop ⊢
        exact ⟨by simp only [cq_member]; omega, rfl⟩
    · simp only [hcond, Bool.false_eq_true, if_false, run_pure]
      simp only [Bool.or_eq_true, Bool.not_eq_true', not_or, Bool.not_eq_false] at hcond
      exact ⟨by simp [SplitQ, simple_cq q hcond.1, keyIsSimple_cq q hts hcond.2], by first | rfl | trivial⟩
  · rename_i ssp sp2 n2 prop
    simp only [splitMemberTarget]
    have hsup : cq q (Node.other "Super" sp2 n2 []) = 0 := by simp
    by_cases hk : keyIsSimple prop = true
    · simp only [hk, Bool.not_true, Bool.false_eq_true, if_false, run_pure]
      refine ⟨?_, by first | rfl | trivial⟩
      simp only [SplitQ, cq_other, cqL_cons, cqL_nil, hsup, keyIsSimple_cq q hts hk]
    · simp only [hk, Bool.not_false, if_true, run_bind, run_pure]
      have hprop := splitProp_Q q prop sp s hts
      generalize splitProp prop sp s = R2 at hprop
      obtain ⟨⟨tprop, oprop⟩, s2⟩ := R2
      simp only [SplitQ] at hprop ⊢
      refine ⟨?_, rfl⟩
      simp only [cq_other, cqL_cons, cqL_nil, hsup]
      omega
  · rename_i e psp
    simp only [splitMemberTarget]
    by_cases hsi : isSplittableInner e = true
    · simp only [hsi, if_true, run_bind, run_pure]
      have h := (ih e (by simp [kids]) hts s).1
      generalize splitMemberTarget e sp s = R at h
      obtain ⟨⟨t, o⟩, s'⟩ := R
      simp only [SplitQ] at h ⊢
      exact ⟨by simp only [cq_paren]; omega, rfl⟩
    · simp only [hsi, Bool.false_eq_true, if_false, run_pure]
      refine ⟨?_, by first | rfl | trivial⟩
      -- a target shape that is not splittable is an identifier
      cases e <;> simp_all [tshape, isSplittableInner, SplitQ]
  · cases hts

end IastModel

namespace IastModel
open Node

theorem toDdAssign_Q (q : Node → Bool) (cfg : Config) (op : String) (left r : Node) (sp : Span) (s : St) (hts : tshape left = true) :
    ∀ e', (toDdAssign cfg (.assign op left r sp) s).1 = some e' → cq q e' = (if q (siteOf e') then 1 else 0) + cq q (.assign op left r sp) := by
  simp only [toDdAssign]
  by_cases hp : isPatternTarget left = true
  · simp only [hp, if_true, run_pure]; intro e' h; cases h
  · simp only [hp, Bool.false_eq_true, if_false, run_bind, run_pure]
    have hnr : cq q (assignRhs r) = cq q r := by unfold assignRhs; split <;> simp
    have h1 := splitMemberTarget_Q q sp left hts s
    generalize splitMemberTarget left sp s = R1 at h1
    obtain ⟨⟨target, operand⟩, s1⟩ := R1
    obtain ⟨a1, a2⟩ := h1
    simp only [SplitQ] at a1 a2
    have h2 := toDdBinary_Q q cfg "+" operand (assignRhs r) sp s1
    generalize toDdBinary cfg (.bin "+" operand (assignRhs r) sp) s1 = R2 at h2
    obtain ⟨res, s2⟩ := R2
    simp only at h2
    cases res with
    | none => simp only [run_pure]; intro e' h; cases h
    | some e1 =>
      simp only [run_pure]
      intro e' he
      simp only [Option.some.injEq] at he
      subst he
      have := h2 e1 rfl
      simp only [cq_assign, siteOf_assign]
      by_cases hq : q (lastOf e1) = true <;> simp only [hq, if_true, Bool.false_eq_true, if_false] at this ⊢ <;> omega


end IastModel

import IastModel.Lemmas.ErBlock
/-
  No temporary survives erasure: a tree that is a temporary-free source tree up to positions has no
  temporary in it.  With the erasure theorem this says that every read of an injected temporary is
  resolved, in evaluation order, by an assignment made before it in the same block.
-/
namespace IastModel
open Node

def noTempK (k : Node) : Bool := (tempOf? k).isNone
def noTemps (n : Node) : Bool := Node.all noTempK n

theorem noTemps_eq (n : Node) : noTemps n = (noTempK n && n.kids.all noTemps) := by
  unfold noTemps; rw [Node.all_eq]

theorem stripL_map (l : List Node) : stripL l = l.map strip := by
  induction l with
  | nil => rfl
  | cons x xs ih => simp [stripL, ih]

theorem kids_strip (n : Node) : (strip n).kids = stripL n.kids := by
  cases n <;> simp [strip, kids, stripL, stripL_map]

theorem noTempK_strip (n : Node) : noTempK (strip n) = noTempK n := by
  cases n with
  | ident nm sp => cases nm <;> rfl
  | _ => rfl

theorem all_congr_mem {f g : Node → Bool} : ∀ (l : List Node), (∀ k ∈ l, f k = g k) → l.all f = l.all g := by
  intro l
  induction l with
  | nil => intro _; rfl
  | cons x xs ih => intro h; simp only [List.all_cons, h x (by simp), ih (fun k hk => h k (by simp [hk]))]

theorem noTemps_strip : ∀ n : Node, noTemps (strip n) = noTemps n := by
  apply Node.ind
  intro n ih
  rw [noTemps_eq, noTemps_eq n, kids_strip, noTempK_strip, stripL_map, List.all_map]
  congr 1
  exact all_congr_mem n.kids (fun k hk => ih k hk)

theorem noTemps_src : ∀ n : Node, srcOk n = true → noTemps n = true := by
  apply Node.ind
  intro n ih hs
  rw [noTemps_eq, Bool.and_eq_true]
  refine ⟨?_, List.all_eq_true.mpr (fun k hk => ih k hk (srcOk_kids hs k hk))⟩
  have h0 := srcOk_self hs
  cases n with
  | ident nm sp =>
    cases nm with
    | user x => rfl
    | temp k => simp [srcNode] at h0
  | _ => rfl

theorem hasTemp_eq (n : Node) : hasTemp n = !noTemps n := rfl

end IastModel

import IastModel.Lemmas.BlockSpec
namespace IastModel
open Node

/-- expression statement -/
def isES : Node → Bool
  | .exprStmt .. => true
  | _ => false

theorem withKids_isES (n : Node) (ks : List Node) : isES (n.withKids ks) = isES n := by
  cases n <;> rfl

theorem isDd_not_es {e : Node} (h : IsDd e) : isES e = false := by
  obtain ⟨x, args, asg, m, sp, rfl⟩ := h
  unfold ddParen; split <;> rfl

theorem ocSpine_es (v : Node → OcM Node) (e : Node) (oc : OcSt) (s : St) (h : isES e = false) :
    isES ((ocSpine v e oc s).1.1) = false := by
  unfold ocSpine
  split
  · simp only [oc_bind, oc_pure]; rfl
  · simp only [oc_bind, oc_pure]; rfl
  · split
    · simpa [oc_pure] using h
    · simp only [oc_bind, oc_pure]; rfl
  · simp only [oc_bind, oc_pure]; rfl
  · simpa [oc_pure] using h


theorem getCallFromBaseCall_es (callee : Node) (args : List Node) (optional : Bool) (oc : OcSt) (s : St) (r : Node)
    (h : (getCallFromBaseCall callee args optional oc s).1.1 = some r) : isES r = false := by
  unfold getCallFromBaseCall at h
  by_cases ho : optional = true
  · simp only [ho, if_true] at h
    cases callee with
    | member mobj mprop msp =>
      simp only [oc_bind, oc_get, oc_set, oc_lift, oc_pure, oc_modify] at h
      generalize (getIdentUsed mobj oc.assignments [] Span.dummy IdentKind.expr s) = X at h
      obtain ⟨⟨id, asg1, a1⟩, s1⟩ := X
      cases id with
      | none => simp [oc_pure] at h
      | some t0 =>
        simp only [oc_bind, oc_get, oc_set, oc_lift, oc_pure, oc_modify] at h
        generalize (getIdentUsed _ asg1 [] Span.dummy IdentKind.expr s1) = Y at h
        obtain ⟨⟨id2, asg2, a2⟩, s2⟩ := Y
        cases id2 with
        | none => simp [oc_pure] at h
        | some t1 =>
          simp only [oc_bind, oc_modify, oc_pure] at h
          simp at h; subst h; rfl
    | _ =>
      simp only [oc_bind, oc_get, oc_set, oc_lift, oc_pure, oc_modify] at h
      generalize (getIdentUsed _ oc.assignments [] Span.dummy IdentKind.expr s) = X at h
      obtain ⟨⟨id, asg1, a1⟩, s1⟩ := X
      cases id with
      | none => simp [oc_pure] at h
      | some t0 =>
        simp only at h
        by_cases he : asg1.isEmpty = true
        · simp [he, oc_pure] at h
        · simp only [he, Bool.false_eq_true, if_false, oc_bind, oc_modify, oc_pure] at h
          simp at h; subst h; rfl
  · simp only [ho, Bool.false_eq_true, if_false, oc_pure] at h
    simp at h; subst h; rfl

theorem getMemberFromBaseMember_es (obj prop : Node) (msp : Span) (optional : Bool) (oc : OcSt) (s : St) (r : Node)
    (h : (getMemberFromBaseMember obj prop msp optional oc s).1.1 = some r) : isES r = false := by
  unfold getMemberFromBaseMember at h
  by_cases ho : optional = true
  · simp only [ho, if_true, oc_bind, oc_get, oc_set, oc_lift, oc_pure] at h
    generalize (getIdentUsed obj oc.assignments [] Span.dummy IdentKind.expr s) = X at h
    obtain ⟨⟨id, asg1, a1⟩, s1⟩ := X
    cases id with
    | none => simp [oc_pure] at h
    | some t =>
      simp only [oc_bind, oc_modify, oc_pure] at h
      simp at h; subst h; rfl
  · simp only [ho, Bool.false_eq_true, if_false, oc_pure] at h
    simp at h; subst h; rfl

theorem ocVisit_es (cfg : Config) : ∀ (f : Nat) (n : Node) (oc : OcSt) (s : St),
    isES n = false → isES ((ocVisit cfg f n oc s).1.1) = false := by
  intro f
  induction f with
  | zero =>
    intro n oc s h
    simp only [ocVisit, oc_bind, oc_lift, oc_pure]
    exact h
  | succ f ih =>
    intro n oc s h
    unfold ocVisit
    split
    · -- optChain
      rename_i optional base sp
      rw [oc_bind, oc_get]
      show isES ((ite (oc.found = true) _ _ : OcM Node) oc s).1.1 = false
      by_cases hf : oc.found = true
      · rw [if_pos hf]
        have key : ∀ (m : OcM (Option Node)),
            (∀ r, (m oc s).1.1 = some r → isES r = false) →
            isES ((do
              let r ← m
              if optional = true then pure (r.getD (optChain optional base sp))
              else ocSpine (ocVisit cfg f) (r.getD (optChain optional base sp)) : OcM Node) oc s).1.1 = false := by
          intro m hm
          simp only [oc_bind]
          generalize hR : m oc s = R at hm
          obtain ⟨⟨r, oc1⟩, s1⟩ := R
          have hr1 : isES (r.getD (Node.optChain optional base sp)) = false := by
            cases r with
            | none => rfl
            | some x => exact hm x rfl
          by_cases ho : optional = true
          · rw [if_pos ho, oc_pure]; exact hr1
          · rw [if_neg ho]
            exact ocSpine_es _ _ _ _ hr1
        cases base with
        | optCall callee args csp => exact key _ (fun r hr => getCallFromBaseCall_es _ _ _ _ _ _ hr)
        | member obj prop msp => exact key _ (fun r hr => getMemberFromBaseMember_es _ _ _ _ _ _ _ hr)
        | _ => exact key (pure none) (fun r hr => by simp [oc_pure] at hr)
      · rw [if_neg hf]
        by_cases ht : ocTrigger cfg optional base = true
        · rw [if_pos ht]; simp only [oc_bind, oc_modify]
          exact ih _ _ _ rfl
        · rw [if_neg ht]; exact ocSpine_es _ _ _ _ rfl
    · rw [oc_pure]; exact h



theorem toDdCond_es (cfg : Config) (fuel : Nat) (e : Node) (s : St) (h : isES e = false) :
    isES (toDdCond cfg fuel e s).1.1 = false ∧ ∀ r, (toDdCond cfg fuel e s).1.2 = some r → isES r = false := by
  unfold toDdCond
  simp only [run_bind]
  have hv : isES (StateT.run (ocVisit cfg fuel e) {} s).1.1 = false := ocVisit_es cfg fuel e {} s h
  generalize (StateT.run (ocVisit cfg fuel e) {} s) = X at hv ⊢
  obtain ⟨⟨e', oc⟩, s'⟩ := X
  have hv' : isES e' = false := hv
  cases hn : oc.newIdent with
  | none => simp [hn, run_pure, hv']
  | some t =>
    simp only [hn]
    by_cases ha : oc.assignments.isEmpty = true
    · simp [ha, run_pure, hv']
    · simp only [ha, Bool.false_eq_true, if_false, run_pure]
      refine ⟨hv', ?_⟩
      intro r hr
      simp at hr
      subst hr
      rfl


theorem mapKidsM_es (f : Node → M Node) (n : Node) (s : St) : isES (mapKidsM mapM' f n s).1 = isES n := by
  simp [mapKidsM, run_bind, run_pure, withKids_isES]

theorem visit_es (cfg : Config) : ∀ (f : Nat) (root : Bool) (n : Node) (s : St),
    isES n = false → isES (visit cfg f root n s).1 = false := by
  intro f
  induction f with
  | zero => intro root n s h; simpa [visit, run_bind, run_pure, outOfFuel] using h
  | succ f ih =>
    intro root n s h0
    cases n with
    | ident nm sp => simp [visit, run_bind, run_pure, isES]
    | lit k v r sp =>
      simp only [visit]
      rw [mapKidsM_es]; rfl
    | bin op l r sp =>
      simp only [visit]
      split
      · simp only [run_bind]
        generalize hK : mapKidsM mapM' (visit cfg f false) (Node.bin op l r sp) s = K
        have hk : isES K.1 = false := by rw [← hK, mapKidsM_es]; rfl
        obtain ⟨n1, s1⟩ := K
        simp only at hk ⊢
        split
        · simp only [run_bind, run_pure]
          generalize hX : toDdBinary cfg n1 s1 = X
          obtain ⟨res, s2⟩ := X
          have hres : isES (res.getD n1) = false := by
            cases res with
            | none => exact hk
            | some e' => exact isDd_not_es (toDdBinary_isDd cfg n1 s1 e' (by rw [hX]))
          rw [finish_fst]; exact hres
        · simp only [run_bind, run_pure]; rw [finish_fst]; exact hk
      · rw [mapKidsM_es]; rfl
    | assign op l r sp =>
      simp only [visit]
      split
      · simp only [run_bind]
        generalize hK : mapKidsM mapM' (visit cfg f false) (Node.assign op l r sp) s = K
        have hk : isES K.1 = false := by rw [← hK, mapKidsM_es]; rfl
        obtain ⟨n1, s1⟩ := K
        simp only at hk ⊢
        split
        · simp only [run_bind, run_pure]
          generalize hX : toDdAssign cfg n1 s1 = X
          obtain ⟨res, s2⟩ := X
          have hres : isES (res.getD n1) = false := by
            cases res with
            | none => exact hk
            | some e' =>
              obtain ⟨t, d, sp', he, _⟩ := toDdAssign_shape cfg n1 s1 e' (by rw [hX])
              subst he; rfl
          rw [finish_fst]; exact hres
        · simp only [run_bind, run_pure]; rw [finish_fst]; exact hk
      · rw [mapKidsM_es]; rfl
    | tpl es qs sp =>
      simp only [visit]
      split
      · split
        · simp only [run_bind]
          generalize hK : mapKidsM mapM' (visit cfg f false) (Node.tpl es qs sp) s = K
          have hk : isES K.1 = false := by rw [← hK, mapKidsM_es]; rfl
          obtain ⟨n1, s1⟩ := K
          simp only at hk ⊢
          generalize hX : toDdTpl cfg n1 s1 = X
          obtain ⟨res, s2⟩ := X
          have hres : isES (res.getD n1) = false := by
            cases res with
            | none => exact hk
            | some e' => exact isDd_not_es (toDdTpl_isDd cfg n1 s1 e' (by rw [hX]))
          by_cases hr : root = true <;> simp [hr, run_bind, run_pure, hres]
        · simp [run_pure, isES]
      · rw [mapKidsM_es]; rfl
    | call c as sp =>
      simp only [visit, run_bind]
      generalize hK : mapKidsM mapM' (visit cfg f false) (Node.call c as sp) s = K
      have hk : isES K.1 = false := by rw [← hK, mapKidsM_es]; rfl
      obtain ⟨n1, s1⟩ := K
      simp only at hk ⊢
      split
      · split
        · simp only [run_bind, run_pure]; rw [finish_fst]; exact hk
        · simp only [run_bind]
          generalize hX : toDdCall cfg _ s1 = X
          obtain ⟨res, s2⟩ := X
          cases res with
          | none => simp only [run_bind, run_pure]; rw [finish_fst]; exact hk
          | some et =>
            obtain ⟨e', tag⟩ := et
            simp only [run_bind, run_pure]; rw [finish_fst]
            exact isDd_not_es (toDdCall_isDd cfg _ s1 e' tag (by rw [hX]))
      · simp only [run_bind, run_pure]; rw [finish_fst]; exact hk
    | optChain o b sp =>
      simp only [visit, run_bind]
      have hc := toDdCond_es cfg f (Node.optChain o b sp) s rfl
      generalize toDdCond cfg f (Node.optChain o b sp) s = C at hc
      obtain ⟨⟨e', res⟩, s1⟩ := C
      simp only at hc ⊢
      have he2 : isES (res.getD e') = false := by
        cases res with
        | none => exact hc.1
        | some r => exact hc.2 r rfl
      rw [finish_fst, mapKidsM_es]; exact he2
    | unary op a sp =>
      simp only [visit]
      split
      · rfl
      · rw [mapKidsM_es]; rfl
    | arrow ps b at' sp =>
      simp only [visit, run_pure, toDdArrow]
      split <;> rfl
    | block ss sp => simp [visit, run_pure, isES]
    | _ =>
      simp only [visit]
      rw [mapKidsM_es]; exact h0

end IastModel

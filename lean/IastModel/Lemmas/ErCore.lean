import IastModel.Lemmas.ErBR
import IastModel.Rewriter.Transforms
/-
  The erasure invariant of the operand handler.  `Er cx lo hi e' e`: in every environment that
  extends the context's base by bindings outside the context's window, `erase` turns the (already
  rewritten) operand `e'` into the source operand `e` and binds only temporaries of `[lo, hi)`.
-/
namespace IastModel
open Node

def Win (lo hi : Nat) (Δ : Env) : Prop := ∀ p ∈ Δ, lo ≤ p.1 ∧ p.1 < hi
def Avoid (a0 a1 : Nat) (Δ : Env) : Prop := ∀ p ∈ Δ, p.1 < a0 ∨ a1 ≤ p.1

/-- no binding of `Δ` has a key in `bad` -/
def AvoidP (bad : Nat → Prop) (Δ : Env) : Prop := ∀ p ∈ Δ, ¬ bad p.1

theorem AvoidP.nil (bad : Nat → Prop) : AvoidP bad [] := by intro p hp; cases hp

theorem AvoidP.append {bad : Nat → Prop} {Δ Δ' : Env} (h : AvoidP bad Δ) (h' : AvoidP bad Δ') : AvoidP bad (Δ ++ Δ') := by
  intro p hp
  rcases List.mem_append.mp hp with hp | hp
  · exact h p hp
  · exact h' p hp

/-- a context: a base environment and the keys later bindings must stay away from -/
structure Cx where
  bad : Nat → Prop
  base : Env

/-- `σ` extends the base by bindings whose keys are not `bad` -/
def Cx.ext (cx : Cx) (σ : Env) : Prop := ∃ Δ, σ = Δ ++ cx.base ∧ AvoidP cx.bad Δ

theorem Cx.ext_base (cx : Cx) : cx.ext cx.base := ⟨[], rfl, by intro p hp; cases hp⟩

theorem Cx.ext_append {cx : Cx} {σ Δ : Env} (h : cx.ext σ) (ha : AvoidP cx.bad Δ) : cx.ext (Δ ++ σ) := by
  obtain ⟨Δ0, rfl, h0⟩ := h
  refine ⟨Δ ++ Δ0, by simp, ?_⟩
  intro p hp
  rcases List.mem_append.mp hp with hp | hp
  · exact ha p hp
  · exact h0 p hp

theorem Avoid.nil (a0 a1 : Nat) : Avoid a0 a1 [] := by intro p hp; cases hp

theorem Avoid.append {a0 a1 : Nat} {Δ Δ' : Env} (h : Avoid a0 a1 Δ) (h' : Avoid a0 a1 Δ') : Avoid a0 a1 (Δ ++ Δ') := by
  intro p hp
  rcases List.mem_append.mp hp with hp | hp
  · exact h p hp
  · exact h' p hp

theorem Win.nil (lo hi : Nat) : Win lo hi [] := by intro p hp; cases hp

theorem Win.append {lo hi : Nat} {Δ Δ' : Env} (h : Win lo hi Δ) (h' : Win lo hi Δ') : Win lo hi (Δ ++ Δ') := by
  intro p hp
  rcases List.mem_append.mp hp with hp | hp
  · exact h p hp
  · exact h' p hp

theorem Win.mono {lo hi lo' hi' : Nat} {Δ : Env} (h : Win lo hi Δ) (h1 : lo' ≤ lo) (h2 : hi ≤ hi') : Win lo' hi' Δ := by
  intro p hp; have := h p hp; omega

theorem Win.avoidP {lo hi : Nat} {bad : Nat → Prop} {Δ : Env} (h : Win lo hi Δ) (h1 : ∀ k, bad k → hi ≤ k) : AvoidP bad Δ := by
  intro p hp hb; have := h p hp; have := h1 _ hb; omega

/-- `e'` — and every tree obtained from it by replacing nested blocks with blocks that erase to them —
    erases to `e` in every environment extending the context -/
def Er (cx : Cx) (lo hi : Nat) (e' e : Node) : Prop :=
  ∀ e'', BRg e' e'' → ∀ σ, cx.ext σ → ∃ X Δ, erase σ e'' = (X, Δ ++ σ) ∧ ESim X e ∧ Win lo hi Δ

/-- the context-free form: in every environment -/
def ErAll (lo hi : Nat) (e' e : Node) : Prop :=
  ∀ e'', BRg e' e'' → ∀ σ, ∃ X Δ, erase σ e'' = (X, Δ ++ σ) ∧ ESim X e ∧ Win lo hi Δ

theorem ErAll.er {lo hi : Nat} {e' e : Node} (h : ErAll lo hi e' e) (cx : Cx) : Er cx lo hi e' e :=
  fun e'' hb σ _ => h e'' hb σ

theorem Er.mono {cx : Cx} {lo hi lo' hi' : Nat} {e' e : Node} (h : Er cx lo hi e' e) (h1 : lo' ≤ lo) (h2 : hi ≤ hi') :
    Er cx lo' hi' e' e := by
  intro e'' hb σ hσ
  obtain ⟨X, Δ, a, b, c⟩ := h e'' hb σ hσ
  exact ⟨X, Δ, a, b, c.mono h1 h2⟩

theorem ErAll.mono {lo hi lo' hi' : Nat} {e' e : Node} (h : ErAll lo hi e' e) (h1 : lo' ≤ lo) (h2 : hi ≤ hi') :
    ErAll lo' hi' e' e := by
  intro e'' hb σ
  obtain ⟨X, Δ, a, b, c⟩ := h e'' hb σ
  exact ⟨X, Δ, a, b, c.mono h1 h2⟩

/-- a replacement of a replacement's parts: the invariant is inherited by what it is stated for -/
theorem Er.of_eq {cx : Cx} {lo hi : Nat} {e1 e2 e : Node} (h : Er cx lo hi e1 e) (he : e2 = e1) : Er cx lo hi e2 e := he ▸ h

theorem unSpread_src {e : Node} (h : srcOk e = true) : unSpread e = e := by
  unfold unSpread
  split
  · rename_i s x asp
    have := srcOk_self h
    simp only [srcNode, Bool.not_eq_true'] at this
    simp [this]
  · rfl

theorem noSp_unSpread : ∀ {X : Node}, noSp X → unSpread X = X := by
  intro X h
  cases X <;> first | exact h | rfl

theorem noSp_src : ∀ e : Node, srcOk e = true → noSp e := by
  apply Node.ind
  intro e ih h
  cases e with
  | arg s x => simp only [noSp]; exact ih x (by simp [kids]) (srcOk_kids h x (by simp [kids]))
  | _ => exact unSpread_src h

/-! ### assignment lists -/

/-- the environment after erasing a list of (temporary) assignments in order -/
def eraseAsg (σ : Env) : List Node → Env
  | [] => σ
  | a :: as => eraseAsg (erase σ a).2 as

theorem eraseAsg_append (σ : Env) (xs ys : List Node) : eraseAsg σ (xs ++ ys) = eraseAsg (eraseAsg σ xs) ys := by
  induction xs generalizing σ with
  | nil => rfl
  | cons x xs ih => simp only [List.cons_append, eraseAsg]; exact ih _

theorem eraseSeq_snoc (σ : Env) (asg : List Node) (c : Node) : eraseSeq σ (asg ++ [c]) = erase (eraseAsg σ asg) c := by
  induction asg generalizing σ with
  | nil => simp [eraseSeq, eraseAsg]
  | cons a as ih =>
    cases as with
    | nil => simp [eraseSeq, eraseAsg]
    | cons b bs =>
      simp only [List.cons_append, eraseSeq, eraseAsg]
      exact ih _

def AllTA (asg : List Node) : Prop := ∀ a ∈ asg, isTempAssign a = true

theorem AllTA.nil : AllTA [] := by intro a h; cases h
theorem AllTA.append {xs ys : List Node} (h1 : AllTA xs) (h2 : AllTA ys) : AllTA (xs ++ ys) := by
  intro a ha
  rcases List.mem_append.mp ha with h | h
  · exact h1 a h
  · exact h2 a h

/-- erasing an argument leaves the environment alone -/
def Inert (a : Node) : Prop := ∀ σ, (erase σ a).2 = σ
def InertL (l : List Node) : Prop := ∀ a ∈ l, Inert a

theorem InertL.nil : InertL [] := by intro a h; cases h
theorem InertL.append {xs ys : List Node} (h1 : InertL xs) (h2 : InertL ys) : InertL (xs ++ ys) := by
  intro a ha
  rcases List.mem_append.mp ha with h | h
  · exact h1 a h
  · exact h2 a h

theorem eraseL_inert (l : List Node) (h : InertL l) (σ : Env) : (eraseL σ l).2 = σ := by
  induction l generalizing σ with
  | nil => rfl
  | cons x xs ih =>
    simp only [eraseL]
    have hx := h x (by simp) σ
    generalize erase σ x = R at hx
    obtain ⟨x', σ1⟩ := R
    simp only at hx
    subst hx
    simp only
    exact ih (fun a ha => h a (by simp [ha])) _

theorem inert_temp (n : Nat) (sp : Span) : Inert (.ident (.temp n) sp) := by intro σ; simp [erase]
theorem inert_lit {e : Node} (h : e.isLit = true) : Inert e := by
  intro σ; cases e <;> simp_all [Node.isLit, erase]
theorem inert_arg {s : Option Span} {e : Node} (h : Inert e) : Inert (.arg s e) := by
  intro σ; simp only [erase]; exact h σ
theorem inert_exprOrSpread {e : Node} (k : IdentKind) (h : Inert e) : Inert (exprOrSpread e k) := by
  cases k <;> exact inert_arg h

theorem span_beq_refl' (s : Span) : (s == s) = true := by
  cases s; show (_ == _ && _ == _) = true; simp

/-- erasing a hook call: the erased first argument, in the environment left by the arguments -/
theorem erase_ddCall (σ : Env) (first : Node) (args : List Node) (m : String) (sp : Span) (hi : InertL args) :
    erase σ (ddCall first args m sp) = erase σ first := by
  simp only [ddCall, ddCallee, erase, calleeKind, eraseL, if_true, beq_self_eq_true]
  have := eraseL_inert args hi (erase σ first).2
  generalize erase σ first = R at this
  obtain ⟨f', σ1⟩ := R
  simp only at this ⊢
  generalize eraseL σ1 args = R2 at this
  obtain ⟨as', σ2⟩ := R2
  simp only at this ⊢
  rw [this]

theorem headIsTempAssign_append (asg : List Node) (c : Node) (h : AllTA asg) (hne : asg ≠ []) :
    headIsTempAssign (asg ++ [c]) = true := by
  cases asg with
  | nil => exact absurd rfl hne
  | cons a as => simp only [List.cons_append, headIsTempAssign]; exact h a (by simp)

theorem erase_ddParen (σ : Env) (first : Node) (args asg : List Node) (m : String) (sp : Span)
    (hi : InertL args) (ha : AllTA asg) :
    erase σ (ddParen first args asg m sp) = erase (eraseAsg σ asg) first := by
  unfold ddParen
  simp only
  by_cases he : asg.isEmpty = true
  · simp only [he, if_true]
    have : asg = [] := by simpa using he
    subst this
    exact erase_ddCall σ first args m sp hi
  · simp only [he, Bool.false_eq_true, if_false]
    have hne : asg ≠ [] := by simpa using he
    simp only [erase, Node.span, span_beq_refl', if_true, headIsTempAssign_append asg _ ha hne]
    rw [eraseSeq_snoc]
    have := erase_ddCall (eraseAsg σ asg) first args m sp hi
    generalize erase (eraseAsg σ asg) (ddCall first args m sp) = R at this ⊢
    rw [this]

end IastModel

import IastModel.Lemmas.ErOpL
namespace IastModel
open Node

theorem inert_voidZero : Inert voidZero := by
  intro σ; simp [voidZero, erase]

theorem noBlk_voidZeroE : noBlk voidZero = true := by
  unfold voidZero
  rw [noBlk_eq]
  simp only [isBlockNode, kids, noBlkL_cons, noBlkL_nil, noBlk_litE (e := Node.lit "NumericLiteral" "{\"value\":0.0,\"raw\":null}" "" Span.dummy) rfl]
  rfl

theorem replaceElem_Er (cx : Cx) (lo hi : Nat) (a' a : Node) (mode : IdentMode) (asg args : List Node) (sp : Span)
    (s : St) (hw : HypW cx hi s) (hE : Er cx lo hi a' a) :
    OpEr cx lo hi a asg args (replaceElem a' mode asg args sp s) s := by
  cases a' with
  | arg spread e' =>
    simp only [replaceElem]
    exact replaceArgNoExpand_Er cx lo hi _ a mode asg args sp s hw hE
  | _ =>
    simp only [replaceElem, run_pure]
    exact opEr_inplace cx lo hi _ a asg args _ s hE (by
      intro x hx
      simp only [List.mem_singleton] at hx
      subst hx
      exact inert_arg inert_voidZero) (by
      simp only [noBlkL_cons, noBlkL_nil, Bool.and_true]
      exact noBlk_argE noBlk_voidZeroE)

theorem replaceElems_Er (cx : Cx) (lo hi : Nat) (mode : IdentMode) (sp : Span) :
    ∀ (xs' xs asg args : List Node) (s : St), HypW cx hi s → Forall2 (Er cx lo hi) xs' xs →
      OpErL cx lo hi xs asg args (replaceElems mode sp xs' asg args s) s := by
  intro xs'
  induction xs' with
  | nil =>
    intro xs asg args s _ hf
    cases xs with
    | nil => simp only [replaceElems, run_pure]; exact opErL_nil cx lo hi asg args s
    | cons _ _ => simp [Forall2] at hf
  | cons x' xs' ih =>
    intro xs asg args s hw hf
    cases xs with
    | nil => simp [Forall2] at hf
    | cons x xs =>
      simp only [Forall2] at hf
      simp only [replaceElems, run_bind, run_pure]
      have h1 := replaceElem_Er cx lo hi x' x mode asg args sp s hw hf.1
      generalize replaceElem x' mode asg args sp s = R1 at h1
      obtain ⟨⟨y, asg1, args1⟩, s1⟩ := R1
      have c1 : s.counter ≤ s1.counter := by obtain ⟨_, _, _, _, _, _, _, c, _⟩ := h1; exact c
      have h2 := ih xs asg1 args1 s1 (hw.mono c1) hf.2
      generalize replaceElems mode sp xs' asg1 args1 s1 = R2 at h2
      obtain ⟨⟨ys, asg2, args2⟩, s2⟩ := R2
      exact opErL_cons hw h1 h2

/-- the elements of an array literal operand are themselves erasable, one by one -/
def DeepEr (cx : Cx) (lo hi : Nat) (a' a : Node) : Prop :=
  ∀ elems' asp, argInner a' = .array elems' asp →
    ∃ es, argInner a = .array es asp ∧ asp.isDummy = false ∧ Forall2 (Er cx lo hi) elems' es

theorem eraseL_array (σ : Env) (es : List Node) (sp : Span) :
    erase σ (.array es sp) = (.array (eraseL σ es).1 sp, (eraseL σ es).2) := by
  simp only [erase]

theorem replaceExpr_Er (cx : Cx) (lo hi : Nat) (e' e : Node) (mode : IdentMode) (asg args : List Node) (sp : Span)
    (kind : IdentKind) (expand : Bool) (s : St) (hw : HypW cx hi s) (hE : Er cx lo hi e' e) (hD : DeepEr cx lo hi e' e) :
    OpEr cx lo hi e asg args (replaceExpr e' mode asg args sp kind expand s) s := by
  unfold replaceExpr
  split
  · rename_i elems asp
    obtain ⟨es, he, hnd, hf⟩ := hD elems asp rfl
    -- the source is that array
    have hearr : e = .array es asp := by
      obtain ⟨X, Δ, eX, sX, _⟩ := hE _ (BRg.refl _) cx.base cx.ext_base
      rw [eraseL_array] at eX
      have hX : X = .array (eraseL cx.base elems).1 asp := by
        have := congrArg Prod.fst eX; simpa using this.symm
      have hs := sX.1
      rw [hX] at hs
      cases e <;> simp [strip] at hs
      simpa [argInner] using he
    subst hearr
    simp only [run_bind, run_pure]
    have h := replaceElems_Er cx lo hi mode sp elems es asg args s hw hf
    generalize replaceElems mode sp elems asg args s = R at h
    obtain ⟨⟨ys, asg1, args1⟩, s1⟩ := R
    obtain ⟨new1, more1, ea1, eg1, ta1, in1, nb1, c1, A1, B1⟩ := h
    refine ⟨new1, more1, ea1, eg1, ta1, in1, nb1, c1, A1, ?_⟩
    intro new'' x'' hn hx σ Δ2 hσ hav hac
    dsimp only at hx
    obtain ⟨ys'', rfl, hys⟩ := hx.array_inv
    obtain ⟨Xs, Δ3, eX, sX, wX⟩ := B1 new'' ys'' hn hys σ Δ2 hσ hav hac
    try dsimp only at eX ⊢
    refine ⟨.array Xs asp, Δ3, by rw [eraseL_array, eX], ?_, wX⟩
    refine ⟨?_, Or.inl rfl, ?_⟩
    · simp only [strip]; rw [show stripL Xs = stripL es from sX]
    · simp only [noSp, unSpread]
      split
      · rename_i heq
        simp only [array.injEq] at heq
        obtain ⟨h1, h2⟩ := heq
        subst h1 h2
        simp [hnd]
      · rfl
  · exact replaceExprNoExpand_Er cx lo hi e' e mode asg args sp kind s hw hE

theorem DeepEr_arg_inv {cx : Cx} {lo hi : Nat} {s s2 : Option Span} {e' e : Node}
    (h : DeepEr cx lo hi (.arg s e') (.arg s2 e)) : DeepEr cx lo hi e' e := by
  intro elems' asp he
  exact h elems' asp (by simpa [argInner] using he)

theorem replaceArg_Er (cx : Cx) (lo hi : Nat) (a' a : Node) (mode : IdentMode) (asg args : List Node) (sp : Span)
    (expand : Bool) (s : St) (hw : HypW cx hi s) (hE : Er cx lo hi a' a) (hD : DeepEr cx lo hi a' a) :
    OpEr cx lo hi a asg args (replaceArg a' mode asg args sp expand s) s := by
  cases a' with
  | arg spread e' =>
    obtain ⟨s2, e, rfl, hs, hE'⟩ := Er_arg_inv hE
    simp only [replaceArg, run_bind, run_pure]
    have := replaceExpr_Er cx lo hi e' e mode asg args sp (if spread.isSome then IdentKind.spread else IdentKind.expr) expand s hw hE'
      (DeepEr_arg_inv hD)
    generalize replaceExpr e' mode asg args sp (if spread.isSome then IdentKind.spread else IdentKind.expr) expand s = R at this
    obtain ⟨⟨x, asg1, args1⟩, s1⟩ := R
    exact opEr_arg_wrap spread s2 hs this
  | _ =>
    simp only [replaceArg, run_pure]
    have := opEr_inplace cx lo hi _ a asg args [] s hE InertL.nil rfl
    simpa using this

theorem replaceArgs_Er (cx : Cx) (lo hi : Nat) (mode : IdentMode) (sp : Span) (expand : Bool) :
    ∀ (xs' xs asg args : List Node) (s : St), HypW cx hi s →
      Forall2 (fun a' a => Er cx lo hi a' a ∧ DeepEr cx lo hi a' a) xs' xs →
      OpErL cx lo hi xs asg args (replaceArgs mode sp expand xs' asg args s) s := by
  intro xs'
  induction xs' with
  | nil =>
    intro xs asg args s _ hf
    cases xs with
    | nil => simp only [replaceArgs, run_pure]; exact opErL_nil cx lo hi asg args s
    | cons _ _ => simp [Forall2] at hf
  | cons x' xs' ih =>
    intro xs asg args s hw hf
    cases xs with
    | nil => simp [Forall2] at hf
    | cons x xs =>
      simp only [Forall2] at hf
      simp only [replaceArgs, run_bind, run_pure]
      have h1 := replaceArg_Er cx lo hi x' x mode asg args sp expand s hw hf.1.1 hf.1.2
      generalize replaceArg x' mode asg args sp expand s = R1 at h1
      obtain ⟨⟨y, asg1, args1⟩, s1⟩ := R1
      have c1 : s.counter ≤ s1.counter := by obtain ⟨_, _, _, _, _, _, _, c, _⟩ := h1; exact c
      have h2 := ih xs asg1 args1 s1 (hw.mono c1) hf.2
      generalize replaceArgs mode sp expand xs' asg1 args1 s1 = R2 at h2
      obtain ⟨⟨ys, asg2, args2⟩, s2⟩ := R2
      exact opErL_cons hw h1 h2

theorem replaceExpr_noExpand (e : Node) (mode : IdentMode) (asg args : List Node) (sp : Span) (kind : IdentKind) (s : St) :
    replaceExpr e mode asg args sp kind false s = replaceExprNoExpand e mode asg args sp kind s := by
  cases e <;> rfl

/-- a sequence substitution keeps its own (tight) parentheses, which `erase` removes again -/
theorem tplOperand_Er {cx : Cx} {lo hi : Nat} {x' x : Node} (h : Er cx lo hi x' x) : Er cx lo hi (tplOperand x') x := by
  unfold tplOperand
  split
  · rename_i es sp
    intro e'' hb σ hσ
    obtain ⟨i'', rfl, hi⟩ := hb.paren_inv
    obtain ⟨X, Δ, eX, sX, wX⟩ := h i'' hi σ hσ
    refine ⟨X, Δ, ?_, sX, wX⟩
    have hsp : (i''.span == (Node.seq es sp).span) = true := by
      rw [BRg.span _ _ hi]; exact span_beq_refl' _
    simp only [erase, hsp, if_true]
    exact eX
  · exact h

theorem replaceTplExprs_Er (cx : Cx) (lo hi : Nat) :
    ∀ (xs' xs asg args : List Node) (s : St), HypW cx hi s → Forall2 (Er cx lo hi) xs' xs →
      OpErL cx lo hi xs asg args (replaceTplExprs xs' asg args s) s := by
  intro xs'
  induction xs' with
  | nil =>
    intro xs asg args s _ hf
    cases xs with
    | nil => simp only [replaceTplExprs, run_pure]; exact opErL_nil cx lo hi asg args s
    | cons _ _ => simp [Forall2] at hf
  | cons x' xs' ih =>
    intro xs asg args s hw hf
    cases xs with
    | nil => simp [Forall2] at hf
    | cons x xs =>
      simp only [Forall2] at hf
      simp only [replaceTplExprs, run_bind, run_pure]
      have h1 := replaceExprNoExpand_Er cx lo hi (tplOperand x') x .replace asg args x'.span .expr s hw (tplOperand_Er hf.1)
      have hre : replaceExpr (tplOperand x') .replace asg args x'.span .expr false s
          = replaceExprNoExpand (tplOperand x') .replace asg args x'.span .expr s := by
        exact replaceExpr_noExpand _ _ _ _ _ _ _
      rw [hre]
      generalize replaceExprNoExpand (tplOperand x') .replace asg args x'.span .expr s = R1 at h1
      obtain ⟨⟨y, asg1, args1⟩, s1⟩ := R1
      have c1 : s.counter ≤ s1.counter := by obtain ⟨_, _, _, _, _, _, _, c, _⟩ := h1; exact c
      have h2 := ih xs asg1 args1 s1 (hw.mono c1) hf.2
      generalize replaceTplExprs xs' asg1 args1 s1 = R2 at h2
      obtain ⟨⟨ys, asg2, args2⟩, s2⟩ := R2
      exact opErL_cons hw h1 h2

end IastModel

import IastModel.Lemmas.CnBlock
namespace IastModel
open Node

def hookNamesL (l : List Node) : List String := (l.map hookNames).flatten

theorem hookNames_eq (n : Node) : hookNames n = (match hookName? n with | some nm => [nm] | none => []) ++ hookNamesL n.kids := by
  unfold hookNames hookNamesL
  rw [hooks_eq]
  simp only [List.filterMap_append]
  congr 1
  · unfold isHook
    cases h : hookName? n with
    | none => simp
    | some nm => simp [h]
  · unfold hooksL
    rw [List.filterMap_flatten, List.map_map]
    rfl

theorem countStr_append (xs ys : List String) (d : String) : countStr (xs ++ ys) d = countStr xs d + countStr ys d := by
  simp [countStr, List.filter_append]

/-- the number of hook call sites named `d`, read off the list of hook names of the tree -/
theorem cn_eq_countStr (d : String) : ∀ n : Node, cn d n = countStr (hookNames n) d := by
  apply Node.ind
  intro n ih
  rw [cn_eq, hookNames_eq, countStr_append]
  have hL : ∀ l : List Node, (∀ k ∈ l, k ∈ n.kids) → cnL d l = countStr (hookNamesL l) d := by
    intro l
    induction l with
    | nil => intro _; rfl
    | cons x xs ihl =>
      intro hm
      simp only [cnL_cons, hookNamesL, List.map_cons, List.flatten_cons, countStr_append]
      rw [ih x (hm x (by simp)), ihl (fun k hk => hm k (by simp [hk]))]
      rfl
  rw [hL n.kids (fun k hk => hk)]
  congr 1
  unfold isHookNamed
  cases h : hookName? n with
  | none => simp [countStr]
  | some nm =>
    by_cases hd : nm = d
    · subst hd; simp [countStr]
    · have : (some nm == some d) = false := by simp [hd]
      simp [countStr, this, hd]

/-- a tree that does not mention the namespace contains no hook call -/
theorem cn_of_ns0 (d : String) : ∀ n : Node, ns n = 0 → cn d n = 0 := by
  apply Node.ind
  intro n ih h0
  rw [cn_eq]
  have hk : ∀ k ∈ n.kids, ns k = 0 := fun k hk => nsL_eq_zero _ (nsL_kids_of_ns0 h0) k hk
  have hL : ∀ l : List Node, (∀ k ∈ l, k ∈ n.kids) → cnL d l = 0 := by
    intro l
    induction l with
    | nil => intro _; rfl
    | cons x xs ihl =>
      intro hm
      simp only [cnL_cons]
      rw [ih x (hm x (by simp)) (hk x (hm x (by simp))), ihl (fun k hk => hm k (by simp [hk]))]
  rw [hL n.kids (fun k hk => hk)]
  have : isHookNamed d n = false := by
    unfold isHookNamed
    cases hh : hookName? n with
    | none => rfl
    | some nm =>
      exfalso
      obtain ⟨x, isp, psp, msp, args, sp, rfl, hx⟩ := hookName?_some hh
      simp only [ns_call, ns_member, ns_user, hx, if_true] at h0
      omega
  simp [this]

/-- **C15 (per-operation breakdown), for the whole pipeline.**  For every replacement name `d`, the
    number of `_ddiast.d(…)` call sites of the output equals the number of telemetry entries whose tag
    stands for `d` (`+` and `+=` for the plus operator's name, `Tpl` for the template operator's, a
    method's source name for its replacement name): the debug counts partition the reported number by
    operation.  Hypotheses as in `master`, plus: no configured method is named like an operator tag. -/
theorem tags_partition_hooks_master (cfg : Config) (fuel : Nat) (p : Node) (h0 : ns p = 0) (ht : targetsOk p = true)
    (hct : CfgTagsOk cfg) (hnc : (transformProgram cfg fuel p).status ≠ .cancelled) (d : String) :
    countStr (hookNames (transformProgram cfg fuel p).out) d = countTags cfg d (transformProgram cfg fuel p).incs := by
  unfold transformProgram at hnc ⊢
  simp only [StateT.run] at hnc ⊢
  by_cases hr : hasReserved (tempPrefix cfg.localVarPrefix) p = true
  · exact absurd (programVisit_reserved cfg _ fuel p {} hr) hnc
  · simp only [Bool.not_eq_true] at hr
    simp only [programVisit_eq cfg _ fuel p {} hr] at hnc ⊢
    have hs0 : StOk ({} : St) := by intro h; cases h
    have hcfg := cfgOk_dsts cfg
    -- the prologue adds no hook call
    have hnames : hookNames (if (mapKidsM mapM' (blockVisit cfg fuel fuel) p {}).2.status = Status.modified
        then insertPrologue (prologue cfg.dsts) (mapKidsM mapM' (blockVisit cfg fuel fuel) p {}).1
        else (mapKidsM mapM' (blockVisit cfg fuel fuel) p {}).1) = hookNames (mapKidsM mapM' (blockVisit cfg fuel fuel) p {}).1 := by
      split
      · unfold hookNames; rw [hooks_insertPrologue _ _ (hooks_prologue cfg.dsts)]
      · rfl
    rw [hnames, ← cn_eq_countStr]
    simp only [mapKidsM, run_bind, run_pure] at hnc ⊢
    have hlist := mapBlock_C cfg d (okCfg cfg) (blockVisit cfg fuel fuel)
      (fun k s hs hg => blockVisit_C (okCfg cfg) cfg hcfg hct d fuel fuel k s hs hg)
      (fun k s h => blockVisit_canc cfg fuel fuel k s h)
    have hspec := mapBlock_spec (okCfg cfg) (blockVisit cfg fuel fuel)
      (fun k s hs hg => blockVisit_spec (okCfg cfg) cfg hcfg fuel fuel k s hs hg)
      (fun k s h => blockVisit_canc cfg fuel fuel k s h)
    have hb0 : bad p = 0 := (bad_zero_iff p).mpr ht
    have hk : goodL (okCfg cfg) true p.kids = true := by
      apply goodL_of_ns0
      · exact nsL_kids_of_ns0 h0
      · rw [bad_eq] at hb0; omega
    obtain ⟨tags, hi, he⟩ := hlist p.kids {} hs0 hk hnc
    obtain ⟨g3, l3, _⟩ := hspec p.kids {} hs0 hk hnc
    have hnamed : isHookNamed d (p.withKids (mapM' (blockVisit cfg fuel fuel) p.kids {}).1) = false ∧ cnL d p.kids = 0 := by
      constructor
      · cases p with
        | call c as sp =>
          match hks : (mapM' (blockVisit cfg fuel fuel) (Node.call c as sp).kids {}).1, l3, g3 with
          | c' :: as', _, g3 =>
            simp only [goodL_cons, Bool.and_eq_true] at g3
            simp only [withKids, List.getD_cons_zero, List.drop_succ_cons, List.drop_zero, isHookNamed]
            rw [hookName?_call_none _ _ g3.1]; rfl
        | _ => rw [isHookNamed_withKids_other d _ _ (by intro c as sp h; cases h)]; rfl
      · have : ∀ l : List Node, nsL l = 0 → cnL d l = 0 := by
          intro l
          induction l with
          | nil => intro _; rfl
          | cons x xs ihx =>
            intro hz
            simp only [nsL_cons] at hz
            simp only [cnL_cons]
            rw [cn_of_ns0 d x (by omega), ihx (by omega)]
        exact this p.kids (nsL_kids_of_ns0 h0)
    rw [cn_eq, Node.kids_withKids p _ l3, hnamed.1, he, hnamed.2, hi]
    simp

end IastModel

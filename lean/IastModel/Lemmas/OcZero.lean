import IastModel.Lemmas.TrAssign
namespace IastModel
open Node

/-- the optional-chain lowering state holds nothing that mentions the namespace -/
def OcZ (oc : OcSt) : Prop := nsL oc.assignments = 0

def OcPost (R : (Node × OcSt) × St) (s : St) : Prop := ns R.1.1 = 0 ∧ OcZ R.1.2 ∧ TS R.2 s

theorem getIdentUsed_z (operand : Node) (asg args : List Node) (sp : Span) (k : IdentKind) (s : St)
    (h0 : ns operand = 0) (ha : nsL asg = 0) :
    nsL (getIdentUsed operand asg args sp k s).1.2.1 = 0 ∧ TS (getIdentUsed operand asg args sp k s).2 s := by
  rcases getIdentUsed_cases operand asg args sp k s with ⟨_, h⟩ | ⟨_, n, s', h, ht⟩
  · rw [h]; exact ⟨ha, TS.refl s⟩
  · rw [h]; exact ⟨by simp [ha, tempIdent, ns_assignRight, h0], ht⟩

theorem getCallFromBaseCall_z (callee : Node) (args : List Node) (optional : Bool) (oc : OcSt) (s : St)
    (hc : ns callee = 0) (ha : nsL args = 0) (hz : OcZ oc) :
    let R := getCallFromBaseCall callee args optional oc s
    OcZ R.1.2 ∧ (∀ r, R.1.1 = some r → ns r = 0) ∧ TS R.2 s := by
  unfold getCallFromBaseCall
  by_cases ho : optional = true
  · simp only [ho, if_true]
    cases callee with
    | member mobj mprop msp =>
      simp only [ns_member] at hc
      simp only [oc_bind, oc_get, oc_set, oc_lift, oc_pure, oc_modify]
      have h1 := getIdentUsed_z mobj oc.assignments [] Span.dummy .expr s (by omega) hz
      generalize (getIdentUsed mobj oc.assignments [] Span.dummy IdentKind.expr s) = X at h1
      obtain ⟨⟨id, asg1, a1⟩, s1⟩ := X
      simp only at h1
      cases id with
      | none => simp only [oc_pure]; exact ⟨h1.1, (by intro r hr; cases hr), h1.2⟩
      | some t0 =>
        simp only [oc_bind, oc_get, oc_set, oc_lift, oc_pure, oc_modify]
        have h2 := getIdentUsed_z (Node.member (tempIdent t0) mprop Span.dummy) asg1 [] Span.dummy .expr s1
          (by simp [tempIdent]; omega) h1.1
        generalize (getIdentUsed (Node.member (tempIdent t0) mprop Span.dummy) asg1 [] Span.dummy IdentKind.expr s1) = Y at h2
        obtain ⟨⟨id2, asg2, a2⟩, s2⟩ := Y
        simp only at h2
        cases id2 with
        | none => simp only [oc_pure]; exact ⟨h2.1, (by intro r hr; cases hr), TS.trans h2.2 h1.2⟩
        | some t1 =>
          simp only [oc_bind, oc_modify, oc_pure]
          refine ⟨h2.1, ?_, TS.trans h2.2 h1.2⟩
          intro r hr
          simp only [Option.some.injEq] at hr
          subst hr
          simp [tempIdent, ha]
    | _ =>
      simp only [oc_bind, oc_get, oc_set, oc_lift, oc_pure, oc_modify]
      have h1 := getIdentUsed_z _ oc.assignments [] Span.dummy .expr s hc hz
      generalize (getIdentUsed _ oc.assignments [] Span.dummy IdentKind.expr s) = X at h1
      obtain ⟨⟨id, asg1, a1⟩, s1⟩ := X
      simp only at h1
      cases id with
      | none => simp only [oc_pure]; exact ⟨h1.1, (by intro r hr; cases hr), h1.2⟩
      | some t0 =>
        simp only
        by_cases he : asg1.isEmpty = true
        · simp only [he, if_true, oc_pure]; exact ⟨h1.1, (by intro r hr; cases hr), h1.2⟩
        · simp only [he, Bool.false_eq_true, if_false, oc_bind, oc_modify, oc_pure]
          refine ⟨h1.1, ?_, h1.2⟩
          intro r hr
          simp only [Option.some.injEq] at hr
          subst hr
          simp [tempIdent, ha]
  · simp only [ho, Bool.false_eq_true, if_false, oc_pure]
    refine ⟨hz, ?_, TS.refl s⟩
    intro r hr
    simp only [Option.some.injEq] at hr
    subst hr
    simp [hc, ha]

theorem getMemberFromBaseMember_z (obj prop : Node) (msp : Span) (optional : Bool) (oc : OcSt) (s : St)
    (hc : ns obj = 0) (hp : ns prop = 0) (hz : OcZ oc) :
    let R := getMemberFromBaseMember obj prop msp optional oc s
    OcZ R.1.2 ∧ (∀ r, R.1.1 = some r → ns r = 0) ∧ TS R.2 s := by
  unfold getMemberFromBaseMember
  by_cases ho : optional = true
  · simp only [ho, if_true, oc_bind, oc_get, oc_set, oc_lift, oc_pure]
    have h1 := getIdentUsed_z obj oc.assignments [] Span.dummy .expr s hc hz
    generalize (getIdentUsed obj oc.assignments [] Span.dummy IdentKind.expr s) = X at h1
    obtain ⟨⟨id, asg1, a1⟩, s1⟩ := X
    simp only at h1
    cases id with
    | none => simp only [oc_pure]; exact ⟨h1.1, (by intro r hr; cases hr), h1.2⟩
    | some t =>
      simp only [oc_bind, oc_modify, oc_pure]
      refine ⟨h1.1, ?_, h1.2⟩
      intro r hr
      simp only [Option.some.injEq] at hr
      subst hr
      simp [tempIdent, hp]
  · simp only [ho, Bool.false_eq_true, if_false, oc_pure]
    refine ⟨hz, ?_, TS.refl s⟩
    intro r hr
    simp only [Option.some.injEq] at hr
    subst hr
    simp [hc, hp]

theorem ocSpine_z (v : Node → OcM Node)
    (hv : ∀ e oc s, ns e = 0 → OcZ oc → OcPost (v e oc s) s)
    (e : Node) (oc : OcSt) (s : St) (h0 : ns e = 0) (hz : OcZ oc) : OcPost (ocSpine v e oc s) s := by
  unfold ocSpine
  split
  · rename_i o callee args csp sp
    simp only [ns_optChain, ns_optCall] at h0
    simp only [oc_bind, oc_pure]
    have h := hv callee oc s (by omega) hz
    generalize v callee oc s = R at h
    obtain ⟨⟨c', oc'⟩, s'⟩ := R
    exact ⟨by simp only [ns_optChain, ns_optCall]; have := h.1; simp only at this; omega, h.2.1, h.2.2⟩
  · rename_i o obj prop msp sp
    simp only [ns_optChain, ns_member] at h0
    simp only [oc_bind, oc_pure]
    have h := hv obj oc s (by omega) hz
    generalize v obj oc s = R at h
    obtain ⟨⟨c', oc'⟩, s'⟩ := R
    exact ⟨by simp only [ns_optChain, ns_member]; have := h.1; simp only at this; omega, h.2.1, h.2.2⟩
  · rename_i callee args sp
    simp only [ns_call] at h0
    split
    · simp only [oc_pure]; exact ⟨by simp only [ns_call]; omega, hz, TS.refl s⟩
    · simp only [oc_bind, oc_pure]
      have h := hv callee oc s (by omega) hz
      generalize v callee oc s = R at h
      obtain ⟨⟨c', oc'⟩, s'⟩ := R
      exact ⟨by simp only [ns_call]; have := h.1; simp only at this; omega, h.2.1, h.2.2⟩
  · rename_i obj prop sp
    simp only [ns_member] at h0
    simp only [oc_bind, oc_pure]
    have h := hv obj oc s (by omega) hz
    generalize v obj oc s = R at h
    obtain ⟨⟨c', oc'⟩, s'⟩ := R
    exact ⟨by simp only [ns_member]; have := h.1; simp only at this; omega, h.2.1, h.2.2⟩
  · simp only [oc_pure]; exact ⟨h0, hz, TS.refl s⟩

end IastModel

namespace IastModel
open Node

theorem ocVisit_z (cfg : Config) : ∀ (f : Nat) (n : Node) (oc : OcSt) (s : St),
    ns n = 0 → OcZ oc → OcPost (ocVisit cfg f n oc s) s := by
  intro f
  induction f with
  | zero =>
    intro n oc s h hz
    simp only [ocVisit, oc_bind, oc_lift, oc_pure]
    exact ⟨h, hz, by simp [outOfFuel, run_modify, TS]⟩
  | succ f ih =>
    intro n oc s h hz
    unfold ocVisit
    split
    · rename_i optional base sp
      rw [oc_bind, oc_get]
      show OcPost ((ite (oc.found = true) _ _ : OcM Node) oc s) s
      by_cases hf : oc.found = true
      · rw [if_pos hf]
        have key : ∀ (m : OcM (Option Node)),
            (OcZ (m oc s).1.2 ∧ (∀ r, (m oc s).1.1 = some r → ns r = 0) ∧ TS (m oc s).2 s) →
            OcPost ((do
              let r ← m
              if optional = true then pure (r.getD (optChain optional base sp))
              else ocSpine (ocVisit cfg f) (r.getD (optChain optional base sp)) : OcM Node) oc s) s := by
          intro m hm
          simp only [oc_bind]
          generalize hR : m oc s = R at hm
          obtain ⟨⟨r, oc1⟩, s1⟩ := R
          simp only at hm
          have hr1 : ns (r.getD (Node.optChain optional base sp)) = 0 := by
            cases r with
            | none => exact h
            | some x => exact hm.2.1 x rfl
          by_cases ho : optional = true
          · rw [if_pos ho, oc_pure]; exact ⟨hr1, hm.1, hm.2.2⟩
          · rw [if_neg ho]
            have := ocSpine_z (ocVisit cfg f) (fun e oc s h0 hz => ih e oc s h0 hz) _ oc1 s1 hr1 hm.1
            exact ⟨this.1, this.2.1, TS.trans this.2.2 hm.2.2⟩
        cases base with
        | optCall callee args csp =>
          simp only [ns_optChain, ns_optCall] at h
          exact key _ (getCallFromBaseCall_z callee args optional oc s (by omega) (by omega) hz)
        | member obj prop msp =>
          simp only [ns_optChain, ns_member] at h
          exact key _ (getMemberFromBaseMember_z obj prop msp optional oc s (by omega) (by omega) hz)
        | _ => exact key (pure none) ⟨hz, (by intro r hr; simp [oc_pure] at hr), TS.refl s⟩
      · rw [if_neg hf]
        by_cases ht : ocTrigger cfg optional base = true
        · rw [if_pos ht]; simp only [oc_bind, oc_modify]
          exact ih _ _ _ h hz
        · rw [if_neg ht]
          exact ocSpine_z (ocVisit cfg f) (fun e oc s h0 hz => ih e oc s h0 hz) _ oc s h hz
    · rw [oc_pure]; exact ⟨h, hz, TS.refl s⟩

theorem toDdCond_z (cfg : Config) (fuel : Nat) (e : Node) (s : St) (h : ns e = 0) :
    let R := toDdCond cfg fuel e s
    ns R.1.1 = 0 ∧ (∀ r, R.1.2 = some r → ns r = 0) ∧ TS R.2 s := by
  unfold toDdCond
  simp only [run_bind]
  have hv : OcPost (StateT.run (ocVisit cfg fuel e) {} s) s := ocVisit_z cfg fuel e {} s h rfl
  generalize (StateT.run (ocVisit cfg fuel e) {} s) = X at hv ⊢
  obtain ⟨⟨e', oc⟩, s'⟩ := X
  obtain ⟨h1, h2, h3⟩ := hv
  simp only at h1 h2 h3
  cases hn : oc.newIdent with
  | none => simp only [run_pure]; exact ⟨h1, (by intro r hr; cases hr), h3⟩
  | some t =>
    simp only
    by_cases ha : oc.assignments.isEmpty = true
    · simp only [ha, if_true, run_pure]; exact ⟨h1, (by intro r hr; cases hr), h3⟩
    · simp only [ha, Bool.false_eq_true, if_false, run_pure]
      refine ⟨h1, ?_, h3⟩
      intro r hr
      simp only [Option.some.injEq] at hr
      subst hr
      have hu : ns (Node.ident (.user "undefined") Span.dummy) = 0 := by rw [ns_user]; decide
      have : nsL oc.assignments = 0 := h2
      simp [tempIdent, nullLit, hu, h1, this]

end IastModel

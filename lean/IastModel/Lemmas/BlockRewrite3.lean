import IastModel.Lemmas.PushNoBlock
namespace IastModel
open Node

/-! ### shape inversions for `BR` -/

theorem BRL.append_inv {xs ys ks : List Node} (h : BRL (xs ++ ys) ks) :
    BRL xs (ks.take xs.length) ∧ BRL ys (ks.drop xs.length) := by
  induction xs generalizing ks with
  | nil => exact ⟨by simpa using BRL.nil, by simpa using h⟩
  | cons x xs ih =>
    obtain ⟨b, bs, rfl, hb, hs⟩ := BRL.cons_inv h
    obtain ⟨h1, h2⟩ := ih hs
    exact ⟨by simpa using BRL.cons hb h1, by simpa using h2⟩

theorem BRL.append {a b c d : List Node} (h1 : BRL a b) (h2 : BRL c d) : BRL (a ++ c) (b ++ d) := by
  induction a generalizing b with
  | nil => rw [BRL.nil_inv h1]; simpa using h2
  | cons x xs ih =>
    obtain ⟨y, ys, rfl, hy, hys⟩ := BRL.cons_inv h1
    exact BRL.cons hy (ih hys)

theorem BR.arg_inv {s : Option Span} {e b : Node} (h : BR (.arg s e) b) : ∃ e', b = .arg s e' ∧ BR e e' := by
  obtain ⟨ks', rfl, hk⟩ := h.inv rfl
  obtain ⟨e', r, rfl, he, hr⟩ := BRL.cons_inv hk
  exact ⟨e', by simp [withKids], he⟩

theorem BR.bin_inv {op : String} {l r b : Node} {sp : Span} (h : BR (.bin op l r sp) b) :
    ∃ l' r', b = .bin op l' r' sp ∧ BR l l' ∧ BR r r' := by
  obtain ⟨ks', rfl, hk⟩ := h.inv rfl
  obtain ⟨l', t, rfl, hl, ht⟩ := BRL.cons_inv hk
  obtain ⟨r', t2, rfl, hr, _⟩ := BRL.cons_inv ht
  exact ⟨l', r', by simp [withKids], hl, hr⟩

theorem BR.member_inv {o p b : Node} {sp : Span} (h : BR (.member o p sp) b) :
    ∃ o' p', b = .member o' p' sp ∧ BR o o' ∧ BR p p' := by
  obtain ⟨ks', rfl, hk⟩ := h.inv rfl
  obtain ⟨l', t, rfl, hl, ht⟩ := BRL.cons_inv hk
  obtain ⟨r', t2, rfl, hr, _⟩ := BRL.cons_inv ht
  exact ⟨l', r', by simp [withKids], hl, hr⟩

theorem BR.call_inv {c b : Node} {as : List Node} {sp : Span} (h : BR (.call c as sp) b) :
    ∃ c' as', b = .call c' as' sp ∧ BR c c' ∧ BRL as as' := by
  obtain ⟨ks', rfl, hk⟩ := h.inv rfl
  obtain ⟨c', as', rfl, hc, has⟩ := BRL.cons_inv hk
  exact ⟨c', as', by simp [withKids], hc, has⟩

theorem BR.tpl_inv {es qs : List Node} {b : Node} {sp : Span} (h : BR (.tpl es qs sp) b) :
    ∃ es' qs', b = .tpl es' qs' sp ∧ BRL es es' ∧ BRL qs qs' := by
  obtain ⟨ks', rfl, hk⟩ := h.inv rfl
  obtain ⟨h1, h2⟩ := BRL.append_inv hk
  exact ⟨_, _, rfl, h1, h2⟩

theorem BR.array_inv {es : List Node} {b : Node} {sp : Span} (h : BR (.array es sp) b) :
    ∃ es', b = .array es' sp ∧ BRL es es' := by
  obtain ⟨ks', rfl, hk⟩ := h.inv rfl
  exact ⟨ks', rfl, hk⟩

/-! ### what the specification looks at is kept by `BR` -/

theorem BR.isArgNode {a b : Node} (h : BR a b) : isArgNode b = isArgNode a := by
  cases h with
  | blk => rfl
  | node _ ks' _ _ _ => cases a <;> rfl

theorem BR.isSpreadArg {a b : Node} (h : BR a b) : isSpreadArg b = isSpreadArg a := by
  cases h with
  | blk => rfl
  | node _ ks' _ _ _ =>
    cases a with
    | arg s e => cases s <;> rfl
    | _ => rfl

theorem BR.argOf {a b : Node} (h : BR a b) : BR (argOf a) (argOf b) := by
  by_cases ha : IastModel.isArgNode a = true
  · cases a with
    | arg s e => obtain ⟨e', rfl, he⟩ := h.arg_inv; exact he
    | _ => simp [IastModel.isArgNode] at ha
  · have hb : IastModel.isArgNode b = false := by rw [h.isArgNode]; simpa using ha
    have e1 : IastModel.argOf a = a := by cases a <;> simp_all [IastModel.isArgNode, IastModel.argOf]
    have e2 : IastModel.argOf b = b := by cases b <;> simp_all [IastModel.isArgNode, IastModel.argOf]
    rw [e1, e2]; exact h

theorem isPlusSum_bin (op : String) (l r : Node) (sp : Span) : isPlusSum (.bin op l r sp) = (op == "+") := by
  by_cases hop : op = "+"
  · subst hop; rfl
  · have : (op == "+") = false := by simpa using hop
    rw [this]
    unfold IastModel.isPlusSum
    split
    · rename_i h; cases h; exact absurd rfl hop
    · rfl

theorem BR.isPlusSum {a b : Node} (h : BR a b) : isPlusSum b = isPlusSum a := by
  cases a with
  | bin op l r sp =>
    obtain ⟨l', r', rfl, _, _⟩ := h.bin_inv
    rw [isPlusSum_bin, isPlusSum_bin]
  | block ss sp => cases h with
    | blk => rfl
    | node _ ks' hb _ _ => simp [isBlockNode] at hb
  | _ =>
    obtain ⟨ks', rfl, _⟩ := h.inv rfl
    rfl

theorem BR.isArrayNode {a b : Node} (h : BR a b) : isArrayNode b = isArrayNode a := by
  cases h with
  | blk => rfl
  | node _ ks' _ _ _ => cases a <;> rfl

theorem BR.isLiteralSum : ∀ (a : Node) {b : Node}, BR a b → isLiteralSum b = isLiteralSum a := by
  apply Node.ind
  intro a ih b h
  cases a with
  | bin op l r sp =>
    obtain ⟨l', r', rfl, hl, hr⟩ := h.bin_inv
    simp only [IastModel.isLiteralSum]
    rw [ih l (by simp [kids]) hl, ih r (by simp [kids]) hr]
  | block ss sp => cases h with
    | blk => rfl
    | node n ks' hb _ _ => simp [isBlockNode] at hb
  | _ =>
    obtain ⟨ks', rfl, _⟩ := h.inv rfl
    rfl

theorem BR.sumArg {a b : Node} (h : BR a b) : sumArg b = sumArg a := by
  have := h.argOf
  simp only [IastModel.sumArg, isNonLiteralSum_eq, nlSum, this.isPlusSum, BR.isLiteralSum _ this]

theorem BRL.any_sumArg {xs ys : List Node} (h : BRL xs ys) : ys.any sumArg = xs.any sumArg := by
  induction xs generalizing ys with
  | nil => rw [BRL.nil_inv h]
  | cons x xs ih =>
    obtain ⟨y, ys', rfl, hy, hys⟩ := BRL.cons_inv h
    simp only [List.any_cons, hy.sumArg, ih hys]

theorem BRL.callArgs {xs ys : List Node} (h : BRL xs ys) : BRL (callArgs xs) (callArgs ys) := by
  induction xs generalizing ys with
  | nil => rw [BRL.nil_inv h]; exact BRL.nil
  | cons x xs ih =>
    obtain ⟨y, ys', rfl, hy, hys⟩ := BRL.cons_inv h
    simp only [IastModel.callArgs, List.filter_cons, hy.isArgNode]
    split
    · exact BRL.cons hy (ih hys)
    · exact ih hys

theorem BRL.map {f : Node → Node} (hf : ∀ a b, BR a b → BR (f a) (f b)) {xs ys : List Node} (h : BRL xs ys) :
    BRL (xs.map f) (ys.map f) := by
  induction xs generalizing ys with
  | nil => rw [BRL.nil_inv h]; exact BRL.nil
  | cons x xs ih =>
    obtain ⟨y, ys', rfl, hy, hys⟩ := BRL.cons_inv h
    exact BRL.cons (hf _ _ hy) (ih hys)

theorem BR.arg_mk (s : Option Span) {e e' : Node} (h : BR e e') : BR (.arg s e) (.arg s e') := by
  have := BR.node' (n := .arg s e) (ks' := [e']) rfl (BRL.cons h BRL.nil)
  simpa [withKids] using this

theorem BR.applyElem {a b : Node} (h : BR a b) : BR (applyElem a) (applyElem b) := by
  by_cases ha : IastModel.isArgNode a = true
  · cases a with
    | arg s e => obtain ⟨e', rfl, he⟩ := h.arg_inv; exact BR.arg_mk s he
    | _ => simp [IastModel.isArgNode] at ha
  · have hb : IastModel.isArgNode b = false := by rw [h.isArgNode]; simpa using ha
    have e1 : IastModel.applyElem a = .arg none (.unary "void" (.lit "NumericLiteral" "{\"value\":0.0,\"raw\":null}" "" Span.dummy) Span.dummy) := by
      cases a <;> simp_all [IastModel.isArgNode, IastModel.applyElem]
    have e2 : IastModel.applyElem b = .arg none (.unary "void" (.lit "NumericLiteral" "{\"value\":0.0,\"raw\":null}" "" Span.dummy) Span.dummy) := by
      cases b <;> simp_all [IastModel.isArgNode, IastModel.applyElem]
    rw [e1, e2]; exact BR.refl _

theorem BR.expandApplyArg {a b : Node} (h : BR a b) : BRL (expandApplyArg a) (expandApplyArg b) := by
  by_cases ha : ∃ s els sp, a = .arg s (.array els sp)
  · obtain ⟨s, els, sp, rfl⟩ := ha
    obtain ⟨e', rfl, he⟩ := h.arg_inv
    obtain ⟨els', rfl, hels⟩ := he.array_inv
    simp only [IastModel.expandApplyArg]
    exact BRL.map (fun _ _ => BR.applyElem) hels
  · have e1 : IastModel.expandApplyArg a = [a] := by
      unfold IastModel.expandApplyArg
      split
      · rename_i s els sp; exact absurd ⟨s, els, sp, rfl⟩ ha
      · rfl
    have hb : ¬ ∃ s els sp, b = .arg s (.array els sp) := by
      rintro ⟨s, els, sp, rfl⟩
      have ha1 : IastModel.isArgNode a = true := by rw [← h.isArgNode]; rfl
      cases a with
      | arg s0 e0 =>
        obtain ⟨e', he', he⟩ := h.arg_inv
        simp only [Node.arg.injEq] at he'
        obtain ⟨rfl, rfl⟩ := he'
        have : IastModel.isArrayNode e0 = true := by rw [← he.isArrayNode]; rfl
        cases e0 <;> simp [IastModel.isArrayNode] at this
        exact ha ⟨_, _, _, rfl⟩
      | _ => simp [IastModel.isArgNode] at ha1
    have e2 : IastModel.expandApplyArg b = [b] := by
      unfold IastModel.expandApplyArg
      split
      · rename_i s els sp; exact absurd ⟨s, els, sp, rfl⟩ hb
      · rfl
    rw [e1, e2]; exact BRL.cons h BRL.nil

theorem BRL.flatMap {f : Node → List Node} (hf : ∀ a b, BR a b → BRL (f a) (f b)) {xs ys : List Node} (h : BRL xs ys) :
    BRL (xs.map f).flatten (ys.map f).flatten := by
  induction xs generalizing ys with
  | nil => rw [BRL.nil_inv h]; exact BRL.nil
  | cons x xs ih =>
    obtain ⟨y, ys', rfl, hy, hys⟩ := BRL.cons_inv h
    simp only [List.map_cons, List.flatten_cons]
    exact BRL.append (hf _ _ hy) (ih hys)

/-- a mirrored argument list stays mirrored when blocks inside the mirrored operands are rewritten: the
    copies passed to the hook contain no block, so an operand equal to its copy contains none either -/
theorem Mir.stable {P exp exp' : List Node} (hm : Mir P exp) (hp : noBlkL P = true) (hb : BRL exp exp') : Mir P exp' := by
  rcases hm with hm | hm
  · have : noBlkL exp = true := by
      have key : ∀ (l l' : List Node), eqNSL l l' = true → noBlkL l = true → noBlkL l' = true := by
        intro l
        induction l with
        | nil => intro l' h _; cases l' <;> simp_all [eqNSL]
        | cons x xs ih =>
          intro l' h hn
          cases l' with
          | nil => simp [eqNSL] at h
          | cons y ys =>
            simp only [eqNSL, Bool.and_eq_true] at h
            simp only [noBlkL_cons, Bool.and_eq_true] at hn ⊢
            exact ⟨eqNS_noBlk x y h.1 hn.1, ih ys h.2 hn.2⟩
      exact key P exp hm hp
    rw [BRL_noBlk this hb]; exact Or.inl hm
  · right; rw [hb.any_sumArg]; exact hm

end IastModel

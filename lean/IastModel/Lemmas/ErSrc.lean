import IastModel.Lemmas.ErBase
namespace IastModel
open Node

theorem not_temp_of_src {n : Node} (h : srcOk n = true) : tempTarget? n = none := by
  cases n with
  | ident nm sp =>
    cases nm with
    | user x => rfl
    | temp k => have := srcOk_self h; simp [srcNode] at this
  | _ => rfl

theorem calleeKind_src {c : Node} (h : srcOk c = true) : calleeKind c = .plain := by
  unfold calleeKind
  split
  · rename_i ns isp nm psp msp
    have h1 := srcOk_self (srcOk_kids h (.ident (.user ns) isp) (by simp [kids]))
    simp only [srcNode, bne_iff_ne, ne_eq] at h1
    simp [h1]
  · rename_i t isp ca casp msp
    have h1 := srcOk_self (srcOk_kids h (.ident (.temp t) isp) (by simp [kids]))
    simp [srcNode] at h1
  · rfl

theorem injectedLet_src {s : Node} (h : srcOk s = true) : injectedLet? s = none := by
  unfold injectedLet?
  split
  · rename_i sp x decls
    simp only
    split
    · rename_i hc
      exfalso
      simp only [Bool.and_eq_true, Bool.not_eq_true', List.isEmpty_eq_false_iff] at hc
      obtain ⟨hne, hall⟩ := hc
      cases decls with
      | nil => simp at hne
      | cons d ds =>
        simp only [List.map_cons, List.all_cons, Bool.and_eq_true] at hall
        have hd := hall.1
        have hsd : srcOk d = true := by
          have h1 := srcOk_kids h (.arr (d :: ds)) (by simp [kids])
          exact srcOk_kids h1 d (by simp [kids])
        unfold declaratorTemp? at hd
        split at hd
        · rename_i n isp z
          have := srcOk_self (srcOk_kids hsd (.ident (.temp n) isp) (by simp [kids]))
          simp [srcNode] at this
        · simp at hd
    · rfl
  · rfl

theorem injectedLetAt_src (sp : Span) (ss : List Node) (h : ∀ k ∈ ss, srcOk k = true) : injectedLetAt sp ss = none := by
  unfold injectedLetAt
  rw [List.findIdx?_eq_none_iff]
  intro s hs
  simp [injectedLet_src (h s hs)]

theorem isLoweredGuard_src (t c a : Node) (sp : Span) (h : sp.isDummy = false) : isLoweredGuard (.cond t c a sp) = none := by
  unfold isLoweredGuard
  split
  · rename_i heq
    simp only [cond.injEq] at heq
    obtain ⟨_, _, _, rfl⟩ := heq
    simp [h]
  · rfl

/-- on a well-formed source tree `erase` changes nothing and binds nothing -/
theorem erase_src : ∀ n : Node, srcOk n = true → ∀ σ, erase σ n = (n, σ) := by
  apply Node.ind
  intro n ih hs σ
  have hk : ∀ k ∈ n.kids, ∀ σ, erase σ k = (k, σ) := fun k hk => ih k hk (srcOk_kids hs k hk)
  have hsk := srcOk_kids hs
  have h0 := srcOk_self hs
  cases n with
  | atom s => rfl
  | arr xs => simp only [erase]; rw [eraseL_id xs hk]
  | obj ns vs => simp only [erase]; rw [eraseL_id vs hk]
  | other k sp ns vs => simp only [erase]; rw [eraseL_id vs hk]
  | lit k v r sp => rfl
  | ident nm sp =>
    cases nm with
    | user x => rfl
    | temp k => simp [srcNode] at h0
  | pname nm sp => rfl
  | bin op l r sp =>
    simp only [erase]
    rw [hk l (by simp [kids])]; simp only
    rw [hk r (by simp [kids])]
  | assign op l r sp =>
    simp only [erase]
    rw [not_temp_of_src (hsk l (by simp [kids]))]
    simp only
    rw [hk l (by simp [kids])]; simp only
    rw [hk r (by simp [kids])]; simp only
    simp only [srcNode, Bool.and_eq_true, Bool.not_eq_true'] at h0
    have h2 := h0.2
    unfold looksLowered at h2
    unfold resugarAssign
    split
    · rename_i hop
      simp only [hop, Bool.true_and] at h2
      split
      · rename_i a b bsp
        simp only at h2
        simp [h2]
      · rfl
    · rfl
  | tpl es qs sp =>
    simp only [erase]
    rw [eraseL_id es (fun k hk' => hk k (by simp [kids, hk']))]
  | call c as sp =>
    simp only [erase]
    rw [calleeKind_src (hsk c (by simp [kids]))]
    simp only
    rw [hk c (by simp [kids])]; simp only
    rw [eraseL_id as (fun k hk' => hk k (by simp [kids, hk']))]
  | arg s e => simp only [erase]; rw [hk e (by simp [kids])]
  | member o p sp =>
    simp only [erase]
    rw [hk o (by simp [kids])]; simp only
    rw [hk p (by simp [kids])]
  | optChain o b sp => simp only [erase]; rw [hk b (by simp [kids])]
  | optCall c as sp =>
    simp only [erase]
    rw [hk c (by simp [kids])]; simp only
    rw [eraseL_id as (fun k hk' => hk k (by simp [kids, hk']))]
  | unary op a sp => simp only [erase]; rw [hk a (by simp [kids])]
  | arrow ps b at' sp =>
    simp only [erase]
    rw [eraseL_id ps (fun k hk' => hk k (by simp [kids, hk']))]; simp only
    rw [hk b (by simp [kids])]; simp only
    simp only [srcNode, Bool.not_eq_true'] at h0
    unfold looksInjectedBody at h0
    split
    · rename_i e' rsp bsp
      simp only at h0
      simp [h0]
    · rfl
  | paren e sp =>
    simp only [erase]
    rw [hk e (by simp [kids])]; simp only
    simp only [srcNode, Bool.and_eq_true, Bool.not_eq_true'] at h0
    have : (e.span == sp) = false := by have := h0.2; simpa [bne] using this
    simp [this]
  | seq es sp =>
    simp only [erase]
    rw [headIsTempAssign_src es hsk]
    simp only [Bool.false_eq_true, if_false]
    rw [eraseL_id es hk]
  | cond t c a sp =>
    simp only [erase]
    simp only [srcNode, Bool.not_eq_true'] at h0
    rw [isLoweredGuard_src t c a sp h0]
    simp only
    rw [hk t (by simp [kids])]; simp only
    rw [hk c (by simp [kids])]; simp only
    rw [hk a (by simp [kids])]
  | array es sp => simp only [erase]; rw [eraseL_id es hk]
  | block ss sp =>
    simp only [erase]
    rw [eraseL_id ss hk]
    simp only [injectedLetAt_src sp ss hsk, dropAt]
  | ifStmt t c a sp =>
    simp only [erase]
    rw [hk t (by simp [kids])]; simp only
    rw [hk c (by simp [kids])]; simp only
    rw [hk a (by simp [kids])]
  | exprStmt e sp => simp only [erase]; rw [hk e (by simp [kids])]

theorem eraseL_src (l : List Node) (h : ∀ k ∈ l, srcOk k = true) (σ : Env) : eraseL σ l = (l, σ) :=
  eraseL_id l (fun k hk σ => erase_src k (h k hk) σ) σ

end IastModel

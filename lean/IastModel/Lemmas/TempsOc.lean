import IastModel.Lemmas.TempsTr
namespace IastModel
open Node

def OcTZ (oc : OcSt) (s : St) : Prop :=
  tgoodL s.idents oc.assignments = true ∧ ∀ t, oc.newIdent = some t → t ∈ s.idents

def OcPostT (R : (Node × OcSt) × St) (s : St) : Prop :=
  tgood R.2.idents R.1.1 = true ∧ OcTZ R.1.2 R.2 ∧ IdSub s R.2

theorem getIdentUsed_t (operand : Node) (asg args : List Node) (sp : Span) (k : IdentKind) (s : St)
    (h0 : tgood s.idents operand = true) (ha : tgoodL s.idents asg = true) :
    tgoodL (getIdentUsed operand asg args sp k s).2.idents (getIdentUsed operand asg args sp k s).1.2.1 = true ∧
    IdSub s (getIdentUsed operand asg args sp k s).2 ∧
    (∀ n, (getIdentUsed operand asg args sp k s).1.1 = some n → n ∈ (getIdentUsed operand asg args sp k s).2.idents) := by
  rcases getIdentUsed_casesT operand asg args sp k s with ⟨_, h⟩ | ⟨_, n, s', h, hi, hn⟩
  · rw [h]; exact ⟨ha, IdSub.refl s, by intro n hn; cases hn⟩
  · rw [h]
    refine ⟨by simp [tgoodL_lift hi ha, tempIdent, tgood_assignRight, tgood_lift hi h0, hn], hi, ?_⟩
    intro m hm
    simp only [Option.some.injEq] at hm
    subst hm; exact hn

theorem getCallFromBaseCall_t (callee : Node) (args : List Node) (optional : Bool) (oc : OcSt) (s : St)
    (hc : tgood s.idents callee = true) (ha : tgoodL s.idents args = true) (hz : OcTZ oc s) :
    let R := getCallFromBaseCall callee args optional oc s
    OcTZ R.1.2 R.2 ∧ (∀ r, R.1.1 = some r → tgood R.2.idents r = true) ∧ IdSub s R.2 := by
  unfold getCallFromBaseCall
  by_cases ho : optional = true
  · simp only [ho, if_true]
    cases callee with
    | member mobj mprop msp =>
      simp only [tgood_member, Bool.and_eq_true] at hc
      simp only [oc_bind, oc_get, oc_set, oc_lift, oc_pure, oc_modify]
      have h1 := getIdentUsed_t mobj oc.assignments [] Span.dummy .expr s hc.1 hz.1
      generalize (getIdentUsed mobj oc.assignments [] Span.dummy IdentKind.expr s) = X at h1
      obtain ⟨⟨id, asg1, a1⟩, s1⟩ := X
      simp only at h1
      obtain ⟨g1, i1, m1⟩ := h1
      cases id with
      | none => simp only [oc_pure]; exact ⟨⟨g1, fun t ht => i1 t (hz.2 t ht)⟩, (by intro r hr; cases hr), i1⟩
      | some t0 =>
        have ht0 := m1 t0 rfl
        simp only [oc_bind, oc_get, oc_set, oc_lift, oc_pure, oc_modify]
        have h2 := getIdentUsed_t (Node.member (tempIdent t0) mprop Span.dummy) asg1 [] Span.dummy .expr s1
          (by simp [tempIdent, ht0, tgood_lift i1 hc.2]) g1
        generalize (getIdentUsed (Node.member (tempIdent t0) mprop Span.dummy) asg1 [] Span.dummy IdentKind.expr s1) = Y at h2
        obtain ⟨⟨id2, asg2, a2⟩, s2⟩ := Y
        simp only at h2
        obtain ⟨g2, i2, m2⟩ := h2
        cases id2 with
        | none => simp only [oc_pure]; exact ⟨⟨g2, fun t ht => i2 t (i1 t (hz.2 t ht))⟩, (by intro r hr; cases hr), IdSub.trans i1 i2⟩
        | some t1 =>
          have ht1 := m2 t1 rfl
          simp only [oc_bind, oc_modify, oc_pure]
          refine ⟨⟨g2, by intro t ht; simp only [Option.some.injEq] at ht; subst ht; exact ht1⟩, ?_, IdSub.trans i1 i2⟩
          intro r hr
          simp only [Option.some.injEq] at hr
          subst hr
          simp [tempIdent, ht1, i2 t0 ht0, tgoodL_lift (IdSub.trans i1 i2) ha]
    | _ =>
      simp only [oc_bind, oc_get, oc_set, oc_lift, oc_pure, oc_modify]
      have h1 := getIdentUsed_t _ oc.assignments [] Span.dummy .expr s hc hz.1
      generalize (getIdentUsed _ oc.assignments [] Span.dummy IdentKind.expr s) = X at h1
      obtain ⟨⟨id, asg1, a1⟩, s1⟩ := X
      simp only at h1
      obtain ⟨g1, i1, m1⟩ := h1
      cases id with
      | none => simp only [oc_pure]; exact ⟨⟨g1, fun t ht => i1 t (hz.2 t ht)⟩, (by intro r hr; cases hr), i1⟩
      | some t0 =>
        have ht0 := m1 t0 rfl
        simp only
        by_cases he : asg1.isEmpty = true
        · simp only [he, if_true, oc_pure]; exact ⟨⟨g1, fun t ht => i1 t (hz.2 t ht)⟩, (by intro r hr; cases hr), i1⟩
        · simp only [he, Bool.false_eq_true, if_false, oc_bind, oc_modify, oc_pure]
          refine ⟨⟨g1, by intro t ht; simp only [Option.some.injEq] at ht; subst ht; exact ht0⟩, ?_, i1⟩
          intro r hr
          simp only [Option.some.injEq] at hr
          subst hr
          simp [tempIdent, ht0, tgoodL_lift i1 ha]
  · simp only [ho, Bool.false_eq_true, if_false, oc_pure]
    refine ⟨hz, ?_, IdSub.refl s⟩
    intro r hr
    simp only [Option.some.injEq] at hr
    subst hr
    simp [hc, ha]

theorem getMemberFromBaseMember_t (obj prop : Node) (msp : Span) (optional : Bool) (oc : OcSt) (s : St)
    (hc : tgood s.idents obj = true) (hp : tgood s.idents prop = true) (hz : OcTZ oc s) :
    let R := getMemberFromBaseMember obj prop msp optional oc s
    OcTZ R.1.2 R.2 ∧ (∀ r, R.1.1 = some r → tgood R.2.idents r = true) ∧ IdSub s R.2 := by
  unfold getMemberFromBaseMember
  by_cases ho : optional = true
  · simp only [ho, if_true, oc_bind, oc_get, oc_set, oc_lift, oc_pure]
    have h1 := getIdentUsed_t obj oc.assignments [] Span.dummy .expr s hc hz.1
    generalize (getIdentUsed obj oc.assignments [] Span.dummy IdentKind.expr s) = X at h1
    obtain ⟨⟨id, asg1, a1⟩, s1⟩ := X
    simp only at h1
    obtain ⟨g1, i1, m1⟩ := h1
    cases id with
    | none => simp only [oc_pure]; exact ⟨⟨g1, fun t ht => i1 t (hz.2 t ht)⟩, (by intro r hr; cases hr), i1⟩
    | some t =>
      have ht := m1 t rfl
      simp only [oc_bind, oc_modify, oc_pure]
      refine ⟨⟨g1, by intro t' ht'; simp only [Option.some.injEq] at ht'; subst ht'; exact ht⟩, ?_, i1⟩
      intro r hr
      simp only [Option.some.injEq] at hr
      subst hr
      simp [tempIdent, ht, tgood_lift i1 hp]
  · simp only [ho, Bool.false_eq_true, if_false, oc_pure]
    refine ⟨hz, ?_, IdSub.refl s⟩
    intro r hr
    simp only [Option.some.injEq] at hr
    subst hr
    simp [hc, hp]

end IastModel

namespace IastModel
open Node

theorem ocSpine_t (v : Node → OcM Node)
    (hv : ∀ e oc s, tgood s.idents e = true → OcTZ oc s → OcPostT (v e oc s) s)
    (e : Node) (oc : OcSt) (s : St) (h0 : tgood s.idents e = true) (hz : OcTZ oc s) : OcPostT (ocSpine v e oc s) s := by
  unfold ocSpine
  split
  · rename_i o callee args csp sp
    simp only [tgood_optChain, tgood_optCall, Bool.and_eq_true] at h0
    simp only [oc_bind, oc_pure]
    have h := hv callee oc s h0.1 hz
    generalize v callee oc s = R at h
    obtain ⟨⟨c', oc'⟩, s'⟩ := R
    obtain ⟨h1, h2, h3⟩ := h
    exact ⟨by simp only [tgood_optChain, tgood_optCall]; simp [h1, tgoodL_lift h3 h0.2], h2, h3⟩
  · rename_i o obj prop msp sp
    simp only [tgood_optChain, tgood_member, Bool.and_eq_true] at h0
    simp only [oc_bind, oc_pure]
    have h := hv obj oc s h0.1 hz
    generalize v obj oc s = R at h
    obtain ⟨⟨c', oc'⟩, s'⟩ := R
    obtain ⟨h1, h2, h3⟩ := h
    exact ⟨by simp only [tgood_optChain, tgood_member]; simp [h1, tgood_lift h3 h0.2], h2, h3⟩
  · rename_i callee args sp
    simp only [tgood_call, Bool.and_eq_true] at h0
    split
    · simp only [oc_pure]; exact ⟨by simp [h0.1, h0.2], hz, IdSub.refl s⟩
    · simp only [oc_bind, oc_pure]
      have h := hv callee oc s h0.1 hz
      generalize v callee oc s = R at h
      obtain ⟨⟨c', oc'⟩, s'⟩ := R
      obtain ⟨h1, h2, h3⟩ := h
      exact ⟨by simp [h1, tgoodL_lift h3 h0.2], h2, h3⟩
  · rename_i obj prop sp
    simp only [tgood_member, Bool.and_eq_true] at h0
    simp only [oc_bind, oc_pure]
    have h := hv obj oc s h0.1 hz
    generalize v obj oc s = R at h
    obtain ⟨⟨c', oc'⟩, s'⟩ := R
    obtain ⟨h1, h2, h3⟩ := h
    exact ⟨by simp [h1, tgood_lift h3 h0.2], h2, h3⟩
  · simp only [oc_pure]; exact ⟨h0, hz, IdSub.refl s⟩

theorem outOfFuel_ids (s : St) : IdSub s (outOfFuel s).2 := fun _ h => h

theorem ocVisit_t (cfg : Config) : ∀ (f : Nat) (n : Node) (oc : OcSt) (s : St),
    tgood s.idents n = true → OcTZ oc s → OcPostT (ocVisit cfg f n oc s) s := by
  intro f
  induction f with
  | zero =>
    intro n oc s h hz
    simp only [ocVisit, oc_bind, oc_lift, oc_pure]
    exact ⟨h, hz, outOfFuel_ids s⟩
  | succ f ih =>
    intro n oc s h hz
    unfold ocVisit
    split
    · rename_i optional base sp
      rw [oc_bind, oc_get]
      show OcPostT ((ite (oc.found = true) _ _ : OcM Node) oc s) s
      by_cases hf : oc.found = true
      · rw [if_pos hf]
        have key : ∀ (m : OcM (Option Node)),
            (OcTZ (m oc s).1.2 (m oc s).2 ∧ (∀ r, (m oc s).1.1 = some r → tgood (m oc s).2.idents r = true) ∧ IdSub s (m oc s).2) →
            OcPostT ((do
              let r ← m
              if optional = true then pure (r.getD (optChain optional base sp))
              else ocSpine (ocVisit cfg f) (r.getD (optChain optional base sp)) : OcM Node) oc s) s := by
          intro m hm
          simp only [oc_bind]
          generalize hR : m oc s = R at hm
          obtain ⟨⟨r, oc1⟩, s1⟩ := R
          simp only at hm
          have hr1 : tgood s1.idents (r.getD (Node.optChain optional base sp)) = true := by
            cases r with
            | none => exact tgood_lift hm.2.2 h
            | some x => exact hm.2.1 x rfl
          by_cases ho : optional = true
          · rw [if_pos ho, oc_pure]; exact ⟨hr1, hm.1, hm.2.2⟩
          · rw [if_neg ho]
            have := ocSpine_t (ocVisit cfg f) (fun e oc s h0 hz => ih e oc s h0 hz) _ oc1 s1 hr1 hm.1
            exact ⟨this.1, this.2.1, IdSub.trans hm.2.2 this.2.2⟩
        cases base with
        | optCall callee args csp =>
          simp only [tgood_optChain, tgood_optCall, Bool.and_eq_true] at h
          exact key _ (getCallFromBaseCall_t callee args optional oc s h.1 h.2 hz)
        | member obj prop msp =>
          simp only [tgood_optChain, tgood_member, Bool.and_eq_true] at h
          exact key _ (getMemberFromBaseMember_t obj prop msp optional oc s h.1 h.2 hz)
        | _ => exact key (pure none) ⟨hz, (by intro r hr; simp [oc_pure] at hr), IdSub.refl s⟩
      · rw [if_neg hf]
        by_cases ht : ocTrigger cfg optional base = true
        · rw [if_pos ht]; simp only [oc_bind, oc_modify]
          exact ih _ _ _ h hz
        · rw [if_neg ht]
          exact ocSpine_t (ocVisit cfg f) (fun e oc s h0 hz => ih e oc s h0 hz) _ oc s h hz
    · rw [oc_pure]; exact ⟨h, hz, IdSub.refl s⟩

theorem toDdCond_t (cfg : Config) (fuel : Nat) (e : Node) (s : St) (h : tgood s.idents e = true) :
    let R := toDdCond cfg fuel e s
    tgood R.2.idents R.1.1 = true ∧ (∀ r, R.1.2 = some r → tgood R.2.idents r = true) ∧ IdSub s R.2 := by
  unfold toDdCond
  simp only [run_bind]
  have hv : OcPostT (StateT.run (ocVisit cfg fuel e) {} s) s := ocVisit_t cfg fuel e {} s h ⟨rfl, by intro t ht; cases ht⟩
  generalize (StateT.run (ocVisit cfg fuel e) {} s) = X at hv ⊢
  obtain ⟨⟨e', oc⟩, s'⟩ := X
  obtain ⟨h1, h2, h3⟩ := hv
  simp only at h1 h2 h3
  cases hn : oc.newIdent with
  | none => simp only [run_pure]; exact ⟨h1, (by intro r hr; cases hr), h3⟩
  | some t =>
    simp only
    by_cases ha : oc.assignments.isEmpty = true
    · simp only [ha, if_true, run_pure]; exact ⟨h1, (by intro r hr; cases hr), h3⟩
    · simp only [ha, Bool.false_eq_true, if_false, run_pure]
      refine ⟨h1, ?_, h3⟩
      intro r hr
      simp only [Option.some.injEq] at hr
      subst hr
      have ht := h2.2 t hn
      simp [tempIdent, nullLit, ht, h1, h2.1]

end IastModel

import IastModel.Lemmas.ErCall7
import IastModel.Lemmas.BlockRewrite
/-
  The conclusion of the visitor theorem for one node, and the generic (untransformed) node case.
-/
namespace IastModel
open Node

/-- what the operation visitor guarantees about its result `n'` for the source node `n` -/
def EVC (lo hi : Nat) (n' n : Node) : Prop :=
  ErAll lo hi n' n ∧ spanRel n' n ∧ Deep lo hi n' n ∧ isTempAssign n' = false ∧ (n'.isIdent = true → n' = n)

theorem EVC.mono {lo hi lo' hi' : Nat} {n' n : Node} (h : EVC lo hi n' n) (h1 : lo' ≤ lo) (h2 : hi ≤ hi') : EVC lo' hi' n' n :=
  ⟨h.1.mono h1 h2, h.2.1, Deep.mono h1 h2 _ _ h.2.2.1, h.2.2.2.1, h.2.2.2.2⟩

theorem isTempAssign_src {n : Node} (h : srcOk n = true) : isTempAssign n = false := by
  unfold isTempAssign
  split
  · rename_i k sp r sp'
    have := srcOk_self (srcOk_kids h (.ident (.temp k) sp) (by simp [kids]))
    simp [srcNode] at this
  · rfl

/-- the children of a node, visited one after the other -/
def KL (lo hi : Nat) (ks' ks : List Node) : Prop := Forall2 (EVC lo hi) ks' ks

theorem KL.mono {lo hi lo' hi' : Nat} (h1 : lo' ≤ lo) (h2 : hi ≤ hi') : ∀ {ks' ks : List Node}, KL lo hi ks' ks → KL lo' hi' ks' ks := by
  intro ks'
  induction ks' with
  | nil => intro ks h; cases ks <;> simp_all [KL, Forall2]
  | cons x xs ih =>
    intro ks h
    cases ks with
    | nil => simp [KL, Forall2] at h
    | cons y ys =>
      simp only [KL, Forall2] at h ⊢
      exact ⟨h.1.mono h1 h2, ih h.2⟩

theorem KL.length {lo hi : Nat} {ks' ks : List Node} (h : KL lo hi ks' ks) : ks'.length = ks.length := Forall2.length_eq h

theorem KL.deepL {lo hi : Nat} : ∀ {ks' ks : List Node}, KL lo hi ks' ks → DeepL lo hi ks' ks := by
  intro ks'
  induction ks' with
  | nil => intro ks h; cases ks <;> simp_all [KL, Forall2, DeepL]
  | cons x xs ih =>
    intro ks h
    cases ks with
    | nil => simp [KL, Forall2] at h
    | cons y ys =>
      simp only [KL, Forall2] at h
      simp only [DeepL]
      exact ⟨h.1.1, h.1.2.2.1, ih h.2⟩

/-- erasing the visited children in order gives the source children, up to positions -/
theorem eraseL_KL {lo hi : Nat} : ∀ {ks' ks : List Node}, KL lo hi ks' ks → ∀ ks'', BRgL ks' ks'' → ∀ σ,
    ∃ Xs Δ, eraseL σ ks'' = (Xs, Δ ++ σ) ∧ Forall2 ESim Xs ks ∧ Win lo hi Δ := by
  intro ks'
  induction ks' with
  | nil =>
    intro ks h ks'' hb σ
    rw [BRgL.nil_inv hb]
    cases ks with
    | nil => exact ⟨[], [], rfl, by simp [Forall2], Win.nil _ _⟩
    | cons _ _ => simp [KL, Forall2] at h
  | cons x xs ih =>
    intro ks h ks'' hb σ
    obtain ⟨x'', xs'', rfl, hx, hxs⟩ := BRgL.cons_inv hb
    cases ks with
    | nil => simp [KL, Forall2] at h
    | cons y ys =>
      simp only [KL, Forall2] at h
      obtain ⟨X, Δ1, e1, s1, w1⟩ := h.1.1 x'' hx σ
      obtain ⟨Xs, Δ2, e2, s2, w2⟩ := ih h.2 xs'' hxs (Δ1 ++ σ)
      refine ⟨X :: Xs, Δ2 ++ Δ1, ?_, ?_, w2.append w1⟩
      · simp only [eraseL, e1, e2, List.append_assoc]
      · simp only [Forall2]; exact ⟨s1, s2⟩

theorem Forall2_Sim_strip : ∀ {Xs ks : List Node}, Forall2 ESim Xs ks → stripL Xs = stripL ks := by
  intro Xs
  induction Xs with
  | nil => intro ks h; cases ks <;> simp_all [Forall2, stripL]
  | cons x xs ih =>
    intro ks h
    cases ks with
    | nil => simp [Forall2] at h
    | cons y ys =>
      simp only [Forall2] at h
      simp only [stripL, h.1.1, ih h.2]

/-- constructors on which `erase` simply recurses into the children -/
def structK : Node → Bool
  | .atom _ | .lit .. | .pname .. => true
  | .arr _ | .obj .. | .other .. | .bin .. | .member .. | .optChain .. | .optCall .. | .unary .. | .array ..
  | .ifStmt .. | .exprStmt .. => true
  | _ => false

theorem erase_struct (n : Node) (h : structK n = true) (σ : Env) :
    erase σ n = (n.withKids (eraseL σ n.kids).1, (eraseL σ n.kids).2) := by
  cases n <;> simp only [structK, Bool.false_eq_true] at h <;> simp [erase, kids, withKids, eraseL]

theorem strip_withKids (n : Node) (Xs : List Node) (h : structK n = true) (hl : Xs.length = n.kids.length)
    (hs : stripL Xs = stripL n.kids) : strip (n.withKids Xs) = strip n := by
  cases n <;> simp only [structK, Bool.false_eq_true] at h
  case atom | lit | pname => rfl
  case arr xs => simp only [withKids, strip, kids] at hs ⊢; rw [hs]
  case obj ns vs => simp only [withKids, strip, kids] at hs ⊢; rw [hs]
  case other k sp ns vs => simp only [withKids, strip, kids] at hs ⊢; rw [hs]
  case array es sp => simp only [withKids, strip, kids] at hs ⊢; rw [hs]
  case optCall c as sp =>
    match Xs, hl with
    | c' :: as', _ =>
      simp only [kids, stripL, List.cons.injEq] at hs
      simp only [withKids, strip, List.getD_cons_zero, List.drop_succ_cons, List.drop_zero, hs.1, hs.2]
  all_goals
    simp only [kids, List.length_cons, List.length_nil] at hl
    rcases Xs with _ | ⟨a, _ | ⟨b, _ | ⟨c, _ | _⟩⟩⟩ <;> simp only [List.length_cons, List.length_nil] at hl <;> try omega
    all_goals
      simp only [kids, stripL, List.cons.injEq, and_true] at hs
      simp [withKids, strip, hs]

theorem span_withKids (n : Node) (Xs : List Node) (h : structK n = true) : (n.withKids Xs).span = n.span := by
  cases n <;> simp only [structK, Bool.false_eq_true] at h <;> rfl

theorem unSpread_withKids (n : Node) (Xs : List Node) (h : structK n = true) (hs : srcNode n = true) :
    unSpread (n.withKids Xs) = n.withKids Xs := by
  cases n <;> simp only [structK, Bool.false_eq_true] at h <;> try rfl
  case array es sp =>
    simp only [srcNode, Bool.not_eq_true'] at hs
    simp only [withKids, unSpread]
    split
    · rename_i heq
      simp only [array.injEq] at heq
      obtain ⟨h1, h2⟩ := heq
      subst h1 h2
      simp [hs]
    · rfl

theorem noSp_of_unSpread {X : Node} (h : unSpread X = X) (hna : ∀ s e, X ≠ .arg s e) : noSp X := by
  cases X <;> first | exact h | (exfalso; exact hna _ _ rfl)

end IastModel

import IastModel.Lemmas.ErVisitAux
namespace IastModel
open Node

/-- the context with nothing to stay away from, based at `σ` -/
def cx0 (σ : Env) : Cx := ⟨fun _ => False, σ⟩

theorem hypW0 (σ : Env) {hi : Nat} {s : St} (h : hi ≤ s.counter) : HypW (cx0 σ) hi s :=
  ⟨fun _ hk => hk.elim, fun _ hk => hk.elim, h⟩

theorem erAll_of_er {lo hi : Nat} {e' e : Node} (h : ∀ σ, Er (cx0 σ) lo hi e' e) : ErAll lo hi e' e :=
  fun e'' hb σ => h σ e'' hb σ (Cx.ext_base (cx0 σ))

theorem VC_of_dd {lo hi : Nat} {e1 n : Node} {sp : Span} (hE : ErAll lo hi e1 n) (hd : IsDdS e1 sp) (hsp : n.span = sp) :
    EVC lo hi e1 n := by
  obtain ⟨a, b, c⟩ := hd.shape lo hi n
  exact ⟨hE, Or.inl (by rw [hd.span, hsp]), a, b, c⟩

theorem KL_pair {lo hi : Nat} {a' b' a b : Node} (h : KL lo hi [a', b'] [a, b]) : EVC lo hi a' a ∧ EVC lo hi b' b := by
  simp only [KL, Forall2] at h; exact ⟨h.1, h.2.1⟩

/-- the `+` arm after the children have been visited -/
theorem bin_arm (cfg : Config) (op : String) (l r l' r' : Node) (sp : Span) (s s1 : St)
    (hs : srcOk (.bin op l r sp) = true) (c01 : s.counter ≤ s1.counter)
    (hkl : KL s.counter s1.counter [l', r'] [l, r]) :
    s1.counter ≤ (toDdBinary cfg (.bin op l' r' sp) s1).2.counter ∧
    EVC s.counter (toDdBinary cfg (.bin op l' r' sp) s1).2.counter
      ((toDdBinary cfg (.bin op l' r' sp) s1).1.getD (.bin op l' r' sp)) (.bin op l r sp) := by
  obtain ⟨hl, hr⟩ := KL_pair hkl
  have key := fun σ => toDdBinary_Er cfg (cx0 σ) s.counter s1.counter op l' r' l r sp s1 (hypW0 σ (Nat.le_refl _)) c01
    (hl.1.er _) (hr.1.er _)
  have hc := (key []).1
  refine ⟨hc, ?_⟩
  cases hres : (toDdBinary cfg (.bin op l' r' sp) s1).1 with
  | none =>
    simp only [Option.getD_none]
    have := gen_VC (.bin op l r sp) [l', r'] s.counter s1.counter hs rfl hkl
    exact this.mono (Nat.le_refl _) hc
  | some e1 =>
    simp only [Option.getD_some]
    exact VC_of_dd (erAll_of_er (fun σ => (key σ).2 e1 hres)) (toDdBinary_isDdS cfg op l' r' sp s1 e1 hres) rfl

/-- the `+=` arm -/
theorem assign_arm (cfg : Config) (l r l' r' : Node) (sp : Span) (s s1 : St)
    (hs : srcOk (.assign "+=" l r sp) = true) (c01 : s.counter ≤ s1.counter)
    (hkl : KL s.counter s1.counter [l', r'] [l, r]) :
    s1.counter ≤ (toDdAssign cfg (.assign "+=" l' r' sp) s1).2.counter ∧
    EVC s.counter (toDdAssign cfg (.assign "+=" l' r' sp) s1).2.counter
      ((toDdAssign cfg (.assign "+=" l' r' sp) s1).1.getD (.assign "+=" l' r' sp)) (.assign "+=" l r sp) := by
  obtain ⟨hl, hr⟩ := KL_pair hkl
  have hnt := tempTarget_of_VC hl (srcOk_kids hs l (by simp [kids]))
  have key := fun σ => toDdAssign_Er cfg (cx0 σ) s.counter s1.counter "+=" l' r' l r sp s1 (hypW0 σ (Nat.le_refl _)) c01
    hnt (hl.1.er _) hl.2.2.1 (hr.1.er _)
  have hc := (key []).1
  refine ⟨hc, ?_⟩
  cases hres : (toDdAssign cfg (.assign "+=" l' r' sp) s1).1 with
  | none =>
    simp only [Option.getD_none]
    exact (assign_VC hs hl hr).mono (Nat.le_refl _) hc
  | some e1 =>
    simp only [Option.getD_some]
    obtain ⟨t, d, sp', he, _⟩ := toDdAssign_shape cfg _ s1 e1 hres
    have hE := erAll_of_er (fun σ => (key σ).2 e1 hres)
    -- the replacement is `target = hook(…)` at the assignment's position, with a target that is no temporary
    have hform : ∃ target e2, e1 = .assign "=" target e2 sp ∧ tempTarget? target = none := by
      simp only [toDdAssign] at hres
      split at hres
      · simp [run_pure] at hres
      · simp only [run_bind] at hres
        have hts := tempTarget_split sp l' s1
        generalize splitMemberTarget l' sp s1 = R1 at hres hts
        obtain ⟨⟨target, operand⟩, s2⟩ := R1
        simp only at hres hts
        generalize toDdBinary cfg (.bin "+" operand (assignRhs r') sp) s2 = R2 at hres
        obtain ⟨res, s3⟩ := R2
        cases res with
        | none => simp [run_pure] at hres
        | some e2 =>
          simp only [run_pure, Option.some.injEq] at hres
          exact ⟨target, e2, hres.symm, by rw [hts]; exact hnt⟩
    obtain ⟨target, e2, rfl, htt⟩ := hform
    refine ⟨hE, Or.inl rfl, by simp [Deep], ?_, by simp [Node.isIdent]⟩
    unfold isTempAssign
    split
    · rename_i k isp rr spp heq
      simp only [assign.injEq] at heq
      obtain ⟨_, rfl, _, _⟩ := heq
      simp [tempTarget?] at htt
    · rfl

theorem tpl_VC {lo hi : Nat} {es' es qs : List Node} {sp : Span} (h : KL lo hi es' es) (hq : noBlkL qs = true) :
    EVC lo hi (.tpl es' qs sp) (.tpl es qs sp) := by
  refine ⟨?_, Or.inl rfl, by simp [Deep], rfl, by simp [Node.isIdent]⟩
  intro m hb σ
  obtain ⟨es'', qs'', rfl, hes, hqs⟩ := hb.tpl_inv
  rw [BRgL_noBlk hq hqs]
  obtain ⟨Xs, Δ, eX, sX, wX⟩ := eraseL_KL h es'' hes σ
  refine ⟨.tpl Xs qs sp, Δ, by rw [erase_tpl, eX], ?_, wX⟩
  exact ⟨by simp only [strip, Forall2_Sim_strip sX], Or.inl rfl, noSp_tpl _ _ _⟩

theorem KL_forall2_er {lo hi : Nat} (cx : Cx) {ks' ks : List Node} (h : KL lo hi ks' ks) : Forall2 (Er cx lo hi) ks' ks :=
  forall2_imp (fun _ _ hab => hab.1.er cx) h

/-- the template arm -/
theorem tpl_arm (cfg : Config) (es es' qs : List Node) (sp : Span) (s s1 : St)
    (c01 : s.counter ≤ s1.counter) (hkl : KL s.counter s1.counter es' es) (hq : noBlkL qs = true) :
    s1.counter ≤ (toDdTpl cfg (.tpl es' qs sp) s1).2.counter ∧
    EVC s.counter (toDdTpl cfg (.tpl es' qs sp) s1).2.counter
      ((toDdTpl cfg (.tpl es' qs sp) s1).1.getD (.tpl es' qs sp)) (.tpl es qs sp) := by
  have key := fun σ => toDdTpl_Er cfg (cx0 σ) s.counter s1.counter es' es qs sp s1 (hypW0 σ (Nat.le_refl _)) c01
    (KL_forall2_er _ hkl) hq
  have hc := (key []).1
  refine ⟨hc, ?_⟩
  cases hres : (toDdTpl cfg (.tpl es' qs sp) s1).1 with
  | none =>
    simp only [Option.getD_none]
    exact (tpl_VC hkl hq).mono (Nat.le_refl _) hc
  | some e1 =>
    simp only [Option.getD_some]
    exact VC_of_dd (erAll_of_er (fun σ => (key σ).2 e1 hres)) (toDdTpl_isDdS cfg es' qs sp s1 e1 hres) rfl

theorem KL_srcOk_deepEr {lo hi : Nat} (cx : Cx) : ∀ {ks' ks : List Node}, KL lo hi ks' ks → (∀ k ∈ ks, srcOk k = true) →
    Forall2 (fun a' a => Er cx lo hi a' a ∧ DeepEr cx lo hi a' a) ks' ks := by
  intro ks'
  induction ks' with
  | nil => intro ks h _; cases ks <;> simp_all [KL, Forall2]
  | cons x xs ih =>
    intro ks h hs
    cases ks with
    | nil => simp [KL, Forall2] at h
    | cons y ys =>
      simp only [KL, Forall2] at h ⊢
      exact ⟨⟨h.1.1.er cx, DeepEr_of_VC cx h.1 (hs y (by simp))⟩, ih h.2 (fun k hk => hs k (by simp [hk]))⟩

/-- the call arm -/
theorem call_arm (cfg : Config) (c c' : Node) (as as' : List Node) (sp : Span) (s s1 : St)
    (hs : srcOk (.call c as sp) = true) (c01 : s.counter ≤ s1.counter)
    (hc : EVC s.counter s1.counter c' c) (ha : KL s.counter s1.counter as' as)
    (hAA : Forall2 (fun a' a => ∃ sA e' e, a' = Node.arg sA e' ∧ a = Node.arg sA e) as' as) :
    s1.counter ≤ (toDdCall cfg (.call c' as' sp) s1).2.counter ∧
    ∀ e1 tag, (toDdCall cfg (.call c' as' sp) s1).1 = some (e1, tag) →
      EVC s.counter (toDdCall cfg (.call c' as' sp) s1).2.counter e1 (.call c as sp) := by
  have hsk := srcOk_kids hs
  have hclash : callThisClash (.call c as sp) = false := by
    have := srcOk_self hs
    simp only [srcNode, Bool.and_eq_true, Bool.not_eq_true'] at this
    exact this.1
  have key := fun σ => toDdCall_Er cfg (cx0 σ) s.counter s1.counter c' c as' as sp s1 (hypW0 σ (Nat.le_refl _)) c01
    (hc.1.er _) hc.2.2.1 (hsk c (by simp [kids])) (KL_srcOk_deepEr _ ha (fun k hk => hsk k (by simp [kids, hk]))) hAA hclash
  refine ⟨(key []).1, ?_⟩
  intro e1 tag hres
  exact VC_of_dd (erAll_of_er (fun σ => (key σ).2 e1 tag hres)) (toDdCall_isDdS cfg c' as' sp s1 e1 tag hres) rfl

end IastModel

import IastModel.Lemmas.ErOc
namespace IastModel
open Node

/-- an expression-bodied arrow: the injected `{ return e }` is taken away again — also after the block
    visitor has worked on that injected block -/
theorem arrow_VC (ps : List Node) (b : Node) (at' : String) (sp : Span) (hs : srcOk (.arrow ps b at' sp) = true)
    (lo hi : Nat) : EVC lo hi (.arrow ps (.block [returnStmt b] Span.dummy) at' sp) (.arrow ps b at' sp) := by
  have hsk := srcOk_kids hs
  have hps : ∀ k ∈ ps, srcOk k = true := fun k hk => hsk k (by simp [kids, hk])
  have hb : srcOk b = true := hsk b (by simp [kids])
  refine ⟨?_, Or.inl rfl, by simp [Deep], rfl, by simp [Node.isIdent]⟩
  intro m hbr σ
  obtain ⟨ps'', body'', rfl, hps'', hbody⟩ := hbr.arrow_inv
  obtain ⟨Xs, Δ1, e1, s1, w1⟩ := eraseL_KL (EVC.srcL lo hi ps hps) ps'' hps'' σ
  have hret : ∀ σ', erase σ' (returnStmt b) = (returnStmt b, σ') := fun σ' => erase_src _ (srcOk_returnStmt hb) σ'
  have hli : injectedLetAt Span.dummy [returnStmt b] = none :=
    injectedLetAt_src _ _ (by intro k hk; simp only [List.mem_singleton] at hk; subst hk; exact srcOk_returnStmt hb)
  -- the erased body is `{ return e' }` without positions, with `e'` the source body up to positions
  have hbd : ∃ e', erase (Δ1 ++ σ) body'' = (.block [.other "ReturnStatement" Span.dummy ["argument"] [e']] Span.dummy, Δ1 ++ σ) ∧
      strip e' = strip b := by
    rcases hbody.block_inv with rfl | ⟨ss', rfl, hg⟩
    · refine ⟨b, ?_, rfl⟩
      simp only [erase, eraseL, hret, hli, dropAt]
      rfl
    · obtain ⟨es, ee, hsim⟩ := hg (Δ1 ++ σ)
      have hst := hsim.1
      have hsp := hsim.2
      cases es with
      | nil => simp [stripL] at hst
      | cons e0 rest =>
        cases rest with
        | cons _ _ => simp [stripL] at hst
        | nil =>
          simp only [stripL, List.cons.injEq, and_true] at hst
          simp only [List.map_cons, List.map_nil, List.cons.injEq, and_true] at hsp
          cases e0 with
          | other k2 sp2 ns2 vs2 =>
            simp only [returnStmt, strip, other.injEq] at hst
            obtain ⟨rfl, -, rfl, hvs⟩ := hst
            simp only [returnStmt, Node.span] at hsp
            subst hsp
            cases vs2 with
            | nil => simp [stripL] at hvs
            | cons v0 vrest =>
              cases vrest with
              | cons _ _ => simp [stripL] at hvs
              | nil =>
                simp only [stripL, List.cons.injEq, and_true] at hvs
                exact ⟨v0, ee, hvs⟩
          | _ => simp [returnStmt, strip] at hst
  obtain ⟨e', ebd, he'⟩ := hbd
  refine ⟨.arrow Xs e' at' sp, Δ1, ?_, ⟨by simp only [strip, Forall2_Sim_strip s1, he'], Or.inl rfl, by simp [noSp, unSpread]⟩, w1⟩
  rw [erase_arrow, e1]
  simp only
  rw [ebd]
  simp [arrowOut, dummy_isDummy]

theorem KL_one {lo hi : Nat} {a' a : Node} (h : KL lo hi [a'] [a]) : EVC lo hi a' a := by
  simp only [KL, Forall2] at h; exact h.1

theorem KL_cons {lo hi : Nat} {a' a : Node} {as' as : List Node} (h : KL lo hi (a' :: as') (a :: as)) :
    EVC lo hi a' a ∧ KL lo hi as' as := by
  simp only [KL, Forall2] at h; exact h

theorem KL_lists_two {lo hi : Nat} {ks' : List Node} {a b : Node} (h : KL lo hi ks' [a, b]) :
    ∃ a' b', ks' = [a', b'] := by
  have := h.length
  match ks', this with
  | [a', b'], _ => exact ⟨a', b', rfl⟩

theorem KL_lists_cons {lo hi : Nat} {ks' : List Node} {a : Node} {as : List Node} (h : KL lo hi ks' (a :: as)) :
    ∃ a' as', ks' = a' :: as' := by
  have := h.length
  match ks', this with
  | a' :: as', _ => exact ⟨a', as', rfl⟩

end IastModel

namespace IastModel
open Node

/-- the template's children: the substitutions are visited, the quasis come back as they are -/
theorem tpl_kids (cfg : Config) (f : Nat) (r : Bool) (es qs : List Node) (s : St)
    (hq : qs.all inertT = true)
    (hes : KRes r s (mapM' (visit cfg f r) es s).2 (mapM' (visit cfg f r) es s).1 es)
    (hqs : ∀ s1, KRes r s1 (mapM' (visit cfg f r) qs s1).2 (mapM' (visit cfg f r) qs s1).1 qs) :
    (mapM' (visit cfg f r) (es ++ qs) s).1 = (mapM' (visit cfg f r) es s).1 ++ qs ∧
    KRes r s (mapM' (visit cfg f r) (es ++ qs) s).2 (mapM' (visit cfg f r) es s).1 es := by
  rw [mapM'_append]
  simp only
  have hid : (mapM' (visit cfg f r) qs (mapM' (visit cfg f r) es s).2).1 = qs :=
    mapM'_id _ _ _ (fun k hk s' => visit_inert cfg f r k s' (List.all_eq_true.mp hq k hk))
  refine ⟨by rw [hid], ?_⟩
  have h2 := hqs (mapM' (visit cfg f r) es s).2
  cases r
  · simp only [KRes] at hes h2 ⊢
    exact ⟨by omega, KL.mono (Nat.le_refl _) h2.1 hes.2⟩
  · exact hes

/-- **the operation visitor's result erases to the node it was given** (no optional chain in the tree) -/
theorem visit_VRes (cfg : Config) : ∀ (f : Nat) (root : Bool) (n : Node) (s : St), srcOk n = true → noOpt cfg n = true →
    VRes root s (visit cfg f root n s).2 (visit cfg f root n s).1 n := by
  intro f
  induction f with
  | zero =>
    intro root n s hs _
    simp only [visit, run_bind, run_pure, outOfFuel, run_modify]
    exact VRes_src root _ _ n hs rfl
  | succ f ih =>
    intro root n s hs hno
    have hsk := srcOk_kids hs
    have hnk := noOpt_kids hno
    have hK : ∀ (r : Bool) (ks : List Node), (∀ k ∈ ks, srcOk k = true) → (∀ k ∈ ks, noOpt cfg k = true) → ∀ s,
        KRes r s (mapM' (visit cfg f r) ks s).2 (mapM' (visit cfg f r) ks s).1 ks :=
      fun r ks h1 h2 s => mapM'_KRes _ r ks (fun k hk s => ih r k s (h1 k hk) (h2 k hk)) s
    have gen : ∀ r, genK n = true →
        VRes r s (mapKidsM mapM' (visit cfg f r) n s).2 (mapKidsM mapM' (visit cfg f r) n s).1 n := by
      intro r hg
      rw [mapKidsM_run]
      exact VRes_of_KRes r s _ n _ (fun lo hi => genAll_VC n hs hg lo hi _) (hK r n.kids hsk hnk s)
    cases n with
    | ident nm sp =>
      simp only [visit, run_bind, run_pure, registerVariable, run_modify]
      exact VRes_src root _ _ _ hs rfl
    | block ss sp => simp only [visit, run_pure]; exact VRes_src root _ _ _ hs rfl
    | optChain o b sp =>
      -- not lowered under this configuration: the chain is handed back and its children are visited
      simp only [visit, run_bind]
      obtain ⟨hc1, hc2⟩ := toDdCond_id cfg f (.optChain o b sp) s hno
      generalize toDdCond cfg f (.optChain o b sp) s = C at hc1 hc2 ⊢
      obtain ⟨⟨e', res⟩, s1⟩ := C
      simp only [Prod.mk.injEq] at hc1
      obtain ⟨rfl, rfl⟩ := hc1
      simp only [Option.getD_none]
      rw [mapKidsM_run]
      have hk := hK false _ hsk hnk s1
      have hcnt : s1.counter = s.counter := hc2.1
      have hv : EVC s.counter (mapM' (visit cfg f false) (Node.optChain o b sp).kids s1).2.counter
          ((Node.optChain o b sp).withKids (mapM' (visit cfg f false) (Node.optChain o b sp).kids s1).1) (.optChain o b sp) := by
        have := genAll_VC (.optChain o b sp) hs rfl _ _ _ hk.2
        rwa [hcnt] at this
      exact VRes_of_VC root s _ _ _ (by have := hk.1; dsimp only at this ⊢; omega) hv
    | arrow ps b at' sp =>
      simp only [visit, run_pure, toDdArrow]
      split
      · exact VRes_src root _ _ _ hs rfl
      · simp only [Option.getD_some]
        cases root
        · exact ⟨Nat.le_refl _, arrow_VC ps b at' sp hs _ _⟩
        · exact ⟨0, arrow_VC ps b at' sp hs _ _⟩
    | unary op a sp =>
      simp only [visit]
      split
      · simp only [run_pure]; exact VRes_src root _ _ _ hs rfl
      · exact gen root rfl
    | bin op l r sp =>
      simp only [visit]
      split
      · simp only [run_bind]
        rw [mapKidsM_run]
        have hk := hK false [l, r] hsk hnk s
        simp only [kids] at hk ⊢
        generalize mapM' (visit cfg f false) [l, r] s = K at hk ⊢
        obtain ⟨ks', s1⟩ := K
        obtain ⟨c01, hkl⟩ := hk
        dsimp only at c01 hkl
        obtain ⟨l', r', rfl⟩ := KL_lists_two hkl
        simp only [withKids, List.getD_cons_zero, List.getD_cons_succ]
        split
        · simp only [run_bind, run_pure]
          have h := bin_arm cfg op l r l' r' sp s s1 hs c01 hkl
          generalize toDdBinary cfg (.bin op l' r' sp) s1 = X at h ⊢
          obtain ⟨res, s2⟩ := X
          exact VRes_of_VC root s _ _ _ (by rw [updateStatus_counter]; have := h.1; dsimp only at this ⊢; omega)
            (by rw [updateStatus_counter]; exact h.2)
        · simp only [run_bind, run_pure]
          exact VRes_of_VC root s s1 _ _ c01 (gen_VC (.bin op l r sp) [l', r'] _ _ hs rfl hkl)
      · exact gen root rfl
    | assign op l r sp =>
      have genA : ∀ rr, VRes rr s (mapKidsM mapM' (visit cfg f rr) (.assign op l r sp) s).2
          (mapKidsM mapM' (visit cfg f rr) (.assign op l r sp) s).1 (.assign op l r sp) := by
        intro rr
        rw [mapKidsM_run]
        refine VRes_of_KRes rr s _ _ _ ?_ (hK rr _ hsk hnk s)
        intro lo hi hkl
        obtain ⟨l', r', he⟩ := KL_lists_two hkl
        rw [he] at hkl ⊢
        obtain ⟨hl, hr⟩ := KL_pair hkl
        simp only [withKids, List.getD_cons_zero, List.getD_cons_succ]
        exact assign_VC hs hl hr
      simp only [visit]
      split
      · simp only [run_bind]
        rw [mapKidsM_run]
        have hk := hK false [l, r] hsk hnk s
        simp only [kids] at hk ⊢
        generalize mapM' (visit cfg f false) [l, r] s = K at hk ⊢
        obtain ⟨ks', s1⟩ := K
        obtain ⟨c01, hkl⟩ := hk
        dsimp only at c01 hkl
        obtain ⟨l', r', rfl⟩ := KL_lists_two hkl
        obtain ⟨hl, hr⟩ := KL_pair hkl
        simp only [withKids, List.getD_cons_zero, List.getD_cons_succ]
        split
        · rename_i hop
          have hop' : op = "+=" := by simpa using hop
          subst hop'
          simp only [run_bind, run_pure]
          have h := assign_arm cfg l r l' r' sp s s1 hs c01 hkl
          generalize toDdAssign cfg (.assign "+=" l' r' sp) s1 = X at h ⊢
          obtain ⟨res, s2⟩ := X
          exact VRes_of_VC root s _ _ _ (by rw [updateStatus_counter]; have := h.1; dsimp only at this ⊢; omega)
            (by rw [updateStatus_counter]; exact h.2)
        · simp only [run_bind, run_pure]
          exact VRes_of_VC root s s1 _ _ c01 (assign_VC hs hl hr)
      · exact genA root
    | tpl es qs sp =>
      have hq : qs.all inertT = true := by
        have := srcOk_self hs; simpa [srcNode] using this
      have hqb : noBlkL qs = true := by
        unfold noBlkL
        rw [List.all_eq_true]
        intro q hq'
        exact inertT_noBlk q (List.all_eq_true.mp hq q hq')
      have hses : ∀ k ∈ es, srcOk k = true := fun k hk => hsk k (by simp [kids, hk])
      have hsqs : ∀ k ∈ qs, srcOk k = true := fun k hk => hsk k (by simp [kids, hk])
      have hnes : ∀ k ∈ es, noOpt cfg k = true := fun k hk => hnk k (by simp [kids, hk])
      have hnqs : ∀ k ∈ qs, noOpt cfg k = true := fun k hk => hnk k (by simp [kids, hk])
      have tk := fun rr => tpl_kids cfg f rr es qs s hq (hK rr es hses hnes s) (fun s1 => hK rr qs hsqs hnqs s1)
      have hwk : ∀ rr, (Node.tpl es qs sp).withKids (mapM' (visit cfg f rr) (es ++ qs) s).1
          = .tpl (mapM' (visit cfg f rr) es s).1 qs sp := by
        intro rr
        rw [(tk rr).1]
        simp only [withKids]
        have hl := mapM'_length (visit cfg f rr) es s
        rw [← hl, List.take_left, List.drop_left]
      have genT : ∀ rr, VRes rr s (mapKidsM mapM' (visit cfg f rr) (.tpl es qs sp) s).2
          (mapKidsM mapM' (visit cfg f rr) (.tpl es qs sp) s).1 (.tpl es qs sp) := by
        intro rr
        rw [mapKidsM_run]
        simp only [kids]
        rw [hwk rr]
        have := (tk rr).2
        cases rr
        · exact ⟨this.1, tpl_VC this.2 hqb⟩
        · obtain ⟨hi, hk⟩ := this; exact ⟨hi, tpl_VC hk hqb⟩
      simp only [visit]
      split
      · split
        · simp only [run_bind]
          rw [mapKidsM_run]
          simp only [kids]
          rw [hwk false]
          obtain ⟨c01, hkl⟩ := (tk false).2
          generalize (mapM' (visit cfg f false) (es ++ qs) s).2 = s1 at c01 hkl ⊢
          generalize (mapM' (visit cfg f false) es s).1 = es' at hkl ⊢
          have h := tpl_arm cfg es es' qs sp s s1 c01 hkl hqb
          generalize toDdTpl cfg (.tpl es' qs sp) s1 = X at h ⊢
          obtain ⟨res, s2⟩ := X
          simp only [run_bind, run_pure]
          exact VRes_of_VC root s _ _ _ (by rw [updateStatus_counter]; have := h.1; dsimp only at this ⊢; omega)
            (by rw [updateStatus_counter]; exact h.2)
        · simp only [run_pure]; exact VRes_src root _ _ _ hs rfl
      · exact genT root
    | call c as sp =>
      simp only [visit, run_bind]
      rw [mapKidsM_run]
      have hk := hK false (c :: as) hsk hnk s
      simp only [kids] at hk ⊢
      have hargs : as.all isArgN = true := by
        have := srcOk_self hs
        simp only [srcNode, Bool.and_eq_true] at this
        exact this.2
      have hAA0 : Forall2 (fun a' a => ∃ sA e' e, a' = Node.arg sA e' ∧ a = Node.arg sA e)
          (mapM' (visit cfg f false) (c :: as) s).1.tail as := by
        simp only [mapM', run_bind, run_pure, List.tail_cons]
        exact mapM'_argShape cfg f false as _ hargs
      generalize mapM' (visit cfg f false) (c :: as) s = K at hk hAA0 ⊢
      obtain ⟨ks', s1⟩ := K
      obtain ⟨c01, hkl⟩ := hk
      dsimp only at c01 hkl
      obtain ⟨c', as', rfl⟩ := KL_lists_cons hkl
      obtain ⟨hc, ha⟩ := KL_cons hkl
      simp only [List.tail_cons] at hAA0
      simp only [withKids, List.getD_cons_zero, List.drop_succ_cons, List.drop_zero]
      split
      · simp only [run_bind, run_pure]
        exact VRes_of_VC root s s1 _ _ c01 (call_VC hs hc ha)
      · simp only [run_bind]
        have h := call_arm cfg c c' as as' sp s s1 hs c01 hc ha hAA0
        generalize toDdCall cfg (.call c' as' sp) s1 = X at h ⊢
        obtain ⟨res, s2⟩ := X
        cases res with
        | none =>
          simp only [run_bind, run_pure]
          exact VRes_of_VC root s s2 _ _ (by have := h.1; dsimp only at this; omega)
            ((call_VC hs hc ha).mono (Nat.le_refl _) (by have := h.1; dsimp only at this; omega))
        | some et =>
          obtain ⟨e', tag⟩ := et
          simp only [run_bind, run_pure]
          exact VRes_of_VC root s _ _ _ (by rw [updateStatus_counter]; have := h.1; dsimp only at this ⊢; omega)
            (by rw [updateStatus_counter]; exact h.2 e' tag rfl)
    | _ => simp only [visit]; exact gen root rfl

end IastModel

import IastModel.Lemmas.EffBlock
namespace IastModel
open Node

/-- hook call sites with replacement name `d` -/
def isHookNamed (d : String) (n : Node) : Bool := hookName? n == some d

def cn (d : String) (n : Node) : Nat := Node.count (isHookNamed d) n
def cnL (d : String) (l : List Node) : Nat := (l.map (cn d)).sum

theorem cn_eq (d : String) (n : Node) : cn d n = (if isHookNamed d n then 1 else 0) + cnL d n.kids := by
  unfold cnL
  show Node.count (isHookNamed d) n = _
  rw [Node.count_eq]; rfl

@[simp] theorem cnL_nil (d) : cnL d [] = 0 := rfl
@[simp] theorem cnL_cons (d) (x : Node) (xs : List Node) : cnL d (x :: xs) = cn d x + cnL d xs := by simp [cnL]
@[simp] theorem cnL_append (d) (xs ys : List Node) : cnL d (xs ++ ys) = cnL d xs + cnL d ys := by simp [cnL, List.sum_append]

theorem cn_nocall (d) (n : Node) (h : ∀ c as sp, n ≠ .call c as sp) : cn d n = cnL d n.kids := by
  rw [cn_eq]
  have : isHookNamed d n = false := by
    cases n <;> first | rfl | (exfalso; exact h _ _ _ rfl)
  simp [this]

@[simp] theorem cn_lit (d) (k v r : String) (sp : Span) : cn d (.lit k v r sp) = 0 := by rw [cn_nocall _ _ (by intro c as sp h; cases h)]; simp [kids]
@[simp] theorem cn_pname (d) (n : String) (sp : Span) : cn d (.pname n sp) = 0 := by rw [cn_nocall _ _ (by intro c as sp h; cases h)]; simp [kids]
@[simp] theorem cn_ident (d) (n : Name) (sp : Span) : cn d (.ident n sp) = 0 := by rw [cn_nocall _ _ (by intro c as sp h; cases h)]; simp [kids]
@[simp] theorem cn_atom (d) (s : String) : cn d (.atom s) = 0 := by rw [cn_nocall _ _ (by intro c as sp h; cases h)]; simp [kids]
@[simp] theorem cn_bin (d) (op : String) (l r : Node) (sp : Span) : cn d (.bin op l r sp) = cn d l + cn d r := by rw [cn_nocall _ _ (by intro c as sp h; cases h)]; simp [kids]
@[simp] theorem cn_assign (d) (op : String) (l r : Node) (sp : Span) : cn d (.assign op l r sp) = cn d l + cn d r := by rw [cn_nocall _ _ (by intro c as sp h; cases h)]; simp [kids]
@[simp] theorem cn_member (d) (o p : Node) (sp : Span) : cn d (.member o p sp) = cn d o + cn d p := by rw [cn_nocall _ _ (by intro c as sp h; cases h)]; simp [kids]
@[simp] theorem cn_arg (d) (s : Option Span) (e : Node) : cn d (.arg s e) = cn d e := by rw [cn_nocall _ _ (by intro c as sp h; cases h)]; simp [kids]
@[simp] theorem cn_paren (d) (e : Node) (sp : Span) : cn d (.paren e sp) = cn d e := by rw [cn_nocall _ _ (by intro c as sp h; cases h)]; simp [kids]
@[simp] theorem cn_seq (d) (es : List Node) (sp : Span) : cn d (.seq es sp) = cnL d es := by rw [cn_nocall _ _ (by intro c as sp h; cases h)]; simp [kids]
@[simp] theorem cn_array (d) (es : List Node) (sp : Span) : cn d (.array es sp) = cnL d es := by rw [cn_nocall _ _ (by intro c as sp h; cases h)]; simp [kids]
@[simp] theorem cn_tpl (d) (es qs : List Node) (sp : Span) : cn d (.tpl es qs sp) = cnL d es + cnL d qs := by rw [cn_nocall _ _ (by intro c as sp h; cases h)]; simp [kids]
@[simp] theorem cn_cond (d) (t c a : Node) (sp : Span) : cn d (.cond t c a sp) = cn d t + cn d c + cn d a := by rw [cn_nocall _ _ (by intro c as sp h; cases h)]; simp [kids]; omega
@[simp] theorem cn_optChain (d) (o : Bool) (b : Node) (sp : Span) : cn d (.optChain o b sp) = cn d b := by rw [cn_nocall _ _ (by intro c as sp h; cases h)]; simp [kids]
@[simp] theorem cn_optCall (d) (c : Node) (as : List Node) (sp : Span) : cn d (.optCall c as sp) = cn d c + cnL d as := by rw [cn_nocall _ _ (by intro c as sp h; cases h)]; simp [kids]
@[simp] theorem cn_block (d) (ss : List Node) (sp : Span) : cn d (.block ss sp) = cnL d ss := by rw [cn_nocall _ _ (by intro c as sp h; cases h)]; simp [kids]
@[simp] theorem cn_arrow (d) (ps : List Node) (b : Node) (a : String) (sp : Span) : cn d (.arrow ps b a sp) = cnL d ps + cn d b := by rw [cn_nocall _ _ (by intro c as sp h; cases h)]; simp [kids]
@[simp] theorem cn_arr (d) (xs : List Node) : cn d (.arr xs) = cnL d xs := by rw [cn_nocall _ _ (by intro c as sp h; cases h)]; simp [kids]
@[simp] theorem cn_other (d) (k : String) (sp : Span) (ns' : List String) (vs : List Node) : cn d (.other k sp ns' vs) = cnL d vs := by rw [cn_nocall _ _ (by intro c as sp h; cases h)]; simp [kids]
@[simp] theorem cn_unary (d) (op : String) (a : Node) (sp : Span) : cn d (.unary op a sp) = cn d a := by rw [cn_nocall _ _ (by intro c as sp h; cases h)]; simp [kids]

theorem cn_call (d) (c : Node) (as : List Node) (sp : Span) :
    cn d (.call c as sp) = (if hookName? (.call c as sp) == some d then 1 else 0) + (cn d c + cnL d as) := by
  rw [cn_eq]; simp [isHookNamed, kids]

/-- a call that is not a hook call -/
theorem cn_call_user (d) (c : Node) (as : List Node) (sp : Span) (h : hookName? (.call c as sp) = none) :
    cn d (.call c as sp) = cn d c + cnL d as := by
  rw [cn_call, h]; simp

/-- the hook call counts for its own name -/
theorem cn_ddCall (d) (e : Node) (args : List Node) (m : String) (sp : Span) :
    cn d (ddCall e args m sp) = (if m == d then 1 else 0) + (cn d e + cnL d args) := by
  unfold ddCall ddCallee
  rw [cn_call]
  simp [hookName?]

theorem cn_ddParen (d) (e : Node) (args asg : List Node) (m : String) (sp : Span) :
    cn d (ddParen e args asg m sp) = (if m == d then 1 else 0) + (cn d e + cnL d args + cnL d asg) := by
  unfold ddParen
  split
  · rename_i h; have : asg = [] := by simpa using h
    subst this; simp [cn_ddCall]
  · simp [cn_ddCall]; omega

theorem cn_assignRight (d) (e : Node) (k : IdentKind) : cn d (assignRight e k) = cn d e := by
  cases k <;> simp [assignRight]
theorem cn_exprOrSpread (d) (e : Node) (k : IdentKind) : cn d (exprOrSpread e k) = cn d e := by
  cases k <;> simp [exprOrSpread]

theorem isLiteralSum_cn (d) : ∀ e : Node, isLiteralSum e = true → cn d e = 0 := by
  intro e
  induction e using Node.rec (motive_2 := fun _ => True) with
  | lit => intro _; simp
  | bin op l r sp ihl ihr =>
    intro h
    simp [isLiteralSum] at h
    simp [ihl h.1.2, ihr h.2]
  | nil => trivial
  | cons => trivial
  | _ => intro h; simp [isLiteralSum] at h

theorem isLit_cn (d) {e : Node} (h : e.isLit = true) : cn d e = 0 := by
  cases e <;> simp_all [Node.isLit]

end IastModel

import IastModel.Lemmas.CqCount
namespace IastModel
open Node

/-- conservation for the operand handler: every effect node that leaves the operand position arrives in
    the assignments; the argument list only receives copies without effect nodes -/
def OpQ (q : Node → Bool) (e : Node) (asg args : List Node) (R : (Node × List Node × List Node) × St) : Prop :=
  cq q R.1.1 + cqL q R.1.2.1 = cq q e + cqL q asg ∧ cqL q R.1.2.2 = cqL q args

def OpQL (q : Node → Bool) (xs : List Node) (asg args : List Node) (R : (List Node × List Node × List Node) × St) : Prop :=
  cqL q R.1.1 + cqL q R.1.2.1 = cqL q xs + cqL q asg ∧ cqL q R.1.2.2 = cqL q args

theorem replaceDefault_Q (q : Node → Bool) (e : Node) (asg args : List Node) (sp : Span) (k : IdentKind) (s : St) :
    OpQ q e asg args (replaceDefault e asg args sp k s) := by
  unfold replaceDefault
  simp only [run_bind, run_pure]
  rcases getIdentUsed_cases e asg args sp k s with ⟨hl, h⟩ | ⟨hl, n, s', h, _⟩
  · rw [h]; simp [OpQ, cq_exprOrSpread, isLit_cq q hl]
  · rw [h]; simp [OpQ, cq_exprOrSpread, tempIdent, cq_assignRight]; omega

theorem leaf_cq (q : Node → Bool) {e : Node} (h : leaf e = true) : cq q e = 0 := by
  cases e <;> simp_all [leaf, Node.isIdent, Node.isLit]

theorem replaceExprNoExpand_Q (q : Node → Bool) (e : Node) (mode : IdentMode) (asg args : List Node) (sp : Span) (k : IdentKind) (s : St) :
    OpQ q e asg args (replaceExprNoExpand e mode asg args sp k s) := by
  cases e with
  | lit kk v r lsp => simp [replaceExprNoExpand, run_pure, OpQ, cq_exprOrSpread]
  | ident nm isp =>
    cases mode with
    | replace => simp only [replaceExprNoExpand]; exact replaceDefault_Q q _ _ _ _ _ _
    | keep => simp [replaceExprNoExpand, run_pure, OpQ, cq_exprOrSpread]
  | bin op l r bsp =>
    simp only [replaceExprNoExpand]
    by_cases hop : (op != "+") = true
    · simp only [hop, if_true]; exact replaceDefault_Q q _ _ _ _ _ _
    · simp only [hop, Bool.false_eq_true, if_false]
      by_cases hls : isLiteralSum (.bin op l r bsp) = true
      · have := isLiteralSum_cq q _ hls
        simp only [hls, if_true, run_pure, OpQ, cqL_append, cqL_cons, cqL_nil, cq_exprOrSpread, this]
        simp
      · simp [hls, run_pure, OpQ]
  | _ => simp only [replaceExprNoExpand]; exact replaceDefault_Q q _ _ _ _ _ _

theorem replaceArgNoExpand_Q (q : Node → Bool) (a : Node) (mode : IdentMode) (asg args : List Node) (sp : Span) (s : St) :
    OpQ q a asg args (replaceArgNoExpand a mode asg args sp s) := by
  cases a with
  | arg spread e =>
    simp only [replaceArgNoExpand, run_bind, run_pure]
    have h := replaceExprNoExpand_Q q e mode asg args sp (if spread.isSome = true then IdentKind.spread else IdentKind.expr) s
    simpa [OpQ] using h
  | _ => simp [replaceArgNoExpand, run_pure, OpQ]

theorem replaceElem_Q (q : Node → Bool) (a : Node) (mode : IdentMode) (asg args : List Node) (sp : Span) (s : St) :
    OpQ q a asg args (replaceElem a mode asg args sp s) := by
  cases a with
  | arg spread e => exact replaceArgNoExpand_Q q _ mode asg args sp s
  | _ => simp [replaceElem, run_pure, OpQ, voidZero, cq_unary]

theorem opQL_cons (q : Node → Bool) (g : Node → List Node → List Node → M (Node × List Node × List Node))
    (gs : List Node → List Node → List Node → M (List Node × List Node × List Node))
    (x : Node) (xs asg args : List Node) (s : St)
    (h1 : OpQ q x asg args (g x asg args s))
    (h2 : ∀ asg1 args1 s1, OpQL q xs asg1 args1 (gs xs asg1 args1 s1)) :
    OpQL q (x :: xs) asg args
      (let R1 := g x asg args s
       let R2 := gs xs R1.1.2.1 R1.1.2.2 R1.2
       ((R1.1.1 :: R2.1.1, R2.1.2.1, R2.1.2.2), R2.2)) := by
  obtain ⟨a1, a2⟩ := h1
  obtain ⟨b1, b2⟩ := h2 (g x asg args s).1.2.1 (g x asg args s).1.2.2 (g x asg args s).2
  simp only [OpQL, cqL_cons]
  exact ⟨by omega, by omega⟩

theorem replaceElems_Q (q : Node → Bool) (mode : IdentMode) (sp : Span) : ∀ (xs asg args : List Node) (s : St),
    OpQL q xs asg args (replaceElems mode sp xs asg args s) := by
  intro xs
  induction xs with
  | nil => intro asg args s; simp [replaceElems, run_pure, OpQL]
  | cons x xs ih =>
    intro asg args s
    have := opQL_cons q (fun a b c => replaceElem a mode b c sp) (fun a b c => replaceElems mode sp a b c) x xs asg args s
      (replaceElem_Q q x mode asg args sp s) (fun a b c => ih a b c)
    simpa only [replaceElems, run_bind, run_pure] using this

theorem replaceExpr_Q (q : Node → Bool) (e : Node) (mode : IdentMode) (asg args : List Node) (sp : Span) (k : IdentKind)
    (expand : Bool) (s : St) : OpQ q e asg args (replaceExpr e mode asg args sp k expand s) := by
  unfold replaceExpr
  split
  · rename_i elems asp
    simp only [run_bind, run_pure]
    have h := replaceElems_Q q mode sp elems asg args s
    generalize replaceElems mode sp elems asg args s = R at h
    obtain ⟨⟨xs', asg2, args2⟩, s2⟩ := R
    simpa [OpQ, OpQL] using h
  · exact replaceExprNoExpand_Q q e mode asg args sp k s

theorem replaceArg_Q (q : Node → Bool) (a : Node) (mode : IdentMode) (asg args : List Node) (sp : Span) (expand : Bool) (s : St) :
    OpQ q a asg args (replaceArg a mode asg args sp expand s) := by
  cases a with
  | arg spread e =>
    simp only [replaceArg, run_bind, run_pure]
    have h := replaceExpr_Q q e mode asg args sp (if spread.isSome = true then IdentKind.spread else IdentKind.expr) expand s
    simpa [OpQ] using h
  | _ => simp [replaceArg, run_pure, OpQ]

theorem replaceArgs_Q (q : Node → Bool) (mode : IdentMode) (sp : Span) (expand : Bool) : ∀ (xs asg args : List Node) (s : St),
    OpQL q xs asg args (replaceArgs mode sp expand xs asg args s) := by
  intro xs
  induction xs with
  | nil => intro asg args s; simp [replaceArgs, run_pure, OpQL]
  | cons x xs ih =>
    intro asg args s
    have := opQL_cons q (fun a b c => replaceArg a mode b c sp expand) (fun a b c => replaceArgs mode sp expand a b c) x xs asg args s
      (replaceArg_Q q x mode asg args sp expand s) (fun a b c => ih a b c)
    simpa only [replaceArgs, run_bind, run_pure] using this

theorem replaceTplExprs_Q q : ∀ (xs asg args : List Node) (s : St),
    OpQL q xs asg args (replaceTplExprs xs asg args s) := by
  intro xs
  induction xs with
  | nil => intro asg args s; simp [replaceTplExprs, run_pure, OpQL]
  | cons x xs ih =>
    intro asg args s
    have hx : OpQ q x asg args (replaceExpr (tplOperand x) .replace asg args x.span .expr false s) := by
      have h := replaceExpr_Q q (tplOperand x) .replace asg args x.span .expr false s
      have : cq q (tplOperand x) = cq q x := by unfold tplOperand; split <;> simp
      simpa [OpQ, this] using h
    have := opQL_cons q (fun a b c => replaceExpr (tplOperand a) .replace b c a.span .expr false) (fun a b c => replaceTplExprs a b c) x xs asg args s
      hx (fun a b c => ih a b c)
    simpa only [replaceTplExprs, run_bind, run_pure] using this

end IastModel

import IastModel.Lemmas.NsCount
import IastModel.Lemmas.Targets
import IastModel.Lemmas.Leaf
namespace IastModel
open Node

def isBlockNode : Node → Bool
  | .block .. => true
  | _ => false

/-- Every reference to the hook namespace in the tree is the callee object of a hook call
    `_ddiast.<name>(…)` with `ok name`.  With `u = true` ("unprocessed blocks") every block statement
    inside the tree must moreover be free of the namespace and have well-shaped compound-assignment
    targets: this is the shape of a tree the operation visitor has worked on but whose nested blocks the
    block visitor has not entered yet. -/
def goodW (ok : String → Bool) (u : Bool) (n : Node) : Bool :=
  if u && isBlockNode n then ns n == 0 && bad n == 0
  else match hookName? n with
    | some nm => ok nm && (n.kids.drop 1).attach.all fun k => goodW ok u k.1
    | none => !mentionsNs n && n.kids.attach.all fun k => goodW ok u k.1
termination_by sizeOf n
decreasing_by
  · exact Node.sizeOf_lt_of_mem_kids (List.mem_of_mem_drop k.2)
  · exact Node.sizeOf_lt_of_mem_kids k.2

def goodL (ok : String → Bool) (u : Bool) (l : List Node) : Bool := l.all (goodW ok u)

theorem goodW_eq (ok : String → Bool) (u : Bool) (n : Node) :
    goodW ok u n = if u && isBlockNode n then ns n == 0 && bad n == 0
      else match hookName? n with
        | some nm => ok nm && goodL ok u (n.kids.drop 1)
        | none => !mentionsNs n && goodL ok u n.kids := by
  rw [goodW]
  split
  · rfl
  · split
    · rw [Node.attach_all_eq]; rfl
    · rw [Node.attach_all_eq]; rfl

@[simp] theorem goodL_nil (ok u) : goodL ok u [] = true := rfl
@[simp] theorem goodL_cons (ok u) (x : Node) (xs : List Node) : goodL ok u (x :: xs) = (goodW ok u x && goodL ok u xs) := by
  simp [goodL]
@[simp] theorem goodL_append (ok u) (xs ys : List Node) : goodL ok u (xs ++ ys) = (goodL ok u xs && goodL ok u ys) := by
  simp [goodL, List.all_append]

-- generic constructor rule: for a node that is neither a block nor a hook call
theorem good_generic (ok u) (n : Node) (hb : isBlockNode n = false) (h : hookName? n = none) :
    goodW ok u n = (!mentionsNs n && goodL ok u n.kids) := by
  rw [goodW_eq, h, hb]; simp

@[simp] theorem good_lit (ok u) (k v r : String) (sp : Span) : goodW ok u (.lit k v r sp) = true := by
  rw [good_generic _ _ _ rfl rfl]; simp [mentionsNs, kids]
@[simp] theorem good_pname (ok u) (n : String) (sp : Span) : goodW ok u (.pname n sp) = true := by
  rw [good_generic _ _ _ rfl rfl]; simp [mentionsNs, kids]
@[simp] theorem good_temp (ok u) (n : Nat) (sp : Span) : goodW ok u (.ident (.temp n) sp) = true := by
  rw [good_generic _ _ _ rfl rfl]; simp [mentionsNs, kids]
theorem good_user (ok u) (x : String) (sp : Span) : goodW ok u (.ident (.user x) sp) = !(x == Generated.ddGlobalNamespace) := by
  rw [good_generic _ _ _ rfl rfl]; simp [mentionsNs, kids]
@[simp] theorem good_atom (ok u) (s : String) : goodW ok u (.atom s) = true := by
  rw [good_generic _ _ _ rfl rfl]; simp [mentionsNs, kids]
@[simp] theorem good_bin (ok u) (op : String) (l r : Node) (sp : Span) : goodW ok u (.bin op l r sp) = (goodW ok u l && goodW ok u r) := by
  rw [good_generic _ _ _ rfl rfl]; simp [mentionsNs, kids]
@[simp] theorem good_assign (ok u) (op : String) (l r : Node) (sp : Span) : goodW ok u (.assign op l r sp) = (goodW ok u l && goodW ok u r) := by
  rw [good_generic _ _ _ rfl rfl]; simp [mentionsNs, kids]
@[simp] theorem good_member (ok u) (o p : Node) (sp : Span) : goodW ok u (.member o p sp) = (goodW ok u o && goodW ok u p) := by
  rw [good_generic _ _ _ rfl rfl]; simp [mentionsNs, kids]
@[simp] theorem good_arg (ok u) (s : Option Span) (e : Node) : goodW ok u (.arg s e) = goodW ok u e := by
  rw [good_generic _ _ _ rfl rfl]; simp [mentionsNs, kids]
@[simp] theorem good_paren (ok u) (e : Node) (sp : Span) : goodW ok u (.paren e sp) = goodW ok u e := by
  rw [good_generic _ _ _ rfl rfl]; simp [mentionsNs, kids]
@[simp] theorem good_seq (ok u) (es : List Node) (sp : Span) : goodW ok u (.seq es sp) = goodL ok u es := by
  rw [good_generic _ _ _ rfl rfl]; simp [mentionsNs, kids]
@[simp] theorem good_array (ok u) (es : List Node) (sp : Span) : goodW ok u (.array es sp) = goodL ok u es := by
  rw [good_generic _ _ _ rfl rfl]; simp [mentionsNs, kids]
@[simp] theorem good_tpl (ok u) (es qs : List Node) (sp : Span) : goodW ok u (.tpl es qs sp) = (goodL ok u es && goodL ok u qs) := by
  rw [good_generic _ _ _ rfl rfl]; simp [mentionsNs, kids]
@[simp] theorem good_cond (ok u) (t c a : Node) (sp : Span) : goodW ok u (.cond t c a sp) = (goodW ok u t && goodW ok u c && goodW ok u a) := by
  rw [good_generic _ _ _ rfl rfl]; simp [mentionsNs, kids, Bool.and_assoc]
@[simp] theorem good_unary (ok u) (op : String) (a : Node) (sp : Span) : goodW ok u (.unary op a sp) = goodW ok u a := by
  rw [good_generic _ _ _ rfl rfl]; simp [mentionsNs, kids]
@[simp] theorem good_other (ok u) (k : String) (sp : Span) (ns' : List String) (vs : List Node) : goodW ok u (.other k sp ns' vs) = goodL ok u vs := by
  rw [good_generic _ _ _ rfl rfl]; simp [mentionsNs, kids]
@[simp] theorem good_optChain (ok u) (o : Bool) (b : Node) (sp : Span) : goodW ok u (.optChain o b sp) = goodW ok u b := by
  rw [good_generic _ _ _ rfl rfl]; simp [mentionsNs, kids]
@[simp] theorem good_optCall (ok u) (c : Node) (as : List Node) (sp : Span) : goodW ok u (.optCall c as sp) = (goodW ok u c && goodL ok u as) := by
  rw [good_generic _ _ _ rfl rfl]; simp [mentionsNs, kids]
@[simp] theorem good_arrow (ok u) (ps : List Node) (b : Node) (a : String) (sp : Span) : goodW ok u (.arrow ps b a sp) = (goodL ok u ps && goodW ok u b) := by
  rw [good_generic _ _ _ rfl rfl]; simp [mentionsNs, kids]
theorem good_block (ok u) (ss : List Node) (sp : Span) :
    goodW ok u (.block ss sp) = if u then (nsL ss == 0 && badL ss == 0) else goodL ok u ss := by
  rw [goodW_eq]
  cases u <;> simp [isBlockNode, hookName?, mentionsNs, kids, bad_eq, ns_eq, assignTargetOk]

/-- a good identifier / literal does not mention the namespace -/
theorem good_leaf_ns {ok u} {e : Node} (hg : goodW ok u e = true) (hl : leaf e = true) : ns e = 0 := by
  cases e <;> simp_all [leaf, Node.isIdent, Node.isLit]
  case ident nm sp =>
    cases nm with
    | temp k => simp
    | user x =>
      rw [good_user] at hg
      rw [ns_user]
      simp at hg
      simp [hg]

/-- the bare `_ddiast.<name>` is not good by itself -/
theorem not_good_ddCallee (ok u) (x nm : String) (isp psp sp : Span) (h : (x == Generated.ddGlobalNamespace) = true) :
    goodW ok u (.member (.ident (.user x) isp) (.pname nm psp) sp) = false := by
  simp [good_user, h]

/-- a call whose callee is good is not a hook call -/
theorem good_call (ok u) (c : Node) (as : List Node) (sp : Span) (hc : goodW ok u c = true) :
    goodW ok u (.call c as sp) = goodL ok u as := by
  have hn : hookName? (.call c as sp) = none := by
    cases c <;> try rfl
    case member o p msp =>
      cases o <;> try rfl
      case ident nm isp =>
        cases nm with
        | temp k => rfl
        | user x =>
          cases p <;> try rfl
          case pname pn psp =>
            by_cases hx : (x == Generated.ddGlobalNamespace) = true
            · rw [not_good_ddCallee _ _ _ _ _ _ _ hx] at hc; cases hc
            · simp [hookName?, hx]
  rw [good_generic _ _ _ rfl hn]; simp [mentionsNs, kids, hc]

/-- the hook call built by `get_dd_call_expr` -/
theorem good_ddCall (ok u) (e : Node) (args : List Node) (m : String) (sp : Span) :
    goodW ok u (ddCall e args m sp) = (ok m && goodW ok u e && goodL ok u args) := by
  rw [goodW_eq]
  simp [ddCall, ddCallee, hookName?, isBlockNode, kids, Bool.and_assoc]

theorem good_ddParen (ok u) (e : Node) (args asg : List Node) (m : String) (sp : Span) :
    goodW ok u (ddParen e args asg m sp) = (ok m && goodW ok u e && goodL ok u args && goodL ok u asg) := by
  unfold ddParen
  split
  · rename_i h; have : asg = [] := by simpa using h
    subst this; simp [good_ddCall]
  · simp [good_ddCall, Bool.and_comm, Bool.and_assoc, Bool.and_left_comm]

theorem nsL_eq_zero : ∀ (l : List Node), nsL l = 0 → ∀ k ∈ l, ns k = 0 := by
  intro l
  induction l with
  | nil => intro _ k hk; cases hk
  | cons x xs ih =>
    intro h k hk
    simp only [nsL_cons] at h
    rcases List.mem_cons.mp hk with rfl | hk
    · omega
    · exact ih (by omega) k hk

/-- a tree that does not mention the namespace (and has well-shaped targets) is good -/
theorem good_of_ns0 (ok u) : ∀ n : Node, ns n = 0 → bad n = 0 → goodW ok u n = true := by
  apply Node.ind
  intro n ih h0 hb0
  have h0' := h0
  have hb0' := hb0
  rw [ns_eq] at h0
  rw [bad_eq] at hb0
  have hm : mentionsNs n = false := by
    cases hh : mentionsNs n <;> simp_all
  have hk : ∀ k ∈ n.kids, ns k = 0 := by
    intro k hk
    have : nsL n.kids = 0 := by omega
    exact nsL_eq_zero _ this k hk
  have hkb : ∀ k ∈ n.kids, bad k = 0 := by
    intro k hk
    have : badL n.kids = 0 := by omega
    exact badL_eq_zero _ this k hk
  rw [goodW_eq]
  split
  · simp [h0', hb0']
  · have hh : hookName? n = none := by
      clear ih h0 hb0
      cases n with
      | call c as sp =>
        cases c with
        | member o p msp =>
          cases o with
          | ident nm isp =>
            cases nm with
            | temp k => rfl
            | user x =>
              cases p with
              | pname pn psp =>
                have := hk (.member (.ident (.user x) isp) (.pname pn psp) msp) (by simp [kids])
                simp [ns_user] at this
                simp [hookName?, this]
              | _ => rfl
          | _ => rfl
        | _ => rfl
      | _ => rfl
    rw [hh]
    simp only [hm, Bool.not_false, Bool.true_and]
    unfold goodL
    rw [List.all_eq_true]
    intro k hkm
    exact ih k hkm (hk k hkm) (hkb k hkm)

theorem goodL_of_ns0 (ok u) (l : List Node) (h : nsL l = 0) (hb : badL l = 0) : goodL ok u l = true := by
  induction l with
  | nil => rfl
  | cons x xs ih =>
    simp only [nsL_cons] at h
    simp only [badL_cons] at hb
    simp [good_of_ns0 ok u x (by omega) (by omega), ih (by omega) (by omega)]

end IastModel

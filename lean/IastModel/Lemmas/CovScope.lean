import IastModel.Lemmas.CovSites
/-
  The scope of the C04 theorems, made executable: `inScope cfg p d sp0` searches the block statements of
  the program (and the arrow functions reached from their statements) for one whose required count for
  the site `(d, sp0)` is positive — i.e. it decides the hypotheses of
  `every_block_statement_is_instrumented_partial` / `every_reached_arrow_body_is_instrumented_partial`.
  The driver evaluates it on every occurrence the coverage oracle demands, so each run reports how much
  of the oracle's demand is also covered by a theorem.
-/
namespace IastModel
open Node

/-- every block statement of a tree -/
def blocksOf (p : Node) : List Node := Node.collect isBlockNode p

theorem Node.mem_collect_count (p q : Node → Bool) : ∀ (n x : Node), x ∈ Node.collect p n → q x = true →
    1 ≤ Node.count (fun k => p k && q k) n := by
  apply Node.ind
  intro n ih x hx hq
  rw [Node.collect_eq] at hx
  rw [Node.count_eq]
  simp only [List.mem_append, List.mem_flatten, List.mem_map] at hx
  rcases hx with hx | ⟨l, ⟨k, hk, rfl⟩, hx⟩
  · by_cases hp : p n = true
    · simp only [hp, if_true, List.mem_singleton] at hx
      subst hx
      simp [hp, hq]
    · simp [hp] at hx
  · have h1 := ih k hk x hx hq
    have : Node.count (fun k => p k && q k) k ≤ (n.kids.map (Node.count fun k => p k && q k)).sum := by
      generalize n.kids = l at hk
      induction l with
      | nil => cases hk
      | cons y ys ihl =>
        simp only [List.map_cons, List.sum_cons]
        cases hk with
        | head => omega
        | tail _ h' => have := ihl h'; omega
    omega

theorem isBAt_eq (B k : Node) : isBAt B k = (isBlockNode k && Node.beq k B) := by
  cases k <;> rfl

/-- a listed block statement occurs in the tree -/
theorem cb_of_mem_blocksOf (p B : Node) (h : B ∈ blocksOf p) : 1 ≤ cb B p := by
  have := Node.mem_collect_count isBlockNode (fun k => Node.beq k B) p B h (beq_self B)
  unfold cb
  have e : isBAt B = fun k => isBlockNode k && Node.beq k B := funext (isBAt_eq B)
  rw [e]; exact this

/-- the expression-bodied arrow functions at the positions the operation visitor reaches -/
def reachedArrows (cfg : Config) (n : Node) : List Node :=
  (if isExprArrow n then [n] else []) ++ ((visitedKids cfg n).attach.map fun x => reachedArrows cfg x.1).flatten
termination_by sizeOf n
decreasing_by exact Node.sizeOf_lt_of_mem_kids (visitedKids_sub cfg n x.1 x.2)

theorem reachedArrows_eq (cfg : Config) (n : Node) :
    reachedArrows cfg n = (if isExprArrow n then [n] else []) ++ ((visitedKids cfg n).map (reachedArrows cfg)).flatten := by
  rw [reachedArrows, Node.attach_map_eq]

theorem va_of_mem_reachedArrows (cfg : Config) : ∀ (n A : Node), A ∈ reachedArrows cfg n → 1 ≤ va cfg A n := by
  apply Node.ind
  intro n ih A hA
  rw [reachedArrows_eq] at hA
  rw [va_eq]
  simp only [List.mem_append, List.mem_flatten, List.mem_map] at hA
  rcases hA with hA | ⟨l, ⟨k, hk, rfl⟩, hA⟩
  · by_cases hp : isExprArrow n = true
    · simp only [hp, if_true, List.mem_singleton] at hA
      subst hA
      simp [hp, beq_self]
    · simp [hp] at hA
  · have h1 := ih k (visitedKids_sub cfg n k hk) A hA
    have : va cfg A k ≤ vaL cfg A (visitedKids cfg n) := by
      generalize visitedKids cfg n = l at hk
      induction l with
      | nil => cases hk
      | cons y ys ihl =>
        simp only [vaL_cons]
        cases hk with
        | head => omega
        | tail _ h' => have := ihl h'; omega
    omega

def reachedArrowsL (cfg : Config) (l : List Node) : List Node := (l.map (reachedArrows cfg)).flatten

theorem vaL_of_mem_reachedArrowsL (cfg : Config) (A : Node) : ∀ (l : List Node), A ∈ reachedArrowsL cfg l → 1 ≤ vaL cfg A l := by
  intro l
  induction l with
  | nil => intro h; simp [reachedArrowsL] at h
  | cons x xs ih =>
    intro h
    simp only [reachedArrowsL, List.map_cons, List.flatten_cons, List.mem_append] at h
    simp only [vaL_cons]
    rcases h with h | h
    · have := va_of_mem_reachedArrows cfg x A h; omega
    · have := ih h; omega

/-- does standing on the block `B` guarantee a hook for the site `(d, sp0)` — required by its own statements,
    or by the body of an arrow function reached from them, or from the body of that one, … (`fuel` bounds
    the length of the chain) -/
def viaScope (cfg : Config) (d : String) (sp0 : Span) : Nat → Node → Bool
  | 0, _ => false
  | fuel + 1, B =>
    decide (1 ≤ RL cfg d sp0 (stmtsOf B)) ||
    (reachedArrowsL cfg (stmtsOf B)).any fun A => viaScope cfg d sp0 fuel (pseudo A)

theorem viaScope_sound (cfg : Config) (d : String) (sp0 : Span) : ∀ (fuel : Nat) (B : Node),
    viaScope cfg d sp0 fuel B = true → ∃ c, 1 ≤ c ∧ EnteredVia cfg d sp0 B c := by
  intro fuel
  induction fuel with
  | zero => intro B h; simp [viaScope] at h
  | succ fuel ih =>
    intro B h
    simp only [viaScope, Bool.or_eq_true, decide_eq_true_eq, List.any_eq_true] at h
    rcases h with h | ⟨A, hA, h⟩
    · exact ⟨_, h, EnteredVia.self B⟩
    · obtain ⟨c, hc, hv⟩ := ih (pseudo A) h
      exact ⟨c, hc, EnteredVia.arrow B A c (vaL_of_mem_reachedArrowsL cfg A _ hA) hv⟩

/-- does some block statement of `p` guarantee a hook for the site `(d, sp0)`? -/
def inScope (cfg : Config) (p : Node) (d : String) (sp0 : Span) : Bool :=
  (blocksOf p).any fun B => viaScope cfg d sp0 (p.size + 1) B

end IastModel

import IastModel.Lemmas.ErTr
/-
  `Deep lo hi n' n`: where the rewritten tree `n'` still has the constructor of the source tree `n`
  (member access, parentheses, argument, array literal, generic node), its parts are erasable one by
  one.  The transforms that take an operand apart (`+=` targets, `apply` argument arrays) need the
  parts, not only the whole.
-/
namespace IastModel
open Node

mutual
def Deep (lo hi : Nat) : Node → Node → Prop
  | .member o' p' sp', .member o p sp =>
    sp = sp' ∧ ErAll lo hi o' o ∧ ErAll lo hi p' p ∧ Deep lo hi o' o ∧ Deep lo hi p' p ∧ (o'.isIdent = true → o' = o)
  | .paren i' sp', n => isSplittableInner i' = true →
      ∃ i, n = .paren i sp' ∧ (i'.span == sp') = false ∧ ErAll lo hi i' i ∧ Deep lo hi i' i
  | .other k' sp' ns' vs', .other k sp ns vs => k = k' ∧ sp = sp' ∧ ns = ns' ∧ DeepL lo hi vs' vs
  | .array es' sp', .array es sp => sp = sp' ∧ DeepL lo hi es' es
  | .arg s' e', .arg s e => s = s' ∧ ErAll lo hi e' e ∧ Deep lo hi e' e
  | _, _ => True
def DeepL (lo hi : Nat) : List Node → List Node → Prop
  | [], [] => True
  | x' :: xs', x :: xs => ErAll lo hi x' x ∧ Deep lo hi x' x ∧ DeepL lo hi xs' xs
  | _, _ => False
end

theorem Deep.mono {lo hi lo' hi' : Nat} (h1 : lo' ≤ lo) (h2 : hi ≤ hi') :
    ∀ (n' n : Node), Deep lo hi n' n → Deep lo' hi' n' n := by
  intro n'
  induction n' using Node.rec (motive_2 := fun l' => ∀ l, DeepL lo hi l' l → DeepL lo' hi' l' l) with
  | nil => rename_i l h; cases l <;> simp_all [DeepL]
  | cons x' xs' hx hxs =>
    rename_i l h
    cases l with
    | nil => simp [DeepL] at h
    | cons x xs =>
      simp only [DeepL] at h ⊢
      exact ⟨h.1.mono h1 h2, hx x h.2.1, hxs xs h.2.2⟩
  | member o' p' sp' ho hp =>
    intro n h
    cases n <;> simp only [Deep] at h ⊢
    exact ⟨h.1, h.2.1.mono h1 h2, h.2.2.1.mono h1 h2, ho _ h.2.2.2.1, hp _ h.2.2.2.2.1, h.2.2.2.2.2⟩
  | paren i' sp' hi'' =>
    intro n h
    simp only [Deep] at h ⊢
    intro hs
    obtain ⟨i, a, b, c, d⟩ := h hs
    exact ⟨i, a, b, c.mono h1 h2, hi'' _ d⟩
  | other k' sp' ns' vs' hvs =>
    intro n h
    cases n <;> simp only [Deep] at h ⊢
    exact ⟨h.1, h.2.1, h.2.2.1, hvs _ h.2.2.2⟩
  | array es' sp' hes =>
    intro n h
    cases n <;> simp only [Deep] at h ⊢
    exact ⟨h.1, hes _ h.2⟩
  | arg s' e' he =>
    intro n h
    cases n <;> simp only [Deep] at h ⊢
    exact ⟨h.1, h.2.1.mono h1 h2, he _ h.2.2⟩
  | _ => intro n _; cases n <;> simp only [Deep]

theorem DeepL.mono {lo hi lo' hi' : Nat} (h1 : lo' ≤ lo) (h2 : hi ≤ hi') :
    ∀ (l' l : List Node), DeepL lo hi l' l → DeepL lo' hi' l' l := by
  intro l'
  induction l' with
  | nil => intro l h; cases l <;> simp_all [DeepL]
  | cons x' xs' ih =>
    intro l h
    cases l with
    | nil => simp [DeepL] at h
    | cons x xs =>
      simp only [DeepL] at h ⊢
      exact ⟨h.1.mono h1 h2, Deep.mono h1 h2 _ _ h.2.1, ih xs h.2.2⟩

theorem DeepL.forall2 {lo hi : Nat} : ∀ {l' l : List Node}, DeepL lo hi l' l →
    Forall2 (fun a' a => ErAll lo hi a' a ∧ Deep lo hi a' a) l' l := by
  intro l'
  induction l' with
  | nil => intro l h; cases l <;> simp_all [DeepL, Forall2]
  | cons x' xs' ih =>
    intro l h
    cases l with
    | nil => simp [DeepL] at h
    | cons x xs =>
      simp only [DeepL] at h
      simp only [Forall2]
      exact ⟨⟨h.1, h.2.1⟩, ih h.2.2⟩

end IastModel

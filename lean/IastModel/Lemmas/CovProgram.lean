import IastModel.Lemmas.CovBlock
import IastModel.Lemmas.KeepVisit
import IastModel.Lemmas.BeqEq
/-
  C04, whole traversal: every block statement of the tree — at any depth — is entered by the block
  visitor and comes back with its required operations instrumented.  `cb B k` counts the occurrences of
  the block `B` in `k` (at any depth); the operation visitor never drops a block (`visit_K`), so a
  block nested in a statement of an entered block is still there when the nested traversal starts.
-/
namespace IastModel
open Node

/-- the statements of a block statement -/
def stmtsOf : Node → List Node
  | .block ss _ => ss
  | _ => []

theorem cbL_pos {B : Node} : ∀ {l : List Node}, 1 ≤ cbL B l → ∃ x ∈ l, 1 ≤ cb B x
  | [], h => by simp at h
  | x :: xs, h => by
    have h' : 1 ≤ cb B x + cbL B xs := by simpa only [cbL_cons] using h
    by_cases hx : 1 ≤ cb B x
    · exact ⟨x, by simp, hx⟩
    · have h2 : 1 ≤ cbL B xs := by omega
      obtain ⟨y, hy, h1⟩ := cbL_pos h2
      exact ⟨y, by simp [hy], h1⟩

theorem letDecl_cb (B : Node) (idents : List Nat) (sp : Span) : cb B (letDecl idents sp) = 0 := by
  have h1 : ∀ l : List Nat, cbL B (l.map fun n => Node.other "VariableDeclarator" sp ["id", "init", "definite"]
      [tempIdent n, .atom "null", .atom "false"]) = 0 := by
    intro l; induction l with
    | nil => rfl
    | cons x xs ih =>
      simp only [tempIdent] at ih ⊢
      simp [ih]
  simp [letDecl, h1]

theorem insertVar_cb (B : Node) (idents : List Nat) (ks : List Node) (sp : Span) :
    ∃ ks2, insertVariableDeclaration idents (.block ks sp) = .block ks2 sp ∧ cbL B ks2 = cbL B ks := by
  simp only [insertVariableDeclaration]
  by_cases he : idents.isEmpty = true
  · exact ⟨ks, by simp only [he, if_true], rfl⟩
  · refine ⟨insertAt ks (variableInsertionIndex ks) [letDecl idents sp], by simp only [he, Bool.false_eq_true, if_false], ?_⟩
    have : cbL B (ks.take (variableInsertionIndex ks)) + cbL B (ks.drop (variableInsertionIndex ks)) = cbL B ks := by
      conv => rhs; rw [← List.take_append_drop (variableInsertionIndex ks) ks]
      rw [cbL_append]
    simp only [insertAt, cbL_append, cbL_cons, cbL_nil, letDecl_cb]
    omega

/-- the statements of a block, visited one after the other, keep every nested block -/
theorem mapVisit_K (B : Node) (cfg : Config) (ok) (hcfg : CfgOk ok cfg) (f : Nat) (r : Bool) :
    ∀ (ks : List Node) (s : St), nsL ks = 0 → (∀ k ∈ ks, targetsOk k = true) → StOk s →
      cbL B ks ≤ cbL B (mapM' (visit cfg f r) ks s).1 := by
  intro ks
  induction ks with
  | nil => intro s _ _ _; exact Nat.le_refl _
  | cons k ks ihk =>
    intro s hz htk hs
    simp only [nsL_cons] at hz
    simp only [mapM', run_bind, run_pure, cbL_cons]
    have hk1 := visit_K B cfg ok hcfg f r k s (by omega) (htk k (by simp)) hs
    have hsp := visit_spec ok cfg hcfg f r k s (by omega) (htk k (by simp)) hs
    exact Nat.add_le_add hk1 (ihk _ (by omega) (fun x hx => htk x (by simp [hx])) (hsp.2.1.stOk hs))

/-- one list of nodes handed to the nested traversal: a block that occurs in one of them is covered -/
theorem mapReach (q : Node → Bool) (ok) (B : Node) (c : Nat) (g : Node → M Node)
    (hb : ∀ k s, StOk s → goodW ok true k = true → StOk (g k s).2 → (g k s).2.fuelOut = false → 1 ≤ cb B k →
      c ≤ cq q (g k s).1)
    (hsp : ∀ k s, StOk s → goodW ok true k = true → BSpec ok k (g k s) s)
    (hc : ∀ k s, s.status = .cancelled → (g k s).2.status = .cancelled) :
    ∀ (ks : List Node) (s : St), StOk s → goodL ok true ks = true → StOk (mapM' g ks s).2 →
      (mapM' g ks s).2.fuelOut = false → 1 ≤ cbL B ks → c ≤ cqL q (mapM' g ks s).1 := by
  intro ks
  induction ks with
  | nil => intro s _ _ _ _ h; simp at h
  | cons x xs ih =>
    intro s hs hg hfin hfo hpos
    simp only [goodL_cons, Bool.and_eq_true] at hg
    simp only [mapM', run_bind, run_pure] at hfin hfo ⊢
    have h1 := hb x s hs hg.1
    have hs1' := hsp x s hs hg.1
    generalize hR1 : g x s = R1 at h1 hfin hfo hs1'
    obtain ⟨x', s1⟩ := R1
    simp only at hfin hfo h1 hs1' ⊢
    have hs1 : StOk s1 := by
      intro hcn
      exact hfin (mapM'_canc g hc xs s1 hcn)
    have hrest := mapBlock_spec ok g hsp hc xs s1 hs1 hg.2 hfin
    have hfo1 : s1.fuelOut = false := by
      obtain ⟨_, _, k, ek, _⟩ := hrest
      exact ek.fo hfo
    simp only [cqL_cons]
    simp only [cbL_cons] at hpos
    by_cases hx : 1 ≤ cb B x
    · have := h1 hs1 hfo1 hx
      omega
    · have := ih s1 hs1 hg.2 hfin hfo (by omega)
      omega

/-- the traversal reaches every occurrence of the block `B`: whatever is guaranteed (`c` hook calls of the
    site) when the block visitor stands on `B` itself (`hself`) holds for every node that contains `B` -/
theorem blockVisit_reach_gen (ok) (cfg : Config) (hcfg : CfgOk ok cfg) (d : String) (sp0 : Span) (B : Node) (opFuel : Nat) (c : Nat)
    (hself : ∀ (f : Nat) (ss : List Node) (sp : Span) (s : St), StOk s → goodW ok true (.block ss sp) = true →
      StOk (blockVisit cfg opFuel (f + 1) (.block ss sp) s).2 → (blockVisit cfg opFuel (f + 1) (.block ss sp) s).2.fuelOut = false →
      Node.block ss sp = B → c ≤ cq (qAt d sp0) (blockVisit cfg opFuel (f + 1) (.block ss sp) s).1) :
    ∀ (f : Nat) (n : Node) (s : St), StOk s → goodW ok true n = true → StOk (blockVisit cfg opFuel f n s).2 →
      (blockVisit cfg opFuel f n s).2.fuelOut = false → 1 ≤ cb B n →
      c ≤ cq (qAt d sp0) (blockVisit cfg opFuel f n s).1 := by
  intro f
  induction f with
  | zero =>
    intro n s _ _ _ hfo _
    simp only [blockVisit, run_bind, run_pure] at hfo
    cases hfo
  | succ f ih =>
    intro n s hs hg hfin hfo hpos
    have hlist := mapReach (qAt d sp0) ok B c (blockVisit cfg opFuel f)
      (fun k s hs hg hf hfo hp => ih k s hs hg hf hfo hp)
      (fun k s hs hg => blockVisit_spec ok cfg hcfg opFuel f k s hs hg)
      (fun k s h => blockVisit_canc cfg opFuel f k s h)
    by_cases hb : isBlockNode n = true
    · cases n with
      | block ss sp =>
        rw [cb_block] at hpos
        by_cases hself' : Node.beq (.block ss sp) B = true
        · -- the block itself
          exact hself f ss sp s hs hg hfin hfo (beq_eq _ _ hself')
        · -- a block nested in one of its statements
          simp only [hself', Bool.false_eq_true, if_false, Nat.zero_add] at hpos
          rw [good_block] at hg
          simp only [if_true, Bool.and_eq_true, beq_iff_eq] at hg
          rw [blockVisit_block cfg opFuel f ss sp s hs] at hfin hfo ⊢
          have hs0 : StOk (resetProvider s) := hs
          have h0 : ns (.block ss sp) = 0 := by simp [hg.1]
          have htg : targetsOk (.block ss sp) = true := (bad_zero_iff _).mp (by simp [hg.2])
          obtain ⟨ks', h1, hl, g, e, p⟩ := mapKids_spec' ok (visit cfg opFuel true)
            (fun k s h0 ht hs => visit_spec ok cfg hcfg opFuel true k s h0 ht hs) (.block ss sp) (resetProvider s) h0 htg hs0
          have hK : mapKidsM mapM' (visit cfg opFuel true) (.block ss sp) (resetProvider s) =
              (.block (mapM' (visit cfg opFuel true) ss (resetProvider s)).1 sp, (mapM' (visit cfg opFuel true) ss (resetProvider s)).2) := by
            simp [mapKidsM, run_bind, run_pure, withKids, kids]
          have hk1 := mapVisit_K B cfg ok hcfg opFuel true ss (resetProvider s) hg.1 (targetsOk_kids htg) hs0
          rw [hK] at h1 e hfin hfo ⊢
          generalize mapM' (visit cfg opFuel true) ss (resetProvider s) = K at h1 e hk1 hfin hfo
          obtain ⟨ks1, s1⟩ := K
          simp only [withKids] at h1 e hk1 hfin hfo ⊢
          have hks : ks' = ks1 := by injection h1 with h; exact h.symm
          subst hks
          by_cases hd : variablesContainPossibleDuplicate s1.vars (tempPrefix cfg.localVarPrefix) = true
          · simp only [hd, if_true] at hfin
            exact absurd rfl hfin
          · simp only [hd, Bool.false_eq_true, if_false] at hfin hfo ⊢
            obtain ⟨ks2, hins, g2, n2⟩ := insertVar_spec ok s1.idents ks' sp g
            obtain ⟨ks2', hins', e2⟩ := insertVar_cb B s1.idents ks' sp
            have : ks2' = ks2 := by rw [hins] at hins'; injection hins' with h; exact h.symm
            subst this
            rw [hins] at hfin hfo ⊢
            simp only [mapKidsM, kids, run_bind, run_pure, withKids] at hfin hfo ⊢
            have t0 : TS (resetProvider s) s := ⟨rfl, rfl, id⟩
            have e01 : Eff s s1 (nsL ks') := ((Eff.of_TS t0).trans e).cast (by omega)
            have hs1 : StOk s1 := e01.stOk hs
            have := hlist ks2' s1 hs1 g2 hfin hfo (by omega)
            simp only [cq_block]
            exact this
      | _ => simp [isBlockNode] at hb
    · simp only [Bool.not_eq_true] at hb
      have hba : isBA n = false := by cases n <;> first | rfl | simp [isBlockNode] at hb
      rw [cb_noBA _ _ hba] at hpos
      have hbr := blockVisit_BR cfg opFuel (f + 1) n s
      rw [blockVisit_generic cfg opFuel f n hb] at hfin hfo hbr ⊢
      rw [cq_eq' _ (mapKidsM mapM' (blockVisit cfg opFuel f) n s).1]
      suffices hk : c ≤ cqL (qAt d sp0) (mapKidsM mapM' (blockVisit cfg opFuel f) n s).1.kids by omega
      have hspec := mapBlock_spec ok (blockVisit cfg opFuel f)
        (fun k s hs hg => blockVisit_spec ok cfg hcfg opFuel f k s hs hg)
        (fun k s h => blockVisit_canc cfg opFuel f k s h)
      have hg' := hg
      rw [goodW_eq] at hg'
      simp only [hb, Bool.and_false, Bool.false_eq_true, if_false] at hg'
      cases hh : hookName? n with
      | none =>
        rw [hh] at hg'
        simp only [Bool.and_eq_true, Bool.not_eq_true'] at hg'
        simp only [mapKidsM, run_bind, run_pure] at hfin hfo ⊢
        have e3 := hlist n.kids s hs hg'.2 hfin hfo hpos
        obtain ⟨g3, l3, _⟩ := hspec n.kids s hs hg'.2 hfin
        rw [Node.kids_withKids n _ l3]
        exact e3
      | some nm =>
        obtain ⟨x, isp, psp, msp, args, sp, rfl, hx⟩ := hookName?_some hh
        rw [hh] at hg'
        simp only [kids, List.drop_succ_cons, List.drop_zero, Bool.and_eq_true] at hg'
        simp only [kids, cbL_cons, cb_member, cb_ident, cb_pname, Nat.zero_add] at hpos
        simp only [mapKidsM, kids, mapM', run_bind, run_pure] at hfin hfo ⊢
        have hc := blockVisit_callee cfg opFuel f (.user x) isp nm psp msp s
        generalize blockVisit cfg opFuel f (.member (.ident (.user x) isp) (.pname nm psp) msp) s = RC at hc hfin hfo
        obtain ⟨c', s1⟩ := RC
        obtain ⟨hc1, t1⟩ := hc
        simp only at hc1 t1 hfin hfo ⊢
        subst hc1
        have e1 : Eff s s1 0 := Eff.of_TS t1
        have e3 := hlist args s1 (e1.stOk hs) hg'.2 hfin hfo hpos
        simp only [withKids, List.getD_cons_zero, List.drop_succ_cons, List.drop_zero, kids, cqL_cons]
        omega

/-- **every block statement of a tree is entered.**  Whatever node the block visitor is started on, in
    any state that is not cancelled: unless the run is cancelled or out of fuel, every block statement `B`
    occurring in it — at any depth, inside nested functions, closures, classes — comes back with at least
    one hook call of the expected name and span for every operation required in its statements. -/
theorem blockVisit_reach (ok) (cfg : Config) (hcfg : CfgOk ok cfg) (d : String) (sp0 : Span) (B : Node) (opFuel : Nat) :
    ∀ (f : Nat) (n : Node) (s : St), StOk s → goodW ok true n = true → StOk (blockVisit cfg opFuel f n s).2 →
      (blockVisit cfg opFuel f n s).2.fuelOut = false → 1 ≤ cb B n →
      RL cfg d sp0 (stmtsOf B) ≤ cq (qAt d sp0) (blockVisit cfg opFuel f n s).1 :=
  blockVisit_reach_gen ok cfg hcfg d sp0 B opFuel _ (fun f ss sp s hs hg hfin hfo hB => by
    subst hB
    exact block_cover ok cfg hcfg d sp0 opFuel f ss sp s hs hg hfin hfo)

end IastModel

import IastModel.Lemmas.TrSpec
namespace IastModel
open Node

theorem replaceCallCalleeAndArgs_spec (ok u) (callee : Node) (cargs : List Node) (csp : Span) (identCallee : Option Node)
    (asg args : List Node) (coa : Option String) (s : St)
    (hc : goodW ok u callee = true) (hi : ∀ i, identCallee = some i → goodW ok u i = true ∧ ns i = 0)
    (hca : goodL ok u cargs = true) (ha : goodL ok u asg = true) (hg : goodL ok u args = true) :
    let R := replaceCallCalleeAndArgs callee cargs csp identCallee asg args coa s
    ∃ callee' cargs', R.1.1 = .call callee' cargs' csp ∧ goodW ok u callee' = true ∧ goodL ok u cargs' = true ∧
      ns callee' = (if identCallee.isSome then 0 else ns callee) ∧
      goodL ok u R.1.2.1 = true ∧ goodL ok u R.1.2.2 = true ∧
      nsL cargs' + nsL R.1.2.1 = nsL cargs + nsL asg ∧ nsL R.1.2.2 = nsL args ∧ TS R.2 s := by
  simp only [replaceCallCalleeAndArgs, run_bind, run_pure]
  generalize hE : ((coa.getD Generated.callMethodName) == Generated.applyMethodName) = expand
  have h := replaceArgs_spec ok u .replace csp expand cargs asg args s hca ha hg
  generalize replaceArgs .replace csp expand cargs asg args s = R at h
  obtain ⟨⟨cargs', asg', args'⟩, s'⟩ := R
  simp only at h
  obtain ⟨g1, g2, g3, c1, c2, t1⟩ := h
  refine ⟨_, cargs', rfl, ?_, g1, ?_, g2, g3, c1, c2, t1⟩
  · cases identCallee with
    | none => simpa using hc
    | some i => simp [(hi i rfl).1]
  · cases identCallee with
    | none => simp
    | some i => simp [(hi i rfl).2]

end IastModel

namespace IastModel
open Node

theorem ns_insertThis_call (callee : Node) (args : List Node) (sp : Span) (t : Node) :
    ns (insertThis (.call callee args sp) t) = ns callee + ns t + nsL args := by
  simp [insertThis]; omega

/-- the part of `replaceCallWithMember` after the receiver has been given its temporary -/
def rcwmTail (dst method : String) (identReplacement memberExpr expr callee : Node) (cargs asg0 : List Node)
    (csp : Span) (coa : Option String) : M (Option (Node × String)) := do
  let (identCallee, asg1, args1) ← getIdentUsed memberExpr asg0 [] csp .expr
  let args2 := args1 ++ [.arg none identReplacement]
  let calleeExpr := match identCallee with
    | some n => tempIdent n
    | none => expr
  let (callRepl, asg3, args3) ← replaceCallCalleeAndArgs callee cargs csp (some calleeExpr) asg1 args2 coa
  pure (some (ddParen (insertThis callRepl identReplacement) args3 asg3 dst csp, method))

def identOr (ir : Option Nat) (e : Node) : Node :=
  match ir with
  | some n => tempIdent n
  | none => e

def memberOr (memberOpt : Option Node) (m : Node) : Node :=
  match memberOpt with
  | some x => x
  | none => m

theorem replaceCallWithMember_unfold (cfg : Config) (expr : Node) (method : String) (msp : Span)
    (callee : Node) (cargs : List Node) (csp : Span) (memberOpt : Option Node) (coa : Option String) (s : St)
    (csi : CsiMethod) (hg : cfg.get method = some csi) :
    replaceCallWithMember cfg expr method msp callee cargs csp memberOpt coa s =
      let R0 := getTemporalIdent expr [] csp .expr s
      rcwmTail csi.dst method (identOr R0.1.1 expr)
        (memberOr memberOpt (.member (identOr R0.1.1 expr) (.pname method msp) csp)) expr callee cargs R0.1.2 csp coa R0.2 := by
  unfold replaceCallWithMember rcwmTail
  simp only [hg, run_bind, run_pure]
  generalize getTemporalIdent expr [] csp .expr s = R0
  obtain ⟨⟨ir, asg0⟩, s0⟩ := R0
  cases ir <;> cases memberOpt <;> rfl

theorem rcwmTail_spec (ok u) (dst method : String) (identReplacement memberExpr expr callee : Node) (cargs asg0 : List Node)
    (csp : Span) (coa : Option String) (s0 : St) (hok : ok dst = true)
    (gir : goodW ok u identReplacement = true) (nir : ns identReplacement = 0)
    (gme : goodW ok u memberExpr = true) (lme : memberExpr.isLit = false)
    (hc : goodW ok u callee = true) (hca : goodL ok u cargs = true) (ga0 : goodL ok u asg0 = true) :
    TrSpec2 ok u (nsL asg0 + nsL cargs + ns memberExpr)
      (rcwmTail dst method identReplacement memberExpr expr callee cargs asg0 csp coa s0) s0 := by
  unfold rcwmTail
  simp only [run_bind, run_pure]
  rcases getIdentUsed_cases memberExpr asg0 [] csp .expr s0 with ⟨hl, _⟩ | ⟨_, n1, s1, h1, t1⟩
  · rw [lme] at hl; cases hl
  · rw [h1]
    simp only
    have hcs := replaceCallCalleeAndArgs_spec ok u callee cargs csp (some (tempIdent n1))
      (asg0 ++ [.assign "=" (tempIdent n1) (assignRight memberExpr .expr) csp])
      ([] ++ [exprOrSpread (tempIdent n1) .expr] ++ [.arg none identReplacement]) coa s1 hc
      (by intro i hi; cases hi; simp [tempIdent]) hca
      (by simp [ga0, tempIdent, assignRight, gme]) (by simp [exprOrSpread, tempIdent, gir])
    generalize replaceCallCalleeAndArgs callee cargs csp (some (tempIdent n1))
      (asg0 ++ [.assign "=" (tempIdent n1) (assignRight memberExpr .expr) csp])
      ([] ++ [exprOrSpread (tempIdent n1) .expr] ++ [.arg none identReplacement]) coa s1 = R at hcs
    obtain ⟨⟨callRepl, asg3, args3⟩, s3⟩ := R
    simp only at hcs
    obtain ⟨callee', cargs', hcr, gc', gca', nc', ga3, gg3, c1, c2, t3⟩ := hcs
    subst hcr
    refine ⟨TS.trans t3 t1, ?_⟩
    intro e' tag hres
    simp only [Option.some.injEq, Prod.mk.injEq] at hres
    obtain ⟨hres, _⟩ := hres
    subst hres
    refine ⟨?_, ?_⟩
    · rw [good_ddParen]
      simp [hok, insertThis, good_call _ _ _ _ _ gc', gir, gca', gg3, ga3]
    · rw [ns_ddParen, ns_insertThis_call]
      simp only [nsL_append, nsL_cons, nsL_nil, ns_assign, ns_exprOrSpread, ns_arg, tempIdent, ns_temp, assignRight] at c1 c2
      simp only [Option.isSome_some, if_true] at nc'
      omega

theorem replaceCallWithMember_spec (ok u) (cfg : Config) (expr : Node) (method : String) (msp : Span)
    (callee : Node) (cargs : List Node) (csp : Span) (memberOpt : Option Node) (coa : Option String) (s : St)
    (hcfg : ∀ m csi, cfg.get m = some csi → ok csi.dst = true)
    (he : goodW ok u expr = true) (hc : goodW ok u callee = true) (hca : goodL ok u cargs = true)
    (hm : ∀ m, memberOpt = some m → goodW ok u m = true ∧ m.isLit = false) :
    TrSpec2 ok u (ns expr + nsL cargs + (memberOpt.map ns).getD 0)
      (replaceCallWithMember cfg expr method msp callee cargs csp memberOpt coa s) s := by
  cases hg : cfg.get method with
  | none =>
    unfold replaceCallWithMember
    simp only [hg]
    exact ⟨TS.refl s, by intro e' tag h; cases h⟩
  | some csi =>
    have hok := hcfg _ _ hg
    rw [replaceCallWithMember_unfold _ _ _ _ _ _ _ _ _ _ csi hg]
    -- the receiver
    have hR0 : ∃ ir asg0 s0, getTemporalIdent expr [] csp .expr s = ((ir, asg0), s0) ∧ TS s0 s ∧
        goodL ok u asg0 = true ∧ goodW ok u (identOr ir expr) = true ∧ ns (identOr ir expr) = 0 ∧ nsL asg0 = ns expr := by
      rcases getTemporalIdent_cases expr [] csp .expr s with ⟨hl, h⟩ | ⟨hl, n, s', h, ht⟩
      · exact ⟨none, [], s, h, TS.refl s, rfl, he, isLit_ns hl, by simp [isLit_ns hl]⟩
      · exact ⟨some n, _, s', h, ht, by simp [tempIdent, assignRight, he], by simp [identOr, tempIdent], by simp [identOr, tempIdent],
          by simp [tempIdent, assignRight]⟩
    obtain ⟨ir, asg0, s0, h0, t0, ga0, gir, nir, na0⟩ := hR0
    rw [h0]
    simp only
    have gme : goodW ok u (memberOr memberOpt (.member (identOr ir expr) (.pname method msp) csp)) = true ∧
        (memberOr memberOpt (.member (identOr ir expr) (.pname method msp) csp)).isLit = false ∧
        ns (memberOr memberOpt (.member (identOr ir expr) (.pname method msp) csp)) = (memberOpt.map ns).getD 0 := by
      cases memberOpt with
      | none => simp [memberOr, gir, nir, Node.isLit]
      | some m => simp [memberOr, (hm m rfl).1, (hm m rfl).2]
    have ht := rcwmTail_spec ok u csi.dst method (identOr ir expr) _ expr callee cargs asg0 csp coa s0 hok gir nir gme.1 gme.2.1 hc hca ga0
    rw [gme.2.2, na0] at ht
    exact ⟨TS.trans ht.1 t0, ht.2⟩

end IastModel

namespace IastModel
open Node

theorem replaceCallSpreadWithMember_spec (ok u) (cfg : Config) (method : String)
    (callee : Node) (cargs : List Node) (csp : Span) (memberExpr : Node) (coa : String) (s : St)
    (hcfg : ∀ m csi, cfg.get m = some csi → ok csi.dst = true)
    (hc : goodW ok u callee = true) (hca : goodL ok u cargs = true) (gme : goodW ok u memberExpr = true) :
    TrSpec2 ok u (nsL cargs + ns memberExpr)
      (replaceCallSpreadWithMember cfg method callee cargs csp memberExpr coa s) s := by
  unfold replaceCallSpreadWithMember
  cases hg : cfg.get method with
  | none => exact ⟨TS.refl s, by intro e' tag h; cases h⟩
  | some csi =>
    have hok := hcfg _ _ hg
    simp only [run_bind, run_pure]
    rcases getIdentUsed_cases memberExpr [] [] csp .expr s with ⟨hl, h1⟩ | ⟨_, n1, s1, h1, t1⟩
    · rw [h1]; exact ⟨TS.refl s, by intro e' tag h; cases h⟩
    · rw [h1]
      simp only [run_bind, run_pure]
      have hcs := replaceCallCalleeAndArgs_spec ok u callee cargs csp (some (tempIdent n1))
        ([] ++ [.assign "=" (tempIdent n1) (assignRight memberExpr .expr) csp])
        ([] ++ [exprOrSpread (tempIdent n1) .expr]) (some coa) s1 hc
        (by intro i hi; cases hi; simp [tempIdent]) hca
        (by simp [tempIdent, assignRight, gme]) (by simp [exprOrSpread, tempIdent])
      generalize replaceCallCalleeAndArgs callee cargs csp (some (tempIdent n1))
        ([] ++ [.assign "=" (tempIdent n1) (assignRight memberExpr .expr) csp])
        ([] ++ [exprOrSpread (tempIdent n1) .expr]) (some coa) s1 = R at hcs
      obtain ⟨⟨callRepl, asg3, args3⟩, s3⟩ := R
      simp only at hcs
      obtain ⟨callee', cargs', hcr, gc', gca', nc', ga3, gg3, c1, c2, t3⟩ := hcs
      subst hcr
      refine ⟨TS.trans t3 t1, ?_⟩
      intro e' tag hres
      simp only [Option.some.injEq, Prod.mk.injEq] at hres
      obtain ⟨hres, _⟩ := hres
      subst hres
      refine ⟨?_, ?_⟩
      · rw [good_ddParen]
        simp [hok, good_call _ _ _ _ _ gc', gca', gg3, ga3]
      · rw [ns_ddParen]
        simp only [nsL_append, nsL_cons, nsL_nil, ns_assign, ns_exprOrSpread, ns_arg, tempIdent, ns_temp, assignRight, ns_call] at c1 c2 ⊢
        simp only [Option.isSome_some, if_true] at nc'
        omega

theorem replaceCallWithoutCallee_spec (ok u) (cfg : Config) (name : Name) (isp : Span) (cargs : List Node) (csp : Span) (s : St)
    (hcfg : ∀ m csi, cfg.get m = some csi → ok csi.dst = true)
    (hc : goodW ok u (.ident name isp) = true) (hca : goodL ok u cargs = true) :
    TrSpec2 ok u (nsL cargs) (replaceCallWithoutCallee cfg name isp (.ident name isp) cargs csp s) s := by
  unfold replaceCallWithoutCallee
  cases name with
  | temp k => exact ⟨TS.refl s, by intro e' tag h; cases h⟩
  | user method =>
    simp only
    cases hg : cfg.get method with
    | none => exact ⟨TS.refl s, by intro e' tag h; cases h⟩
    | some csi =>
      have hok := hcfg _ _ hg
      simp only
      by_cases hal : csi.allowedWithoutCallee = true
      · simp only [hal, if_true, run_bind, run_pure]
        have hn0 : ns (.ident (.user method) isp) = 0 := good_leaf_ns hc (by simp [leaf, Node.isIdent])
        have hcs := replaceCallCalleeAndArgs_spec ok u (.ident (.user method) isp) cargs csp none []
          [Node.arg none (.ident (.user method) isp), .arg none (.ident (.user "undefined") csp)] none s hc
          (by intro i hi; cases hi) hca rfl
          (by simp [hc, good_user]; decide)
        generalize replaceCallCalleeAndArgs (.ident (.user method) isp) cargs csp none []
          [Node.arg none (.ident (.user method) isp), .arg none (.ident (.user "undefined") csp)] none s = R at hcs
        obtain ⟨⟨callRepl, asg3, args3⟩, s3⟩ := R
        simp only at hcs
        obtain ⟨callee', cargs', hcr, gc', gca', nc', ga3, gg3, c1, c2, t3⟩ := hcs
        subst hcr
        refine ⟨t3, ?_⟩
        intro e' tag hres
        simp only [Option.some.injEq, Prod.mk.injEq] at hres
        obtain ⟨hres, _⟩ := hres
        subst hres
        refine ⟨?_, ?_⟩
        · rw [good_ddParen]
          simp [hok, good_call _ _ _ _ _ gc', gca', gg3, ga3]
        · rw [ns_ddParen]
          have hu : ns (.ident (.user "undefined") csp) = 0 := by rw [ns_user]; decide
          simp only [nsL_cons, nsL_nil, ns_arg, hn0, hu, ns_call] at c1 c2 ⊢
          simp only [Option.isSome_none, Bool.false_eq_true, if_false] at nc'
          omega
      · simp only [hal, Bool.false_eq_true, if_false, run_pure]
        exact ⟨TS.refl s, by intro e' tag h; cases h⟩

end IastModel

namespace IastModel
open Node

theorem ns_argExpr (a : Node) : ns (argExpr a) = ns a := by
  cases a <;> simp [argExpr]
theorem good_argExpr (ok u) (a : Node) : goodW ok u (argExpr a) = goodW ok u a := by
  cases a <;> simp [argExpr]

theorem isStaticPath_isLit {m : Node} (h : isStaticPath m = true) : m.isLit = false := by
  cases m <;> simp_all [isStaticPath, Node.isLit]

theorem trspec2_none (ok u n0) (s : St) : TrSpec2 ok u n0 ((none : Option (Node × String)), s) s :=
  ⟨TS.refl s, by intro e' tag h; cases h⟩

theorem replacePrototypeCallOrApply_spec (ok u) (cfg : Config) (cargs : List Node) (csp : Span) (callee member : Node)
    (coa : String) (s : St)
    (hcfg : ∀ m csi, cfg.get m = some csi → ok csi.dst = true)
    (hc : goodW ok u callee = true) (hca : goodL ok u cargs = true) (gm : goodW ok u member = true) :
    TrSpec2 ok u (ns member + nsL cargs) (replacePrototypeCallOrApply cfg cargs csp callee member coa s) s := by
  unfold replacePrototypeCallOrApply
  by_cases h1 : isCallOrApply coa = true
  · simp only [h1, Bool.not_true, Bool.false_eq_true, if_false]
    unfold prototypeMethodIdent
    by_cases hsp : isStaticPath member = true
    · simp only [hsp, if_true]
      cases member with
      | member mo mp msp0 =>
        cases mp with
        | pname method msp =>
          simp only
          cases cargs with
          | nil => exact trspec2_none ..
          | cons th rest =>
            simp only
            by_cases hs : argIsSpread th = true
            · simp only [hs, if_true]
              have := replaceCallSpreadWithMember_spec ok u cfg method callee (th :: rest) csp (.member mo (.pname method msp) msp0) coa s hcfg hc hca gm
              rwa [Nat.add_comm] at this
            · simp only [hs, Bool.false_eq_true, if_false]
              by_cases hinv : invalidArgs coa (th :: rest) = true
              · simp only [hinv, if_true]; exact trspec2_none ..
              · simp only [hinv, Bool.false_eq_true, if_false]
                split
                · exact trspec2_none ..
                · simp only [goodL_cons, Bool.and_eq_true] at hca
                  have := replaceCallWithMember_spec ok u cfg (argExpr th) method msp
                    (Node.member (argExpr th) (.pname method msp) csp) rest csp
                    (some (.member mo (.pname method msp) msp0)) (some coa) s hcfg
                    (by rw [good_argExpr]; exact hca.1) (by simp [good_argExpr, hca.1]) hca.2
                    (by intro m hm; cases hm; exact ⟨gm, rfl⟩)
                  simp only [Option.map_some, Option.getD_some, ns_argExpr] at this
                  simp only [nsL_cons]
                  rwa [show ns (Node.member mo (.pname method msp) msp0) + (ns th + nsL rest) =
                    ns th + nsL rest + ns (Node.member mo (.pname method msp) msp0) by omega]
        | _ => simp [isStaticPath] at hsp
      | _ => simp [isStaticPath] at hsp
    · simp only [hsp, Bool.false_eq_true, if_false]; exact trspec2_none ..
  · simp only [h1, Bool.not_false, if_true]; exact trspec2_none ..

theorem toDdCall_spec (ok u) (cfg : Config) (callee : Node) (cargs : List Node) (csp : Span) (s : St)
    (hcfg : ∀ m csi, cfg.get m = some csi → ok csi.dst = true)
    (hc : goodW ok u callee = true) (hca : goodL ok u cargs = true) :
    TrSpec2 ok u (ns callee + nsL cargs) (toDdCall cfg (.call callee cargs csp) s) s := by
  unfold toDdCall
  cases callee with
  | member obj prop msp0 =>
    cases prop with
    | pname m msp =>
      have hgo : goodW ok u obj = true := by simp at hc; exact hc
      have hno : ns (Node.member obj (.pname m msp) msp0) = ns obj := by simp
      have key := fun (_ : Unit) => replaceCallWithMember_spec ok u cfg obj m msp (.member obj (.pname m msp) msp0) cargs csp none none s hcfg hgo hc hca (by intro m hm; cases hm)
      simp only [Option.map_none, Option.getD_none, Nat.add_zero] at key
      rw [hno]
      cases obj with
      | lit k v r lsp =>
        simp only
        split
        · exact key ()
        · exact trspec2_none ..
      | ident nm isp => exact key ()
      | call c as csp2 => exact key ()
      | paren e psp => exact key ()
      | array es asp => exact key ()
      | member o2 p2 msp2 =>
        simp only
        split
        · exact replacePrototypeCallOrApply_spec ok u cfg cargs csp _ _ m s hcfg hc hca hgo
        · split
          · exact key ()
          · exact trspec2_none ..
      | _ => exact trspec2_none ..
    | _ => exact trspec2_none ..
  | ident name isp =>
    have hn0 : ns (.ident name isp) = 0 := good_leaf_ns hc (by simp [leaf, Node.isIdent])
    rw [hn0, Nat.zero_add]
    exact replaceCallWithoutCallee_spec ok u cfg name isp cargs csp s hcfg hc hca
  | _ => exact trspec2_none ..

end IastModel

import IastModel.Lemmas.LitVisit
import IastModel.Lemmas.EffBlock
import IastModel.Rewriter.Literals
namespace IastModel
open Node

theorem letDecl_cl (lv : String) (sp0 : Span) (idents : List Nat) (sp : Span) : cl lv sp0 (letDecl idents sp) = 0 := by
  have h1 : ∀ l : List Nat, clL lv sp0 (l.map fun n => Node.other "VariableDeclarator" sp ["id", "init", "definite"]
      [tempIdent n, .atom "null", .atom "false"]) = 0 := by
    intro l; induction l with
    | nil => rfl
    | cons x xs ih =>
      simp only [tempIdent] at ih ⊢
      simp [ih]
  simp [letDecl, h1]

theorem clL_take_drop (lv : String) (sp0 : Span) (ks : List Node) (i : Nat) :
    clL lv sp0 (ks.take i) + clL lv sp0 (ks.drop i) = clL lv sp0 ks := by
  conv => rhs; rw [← List.take_append_drop i ks]
  rw [clL_append]

theorem insertVar_cl (lv : String) (sp0 : Span) (idents : List Nat) (ks : List Node) (sp : Span) :
    ∃ ks2, insertVariableDeclaration idents (.block ks sp) = .block ks2 sp ∧ clL lv sp0 ks2 = clL lv sp0 ks := by
  simp only [insertVariableDeclaration]
  by_cases he : idents.isEmpty = true
  · exact ⟨ks, by simp only [he, if_true], rfl⟩
  · refine ⟨insertAt ks (variableInsertionIndex ks) [letDecl idents sp], by simp only [he, Bool.false_eq_true, if_false], ?_⟩
    have := clL_take_drop lv sp0 ks (variableInsertionIndex ks)
    simp only [insertAt, clL_append, clL_cons, clL_nil, letDecl_cl]
    omega

def BL (lv : String) (sp0 : Span) (n : Node) (R : Node × St) : Prop := StOk R.2 → LZ (cl lv sp0 n) (cl lv sp0 R.1)

theorem mapBlock_L (lv : String) (sp0 : Span) (ok) (g : Node → M Node)
    (hb : ∀ k s, StOk s → goodW ok true k = true → BL lv sp0 k (g k s))
    (hc : ∀ k s, s.status = .cancelled → (g k s).2.status = .cancelled) :
    ∀ (ks : List Node) (s : St), StOk s → goodL ok true ks = true → StOk (mapM' g ks s).2 →
      LZ (clL lv sp0 ks) (clL lv sp0 (mapM' g ks s).1) := by
  intro ks
  induction ks with
  | nil => intro s _ _ _; exact LZ.refl _
  | cons x xs ih =>
    intro s hs hg hfin
    simp only [goodL_cons, Bool.and_eq_true] at hg
    simp only [mapM', run_bind, run_pure] at hfin ⊢
    have h1 := hb x s hs hg.1
    generalize hR1 : g x s = R1 at h1 hfin
    obtain ⟨x', s1⟩ := R1
    simp only at hfin ⊢
    have hs1 : StOk s1 := by
      intro hcn
      exact hfin (mapM'_canc g hc xs s1 hcn)
    have e1 := h1 hs1
    have e2 := ih s1 hs1 hg.2 hfin
    simp only at e1
    simp only [clL_cons]
    exact LZ.add e1 e2

/-- the block visitor keeps every string-literal node and adds none (when the run is not cancelled) -/
theorem blockVisit_L (lv : String) (sp0 : Span) (ok) (cfg : Config) (hcfg : CfgOk ok cfg) (opFuel : Nat) : ∀ (f : Nat) (n : Node) (s : St),
    StOk s → goodW ok true n = true → BL lv sp0 n (blockVisit cfg opFuel f n s) := by
  intro f
  induction f with
  | zero => intro n s _ _ _; simp only [blockVisit, run_bind, run_pure]; exact LZ.refl _
  | succ f ih =>
    intro n s hs hg
    have hlist := mapBlock_L lv sp0 ok (blockVisit cfg opFuel f) (fun k s hs hg => ih k s hs hg)
      (fun k s h => blockVisit_canc cfg opFuel f k s h)
    have hspec := mapBlock_spec ok (blockVisit cfg opFuel f)
      (fun k s hs hg => blockVisit_spec ok cfg hcfg opFuel f k s hs hg)
      (fun k s h => blockVisit_canc cfg opFuel f k s h)
    by_cases hb : isBlockNode n = true
    · cases n with
      | block ss sp =>
        rw [good_block] at hg
        simp only [if_true, Bool.and_eq_true, beq_iff_eq] at hg
        rw [blockVisit_block cfg opFuel f ss sp s hs]
        have hs0 : StOk (resetProvider s) := hs
        have t0 : TS (resetProvider s) s := ⟨rfl, rfl, id⟩
        have h0 : ns (.block ss sp) = 0 := by simp [hg.1]
        have htg : targetsOk (.block ss sp) = true := (bad_zero_iff _).mp (by simp [hg.2])
        obtain ⟨ks', h1, hl, g, e, p⟩ := mapKids_spec' ok (visit cfg opFuel true)
          (fun k s h0 ht hs => visit_spec ok cfg hcfg opFuel true k s h0 ht hs) (.block ss sp) (resetProvider s) h0 htg hs0
        have hk : ∀ (ks : List Node) (s : St), nsL ks = 0 → (∀ k ∈ ks, targetsOk k = true) → StOk s →
            LZ (clL lv sp0 ks) (clL lv sp0 (mapM' (visit cfg opFuel true) ks s).1) := by
          intro ks
          induction ks with
          | nil => intro s _ _ _; exact LZ.refl _
          | cons k ks ihk =>
            intro s hz htk hs
            simp only [nsL_cons] at hz
            simp only [mapM', run_bind, run_pure, clL_cons]
            have hk1 := visit_L lv sp0 cfg ok hcfg opFuel true k s (by omega) (htk k (by simp)) hs
            have hsp := visit_spec ok cfg hcfg opFuel true k s (by omega) (htk k (by simp)) hs
            exact LZ.add hk1 (ihk _ (by omega) (fun x hx => htk x (by simp [hx])) (hsp.2.1.stOk hs))
        have he1 := hk ss (resetProvider s) hg.1 (targetsOk_kids htg) hs0
        have hK : mapKidsM mapM' (visit cfg opFuel true) (.block ss sp) (resetProvider s) =
            (.block (mapM' (visit cfg opFuel true) ss (resetProvider s)).1 sp, (mapM' (visit cfg opFuel true) ss (resetProvider s)).2) := by
          simp [mapKidsM, run_bind, run_pure, withKids, kids]
        rw [hK] at h1 e ⊢
        generalize mapM' (visit cfg opFuel true) ss (resetProvider s) = K at h1 e he1
        obtain ⟨ks1, s1⟩ := K
        simp only [withKids] at h1 e he1 ⊢
        have hks : ks' = ks1 := by injection h1 with h; exact h.symm
        subst hks
        by_cases hd : variablesContainPossibleDuplicate s1.vars (tempPrefix cfg.localVarPrefix) = true
        · simp only [hd, if_true]
          intro hfin
          exact absurd rfl hfin
        · simp only [hd, Bool.false_eq_true, if_false]
          obtain ⟨ks2, hins, g2, n2⟩ := insertVar_spec ok s1.idents ks' sp g
          obtain ⟨ks2', hins', e2⟩ := insertVar_cl lv sp0 s1.idents ks' sp
          have : ks2' = ks2 := by rw [hins] at hins'; injection hins' with h; exact h.symm
          subst this
          rw [hins]
          simp only [mapKidsM, kids, run_bind, run_pure, withKids]
          intro hfin
          have e01 : Eff s s1 (nsL ks') := ((Eff.of_TS t0).trans e).cast (by omega)
          have := hlist ks2' s1 (e01.stOk hs) g2 hfin
          simp only [cl_block]
          rw [e2] at this
          exact he1.trans this
      | _ => simp [isBlockNode] at hb
    · simp only [Bool.not_eq_true] at hb
      rw [blockVisit_generic cfg opFuel f n hb]
      have hg' := hg
      rw [goodW_eq] at hg'
      simp only [hb, Bool.and_false, Bool.false_eq_true, if_false] at hg'
      cases hh : hookName? n with
      | none =>
        rw [hh] at hg'
        simp only [Bool.and_eq_true, Bool.not_eq_true'] at hg'
        simp only [mapKidsM, run_bind, run_pure]
        intro hfin
        have e3 := hlist n.kids s hs hg'.2 hfin
        obtain ⟨g3, l3, _⟩ := hspec n.kids s hs hg'.2 hfin
        rw [cl_eq (n := n.withKids _), Node.kids_withKids n _ l3, isStrLitAt_withKids, cl_eq (n := n)]
        exact LZ.add (LZ.refl _) e3
      | some nm =>
        obtain ⟨x, isp, psp, msp, args, sp, rfl, hx⟩ := hookName?_some hh
        rw [hh] at hg'
        simp only [kids, List.drop_succ_cons, List.drop_zero, Bool.and_eq_true] at hg'
        simp only [mapKidsM, kids, mapM', run_bind, run_pure]
        have hc := blockVisit_callee cfg opFuel f (.user x) isp nm psp msp s
        generalize blockVisit cfg opFuel f (.member (.ident (.user x) isp) (.pname nm psp) msp) s = RC at hc
        obtain ⟨c', s1⟩ := RC
        obtain ⟨hc1, t1⟩ := hc
        simp only at hc1 t1 ⊢
        subst hc1
        intro hfin
        have e1 : Eff s s1 0 := Eff.of_TS t1
        have e3 := hlist args s1 (e1.stOk hs) hg'.2 hfin
        simp only [withKids, List.getD_cons_zero, List.drop_succ_cons, List.drop_zero]
        rw [cl_call, cl_call]
        exact LZ.add (LZ.refl _) e3

theorem cl_insertPrologue (lv : String) (sp0 : Span) (pro : List Node) (k : String) (sp : Span) (ns' : List String) (body vs : List Node) :
    cl lv sp0 (insertPrologue pro (.other k sp ("body" :: ns') (.arr body :: vs))) =
      cl lv sp0 (.other k sp ("body" :: ns') (.arr body :: vs)) + clL lv sp0 pro := by
  simp only [insertPrologue, cl_other, clL_cons, cl_arr, insertAt, clL_append]
  have := clL_take_drop lv sp0 body (variableInsertionIndex body)
  omega

/-- the two string literals of the prologue (`'undefined'`, `'this'`) are shorter than the report window -/
theorem prologue_cl (lv : String) (sp0 : Span) (dsts : List String) (hw : litLengthOk lv = true) :
    clL lv sp0 (prologue dsts) = 0 := by
  have h1 : lv ≠ "this" := by intro h; subst h; revert hw; decide +kernel
  have h2 : lv ≠ "undefined" := by intro h; subst h; revert hw; decide +kernel
  have ht : ∀ l : List String, clL lv sp0 (l.map fun k => Node.other "KeyValueProperty" pd ["key", "value"] [.pname k pd, puid "noop"]) = 0 := by
    intro l; induction l with
    | nil => rfl
    | cons x xs ih => simp only [puid] at ih ⊢; simp [ih]
  simp only [puid] at ht
  have hif : ∀ (t c a : Node) (s : Span), cl lv sp0 (.ifStmt t c a s) = cl lv sp0 t + cl lv sp0 c + cl lv sp0 a := by
    intro t c a s; rw [cl_nolit _ _ _ (by intro a b c d h; cases h)]; simp [kids]; omega
  have hes : ∀ (e : Node) (s : Span), cl lv sp0 (.exprStmt e s) = cl lv sp0 e := by
    intro e s; rw [cl_nolit _ _ _ (by intro a b c d h; cases h)]; simp [kids]
  simp [prologue, puid, cl_lit, ht, Ne.symm h1, Ne.symm h2, hif, hes]

/-- **Instrumentation neither adds nor removes a string-literal node.**  For every configuration, fuel and
    program (hypotheses as in `master`), unless the rewrite is refused, the output is `p1` or `p1` with the
    prologue inserted, where for every value and span the literal node with that value at that span occurs
    in `p1` exactly when it occurs in the source (it may occur in several copies: operands are cloned into
    hook arguments with their spans, which is what the collector's set-by-span removes again). -/
theorem literal_nodes_preserved_master (cfg : Config) (fuel : Nat) (p : Node) (h0 : ns p = 0) (ht : targetsOk p = true)
    (hnc : (transformProgram cfg fuel p).status ≠ .cancelled) :
    ∃ p1, (∀ lv sp0, LZ (cl lv sp0 p) (cl lv sp0 p1)) ∧
      (transformProgram cfg fuel p).out =
        (if (transformProgram cfg fuel p).status = .modified then insertPrologue (prologue cfg.dsts) p1 else p1) := by
  unfold transformProgram at hnc ⊢
  simp only [StateT.run] at hnc ⊢
  by_cases hr : hasReserved (tempPrefix cfg.localVarPrefix) p = true
  · exact absurd (programVisit_reserved cfg _ fuel p {} hr) hnc
  · simp only [Bool.not_eq_true] at hr
    simp only [programVisit_eq cfg _ fuel p {} hr] at hnc ⊢
    refine ⟨(mapKidsM mapM' (blockVisit cfg fuel fuel) p {}).1, ?_, rfl⟩
    intro lv sp0
    simp only [mapKidsM, run_bind, run_pure] at hnc ⊢
    have hs0 : StOk ({} : St) := by intro h; cases h
    have hcfg := cfgOk_dsts cfg
    have hlist := mapBlock_L lv sp0 (okCfg cfg) (blockVisit cfg fuel fuel)
      (fun k s hs hg => blockVisit_L lv sp0 (okCfg cfg) cfg hcfg fuel fuel k s hs hg)
      (fun k s h => blockVisit_canc cfg fuel fuel k s h)
    have hspec := mapBlock_spec (okCfg cfg) (blockVisit cfg fuel fuel)
      (fun k s hs hg => blockVisit_spec (okCfg cfg) cfg hcfg fuel fuel k s hs hg)
      (fun k s h => blockVisit_canc cfg fuel fuel k s h)
    have hb0 : bad p = 0 := (bad_zero_iff p).mpr ht
    have hk : goodL (okCfg cfg) true p.kids = true := by
      apply goodL_of_ns0
      · exact nsL_kids_of_ns0 h0
      · rw [bad_eq] at hb0; omega
    have e3 := hlist p.kids {} hs0 hk hnc
    obtain ⟨g3, l3, _⟩ := hspec p.kids {} hs0 hk hnc
    rw [cl_eq (n := p.withKids _), Node.kids_withKids p _ l3, isStrLitAt_withKids, cl_eq (n := p)]
    exact LZ.add (LZ.refl _) e3

end IastModel

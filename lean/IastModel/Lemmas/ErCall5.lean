import IastModel.Lemmas.ErCall4
namespace IastModel
open Node

theorem Er_strip_pname {cx : Cx} {lo hi : Nat} {m : String} {msp : Span} {p2 : Node}
    (h : Er cx lo hi (.pname m msp) p2) : strip p2 = .pname m Span.dummy := by
  obtain ⟨X, Δ, eX, sX, _⟩ := h _ (BRg.refl _) cx.base cx.ext_base
  simp only [erase] at eX
  have hX : X = .pname m msp := (congrArg Prod.fst eX).symm
  rw [hX] at sX
  have := sX.1
  simp only [strip] at this
  exact this.symm

theorem staticPath_obj {o' p' : Node} {sp' : Span} (h : isStaticPath (.member o' p' sp') = true) :
    (∃ nm isp, o' = .ident nm isp) ∨ (∃ a b msp, o' = .member a b msp) := by
  cases p' <;> cases o' <;> simp_all [isStaticPath]

/-- in `X.prototype.m.call(this, …)` the object of the method path is not the this-argument, so `erase`
    does not mistake the call for a method call through its receiver -/
theorem proto_not_receiver (cx : Cx) (lo hi : Nat) (o' p' : Node) (sp' : Span) (o p : Node) (sp2 : Span)
    (thisSrc : Node) (ca : String) (csp : Span)
    (hstat : isStaticPath (.member o' p' sp') = true)
    (hD : Deep lo hi (.member o' p' sp') (.member o p sp2))
    (hsrc : srcOk o = true)
    (hclash : (o.span == thisSrc.span) = false ∧ o.span.isDummy = false) :
    ∀ member'', BRg (.member o' p' sp') member'' → ∀ σ', cx.ext σ' → ∀ X, ESim X thisSrc → ∀ Xs,
      resolveCall (erase σ' member'').1 ca csp csp (.arg none X :: Xs) csp =
        .call (.member (erase σ' member'').1 (.pname ca csp) csp) (.arg none X :: Xs) csp := by
  intro member'' hm'' σ' _ X sX Xs
  obtain ⟨o'', p'', rfl, ho'', _⟩ := hm''.member_inv
  simp only [Deep] at hD
  obtain ⟨_, hEo, _, _, _, hid⟩ := hD
  have hF : (erase σ' (.member o'' p'' sp')).1 = .member (erase σ' o'').1 (erase (erase σ' o'').2 p'').1 sp' := by
    simp only [erase]
  rw [hF]
  -- the erased object of the path carries the position of the source object
  have hspan : (erase σ' o'').1.span = o.span := by
    obtain ⟨Xo, Δ, eXo, sXo, _⟩ := hEo o'' ho'' σ'
    rw [eXo]
    simp only
    cases ho : o' with
    | ident nm isp =>
      have := hid (by rw [ho]; rfl)
      rw [ho] at this ho''
      subst this
      rw [BRg_noBlk (noBlk_identE _ _) ho'', erase_src _ hsrc] at eXo
      have := congrArg Prod.fst eXo
      simp only at this
      rw [← this]
    | member a b msp =>
      rw [ho] at ho''
      obtain ⟨a'', b'', rfl, _, _⟩ := ho''.member_inv
      simp only [erase] at eXo
      have hXo := (congrArg Prod.fst eXo).symm
      simp only at hXo
      have h1 := sXo.1
      have h2 := sXo.2.1
      rw [hXo] at h1 h2
      cases o with
      | member a2 b2 msp2 =>
        simp only [spanRel, Node.span, isOptN] at h2
        rcases h2 with h2 | h2
        · rw [hXo]; exact h2
        · exact absurd h2.1 (by simp)
      | _ => simp [strip] at h1
    | _ =>
      rcases staticPath_obj hstat with ⟨nm, isp, h⟩ | ⟨a, b, msp, h⟩ <;> rw [h] at ho <;> cases ho
  have hne : ((erase σ' o'').1 == X) = false := by
    cases hbeq : ((erase σ' o'').1 == X) with
    | false => rfl
    | true =>
      exfalso
      have hs := beq_span _ _ hbeq
      rw [hspan] at hs
      rcases sX.2.1 with h | h
      · rw [h] at hs
        rw [hs, span_beq_refl'] at hclash
        exact absurd hclash.1 (by simp)
      · rw [h.2] at hs
        rw [hs] at hclash
        exact absurd hclash.2 (by simp [dummy_isDummy])
  unfold resolveCall
  simp only [hne, Bool.false_eq_true, if_false]
  split <;> rfl

end IastModel

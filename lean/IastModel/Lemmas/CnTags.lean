import IastModel.Lemmas.CnAssign
namespace IastModel
open Node

/-- a telemetry entry that stands for replacement name `d` -/
def tagTo (cfg : Config) (d : String) (t : Option String) : Bool :=
  match t with
  | some tag => tagDst cfg tag == some d
  | none => false

def countTags (cfg : Config) (d : String) (tags : List (Option String)) : Nat := (tags.filter (tagTo cfg d)).length

@[simp] theorem countTags_nil (cfg d) : countTags cfg d [] = 0 := rfl
theorem countTags_append (cfg d) (a b : List (Option String)) : countTags cfg d (a ++ b) = countTags cfg d a + countTags cfg d b := by
  simp [countTags, List.filter_append]
theorem countTags_single (cfg d) (t : Option String) : countTags cfg d [t] = if tagTo cfg d t then 1 else 0 := by
  simp only [countTags, List.filter_cons, List.filter_nil]
  split <;> rfl

/-- the method names of the configuration do not collide with the operator tags of the telemetry -/
def CfgTagsOk (cfg : Config) : Prop :=
  ∀ m csi, cfg.get m = some csi → m ≠ Generated.addTag ∧ m ≠ Generated.addAssignTag ∧ m ≠ Generated.tplTag

/-- the telemetry log grew by `tags`, of which as many stand for `d` as hook calls named `d` appeared -/
def VC (cfg : Config) (d : String) (s s' : St) (a b : Nat) : Prop :=
  ∃ tags, s'.incs = s.incs ++ tags ∧ b = a + countTags cfg d tags

theorem VC.of_TS {cfg d} {s s' : St} {a : Nat} (h : TS s' s) : VC cfg d s s' a a := ⟨[], by simp [h.1], by simp⟩
theorem VC.refl (cfg d) (s : St) (a : Nat) : VC cfg d s s a a := VC.of_TS (TS.refl s)
theorem VC.trans {cfg d} {s s1 s2 : St} {a b c : Nat} (h1 : VC cfg d s s1 a b) (h2 : VC cfg d s1 s2 b c) : VC cfg d s s2 a c := by
  obtain ⟨t1, i1, e1⟩ := h1
  obtain ⟨t2, i2, e2⟩ := h2
  exact ⟨t1 ++ t2, by rw [i2, i1, List.append_assoc], by rw [countTags_append]; omega⟩
theorem VC.cast {cfg d} {s s' : St} {a b b' : Nat} (h : VC cfg d s s' a b) (e : b = b') : VC cfg d s s' a b' := e ▸ h
theorem VC.cast0 {cfg d} {s s' : St} {a a' b : Nat} (h : VC cfg d s s' a b) (e : a = a') : VC cfg d s s' a' b := e ▸ h

theorem updateStatus_modified_incs (tag : Option String) (s : St) (hs : StOk s) :
    (updateStatus .modified tag s).2.incs = s.incs ++ [tag] := by
  unfold StOk at hs
  simp only [updateStatus, run_modify]
  have : (s.status == Status.cancelled) = false := by
    cases h : s.status <;> simp_all <;> rfl
  simp only [this, Bool.false_eq_true, if_false]
  rfl

theorem vc_updateStatus (cfg : Config) (d : String) (res : Option Node) (tag : String) (s : St) (hs : StOk s) (a : Nat) :
    VC cfg d s (updateStatus (statusOf res) (some tag) s).2 a (a + if res.isSome && tagTo cfg d (some tag) then 1 else 0) := by
  cases res with
  | none =>
    simp only [statusOf, Option.isSome_none, Bool.false_and, Bool.false_eq_true, if_false, Nat.add_zero]
    rw [updateStatus_notModified]; exact VC.refl cfg d s a
  | some e =>
    simp only [statusOf, Option.isSome_some, if_true, Bool.true_and]
    exact ⟨[some tag], updateStatus_modified_incs _ s hs, by rw [countTags_single]⟩

theorem tagDst_add (cfg : Config) : tagDst cfg Generated.addTag = some cfg.plusName := by
  simp [tagDst]
theorem tagDst_addAssign (cfg : Config) : tagDst cfg Generated.addAssignTag = some cfg.plusName := by
  simp [tagDst]
theorem tagDst_tpl (cfg : Config) : tagDst cfg Generated.tplTag = some cfg.tplName := by
  unfold tagDst
  have h1 : (Generated.tplTag == Generated.addTag) = false := by decide +kernel
  have h2 : (Generated.tplTag == Generated.addAssignTag) = false := by decide +kernel
  simp [h1, h2]
theorem tagDst_method (cfg : Config) (hc : CfgTagsOk cfg) (m : String) (csi : CsiMethod) (h : cfg.get m = some csi) :
    tagDst cfg m = some csi.dst := by
  obtain ⟨h1, h2, h3⟩ := hc m csi h
  unfold tagDst
  simp [h1, h2, h3, h]

end IastModel

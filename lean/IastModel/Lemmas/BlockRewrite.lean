import IastModel.Lemmas.CvVisit
namespace IastModel
open Node

theorem Node.withKids_withKids (n : Node) (ks ks2 : List Node) (h1 : ks.length = n.kids.length) (h2 : ks2.length = n.kids.length) :
    (n.withKids ks).withKids ks2 = n.withKids ks2 := by
  cases n with
  | tpl es qs sp =>
    simp only [withKids, kids, List.length_append] at h1 h2 ⊢
    simp [List.length_take, Nat.min_eq_left (by omega : es.length ≤ ks.length)]
  | arrow ps b at' sp =>
    simp only [withKids, kids, List.length_append, List.length_cons, List.length_nil] at h1 h2 ⊢
    have : (ks.take ps.length).length = ps.length := by simp [List.length_take]; omega
    rw [this]
    congr 1
    have h3 : ps.length < ks2.length := by omega
    simp [List.getD, List.getElem?_eq_getElem h3]
  | _ =>
    simp only [withKids, kids, List.length_cons, List.length_nil] at h1 h2 ⊢ <;>
    (try rfl) <;>
    (rcases ks2 with _ | ⟨x, _ | ⟨y, _ | ⟨z, _ | _⟩⟩⟩ <;> simp_all)

/-- `BR a b`: `b` is `a` with some block statements replaced by other block statements (same span) —
    what the block visitor does to a tree below the block it is working on -/
inductive BR : Node → Node → Prop
  | blk (ss ss' : List Node) (sp : Span) : BR (.block ss sp) (.block ss' sp)
  | node (n : Node) (ks' : List Node) : isBlockNode n = false → ks'.length = n.kids.length →
      (∀ i (h1 : i < n.kids.length) (h2 : i < ks'.length), BR (n.kids[i]) (ks'[i])) → BR n (n.withKids ks')

def BRL (xs ys : List Node) : Prop :=
  xs.length = ys.length ∧ ∀ i (h1 : i < xs.length) (h2 : i < ys.length), BR xs[i] ys[i]

theorem BRL.nil : BRL [] [] := ⟨rfl, by intro i h; cases h⟩

theorem BRL.cons {a b : Node} {as bs : List Node} (h : BR a b) (hs : BRL as bs) : BRL (a :: as) (b :: bs) := by
  refine ⟨by simp [hs.1], ?_⟩
  intro i h1 h2
  cases i with
  | zero => exact h
  | succ i => exact hs.2 i (by simpa using h1) (by simpa using h2)

theorem BRL.nil_inv {ys : List Node} (h : BRL [] ys) : ys = [] := by
  have := h.1; cases ys <;> simp_all

theorem BRL.cons_inv {a : Node} {as ys : List Node} (h : BRL (a :: as) ys) :
    ∃ b bs, ys = b :: bs ∧ BR a b ∧ BRL as bs := by
  cases ys with
  | nil => have := h.1; simp at this
  | cons b bs =>
    refine ⟨b, bs, rfl, h.2 0 (by simp) (by simp), ?_, ?_⟩
    · have := h.1; simpa using this
    · intro i h1 h2
      exact h.2 (i + 1) (by simpa using h1) (by simpa using h2)

theorem BR.node' {n : Node} {ks' : List Node} (hb : isBlockNode n = false) (h : BRL n.kids ks') : BR n (n.withKids ks') :=
  BR.node n ks' hb h.1.symm (fun i h1 h2 => h.2 i h1 h2)

theorem BR.refl : ∀ n : Node, BR n n := by
  apply Node.ind
  intro n ih
  by_cases hb : isBlockNode n = true
  · cases n <;> first | exact BR.blk _ _ _ | simp [isBlockNode] at hb
  · simp only [Bool.not_eq_true] at hb
    have := BR.node n n.kids hb rfl (fun i h1 _ => ih _ (List.getElem_mem h1))
    rwa [Node.withKids_kids] at this

theorem BRL.refl (l : List Node) : BRL l l := ⟨rfl, fun i _ _ => BR.refl _⟩

/-- inversion: a non-block node is rewritten child-wise -/
theorem BR.inv {a b : Node} (h : BR a b) (hb : isBlockNode a = false) :
    ∃ ks', b = a.withKids ks' ∧ BRL a.kids ks' := by
  cases h with
  | blk => simp [isBlockNode] at hb
  | node n ks' _ hl hk => exact ⟨ks', rfl, hl.symm, hk⟩

theorem BR.isBlock {a b : Node} (h : BR a b) : isBlockNode b = isBlockNode a := by
  cases h with
  | blk => rfl
  | node n ks' hb _ _ => rw [isBlockNode_withKids]

theorem BR.trans {a b c : Node} (h1 : BR a b) (h2 : BR b c) : BR a c := by
  induction h1 generalizing c with
  | blk ss ss' sp =>
    cases h2 with
    | blk _ ss'' _ => exact BR.blk _ _ _
    | node n ks' hb _ _ => simp [isBlockNode] at hb
  | node n ks' hb hl hk ih =>
    have hb' : isBlockNode (n.withKids ks') = false := by rw [isBlockNode_withKids]; exact hb
    obtain ⟨ks'', hc, hk2⟩ := h2.inv hb'
    rw [Node.kids_withKids n ks' hl] at hk2
    subst hc
    rw [Node.withKids_withKids n ks' ks'' hl (by rw [← hk2.1, hl])]
    refine BR.node n ks'' hb (by rw [← hk2.1, hl]) ?_
    intro i h1 h2
    exact ih i h1 (by omega) (hk2.2 i (by omega) h2)

end IastModel

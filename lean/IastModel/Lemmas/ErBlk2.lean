import IastModel.Lemmas.ErBlk
namespace IastModel
open Node
variable {cfg : Config}

theorem toDdBinary_blk (cfg : Config) (op : String) (l r : Node) (sp : Span) (s : St)
    (hl : blkOk cfg l = true) (hr : blkOk cfg r = true) : ∀ e1, (toDdBinary cfg (.bin op l r sp) s).1 = some e1 → blkOk cfg e1 = true := by
  simp only [toDdBinary, run_bind]
  have h1 := replaceExpr_blk l (getIdentMode r) [] [] sp .expr false s hl rfl rfl
  generalize replaceExpr l (getIdentMode r) [] [] sp .expr false s = R1 at h1 ⊢
  obtain ⟨⟨l1, asg1, args1⟩, s1⟩ := R1
  obtain ⟨a1, a2, a3⟩ := h1
  have h2 := replaceExpr_blk r (getIdentMode l1) asg1 args1 sp .expr false s1 hr a2 a3
  generalize replaceExpr r (getIdentMode l1) asg1 args1 sp .expr false s1 = R2 at h2 ⊢
  obtain ⟨⟨r1, asg2, args2⟩, s2⟩ := R2
  obtain ⟨b1, b2, b3⟩ := h2
  dsimp only at a1 b1 b2 b3 ⊢
  split
  · simp only [run_pure]
    intro e1 he
    simp only [Option.some.injEq] at he
    subst he
    exact blkOk_ddParen _ _ _ _ _ (by simp [a1, b1]) b3 b2
  · simp only [run_pure]; intro e1 he; cases he

theorem toDdTpl_blk (cfg : Config) (es qs : List Node) (sp : Span) (s : St)
    (he : blkOkL cfg es = true) (hq : blkOkL cfg qs = true) : ∀ e1, (toDdTpl cfg (.tpl es qs sp) s).1 = some e1 → blkOk cfg e1 = true := by
  simp only [toDdTpl, run_bind, run_pure]
  have h := replaceTplExprs_blk es [] [] s he rfl rfl
  generalize replaceTplExprs es [] [] s = R at h ⊢
  obtain ⟨⟨xs, asg, args⟩, s1⟩ := R
  obtain ⟨a1, a2, a3⟩ := h
  intro e1 he1
  simp only [Option.some.injEq] at he1
  subst he1
  exact blkOk_ddParen _ _ _ _ _ (by simp only [blkOk_tpl, Bool.and_eq_true]; exact ⟨a1, hq⟩) a3 a2

def Blk2 (cfg : Config) (R : (Node × Node) × St) : Prop := blkOk cfg R.1.1 = true ∧ blkOk cfg R.1.2 = true

theorem hoistTargetPart_blk (e : Node) (sp : Span) (s : St) (he : blkOk cfg e = true) : Blk2 cfg (hoistTargetPart e sp s) := by
  unfold hoistTargetPart Blk2
  simp only [run_bind]
  rcases getTemporalIdent_casesC (seqOperand e) [] sp .expr s with ⟨_, h⟩ | ⟨_, s', h, _⟩
  · rw [h]; simp only [run_pure]; simp [blkOk_seqOperand, he]
  · rw [h]
    simp only [List.nil_append, List.getLast?_singleton, run_pure]
    simp [blkOk_seqOperand, he]

theorem splitComputedKey_blk (csp : Span) (e : Node) (sp : Span) (s : St) (he : blkOk cfg e = true) : Blk2 cfg (splitComputedKey csp e sp s) := by
  unfold splitComputedKey
  simp only [run_bind, run_pure]
  have := hoistTargetPart_blk e sp s he
  simpa [Blk2] using this

theorem splitProp_blk (prop : Node) (sp : Span) (s : St) (hp : blkOk cfg prop = true) : Blk2 cfg (splitProp prop sp s) := by
  unfold splitProp
  split
  · rename_i csp e
    split
    · exact splitComputedKey_blk csp e sp s (by simpa using hp)
    · simp only [run_pure]; exact ⟨hp, hp⟩
  · simp only [run_pure]; exact ⟨hp, hp⟩

theorem splitMemberTarget_blk (sp : Span) : ∀ (left : Node) (s : St), blkOk cfg left = true → Blk2 cfg (splitMemberTarget left sp s) := by
  apply Node.ind
  intro left ih s hl
  unfold splitMemberTarget
  split
  · rename_i obj prop msp
    simp only [blkOk_member, Bool.and_eq_true] at hl
    split
    · simp only [run_bind, run_pure]
      split
      · simp only [run_bind, run_pure]
        have h2 := splitProp_blk prop sp s hl.2
        simpa [Blk2, hl.1] using h2
      · simp only [run_bind, run_pure]
        have h1 := hoistTargetPart_blk obj sp s hl.1
        have h2 := splitProp_blk prop sp (hoistTargetPart obj sp s).2 hl.2
        simp only [Blk2] at h1 h2 ⊢
        simp [h1.1, h1.2, h2.1, h2.2]
    · simp only [run_pure]; exact ⟨by simp [hl.1, hl.2], by simp [hl.1, hl.2]⟩
  · rename_i ssp sup prop
    simp only [blkOk_other, blkOkL_cons, blkOkL_nil, Bool.and_true, Bool.and_eq_true] at hl
    split
    · simp only [run_bind, run_pure]
      have h2 := splitProp_blk prop sp s hl.2
      simp only [Blk2] at h2 ⊢
      simp [hl.1, h2.1, h2.2]
    · simp only [run_pure]; exact ⟨by simp [hl.1, hl.2], by simp [hl.1, hl.2]⟩
  · rename_i inner psp
    split
    · simp only [run_bind, run_pure]
      have := ih inner (by simp [kids]) s (by simpa using hl)
      simp only [Blk2] at this ⊢
      simp [this.1, this.2]
    · simp only [run_pure]; exact ⟨hl, hl⟩
  · simp only [run_pure]; exact ⟨hl, hl⟩

theorem toDdAssign_blk (cfg : Config) (op : String) (l r : Node) (sp : Span) (s : St)
    (hl : blkOk cfg l = true) (hr : blkOk cfg r = true) : ∀ e1, (toDdAssign cfg (.assign op l r sp) s).1 = some e1 → blkOk cfg e1 = true := by
  simp only [toDdAssign]
  split
  · simp only [run_pure]; intro e1 he; cases he
  · simp only [run_bind]
    have h1 := splitMemberTarget_blk sp l s hl
    generalize splitMemberTarget l sp s = R1 at h1 ⊢
    obtain ⟨⟨target, operand⟩, s1⟩ := R1
    obtain ⟨a1, a2⟩ := h1
    dsimp only at a1 a2 ⊢
    have h2 := toDdBinary_blk cfg "+" operand (assignRhs r) sp s1 a2 (by rw [blkOk_assignRhs]; exact hr)
    generalize toDdBinary cfg (.bin "+" operand (assignRhs r) sp) s1 = R2 at h2 ⊢
    obtain ⟨res, s2⟩ := R2
    cases res with
    | none => simp only [run_pure]; intro e1 he; cases he
    | some e' =>
      simp only [run_pure]
      intro e1 he
      simp only [Option.some.injEq] at he
      subst he
      simp [a1, h2 e' rfl]

theorem replaceCallCalleeAndArgs_blk (callee : Node) (cargs : List Node) (csp : Span) (ic : Option Node) (asg args : List Node)
    (coa : Option String) (s : St) (hc : blkOk cfg callee = true) (hic : ∀ i, ic = some i → blkOk cfg i = true)
    (hca : blkOkL cfg cargs = true) (ha : blkOkL cfg asg = true) (hg : blkOkL cfg args = true) :
    Blk3 cfg (replaceCallCalleeAndArgs callee cargs csp ic asg args coa s) := by
  unfold replaceCallCalleeAndArgs
  simp only [run_bind, run_pure]
  have h := replaceArgs_blk .replace csp (coa.getD Generated.callMethodName == Generated.applyMethodName) cargs asg args s hca ha hg
  obtain ⟨a1, a2, a3⟩ := h
  refine ⟨?_, a2, a3⟩
  simp only [blkOk_call, Bool.and_eq_true]
  refine ⟨?_, a1⟩
  cases ic with
  | none => exact hc
  | some i => simp [hic i rfl]

theorem insertThis_blk (c this : Node) (hc : blkOk cfg c = true) (ht : blkOk cfg this = true) : blkOk cfg (insertThis c this) = true := by
  unfold insertThis
  split
  · simp only [blkOk_call, Bool.and_eq_true] at hc ⊢
    exact ⟨hc.1, by simp [ht, hc.2]⟩
  · exact hc

theorem callTail_blk (csi : CsiMethod) (expr : Node) (method : String) (msp : Span) (callee : Node) (cargs : List Node)
    (csp : Span) (mo : Option Node) (coa : Option String) (idR : Node) (asg0 : List Node) (s0 : St)
    (he : blkOk cfg expr = true) (hc : blkOk cfg callee = true) (hca : blkOkL cfg cargs = true) (hmo : ∀ m, mo = some m → blkOk cfg m = true)
    (hidR : blkOk cfg idR = true) (h0 : blkOkL cfg asg0 = true) :
    ∀ e1 tag, (callTail csi expr method msp callee cargs csp mo coa idR asg0 s0).1 = some (e1, tag) → blkOk cfg e1 = true := by
  unfold callTail
  cases mo with
  | none =>
    simp only [run_bind, run_pure]
    have hme : blkOk cfg (Node.member idR (.pname method msp) csp) = true := by simp [hidR]
    have h1 := getIdentUsed_blk (Node.member idR (.pname method msp) csp) asg0 [] csp .expr s0 hme h0 rfl
    generalize getIdentUsed (Node.member idR (.pname method msp) csp) asg0 [] csp .expr s0 = R1 at h1 ⊢
    obtain ⟨⟨ic, asg1, args1⟩, s1⟩ := R1
    dsimp only at h1 ⊢
    have h2 := replaceCallCalleeAndArgs_blk callee cargs csp (some (match ic with | some n => tempIdent n | none => expr))
      asg1 (args1 ++ [.arg none idR]) coa s1 hc (by intro i hi; cases hi; cases ic <;> simp [he]) hca h1.1 (by simp [h1.2, hidR])
    generalize replaceCallCalleeAndArgs callee cargs csp (some (match ic with | some n => tempIdent n | none => expr))
      asg1 (args1 ++ [.arg none idR]) coa s1 = R2 at h2 ⊢
    obtain ⟨⟨cr, asg3, args3⟩, s3⟩ := R2
    obtain ⟨b1, b2, b3⟩ := h2
    intro e1 tag h
    simp only [Option.some.injEq, Prod.mk.injEq] at h
    obtain ⟨rfl, -⟩ := h
    exact blkOk_ddParen _ _ _ _ _ (insertThis_blk _ _ b1 hidR) b3 b2
  | some m =>
    simp only [run_bind, run_pure]
    have hme : blkOk cfg m = true := hmo m rfl
    have h1 := getIdentUsed_blk m asg0 [] csp .expr s0 hme h0 rfl
    generalize getIdentUsed m asg0 [] csp .expr s0 = R1 at h1 ⊢
    obtain ⟨⟨ic, asg1, args1⟩, s1⟩ := R1
    dsimp only at h1 ⊢
    have h2 := replaceCallCalleeAndArgs_blk callee cargs csp (some (match ic with | some n => tempIdent n | none => expr))
      asg1 (args1 ++ [.arg none idR]) coa s1 hc (by intro i hi; cases hi; cases ic <;> simp [he]) hca h1.1 (by simp [h1.2, hidR])
    generalize replaceCallCalleeAndArgs callee cargs csp (some (match ic with | some n => tempIdent n | none => expr))
      asg1 (args1 ++ [.arg none idR]) coa s1 = R2 at h2 ⊢
    obtain ⟨⟨cr, asg3, args3⟩, s3⟩ := R2
    obtain ⟨b1, b2, b3⟩ := h2
    intro e1 tag h
    simp only [Option.some.injEq, Prod.mk.injEq] at h
    obtain ⟨rfl, -⟩ := h
    exact blkOk_ddParen _ _ _ _ _ (insertThis_blk _ _ b1 hidR) b3 b2

theorem replaceCallWithMember_blk (cfg : Config) (expr : Node) (method : String) (msp : Span) (callee : Node) (cargs : List Node)
    (csp : Span) (mo : Option Node) (coa : Option String) (s : St)
    (he : blkOk cfg expr = true) (hc : blkOk cfg callee = true) (hca : blkOkL cfg cargs = true) (hmo : ∀ m, mo = some m → blkOk cfg m = true) :
    ∀ e1 tag, (replaceCallWithMember cfg expr method msp callee cargs csp mo coa s).1 = some (e1, tag) → blkOk cfg e1 = true := by
  rw [replaceCallWithMember_eq]
  cases cfg.get method with
  | none => intro e1 tag h; cases h
  | some csi =>
    simp only
    rcases getTemporalIdent_casesC expr [] csp .expr s with ⟨_, h⟩ | ⟨_, s0, h, _⟩
    · rw [h]
      exact callTail_blk csi expr method msp callee cargs csp mo coa expr [] s he hc hca hmo he rfl
    · rw [h]
      exact callTail_blk csi expr method msp callee cargs csp mo coa (tempIdent s.counter) _ s0 he hc hca hmo (by simp) (by simp [he])

theorem replaceCallSpread_blk (cfg : Config) (method : String) (callee : Node) (cargs : List Node) (csp : Span) (me : Node)
    (coa : String) (s : St) (hc : blkOk cfg callee = true) (hca : blkOkL cfg cargs = true) (hme : blkOk cfg me = true) :
    ∀ e1 tag, (replaceCallSpreadWithMember cfg method callee cargs csp me coa s).1 = some (e1, tag) → blkOk cfg e1 = true := by
  unfold replaceCallSpreadWithMember
  cases cfg.get method with
  | none => simp only [run_pure]; intro e1 tag h; cases h
  | some csi =>
    simp only [run_bind]
    have h1 := getIdentUsed_blk me [] [] csp .expr s hme rfl rfl
    generalize getIdentUsed me [] [] csp .expr s = R1 at h1 ⊢
    obtain ⟨⟨ic, asg1, args1⟩, s1⟩ := R1
    dsimp only at h1 ⊢
    cases ic with
    | none => simp only [run_pure]; intro e1 tag h; cases h
    | some n =>
      simp only [run_bind, run_pure]
      have h2 := replaceCallCalleeAndArgs_blk callee cargs csp (some (tempIdent n)) asg1 args1 (some coa) s1 hc
        (by intro i hi; cases hi; simp) hca h1.1 h1.2
      generalize replaceCallCalleeAndArgs callee cargs csp (some (tempIdent n)) asg1 args1 (some coa) s1 = R2 at h2 ⊢
      obtain ⟨⟨cr, asg3, args3⟩, s3⟩ := R2
      obtain ⟨b1, b2, b3⟩ := h2
      intro e1 tag h
      simp only [Option.some.injEq, Prod.mk.injEq] at h
      obtain ⟨rfl, -⟩ := h
      exact blkOk_ddParen _ _ _ _ _ b1 b3 b2

theorem replaceCallWithoutCallee_blk (cfg : Config) (name : Name) (isp : Span) (callee : Node) (cargs : List Node) (csp : Span) (s : St)
    (hc : blkOk cfg callee = true) (hca : blkOkL cfg cargs = true) :
    ∀ e1 tag, (replaceCallWithoutCallee cfg name isp callee cargs csp s).1 = some (e1, tag) → blkOk cfg e1 = true := by
  unfold replaceCallWithoutCallee
  cases name with
  | temp k => simp only [run_pure]; intro e1 tag h; cases h
  | user method =>
    simp only
    cases cfg.get method with
    | none => simp only [run_pure]; intro e1 tag h; cases h
    | some csi =>
      simp only
      split
      · simp only [run_bind, run_pure]
        have h2 := replaceCallCalleeAndArgs_blk callee cargs csp none []
          [Node.arg none (.ident (.user method) isp), .arg none (.ident (.user "undefined") csp)] none s hc
          (by intro i hi; cases hi) hca rfl (by simp)
        generalize replaceCallCalleeAndArgs callee cargs csp none []
          [Node.arg none (.ident (.user method) isp), .arg none (.ident (.user "undefined") csp)] none s = R2 at h2 ⊢
        obtain ⟨⟨cr, asg3, args3⟩, s3⟩ := R2
        obtain ⟨b1, b2, b3⟩ := h2
        intro e1 tag h
        simp only [Option.some.injEq, Prod.mk.injEq] at h
        obtain ⟨rfl, -⟩ := h
        exact blkOk_ddParen _ _ _ _ _ b1 b3 b2
      · simp only [run_pure]; intro e1 tag h; cases h

theorem blkOk_argExpr {a : Node} (h : blkOk cfg a = true) : blkOk cfg (argExpr a) = true := by
  cases a <;> first | exact h | simpa [argExpr] using h

theorem replacePrototype_blk (cfg : Config) (cargs : List Node) (csp : Span) (callee member : Node) (coa : String) (s : St)
    (hc : blkOk cfg callee = true) (hca : blkOkL cfg cargs = true) (hm : blkOk cfg member = true) :
    ∀ e1 tag, (replacePrototypeCallOrApply cfg cargs csp callee member coa s).1 = some (e1, tag) → blkOk cfg e1 = true := by
  unfold replacePrototypeCallOrApply
  split
  · simp only [run_pure]; intro e1 tag h; cases h
  · cases hpm : prototypeMethodIdent member with
    | none => simp only [run_pure]; intro e1 tag h; cases h
    | some mm =>
      obtain ⟨method, msp⟩ := mm
      simp only
      cases cargs with
      | nil => simp only [run_pure]; intro e1 tag h; cases h
      | cons this rest =>
        simp only [blkOkL_cons, Bool.and_eq_true] at hca
        simp only
        split
        · exact replaceCallSpread_blk cfg method callee (this :: rest) csp member coa s hc (by simp [hca.1, hca.2]) hm
        · split
          · simp only [run_pure]; intro e1 tag h; cases h
          · by_cases hcnd : ((argExpr this).isLit && (!cfg.allowsLiteralCallers method || allArgsAreLiteral rest)) = true
            · rw [if_pos hcnd]; simp only [run_pure]; intro e1 tag h; cases h
            · rw [if_neg hcnd]
              exact replaceCallWithMember_blk cfg (argExpr this) method msp _ rest csp (some member) (some coa) s
                (blkOk_argExpr hca.1) (by simp [blkOk_argExpr hca.1]) hca.2 (by intro m hm'; cases hm'; exact hm)

theorem toDdCall_blk (cfg : Config) (c : Node) (as : List Node) (csp : Span) (s : St)
    (hc : blkOk cfg c = true) (ha : blkOkL cfg as = true) :
    ∀ e1 tag, (toDdCall cfg (.call c as csp) s).1 = some (e1, tag) → blkOk cfg e1 = true := by
  have none_case : ∀ e1 tag, ((none : Option (Node × String)), s).1 = some (e1, tag) → blkOk cfg e1 = true := by
    intro e1 tag h; cases h
  cases c with
  | member obj prop cs =>
    have hobj : blkOk cfg obj = true := blkOk_kids hc obj (by simp [kids])
    cases prop with
    | pname m msp =>
      have plain := replaceCallWithMember_blk cfg obj m msp (.member obj (.pname m msp) cs) as csp none none s hobj hc ha
        (by intro x hx; cases hx)
      cases obj with
      | lit k v r lsp =>
        simp only [toDdCall]
        split
        · exact plain
        · exact none_case
      | ident nm isp => simp only [toDdCall]; exact plain
      | call c2 as2 sp2 => simp only [toDdCall]; exact plain
      | paren e psp => simp only [toDdCall]; exact plain
      | array es asp => simp only [toDdCall]; exact plain
      | member o' p' sp' =>
        simp only [toDdCall]
        split
        · exact replacePrototype_blk cfg as csp _ _ m s hc ha hobj
        · split
          · exact plain
          · exact none_case
      | _ => simp only [toDdCall]; exact none_case
    | _ => simp only [toDdCall]; exact none_case
  | ident nm isp =>
    simp only [toDdCall]
    exact replaceCallWithoutCallee_blk cfg nm isp _ as csp s hc ha
  | _ => simp only [toDdCall]; exact none_case

end IastModel

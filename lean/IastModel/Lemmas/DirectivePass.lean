import IastModel.Lemmas.ExprStmt
import IastModel.Lemmas.Master
import IastModel.Spec.Directives
namespace IastModel
open Node

theorem isDirective_eq (n : Node) : isDirective n = isDirectiveStmt n := by
  unfold isDirectiveStmt
  cases n with
  | exprStmt e sp =>
    cases e with
    | lit k v r lsp =>
      by_cases hk : k = "StringLiteral"
      · subst hk; rfl
      · simp [isDirective, directiveRaw?, hk]
    | _ => rfl
  | _ => rfl


theorem takeWhile_insert {α} (p : α → Bool) (l xs : List α) (hx : ∀ x, xs.head? = some x → p x = false) :
    (l.take (l.takeWhile p).length ++ xs ++ l.drop (l.takeWhile p).length).takeWhile p = l.takeWhile p := by
  induction l with
  | nil =>
    cases xs with
    | nil => simp
    | cons x xs => simp [List.takeWhile_cons, hx x rfl]
  | cons a l ih =>
    by_cases ha : p a = true
    · simp [List.takeWhile_cons, ha]
      simpa using ih
    · have ha' : p a = false := by simpa using ha
      simp [List.takeWhile_cons, ha']
      cases xs with
      | nil => simp [List.takeWhile_cons, ha']
      | cons x xs => simp [List.takeWhile_cons, hx x rfl]



theorem isDirective_isES {x : Node} (h : isDirective x = true) : isES x = true := by
  cases x <;> simp_all [isDirective, isES]

/-- a visitor-like function leaves the directive prologue of a statement list alone when it returns
    directives unchanged and never turns anything else into a directive -/
theorem takeWhile_mapM' (g : Node → M Node)
    (h1 : ∀ x s, isDirective x = true → (g x s).1 = x)
    (h2 : ∀ x s, isDirective x = false → isDirective (g x s).1 = false) :
    ∀ (xs : List Node) (s : St), (mapM' g xs s).1.takeWhile isDirective = xs.takeWhile isDirective := by
  intro xs
  induction xs with
  | nil => intro s; rfl
  | cons x xs ih =>
    intro s
    simp only [mapM', run_bind, run_pure]
    by_cases hd : isDirective x = true
    · rw [List.takeWhile_cons, List.takeWhile_cons, h1 x s hd, hd]
      simp only [if_true]
      rw [ih]
    · simp only [Bool.not_eq_true] at hd
      rw [List.takeWhile_cons, List.takeWhile_cons, h2 x s hd, hd]
      simp

theorem visit_directive (cfg : Config) (f : Nat) (root : Bool) (x : Node) (s : St) (h : isDirective x = true) :
    (visit cfg f root x s).1 = x := by
  cases x with
  | exprStmt e esp =>
    cases e with
    | lit k v r lsp =>
      cases f with
      | zero => simp [visit, run_bind, run_pure]
      | succ f =>
        simp only [visit, mapKidsM, kids, mapM', run_bind, run_pure, withKids, List.getD_cons_zero]
        rw [(visit_leaf cfg f root (.lit k v r lsp) s).2 rfl]
    | _ => simp [isDirective] at h
  | _ => simp [isDirective] at h

theorem visit_exprStmt (cfg : Config) (f : Nat) (root : Bool) (e : Node) (esp : Span) (s : St) :
    (visit cfg (f + 1) root (.exprStmt e esp) s).1 = .exprStmt (visit cfg f root e s).1 esp := by
  simp only [visit, mapKidsM, kids, mapM', run_bind, run_pure, withKids, List.getD_cons_zero]

theorem isDirective_exprStmt_leaf {e : Node} {esp : Span} (h : isDirective (.exprStmt e esp) = true) : leaf e = true := by
  cases e <;> simp_all [isDirective, leaf, Node.isLit]

theorem visit_not_directive (cfg : Config) (f : Nat) (root : Bool) (x : Node) (s : St) (h : isDirective x = false) :
    isDirective (visit cfg f root x s).1 = false := by
  by_cases hes : isES x = true
  · cases x with
    | exprStmt e esp =>
      cases f with
      | zero => simpa [visit, run_bind, run_pure] using h
      | succ f =>
        rw [visit_exprStmt]
        cases hd : isDirective (.exprStmt (visit cfg f root e s).1 esp) with
        | false => rfl
        | true =>
          exfalso
          have hl' := isDirective_exprStmt_leaf hd
          have hl : leaf e = true := by
            cases hle : leaf e with
            | true => rfl
            | false => rw [(visit_leaf cfg f root e s).1 hle] at hl'; cases hl'
          rw [(visit_leaf cfg f root e s).2 hl] at hd
          rw [hd] at h; cases h
    | _ => simp [isES] at hes
  · simp only [Bool.not_eq_true] at hes
    have := visit_es cfg f root x s hes
    cases hd : isDirective (visit cfg f root x s).1 with
    | false => rfl
    | true => rw [isDirective_isES hd] at this; cases this

end IastModel

namespace IastModel
open Node

theorem isLit_withKids (n : Node) (ks : List Node) : (n.withKids ks).isLit = n.isLit := by
  cases n <;> rfl

/-- the block visitor returns a block for a block -/
theorem blockVisit_isBlock (cfg : Config) (opFuel f : Nat) (ss : List Node) (sp : Span) (s : St) :
    ∃ ss', (blockVisit cfg opFuel f (.block ss sp) s).1 = .block ss' sp := by
  cases f with
  | zero => exact ⟨ss, by simp [blockVisit, run_bind, run_pure]⟩
  | succ f =>
    by_cases hc : s.status = .cancelled
    · exact ⟨ss, by simp [blockVisit, run_bind, run_get, run_pure, hc]⟩
    · rw [blockVisit_block cfg opFuel f ss sp s hc]
      have hn1 : ∀ s0, ∃ ks, (mapKidsM mapM' (visit cfg opFuel true) (.block ss sp) s0).1 = .block ks sp := by
        intro s0; exact ⟨(mapM' (visit cfg opFuel true) ss s0).1, by simp [mapKidsM, run_bind, run_pure, withKids, kids]⟩
      obtain ⟨ks, hks⟩ := hn1 (resetProvider s)
      split
      · exact ⟨ks, hks⟩
      · rw [hks]
        have : ∃ ks2, insertVariableDeclaration (mapKidsM mapM' (visit cfg opFuel true) (.block ss sp) (resetProvider s)).2.idents (.block ks sp) = .block ks2 sp := by
          simp only [insertVariableDeclaration]
          by_cases he : (mapKidsM mapM' (visit cfg opFuel true) (.block ss sp) (resetProvider s)).2.idents.isEmpty = true
          · exact ⟨ks, by simp only [he, if_true]⟩
          · exact ⟨insertAt ks (variableInsertionIndex ks) [letDecl (mapKidsM mapM' (visit cfg opFuel true) (.block ss sp) (resetProvider s)).2.idents sp], by simp only [he, Bool.false_eq_true, if_false]⟩
        obtain ⟨ks2, h2⟩ := this
        rw [h2]
        exact ⟨(mapM' (blockVisit cfg opFuel f) ks2 (mapKidsM mapM' (visit cfg opFuel true) (.block ss sp) (resetProvider s)).2).1,
          by simp [mapKidsM, run_bind, run_pure, withKids, kids]⟩

theorem blockVisit_isLit (cfg : Config) (opFuel f : Nat) (e : Node) (s : St)
    (h : (blockVisit cfg opFuel f e s).1.isLit = true) : (blockVisit cfg opFuel f e s).1 = e := by
  cases f with
  | zero => simp [blockVisit, run_bind, run_pure]
  | succ f =>
    by_cases hb : isBlockNode e = true
    · cases e with
      | block ss sp =>
        obtain ⟨ss', h'⟩ := blockVisit_isBlock cfg opFuel (f + 1) ss sp s
        rw [h'] at h; simp [Node.isLit] at h
      | _ => simp [isBlockNode] at hb
    · simp only [Bool.not_eq_true] at hb
      rw [blockVisit_generic cfg opFuel f e hb] at h
      simp only [mapKidsM, run_bind, run_pure, isLit_withKids] at h
      have hk : e.kids = [] := by cases e <;> simp_all [Node.isLit, kids]
      exact (blockVisit_nokids cfg opFuel (f + 1) e s hk hb).1

theorem blockVisit_directive (cfg : Config) (opFuel f : Nat) (x : Node) (s : St) (h : isDirective x = true) :
    (blockVisit cfg opFuel f x s).1 = x := by
  cases x with
  | exprStmt e esp =>
    cases e with
    | lit k v r lsp =>
      cases f with
      | zero => simp [blockVisit, run_bind, run_pure]
      | succ f =>
        rw [blockVisit_generic cfg opFuel f _ rfl]
        simp only [mapKidsM, kids, mapM', run_bind, run_pure, withKids, List.getD_cons_zero]
        rw [(blockVisit_nokids cfg opFuel f (.lit k v r lsp) s rfl rfl).1]
    | _ => simp [isDirective] at h
  | _ => simp [isDirective] at h

theorem blockVisit_not_directive (cfg : Config) (opFuel f : Nat) (x : Node) (s : St) (h : isDirective x = false) :
    isDirective (blockVisit cfg opFuel f x s).1 = false := by
  cases f with
  | zero => simpa [blockVisit, run_bind, run_pure] using h
  | succ f =>
    by_cases hb : isBlockNode x = true
    · cases x with
      | block ss sp =>
        obtain ⟨ss', h'⟩ := blockVisit_isBlock cfg opFuel (f + 1) ss sp s
        rw [h']; rfl
      | _ => simp [isBlockNode] at hb
    · simp only [Bool.not_eq_true] at hb
      cases x with
      | exprStmt e esp =>
        rw [blockVisit_generic cfg opFuel f _ rfl]
        simp only [mapKidsM, kids, mapM', run_bind, run_pure, withKids, List.getD_cons_zero]
        cases hd : isDirective (.exprStmt (blockVisit cfg opFuel f e s).1 esp) with
        | false => rfl
        | true =>
          exfalso
          have hl : (blockVisit cfg opFuel f e s).1.isLit = true := by
            generalize (blockVisit cfg opFuel f e s).1 = e' at hd
            cases e' <;> simp_all [isDirective, Node.isLit]
          rw [blockVisit_isLit cfg opFuel f e s hl] at hd
          rw [hd] at h; cases h
      | _ =>
        rw [blockVisit_generic cfg opFuel f _ hb]
        simp [mapKidsM, run_bind, run_pure, withKids, isDirective]

/-- **C07, per block, through the whole pass.**  Whatever block statement the block visitor enters —
    a function body or any other block, at any depth — it returns a block whose leading directives
    are exactly the original statements: the operation visitor returns a directive as it is and never
    makes one, the `let` goes after the whole directive prologue, and the nested traversal leaves
    directives alone. -/
theorem block_directives_pass (cfg : Config) (opFuel f : Nat) (ss : List Node) (sp : Span) (s : St) :
    ∃ ss', (blockVisit cfg opFuel f (.block ss sp) s).1 = .block ss' sp ∧
      ss'.takeWhile isDirective = ss.takeWhile isDirective := by
  cases f with
  | zero => exact ⟨ss, by simp [blockVisit, run_bind, run_pure], rfl⟩
  | succ f =>
    by_cases hc : s.status = .cancelled
    · exact ⟨ss, by simp [blockVisit, run_bind, run_get, run_pure, hc], rfl⟩
    · rw [blockVisit_block cfg opFuel f ss sp s hc]
      have hv := takeWhile_mapM' (visit cfg opFuel true)
        (fun x s h => visit_directive cfg opFuel true x s h)
        (fun x s h => visit_not_directive cfg opFuel true x s h) ss (resetProvider s)
      have hn1 : (mapKidsM mapM' (visit cfg opFuel true) (.block ss sp) (resetProvider s)).1 =
          .block (mapM' (visit cfg opFuel true) ss (resetProvider s)).1 sp := by
        simp [mapKidsM, run_bind, run_pure, withKids, kids]
      generalize hK : mapKidsM mapM' (visit cfg opFuel true) (.block ss sp) (resetProvider s) = K at hn1
      obtain ⟨n1, s1⟩ := K
      simp only at hn1 ⊢
      generalize (mapM' (visit cfg opFuel true) ss (resetProvider s)).1 = ks at hv hn1
      subst hn1
      split
      · exact ⟨ks, rfl, hv⟩
      · have hins : ∃ ks2, insertVariableDeclaration s1.idents (.block ks sp) = .block ks2 sp ∧
            ks2.takeWhile isDirective = ks.takeWhile isDirective := by
          simp only [insertVariableDeclaration]
          by_cases he : s1.idents.isEmpty = true
          · exact ⟨ks, by simp only [he, if_true], rfl⟩
          · refine ⟨insertAt ks (variableInsertionIndex ks) [letDecl s1.idents sp], by simp only [he, Bool.false_eq_true, if_false], ?_⟩
            unfold insertAt variableInsertionIndex
            exact takeWhile_insert isDirective ks [letDecl s1.idents sp] (by intro x hx; simp at hx; subst hx; rfl)
        obtain ⟨ks2, h2, hd2⟩ := hins
        rw [h2]
        have hb := takeWhile_mapM' (blockVisit cfg opFuel f)
          (fun x s h => blockVisit_directive cfg opFuel f x s h)
          (fun x s h => blockVisit_not_directive cfg opFuel f x s h) ks2 s1
        refine ⟨(mapM' (blockVisit cfg opFuel f) ks2 s1).1, by simp [mapKidsM, run_bind, run_pure, withKids, kids], ?_⟩
        rw [hb, hd2, hv]

end IastModel

namespace IastModel
open Node

theorem isDirective_funext : isDirective = isDirectiveStmt := by
  funext n; exact isDirective_eq n

theorem directivesOf_congr {a b : List Node} (h : a.takeWhile isDirective = b.takeWhile isDirective) :
    directivesOf a = directivesOf b := by
  unfold directivesOf
  rw [← isDirective_funext, h]

theorem blockVisit_arr (cfg : Config) (opFuel f : Nat) (body : List Node) (s : St) :
    ∃ body', (blockVisit cfg opFuel f (.arr body) s).1 = .arr body' ∧
      body'.takeWhile isDirective = body.takeWhile isDirective := by
  cases f with
  | zero => exact ⟨body, by simp [blockVisit, run_bind, run_pure], rfl⟩
  | succ f =>
    rw [blockVisit_generic cfg opFuel f _ rfl]
    refine ⟨(mapM' (blockVisit cfg opFuel f) body s).1, by simp [mapKidsM, run_bind, run_pure, withKids, kids], ?_⟩
    exact takeWhile_mapM' (blockVisit cfg opFuel f)
      (fun x s h => blockVisit_directive cfg opFuel f x s h)
      (fun x s h => blockVisit_not_directive cfg opFuel f x s h) body s

end IastModel

import IastModel.Lemmas.ErCall3
namespace IastModel
open Node

theorem resolveCall_spread (F : Node) (ca : String) (casp msp : Span) (s0 : Span) (x : Node) (Xs : List Node) (sp : Span) :
    resolveCall F ca casp msp (.arg (some s0) x :: Xs) sp = .call (.member F (.pname ca casp) msp) (.arg (some s0) x :: Xs) sp := by
  unfold resolveCall
  split <;> rfl

/-- `replace_call_spread_if_csi_method_with_member`: `X.prototype.m.call(...args)` -/
theorem replaceCallSpread_Er (cfg : Config) (cx : Cx) (lo hi : Nat) (member' memberSrc : Node) (method : String)
    (callee' : Node) (cargs' cargs : List Node) (csp : Span) (p2 : Node) (cs2 : Span) (ca : String) (s : St)
    (hw : HypW cx hi s) (hlo : lo ≤ s.counter)
    (hp2 : strip p2 = .pname ca Span.dummy)
    (hm : Er cx lo hi member' memberSrc)
    (ha : Forall2 (fun a' a => Er cx lo hi a' a ∧ DeepEr cx lo hi a' a) cargs' cargs)
    (hsp : ∃ s0 e0 tl, cargs = .arg (some s0) e0 :: tl) :
    s.counter ≤ (replaceCallSpreadWithMember cfg method callee' cargs' csp member' ca s).2.counter ∧
    ∀ e1 tag, (replaceCallSpreadWithMember cfg method callee' cargs' csp member' ca s).1 = some (e1, tag) →
      Er cx lo (replaceCallSpreadWithMember cfg method callee' cargs' csp member' ca s).2.counter e1
        (.call (.member memberSrc p2 cs2) cargs csp) := by
  unfold replaceCallSpreadWithMember
  cases cfg.get method with
  | none => simp only [run_pure]; exact ⟨Nat.le_refl _, by intro e1 tag he; cases he⟩
  | some csi =>
    simp only [run_bind]
    rcases getIdentUsed_casesC member' [] [] csp .expr s with ⟨hl, h1⟩ | ⟨_, s1, h1, c1⟩
    · rw [h1]; simp only [run_pure]; exact ⟨Nat.le_refl _, by intro e1 tag he; cases he⟩
    · rw [h1]
      simp only [run_bind, run_pure]
      have hw1 : HypW cx hi s1 := hw.mono (by omega)
      have hL := replaceArgs_Er cx lo hi .replace csp (ca == Generated.applyMethodName) cargs' cargs
        ([] ++ [.assign "=" (tempIdent s.counter) (assignRight member' .expr) csp])
        ([] ++ [exprOrSpread (tempIdent s.counter) .expr]) s1 hw1 ha
      unfold replaceCallCalleeAndArgs
      simp only [run_bind, run_pure, Option.getD_some]
      generalize replaceArgs .replace csp (ca == Generated.applyMethodName) cargs'
        ([] ++ [.assign "=" (tempIdent s.counter) (assignRight member' .expr) csp])
        ([] ++ [exprOrSpread (tempIdent s.counter) .expr]) s1 = RA at hL ⊢
      obtain ⟨⟨xs, asg3, args3⟩, s3⟩ := RA
      obtain ⟨new, more, ea, eg, ta, inn, nb, c3, A, B⟩ := hL
      dsimp only at ea eg c3 A B ⊢
      refine ⟨by omega, ?_⟩
      intro e1 tag he
      simp only [Option.some.injEq, Prod.mk.injEq] at he
      obtain ⟨rfl, -⟩ := he
      subst ea eg
      have hnbArgs : noBlkL ([] ++ [exprOrSpread (tempIdent s.counter) .expr] ++ more) = true := by
        simp [noBlk_exprOrSpreadE .expr (noBlk_tempIdentE _), nb]
      intro m hbr σ hσ
      obtain ⟨first'', asg3'', rfl, hfirst, hasg⟩ := ddParen_BRg_inv hbr hnbArgs
      obtain ⟨c'', xs'', rfl, hcc, hxs⟩ := hfirst.call_inv
      rw [BRg_noBlk (noBlk_memberE (noBlk_tempIdentE _) (noBlk_pnameE _ _)) hcc]
      obtain ⟨k1, new'', rfl, hk1, hnew⟩ := BRgL.append_inv hasg
      simp only [List.nil_append] at hk1
      obtain ⟨am'', rfl, ham⟩ := BRgL.single_inv hk1
      obtain ⟨member'', rfl, hmem''⟩ := tempAssign_BRg_inv ham
      obtain ⟨F, Δm, eF, sF, wF⟩ := hm member'' hmem'' σ hσ
      have hmem : eraseAsg σ [.assign "=" (tempIdent s.counter) (assignRight member'' .expr) csp]
          = (s.counter, F) :: (Δm ++ σ) := by
        simp only [eraseAsg]
        rw [erase_tempAssign]
        obtain ⟨a, b⟩ := erase_assignRight σ (Δm ++ σ) member'' F .expr eF sF.2.2
        rw [a, b]
      have hσ1 : cx.ext ((s.counter, F) :: (Δm ++ σ)) := by
        have : ((s.counter, F) :: (Δm ++ σ)) = ([(s.counter, F)] ++ Δm) ++ σ := by simp
        rw [this]
        refine Cx.ext_append hσ ?_
        refine AvoidP.append ?_ (wF.avoidP hw.h1)
        intro p hp hb
        simp only [List.mem_singleton] at hp
        subst hp
        have := hw.h2 _ hb
        dsimp only at this
        omega
      obtain ⟨Δa, eA, wA⟩ := A new'' hnew _ hσ1
      obtain ⟨Xs, Δ3, eXs, sXs, wXs⟩ := B new'' xs'' hnew hxs _ [] hσ1 (Avoid.nil _ _) (AvoidP.nil _)
      simp only [List.nil_append] at eXs
      have hall : AllTA ([.assign "=" (tempIdent s.counter) (assignRight member'' .expr) csp] ++ new'') := by
        refine AllTA.append ?_ (ta.BRg hnew)
        intro a ha'
        simp only [List.mem_singleton] at ha'
        subst ha'
        simp [isTempAssign, tempIdent]
      have hinert : InertL ([] ++ [exprOrSpread (tempIdent s.counter) .expr] ++ more) := by
        refine InertL.append ?_ inn
        intro a ha'
        simp only [List.nil_append, List.mem_singleton] at ha'
        subst ha'
        exact inert_exprOrSpread _ (inert_temp _ _)
      have henv : eraseAsg σ ([.assign "=" (tempIdent s.counter) (assignRight member'' .expr) csp] ++ new'')
          = Δa ++ ((s.counter, F) :: (Δm ++ σ)) := by
        rw [eraseAsg_append, hmem, eA]
      -- the first erased argument is still a spread
      obtain ⟨s0, e0, tl, hcargs⟩ := hsp
      have hXs : ∃ s0' x0 Xtl, Xs = .arg (some s0') x0 :: Xtl := by
        have hs : stripL Xs = stripL cargs := sXs
        rw [hcargs] at hs
        cases Xs with
        | nil => simp [stripL] at hs
        | cons X0 Xtl =>
          simp only [stripL, List.cons.injEq] at hs
          cases X0 with
          | arg sx x0 =>
            cases sx with
            | none => simp [strip] at hs
            | some s0' => exact ⟨s0', x0, Xtl, rfl⟩
          | _ => simp [strip] at hs
      obtain ⟨s0', x0, Xtl, rfl⟩ := hXs
      refine ⟨.call (.member F (.pname ca csp) csp) (.arg (some s0') x0 :: Xtl) csp,
        Δ3 ++ Δa ++ [(s.counter, F)] ++ Δm, ?_, ?_, ?_⟩
      · rw [erase_ddParen _ _ _ _ _ _ hinert hall, henv]
        have hget1 : Env.get (Δa ++ ((s.counter, F) :: (Δm ++ σ))) s.counter = some F := by
          rw [Env.get_append_of_notin _ _ _ (by
            intro p hp; have := wA p hp; have := hw.h3; omega), Env.get_cons_same]
        simp only [tempIdent]
        rw [erase_call_viaTemp _ _ _ _ _ _ _ _ _ hget1, ← eA, eXs]
        simp only [resolveCall_spread]
        simp [List.append_assoc, eA]
      · refine ⟨?_, Or.inl rfl, noSp_call _ _ _⟩
        simp only [strip]
        rw [sF.1, hp2, show stripL (Node.arg (some s0') x0 :: Xtl) = stripL cargs from sXs]
      · have h3 := hw.h3
        intro p hp
        simp only [List.mem_append, List.mem_singleton] at hp
        rcases hp with ((hp | hp) | hp) | hp
        · have := wXs p hp; omega
        · have := wA p hp; omega
        · subst hp; dsimp only; omega
        · have := wF p hp; omega

/-- `replace_call_expr_if_csi_method_without_callee`: a bare call keeps its callee -/
theorem replaceCallWithoutCallee_Er (cfg : Config) (cx : Cx) (lo hi : Nat) (name : Name) (isp : Span) (callee : Node)
    (cargs' cargs : List Node) (csp : Span) (s : St)
    (hw : HypW cx hi s) (hlo : lo ≤ s.counter)
    (hc : Er cx lo hi (.ident name isp) callee)
    (ha : Forall2 (fun a' a => Er cx lo hi a' a ∧ DeepEr cx lo hi a' a) cargs' cargs) :
    s.counter ≤ (replaceCallWithoutCallee cfg name isp (.ident name isp) cargs' csp s).2.counter ∧
    ∀ e1 tag, (replaceCallWithoutCallee cfg name isp (.ident name isp) cargs' csp s).1 = some (e1, tag) →
      Er cx lo (replaceCallWithoutCallee cfg name isp (.ident name isp) cargs' csp s).2.counter e1 (.call callee cargs csp) := by
  unfold replaceCallWithoutCallee
  cases name with
  | temp k => simp only [run_pure]; exact ⟨Nat.le_refl _, by intro e1 tag he; cases he⟩
  | user method =>
    simp only
    cases cfg.get method with
    | none => simp only [run_pure]; exact ⟨Nat.le_refl _, by intro e1 tag he; cases he⟩
    | some csi =>
      simp only
      split
      · simp only [run_bind, run_pure]
        have hL := replaceArgs_Er cx lo hi .replace csp (Generated.callMethodName == Generated.applyMethodName) cargs' cargs
          [] [Node.arg none (.ident (.user method) isp), .arg none (.ident (.user "undefined") csp)] s hw ha
        unfold replaceCallCalleeAndArgs
        simp only [run_bind, run_pure, Option.getD_none]
        generalize replaceArgs .replace csp (Generated.callMethodName == Generated.applyMethodName) cargs'
          [] [Node.arg none (.ident (.user method) isp), .arg none (.ident (.user "undefined") csp)] s = RA at hL ⊢
        obtain ⟨⟨xs, asg3, args3⟩, s3⟩ := RA
        obtain ⟨new, more, ea, eg, ta, inn, nb, c3, A, B⟩ := hL
        dsimp only at ea eg c3 A B ⊢
        simp only [List.nil_append] at ea
        refine ⟨c3, ?_⟩
        intro e1 tag he
        simp only [Option.some.injEq, Prod.mk.injEq] at he
        obtain ⟨rfl, -⟩ := he
        subst ea eg
        have hnbArgs : noBlkL ([Node.arg none (.ident (.user method) isp), .arg none (.ident (.user "undefined") csp)] ++ more) = true := by
          simp [noBlk_argE (noBlk_identE _ _), nb]
        intro m hbr σ hσ
        obtain ⟨first'', asg'', rfl, hfirst, hasg⟩ := ddParen_BRg_inv hbr hnbArgs
        obtain ⟨c'', xs'', rfl, hcc, hxs⟩ := hfirst.call_inv
        rw [BRg_noBlk (noBlk_identE _ _) hcc]
        obtain ⟨Δa, eA, wA⟩ := A asg'' hasg σ hσ
        have hσa : cx.ext (eraseAsg σ asg'') := by rw [eA]; exact Cx.ext_append hσ (wA.avoidCx hw)
        obtain ⟨Xc, Δc, eC, sC, wC⟩ := hc _ (BRg.refl _) _ hσa
        have hC0 : Xc = .ident (.user method) isp ∧ Δc = [] := by
          simp only [erase] at eC
          have h1 := congrArg Prod.fst eC
          have h2 := congrArg Prod.snd eC
          simp only at h1 h2
          refine ⟨h1.symm, ?_⟩
          have : (Δc ++ eraseAsg σ asg'').length = (eraseAsg σ asg'').length := by rw [← h2]
          simp only [List.length_append] at this
          exact List.eq_nil_of_length_eq_zero (by omega)
        obtain ⟨rfl, rfl⟩ := hC0
        obtain ⟨Xs, Δ3, eXs, sXs, wXs⟩ := B asg'' xs'' hasg hxs σ [] hσ (Avoid.nil _ _) (AvoidP.nil _)
        simp only [List.nil_append] at eXs
        have hinert : InertL ([Node.arg none (.ident (.user method) isp), .arg none (.ident (.user "undefined") csp)] ++ more) := by
          refine InertL.append ?_ inn
          intro a ha'
          simp only [List.mem_cons, List.not_mem_nil, or_false] at ha'
          rcases ha' with rfl | rfl
          · exact inert_arg (inert_user _ _)
          · exact inert_arg (inert_user _ _)
        refine ⟨.call (.ident (.user method) isp) Xs csp, Δ3 ++ Δa, ?_, ?_, ?_⟩
        · rw [erase_ddParen _ _ _ _ _ _ hinert (ta.BRg hasg)]
          rw [erase_call_plain _ _ _ _ (by rfl)]
          simp only [erase]
          rw [eXs, eA]
          simp [List.append_assoc]
        · refine ⟨?_, Or.inl rfl, noSp_call _ _ _⟩
          simp only [strip]
          rw [← sC.1, show stripL Xs = stripL cargs from sXs]
          simp [strip]
        · try dsimp only
          exact (wXs.mono (Nat.le_refl _) (by have := hw.h3; omega)).append (winU_win wA hlo (by have := hw.h3; omega))
      · simp only [run_pure]; exact ⟨Nat.le_refl _, by intro e1 tag he; cases he⟩

end IastModel

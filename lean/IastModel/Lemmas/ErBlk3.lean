import IastModel.Lemmas.ErBlk2
namespace IastModel
open Node
variable {cfg : Config}

theorem mapM'_blk (g : Node → M Node) : ∀ (ks : List Node) (s : St), (∀ k ∈ ks, ∀ s, blkOk cfg (g k s).1 = true) →
    blkOkL cfg (mapM' g ks s).1 = true := by
  intro ks
  induction ks with
  | nil => intro s _; rfl
  | cons k ks ih =>
    intro s h
    simp only [mapM', run_bind, run_pure, blkOkL_cons, Bool.and_eq_true]
    exact ⟨h k (by simp) s, ih _ (fun x hx => h x (by simp [hx]))⟩

theorem noOpt_returnStmt {b : Node} (h : noOpt cfg b = true) : noOpt cfg (returnStmt b) = true := by
  rw [noOpt_eq]
  simp [returnStmt, noOptK, kids, h]

theorem Qb_arrowBody {b : Node} (hs : srcOk b = true) (hn : noOpt cfg b = true) : blkOk cfg (.block [returnStmt b] Span.dummy) = true := by
  have h1 : srcOk (.block [returnStmt b] Span.dummy) = true := by
    have hr := srcOk_returnStmt hs
    rw [srcOk_eq]
    simp only [srcNode, srcOkL, kids, dummy_isDummy, if_true, List.all_cons, List.all_nil, Bool.and_true, hr]
    simp [returnStmt]
  have h2 : noOpt cfg (.block [returnStmt b] Span.dummy) = true := by
    rw [noOpt_eq]; simp [noOptK, kids, noOpt_returnStmt hn]
  exact blkOk_src _ h1 h2

/-- every block statement in what the operation visitor returns is a well-formed source block without
    optional chaining -/
theorem visit_blk (cfg : Config) : ∀ (f : Nat) (root : Bool) (n : Node) (s : St), srcOk n = true → noOpt cfg n = true →
    blkOk cfg (visit cfg f root n s).1 = true := by
  intro f
  induction f with
  | zero => intro root n s hs hn; simp only [visit, run_bind, run_pure]; exact blkOk_src n hs hn
  | succ f ih =>
    intro root n s hs hn
    have hsk := srcOk_kids hs
    have hnk := noOpt_kids hn
    have hks : ∀ r s, blkOkL cfg (mapM' (visit cfg f r) n.kids s).1 = true :=
      fun r s => mapM'_blk _ _ s (fun k hk s' => ih r k s' (hsk k hk) (hnk k hk))
    have gen : ∀ r, isBlockNode n = false → blkOk cfg (mapKidsM mapM' (visit cfg f r) n s).1 = true := by
      intro r hb
      rw [mapKidsM_run]
      exact blkOk_withKids n _ hb (mapM'_length _ _ _) (hks r s)
    cases n with
    | ident nm sp => simp [visit, run_bind, run_pure]
    | block ss sp => simp only [visit, run_pure]; exact blkOk_src _ hs hn
    | optChain o b sp =>
      simp only [visit, run_bind]
      obtain ⟨hc1, _⟩ := toDdCond_id cfg f (.optChain o b sp) s hn
      generalize toDdCond cfg f (.optChain o b sp) s = C at hc1 ⊢
      obtain ⟨⟨e', res⟩, s1⟩ := C
      simp only [Prod.mk.injEq] at hc1
      obtain ⟨rfl, rfl⟩ := hc1
      simp only [Option.getD_none]
      rw [finish_fst, mapKidsM_run]
      exact blkOk_withKids _ _ rfl (mapM'_length _ _ _) (hks false s1)
    | arrow ps b at' sp =>
      simp only [visit, run_pure, toDdArrow]
      have hps : blkOkL cfg ps = true := blkOkL_of (fun k hk => blkOk_src k (hsk k (by simp [kids, hk])) (hnk k (by simp [kids, hk])))
      split
      · exact blkOk_src _ hs hn
      · simp only [Option.getD_some, blkOk_arrow, Bool.and_eq_true]
        exact ⟨hps, Qb_arrowBody (hsk b (by simp [kids])) (hnk b (by simp [kids]))⟩
    | unary op a sp =>
      simp only [visit]
      split
      · simp only [run_pure]; exact blkOk_src _ hs hn
      · exact gen root rfl
    | bin op l r sp =>
      simp only [visit]
      split
      · simp only [run_bind]
        rw [mapKidsM_run]
        have hk := hks false s
        simp only [kids] at hk ⊢
        have hlen := mapM'_length (visit cfg f false) [l, r] s
        generalize mapM' (visit cfg f false) [l, r] s = K at hk hlen ⊢
        obtain ⟨ks', s1⟩ := K
        match ks', hlen, hk with
        | [l', r'], _, hk =>
          simp only [blkOkL_cons, blkOkL_nil, Bool.and_true, Bool.and_eq_true] at hk
          simp only [withKids, List.getD_cons_zero, List.getD_cons_succ]
          split
          · simp only [run_bind, run_pure]
            have h := toDdBinary_blk cfg op l' r' sp s1 hk.1 hk.2
            generalize toDdBinary cfg (.bin op l' r' sp) s1 = X at h ⊢
            obtain ⟨res, s2⟩ := X
            rw [finish_fst]
            cases res with
            | none => simp [hk.1, hk.2]
            | some e1 => exact h e1 rfl
          · simp only [run_bind, run_pure]
            rw [finish_fst]; simp [hk.1, hk.2]
      · exact gen root rfl
    | assign op l r sp =>
      simp only [visit]
      split
      · simp only [run_bind]
        rw [mapKidsM_run]
        have hk := hks false s
        simp only [kids] at hk ⊢
        have hlen := mapM'_length (visit cfg f false) [l, r] s
        generalize mapM' (visit cfg f false) [l, r] s = K at hk hlen ⊢
        obtain ⟨ks', s1⟩ := K
        match ks', hlen, hk with
        | [l', r'], _, hk =>
          simp only [blkOkL_cons, blkOkL_nil, Bool.and_true, Bool.and_eq_true] at hk
          simp only [withKids, List.getD_cons_zero, List.getD_cons_succ]
          split
          · simp only [run_bind, run_pure]
            have h := toDdAssign_blk cfg op l' r' sp s1 hk.1 hk.2
            generalize toDdAssign cfg (.assign op l' r' sp) s1 = X at h ⊢
            obtain ⟨res, s2⟩ := X
            rw [finish_fst]
            cases res with
            | none => simp [hk.1, hk.2]
            | some e1 => exact h e1 rfl
          · simp only [run_bind, run_pure]
            rw [finish_fst]; simp [hk.1, hk.2]
      · exact gen root rfl
    | tpl es qs sp =>
      simp only [visit]
      split
      · split
        · simp only [run_bind]
          rw [mapKidsM_run]
          have hk := hks false s
          simp only [kids] at hk ⊢
          have hlen := mapM'_length (visit cfg f false) (es ++ qs) s
          generalize mapM' (visit cfg f false) (es ++ qs) s = K at hk hlen ⊢
          obtain ⟨ks', s1⟩ := K
          simp only [withKids]
          have hk1 : blkOkL cfg (ks'.take es.length) = true := blkOkL_of (fun k hk' => blkOkL_mem hk k (List.mem_of_mem_take hk'))
          have hk2 : blkOkL cfg (ks'.drop es.length) = true := blkOkL_of (fun k hk' => blkOkL_mem hk k (List.mem_of_mem_drop hk'))
          have h := toDdTpl_blk cfg (ks'.take es.length) (ks'.drop es.length) sp s1 hk1 hk2
          generalize toDdTpl cfg (.tpl (ks'.take es.length) (ks'.drop es.length) sp) s1 = X at h ⊢
          obtain ⟨res, s2⟩ := X
          simp only [run_bind, run_pure]
          rw [finish_fst]
          cases res with
          | none => simp [hk1, hk2]
          | some e1 => exact h e1 rfl
        · simp only [run_pure]; exact blkOk_src _ hs hn
      · exact gen root rfl
    | call c as sp =>
      simp only [visit, run_bind]
      rw [mapKidsM_run]
      have hk := hks false s
      simp only [kids] at hk ⊢
      have hlen := mapM'_length (visit cfg f false) (c :: as) s
      generalize mapM' (visit cfg f false) (c :: as) s = K at hk hlen ⊢
      obtain ⟨ks', s1⟩ := K
      match ks', hlen, hk with
      | c' :: as', _, hk =>
        simp only [blkOkL_cons, Bool.and_eq_true] at hk
        simp only [withKids, List.getD_cons_zero, List.drop_succ_cons, List.drop_zero]
        split
        · simp only [run_bind, run_pure]
          rw [finish_fst]; simp [hk.1, hk.2]
        · simp only [run_bind]
          have h := toDdCall_blk cfg c' as' sp s1 hk.1 hk.2
          generalize toDdCall cfg (.call c' as' sp) s1 = X at h ⊢
          obtain ⟨res, s2⟩ := X
          cases res with
          | none => simp only [run_bind, run_pure]; rw [finish_fst]; simp [hk.1, hk.2]
          | some et =>
            obtain ⟨e', tag⟩ := et
            simp only [run_bind, run_pure]
            rw [finish_fst]
            exact h e' tag rfl
    | _ => simp only [visit]; exact gen root rfl

end IastModel

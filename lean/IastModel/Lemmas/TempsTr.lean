import IastModel.Lemmas.TempsOp
namespace IastModel
open Node

theorem tgood_ddCall (σ) (e : Node) (args : List Node) (m : String) (sp : Span) :
    tgood σ (ddCall e args m sp) = (tgood σ e && tgoodL σ args) := by
  simp [ddCall, ddCallee]

theorem tgood_ddParen (σ) (e : Node) (args asg : List Node) (m : String) (sp : Span) :
    tgood σ (ddParen e args asg m sp) = (tgood σ e && tgoodL σ args && tgoodL σ asg) := by
  unfold ddParen
  split
  · rename_i h; have : asg = [] := by simpa using h
    subst this; simp [tgood_ddCall]
  · simp [tgood_ddCall, Bool.and_comm, Bool.and_left_comm]

/-- what a transform guarantees about temporaries -/
def TrT (R : Option Node × St) (s : St) : Prop :=
  IdSub s R.2 ∧ ∀ e', R.1 = some e' → tgood R.2.idents e' = true

def TrT2 (R : Option (Node × String) × St) (s : St) : Prop :=
  IdSub s R.2 ∧ ∀ e' tag, R.1 = some (e', tag) → tgood R.2.idents e' = true

theorem trT2_none (s : St) : TrT2 ((none : Option (Node × String)), s) s :=
  ⟨IdSub.refl s, by intro e' tag h; cases h⟩

theorem toDdBinary_T (cfg : Config) (op : String) (l r : Node) (sp : Span) (s : St)
    (hl : tgood s.idents l = true) (hr : tgood s.idents r = true) :
    TrT (toDdBinary cfg (.bin op l r sp) s) s := by
  simp only [toDdBinary, run_bind]
  have h1 := replaceExpr_T l (getIdentMode r) [] [] sp .expr false s hl rfl rfl
  generalize replaceExpr l (getIdentMode r) [] [] sp .expr false s = R1 at h1
  obtain ⟨⟨l', asg1, args1⟩, s1⟩ := R1
  obtain ⟨g1, g2, g3, i1⟩ := h1
  simp only at g1 g2 g3 i1
  have h2 := replaceExpr_T r (getIdentMode l') asg1 args1 sp .expr false s1 (tgood_lift i1 hr) g2 g3
  generalize replaceExpr r (getIdentMode l') asg1 args1 sp .expr false s1 = R2 at h2
  obtain ⟨⟨r', asg2, args2⟩, s2⟩ := R2
  obtain ⟨k1, k2, k3, i2⟩ := h2
  simp only at k1 k2 k3 i2
  by_cases hm : mustReplaceBinary args2 = true
  · simp only [hm, if_true, run_pure]
    refine ⟨IdSub.trans i1 i2, ?_⟩
    intro e' he
    simp only [Option.some.injEq] at he
    subst he
    simp [tgood_ddParen, tgood_lift i2 g1, k1, k2, k3]
  · simp only [hm, Bool.false_eq_true, if_false, run_pure]
    exact ⟨IdSub.trans i1 i2, by intro e' he; cases he⟩

theorem toDdTpl_T (cfg : Config) (exprs quasis : List Node) (sp : Span) (s : St)
    (he : tgoodL s.idents exprs = true) (hq : tgoodL s.idents quasis = true) :
    TrT (toDdTpl cfg (.tpl exprs quasis sp) s) s := by
  simp only [toDdTpl, run_bind, run_pure]
  have h1 := replaceTplExprs_T exprs [] [] s he rfl rfl
  generalize replaceTplExprs exprs [] [] s = R1 at h1
  obtain ⟨⟨exprs', asg, args⟩, s1⟩ := R1
  obtain ⟨g1, g2, g3, i1⟩ := h1
  simp only at g1 g2 g3 i1
  refine ⟨i1, ?_⟩
  intro e' he'
  simp only [Option.some.injEq] at he'
  subst he'
  simp [tgood_ddParen, g1, g2, g3, tgoodL_lift i1 hq]

theorem replaceCallCalleeAndArgs_T (callee : Node) (cargs : List Node) (csp : Span) (identCallee : Option Node)
    (asg args : List Node) (coa : Option String) (s : St)
    (hc : tgood s.idents callee = true) (hi : ∀ i, identCallee = some i → tgood s.idents i = true)
    (hca : tgoodL s.idents cargs = true) (ha : tgoodL s.idents asg = true) (hg : tgoodL s.idents args = true) :
    let R := replaceCallCalleeAndArgs callee cargs csp identCallee asg args coa s
    ∃ callee' cargs', R.1.1 = .call callee' cargs' csp ∧ tgood R.2.idents callee' = true ∧ tgoodL R.2.idents cargs' = true ∧
      tgoodL R.2.idents R.1.2.1 = true ∧ tgoodL R.2.idents R.1.2.2 = true ∧ IdSub s R.2 := by
  simp only [replaceCallCalleeAndArgs, run_bind, run_pure]
  generalize ((coa.getD Generated.callMethodName) == Generated.applyMethodName) = expand
  have h := replaceArgs_T .replace csp expand cargs asg args s hca ha hg
  generalize replaceArgs .replace csp expand cargs asg args s = R at h
  obtain ⟨⟨cargs', asg', args'⟩, s'⟩ := R
  obtain ⟨g1, g2, g3, i1⟩ := h
  simp only at g1 g2 g3 i1
  refine ⟨_, cargs', rfl, ?_, g1, g2, g3, i1⟩
  cases identCallee with
  | none => exact tgood_lift i1 hc
  | some i => simp [tgood_lift i1 (hi i rfl)]

theorem rcwmTail_T (dst method : String) (identReplacement memberExpr expr callee : Node) (cargs asg0 : List Node)
    (csp : Span) (coa : Option String) (s0 : St)
    (gir : tgood s0.idents identReplacement = true) (gme : tgood s0.idents memberExpr = true) (lme : memberExpr.isLit = false)
    (hc : tgood s0.idents callee = true) (hca : tgoodL s0.idents cargs = true) (ga0 : tgoodL s0.idents asg0 = true) :
    TrT2 (rcwmTail dst method identReplacement memberExpr expr callee cargs asg0 csp coa s0) s0 := by
  unfold rcwmTail
  simp only [run_bind, run_pure]
  rcases getIdentUsed_casesT memberExpr asg0 [] csp .expr s0 with ⟨hl, _⟩ | ⟨_, n1, s1, h1, i1, hn1⟩
  · rw [lme] at hl; cases hl
  · rw [h1]
    simp only
    have hcs := replaceCallCalleeAndArgs_T callee cargs csp (some (tempIdent n1))
      (asg0 ++ [.assign "=" (tempIdent n1) (assignRight memberExpr .expr) csp])
      ([] ++ [exprOrSpread (tempIdent n1) .expr] ++ [.arg none identReplacement]) coa s1 (tgood_lift i1 hc)
      (by intro i hi; cases hi; simp [tempIdent, hn1]) (tgoodL_lift i1 hca)
      (by simp [tgoodL_lift i1 ga0, tempIdent, assignRight, tgood_lift i1 gme, hn1])
      (by simp [exprOrSpread, tempIdent, tgood_lift i1 gir, hn1])
    generalize replaceCallCalleeAndArgs callee cargs csp (some (tempIdent n1))
      (asg0 ++ [.assign "=" (tempIdent n1) (assignRight memberExpr .expr) csp])
      ([] ++ [exprOrSpread (tempIdent n1) .expr] ++ [.arg none identReplacement]) coa s1 = R at hcs
    obtain ⟨⟨callRepl, asg3, args3⟩, s3⟩ := R
    simp only at hcs
    obtain ⟨callee', cargs', hcr, gc', gca', ga3, gg3, i3⟩ := hcs
    subst hcr
    refine ⟨IdSub.trans i1 i3, ?_⟩
    intro e' tag hres
    simp only [Option.some.injEq, Prod.mk.injEq] at hres
    obtain ⟨hres, _⟩ := hres
    subst hres
    rw [tgood_ddParen]
    simp [insertThis, gc', tgood_lift (IdSub.trans i1 i3) gir, gca', gg3, ga3]

end IastModel

namespace IastModel
open Node

theorem replaceCallWithMember_T (cfg : Config) (expr : Node) (method : String) (msp : Span)
    (callee : Node) (cargs : List Node) (csp : Span) (memberOpt : Option Node) (coa : Option String) (s : St)
    (he : tgood s.idents expr = true) (hc : tgood s.idents callee = true) (hca : tgoodL s.idents cargs = true)
    (hm : ∀ m, memberOpt = some m → tgood s.idents m = true ∧ m.isLit = false) :
    TrT2 (replaceCallWithMember cfg expr method msp callee cargs csp memberOpt coa s) s := by
  cases hg : cfg.get method with
  | none =>
    unfold replaceCallWithMember
    simp only [hg]
    exact trT2_none s
  | some csi =>
    rw [replaceCallWithMember_unfold _ _ _ _ _ _ _ _ _ _ csi hg]
    have hR0 : ∃ ir asg0 s0, getTemporalIdent expr [] csp .expr s = ((ir, asg0), s0) ∧ IdSub s s0 ∧
        tgoodL s0.idents asg0 = true ∧ tgood s0.idents (identOr ir expr) = true := by
      rcases getTemporalIdent_casesT expr [] csp .expr s with ⟨hl, h⟩ | ⟨hl, n, s', h, hi, hn⟩
      · exact ⟨none, [], s, h, IdSub.refl s, rfl, he⟩
      · exact ⟨some n, _, s', h, hi, by simp [tempIdent, assignRight, tgood_lift hi he, hn], by simp [identOr, tempIdent, hn]⟩
    obtain ⟨ir, asg0, s0, h0, i0, ga0, gir⟩ := hR0
    rw [h0]
    simp only
    have gme : tgood s0.idents (memberOr memberOpt (.member (identOr ir expr) (.pname method msp) csp)) = true ∧
        (memberOr memberOpt (.member (identOr ir expr) (.pname method msp) csp)).isLit = false := by
      cases memberOpt with
      | none => simp [memberOr, gir, Node.isLit]
      | some m => simp [memberOr, tgood_lift i0 (hm m rfl).1, (hm m rfl).2]
    have ht := rcwmTail_T csi.dst method (identOr ir expr) _ expr callee cargs asg0 csp coa s0 gir gme.1 gme.2
      (tgood_lift i0 hc) (tgoodL_lift i0 hca) ga0
    exact ⟨IdSub.trans i0 ht.1, ht.2⟩

theorem replaceCallSpreadWithMember_T (cfg : Config) (method : String)
    (callee : Node) (cargs : List Node) (csp : Span) (memberExpr : Node) (coa : String) (s : St)
    (hc : tgood s.idents callee = true) (hca : tgoodL s.idents cargs = true) (gme : tgood s.idents memberExpr = true) :
    TrT2 (replaceCallSpreadWithMember cfg method callee cargs csp memberExpr coa s) s := by
  unfold replaceCallSpreadWithMember
  cases hg : cfg.get method with
  | none => exact trT2_none s
  | some csi =>
    simp only [run_bind, run_pure]
    rcases getIdentUsed_casesT memberExpr [] [] csp .expr s with ⟨hl, h1⟩ | ⟨_, n1, s1, h1, i1, hn1⟩
    · rw [h1]; exact trT2_none s
    · rw [h1]
      simp only [run_bind, run_pure]
      have hcs := replaceCallCalleeAndArgs_T callee cargs csp (some (tempIdent n1))
        ([] ++ [.assign "=" (tempIdent n1) (assignRight memberExpr .expr) csp])
        ([] ++ [exprOrSpread (tempIdent n1) .expr]) (some coa) s1 (tgood_lift i1 hc)
        (by intro i hi; cases hi; simp [tempIdent, hn1]) (tgoodL_lift i1 hca)
        (by simp [tempIdent, assignRight, tgood_lift i1 gme, hn1]) (by simp [exprOrSpread, tempIdent, hn1])
      generalize replaceCallCalleeAndArgs callee cargs csp (some (tempIdent n1))
        ([] ++ [.assign "=" (tempIdent n1) (assignRight memberExpr .expr) csp])
        ([] ++ [exprOrSpread (tempIdent n1) .expr]) (some coa) s1 = R at hcs
      obtain ⟨⟨callRepl, asg3, args3⟩, s3⟩ := R
      simp only at hcs
      obtain ⟨callee', cargs', hcr, gc', gca', ga3, gg3, i3⟩ := hcs
      subst hcr
      refine ⟨IdSub.trans i1 i3, ?_⟩
      intro e' tag hres
      simp only [Option.some.injEq, Prod.mk.injEq] at hres
      obtain ⟨hres, _⟩ := hres
      subst hres
      rw [tgood_ddParen]
      simp [gc', gca', gg3, ga3]

theorem replaceCallWithoutCallee_T (cfg : Config) (name : Name) (isp : Span) (cargs : List Node) (csp : Span) (s : St)
    (hc : tgood s.idents (.ident name isp) = true) (hca : tgoodL s.idents cargs = true) :
    TrT2 (replaceCallWithoutCallee cfg name isp (.ident name isp) cargs csp s) s := by
  unfold replaceCallWithoutCallee
  cases name with
  | temp k => exact trT2_none s
  | user method =>
    simp only
    cases hg : cfg.get method with
    | none => exact trT2_none s
    | some csi =>
      simp only
      by_cases hal : csi.allowedWithoutCallee = true
      · simp only [hal, if_true, run_bind, run_pure]
        have hcs := replaceCallCalleeAndArgs_T (.ident (.user method) isp) cargs csp none []
          [Node.arg none (.ident (.user method) isp), .arg none (.ident (.user "undefined") csp)] none s hc
          (by intro i hi; cases hi) hca rfl (by simp)
        generalize replaceCallCalleeAndArgs (.ident (.user method) isp) cargs csp none []
          [Node.arg none (.ident (.user method) isp), .arg none (.ident (.user "undefined") csp)] none s = R at hcs
        obtain ⟨⟨callRepl, asg3, args3⟩, s3⟩ := R
        simp only at hcs
        obtain ⟨callee', cargs', hcr, gc', gca', ga3, gg3, i3⟩ := hcs
        subst hcr
        refine ⟨i3, ?_⟩
        intro e' tag hres
        simp only [Option.some.injEq, Prod.mk.injEq] at hres
        obtain ⟨hres, _⟩ := hres
        subst hres
        rw [tgood_ddParen]
        simp [gc', gca', gg3, ga3]
      · simp only [hal, Bool.false_eq_true, if_false, run_pure]
        exact trT2_none s

theorem tgood_argExpr (σ) (a : Node) : tgood σ (argExpr a) = tgood σ a := by
  cases a <;> simp [argExpr]

theorem replacePrototypeCallOrApply_T (cfg : Config) (cargs : List Node) (csp : Span) (callee member : Node)
    (coa : String) (s : St)
    (hc : tgood s.idents callee = true) (hca : tgoodL s.idents cargs = true) (gm : tgood s.idents member = true) :
    TrT2 (replacePrototypeCallOrApply cfg cargs csp callee member coa s) s := by
  unfold replacePrototypeCallOrApply
  by_cases h1 : isCallOrApply coa = true
  · simp only [h1, Bool.not_true, Bool.false_eq_true, if_false]
    unfold prototypeMethodIdent
    by_cases hsp : isStaticPath member = true
    · simp only [hsp, if_true]
      cases member with
      | member mo mp msp0 =>
        cases mp with
        | pname method msp =>
          simp only
          cases cargs with
          | nil => exact trT2_none s
          | cons th rest =>
            simp only
            by_cases hs : argIsSpread th = true
            · simp only [hs, if_true]
              exact replaceCallSpreadWithMember_T cfg method callee (th :: rest) csp (.member mo (.pname method msp) msp0) coa s hc hca gm
            · simp only [hs, Bool.false_eq_true, if_false]
              by_cases hinv : invalidArgs coa (th :: rest) = true
              · simp only [hinv, if_true]; exact trT2_none s
              · simp only [hinv, Bool.false_eq_true, if_false]
                split
                · exact trT2_none s
                · simp only [tgoodL_cons, Bool.and_eq_true] at hca
                  exact replaceCallWithMember_T cfg (argExpr th) method msp
                    (Node.member (argExpr th) (.pname method msp) csp) rest csp
                    (some (.member mo (.pname method msp) msp0)) (some coa) s
                    (by rw [tgood_argExpr]; exact hca.1) (by simp [tgood_argExpr, hca.1]) hca.2
                    (by intro m hm; cases hm; exact ⟨gm, rfl⟩)
        | _ => simp [isStaticPath] at hsp
      | _ => simp [isStaticPath] at hsp
    · simp only [hsp, Bool.false_eq_true, if_false]; exact trT2_none s
  · simp only [h1, Bool.not_false, if_true]; exact trT2_none s

theorem toDdCall_T (cfg : Config) (callee : Node) (cargs : List Node) (csp : Span) (s : St)
    (hc : tgood s.idents callee = true) (hca : tgoodL s.idents cargs = true) :
    TrT2 (toDdCall cfg (.call callee cargs csp) s) s := by
  unfold toDdCall
  cases callee with
  | member obj prop msp0 =>
    cases prop with
    | pname m msp =>
      have hgo : tgood s.idents obj = true := by simp at hc; exact hc
      have key := fun (_ : Unit) => replaceCallWithMember_T cfg obj m msp (.member obj (.pname m msp) msp0) cargs csp none none s hgo hc hca (by intro m hm; cases hm)
      cases obj with
      | lit k v r lsp =>
        simp only
        split
        · exact key ()
        · exact trT2_none s
      | ident nm isp => exact key ()
      | call c as csp2 => exact key ()
      | paren e psp => exact key ()
      | array es asp => exact key ()
      | member o2 p2 msp2 =>
        simp only
        split
        · exact replacePrototypeCallOrApply_T cfg cargs csp _ _ m s hc hca hgo
        · split
          · exact key ()
          · exact trT2_none s
      | _ => exact trT2_none s
    | _ => exact trT2_none s
  | ident name isp => exact replaceCallWithoutCallee_T cfg name isp cargs csp s hc hca
  | _ => exact trT2_none s

end IastModel

namespace IastModel
open Node

/-- splitting a target keeps temporaries declared -/
def SplitT (R : (Node × Node) × St) (s : St) : Prop :=
  tgood R.2.idents R.1.1 = true ∧ tgood R.2.idents R.1.2 = true ∧ IdSub s R.2

theorem tgood_seqOperand (σ) (e : Node) : tgood σ (seqOperand e) = tgood σ e := by
  unfold seqOperand; split <;> simp

theorem hoistTargetPart_T (e : Node) (sp : Span) (s : St) (he : tgood s.idents e = true) :
    SplitT (hoistTargetPart e sp s) s := by
  unfold hoistTargetPart
  simp only [run_bind]
  have he' : tgood s.idents (seqOperand e) = true := by rw [tgood_seqOperand]; exact he
  rcases getTemporalIdent_casesT (seqOperand e) [] sp .expr s with ⟨hl, h⟩ | ⟨hl, n, s', h, hi, hn⟩
  · rw [h]; simp only [run_pure]; exact ⟨he', he', IdSub.refl s⟩
  · rw [h]
    simp only [List.nil_append, List.getLast?_singleton, run_pure]
    exact ⟨by simp [tempIdent, assignRight, tgood_lift hi he', hn], by simp [tempIdent, hn], hi⟩

theorem splitComputedKey_T (csp : Span) (e : Node) (sp : Span) (s : St) (he : tgood s.idents e = true) :
    SplitT (splitComputedKey csp e sp s) s := by
  unfold splitComputedKey
  simp only [run_bind, run_pure]
  have h := hoistTargetPart_T e sp s he
  generalize hoistTargetPart e sp s = R at h
  obtain ⟨⟨tk, okk⟩, s'⟩ := R
  obtain ⟨h1, h2, h3⟩ := h
  simp only at h1 h2 h3
  exact ⟨by simp [h1], by simp [h2], h3⟩

theorem splitProp_T (prop : Node) (sp : Span) (s : St) (hg : tgood s.idents prop = true) :
    SplitT (splitProp prop sp s) s := by
  unfold splitProp
  split
  · rename_i csp e
    by_cases hs : isSimpleTargetPart e = true
    · simp only [hs, Bool.not_true, Bool.false_eq_true, if_false, run_pure]
      exact ⟨hg, hg, IdSub.refl s⟩
    · simp only [hs, Bool.not_false, if_true]
      exact splitComputedKey_T csp e sp s (by simpa using hg)
  · simp only [run_pure]; exact ⟨hg, hg, IdSub.refl s⟩

theorem splitMemberTarget_T (sp : Span) : ∀ (left : Node) (s : St), tgood s.idents left = true →
    SplitT (splitMemberTarget left sp s) s := by
  apply Node.ind
  intro left ih s hg
  have same : SplitT ((left, left), s) s := ⟨hg, hg, IdSub.refl s⟩
  cases left with
  | member obj prop msp =>
    have hg' := hg
    simp only [tgood_member, Bool.and_eq_true] at hg'
    simp only [splitMemberTarget]
    by_cases hcond : (!isSimpleTargetPart obj || !keyIsSimple prop) = true
    · simp only [hcond, if_true]
      by_cases hrep : (isSimpleTargetPart obj && (keyIsSimple prop || !obj.isIdent)) = true
      · simp only [hrep, if_true, run_bind, run_pure]
        have hprop := splitProp_T prop sp s hg'.2
        generalize splitProp prop sp s = R2 at hprop
        obtain ⟨⟨tprop, oprop⟩, s2⟩ := R2
        obtain ⟨b1, b2, b3⟩ := hprop
        simp only at b1 b2 b3
        exact ⟨by simp [tgood_lift b3 hg'.1, b1], by simp [tgood_lift b3 hg'.1, b2], b3⟩
      · simp only [hrep, Bool.false_eq_true, if_false, run_bind, run_pure]
        have hobj := hoistTargetPart_T obj sp s hg'.1
        generalize hoistTargetPart obj sp s = R1 at hobj
        obtain ⟨⟨tobj, oobj⟩, s1⟩ := R1
        obtain ⟨a1, a2, a3⟩ := hobj
        simp only at a1 a2 a3
        have hprop := splitProp_T prop sp s1 (tgood_lift a3 hg'.2)
        generalize splitProp prop sp s1 = R2 at hprop
        obtain ⟨⟨tprop, oprop⟩, s2⟩ := R2
        obtain ⟨b1, b2, b3⟩ := hprop
        simp only at b1 b2 b3
        exact ⟨by simp [tgood_lift b3 a1, b1], by simp [tgood_lift b3 a2, b2], IdSub.trans a3 b3⟩
    · simp only [hcond, Bool.false_eq_true, if_false, run_pure]; exact same
  | paren e psp =>
    simp only [splitMemberTarget]
    by_cases hsi : isSplittableInner e = true
    · simp only [hsi, if_true, run_bind, run_pure]
      have h := ih e (by simp [kids]) s (by simpa using hg)
      generalize splitMemberTarget e sp s = R at h
      obtain ⟨⟨t, o⟩, s'⟩ := R
      obtain ⟨h1, h2, h3⟩ := h
      simp only at h1 h2 h3
      exact ⟨by simp [h1], h2, h3⟩
    · simp only [hsi, Bool.false_eq_true, if_false, run_pure]; exact same
  | other k osp ons ovs =>
    have hdef : splitMemberTarget (.other k osp ons ovs) sp = splitMemberTarget (.other k osp ons ovs) sp := rfl
    conv at hdef => rhs; unfold splitMemberTarget
    split at hdef
    · rename_i heq; cases heq
    · rename_i ssp sup prop heq
      cases heq
      rw [hdef]
      have hg' := hg
      simp only [tgood_other, tgoodL_cons, tgoodL_nil, Bool.and_true, Bool.and_eq_true] at hg'
      by_cases hk : keyIsSimple prop = true
      · simp only [hk, Bool.not_true, Bool.false_eq_true, if_false, run_pure]; exact same
      · simp only [hk, Bool.not_false, if_true, run_bind, run_pure]
        have hprop := splitProp_T prop sp s hg'.2
        generalize splitProp prop sp s = R2 at hprop
        obtain ⟨⟨tprop, oprop⟩, s2⟩ := R2
        obtain ⟨b1, b2, b3⟩ := hprop
        simp only at b1 b2 b3
        exact ⟨by simp [tgood_lift b3 hg'.1, b1], by simp [tgood_lift b3 hg'.1, b2], b3⟩
    · rename_i heq; cases heq
    · rw [hdef]; simp only [run_pure]; exact same
  | _ => simp only [splitMemberTarget, run_pure]; exact same

theorem toDdAssign_T (cfg : Config) (op : String) (left r : Node) (sp : Span) (s : St)
    (hl : tgood s.idents left = true) (hr : tgood s.idents r = true) :
    TrT (toDdAssign cfg (.assign op left r sp) s) s := by
  simp only [toDdAssign]
  by_cases hp : isPatternTarget left = true
  · simp only [hp, if_true, run_pure]
    exact ⟨IdSub.refl s, by intro e' h; cases h⟩
  · simp only [hp, Bool.false_eq_true, if_false, run_bind, run_pure]
    have hgr : tgood s.idents (assignRhs r) = true := by unfold assignRhs; split <;> simp_all
    have h1 := splitMemberTarget_T sp left s hl
    generalize splitMemberTarget left sp s = R1 at h1
    obtain ⟨⟨target, operand⟩, s1⟩ := R1
    obtain ⟨a1, a2, a3⟩ := h1
    simp only at a1 a2 a3
    have h2 := toDdBinary_T cfg "+" operand (assignRhs r) sp s1 a2 (tgood_lift a3 hgr)
    generalize toDdBinary cfg (.bin "+" operand (assignRhs r) sp) s1 = R2 at h2
    obtain ⟨res, s2⟩ := R2
    obtain ⟨b1, b2⟩ := h2
    simp only at b1 b2
    cases res with
    | none => simp only [run_pure]; exact ⟨IdSub.trans a3 b1, by intro e' h; cases h⟩
    | some e1 =>
      simp only [run_pure]
      refine ⟨IdSub.trans a3 b1, ?_⟩
      intro e' he
      simp only [Option.some.injEq] at he
      subst he
      simp [tgood_lift b1 a1, b2 e1 rfl]

end IastModel

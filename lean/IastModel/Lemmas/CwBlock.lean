import IastModel.Lemmas.CwVisit
import IastModel.Lemmas.LitBlock
namespace IastModel
open Node

theorem cw_eq' (cfg : Config) (n : Node) : cw cfg n = (if isBadHook (notRobust cfg) n then 1 else 0) + cwL cfg n.kids := cq_eq _ n

/-- zero stays zero -/
def ZZ (a b : Nat) : Prop := a = 0 → b = 0

theorem ZZ.refl (a : Nat) : ZZ a a := id
theorem ZZ.trans {a b c : Nat} (h1 : ZZ a b) (h2 : ZZ b c) : ZZ a c := fun h => h2 (h1 h)
theorem ZZ.add {a b c d : Nat} (h1 : ZZ a b) (h2 : ZZ c d) : ZZ (a + c) (b + d) := by
  intro h
  have ha : a = 0 := by omega
  have hc : c = 0 := by omega
  rw [h1 ha, h2 hc]
theorem ZZ.of_eq {a b : Nat} (h : b = a) : ZZ a b := fun h0 => by rw [h, h0]

theorem letDecl_cw (cfg : Config) (idents : List Nat) (sp : Span) : cw cfg (letDecl idents sp) = 0 := by
  have h1 : ∀ l : List Nat, cqL (notRobust cfg) (l.map fun n => Node.other "VariableDeclarator" sp ["id", "init", "definite"]
      [tempIdent n, .atom "null", .atom "false"]) = 0 := by
    intro l; induction l with
    | nil => rfl
    | cons x xs ih =>
      simp only [tempIdent] at ih ⊢
      simp [ih]
  simp [cw, letDecl, h1]

theorem cwL_take_drop (cfg : Config) (ks : List Node) (i : Nat) :
    cwL cfg (ks.take i) + cwL cfg (ks.drop i) = cwL cfg ks := by
  unfold cwL
  conv => rhs; rw [← List.take_append_drop i ks]
  rw [cqL_append]

theorem insertVar_cw (cfg : Config) (idents : List Nat) (ks : List Node) (sp : Span) :
    ∃ ks2, insertVariableDeclaration idents (.block ks sp) = .block ks2 sp ∧ cwL cfg ks2 = cwL cfg ks := by
  simp only [insertVariableDeclaration]
  by_cases he : idents.isEmpty = true
  · exact ⟨ks, by simp only [he, if_true], rfl⟩
  · refine ⟨insertAt ks (variableInsertionIndex ks) [letDecl idents sp], by simp only [he, Bool.false_eq_true, if_false], ?_⟩
    have := cwL_take_drop cfg ks (variableInsertionIndex ks)
    have h0 := letDecl_cw cfg idents sp
    simp only [cw, cwL] at this h0 ⊢
    simp only [insertAt, cqL_append, cqL_cons, cqL_nil, h0]
    omega

/-- the block visitor keeps the property "is a hook call" of every node -/
theorem BR.hookName : ∀ {a b : Node}, BR a b → hookName? b = hookName? a := by
  intro a b h
  cases a with
  | call c as sp =>
    obtain ⟨c', as', rfl, hc, _⟩ := h.call_inv
    cases c with
    | member o p msp =>
      obtain ⟨o', p', rfl, ho, hp⟩ := hc.member_inv
      cases o with
      | ident nm isp =>
        have := BR_noBlk _ (by simp) _ ho; subst this
        cases p with
        | pname pn psp => have := BR_noBlk _ (by simp) _ hp; subst this; cases nm <;> rfl
        | block ss bsp => cases hp with
          | blk => cases nm <;> rfl
          | node _ ks' hb _ _ => simp [isBlockNode] at hb
        | _ => obtain ⟨ks, rfl, _⟩ := hp.inv rfl; cases nm <;> rfl
      | block ss bsp => cases ho with
        | blk => rfl
        | node _ ks' hb _ _ => simp [isBlockNode] at hb
      | _ => obtain ⟨ks, rfl, _⟩ := ho.inv rfl; rfl
    | block ss bsp => cases hc with
      | blk => rfl
      | node _ ks' hb _ _ => simp [isBlockNode] at hb
    | _ => obtain ⟨ks, rfl, _⟩ := hc.inv rfl; rfl
  | block ss sp => cases h with
    | blk => rfl
    | node _ ks' hb _ _ => simp [isBlockNode] at hb
  | _ => obtain ⟨ks', rfl, _⟩ := h.inv rfl; rfl

theorem BR.badHook {cfg : Config} {a b : Node} (h : BR a b) (h0 : isBadHook (notRobust cfg) a = false) :
    isBadHook (notRobust cfg) b = false := by
  simp only [isBadHook, isHook, h.hookName, Bool.and_eq_false_iff] at h0 ⊢
  rcases h0 with h0 | h0
  · exact Or.inl h0
  · exact Or.inr (notRobust_false ((robust_of_notRobust_false h0).BR h))

def BW (cfg : Config) (n : Node) (R : Node × St) : Prop := StOk R.2 → ZZ (cw cfg n) (cw cfg R.1)

theorem mapBlock_W (cfg : Config) (ok) (g : Node → M Node)
    (hb : ∀ k s, StOk s → goodW ok true k = true → BW cfg k (g k s))
    (hc : ∀ k s, s.status = .cancelled → (g k s).2.status = .cancelled) :
    ∀ (ks : List Node) (s : St), StOk s → goodL ok true ks = true → StOk (mapM' g ks s).2 →
      ZZ (cwL cfg ks) (cwL cfg (mapM' g ks s).1) := by
  intro ks
  induction ks with
  | nil => intro s _ _ _; exact ZZ.refl _
  | cons x xs ih =>
    intro s hs hg hfin
    simp only [goodL_cons, Bool.and_eq_true] at hg
    simp only [mapM', run_bind, run_pure] at hfin ⊢
    have h1 := hb x s hs hg.1
    generalize hR1 : g x s = R1 at h1 hfin
    obtain ⟨x', s1⟩ := R1
    simp only at hfin ⊢
    have hs1 : StOk s1 := by
      intro hcn
      exact hfin (mapM'_canc g hc xs s1 hcn)
    have e1 := h1 hs1
    have e2 := ih s1 hs1 hg.2 hfin
    simp only at e1
    simp only [cwL, cqL_cons]
    exact ZZ.add e1 e2

/-- the block visitor leaves no hook site that is not `RobustOK` (when the run is not cancelled) -/
theorem blockVisit_W (ok) (cfg : Config) (hcfg : CfgOk ok cfg) (opFuel : Nat) : ∀ (f : Nat) (n : Node) (s : St),
    StOk s → goodW ok true n = true → BW cfg n (blockVisit cfg opFuel f n s) := by
  intro f
  induction f with
  | zero => intro n s _ _ _; simp only [blockVisit, run_bind, run_pure]; exact ZZ.refl _
  | succ f ih =>
    intro n s hs hg
    have hlist := mapBlock_W cfg ok (blockVisit cfg opFuel f) (fun k s hs hg => ih k s hs hg)
      (fun k s h => blockVisit_canc cfg opFuel f k s h)
    have hspec := mapBlock_spec ok (blockVisit cfg opFuel f)
      (fun k s hs hg => blockVisit_spec ok cfg hcfg opFuel f k s hs hg)
      (fun k s h => blockVisit_canc cfg opFuel f k s h)
    by_cases hb : isBlockNode n = true
    · cases n with
      | block ss sp =>
        rw [good_block] at hg
        simp only [if_true, Bool.and_eq_true, beq_iff_eq] at hg
        rw [blockVisit_block cfg opFuel f ss sp s hs]
        have hs0 : StOk (resetProvider s) := hs
        have t0 : TS (resetProvider s) s := ⟨rfl, rfl, id⟩
        have h0 : ns (.block ss sp) = 0 := by simp [hg.1]
        have htg : targetsOk (.block ss sp) = true := (bad_zero_iff _).mp (by simp [hg.2])
        obtain ⟨ks', h1, hl, g, e, p⟩ := mapKids_spec' ok (visit cfg opFuel true)
          (fun k s h0 ht hs => visit_spec ok cfg hcfg opFuel true k s h0 ht hs) (.block ss sp) (resetProvider s) h0 htg hs0
        have hk : ∀ (ks : List Node) (s : St), nsL ks = 0 → (∀ k ∈ ks, targetsOk k = true) → StOk s →
            cwL cfg (mapM' (visit cfg opFuel true) ks s).1 = cwL cfg ks := by
          intro ks
          induction ks with
          | nil => intro s _ _ _; rfl
          | cons k ks ihk =>
            intro s hz htk hs
            simp only [nsL_cons] at hz
            simp only [mapM', run_bind, run_pure, cwL, cqL_cons]
            have hk1 := visit_W cfg ok hcfg opFuel true k s (by omega) (htk k (by simp)) hs
            have hsp := visit_spec ok cfg hcfg opFuel true k s (by omega) (htk k (by simp)) hs
            have hk2 := ihk _ (by omega) (fun x hx => htk x (by simp [hx])) (hsp.2.1.stOk hs)
            simp only [cw, cwL] at hk1 hk2
            rw [hk1, hk2]
        have he1 := hk ss (resetProvider s) hg.1 (targetsOk_kids htg) hs0
        have hK : mapKidsM mapM' (visit cfg opFuel true) (.block ss sp) (resetProvider s) =
            (.block (mapM' (visit cfg opFuel true) ss (resetProvider s)).1 sp, (mapM' (visit cfg opFuel true) ss (resetProvider s)).2) := by
          simp [mapKidsM, run_bind, run_pure, withKids, kids]
        rw [hK] at h1 e ⊢
        generalize mapM' (visit cfg opFuel true) ss (resetProvider s) = K at h1 e he1
        obtain ⟨ks1, s1⟩ := K
        simp only [withKids] at h1 e he1 ⊢
        have hks : ks' = ks1 := by injection h1 with h; exact h.symm
        subst hks
        by_cases hd : variablesContainPossibleDuplicate s1.vars (tempPrefix cfg.localVarPrefix) = true
        · simp only [hd, if_true]
          intro hfin
          exact absurd rfl hfin
        · simp only [hd, Bool.false_eq_true, if_false]
          obtain ⟨ks2, hins, g2, n2⟩ := insertVar_spec ok s1.idents ks' sp g
          obtain ⟨ks2', hins', e2⟩ := insertVar_cw cfg s1.idents ks' sp
          have : ks2' = ks2 := by rw [hins] at hins'; injection hins' with h; exact h.symm
          subst this
          rw [hins]
          simp only [mapKidsM, kids, run_bind, run_pure, withKids]
          intro hfin
          have e01 : Eff s s1 (nsL ks') := ((Eff.of_TS t0).trans e).cast (by omega)
          have := hlist ks2' s1 (e01.stOk hs) g2 hfin
          rw [e2, he1] at this
          simp only [cw, cq_block]
          exact this
      | _ => simp [isBlockNode] at hb
    · simp only [Bool.not_eq_true] at hb
      intro hfin h0
      have hbr := blockVisit_BR cfg opFuel (f + 1) n s
      rw [blockVisit_generic cfg opFuel f n hb] at hfin hbr ⊢
      rw [cw_eq'] at h0
      have hterm : isBadHook (notRobust cfg) n = false := by
        cases h : isBadHook (notRobust cfg) n
        · rfl
        · simp [h] at h0
      have hkids0 : cwL cfg n.kids = 0 := by omega
      have hterm' := hbr.badHook hterm
      have hg' := hg
      rw [goodW_eq] at hg'
      simp only [hb, Bool.and_false, Bool.false_eq_true, if_false] at hg'
      -- the children
      suffices hk : cwL cfg (mapKidsM mapM' (blockVisit cfg opFuel f) n s).1.kids = 0 by
        rw [cw_eq', hterm', hk]; rfl
      cases hh : hookName? n with
      | none =>
        rw [hh] at hg'
        simp only [Bool.and_eq_true, Bool.not_eq_true'] at hg'
        simp only [mapKidsM, run_bind, run_pure] at hfin ⊢
        have e3 := hlist n.kids s hs hg'.2 hfin
        obtain ⟨g3, l3, _⟩ := hspec n.kids s hs hg'.2 hfin
        rw [Node.kids_withKids n _ l3]
        exact e3 hkids0
      | some nm =>
        obtain ⟨x, isp, psp, msp, args, sp, rfl, hx⟩ := hookName?_some hh
        rw [hh] at hg'
        simp only [kids, List.drop_succ_cons, List.drop_zero, Bool.and_eq_true] at hg'
        simp only [mapKidsM, kids, mapM', run_bind, run_pure] at hfin ⊢
        have hc := blockVisit_callee cfg opFuel f (.user x) isp nm psp msp s
        generalize blockVisit cfg opFuel f (.member (.ident (.user x) isp) (.pname nm psp) msp) s = RC at hc hfin
        obtain ⟨c', s1⟩ := RC
        obtain ⟨hc1, t1⟩ := hc
        simp only at hc1 t1 hfin ⊢
        subst hc1
        have e1 : Eff s s1 0 := Eff.of_TS t1
        have e3 := hlist args s1 (e1.stOk hs) hg'.2 hfin
        simp only [withKids, List.getD_cons_zero, List.drop_succ_cons, List.drop_zero, kids]
        simp only [kids, cwL, cqL_cons] at hkids0
        have ha0 : cwL cfg args = 0 := by simp only [cwL]; omega
        have := e3 ha0
        simp only [cwL, cqL_cons, cq_member, cq_ident, cq_pname] at this ⊢
        omega

end IastModel

import IastModel.Spec.EraseSpec
import IastModel.Lemmas.Tree
namespace IastModel
open Node

/-! ### `strip` and `eqNS` -/

theorem eqNS_strip_left : ∀ (a b : Node), eqNS (strip a) b = eqNS a b := by
  intro a
  induction a using Node.rec (motive_2 := fun l => ∀ m, eqNSL (stripL l) m = eqNSL l m) with
  | nil => rename_i m; cases m <;> rfl
  | cons x xs hx hxs =>
    rename_i m
    cases m with
    | nil => rfl
    | cons y ys => simp only [stripL, eqNSL]; rw [hx, hxs]
  | arg s e ih => intro b; cases b <;> cases s <;> simp only [strip, eqNS, Option.map, Option.isSome, ih]
  | _ => intro b; cases b <;> simp only [strip, eqNS, *]

theorem eqNS_of_strip {a b : Node} (h : strip a = strip b) : eqNS a b = true := by
  rw [← eqNS_strip_left, h, eqNS_strip_left, eqNS_refl]

end IastModel

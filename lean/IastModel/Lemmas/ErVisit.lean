import IastModel.Lemmas.ErSrcR
/-
  The operation visitor's result erases to the node it visited (every arm but the optional-chain
  lowering, which is excluded by hypothesis here).
-/
namespace IastModel
open Node
variable {cfg : Config}

theorem noOpt_eq (n : Node) : noOpt cfg n = (noOptK cfg n && n.kids.all (noOpt cfg)) := by
  unfold noOpt; rw [Node.all_eq]

theorem noOpt_kids {n : Node} (h : noOpt cfg n = true) : ∀ k ∈ n.kids, noOpt cfg k = true := by
  rw [noOpt_eq, Bool.and_eq_true] at h
  intro k hk; exact List.all_eq_true.mp h.2 k hk

theorem updateStatus_counter (st : Status) (tag : Option String) (s : St) : (updateStatus st tag s).2.counter = s.counter := by
  simp only [updateStatus, run_modify]
  split
  · rfl
  · split <;> split <;> rfl

theorem VRes_src (root : Bool) (s s' : St) (n : Node) (hs : srcOk n = true) (hc : s'.counter = s.counter) : VRes root s s' n n := by
  cases root
  · exact ⟨by omega, by rw [hc]; exact EVC.src _ _ n hs⟩
  · exact ⟨0, EVC.src _ _ n hs⟩

theorem VRes_of_VC (root : Bool) (s s2 : St) (x n : Node) (hc : s.counter ≤ s2.counter) (h : EVC s.counter s2.counter x n) :
    VRes root s ((if root = true then do resetCounter; pure x else pure x : M Node) s2).2
      ((if root = true then do resetCounter; pure x else pure x : M Node) s2).1 n := by
  cases root
  · simp only [Bool.false_eq_true, if_false, run_pure]
    exact ⟨hc, h⟩
  · simp only [if_true, run_bind, run_pure]
    exact ⟨s2.counter, h.mono (Nat.zero_le _) (Nat.le_refl _)⟩

theorem mapKidsM_run (g : Node → M Node) (n : Node) (s : St) :
    mapKidsM mapM' g n s = (n.withKids (mapM' g n.kids s).1, (mapM' g n.kids s).2) := by
  simp only [mapKidsM, run_bind, run_pure]

theorem VRes_of_KRes (root : Bool) (s s' : St) (n : Node) (ks' : List Node)
    (hgen : ∀ lo hi, KL lo hi ks' n.kids → EVC lo hi (n.withKids ks') n) (h : KRes root s s' ks' n.kids) :
    VRes root s s' (n.withKids ks') n := by
  cases root
  · exact ⟨h.1, hgen _ _ h.2⟩
  · obtain ⟨hi, hk⟩ := h; exact ⟨hi, hgen _ _ hk⟩

theorem mapM'_append (g : Node → M Node) : ∀ (xs ys : List Node) (s : St),
    mapM' g (xs ++ ys) s = ((mapM' g xs s).1 ++ (mapM' g ys (mapM' g xs s).2).1, (mapM' g ys (mapM' g xs s).2).2) := by
  intro xs
  induction xs with
  | nil => intro ys s; simp only [mapM', run_pure, List.nil_append]; rfl
  | cons x xs ih => intro ys s; simp only [List.cons_append, mapM', run_bind, run_pure, ih]

theorem mapM'_length (g : Node → M Node) : ∀ (xs : List Node) (s : St), (mapM' g xs s).1.length = xs.length := by
  intro xs
  induction xs with
  | nil => intro s; rfl
  | cons x xs ih => intro s; simp only [mapM', run_bind, run_pure, List.length_cons, ih]

end IastModel

import IastModel.Lemmas.CovDefs
namespace IastModel
open Node

theorem TS.fo {s' s : St} (h : TS s' s) (hf : s'.fuelOut = false) : s.fuelOut = false := by
  cases hs : s.fuelOut
  · rfl
  · rw [h.2.2 hs] at hf; cases hf

theorem Eff.fo {s s' : St} {k : Nat} (h : Eff s s' k) (hf : s'.fuelOut = false) : s.fuelOut = false := by
  obtain ⟨_, _, _, _, m⟩ := h
  cases hs : s.fuelOut
  · rfl
  · rw [m hs] at hf; cases hf

/-- shape facts the coverage argument needs about a visited node: sums of literals stay what they are,
    and (with `+` enabled) no un-instrumented `+` chain comes back -/
def SK (cfg : Config) (n n' : Node) : Prop :=
  isLiteralSum n' = isLiteralSum n ∧ (cfg.plusEnabled = true → isPlusSum n' = true → isLiteralSum n' = true)

theorem SK.nlSum {cfg : Config} {n n' : Node} (h : SK cfg n n') (hp : cfg.plusEnabled = true) : nlSum n' = false := by
  unfold IastModel.nlSum
  cases hps : isPlusSum n'
  · rfl
  · simp [h.2 hp hps]

theorem isLiteralSum_withKids_other (n : Node) (ks : List Node) (hb : ∀ op l r sp, n ≠ .bin op l r sp) :
    isLiteralSum (n.withKids ks) = isLiteralSum n ∧ isPlusSum (n.withKids ks) = false := by
  cases n <;> first | exact ⟨rfl, rfl⟩ | (exfalso; exact hb _ _ _ _ rfl)

theorem SK.of_not_bin {cfg : Config} (n : Node) (ks : List Node) (hb : ∀ op l r sp, n ≠ .bin op l r sp) : SK cfg n (n.withKids ks) := by
  obtain ⟨h1, h2⟩ := isLiteralSum_withKids_other n ks hb
  exact ⟨h1, by intro _ h; rw [h2] at h; cases h⟩

theorem SK.refl (cfg : Config) (n : Node) (h : isPlusSum n = true → isLiteralSum n = true) : SK cfg n n := ⟨rfl, fun _ => h⟩

theorem isPlusSum_ddParen (e : Node) (args asg : List Node) (m : String) (sp : Span) :
    isPlusSum (ddParen e args asg m sp) = false ∧ isLiteralSum (ddParen e args asg m sp) = false := by
  unfold ddParen
  split <;> exact ⟨rfl, rfl⟩


theorem visitedKids_other (cfg : Config) (n : Node)
    (h1 : ∀ ss sp, n ≠ .block ss sp) (h2 : ∀ ps b a sp, n ≠ .arrow ps b a sp) (h3 : ∀ o b sp, n ≠ .optChain o b sp)
    (h4 : ∀ nm sp, n ≠ .ident nm sp) (h5 : ∀ op a sp, n ≠ .unary op a sp) (h6 : ∀ es qs sp, n ≠ .tpl es qs sp) :
    visitedKids cfg n = n.kids := by
  cases n <;> first | rfl | (exfalso; first | exact h1 _ _ rfl | exact h2 _ _ _ _ rfl | exact h3 _ _ _ rfl | exact h4 _ _ rfl | exact h5 _ _ _ rfl | exact h6 _ _ _ rfl)

theorem cq_eq' (q : Node → Bool) (n : Node) : cq q n = (if isBadHook q n then 1 else 0) + cqL q n.kids := cq_eq q n

end IastModel

import IastModel.Lemmas.ErDeep
namespace IastModel
open Node

/-- a `+=` target taken apart: `tk` is written where the target stood and erases to `e`; `ok` is the
    expression that reads the same place back and erases to `eo` (under the bindings `tk` made) -/
def PairEr (cx : Cx) (lo hi : Nat) (e eo tk ok : Node) (s s1 : St) : Prop :=
  s.counter ≤ s1.counter ∧
  ∀ tk'', BRg tk tk'' → ∀ σ, cx.ext σ → ∃ T Δt, erase σ tk'' = (T, Δt ++ σ) ∧ ESim T e ∧ WinU lo hi s.counter s1.counter Δt ∧
    ∀ ok'', BRg ok ok'' → ∀ Δ2, Avoid s.counter s1.counter Δ2 → AvoidP cx.bad Δ2 →
      ∃ O Δo, erase (Δ2 ++ (Δt ++ σ)) ok'' = (O, Δo ++ (Δ2 ++ (Δt ++ σ))) ∧ ESim O eo ∧ Win lo hi Δo

theorem pairEr_same {cx : Cx} {lo hi : Nat} {e' e : Node} (s : St) (hw : HypW cx hi s) (hE : Er cx lo hi e' e) :
    PairEr cx lo hi e e e' e' s s := by
  refine ⟨Nat.le_refl _, ?_⟩
  intro tk'' htk σ hσ
  obtain ⟨X, Δ, eX, sX, wX⟩ := hE tk'' htk σ hσ
  refine ⟨X, Δ, eX, sX, wX.winU, ?_⟩
  intro ok'' hok Δ2 _ hac
  exact hE ok'' hok _ (Cx.ext_append (Cx.ext_append hσ (wX.avoidP hw.h1)) hac)

theorem seqOperand_Er {cx : Cx} {lo hi : Nat} {x' x : Node} (h : Er cx lo hi x' x) : Er cx lo hi (seqOperand x') x := by
  unfold seqOperand
  split
  · rename_i es sp
    intro e'' hb σ hσ
    obtain ⟨i'', rfl, hi⟩ := hb.paren_inv
    obtain ⟨X, Δ, eX, sX, wX⟩ := h i'' hi σ hσ
    refine ⟨X, Δ, ?_, sX, wX⟩
    have hsp : (i''.span == (Node.seq es sp).span) = true := by
      rw [BRg.span _ _ hi]; exact span_beq_refl' _
    simp only [erase, hsp, if_true]
    exact eX
  · exact h

theorem erase_paren_tight (σ : Env) (e : Node) (sp : Span) (h : (e.span == sp) = true) :
    erase σ (.paren e sp) = erase σ e := by
  simp only [erase, h, if_true]

theorem erase_paren_loose (σ : Env) (e : Node) (sp : Span) (h : (e.span == sp) = false) :
    erase σ (.paren e sp) = (.paren (erase σ e).1 sp, (erase σ e).2) := by
  simp only [erase, h, Bool.false_eq_true, if_false]

theorem hoistTargetPart_Er (cx : Cx) (lo hi : Nat) (e' e : Node) (sp : Span) (s : St) (hw : HypW cx hi s)
    (hE : Er cx lo hi e' e) :
    PairEr cx lo hi e e (hoistTargetPart e' sp s).1.1 (hoistTargetPart e' sp s).1.2 s (hoistTargetPart e' sp s).2 := by
  have hE' := seqOperand_Er hE
  unfold hoistTargetPart
  simp only [run_bind]
  rcases getTemporalIdent_casesC (seqOperand e') [] sp .expr s with ⟨_, h⟩ | ⟨_, s', h, hc⟩
  · rw [h]; simp only [run_pure]
    exact pairEr_same s hw hE'
  · rw [h]
    simp only [List.nil_append, List.getLast?_singleton, run_pure]
    refine ⟨by omega, ?_⟩
    intro tk'' htk σ hσ
    obtain ⟨a'', rfl, ha⟩ := htk.paren_inv
    obtain ⟨e'', rfl, he⟩ := tempAssign_BRg_inv ha
    obtain ⟨X, Δe, eX, sX, wX⟩ := hE' e'' he σ hσ
    have hasg : erase σ (.assign "=" (tempIdent s.counter) (assignRight e'' .expr) sp)
        = (X, (s.counter, X) :: (Δe ++ σ)) := by
      rw [erase_tempAssign]
      obtain ⟨a, b⟩ := erase_assignRight σ (Δe ++ σ) e'' X .expr eX sX.2.2
      rw [a, b]
    refine ⟨X, (s.counter, X) :: Δe, ?_, sX, ?_, ?_⟩
    · rw [erase_paren_tight _ _ _ (by simp [Node.span, span_beq_refl']), hasg]; rfl
    · intro p hp
      rcases List.mem_cons.mp hp with hp | hp
      · subst hp; right; dsimp only; omega
      · exact Or.inl (wX p hp)
    · intro ok'' hok Δ2 hav _
      rw [BRg_noBlk (noBlk_tempIdentE _) hok]
      refine ⟨X, [], ?_, sX, Win.nil _ _⟩
      simp only [tempIdent, erase_temp, List.nil_append]
      rw [Env.get_append_of_notin _ _ _ (by intro p hp; have := hav p hp; omega)]
      simp only [List.cons_append, Env.get_cons_same]
      rfl

theorem noSp_other (k : String) (sp : Span) (ns : List String) (vs : List Node) : noSp (.other k sp ns vs) := by
  simp [noSp, unSpread]

/-- two parts handled one after the other, put back under a two-child node `W` -/
theorem pairEr_two {cx : Cx} {lo hi : Nat} (W : Node → Node → Node)
    (hW : ∀ σ a b, erase σ (W a b) = (W (erase σ a).1 (erase (erase σ a).2 b).1, (erase (erase σ a).2 b).2))
    (hS : ∀ A B a b, ESim A a → ESim B b → ESim (W A B) (W a b))
    (hWi : ∀ a b m, BRg (W a b) m → ∃ a'' b'', m = W a'' b'' ∧ BRg a a'' ∧ BRg b b'')
    {a ao b bo ta oa tb ob : Node} {s s1 s2 : St} (hw : HypW cx hi s)
    (h1 : PairEr cx lo hi a ao ta oa s s1) (h2 : PairEr cx lo hi b bo tb ob s1 s2) :
    PairEr cx lo hi (W a b) (W ao bo) (W ta tb) (W oa ob) s s2 := by
  obtain ⟨c1, P1⟩ := h1
  obtain ⟨c2, P2⟩ := h2
  have hw1 : HypW cx hi s1 := hw.mono c1
  refine ⟨by omega, ?_⟩
  intro tk'' htk σ hσ
  obtain ⟨ta'', tb'', rfl, hta, htb⟩ := hWi _ _ _ htk
  obtain ⟨Ta, Δa, eTa, sTa, wa, Ra⟩ := P1 ta'' hta σ hσ
  have hσ1 : cx.ext (Δa ++ σ) := Cx.ext_append hσ (wa.avoidCx hw)
  obtain ⟨Tb, Δb, eTb, sTb, wb, Rb⟩ := P2 tb'' htb _ hσ1
  refine ⟨W Ta Tb, Δb ++ Δa, ?_, hS _ _ _ _ sTa sTb, ?_, ?_⟩
  · rw [hW, eTa]; simp only; rw [eTb]; simp [List.append_assoc]
  · exact (wb.mono c1 (Nat.le_refl _)).append (wa.mono (Nat.le_refl _) c2)
  · intro ok'' hok Δ2 hav hac
    obtain ⟨oa'', ob'', rfl, hoa, hob⟩ := hWi _ _ _ hok
    have hA : Avoid s.counter s1.counter (Δ2 ++ Δb) := by
      intro p hp
      rcases List.mem_append.mp hp with hp | hp
      · have := hav p hp; omega
      · have := wb p hp; have := hw.h3; omega
    have hC : AvoidP cx.bad (Δ2 ++ Δb) := hac.append (wb.avoidCx hw1)
    obtain ⟨Oa, Δoa, eOa, sOa, woa⟩ := Ra oa'' hoa (Δ2 ++ Δb) hA hC
    have hA2 : Avoid s1.counter s2.counter (Δoa ++ Δ2) := by
      intro p hp
      rcases List.mem_append.mp hp with hp | hp
      · have := woa p hp; have := hw.h3; omega
      · have := hav p hp; omega
    have hC2 : AvoidP cx.bad (Δoa ++ Δ2) := (woa.avoidP hw.h1).append hac
    obtain ⟨Ob, Δob, eOb, sOb, wob⟩ := Rb ob'' hob (Δoa ++ Δ2) hA2 hC2
    refine ⟨W Oa Ob, Δob ++ Δoa, ?_, hS _ _ _ _ sOa sOb, wob.append woa⟩
    have e1 : Δ2 ++ (Δb ++ Δa ++ σ) = Δ2 ++ Δb ++ (Δa ++ σ) := by simp [List.append_assoc]
    rw [hW, e1, eOa]
    simp only
    have e2 : Δoa ++ (Δ2 ++ Δb ++ (Δa ++ σ)) = Δoa ++ Δ2 ++ (Δb ++ (Δa ++ σ)) := by simp [List.append_assoc]
    rw [e2, eOb]
    simp [List.append_assoc]

theorem hWi_member (msp : Span) : ∀ a b m, BRg (Node.member a b msp) m → ∃ a'' b'', m = Node.member a'' b'' msp ∧ BRg a a'' ∧ BRg b b'' := by
  intro a b m h; exact h.member_inv

theorem hWi_other2 (k : String) (sp : Span) (ns : List String) : ∀ a b m, BRg (Node.other k sp ns [a, b]) m →
    ∃ a'' b'', m = Node.other k sp ns [a'', b''] ∧ BRg a a'' ∧ BRg b b'' := by
  intro a b m h
  obtain ⟨vs', rfl, hv⟩ := h.other_inv
  obtain ⟨a'', t, rfl, ha, ht⟩ := BRgL.cons_inv hv
  obtain ⟨b'', rfl, hb⟩ := BRgL.single_inv ht
  exact ⟨a'', b'', rfl, ha, hb⟩

theorem hW_member (msp : Span) : ∀ σ a b, erase σ (Node.member a b msp) =
    (Node.member (erase σ a).1 (erase (erase σ a).2 b).1 msp, (erase (erase σ a).2 b).2) := by
  intro σ a b; simp only [erase]

theorem hS_member (msp : Span) : ∀ A B a b, ESim A a → ESim B b → ESim (Node.member A B msp) (Node.member a b msp) := by
  intro A B a b h1 h2
  exact ⟨by simp only [strip, h1.1, h2.1], Or.inl rfl, noSp_member _ _ _⟩

theorem hW_other2 (k : String) (sp : Span) (ns : List String) : ∀ σ a b, erase σ (Node.other k sp ns [a, b]) =
    (Node.other k sp ns [(erase σ a).1, (erase (erase σ a).2 b).1], (erase (erase σ a).2 b).2) := by
  intro σ a b; simp only [erase, eraseL]

theorem hS_other2 (k : String) (sp : Span) (ns : List String) : ∀ A B a b, ESim A a → ESim B b →
    ESim (Node.other k sp ns [A, B]) (Node.other k sp ns [a, b]) := by
  intro A B a b h1 h2
  exact ⟨by simp only [strip, stripL, h1.1, h2.1], Or.inl rfl, noSp_other _ _ _ _⟩

/-- wrapping a single part under a one-child generic node -/
theorem pairEr_other1 {cx : Cx} {lo hi : Nat} (k : String) (sp : Span) (ns : List String)
    {a ao ta oa : Node} {s s1 : St} (h : PairEr cx lo hi a ao ta oa s s1) :
    PairEr cx lo hi (.other k sp ns [a]) (.other k sp ns [ao]) (.other k sp ns [ta]) (.other k sp ns [oa]) s s1 := by
  obtain ⟨c1, P1⟩ := h
  refine ⟨c1, ?_⟩
  intro tk'' htk σ hσ
  obtain ⟨vs', rfl, hv⟩ := htk.other_inv
  obtain ⟨ta'', rfl, hta⟩ := BRgL.single_inv hv
  obtain ⟨Ta, Δa, eTa, sTa, wa, Ra⟩ := P1 ta'' hta σ hσ
  refine ⟨.other k sp ns [Ta], Δa, by simp only [erase, eraseL, eTa], ?_, wa, ?_⟩
  · exact ⟨by simp only [strip, stripL, sTa.1], Or.inl rfl, noSp_other _ _ _ _⟩
  · intro ok'' hok Δ2 hav hac
    obtain ⟨vs2, rfl, hv2⟩ := hok.other_inv
    obtain ⟨oa'', rfl, hoa⟩ := BRgL.single_inv hv2
    obtain ⟨Oa, Δoa, eOa, sOa, woa⟩ := Ra oa'' hoa Δ2 hav hac
    refine ⟨.other k sp ns [Oa], Δoa, by simp only [erase, eraseL, eOa], ?_, woa⟩
    exact ⟨by simp only [strip, stripL, sOa.1], Or.inl rfl, noSp_other _ _ _ _⟩

end IastModel

import IastModel.Lemmas.CovLemmas
namespace IastModel
open Node

/-- neither a literal nor a binary expression: never a sum of literals, never an un-instrumented `+` chain -/
def plainOperand (n : Node) : Bool := !n.isLit && !isBinNode' n
where isBinNode' : Node → Bool
  | .bin .. => true
  | _ => false

theorem plainOperand_props {n : Node} (h : plainOperand n = true) : isLiteralSum n = false ∧ nlSum n = false := by
  cases n <;> simp_all [plainOperand, plainOperand.isBinNode', Node.isLit, isLiteralSum, nlSum, isPlusSum]

theorem hoistTargetPart_plain (e : Node) (sp : Span) (s : St) (he : plainOperand (seqOperand e) = true) :
    plainOperand (hoistTargetPart e sp s).1.2 = true := by
  unfold hoistTargetPart
  simp only [run_bind]
  rcases getTemporalIdent_cases (seqOperand e) [] sp .expr s with ⟨hl, h⟩ | ⟨hl, n, s', h, _⟩
  · rw [h]; simp only [run_pure]; exact he
  · rw [h]
    simp only [List.nil_append, List.getLast?_singleton, run_pure]
    rfl

/-- the operand that `+=` reads back is never a literal or a binary expression -/
theorem splitMemberTarget_plain (sp : Span) : ∀ (left : Node), tshape left = true →
    ∀ s, plainOperand (splitMemberTarget left sp s).1.2 = true := by
  apply Node.ind
  intro left ih hts s
  unfold tshape at hts
  split at hts
  · simp only [splitMemberTarget, run_pure]; rfl
  · rename_i obj prop msp
    simp only [splitMemberTarget]
    split
    · split
      · simp only [run_bind, run_pure]; rfl
      · simp only [run_bind, run_pure]; rfl
    · simp only [run_pure]; rfl
  · rename_i ssp sp2 n2 prop
    simp only [splitMemberTarget]
    split
    · simp only [run_bind, run_pure]; rfl
    · simp only [run_pure]; rfl
  · rename_i e psp
    simp only [splitMemberTarget]
    split
    · simp only [run_bind, run_pure]
      exact ih e (by simp [kids]) hts s
    · simp only [run_pure]; rfl
  · cases hts

theorem assignRhs_notPlus (r : Node) : isPlusSum (assignRhs r) = false := by
  unfold assignRhs
  split
  · rfl
  · rename_i h
    cases r with
    | bin op a b sp =>
      by_cases hop : op = "+"
      · subst hop; exact absurd rfl (h a b sp)
      · rw [isPlusSum_bin]; simpa using hop
    | _ => rfl

/-- `target += r` is always instrumented (for a parser-shaped, non-pattern target) -/
theorem toDdAssign_some (cfg : Config) (op : String) (left r : Node) (sp : Span) (s : St)
    (hts : tshape left = true) (hnp : isPatternTarget left = false) :
    (toDdAssign cfg (.assign op left r sp) s).1.isSome = true := by
  simp only [toDdAssign, hnp, Bool.false_eq_true, if_false, run_bind]
  have h1 := splitMemberTarget_plain sp left hts s
  generalize splitMemberTarget left sp s = R1 at h1
  obtain ⟨⟨target, operand⟩, s1⟩ := R1
  simp only at h1 ⊢
  have h2 := toDdBinary_none cfg operand (assignRhs r) sp s1
  generalize toDdBinary cfg (.bin "+" operand (assignRhs r) sp) s1 = R2 at h2
  obtain ⟨res, s2⟩ := R2
  cases res with
  | none =>
    exfalso
    have hp := plainOperand_props h1
    have hr : nlSum (assignRhs r) = false := by simp [nlSum, assignRhs_notPlus]
    have := (h2 rfl hp.2 hr).1
    rw [hp.1] at this; cases this
  | some e1 => simp [run_pure]

theorem tshape_notPattern {n : Node} (h : tshape n = true) : isPatternTarget n = false := by
  unfold tshape at h
  split at h <;> first | rfl | (simp [isPatternTarget]; done) | cases h

end IastModel

import IastModel.Lemmas.Master
import IastModel.Lemmas.Temps
namespace IastModel
open Node

/-- kinds of opaque nodes whose evaluation is an effect or creates an object -/
def effKinds : List String :=
  ["NewExpression", "UpdateExpression", "YieldExpression", "AwaitExpression", "TaggedTemplateExpression",
   "FunctionExpression", "ClassExpression", "ObjectExpression", "MetaProperty"]

/-- nodes that must survive the rewrite exactly once: calls other than hook calls, optional calls, the
    opaque effectful kinds, `delete`, template literals and assignments to something that is not an
    injected temporary -/
def heavy (n : Node) : Bool :=
  match n with
  | .call .. => (hookName? n).isNone
  | .optCall .. => true
  | .other k _ _ _ => effKinds.contains k
  | .unary op _ _ => op == "delete"
  | .tpl .. => true
  | .assign _ l _ _ => !isTempIdent l
  | _ => false

/-- number of such nodes in a tree -/
def eff (n : Node) : Nat := Node.count heavy n
def effL (l : List Node) : Nat := (l.map eff).sum

theorem eff_eq (n : Node) : eff n = (if heavy n then 1 else 0) + effL n.kids := by
  unfold effL
  show Node.count heavy n = _
  rw [Node.count_eq]; rfl

@[simp] theorem effL_nil : effL [] = 0 := rfl
@[simp] theorem effL_cons (x : Node) (xs : List Node) : effL (x :: xs) = eff x + effL xs := by simp [effL]
@[simp] theorem effL_append (xs ys : List Node) : effL (xs ++ ys) = effL xs + effL ys := by simp [effL, List.sum_append]

@[simp] theorem eff_lit (k v r : String) (sp : Span) : eff (.lit k v r sp) = 0 := by rw [eff_eq]; simp [heavy, kids]
@[simp] theorem eff_pname (n : String) (sp : Span) : eff (.pname n sp) = 0 := by rw [eff_eq]; simp [heavy, kids]
@[simp] theorem eff_ident (n : Name) (sp : Span) : eff (.ident n sp) = 0 := by rw [eff_eq]; simp [heavy, kids]
@[simp] theorem eff_atom (s : String) : eff (.atom s) = 0 := by rw [eff_eq]; simp [heavy, kids]
@[simp] theorem eff_bin (op : String) (l r : Node) (sp : Span) : eff (.bin op l r sp) = eff l + eff r := by rw [eff_eq]; simp [heavy, kids]
@[simp] theorem eff_member (o p : Node) (sp : Span) : eff (.member o p sp) = eff o + eff p := by rw [eff_eq]; simp [heavy, kids]
@[simp] theorem eff_arg (s : Option Span) (e : Node) : eff (.arg s e) = eff e := by rw [eff_eq]; simp [heavy, kids]
@[simp] theorem eff_paren (e : Node) (sp : Span) : eff (.paren e sp) = eff e := by rw [eff_eq]; simp [heavy, kids]
@[simp] theorem eff_seq (es : List Node) (sp : Span) : eff (.seq es sp) = effL es := by rw [eff_eq]; simp [heavy, kids]
@[simp] theorem eff_array (es : List Node) (sp : Span) : eff (.array es sp) = effL es := by rw [eff_eq]; simp [heavy, kids]
@[simp] theorem eff_tpl (es qs : List Node) (sp : Span) : eff (.tpl es qs sp) = 1 + (effL es + effL qs) := by rw [eff_eq]; simp [heavy, kids]
@[simp] theorem eff_cond (t c a : Node) (sp : Span) : eff (.cond t c a sp) = eff t + eff c + eff a := by rw [eff_eq]; simp [heavy, kids]; omega
@[simp] theorem eff_optChain (o : Bool) (b : Node) (sp : Span) : eff (.optChain o b sp) = eff b := by rw [eff_eq]; simp [heavy, kids]
@[simp] theorem eff_optCall (c : Node) (as : List Node) (sp : Span) : eff (.optCall c as sp) = 1 + (eff c + effL as) := by rw [eff_eq]; simp [heavy, kids]
@[simp] theorem eff_block (ss : List Node) (sp : Span) : eff (.block ss sp) = effL ss := by rw [eff_eq]; simp [heavy, kids]
@[simp] theorem eff_arrow (ps : List Node) (b : Node) (a : String) (sp : Span) : eff (.arrow ps b a sp) = effL ps + eff b := by rw [eff_eq]; simp [heavy, kids]
@[simp] theorem eff_arr (xs : List Node) : eff (.arr xs) = effL xs := by rw [eff_eq]; simp [heavy, kids]
theorem eff_other (k : String) (sp : Span) (ns' : List String) (vs : List Node) :
    eff (.other k sp ns' vs) = (if effKinds.contains k then 1 else 0) + effL vs := by rw [eff_eq]; simp [heavy, kids]
theorem eff_unary (op : String) (a : Node) (sp : Span) : eff (.unary op a sp) = (if op == "delete" then 1 else 0) + eff a := by
  rw [eff_eq]; simp [heavy, kids]
theorem eff_assign (op : String) (l r : Node) (sp : Span) : eff (.assign op l r sp) = (if isTempIdent l then 0 else 1) + (eff l + eff r) := by
  rw [eff_eq]; cases h : isTempIdent l <;> simp [heavy, kids, h]
theorem eff_call (c : Node) (as : List Node) (sp : Span) :
    eff (.call c as sp) = (if (hookName? (.call c as sp)).isNone then 1 else 0) + (eff c + effL as) := by
  rw [eff_eq]; simp [heavy, kids]

/-- an assignment to an injected temporary is scaffolding -/
@[simp] theorem eff_assign_temp (op : String) (n : Nat) (r : Node) (sp : Span) : eff (.assign op (tempIdent n) r sp) = eff r := by
  rw [eff_assign]; simp [tempIdent, isTempIdent]
@[simp] theorem eff_assign_temp' (op : String) (n : Nat) (isp : Span) (r : Node) (sp : Span) : eff (.assign op (.ident (.temp n) isp) r sp) = eff r := by
  rw [eff_assign]; simp [isTempIdent]

/-- a call whose callee does not mention the namespace counts -/
theorem eff_call_user (c : Node) (as : List Node) (sp : Span) (h : hookName? (.call c as sp) = none) :
    eff (.call c as sp) = 1 + (eff c + effL as) := by
  rw [eff_call, h]; simp

theorem hookName?_none_of_ns0 (c : Node) (as : List Node) (sp : Span) (h : ns c = 0) : hookName? (.call c as sp) = none := by
  cases c <;> try rfl
  case member o p msp =>
    cases o <;> try rfl
    case ident nm isp =>
      cases nm with
      | temp k => rfl
      | user x =>
        cases p <;> try rfl
        case pname pn psp =>
          simp [ns_user] at h
          simp [hookName?, h]

/-- the hook call itself is not counted -/
theorem eff_ddCall (e : Node) (args : List Node) (m : String) (sp : Span) : eff (ddCall e args m sp) = eff e + effL args := by
  unfold ddCall ddCallee
  rw [eff_call]
  simp [hookName?]

theorem eff_ddParen (e : Node) (args asg : List Node) (m : String) (sp : Span) :
    eff (ddParen e args asg m sp) = eff e + effL args + effL asg := by
  unfold ddParen
  split
  · rename_i h; have : asg = [] := by simpa using h
    subst this; simp [eff_ddCall]
  · simp [eff_ddCall]; omega

theorem eff_assignRight (e : Node) (k : IdentKind) : eff (assignRight e k) = eff e := by
  cases k <;> simp [assignRight]
theorem eff_exprOrSpread (e : Node) (k : IdentKind) : eff (exprOrSpread e k) = eff e := by
  cases k <;> simp [exprOrSpread]

theorem isLiteralSum_eff : ∀ e : Node, isLiteralSum e = true → eff e = 0 := by
  intro e
  induction e using Node.rec (motive_2 := fun _ => True) with
  | lit => intro _; simp
  | bin op l r sp ihl ihr =>
    intro h
    simp [isLiteralSum] at h
    simp [ihl h.1.2, ihr h.2]
  | nil => trivial
  | cons => trivial
  | _ => intro h; simp [isLiteralSum] at h

theorem isLit_eff {e : Node} (h : e.isLit = true) : eff e = 0 := by
  cases e <;> simp_all [Node.isLit]

theorem effL_eq_zero : ∀ (l : List Node), effL l = 0 → ∀ k ∈ l, eff k = 0 := by
  intro l
  induction l with
  | nil => intro _ k hk; cases hk
  | cons x xs ih =>
    intro h k hk
    simp only [effL_cons] at h
    rcases List.mem_cons.mp hk with rfl | hk
    · omega
    · exact ih (by omega) k hk

end IastModel

import IastModel.Lemmas.ErCall6
namespace IastModel
open Node

/-- `CallExprTransform::to_dd_call_expr`: whichever form it produces erases to the call it replaces -/
theorem toDdCall_Er (cfg : Config) (cx : Cx) (lo hi : Nat) (callee' callee : Node) (cargs' cargs : List Node) (csp : Span)
    (s : St) (hw : HypW cx hi s) (hlo : lo ≤ s.counter)
    (hc : Er cx lo hi callee' callee) (hDc : Deep lo hi callee' callee) (hsc : srcOk callee = true)
    (ha : Forall2 (fun a' a => Er cx lo hi a' a ∧ DeepEr cx lo hi a' a) cargs' cargs)
    (hAA : Forall2 (fun a' a => ∃ sA e' e, a' = .arg sA e' ∧ a = .arg sA e) cargs' cargs)
    (hclash : callThisClash (.call callee cargs csp) = false) :
    s.counter ≤ (toDdCall cfg (.call callee' cargs' csp) s).2.counter ∧
    ∀ e1 tag, (toDdCall cfg (.call callee' cargs' csp) s).1 = some (e1, tag) →
      Er cx lo (toDdCall cfg (.call callee' cargs' csp) s).2.counter e1 (.call callee cargs csp) := by
  cases callee' with
  | member obj' prop' cs' =>
    obtain ⟨obj, p2, cs2, rfl⟩ := Er_strip_member hc
    have hD := hDc
    simp only [Deep] at hD
    obtain ⟨rfl, hEo, hEp, hDo, _, _⟩ := hD
    have hso : srcOk obj = true := srcOk_kids hsc obj (by simp [kids])
    cases prop' with
    | pname m msp =>
      have hp2 := Er_strip_pname (hEp.er cx)
      have plain := replaceCallWithMember_plain_Er cfg cx lo hi obj' obj m msp (.member obj' (.pname m msp) cs2) cargs' cargs csp
        p2 cs2 s hw hlo (hEo.er cx) hp2 ha
      cases obj' with
      | lit k v r lsp =>
        simp only [toDdCall]
        split
        · exact plain
        · exact none_Er cx lo s _
      | ident nm isp => simp only [toDdCall]; exact plain
      | call c as sp2 => simp only [toDdCall]; exact plain
      | paren e psp => simp only [toDdCall]; exact plain
      | array es asp => simp only [toDdCall]; exact plain
      | member o' p' sp' =>
        simp only [toDdCall]
        split
        · obtain ⟨o, p, sp2, rfl⟩ := Er_strip_member (hEo.er cx)
          have hsp : sp2 = sp' := by
            have := hDo; simp only [Deep] at this; exact this.1
          subst hsp
          exact replacePrototype_Er cfg cx lo hi cargs' cargs csp _ o' p' sp2 o p m p2 cs2 s hw hlo hp2 (hEo.er cx) hDo
            (srcOk_kids hso o (by simp [kids])) ha hAA hclash
        · split
          · exact plain
          · exact none_Er cx lo s _
      | _ => simp only [toDdCall]; exact none_Er cx lo s _
    | _ => simp only [toDdCall]; exact none_Er cx lo s _
  | ident nm isp =>
    simp only [toDdCall]
    exact replaceCallWithoutCallee_Er cfg cx lo hi nm isp callee cargs' cargs csp s hw hlo hc ha
  | _ => simp only [toDdCall]; exact none_Er cx lo s _

end IastModel

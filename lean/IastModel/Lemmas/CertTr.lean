import IastModel.Lemmas.Cert
namespace IastModel
open Node

/-- result of a transform: `ddParen first args asg name sp` with a certificate for the hook call -/
def CertRes (cfg : Config) (e' : Node) : Prop :=
  ∃ first args asg name sp, e' = ddParen first args asg name sp ∧ Cert cfg name first args ∧ noBlkL args = true

theorem toDdBinary_cert (cfg : Config) (l r : Node) (sp : Span) (s : St) :
    ∀ e', (toDdBinary cfg (.bin "+" l r sp) s).1 = some e' → CertRes cfg e' := by
  intro e' he
  simp only [toDdBinary, run_bind] at he
  have p1 := replaceExpr_push l (getIdentMode r) [] [] sp .expr false s
  have n1 := replaceExpr_nb l (getIdentMode r) [] [] sp .expr false s
  generalize replaceExpr l (getIdentMode r) [] [] sp .expr false s = R1 at he p1 n1
  obtain ⟨⟨l', asg1, args1⟩, s1⟩ := R1
  simp only at he p1 n1
  have p2 := replaceExpr_push r (getIdentMode l') asg1 args1 sp .expr false s1
  have n2 := replaceExpr_nb r (getIdentMode l') asg1 args1 sp .expr false s1
  generalize replaceExpr r (getIdentMode l') asg1 args1 sp .expr false s1 = R2 at he p2 n2
  obtain ⟨⟨r', asg2, args2⟩, s2⟩ := R2
  simp only at he p2 n2
  split at he
  · simp only [run_pure, Option.some.injEq] at he
    refine ⟨.bin "+" l' r' sp, args2, asg2, cfg.plusName, sp, he.symm, ?_, ?_⟩
    · apply Cert.plus
      rw [p2, p1]
      have a := Mir.pushOf l' none
      have b := Mir.pushOf r' none
      have := Mir.append a b
      simpa [pushOfX, kindOf] using this
    · rw [p2, p1]; simp only [List.nil_append, noBlkL_append, n1, n2, Bool.and_self]
  · simp [run_pure] at he

theorem toDdAssign_cert (cfg : Config) (op : String) (left r : Node) (sp : Span) (s : St) :
    ∀ e', (toDdAssign cfg (.assign op left r sp) s).1 = some e' →
      ∃ target e1, e' = .assign "=" target e1 sp ∧ CertRes cfg e1 := by
  intro e' he
  simp only [toDdAssign] at he
  by_cases hp : isPatternTarget left = true
  · simp [hp, run_pure] at he
  · simp only [hp, Bool.false_eq_true, if_false, run_bind] at he
    generalize splitMemberTarget left sp s = R1 at he
    obtain ⟨⟨target, operand⟩, s1⟩ := R1
    simp only at he
    have h2 := toDdBinary_cert cfg operand (assignRhs r) sp s1
    generalize toDdBinary cfg (.bin "+" operand (assignRhs r) sp) s1 = R2 at he h2
    obtain ⟨res, s2⟩ := R2
    cases res with
    | none => simp [run_pure] at he
    | some e1 =>
      simp only [run_pure, Option.some.injEq] at he
      exact ⟨target, e1, he.symm, h2 e1 rfl⟩

theorem toDdTpl_cert (cfg : Config) (es qs : List Node) (sp : Span) (s : St) :
    ∀ e', (toDdTpl cfg (.tpl es qs sp) s).1 = some e' → CertRes cfg e' := by
  intro e' he
  simp only [toDdTpl, run_bind, run_pure] at he
  have p1 := replaceTplExprs_push es [] [] s
  have na := replaceTplExprs_notArg es [] [] s
  have nb := replaceTplExprs_nb es [] [] s
  generalize replaceTplExprs es [] [] s = R1 at he p1 na nb
  obtain ⟨⟨es', asg, args⟩, s1⟩ := R1
  simp only [Option.some.injEq] at he p1 na nb
  refine ⟨.tpl es' qs sp, args, asg, cfg.tplName, sp, he.symm, ?_, ?_⟩
  · apply Cert.tpl _ _ _ _ na
    rw [p1]
    simp only [List.nil_append]
    rw [map_singleton_flatten mirrorOf es']
    apply Mir.flatten
    intro x hx
    rw [mirrorOf_notArg (na x hx)]
    exact Mir.pushOf x none
  · rw [p1]; simpa using nb

/-! ### calls -/

theorem replaceCallCalleeAndArgs_cert (callee : Node) (cargs : List Node) (csp : Span) (identCallee : Option Node)
    (asg args : List Node) (coa : Option String) (s : St) :
    let R := replaceCallCalleeAndArgs callee cargs csp identCallee asg args coa s
    let propName := coa.getD Generated.callMethodName
    ∃ cargs' P, R.1.1 = .call (match identCallee with
        | some i => Node.member i (.pname propName csp) csp
        | none => callee) cargs' csp ∧
      R.1.2.2 = args ++ P ∧ Mir P (expArgs (propName == Generated.applyMethodName) (callArgs cargs')) ∧
      noBlkL P = true ∧ cargs'.map flagsOf = cargs.map flagsOf := by
  simp only [replaceCallCalleeAndArgs, run_bind, run_pure]
  generalize hE : ((coa.getD Generated.callMethodName) == Generated.applyMethodName) = expand
  have h := replaceArgs_push .replace csp expand cargs asg args s
  have hf := replaceArgs_flags .replace csp expand cargs asg args s
  have hn := replaceArgs_nb .replace csp expand cargs asg args s
  generalize replaceArgs .replace csp expand cargs asg args s = R at h hf hn
  obtain ⟨⟨cargs', asg', args'⟩, s'⟩ := R
  simp only at h hf hn
  refine ⟨cargs', _, rfl, h, ?_, hn, hf⟩
  rw [pushes_callArgs]
  unfold expArgs
  apply Mir.flatten
  intro x hx
  exact Mir_argX expand x (callArgs_isArg _ x hx)

def CertRes2 (cfg : Config) (R : Option (Node × String) × St) : Prop :=
  ∀ e' tag, R.1 = some (e', tag) → CertRes cfg e'

theorem certRes2_none (cfg : Config) (s : St) : CertRes2 cfg ((none : Option (Node × String)), s) := by
  intro e' tag h; cases h

theorem replaceCallWithoutCallee_cert (cfg : Config) (name : Name) (isp : Span) (cargs : List Node) (csp : Span) (s : St) :
    CertRes2 cfg (replaceCallWithoutCallee cfg name isp (.ident name isp) cargs csp s) := by
  unfold replaceCallWithoutCallee
  cases name with
  | temp k => exact certRes2_none _ _
  | user method =>
    simp only
    cases hg : cfg.get method with
    | none => exact certRes2_none _ _
    | some csi =>
      simp only
      by_cases hal : csi.allowedWithoutCallee = true
      · simp only [hal, if_true, run_bind, run_pure]
        have hcs := replaceCallCalleeAndArgs_cert (.ident (.user method) isp) cargs csp none []
          [Node.arg none (.ident (.user method) isp), .arg none (.ident (.user "undefined") csp)] none s
        generalize replaceCallCalleeAndArgs (.ident (.user method) isp) cargs csp none []
          [Node.arg none (.ident (.user method) isp), .arg none (.ident (.user "undefined") csp)] none s = R at hcs
        obtain ⟨⟨callRepl, asg3, args3⟩, s3⟩ := R
        simp only at hcs
        obtain ⟨cargs', P, hcr, hargs, hm, hn, _⟩ := hcs
        subst hcr
        intro e' tag hres
        simp only [Option.some.injEq, Prod.mk.injEq] at hres
        refine ⟨_, _, _, _, _, hres.1.symm, ?_, ?_⟩
        · rw [hargs]
          simp only [Option.getD_none, call_ne_apply, expArgs_false] at hm
          exact Cert.bare _ _ _ _ _ _ _ hm
        · rw [hargs]; simp [hn]
      · simp only [hal, Bool.false_eq_true, if_false, run_pure]
        exact certRes2_none _ _

theorem rcwmTail_cert (cfg : Config) (dst method : String) (identReplacement memberExpr expr callee : Node) (cargs asg0 : List Node)
    (csp : Span) (coa : Option String) (s0 : St)
    (lme : memberExpr.isLit = false) (nir : noBlk identReplacement = true) (hcoa : ∀ x, coa = some x → isCallOrApply x = true) :
    CertRes2 cfg (rcwmTail dst method identReplacement memberExpr expr callee cargs asg0 csp coa s0) := by
  unfold rcwmTail
  simp only [run_bind, run_pure]
  rcases getIdentUsed_cases memberExpr asg0 [] csp .expr s0 with ⟨hl, _⟩ | ⟨_, n1, s1, h1, _⟩
  · rw [lme] at hl; cases hl
  · rw [h1]
    simp only
    have hcs := replaceCallCalleeAndArgs_cert callee cargs csp (some (tempIdent n1))
      (asg0 ++ [.assign "=" (tempIdent n1) (assignRight memberExpr .expr) csp])
      ([] ++ [exprOrSpread (tempIdent n1) .expr] ++ [.arg none identReplacement]) coa s1
    generalize replaceCallCalleeAndArgs callee cargs csp (some (tempIdent n1))
      (asg0 ++ [.assign "=" (tempIdent n1) (assignRight memberExpr .expr) csp])
      ([] ++ [exprOrSpread (tempIdent n1) .expr] ++ [.arg none identReplacement]) coa s1 = R at hcs
    obtain ⟨⟨callRepl, asg3, args3⟩, s3⟩ := R
    simp only at hcs
    obtain ⟨cargs', P, hcr, hargs, hm, hn, _⟩ := hcs
    subst hcr
    intro e' tag hres
    simp only [Option.some.injEq, Prod.mk.injEq] at hres
    refine ⟨_, _, _, _, _, hres.1.symm, ?_, ?_⟩
    · rw [hargs]
      simp only [insertThis, List.nil_append, List.cons_append, exprOrSpread]
      rcases propName_cases coa hcoa with hp | hp
      · rw [hp] at hm ⊢
        simp only [call_ne_apply, expArgs_false] at hm
        exact Cert.call _ _ _ _ _ _ _ _ _ (by rw [expected_call, callArgs_cons_arg]) (Mir.cons _ (Mir.cons _ hm))
      · rw [hp] at hm ⊢
        simp only [beq_self_eq_true] at hm
        exact Cert.call _ _ _ _ _ _ _ _ _ (expected_apply_this _ _ _ _ _ _ _ (callArgs_cons_arg _ _ _) rfl) (Mir.cons _ (Mir.cons _ hm))
    · rw [hargs]; simp [hn, nir]

theorem identOr_noBlk (expr : Node) (csp : Span) (s : St) :
    noBlk (identOr (getTemporalIdent expr [] csp .expr s).1.1 expr) = true := by
  rcases getTemporalIdent_cases expr [] csp .expr s with ⟨hl, h⟩ | ⟨hl, n, s', h, _⟩
  · rw [h]; exact isLit_noBlk hl
  · rw [h]; simp [identOr]

theorem replaceCallWithMember_cert (cfg : Config) (expr : Node) (method : String) (msp : Span)
    (callee : Node) (cargs : List Node) (csp : Span) (memberOpt : Option Node) (coa : Option String) (s : St)
    (hm : ∀ m, memberOpt = some m → m.isLit = false)
    (hcoa : ∀ x, coa = some x → isCallOrApply x = true) :
    CertRes2 cfg (replaceCallWithMember cfg expr method msp callee cargs csp memberOpt coa s) := by
  cases hg : cfg.get method with
  | none =>
    unfold replaceCallWithMember
    simp only [hg]
    exact certRes2_none _ _
  | some csi =>
    rw [replaceCallWithMember_unfold _ _ _ _ _ _ _ _ _ _ csi hg]
    simp only
    apply rcwmTail_cert cfg _ _ _ _ _ _ _ _ _ _ _ ?_ (identOr_noBlk expr csp s) hcoa
    cases memberOpt with
    | none => simp [memberOr, Node.isLit]
    | some m => simp [memberOr, hm m rfl]

theorem replaceCallSpreadWithMember_cert (cfg : Config) (method : String)
    (callee : Node) (this : Node) (rest : List Node) (csp : Span) (memberExpr : Node) (coa : String) (s : St)
    (hsp : argIsSpread this = true) (hcoa : isCallOrApply coa = true) :
    CertRes2 cfg (replaceCallSpreadWithMember cfg method callee (this :: rest) csp memberExpr coa s) := by
  unfold replaceCallSpreadWithMember
  cases hg : cfg.get method with
  | none => exact certRes2_none _ _
  | some csi =>
    simp only [run_bind, run_pure]
    rcases getIdentUsed_cases memberExpr [] [] csp .expr s with ⟨hl, h1⟩ | ⟨_, n1, s1, h1, _⟩
    · rw [h1]; exact certRes2_none _ _
    · rw [h1]
      simp only [run_bind, run_pure]
      have hcs := replaceCallCalleeAndArgs_cert callee (this :: rest) csp (some (tempIdent n1))
        ([] ++ [.assign "=" (tempIdent n1) (assignRight memberExpr .expr) csp])
        ([] ++ [exprOrSpread (tempIdent n1) .expr]) (some coa) s1
      generalize replaceCallCalleeAndArgs callee (this :: rest) csp (some (tempIdent n1))
        ([] ++ [.assign "=" (tempIdent n1) (assignRight memberExpr .expr) csp])
        ([] ++ [exprOrSpread (tempIdent n1) .expr]) (some coa) s1 = R at hcs
      obtain ⟨⟨callRepl, asg3, args3⟩, s3⟩ := R
      simp only at hcs
      obtain ⟨cargs', P, hcr, hargs, hm, hn, hf⟩ := hcs
      subst hcr
      intro e' tag hres
      simp only [Option.some.injEq, Prod.mk.injEq] at hres
      refine ⟨_, _, _, _, _, hres.1.symm, ?_, ?_⟩
      · rw [hargs]
        simp only [List.nil_append, List.cons_append, exprOrSpread, Option.getD_some] at hm ⊢
        rcases isCallOrApply_cases hcoa with hp | hp
        · rw [hp] at hm ⊢
          simp only [call_ne_apply, expArgs_false] at hm
          exact Cert.call _ _ _ _ _ _ _ _ _ (expected_call _ _ _ _ _) (Mir.cons _ hm)
        · rw [hp] at hm ⊢
          simp only [beq_self_eq_true] at hm
          cases cargs' with
          | nil => simp at hf
          | cons this' rest' =>
            simp only [List.map_cons, List.cons.injEq] at hf
            have hs' : isSpreadArg this' = true := by
              have h2 := congrArg Prod.snd hf.1
              simp only [flagsOf] at h2
              rw [h2, ← argIsSpread_eq]; exact hsp
            have ha' : callArgs (this' :: rest') = this' :: callArgs rest' := by
              cases this' with
              | arg s0 e0 => exact callArgs_cons_arg _ _ _
              | _ => simp [isSpreadArg] at hs'
            exact Cert.call _ _ _ _ _ _ _ _ _ (expected_apply_spread _ _ _ _ _ _ _ ha' hs') (Mir.cons _ hm)
      · rw [hargs]; simp [hn]

theorem replacePrototypeCallOrApply_cert (cfg : Config) (cargs : List Node) (csp : Span) (callee member : Node)
    (coa : String) (s : St) :
    CertRes2 cfg (replacePrototypeCallOrApply cfg cargs csp callee member coa s) := by
  unfold replacePrototypeCallOrApply
  by_cases h1 : isCallOrApply coa = true
  · simp only [h1, Bool.not_true, Bool.false_eq_true, if_false]
    unfold prototypeMethodIdent
    by_cases hsp : isStaticPath member = true
    · simp only [hsp, if_true]
      cases member with
      | member mo mp msp0 =>
        cases mp with
        | pname method msp =>
          simp only
          cases cargs with
          | nil => exact certRes2_none _ _
          | cons th rest =>
            simp only
            by_cases hs : argIsSpread th = true
            · simp only [hs, if_true]
              exact replaceCallSpreadWithMember_cert cfg method callee th rest csp _ coa s hs h1
            · simp only [hs, Bool.false_eq_true, if_false]
              by_cases hinv : invalidArgs coa (th :: rest) = true
              · simp only [hinv, if_true]; exact certRes2_none _ _
              · simp only [hinv, Bool.false_eq_true, if_false]
                split
                · exact certRes2_none _ _
                · exact replaceCallWithMember_cert cfg (argExpr th) method msp _ rest csp
                    (some (.member mo (.pname method msp) msp0)) (some coa) s
                    (by intro m hm; cases hm; rfl)
                    (by intro x hx; cases hx; exact h1)
        | _ => simp [isStaticPath] at hsp
      | _ => simp [isStaticPath] at hsp
    · simp only [hsp, Bool.false_eq_true, if_false]; exact certRes2_none _ _
  · simp only [h1, Bool.not_false, if_true]; exact certRes2_none _ _

theorem toDdCall_cert (cfg : Config) (callee : Node) (cargs : List Node) (csp : Span) (s : St) :
    CertRes2 cfg (toDdCall cfg (.call callee cargs csp) s) := by
  unfold toDdCall
  cases callee with
  | member obj prop msp0 =>
    cases prop with
    | pname m msp =>
      have key := fun (_ : Unit) => replaceCallWithMember_cert cfg obj m msp (.member obj (.pname m msp) msp0) cargs csp none none s
        (by intro m hm; cases hm) (by intro x hx; cases hx)
      cases obj with
      | lit k v r lsp =>
        simp only
        split
        · exact key ()
        · exact certRes2_none _ _
      | ident nm isp => exact key ()
      | call c as csp2 => exact key ()
      | paren e psp => exact key ()
      | array es asp => exact key ()
      | member o2 p2 msp2 =>
        simp only
        split
        · exact replacePrototypeCallOrApply_cert cfg cargs csp _ _ m s
        · split
          · exact key ()
          · exact certRes2_none _ _
      | _ => exact certRes2_none _ _
    | _ => exact certRes2_none _ _
  | ident name isp => exact replaceCallWithoutCallee_cert cfg name isp cargs csp s
  | _ => exact certRes2_none _ _

end IastModel

import IastModel.Lemmas.CwBlock
namespace IastModel
open Node

/-- a tree that does not mention the namespace contains no hook call -/
theorem cq_of_ns0 (q : Node → Bool) : ∀ n : Node, ns n = 0 → cq q n = 0 := by
  apply Node.ind
  intro n ih h0
  rw [cq_eq]
  have hk : ∀ k ∈ n.kids, ns k = 0 := fun k hk => nsL_eq_zero _ (nsL_kids_of_ns0 h0) k hk
  have hL : ∀ l : List Node, (∀ k ∈ l, k ∈ n.kids) → cqL q l = 0 := by
    intro l
    induction l with
    | nil => intro _; rfl
    | cons x xs ihl =>
      intro hm
      simp only [cqL_cons]
      rw [ih x (hm x (by simp)) (hk x (hm x (by simp))), ihl (fun k hk => hm k (by simp [hk]))]
  rw [hL n.kids (fun k hk => hk)]
  simp [isBadHook, isHook_of_ns0 h0]

/-- no counted site ⇒ every hook site of the tree fails `q` -/
theorem cq_zero_hooks (q : Node → Bool) : ∀ n : Node, cq q n = 0 → ∀ h ∈ hooks n, q h = false := by
  apply Node.ind
  intro n ih h0 h hh
  rw [cq_eq] at h0
  rw [hooks_eq] at hh
  have hL : ∀ l : List Node, (∀ k ∈ l, k ∈ n.kids) → cqL q l = 0 → h ∈ hooksL l → q h = false := by
    intro l
    induction l with
    | nil => intro _ _ hm; simp at hm
    | cons x xs ihl =>
      intro hm hz hmem
      simp only [cqL_cons] at hz
      simp only [hooksL_cons, List.mem_append] at hmem
      rcases hmem with hmem | hmem
      · exact ih x (hm x (by simp)) (by omega) h hmem
      · exact ihl (fun k hk => hm k (by simp [hk])) (by omega) hmem
  simp only [List.mem_append] at hh
  rcases hh with hh | hh
  · by_cases hi : isHook n = true
    · simp only [hi, if_true, List.mem_singleton] at hh
      subst hh
      cases hq : q h
      · rfl
      · simp [isBadHook, hi, hq] at h0
    · simp [hi] at hh
  · exact hL n.kids (fun k hk => hk) (by omega) hh

/-- **Every hook call of the instrumented program mirrors the operation in its first argument.**  For
    every configuration, fuel and program (hypotheses as in `master`), unless the rewrite is refused: every
    hook call site `h` of the output is accepted by the specification `argsMirrorSite` — (result, left,
    right) for `+`/`+=`, (result, substitutions…) for templates, (result, function, receiver, arguments…)
    for method calls, `apply` arrays element by element, spreads re-spread — or is classified as the recorded
    omission: a `+` chain that is not made of literals only is among the operands and was not passed on. -/
theorem hooks_mirror_master (cfg : Config) (fuel : Nat) (p : Node) (h0 : ns p = 0) (ht : targetsOk p = true)
    (hnc : (transformProgram cfg fuel p).status ≠ .cancelled) :
    ∀ h ∈ hooks (transformProgram cfg fuel p).out, MirOK cfg h := by
  unfold transformProgram at hnc ⊢
  simp only [StateT.run] at hnc ⊢
  by_cases hr : hasReserved (tempPrefix cfg.localVarPrefix) p = true
  · exact absurd (programVisit_reserved cfg _ fuel p {} hr) hnc
  · simp only [Bool.not_eq_true] at hr
    simp only [programVisit_eq cfg _ fuel p {} hr] at hnc ⊢
    have hs0 : StOk ({} : St) := by intro h; cases h
    have hcfg := cfgOk_dsts cfg
    have hhooks : hooks (if (mapKidsM mapM' (blockVisit cfg fuel fuel) p {}).2.status = Status.modified
        then insertPrologue (prologue cfg.dsts) (mapKidsM mapM' (blockVisit cfg fuel fuel) p {}).1
        else (mapKidsM mapM' (blockVisit cfg fuel fuel) p {}).1) = hooks (mapKidsM mapM' (blockVisit cfg fuel fuel) p {}).1 := by
      split
      · rw [hooks_insertPrologue _ _ (hooks_prologue cfg.dsts)]
      · rfl
    rw [hhooks]
    suffices hz : cw cfg (mapKidsM mapM' (blockVisit cfg fuel fuel) p {}).1 = 0 by
      intro h hh
      exact (robust_of_notRobust_false (cq_zero_hooks _ _ hz h hh)).ok
    simp only [mapKidsM, run_bind, run_pure] at hnc ⊢
    have hlist := mapBlock_W cfg (okCfg cfg) (blockVisit cfg fuel fuel)
      (fun k s hs hg => blockVisit_W (okCfg cfg) cfg hcfg fuel fuel k s hs hg)
      (fun k s h => blockVisit_canc cfg fuel fuel k s h)
    have hspec := mapBlock_spec (okCfg cfg) (blockVisit cfg fuel fuel)
      (fun k s hs hg => blockVisit_spec (okCfg cfg) cfg hcfg fuel fuel k s hs hg)
      (fun k s h => blockVisit_canc cfg fuel fuel k s h)
    have hb0 : bad p = 0 := (bad_zero_iff p).mpr ht
    have hk : goodL (okCfg cfg) true p.kids = true := by
      apply goodL_of_ns0
      · exact nsL_kids_of_ns0 h0
      · rw [bad_eq] at hb0; omega
    have hkz : cwL cfg p.kids = 0 := by
      have := cq_of_ns0 (notRobust cfg) p h0
      rw [cq_eq] at this
      simp only [cwL]; omega
    have e3 := hlist p.kids {} hs0 hk hnc hkz
    obtain ⟨g3, l3, _⟩ := hspec p.kids {} hs0 hk hnc
    rw [cw_eq', Node.kids_withKids p _ l3, e3]
    have hterm : isBadHook (notRobust cfg) (p.withKids (mapM' (blockVisit cfg fuel fuel) p.kids {}).1) = false := by
      have hh : isHook (p.withKids (mapM' (blockVisit cfg fuel fuel) p.kids {}).1) = false := by
        cases p with
        | call c as sp =>
          match hks : (mapM' (blockVisit cfg fuel fuel) (Node.call c as sp).kids {}).1, l3, g3 with
          | c' :: as', _, g3 =>
            simp only [goodL_cons, Bool.and_eq_true] at g3
            simp only [withKids, List.getD_cons_zero, List.drop_succ_cons, List.drop_zero]
            exact isHook_of_none (hookName?_call_none _ _ g3.1)
        | _ =>
          apply isHook_false_of_not_call
          intro c as sp h
          simp [withKids] at h
      simp [isBadHook, hh]
    simp [hterm]

end IastModel

import IastModel.Lemmas.Temps
namespace IastModel
open Node

/-- the set of temporaries to declare only grows -/
def IdSub (s s' : St) : Prop := ∀ k ∈ s.idents, k ∈ s'.idents

theorem IdSub.refl (s : St) : IdSub s s := fun _ h => h
theorem IdSub.trans {a b c : St} (h1 : IdSub a b) (h2 : IdSub b c) : IdSub a c := fun k h => h2 k (h1 k h)

theorem tgood_lift {s s' : St} (h : IdSub s s') {n : Node} (hg : tgood s.idents n = true) : tgood s'.idents n = true :=
  tgood_mono h n hg
theorem tgoodL_lift {s s' : St} (h : IdSub s s') {l : List Node} (hg : tgoodL s.idents l = true) : tgoodL s'.idents l = true :=
  tgoodL_mono h l hg

theorem registerIdent_ids (n : Nat) (s : St) : IdSub s (registerIdent n s).2 ∧ n ∈ (registerIdent n s).2.idents := by
  simp only [registerIdent, run_modify]
  by_cases h : s.idents.contains n = true
  · rw [if_pos h]; exact ⟨IdSub.refl s, by simpa using h⟩
  · rw [if_neg h]; exact ⟨fun k hk => by simp [hk], by simp⟩

theorem getTemporalIdent_casesT (operand : Node) (asg : List Node) (sp : Span) (k : IdentKind) (s : St) :
    (operand.isLit = true ∧ getTemporalIdent operand asg sp k s = ((none, asg), s)) ∨
    (operand.isLit = false ∧ ∃ n s', getTemporalIdent operand asg sp k s =
        ((some n, asg ++ [.assign "=" (tempIdent n) (assignRight operand k) sp]), s') ∧ IdSub s s' ∧ n ∈ s'.idents) := by
  unfold getTemporalIdent
  by_cases hl : operand.isLit = true
  · left; simp [hl, run_pure]
  · right
    simp only [Bool.not_eq_true] at hl
    refine ⟨hl, ?_⟩
    simp only [hl, Bool.false_eq_true, if_false, run_bind, run_pure]
    have := registerIdent_ids (nextIdent s).1 (nextIdent s).2
    refine ⟨_, _, rfl, ?_, this.2⟩
    exact IdSub.trans (fun k hk => hk) this.1

theorem getIdentUsed_casesT (operand : Node) (asg args : List Node) (sp : Span) (k : IdentKind) (s : St) :
    (operand.isLit = true ∧ getIdentUsed operand asg args sp k s = ((none, asg, args ++ [exprOrSpread operand k]), s)) ∨
    (operand.isLit = false ∧ ∃ n s', getIdentUsed operand asg args sp k s =
        ((some n, asg ++ [.assign "=" (tempIdent n) (assignRight operand k) sp], args ++ [exprOrSpread (tempIdent n) k]), s') ∧
        IdSub s s' ∧ n ∈ s'.idents) := by
  unfold getIdentUsed
  rcases getTemporalIdent_casesT operand asg sp k s with ⟨hl, h⟩ | ⟨hl, n, s', h, hi, hn⟩
  · left; simp [hl, run_bind, run_pure, h]
  · right; exact ⟨hl, n, s', by simp [run_bind, run_pure, h], hi, hn⟩

theorem tgood_assignRight (σ) (e : Node) (k : IdentKind) : tgood σ (assignRight e k) = tgood σ e := by
  cases k <;> simp [assignRight]
theorem tgood_exprOrSpread (σ) (e : Node) (k : IdentKind) : tgood σ (exprOrSpread e k) = tgood σ e := by
  cases k <;> simp [exprOrSpread]

/-- what every operand-handler function guarantees about temporaries -/
def OpT (e : Node) (asg args : List Node) (R : (Node × List Node × List Node) × St) (s : St) : Prop :=
  tgood s.idents e = true → tgoodL s.idents asg = true → tgoodL s.idents args = true →
    tgood R.2.idents R.1.1 = true ∧ tgoodL R.2.idents R.1.2.1 = true ∧ tgoodL R.2.idents R.1.2.2 = true ∧ IdSub s R.2

def OpTL (xs : List Node) (asg args : List Node) (R : (List Node × List Node × List Node) × St) (s : St) : Prop :=
  tgoodL s.idents xs = true → tgoodL s.idents asg = true → tgoodL s.idents args = true →
    tgoodL R.2.idents R.1.1 = true ∧ tgoodL R.2.idents R.1.2.1 = true ∧ tgoodL R.2.idents R.1.2.2 = true ∧ IdSub s R.2

theorem opT_same (e : Node) (asg args : List Node) (s : St) (extra : List Node) (hx : tgood s.idents e = true → tgoodL s.idents extra = true) :
    OpT e asg args ((e, asg, args ++ extra), s) s := by
  intro he ha hg
  exact ⟨he, ha, by simp [hg, hx he], IdSub.refl s⟩

theorem replaceDefault_T (e : Node) (asg args : List Node) (sp : Span) (k : IdentKind) (s : St) :
    OpT e asg args (replaceDefault e asg args sp k s) s := by
  intro he ha hg
  unfold replaceDefault
  simp only [run_bind, run_pure]
  rcases getIdentUsed_casesT e asg args sp k s with ⟨hl, h⟩ | ⟨hl, n, s', h, hi, hn⟩
  · rw [h]; exact ⟨he, ha, by simp [hg, tgood_exprOrSpread, he], IdSub.refl s⟩
  · rw [h]
    exact ⟨by simp [tempIdent, hn], by simp [tgoodL_lift hi ha, tempIdent, hn, tgood_assignRight, tgood_lift hi he],
      by simp [tgoodL_lift hi hg, tgood_exprOrSpread, tempIdent, hn], hi⟩

theorem replaceExprNoExpand_T (e : Node) (mode : IdentMode) (asg args : List Node) (sp : Span) (k : IdentKind) (s : St) :
    OpT e asg args (replaceExprNoExpand e mode asg args sp k s) s := by
  cases e with
  | lit kk v r lsp =>
    simp only [replaceExprNoExpand, run_pure]
    exact opT_same _ asg args s _ (by intro h; simp [tgood_exprOrSpread])
  | ident nm isp =>
    cases mode with
    | replace => simp only [replaceExprNoExpand]; exact replaceDefault_T _ _ _ _ _ _
    | keep =>
      simp only [replaceExprNoExpand, run_pure]
      exact opT_same _ asg args s _ (by intro h; simp [tgood_exprOrSpread, h])
  | bin op l r bsp =>
    simp only [replaceExprNoExpand]
    by_cases hop : (op != "+") = true
    · simp only [hop, if_true]; exact replaceDefault_T _ _ _ _ _ _
    · simp only [hop, Bool.false_eq_true, if_false]
      by_cases hls : isLiteralSum (.bin op l r bsp) = true
      · simp only [hls, if_true, run_pure]
        exact opT_same _ asg args s _ (by intro h; simp [tgood_exprOrSpread, h])
      · simp only [hls, Bool.false_eq_true, if_false, run_pure]
        have := opT_same (.bin op l r bsp) asg args s [] (by intro _; rfl)
        simpa using this
  | _ => simp only [replaceExprNoExpand]; exact replaceDefault_T _ _ _ _ _ _

theorem replaceArgNoExpand_T (a : Node) (mode : IdentMode) (asg args : List Node) (sp : Span) (s : St) :
    OpT a asg args (replaceArgNoExpand a mode asg args sp s) s := by
  intro he ha hg
  cases a with
  | arg spread e =>
    simp only [replaceArgNoExpand, run_bind, run_pure]
    have h := replaceExprNoExpand_T e mode asg args sp (if spread.isSome = true then IdentKind.spread else IdentKind.expr) s (by simpa using he) ha hg
    simpa using h
  | _ => simp_all [replaceArgNoExpand, run_pure, IdSub.refl]

theorem replaceElem_T (a : Node) (mode : IdentMode) (asg args : List Node) (sp : Span) (s : St) :
    OpT a asg args (replaceElem a mode asg args sp s) s := by
  intro he ha hg
  cases a with
  | arg spread e => exact replaceArgNoExpand_T _ mode asg args sp s he ha hg
  | _ => simp_all [replaceElem, run_pure, IdSub.refl, voidZero]

end IastModel

namespace IastModel
open Node

/-- sequencing rule for list traversals of operand-handler functions -/
theorem opTL_cons (g : Node → List Node → List Node → M (Node × List Node × List Node))
    (gs : List Node → List Node → List Node → M (List Node × List Node × List Node))
    (x : Node) (xs asg args : List Node) (s : St)
    (h1 : OpT x asg args (g x asg args s) s)
    (h2 : ∀ asg1 args1 s1, OpTL xs asg1 args1 (gs xs asg1 args1 s1) s1) :
    OpTL (x :: xs) asg args
      (let R1 := g x asg args s
       let R2 := gs xs R1.1.2.1 R1.1.2.2 R1.2
       ((R1.1.1 :: R2.1.1, R2.1.2.1, R2.1.2.2), R2.2)) s := by
  intro hx ha hg
  simp only [tgoodL_cons, Bool.and_eq_true] at hx
  obtain ⟨g1, g2, g3, i1⟩ := h1 hx.1 ha hg
  obtain ⟨k1, k2, k3, i2⟩ := h2 _ _ _ (tgoodL_lift i1 hx.2) g2 g3
  exact ⟨by simp [tgood_lift i2 g1, k1], k2, k3, IdSub.trans i1 i2⟩

theorem replaceElems_T (mode : IdentMode) (sp : Span) : ∀ (xs asg args : List Node) (s : St),
    OpTL xs asg args (replaceElems mode sp xs asg args s) s := by
  intro xs
  induction xs with
  | nil => intro asg args s _ ha hg; simp [replaceElems, run_pure, ha, hg, IdSub.refl]
  | cons x xs ih =>
    intro asg args s
    have := opTL_cons (fun a b c => replaceElem a mode b c sp) (fun a b c => replaceElems mode sp a b c) x xs asg args s
      (replaceElem_T x mode asg args sp s) (fun a b c => ih a b c)
    simpa only [replaceElems, run_bind, run_pure] using this

theorem replaceExpr_T (e : Node) (mode : IdentMode) (asg args : List Node) (sp : Span) (k : IdentKind)
    (expand : Bool) (s : St) : OpT e asg args (replaceExpr e mode asg args sp k expand s) s := by
  unfold replaceExpr
  split
  · rename_i elems asp
    intro he ha hg
    simp only [run_bind, run_pure]
    have h := replaceElems_T mode sp elems asg args s (by simpa using he) ha hg
    generalize replaceElems mode sp elems asg args s = R at h
    obtain ⟨⟨xs', asg2, args2⟩, s2⟩ := R
    simpa using h
  · exact replaceExprNoExpand_T e mode asg args sp k s

theorem replaceArg_T (a : Node) (mode : IdentMode) (asg args : List Node) (sp : Span) (expand : Bool) (s : St) :
    OpT a asg args (replaceArg a mode asg args sp expand s) s := by
  intro he ha hg
  cases a with
  | arg spread e =>
    simp only [replaceArg, run_bind, run_pure]
    have h := replaceExpr_T e mode asg args sp (if spread.isSome = true then IdentKind.spread else IdentKind.expr) expand s (by simpa using he) ha hg
    simpa using h
  | _ => simp_all [replaceArg, run_pure, IdSub.refl]

theorem replaceArgs_T (mode : IdentMode) (sp : Span) (expand : Bool) : ∀ (xs asg args : List Node) (s : St),
    OpTL xs asg args (replaceArgs mode sp expand xs asg args s) s := by
  intro xs
  induction xs with
  | nil => intro asg args s _ ha hg; simp [replaceArgs, run_pure, ha, hg, IdSub.refl]
  | cons x xs ih =>
    intro asg args s
    have := opTL_cons (fun a b c => replaceArg a mode b c sp expand) (fun a b c => replaceArgs mode sp expand a b c) x xs asg args s
      (replaceArg_T x mode asg args sp expand s) (fun a b c => ih a b c)
    simpa only [replaceArgs, run_bind, run_pure] using this

theorem replaceTplExprs_T : ∀ (xs asg args : List Node) (s : St),
    OpTL xs asg args (replaceTplExprs xs asg args s) s := by
  intro xs
  induction xs with
  | nil => intro asg args s _ ha hg; simp [replaceTplExprs, run_pure, ha, hg, IdSub.refl]
  | cons x xs ih =>
    intro asg args s
    have hx : OpT x asg args (replaceExpr (tplOperand x) .replace asg args x.span .expr false s) s := by
      intro he ha hg
      have : tgood s.idents (tplOperand x) = true := by unfold tplOperand; split <;> simp [he]
      exact replaceExpr_T (tplOperand x) .replace asg args x.span .expr false s this ha hg
    have := opTL_cons (fun a b c => replaceExpr (tplOperand a) .replace b c a.span .expr false) (fun a b c => replaceTplExprs a b c) x xs asg args s
      hx (fun a b c => ih a b c)
    simpa only [replaceTplExprs, run_bind, run_pure] using this

end IastModel

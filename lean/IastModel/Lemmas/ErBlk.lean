import IastModel.Lemmas.ErVisitMain
/-
  Every block statement inside what the operation visitor returns is a block statement of its input (or
  the `{ return e }` it wrapped an arrow body of the input in): still a well-formed source block without
  optional chaining, which is what the block visitor's own theorem asks of the nested blocks it enters next.
-/
namespace IastModel
open Node

/-- a block statement fit for the block visitor theorem -/
def Qb (b : Node) : Bool := srcOk b && noOpt b

def bq (k : Node) : Bool := !isBlockNode k || Qb k

/-- every block statement anywhere in the tree is a well-formed source block without optional chaining -/
def blkOk (n : Node) : Bool := Node.all bq n
def blkOkL (l : List Node) : Bool := l.all blkOk

theorem blkOk_eq (n : Node) : blkOk n = (bq n && blkOkL n.kids) := by
  unfold blkOk blkOkL; rw [Node.all_eq]; rfl

@[simp] theorem blkOkL_nil : blkOkL [] = true := rfl
@[simp] theorem blkOkL_cons (x : Node) (xs : List Node) : blkOkL (x :: xs) = (blkOk x && blkOkL xs) := by simp [blkOkL]
@[simp] theorem blkOkL_append (xs ys : List Node) : blkOkL (xs ++ ys) = (blkOkL xs && blkOkL ys) := by simp [blkOkL]

theorem blkOk_nb (n : Node) (h : isBlockNode n = false) : blkOk n = blkOkL n.kids := by
  rw [blkOk_eq]; simp [bq, h]

@[simp] theorem blkOk_atom (s : String) : blkOk (.atom s) = true := by rw [blkOk_nb _ rfl]; rfl
@[simp] theorem blkOk_lit (k v r : String) (sp : Span) : blkOk (.lit k v r sp) = true := by rw [blkOk_nb _ rfl]; rfl
@[simp] theorem blkOk_ident (nm : Name) (sp : Span) : blkOk (.ident nm sp) = true := by rw [blkOk_nb _ rfl]; rfl
@[simp] theorem blkOk_pname (nm : String) (sp : Span) : blkOk (.pname nm sp) = true := by rw [blkOk_nb _ rfl]; rfl
@[simp] theorem blkOk_arr (xs : List Node) : blkOk (.arr xs) = blkOkL xs := by rw [blkOk_nb _ rfl]; rfl
@[simp] theorem blkOk_obj (ns : List String) (vs : List Node) : blkOk (.obj ns vs) = blkOkL vs := by rw [blkOk_nb _ rfl]; rfl
@[simp] theorem blkOk_other (k : String) (sp : Span) (ns : List String) (vs : List Node) : blkOk (.other k sp ns vs) = blkOkL vs := by
  rw [blkOk_nb _ rfl]; rfl
@[simp] theorem blkOk_bin (op : String) (l r : Node) (sp : Span) : blkOk (.bin op l r sp) = (blkOk l && blkOk r) := by
  rw [blkOk_nb _ rfl]; simp [kids]
@[simp] theorem blkOk_assign (op : String) (l r : Node) (sp : Span) : blkOk (.assign op l r sp) = (blkOk l && blkOk r) := by
  rw [blkOk_nb _ rfl]; simp [kids]
@[simp] theorem blkOk_tpl (es qs : List Node) (sp : Span) : blkOk (.tpl es qs sp) = (blkOkL es && blkOkL qs) := by
  rw [blkOk_nb _ rfl]; simp [kids]
@[simp] theorem blkOk_call (c : Node) (as : List Node) (sp : Span) : blkOk (.call c as sp) = (blkOk c && blkOkL as) := by
  rw [blkOk_nb _ rfl]; simp [kids]
@[simp] theorem blkOk_arg (s : Option Span) (e : Node) : blkOk (.arg s e) = blkOk e := by
  rw [blkOk_nb _ rfl]; simp [kids]
@[simp] theorem blkOk_member (o p : Node) (sp : Span) : blkOk (.member o p sp) = (blkOk o && blkOk p) := by
  rw [blkOk_nb _ rfl]; simp [kids]
@[simp] theorem blkOk_unary (op : String) (a : Node) (sp : Span) : blkOk (.unary op a sp) = blkOk a := by
  rw [blkOk_nb _ rfl]; simp [kids]
@[simp] theorem blkOk_arrow (ps : List Node) (b : Node) (a : String) (sp : Span) : blkOk (.arrow ps b a sp) = (blkOkL ps && blkOk b) := by
  rw [blkOk_nb _ rfl]; simp [kids]
@[simp] theorem blkOk_paren (e : Node) (sp : Span) : blkOk (.paren e sp) = blkOk e := by
  rw [blkOk_nb _ rfl]; simp [kids]
@[simp] theorem blkOk_seq (es : List Node) (sp : Span) : blkOk (.seq es sp) = blkOkL es := by rw [blkOk_nb _ rfl]; rfl
@[simp] theorem blkOk_array (es : List Node) (sp : Span) : blkOk (.array es sp) = blkOkL es := by rw [blkOk_nb _ rfl]; rfl
@[simp] theorem blkOk_cond (t c a : Node) (sp : Span) : blkOk (.cond t c a sp) = (blkOk t && blkOk c && blkOk a) := by
  rw [blkOk_nb _ rfl]; simp [kids, Bool.and_assoc]

theorem blkOk_kids {n : Node} (h : blkOk n = true) : ∀ k ∈ n.kids, blkOk k = true := by
  rw [blkOk_eq, Bool.and_eq_true] at h
  intro k hk
  exact List.all_eq_true.mp h.2 k hk

theorem blkOkL_mem {l : List Node} (h : blkOkL l = true) : ∀ k ∈ l, blkOk k = true := List.all_eq_true.mp h

theorem blkOkL_of {l : List Node} (h : ∀ k ∈ l, blkOk k = true) : blkOkL l = true := List.all_eq_true.mpr h

/-- a well-formed source tree without optional chaining has only such blocks -/
theorem blkOk_src : ∀ n : Node, srcOk n = true → noOpt n = true → blkOk n = true := by
  apply Node.ind
  intro n ih hs hn
  rw [blkOk_eq, Bool.and_eq_true]
  refine ⟨?_, blkOkL_of (fun k hk => ih k hk (srcOk_kids hs k hk) (noOpt_kids hn k hk))⟩
  simp [bq, Qb, hs, hn]

theorem blkOk_withKids (n : Node) (ks : List Node) (hb : isBlockNode n = false) (hl : ks.length = n.kids.length)
    (hk : blkOkL ks = true) : blkOk (n.withKids ks) = true := by
  have hb' : isBlockNode (n.withKids ks) = false := by cases n <;> first | rfl | simp [isBlockNode] at hb
  rw [blkOk_nb _ hb', Node.kids_withKids n ks hl]
  exact hk

/-! ### the pieces the transforms build -/

@[simp] theorem blkOk_tempIdent (k : Nat) : blkOk (tempIdent k) = true := by simp [tempIdent]
@[simp] theorem blkOk_assignRight (e : Node) (k : IdentKind) : blkOk (assignRight e k) = blkOk e := by
  cases k <;> simp [assignRight]
@[simp] theorem blkOk_exprOrSpread (e : Node) (k : IdentKind) : blkOk (exprOrSpread e k) = blkOk e := by
  cases k <;> simp [exprOrSpread]
@[simp] theorem blkOk_voidZero : blkOk voidZero = true := by simp [voidZero]
@[simp] theorem blkOk_ddCallee (m : String) (sp : Span) : blkOk (ddCallee m sp) = true := by simp [ddCallee]
@[simp] theorem blkOk_ddCall (e : Node) (args : List Node) (m : String) (sp : Span) :
    blkOk (ddCall e args m sp) = (blkOk e && blkOkL args) := by simp [ddCall]
theorem blkOk_ddParen (e : Node) (args asg : List Node) (m : String) (sp : Span)
    (he : blkOk e = true) (ha : blkOkL args = true) (hs : blkOkL asg = true) : blkOk (ddParen e args asg m sp) = true := by
  unfold ddParen
  simp only
  split <;> simp [he, ha, hs]
theorem blkOk_tplOperand (x : Node) : blkOk (tplOperand x) = blkOk x := by unfold tplOperand; split <;> simp
theorem blkOk_seqOperand (x : Node) : blkOk (seqOperand x) = blkOk x := by unfold seqOperand; split <;> simp
theorem blkOk_assignRhs (x : Node) : blkOk (assignRhs x) = blkOk x := by unfold assignRhs; split <;> simp

/-- all three components an operand-handler function returns -/
def Blk3 (R : (Node × List Node × List Node) × St) : Prop := blkOk R.1.1 = true ∧ blkOkL R.1.2.1 = true ∧ blkOkL R.1.2.2 = true
def Blk3L (R : (List Node × List Node × List Node) × St) : Prop := blkOkL R.1.1 = true ∧ blkOkL R.1.2.1 = true ∧ blkOkL R.1.2.2 = true

theorem getTemporalIdent_blk (operand : Node) (asg : List Node) (sp : Span) (k : IdentKind) (s : St)
    (ho : blkOk operand = true) (ha : blkOkL asg = true) : blkOkL (getTemporalIdent operand asg sp k s).1.2 = true := by
  rcases getTemporalIdent_casesC operand asg sp k s with ⟨_, h⟩ | ⟨_, s', h, _⟩ <;> rw [h] <;> simp [ha, ho]

theorem getIdentUsed_blk (operand : Node) (asg args : List Node) (sp : Span) (k : IdentKind) (s : St)
    (ho : blkOk operand = true) (ha : blkOkL asg = true) (hg : blkOkL args = true) :
    blkOkL (getIdentUsed operand asg args sp k s).1.2.1 = true ∧ blkOkL (getIdentUsed operand asg args sp k s).1.2.2 = true := by
  rcases getIdentUsed_casesC operand asg args sp k s with ⟨_, h⟩ | ⟨_, s', h, _⟩ <;> rw [h] <;> simp [ha, ho, hg]

theorem replaceDefault_blk (e : Node) (asg args : List Node) (sp : Span) (k : IdentKind) (s : St)
    (ho : blkOk e = true) (ha : blkOkL asg = true) (hg : blkOkL args = true) : Blk3 (replaceDefault e asg args sp k s) := by
  unfold replaceDefault Blk3
  simp only [run_bind, run_pure]
  rcases getIdentUsed_casesC e asg args sp k s with ⟨_, h⟩ | ⟨_, s', h, _⟩ <;> rw [h] <;> simp [ha, ho, hg]

theorem replaceExprNoExpand_blk (e : Node) (mode : IdentMode) (asg args : List Node) (sp : Span) (k : IdentKind) (s : St)
    (ho : blkOk e = true) (ha : blkOkL asg = true) (hg : blkOkL args = true) :
    Blk3 (replaceExprNoExpand e mode asg args sp k s) := by
  have hd := replaceDefault_blk e asg args sp k s ho ha hg
  cases e with
  | lit => simp [replaceExprNoExpand, run_pure, Blk3, ha, hg]
  | ident nm isp =>
    cases mode
    · simpa [replaceExprNoExpand] using hd
    · simp [replaceExprNoExpand, run_pure, Blk3, ha, hg]
  | bin op l r bsp =>
    simp only [replaceExprNoExpand]
    split
    · exact hd
    · split
      · simp only [run_pure, Blk3]; simp [ha, hg, ho]
      · simp only [run_pure, Blk3]; exact ⟨ho, ha, hg⟩
  | _ => simpa [replaceExprNoExpand] using hd

theorem replaceArgNoExpand_blk (a : Node) (mode : IdentMode) (asg args : List Node) (sp : Span) (s : St)
    (ho : blkOk a = true) (ha : blkOkL asg = true) (hg : blkOkL args = true) : Blk3 (replaceArgNoExpand a mode asg args sp s) := by
  cases a with
  | arg spread e =>
    simp only [replaceArgNoExpand, run_bind, run_pure]
    have := replaceExprNoExpand_blk e mode asg args sp (if spread.isSome then IdentKind.spread else IdentKind.expr) s
      (by simpa using ho) ha hg
    simpa [Blk3] using this
  | _ => simp only [replaceArgNoExpand, run_pure]; exact ⟨ho, ha, hg⟩

theorem replaceElem_blk (a : Node) (mode : IdentMode) (asg args : List Node) (sp : Span) (s : St)
    (ho : blkOk a = true) (ha : blkOkL asg = true) (hg : blkOkL args = true) : Blk3 (replaceElem a mode asg args sp s) := by
  cases a with
  | arg spread e => simp only [replaceElem]; exact replaceArgNoExpand_blk _ mode asg args sp s ho ha hg
  | _ => simp only [replaceElem, run_pure, Blk3]; simp [ho, ha, hg]

/-- list version, for any head function with the property -/
theorem listOp_blk (g : Node → List Node → List Node → M (Node × List Node × List Node))
    (step : List Node → List Node → List Node → M (List Node × List Node × List Node))
    (hnil : ∀ asg args s, step [] asg args s = (([], asg, args), s))
    (hcons : ∀ x xs asg args s, step (x :: xs) asg args s =
      (((g x asg args s).1.1 :: (step xs (g x asg args s).1.2.1 (g x asg args s).1.2.2 (g x asg args s).2).1.1,
        (step xs (g x asg args s).1.2.1 (g x asg args s).1.2.2 (g x asg args s).2).1.2.1,
        (step xs (g x asg args s).1.2.1 (g x asg args s).1.2.2 (g x asg args s).2).1.2.2),
       (step xs (g x asg args s).1.2.1 (g x asg args s).1.2.2 (g x asg args s).2).2))
    (hg : ∀ x asg args s, blkOk x = true → blkOkL asg = true → blkOkL args = true → Blk3 (g x asg args s)) :
    ∀ xs asg args s, blkOkL xs = true → blkOkL asg = true → blkOkL args = true → Blk3L (step xs asg args s) := by
  intro xs
  induction xs with
  | nil => intro asg args s _ ha hgg; rw [hnil]; exact ⟨rfl, ha, hgg⟩
  | cons x xs ih =>
    intro asg args s hx ha hgg
    simp only [blkOkL_cons, Bool.and_eq_true] at hx
    rw [hcons]
    obtain ⟨a1, a2, a3⟩ := hg x asg args s hx.1 ha hgg
    obtain ⟨b1, b2, b3⟩ := ih _ _ (g x asg args s).2 hx.2 a2 a3
    exact ⟨by simp [a1, b1], b2, b3⟩

theorem replaceElems_blk (mode : IdentMode) (sp : Span) : ∀ xs asg args s, blkOkL xs = true → blkOkL asg = true → blkOkL args = true →
    Blk3L (replaceElems mode sp xs asg args s) :=
  listOp_blk (fun x asg args => replaceElem x mode asg args sp) (replaceElems mode sp)
    (by intro asg args s; rfl) (by intro x xs asg args s; simp only [replaceElems, run_bind, run_pure])
    (fun x asg args s => replaceElem_blk x mode asg args sp s)

theorem replaceExpr_blk (e : Node) (mode : IdentMode) (asg args : List Node) (sp : Span) (k : IdentKind) (expand : Bool) (s : St)
    (ho : blkOk e = true) (ha : blkOkL asg = true) (hg : blkOkL args = true) : Blk3 (replaceExpr e mode asg args sp k expand s) := by
  unfold replaceExpr
  split
  · simp only [run_bind, run_pure]
    have := replaceElems_blk mode sp _ asg args s (by simpa using ho) ha hg
    simpa [Blk3, Blk3L] using this
  · exact replaceExprNoExpand_blk e mode asg args sp k s ho ha hg

theorem replaceArg_blk (a : Node) (mode : IdentMode) (asg args : List Node) (sp : Span) (expand : Bool) (s : St)
    (ho : blkOk a = true) (ha : blkOkL asg = true) (hg : blkOkL args = true) : Blk3 (replaceArg a mode asg args sp expand s) := by
  cases a with
  | arg spread e =>
    simp only [replaceArg, run_bind, run_pure]
    have := replaceExpr_blk e mode asg args sp (if spread.isSome then IdentKind.spread else IdentKind.expr) expand s
      (by simpa using ho) ha hg
    simpa [Blk3] using this
  | _ => simp only [replaceArg, run_pure]; exact ⟨ho, ha, hg⟩

theorem replaceArgs_blk (mode : IdentMode) (sp : Span) (expand : Bool) : ∀ xs asg args s, blkOkL xs = true → blkOkL asg = true →
    blkOkL args = true → Blk3L (replaceArgs mode sp expand xs asg args s) :=
  listOp_blk (fun x asg args => replaceArg x mode asg args sp expand) (replaceArgs mode sp expand)
    (by intro asg args s; rfl) (by intro x xs asg args s; simp only [replaceArgs, run_bind, run_pure])
    (fun x asg args s => replaceArg_blk x mode asg args sp expand s)

theorem replaceTplExprs_blk : ∀ xs asg args s, blkOkL xs = true → blkOkL asg = true → blkOkL args = true →
    Blk3L (replaceTplExprs xs asg args s) :=
  listOp_blk (fun x asg args => replaceExpr (tplOperand x) .replace asg args x.span .expr false) replaceTplExprs
    (by intro asg args s; rfl) (by intro x xs asg args s; simp only [replaceTplExprs, run_bind, run_pure])
    (fun x asg args s hx ha hg => replaceExpr_blk _ _ asg args _ _ _ s (by rw [blkOk_tplOperand]; exact hx) ha hg)

end IastModel

import IastModel.Lemmas.ErVisitMain
/-
  Every block statement inside what the operation visitor returns is a block statement of its input (or
  the `{ return e }` it wrapped an arrow body of the input in): still a well-formed source block without
  optional chaining, which is what the block visitor's own theorem asks of the nested blocks it enters next.
-/
namespace IastModel
open Node
variable {cfg : Config}

/-- a block statement fit for the block visitor theorem -/
def Qb (cfg : Config) (b : Node) : Bool := srcOk b && noOpt cfg b

def bq (cfg : Config) (k : Node) : Bool := !isBlockNode k || Qb cfg k

/-- every block statement anywhere in the tree is a well-formed source block without optional chaining -/
def blkOk (cfg : Config) (n : Node) : Bool := Node.all (bq cfg) n
def blkOkL (cfg : Config) (l : List Node) : Bool := l.all (blkOk cfg)

theorem blkOk_eq (n : Node) : blkOk cfg n = (bq cfg n && blkOkL cfg n.kids) := by
  unfold blkOk blkOkL; rw [Node.all_eq]; rfl

@[simp] theorem blkOkL_nil : blkOkL cfg [] = true := rfl
@[simp] theorem blkOkL_cons (x : Node) (xs : List Node) : blkOkL cfg (x :: xs) = (blkOk cfg x && blkOkL cfg xs) := by simp [blkOkL]
@[simp] theorem blkOkL_append (xs ys : List Node) : blkOkL cfg (xs ++ ys) = (blkOkL cfg xs && blkOkL cfg ys) := by simp [blkOkL]

theorem blkOk_nb (n : Node) (h : isBlockNode n = false) : blkOk cfg n = blkOkL cfg n.kids := by
  rw [blkOk_eq]; simp [bq, h]

@[simp] theorem blkOk_atom (s : String) : blkOk cfg (.atom s) = true := by rw [blkOk_nb _ rfl]; rfl
@[simp] theorem blkOk_lit (k v r : String) (sp : Span) : blkOk cfg (.lit k v r sp) = true := by rw [blkOk_nb _ rfl]; rfl
@[simp] theorem blkOk_ident (nm : Name) (sp : Span) : blkOk cfg (.ident nm sp) = true := by rw [blkOk_nb _ rfl]; rfl
@[simp] theorem blkOk_pname (nm : String) (sp : Span) : blkOk cfg (.pname nm sp) = true := by rw [blkOk_nb _ rfl]; rfl
@[simp] theorem blkOk_arr (xs : List Node) : blkOk cfg (.arr xs) = blkOkL cfg xs := by rw [blkOk_nb _ rfl]; rfl
@[simp] theorem blkOk_obj (ns : List String) (vs : List Node) : blkOk cfg (.obj ns vs) = blkOkL cfg vs := by rw [blkOk_nb _ rfl]; rfl
@[simp] theorem blkOk_other (k : String) (sp : Span) (ns : List String) (vs : List Node) : blkOk cfg (.other k sp ns vs) = blkOkL cfg vs := by
  rw [blkOk_nb _ rfl]; rfl
@[simp] theorem blkOk_bin (op : String) (l r : Node) (sp : Span) : blkOk cfg (.bin op l r sp) = (blkOk cfg l && blkOk cfg r) := by
  rw [blkOk_nb _ rfl]; simp [kids]
@[simp] theorem blkOk_assign (op : String) (l r : Node) (sp : Span) : blkOk cfg (.assign op l r sp) = (blkOk cfg l && blkOk cfg r) := by
  rw [blkOk_nb _ rfl]; simp [kids]
@[simp] theorem blkOk_tpl (es qs : List Node) (sp : Span) : blkOk cfg (.tpl es qs sp) = (blkOkL cfg es && blkOkL cfg qs) := by
  rw [blkOk_nb _ rfl]; simp [kids]
@[simp] theorem blkOk_call (c : Node) (as : List Node) (sp : Span) : blkOk cfg (.call c as sp) = (blkOk cfg c && blkOkL cfg as) := by
  rw [blkOk_nb _ rfl]; simp [kids]
@[simp] theorem blkOk_arg (s : Option Span) (e : Node) : blkOk cfg (.arg s e) = blkOk cfg e := by
  rw [blkOk_nb _ rfl]; simp [kids]
@[simp] theorem blkOk_member (o p : Node) (sp : Span) : blkOk cfg (.member o p sp) = (blkOk cfg o && blkOk cfg p) := by
  rw [blkOk_nb _ rfl]; simp [kids]
@[simp] theorem blkOk_unary (op : String) (a : Node) (sp : Span) : blkOk cfg (.unary op a sp) = blkOk cfg a := by
  rw [blkOk_nb _ rfl]; simp [kids]
@[simp] theorem blkOk_arrow (ps : List Node) (b : Node) (a : String) (sp : Span) : blkOk cfg (.arrow ps b a sp) = (blkOkL cfg ps && blkOk cfg b) := by
  rw [blkOk_nb _ rfl]; simp [kids]
@[simp] theorem blkOk_paren (e : Node) (sp : Span) : blkOk cfg (.paren e sp) = blkOk cfg e := by
  rw [blkOk_nb _ rfl]; simp [kids]
@[simp] theorem blkOk_seq (es : List Node) (sp : Span) : blkOk cfg (.seq es sp) = blkOkL cfg es := by rw [blkOk_nb _ rfl]; rfl
@[simp] theorem blkOk_array (es : List Node) (sp : Span) : blkOk cfg (.array es sp) = blkOkL cfg es := by rw [blkOk_nb _ rfl]; rfl
@[simp] theorem blkOk_cond (t c a : Node) (sp : Span) : blkOk cfg (.cond t c a sp) = (blkOk cfg t && blkOk cfg c && blkOk cfg a) := by
  rw [blkOk_nb _ rfl]; simp [kids, Bool.and_assoc]

theorem blkOk_kids {n : Node} (h : blkOk cfg n = true) : ∀ k ∈ n.kids, blkOk cfg k = true := by
  rw [blkOk_eq, Bool.and_eq_true] at h
  intro k hk
  exact List.all_eq_true.mp h.2 k hk

theorem blkOkL_mem {l : List Node} (h : blkOkL cfg l = true) : ∀ k ∈ l, blkOk cfg k = true := List.all_eq_true.mp h

theorem blkOkL_of {l : List Node} (h : ∀ k ∈ l, blkOk cfg k = true) : blkOkL cfg l = true := List.all_eq_true.mpr h

/-- a well-formed source tree without optional chaining has only such blocks -/
theorem blkOk_src : ∀ n : Node, srcOk n = true → noOpt cfg n = true → blkOk cfg n = true := by
  apply Node.ind
  intro n ih hs hn
  rw [blkOk_eq, Bool.and_eq_true]
  refine ⟨?_, blkOkL_of (fun k hk => ih k hk (srcOk_kids hs k hk) (noOpt_kids hn k hk))⟩
  simp [bq, Qb, hs, hn]

theorem blkOk_withKids (n : Node) (ks : List Node) (hb : isBlockNode n = false) (hl : ks.length = n.kids.length)
    (hk : blkOkL cfg ks = true) : blkOk cfg (n.withKids ks) = true := by
  have hb' : isBlockNode (n.withKids ks) = false := by cases n <;> first | rfl | simp [isBlockNode] at hb
  rw [blkOk_nb _ hb', Node.kids_withKids n ks hl]
  exact hk

/-! ### the pieces the transforms build -/

@[simp] theorem blkOk_tempIdent (k : Nat) : blkOk cfg (tempIdent k) = true := by simp [tempIdent]
@[simp] theorem blkOk_assignRight (e : Node) (k : IdentKind) : blkOk cfg (assignRight e k) = blkOk cfg e := by
  cases k <;> simp [assignRight]
@[simp] theorem blkOk_exprOrSpread (e : Node) (k : IdentKind) : blkOk cfg (exprOrSpread e k) = blkOk cfg e := by
  cases k <;> simp [exprOrSpread]
@[simp] theorem blkOk_voidZero : blkOk cfg voidZero = true := by simp [voidZero]
@[simp] theorem blkOk_ddCallee (m : String) (sp : Span) : blkOk cfg (ddCallee m sp) = true := by simp [ddCallee]
@[simp] theorem blkOk_ddCall (e : Node) (args : List Node) (m : String) (sp : Span) :
    blkOk cfg (ddCall e args m sp) = (blkOk cfg e && blkOkL cfg args) := by simp [ddCall]
theorem blkOk_ddParen (e : Node) (args asg : List Node) (m : String) (sp : Span)
    (he : blkOk cfg e = true) (ha : blkOkL cfg args = true) (hs : blkOkL cfg asg = true) : blkOk cfg (ddParen e args asg m sp) = true := by
  unfold ddParen
  simp only
  split <;> simp [he, ha, hs]
theorem blkOk_tplOperand (x : Node) : blkOk cfg (tplOperand x) = blkOk cfg x := by unfold tplOperand; split <;> simp
theorem blkOk_seqOperand (x : Node) : blkOk cfg (seqOperand x) = blkOk cfg x := by unfold seqOperand; split <;> simp
theorem blkOk_assignRhs (x : Node) : blkOk cfg (assignRhs x) = blkOk cfg x := by unfold assignRhs; split <;> simp

/-- all three components an operand-handler function returns -/
def Blk3 (cfg : Config) (R : (Node × List Node × List Node) × St) : Prop := blkOk cfg R.1.1 = true ∧ blkOkL cfg R.1.2.1 = true ∧ blkOkL cfg R.1.2.2 = true
def Blk3L (cfg : Config) (R : (List Node × List Node × List Node) × St) : Prop := blkOkL cfg R.1.1 = true ∧ blkOkL cfg R.1.2.1 = true ∧ blkOkL cfg R.1.2.2 = true

theorem getTemporalIdent_blk (operand : Node) (asg : List Node) (sp : Span) (k : IdentKind) (s : St)
    (ho : blkOk cfg operand = true) (ha : blkOkL cfg asg = true) : blkOkL cfg (getTemporalIdent operand asg sp k s).1.2 = true := by
  rcases getTemporalIdent_casesC operand asg sp k s with ⟨_, h⟩ | ⟨_, s', h, _⟩ <;> rw [h] <;> simp [ha, ho]

theorem getIdentUsed_blk (operand : Node) (asg args : List Node) (sp : Span) (k : IdentKind) (s : St)
    (ho : blkOk cfg operand = true) (ha : blkOkL cfg asg = true) (hg : blkOkL cfg args = true) :
    blkOkL cfg (getIdentUsed operand asg args sp k s).1.2.1 = true ∧ blkOkL cfg (getIdentUsed operand asg args sp k s).1.2.2 = true := by
  rcases getIdentUsed_casesC operand asg args sp k s with ⟨_, h⟩ | ⟨_, s', h, _⟩ <;> rw [h] <;> simp [ha, ho, hg]

theorem replaceDefault_blk (e : Node) (asg args : List Node) (sp : Span) (k : IdentKind) (s : St)
    (ho : blkOk cfg e = true) (ha : blkOkL cfg asg = true) (hg : blkOkL cfg args = true) : Blk3 cfg (replaceDefault e asg args sp k s) := by
  unfold replaceDefault Blk3
  simp only [run_bind, run_pure]
  rcases getIdentUsed_casesC e asg args sp k s with ⟨_, h⟩ | ⟨_, s', h, _⟩ <;> rw [h] <;> simp [ha, ho, hg]

theorem replaceExprNoExpand_blk (e : Node) (mode : IdentMode) (asg args : List Node) (sp : Span) (k : IdentKind) (s : St)
    (ho : blkOk cfg e = true) (ha : blkOkL cfg asg = true) (hg : blkOkL cfg args = true) :
    Blk3 cfg (replaceExprNoExpand e mode asg args sp k s) := by
  have hd := replaceDefault_blk e asg args sp k s ho ha hg
  cases e with
  | lit => simp [replaceExprNoExpand, run_pure, Blk3, ha, hg]
  | ident nm isp =>
    cases mode
    · simpa [replaceExprNoExpand] using hd
    · simp [replaceExprNoExpand, run_pure, Blk3, ha, hg]
  | bin op l r bsp =>
    simp only [replaceExprNoExpand]
    split
    · exact hd
    · split
      · simp only [run_pure, Blk3]; simp [ha, hg, ho]
      · simp only [run_pure, Blk3]; exact ⟨ho, ha, hg⟩
  | _ => simpa [replaceExprNoExpand] using hd

theorem replaceArgNoExpand_blk (a : Node) (mode : IdentMode) (asg args : List Node) (sp : Span) (s : St)
    (ho : blkOk cfg a = true) (ha : blkOkL cfg asg = true) (hg : blkOkL cfg args = true) : Blk3 cfg (replaceArgNoExpand a mode asg args sp s) := by
  cases a with
  | arg spread e =>
    simp only [replaceArgNoExpand, run_bind, run_pure]
    have := replaceExprNoExpand_blk e mode asg args sp (if spread.isSome then IdentKind.spread else IdentKind.expr) s
      (by simpa using ho) ha hg
    simpa [Blk3] using this
  | _ => simp only [replaceArgNoExpand, run_pure]; exact ⟨ho, ha, hg⟩

theorem replaceElem_blk (a : Node) (mode : IdentMode) (asg args : List Node) (sp : Span) (s : St)
    (ho : blkOk cfg a = true) (ha : blkOkL cfg asg = true) (hg : blkOkL cfg args = true) : Blk3 cfg (replaceElem a mode asg args sp s) := by
  cases a with
  | arg spread e => simp only [replaceElem]; exact replaceArgNoExpand_blk _ mode asg args sp s ho ha hg
  | _ => simp only [replaceElem, run_pure, Blk3]; simp [ho, ha, hg]

/-- list version, for any head function with the property -/
theorem listOp_blk (g : Node → List Node → List Node → M (Node × List Node × List Node))
    (step : List Node → List Node → List Node → M (List Node × List Node × List Node))
    (hnil : ∀ asg args s, step [] asg args s = (([], asg, args), s))
    (hcons : ∀ x xs asg args s, step (x :: xs) asg args s =
      (((g x asg args s).1.1 :: (step xs (g x asg args s).1.2.1 (g x asg args s).1.2.2 (g x asg args s).2).1.1,
        (step xs (g x asg args s).1.2.1 (g x asg args s).1.2.2 (g x asg args s).2).1.2.1,
        (step xs (g x asg args s).1.2.1 (g x asg args s).1.2.2 (g x asg args s).2).1.2.2),
       (step xs (g x asg args s).1.2.1 (g x asg args s).1.2.2 (g x asg args s).2).2))
    (hg : ∀ x asg args s, blkOk cfg x = true → blkOkL cfg asg = true → blkOkL cfg args = true → Blk3 cfg (g x asg args s)) :
    ∀ xs asg args s, blkOkL cfg xs = true → blkOkL cfg asg = true → blkOkL cfg args = true → Blk3L cfg (step xs asg args s) := by
  intro xs
  induction xs with
  | nil => intro asg args s _ ha hgg; rw [hnil]; exact ⟨rfl, ha, hgg⟩
  | cons x xs ih =>
    intro asg args s hx ha hgg
    simp only [blkOkL_cons, Bool.and_eq_true] at hx
    rw [hcons]
    obtain ⟨a1, a2, a3⟩ := hg x asg args s hx.1 ha hgg
    obtain ⟨b1, b2, b3⟩ := ih _ _ (g x asg args s).2 hx.2 a2 a3
    exact ⟨by simp [a1, b1], b2, b3⟩

theorem replaceElems_blk (mode : IdentMode) (sp : Span) : ∀ xs asg args s, blkOkL cfg xs = true → blkOkL cfg asg = true → blkOkL cfg args = true →
    Blk3L cfg (replaceElems mode sp xs asg args s) :=
  listOp_blk (fun x asg args => replaceElem x mode asg args sp) (replaceElems mode sp)
    (by intro asg args s; rfl) (by intro x xs asg args s; simp only [replaceElems, run_bind, run_pure])
    (fun x asg args s => replaceElem_blk x mode asg args sp s)

theorem replaceExpr_blk (e : Node) (mode : IdentMode) (asg args : List Node) (sp : Span) (k : IdentKind) (expand : Bool) (s : St)
    (ho : blkOk cfg e = true) (ha : blkOkL cfg asg = true) (hg : blkOkL cfg args = true) : Blk3 cfg (replaceExpr e mode asg args sp k expand s) := by
  unfold replaceExpr
  split
  · simp only [run_bind, run_pure]
    have := replaceElems_blk mode sp _ asg args s (by simpa using ho) ha hg
    simpa [Blk3, Blk3L] using this
  · exact replaceExprNoExpand_blk e mode asg args sp k s ho ha hg

theorem replaceArg_blk (a : Node) (mode : IdentMode) (asg args : List Node) (sp : Span) (expand : Bool) (s : St)
    (ho : blkOk cfg a = true) (ha : blkOkL cfg asg = true) (hg : blkOkL cfg args = true) : Blk3 cfg (replaceArg a mode asg args sp expand s) := by
  cases a with
  | arg spread e =>
    simp only [replaceArg, run_bind, run_pure]
    have := replaceExpr_blk e mode asg args sp (if spread.isSome then IdentKind.spread else IdentKind.expr) expand s
      (by simpa using ho) ha hg
    simpa [Blk3] using this
  | _ => simp only [replaceArg, run_pure]; exact ⟨ho, ha, hg⟩

theorem replaceArgs_blk (mode : IdentMode) (sp : Span) (expand : Bool) : ∀ xs asg args s, blkOkL cfg xs = true → blkOkL cfg asg = true →
    blkOkL cfg args = true → Blk3L cfg (replaceArgs mode sp expand xs asg args s) :=
  listOp_blk (fun x asg args => replaceArg x mode asg args sp expand) (replaceArgs mode sp expand)
    (by intro asg args s; rfl) (by intro x xs asg args s; simp only [replaceArgs, run_bind, run_pure])
    (fun x asg args s => replaceArg_blk x mode asg args sp expand s)

theorem replaceTplExprs_blk : ∀ xs asg args s, blkOkL cfg xs = true → blkOkL cfg asg = true → blkOkL cfg args = true →
    Blk3L cfg (replaceTplExprs xs asg args s) :=
  listOp_blk (fun x asg args => replaceExpr (tplOperand x) .replace asg args x.span .expr false) replaceTplExprs
    (by intro asg args s; rfl) (by intro x xs asg args s; simp only [replaceTplExprs, run_bind, run_pure])
    (fun x asg args s hx ha hg => replaceExpr_blk _ _ asg args _ _ _ s (by rw [blkOk_tplOperand]; exact hx) ha hg)

end IastModel

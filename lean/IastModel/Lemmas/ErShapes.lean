import IastModel.Lemmas.ErVisitGen
namespace IastModel
open Node

/-- `e` is a hook call (with its hoisted operands) carrying the position `sp` -/
def IsDdS (e : Node) (sp : Span) : Prop := ∃ x args asg m, e = ddParen x args asg m sp

theorem ddParen_span (x : Node) (args asg : List Node) (m : String) (sp : Span) : (ddParen x args asg m sp).span = sp := by
  unfold ddParen
  simp only
  split <;> rfl

theorem IsDdS.span {e : Node} {sp : Span} (h : IsDdS e sp) : e.span = sp := by
  obtain ⟨x, args, asg, m, rfl⟩ := h
  exact ddParen_span _ _ _ _ _

/-- what the visitor theorem needs to know about the shape of a hook call: it is not an identifier,
    not an assignment to a temporary, and (being a call or a parenthesised sequence) has no parts the
    later transforms take apart -/
theorem IsDdS.shape {e : Node} {sp : Span} (h : IsDdS e sp) (lo hi : Nat) (n : Node) :
    Deep lo hi e n ∧ isTempAssign e = false ∧ (e.isIdent = true → e = n) := by
  obtain ⟨x, args, asg, m, rfl⟩ := h
  unfold ddParen
  simp only
  split
  · exact ⟨by simp [ddCall, Deep], rfl, by simp [ddCall, Node.isIdent]⟩
  · exact ⟨by simp [Deep, isSplittableInner], rfl, by simp [Node.isIdent]⟩

theorem toDdBinary_isDdS (cfg : Config) (op : String) (l r : Node) (sp : Span) (s : St) (e1 : Node)
    (h : (toDdBinary cfg (.bin op l r sp) s).1 = some e1) : IsDdS e1 sp := by
  simp only [toDdBinary, run_bind] at h
  split at h
  · simp only [run_pure] at h
    cases h
    exact ⟨_, _, _, _, rfl⟩
  · simp [run_pure] at h

theorem toDdTpl_isDdS (cfg : Config) (es qs : List Node) (sp : Span) (s : St) (e1 : Node)
    (h : (toDdTpl cfg (.tpl es qs sp) s).1 = some e1) : IsDdS e1 sp := by
  simp only [toDdTpl, run_bind, run_pure] at h
  cases h
  exact ⟨_, _, _, _, rfl⟩

theorem replaceCallWithMember_isDdS (cfg : Config) (expr : Node) (method : String) (msp : Span)
    (callee : Node) (cargs : List Node) (csp : Span) (mo : Option Node) (ca : Option String) (s : St)
    (r : Node) (t : String)
    (h : (replaceCallWithMember cfg expr method msp callee cargs csp mo ca s).1 = some (r, t)) : IsDdS r csp := by
  unfold replaceCallWithMember at h
  cases hg : cfg.get method with
  | none => simp [hg, run_pure] at h
  | some csi =>
    simp only [hg, run_bind, run_pure] at h
    cases h
    exact ⟨_, _, _, _, rfl⟩

theorem replaceCallSpreadWithMember_isDdS (cfg : Config) (method : String)
    (callee : Node) (cargs : List Node) (csp : Span) (m : Node) (ca : String) (s : St)
    (r : Node) (t : String)
    (h : (replaceCallSpreadWithMember cfg method callee cargs csp m ca s).1 = some (r, t)) : IsDdS r csp := by
  unfold replaceCallSpreadWithMember at h
  cases hg : cfg.get method with
  | none => simp [hg, run_pure] at h
  | some csi =>
    simp only [hg, run_bind] at h
    generalize hX : (getIdentUsed m [] [] csp IdentKind.expr s) = X at h
    obtain ⟨⟨id, asg1, args1⟩, s1⟩ := X
    cases id with
    | none => simp [run_pure] at h
    | some n =>
      simp only [run_bind, run_pure] at h
      cases h
      exact ⟨_, _, _, _, rfl⟩

theorem replaceCallWithoutCallee_isDdS (cfg : Config) (name : Name) (isp : Span) (callee : Node)
    (cargs : List Node) (csp : Span) (s : St) (r : Node) (t : String)
    (h : (replaceCallWithoutCallee cfg name isp callee cargs csp s).1 = some (r, t)) : IsDdS r csp := by
  unfold replaceCallWithoutCallee at h
  cases name with
  | temp n => simp [run_pure] at h
  | user method =>
    cases hg : cfg.get method with
    | none => simp [hg, run_pure] at h
    | some csi =>
      simp only [hg] at h
      by_cases ha : csi.allowedWithoutCallee = true
      · simp only [ha, if_true, run_bind, run_pure] at h
        cases h
        exact ⟨_, _, _, _, rfl⟩
      · simp [ha, run_pure] at h

theorem replacePrototypeCallOrApply_isDdS (cfg : Config) (cargs : List Node) (csp : Span) (callee member : Node)
    (ca : String) (s : St) (r : Node) (t : String)
    (h : (replacePrototypeCallOrApply cfg cargs csp callee member ca s).1 = some (r, t)) : IsDdS r csp := by
  unfold replacePrototypeCallOrApply at h
  by_cases h1 : isCallOrApply ca = true
  · simp only [h1, Bool.not_true, Bool.false_eq_true, if_false] at h
    cases hp : prototypeMethodIdent member with
    | none => simp [hp, run_pure] at h
    | some mm =>
      obtain ⟨method, msp⟩ := mm
      simp only [hp] at h
      cases cargs with
      | nil => simp [run_pure] at h
      | cons this rest =>
        simp only at h
        by_cases h2 : argIsSpread this = true
        · simp only [h2, if_true] at h
          exact replaceCallSpreadWithMember_isDdS _ _ _ _ _ _ _ _ _ _ h
        · simp only [h2, Bool.false_eq_true, if_false] at h
          by_cases h3 : invalidArgs ca (this :: rest) = true
          · simp [h3, run_pure] at h
          · simp only [h3, Bool.false_eq_true, if_false] at h
            split at h
            · simp [run_pure] at h
            · exact replaceCallWithMember_isDdS _ _ _ _ _ _ _ _ _ _ _ _ h
  · simp [h1, run_pure] at h

theorem toDdCall_isDdS (cfg : Config) (c : Node) (as : List Node) (csp : Span) (s : St) (r : Node) (t : String)
    (h : (toDdCall cfg (.call c as csp) s).1 = some (r, t)) : IsDdS r csp := by
  simp only [toDdCall] at h
  repeat' split at h
  all_goals first
    | (simp [run_pure] at h; done)
    | exact replaceCallWithMember_isDdS _ _ _ _ _ _ _ _ _ _ _ _ h
    | exact replacePrototypeCallOrApply_isDdS _ _ _ _ _ _ _ _ _ h
    | exact replaceCallWithoutCallee_isDdS _ _ _ _ _ _ _ _ _ h

end IastModel

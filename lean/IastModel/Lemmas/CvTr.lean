import IastModel.Lemmas.CqAssign
namespace IastModel
open Node

/-- decidable form of `MirOK` -/
def siteOKb (cfg : Config) (h : Node) : Bool :=
  match argsMirrorSite cfg h with
  | none => true
  | some c => c == sumClass cfg "plus" || c == sumClass cfg "tpl" || c == sumClass cfg "call"

theorem siteOKb_of_MirOK {cfg : Config} {h : Node} (hm : MirOK cfg h) : siteOKb cfg h = true := by
  unfold siteOKb
  rcases hm with hm | ⟨w, hw, hm⟩
  · rw [hm]
  · rw [hm]
    rcases hw with rfl | rfl | rfl <;> simp

theorem MirOK_of_siteOKb {cfg : Config} {h : Node} (hm : siteOKb cfg h = true) : MirOK cfg h := by
  unfold siteOKb at hm
  unfold MirOK
  split at hm
  · left; assumption
  · rename_i c hc
    right
    simp only [Bool.or_eq_true, beq_iff_eq] at hm
    rcases hm with (hm | hm) | hm
    · exact ⟨"plus", Or.inl rfl, by rw [hc, hm]⟩
    · exact ⟨"tpl", Or.inr (Or.inl rfl), by rw [hc, hm]⟩
    · exact ⟨"call", Or.inr (Or.inr rfl), by rw [hc, hm]⟩

def badSite (cfg : Config) (h : Node) : Bool := !siteOKb cfg h

/-- the number of hook sites of a tree that do not mirror their operation -/
def cv (cfg : Config) (n : Node) : Nat := cq (badSite cfg) n
def cvL (cfg : Config) (l : List Node) : Nat := cqL (badSite cfg) l

theorem badSite_of_MirOK {cfg : Config} {h : Node} (hm : MirOK cfg h) : badSite cfg h = false := by
  simp [badSite, siteOKb_of_MirOK hm]

theorem lastOf_eq_of_ddParen {e' first : Node} {args asg : List Node} {name : String} {sp : Span}
    (h : e' = ddParen first args asg name sp) : lastOf e' = ddCall first args name sp := by
  rw [h, lastOf_ddParen]

theorem toDdBinary_V (cfg : Config) (l r : Node) (sp : Span) (s : St) :
    ∀ e', (toDdBinary cfg (.bin "+" l r sp) s).1 = some e' → cv cfg e' = cv cfg l + cv cfg r := by
  intro e' he
  obtain ⟨first, args, asg, h1, hm⟩ := toDdBinary_mirror cfg l r sp s e' he
  have := toDdBinary_Q (badSite cfg) cfg "+" l r sp s e' he
  rw [lastOf_eq_of_ddParen h1, badSite_of_MirOK hm] at this
  simpa [cv] using this

theorem toDdTpl_V (cfg : Config) (es qs : List Node) (sp : Span) (s : St) :
    ∀ e', (toDdTpl cfg (.tpl es qs sp) s).1 = some e' → cv cfg e' = cv cfg (.tpl es qs sp) := by
  intro e' he
  obtain ⟨first, args, asg, h1, hm⟩ := toDdTpl_mirror cfg es qs sp s e' he
  have := toDdTpl_Q (badSite cfg) cfg es qs sp s e' he
  rw [lastOf_eq_of_ddParen h1, badSite_of_MirOK hm] at this
  simpa [cv] using this

theorem toDdAssign_V (cfg : Config) (op : String) (left r : Node) (sp : Span) (s : St) (hts : tshape left = true) :
    ∀ e', (toDdAssign cfg (.assign op left r sp) s).1 = some e' → cv cfg e' = cv cfg (.assign op left r sp) := by
  intro e' he
  obtain ⟨target, first, args, asg, h1, hm⟩ := toDdAssign_mirror cfg op left r sp s e' he
  have := toDdAssign_Q (badSite cfg) cfg op left r sp s hts e' he
  rw [h1, siteOf_assign, lastOf_ddParen, badSite_of_MirOK hm] at this
  rw [h1]
  simpa [cv] using this

theorem toDdCall_V (cfg : Config) (callee : Node) (cargs : List Node) (csp : Span) (s : St) :
    ∀ e' tag, (toDdCall cfg (.call callee cargs csp) s).1 = some (e', tag) →
      cv cfg e' = cv cfg callee + cvL cfg cargs := by
  intro e' tag he
  obtain ⟨first, args, asg, name, sp, h1, hm⟩ := toDdCall_mirror cfg callee cargs csp s e' tag he
  obtain ⟨csi, _, this⟩ := toDdCall_Q (badSite cfg) cfg callee cargs csp s e' tag he
  rw [lastOf_eq_of_ddParen h1, badSite_of_MirOK hm] at this
  simpa [cv, cvL] using this

end IastModel

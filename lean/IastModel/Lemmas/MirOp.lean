import IastModel.Lemmas.TrSpec
import IastModel.Spec.ArgsMirror
namespace IastModel
open Node

/-! ### what the operand handler pushes, in terms of what it leaves in place -/

def kindOf (spread : Option Span) : IdentKind := if spread.isSome then .spread else .expr

/-- a `+` chain that is not made of literals only: left in place, not passed on -/
def nlSum (e : Node) : Bool := isPlusSum e && !isLiteralSum e

def pushOf (e : Node) (k : IdentKind) : List Node := if nlSum e then [] else [exprOrSpread e k]

def pushOfElem : Node → List Node
  | .arg sp e => pushOf e (kindOf sp)
  | _ => [.arg none voidZero]

def isArrayNode : Node → Bool
  | .array .. => true
  | _ => false

def pushOfX (e : Node) (k : IdentKind) (expand : Bool) : List Node :=
  match e, expand with
  | .array els _, true => (els.map pushOfElem).flatten
  | _, _ => pushOf e k

def pushOfArgX (expand : Bool) : Node → List Node
  | .arg sp e => pushOfX e (kindOf sp) expand
  | _ => []

theorem nlSum_tempIdent (n : Nat) : nlSum (tempIdent n) = false := by simp [nlSum, tempIdent, isPlusSum]

theorem nlSum_of_isLit {e : Node} (h : e.isLit = true) : nlSum e = false := by
  cases e <;> simp_all [nlSum, isPlusSum, Node.isLit]

/-- the result of `replace_default` is the operand itself (a literal) or a fresh temporary, and that is
    what is pushed -/
theorem replaceDefault_push (e : Node) (asg args : List Node) (sp : Span) (k : IdentKind) (s : St) :
    (replaceDefault e asg args sp k s).1.2.2 = args ++ [exprOrSpread (replaceDefault e asg args sp k s).1.1 k] ∧
    (((replaceDefault e asg args sp k s).1.1 = e ∧ e.isLit = true) ∨ ∃ n, (replaceDefault e asg args sp k s).1.1 = tempIdent n) := by
  unfold replaceDefault
  simp only [run_bind, run_pure]
  rcases getIdentUsed_cases e asg args sp k s with ⟨hl, h⟩ | ⟨hl, n, s', h, _⟩
  · rw [h]; exact ⟨rfl, Or.inl ⟨rfl, hl⟩⟩
  · rw [h]; exact ⟨rfl, Or.inr ⟨n, rfl⟩⟩

theorem replaceDefault_pushOf (e : Node) (asg args : List Node) (sp : Span) (k : IdentKind) (s : St) :
    (replaceDefault e asg args sp k s).1.2.2 = args ++ pushOf (replaceDefault e asg args sp k s).1.1 k ∧
    isArrayNode (replaceDefault e asg args sp k s).1.1 = false := by
  obtain ⟨h1, h2⟩ := replaceDefault_push e asg args sp k s
  rcases h2 with ⟨h2, hl⟩ | ⟨n, h2⟩
  · rw [h1, h2]; simp only [pushOf, nlSum_of_isLit hl, Bool.false_eq_true, if_false]
    exact ⟨trivial, by cases e <;> simp_all [isArrayNode, Node.isLit]⟩
  · rw [h1, h2]; simp only [pushOf, nlSum_tempIdent, Bool.false_eq_true, if_false]
    exact ⟨trivial, rfl⟩

theorem replaceExprNoExpand_push (e : Node) (mode : IdentMode) (asg args : List Node) (sp : Span) (k : IdentKind) (s : St) :
    (replaceExprNoExpand e mode asg args sp k s).1.2.2 = args ++ pushOf (replaceExprNoExpand e mode asg args sp k s).1.1 k ∧
    (isArrayNode (replaceExprNoExpand e mode asg args sp k s).1.1 = false) := by
  cases e with
  | lit kk v r lsp => simp [replaceExprNoExpand, run_pure, pushOf, nlSum, isPlusSum, isArrayNode]
  | ident nm isp =>
    cases mode with
    | replace => simp only [replaceExprNoExpand]; exact replaceDefault_pushOf ..
    | keep => simp [replaceExprNoExpand, run_pure, pushOf, nlSum, isPlusSum, isArrayNode]
  | bin op l r bsp =>
    simp only [replaceExprNoExpand]
    by_cases hop : (op != "+") = true
    · simp only [hop, if_true]; exact replaceDefault_pushOf ..
    · simp only [hop, Bool.false_eq_true, if_false]
      have hop' : op = "+" := by simpa using hop
      subst hop'
      by_cases hls : isLiteralSum (.bin "+" l r bsp) = true
      · simp [hls, run_pure, pushOf, nlSum, isArrayNode]
      · simp [hls, run_pure, pushOf, nlSum, isPlusSum, isArrayNode]
  | _ => simp only [replaceExprNoExpand]; exact replaceDefault_pushOf ..

theorem replaceElem_push (a : Node) (mode : IdentMode) (asg args : List Node) (sp : Span) (s : St) :
    (replaceElem a mode asg args sp s).1.2.2 = args ++ pushOfElem (replaceElem a mode asg args sp s).1.1 := by
  cases a with
  | arg spread e =>
    simp only [replaceElem, replaceArgNoExpand, run_bind, run_pure]
    exact (replaceExprNoExpand_push e mode asg args sp (if spread.isSome = true then IdentKind.spread else IdentKind.expr) s).1
  | _ => simp [replaceElem, run_pure, pushOfElem]

theorem replaceElems_push (mode : IdentMode) (sp : Span) : ∀ (xs asg args : List Node) (s : St),
    (replaceElems mode sp xs asg args s).1.2.2 = args ++ ((replaceElems mode sp xs asg args s).1.1.map pushOfElem).flatten := by
  intro xs
  induction xs with
  | nil => intro asg args s; simp [replaceElems, run_pure]
  | cons x xs ih =>
    intro asg args s
    simp only [replaceElems, run_bind, run_pure]
    rw [ih, replaceElem_push]
    simp [List.append_assoc]

theorem replaceExpr_push (e : Node) (mode : IdentMode) (asg args : List Node) (sp : Span) (k : IdentKind) (expand : Bool) (s : St) :
    (replaceExpr e mode asg args sp k expand s).1.2.2 = args ++ pushOfX (replaceExpr e mode asg args sp k expand s).1.1 k expand := by
  unfold replaceExpr
  split
  · rename_i elems asp
    simp only [run_bind, run_pure]
    rw [replaceElems_push]
    rfl
  · rename_i hne
    obtain ⟨h1, h2⟩ := replaceExprNoExpand_push e mode asg args sp k s
    rw [h1]
    congr 1
    generalize (replaceExprNoExpand e mode asg args sp k s).1.1 = e' at h2
    unfold pushOfX
    split
    · simp [isArrayNode] at h2
    · rfl

theorem replaceArg_push (a : Node) (mode : IdentMode) (asg args : List Node) (sp : Span) (expand : Bool) (s : St) :
    (replaceArg a mode asg args sp expand s).1.2.2 = args ++ pushOfArgX expand (replaceArg a mode asg args sp expand s).1.1 := by
  cases a with
  | arg spread e =>
    simp only [replaceArg, run_bind, run_pure]
    exact replaceExpr_push e mode asg args sp _ expand s
  | _ => simp [replaceArg, run_pure, pushOfArgX]

theorem replaceArgs_push (mode : IdentMode) (sp : Span) (expand : Bool) : ∀ (xs asg args : List Node) (s : St),
    (replaceArgs mode sp expand xs asg args s).1.2.2 = args ++ ((replaceArgs mode sp expand xs asg args s).1.1.map (pushOfArgX expand)).flatten := by
  intro xs
  induction xs with
  | nil => intro asg args s; simp [replaceArgs, run_pure]
  | cons x xs ih =>
    intro asg args s
    simp only [replaceArgs, run_bind, run_pure]
    rw [ih, replaceArg_push]
    simp [List.append_assoc]

theorem replaceTplExprs_push : ∀ (xs asg args : List Node) (s : St),
    (replaceTplExprs xs asg args s).1.2.2 = args ++ ((replaceTplExprs xs asg args s).1.1.map (fun e => pushOf e .expr)).flatten := by
  intro xs
  induction xs with
  | nil => intro asg args s; simp [replaceTplExprs, run_pure]
  | cons x xs ih =>
    intro asg args s
    simp only [replaceTplExprs, run_bind, run_pure]
    rw [ih, replaceExpr_push]
    simp [List.append_assoc, pushOfX]

end IastModel
